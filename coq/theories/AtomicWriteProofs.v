(* AtomicWriteProofs.v — C10: every prefix (crash point) of every run of the writer's program, for every
   chunking, every fault and every initial directory, publishes atomically. *)
From Coq Require Import String Ascii List Bool Arith Lia.
From CDI Require Import Base Paths AtomicWrite.
Import ListNotations.
Open Scope string_scope.

(* ---------------- names: a name ending in .tmp is never a Spec file name ---------------- *)
Lemma ext_aux_tmp s acc : ext_aux (s ++ ".tmp") acc = ".tmp".
Proof.
  revert acc; induction s as [|c r IH]; intro acc.
  - reflexivity.
  - cbn [append ext_aux]. destruct (Ascii.eqb c "/"); [apply IH|]. destruct (Ascii.eqb c "."); apply IH.
Qed.

Lemma ends_tmp_not_spec s : is_spec_name (s ++ ".tmp") = false.
Proof. unfold is_spec_name, ext. rewrite ext_aux_tmp. reflexivity. Qed.

Lemma tmp_not_spec rnd : is_spec_name (tmp_name rnd) = false.
Proof. unfold tmp_name. rewrite <- app_assoc_s. apply ends_tmp_not_spec. Qed.

Lemma spec_name_not_tmp n rnd : is_spec_name n = true -> n <> tmp_name rnd.
Proof. intros H E. subst. rewrite tmp_not_spec in H. discriminate. Qed.

(* ---------------- association lists ---------------- *)
Lemma lookup_remove_same {A} n (l : list (name * A)) : lookup n (remove_n n l) = None.
Proof.
  induction l as [|[m v] r IH]; cbn; [reflexivity|].
  destruct (String.eqb n m) eqn:E; [exact IH|]. cbn. rewrite E. exact IH.
Qed.

Lemma lookup_remove_other {A} n m (l : list (name * A)) : n <> m -> lookup n (remove_n m l) = lookup n l.
Proof.
  intro N. induction l as [|[x v] r IH]; cbn; [reflexivity|].
  destruct (String.eqb m x) eqn:E.
  - apply String.eqb_eq in E. subst x. apply String.eqb_neq in N. rewrite N. exact IH.
  - cbn. rewrite IH. reflexivity.
Qed.

Lemma lookup_nbind_same {A} n (v : A) l : lookup n (nbind n v l) = Some v.
Proof. unfold nbind. cbn. rewrite String.eqb_refl. reflexivity. Qed.

Lemma lookup_nbind_other {A} n m (v : A) l : n <> m -> lookup n (nbind m v l) = lookup n l.
Proof.
  intro N. unfold nbind. cbn. pose proof N as N'. apply String.eqb_neq in N'. rewrite N'.
  apply lookup_remove_other. exact N.
Qed.

Lemma dget_dset_same i b d : dget (dset i b d) i = b.
Proof. unfold dset. cbn. rewrite Nat.eqb_refl. reflexivity. Qed.

Lemma dget_dset_other i j b d : j <> i -> dget (dset i b d) j = dget d j.
Proof. intro N. unfold dset. cbn. apply Nat.eqb_neq in N. rewrite N. reflexivity. Qed.

(* ---------------- byte strings ---------------- *)
Lemma take_drop k s : take_s k s ++ drop_s k s = s.
Proof.
  revert s; induction k as [|k IH]; intros [|c r]; cbn; try reflexivity. rewrite IH. reflexivity.
Qed.

Lemma concat_split sizes : forall s, concat_s (split_chunks sizes s) = s.
Proof.
  induction sizes as [|k r IH]; intro s; cbn.
  - destruct s; cbn; [reflexivity|]. rewrite app_nil_r_s. reflexivity.
  - rewrite IH. apply take_drop.
Qed.

Lemma pad_to_length s : pad_to (String.length s) s = s.
Proof. induction s as [|c r IH]; cbn; [reflexivity|]. rewrite IH. reflexivity. Qed.

Lemma drop_s_all s n : drop_s (String.length s + n) s = "".
Proof. induction s as [|c r IH]; cbn; [destruct n; reflexivity|exact IH]. Qed.

Lemma write_at_end s b : write_at s (String.length s) b = s ++ b.
Proof. unfold write_at. rewrite pad_to_length, drop_s_all, app_nil_r_s. reflexivity. Qed.

Lemma concat_s_app a b : concat_s (a ++ b)%list = concat_s a ++ concat_s b.
Proof. induction a as [|x r IH]; cbn; [reflexivity|]. rewrite IH, app_assoc_s. reflexivity. Qed.

Lemma take_s_length k s : String.length (take_s k s) <= k.
Proof. revert s; induction k as [|k IH]; intros [|c r]; cbn; try lia. specialize (IH r). lia. Qed.

Lemma take_s_all k s : String.length s <= k -> take_s k s = s.
Proof.
  revert s; induction k as [|k IH]; intros [|c r]; cbn; intro H; try reflexivity; try lia.
  rewrite IH by lia. reflexivity.
Qed.

(* ---------------- runs ---------------- *)
Lemma run_app l1 l2 st : run (l1 ++ l2)%list st = run l2 (run l1 st).
Proof. unfold run. apply fold_left_app. Qed.

Lemma run_cons o l st : run (o :: l) st = run l (step st o).
Proof. reflexivity. Qed.

(* a run of successive writes on a descriptor positioned at the end of its file appends *)
Lemma run_chunks f cs : forall st i,
  flookup f (fds st) = Some (i, String.length (dget (data st) i)) ->
  let st' := run (map (WriteChunk f) cs) st in
  names st' = names st /\
  dget (data st') i = dget (data st) i ++ concat_s cs /\
  (forall j, j <> i -> dget (data st') j = dget (data st) j).
Proof.
  induction cs as [|c r IH]; intros st i H; cbn zeta.
  - cbn. rewrite app_nil_r_s. auto.
  - cbn [map]. rewrite run_cons.
    set (st1 := step st (WriteChunk f c)).
    assert (N1 : names st1 = names st) by (unfold st1, step; rewrite H; reflexivity).
    assert (D1 : dget (data st1) i = dget (data st) i ++ c).
    { unfold st1, step. rewrite H. cbn [data]. rewrite dget_dset_same. apply write_at_end. }
    assert (O1 : forall j, j <> i -> dget (data st1) j = dget (data st) j).
    { intros j N. unfold st1, step. rewrite H. cbn [data]. apply dget_dset_other. exact N. }
    assert (F1 : flookup f (fds st1) = Some (i, String.length (dget (data st1) i))).
    { rewrite D1. unfold st1, step. rewrite H. cbn [fds flookup]. rewrite Nat.eqb_refl, length_app. reflexivity. }
    destruct (IH st1 i F1) as (A & B & C). cbn zeta in A, B, C.
    split; [congruence|]. split.
    + rewrite B, D1. cbn [concat_s]. apply app_assoc_s.
    + intros j N. rewrite C by exact N. apply O1. exact N.
Qed.

(* ---------------- the phases of the writer ---------------- *)
(* inodes that existed before the write keep their content *)
Definition frame (st0 st : fs) : Prop := forall j, j < next st0 -> dget (data st) j = dget (data st0) j.

Definition namesB (p : wparams) (st0 : fs) := nbind (w_tmp p) (next st0) (names st0).
Definition namesC (p : wparams) (st0 : fs) := nbind (w_target p) (next st0) (remove_n (w_tmp p) (namesB p st0)).
Definition namesD (p : wparams) (st0 : fs) := remove_n (w_tmp p) (namesB p st0).

(* not (yet) published: nothing, or only the temporary file, was added *)
Definition unpublished (p : wparams) (st0 st : fs) : Prop :=
  frame st0 st /\ (names st = names st0 \/ names st = namesB p st0 \/ names st = namesD p st0).

(* published: the temporary inode, holding the complete new content, is bound to the target *)
Definition is_published (p : wparams) (st0 st : fs) : Prop :=
  frame st0 st /\ names st = namesC p st0 /\ dget (data st) (next st0) = w_new p.

Definition state_at (p : wparams) (st0 : fs) (k : nat) : fs := run (firstn k (writer_ops p)) st0.

Lemma frame_refl st : frame st st.
Proof. intros j _. reflexivity. Qed.

(* the states while the temporary file is being written *)
Lemma write_phase p st0 m :
  lookup (w_tmp p) (names st0) = None ->
  let st := run (firstn m (chunk_ops p)) (step (step st0 MkdirAll) (CreateExcl (w_fd p) (w_tmp p))) in
  names st = namesB p st0 /\ frame st0 st /\
  dget (data st) (next st0) = concat_s (firstn m (split_chunks (w_chunks p) (written p))).
Proof.
  intros Hf. cbn zeta.
  set (st2 := step (step st0 MkdirAll) (CreateExcl (w_fd p) (w_tmp p))).
  assert (E2 : st2 = mkfs true (namesB p st0) (dset (next st0) "" (data st0)) (S (next st0))
                          ((w_fd p, (next st0, 0)) :: fds st0)).
  { unfold st2, CreateExcl, step. cbn [names dir_ok data next fds]. rewrite Hf. reflexivity. }
  unfold chunk_ops. rewrite firstn_map.
  destruct (run_chunks (w_fd p) (firstn m (split_chunks (w_chunks p) (written p))) st2 (next st0)) as (A & B & C).
  { rewrite E2. cbn [fds flookup data]. rewrite Nat.eqb_refl, dget_dset_same. reflexivity. }
  cbn zeta in A, B, C. split; [|split].
  - etransitivity; [exact A|]. rewrite E2. reflexivity.
  - intros j Hj. etransitivity; [apply C; lia|]. rewrite E2. cbn [data]. apply dget_dset_other. lia.
  - etransitivity; [exact B|]. rewrite E2. cbn [data]. rewrite dget_dset_same. reflexivity.
Qed.

Lemma firstn_split_all m p :
  length (chunk_ops p) <= m -> concat_s (firstn m (split_chunks (w_chunks p) (written p))) = written p.
Proof.
  intro H. unfold chunk_ops in H. rewrite map_length in H. rewrite firstn_all2 by exact H. apply concat_split.
Qed.

Lemma lookup_tmp_B p st0 : lookup (w_tmp p) (namesB p st0) = Some (next st0).
Proof. apply lookup_nbind_same. Qed.

(* the central case analysis: where the writer is after k operations *)
Lemma prefix_phase p st0 k :
  lookup (w_tmp p) (names st0) = None ->
  (w_fault p = NoFault /\ rename_pos p < k /\ is_published p st0 (state_at p st0 k)) \/
  ((w_fault p <> NoFault \/ k <= rename_pos p) /\ unpublished p st0 (state_at p st0 k)).
Proof.
  intro Hf. unfold state_at, rename_pos.
  assert (UA : forall st, names st = names st0 -> data st = data st0 -> unpublished p st0 st).
  { intros st N D. split; [intros j _; rewrite D; reflexivity|left; exact N]. }
  destruct (w_fault p) eqn:Ef.
  - (* NoFault *)
    unfold writer_ops. rewrite Ef.
    destruct k as [|[|k2]].
    + right. split; [right; lia|]. apply UA; reflexivity.
    + right. split; [right; lia|]. apply UA; reflexivity.
    + cbn [firstn]. rewrite !run_cons, firstn_app, run_app.
      set (n := length (chunk_ops p)).
      destruct (write_phase p st0 k2 Hf) as (NB & FR & DT). cbn zeta in NB, FR, DT.
      set (stw := run (firstn k2 (chunk_ops p)) (step (step st0 MkdirAll) (CreateExcl (w_fd p) (w_tmp p)))) in *.
      unfold post_ops. rewrite Ef.
      destruct (k2 - n) as [|[|m]] eqn:Em.
      * right. split; [right; lia|]. cbn [firstn run fold_left]. split; [exact FR|right; left; exact NB].
      * right. split; [right; lia|]. cbn [firstn]. rewrite run_cons. cbn [run fold_left].
        split; [exact FR|right; left; exact NB].
      * left. split; [reflexivity|]. split; [lia|].
        assert (Hall : n <= k2) by lia.
        rewrite (firstn_split_all k2 p Hall) in DT. unfold written in DT. rewrite Ef in DT.
        replace (firstn (S (S m)) [Close (w_fd p); Rename (w_tmp p) (w_target p) false])
          with [Close (w_fd p); Rename (w_tmp p) (w_target p) false] by (destruct m; reflexivity).
        rewrite !run_cons. cbn [run fold_left].
        set (stc := step stw (Close (w_fd p))).
        assert (NC : names stc = namesB p st0) by exact NB.
        unfold step at 1. rewrite NC, lookup_tmp_B. cbn [andb names data].
        split; [|split].
        -- exact FR.
        -- reflexivity.
        -- exact DT.
  - (* MkdirFails *)
    right. split; [left; discriminate|]. unfold writer_ops. rewrite Ef.
    destruct k as [|k]; cbn [firstn]; [apply UA; reflexivity|].
    replace (firstn k []) with (@nil op) by (destruct k; reflexivity). apply UA; reflexivity.
  - (* CreateFails *)
    right. split; [left; discriminate|]. unfold writer_ops. rewrite Ef.
    destruct k as [|[|k]]; cbn [firstn]; try (apply UA; reflexivity).
    replace (firstn k []) with (@nil op) by (destruct k; reflexivity). apply UA; reflexivity.
  - (* WriteFails *)
    right. split; [left; discriminate|]. unfold writer_ops. rewrite Ef.
    destruct k as [|[|k2]]; try (apply UA; reflexivity).
    cbn [firstn]. rewrite !run_cons, firstn_app, run_app.
    destruct (write_phase p st0 k2 Hf) as (NB & FR & _). cbn zeta in NB, FR.
    set (stw := run (firstn k2 (chunk_ops p)) (step (step st0 MkdirAll) (CreateExcl (w_fd p) (w_tmp p)))) in *.
    unfold post_ops. rewrite Ef.
    destruct (k2 - length (chunk_ops p)) as [|[|m]].
    + cbn [firstn run fold_left]. split; [exact FR|right; left; exact NB].
    + cbn [firstn run fold_left step]. split; [exact FR|right; left; exact NB].
    + replace (firstn (S (S m)) [Fail "write"; Close (w_fd p)]) with [Fail "write"; Close (w_fd p)]
        by (destruct m; reflexivity).
      cbn [run fold_left]. split; [exact FR|right; left; exact NB].
  - (* RenameFails *)
    right. split; [left; discriminate|]. unfold writer_ops. rewrite Ef.
    destruct k as [|[|k2]]; try (apply UA; reflexivity).
    cbn [firstn]. rewrite !run_cons, firstn_app, run_app.
    destruct (write_phase p st0 k2 Hf) as (NB & FR & _). cbn zeta in NB, FR.
    set (stw := run (firstn k2 (chunk_ops p)) (step (step st0 MkdirAll) (CreateExcl (w_fd p) (w_tmp p)))) in *.
    unfold post_ops. rewrite Ef.
    destruct (k2 - length (chunk_ops p)) as [|[|[|m]]].
    + cbn [firstn run fold_left]. split; [exact FR|right; left; exact NB].
    + cbn [firstn run fold_left]. split; [exact FR|right; left; exact NB].
    + cbn [firstn run fold_left]. split; [exact FR|right; left; exact NB].
    + replace (firstn (S (S (S m))) [Close (w_fd p); Fail "rename"; Unlink (w_tmp p)])
        with [Close (w_fd p); Fail "rename"; Unlink (w_tmp p)] by (destruct m; reflexivity).
      cbn [run fold_left]. split; [exact FR|right; right].
      change (names (step (step (step stw (Close (w_fd p))) (Fail "rename")) (Unlink (w_tmp p))))
        with (remove_n (w_tmp p) (names stw)).
      rewrite NB. reflexivity.
Qed.

(* ---------------- what a name shows in the two kinds of states ---------------- *)
Lemma lookup_unpublished p st0 st n :
  unpublished p st0 st -> n <> w_tmp p -> lookup n (names st) = lookup n (names st0).
Proof.
  intros [_ [E|[E|E]]] N; rewrite E; [reflexivity| |].
  - apply lookup_nbind_other. exact N.
  - unfold namesD, namesB. rewrite lookup_remove_other by exact N. apply lookup_nbind_other. exact N.
Qed.

Lemma content_by_frame st0 st n :
  wf st0 -> frame st0 st -> lookup n (names st) = lookup n (names st0) -> content st n = content st0 n.
Proof.
  intros W F E. unfold content. rewrite E. destruct (lookup n (names st0)) as [i|] eqn:L; [|reflexivity].
  cbn. f_equal. apply F. apply (W n i L).
Qed.

Lemma content_unpublished p st0 st n :
  wf st0 -> unpublished p st0 st -> n <> w_tmp p -> content st n = content st0 n.
Proof.
  intros W U N. apply content_by_frame; [exact W|exact (proj1 U)|]. apply (lookup_unpublished p); assumption.
Qed.

Lemma lookup_published_other p st0 st n :
  is_published p st0 st -> n <> w_tmp p -> n <> w_target p -> lookup n (names st) = lookup n (names st0).
Proof.
  intros (_ & E & _) N1 N2. rewrite E. unfold namesC, namesB.
  rewrite lookup_nbind_other by exact N2. rewrite lookup_remove_other by exact N1.
  apply lookup_nbind_other. exact N1.
Qed.

Lemma lookup_published_target p st0 st :
  is_published p st0 st -> lookup (w_target p) (names st) = Some (next st0).
Proof. intros (_ & E & _). rewrite E. apply lookup_nbind_same. Qed.

Lemma content_published_target p st0 st :
  is_published p st0 st -> content st (w_target p) = Some (w_new p).
Proof.
  intro P. unfold content. rewrite (lookup_published_target p st0 st P). cbn.
  destruct P as (_ & _ & D). rewrite D. reflexivity.
Qed.

Lemma content_published_other p st0 st n :
  wf st0 -> is_published p st0 st -> n <> w_tmp p -> n <> w_target p -> content st n = content st0 n.
Proof.
  intros W P N1 N2. apply content_by_frame; [exact W|exact (proj1 P)|].
  apply (lookup_published_other p); assumption.
Qed.

Lemma frame_at p st0 k : lookup (w_tmp p) (names st0) = None -> frame st0 (state_at p st0 k).
Proof. intro Hf. destruct (prefix_phase p st0 k Hf) as [(_ & _ & P)|(_ & U)]; [exact (proj1 P)|exact (proj1 U)]. Qed.

(* ---------------- the theorems of C10 ---------------- *)

(* every crash point k, every chunking, every fault, any previous directory content: under every Spec file
   name there is what was there before, or - under the target only - the complete new content *)
Theorem atomic_publication p st0 k n :
  wf st0 -> lookup (w_tmp p) (names st0) = None -> is_spec_name n = true ->
  content (state_at p st0 k) n = content st0 n \/
  (n = w_target p /\ content (state_at p st0 k) n = Some (w_new p)).
Proof.
  intros W Hf S. pose proof (spec_name_not_tmp n (w_rnd p) S) as N.
  destruct (prefix_phase p st0 k Hf) as [(_ & _ & P)|(_ & U)].
  - destruct (string_dec n (w_target p)) as [->|N2].
    + right. split; [reflexivity|]. apply (content_published_target p st0). exact P.
    + left. apply (content_published_other p); assumption.
  - left. apply (content_unpublished p); assumption.
Qed.

(* a failed write (any fault, at any point, also to completion) and a write interrupted before the rename
   leave every Spec file name exactly as it was *)
Theorem failed_write_leaves_nothing_loadable p st0 k n :
  wf st0 -> lookup (w_tmp p) (names st0) = None ->
  w_fault p <> NoFault \/ k <= rename_pos p ->
  is_spec_name n = true -> content (state_at p st0 k) n = content st0 n.
Proof.
  intros W Hf H S. pose proof (spec_name_not_tmp n (w_rnd p) S) as N.
  destruct (prefix_phase p st0 k Hf) as [(E & L & _)|(_ & U)].
  - destruct H as [H|H]; [congruence|lia].
  - apply (content_unpublished p); assumption.
Qed.

(* the only names that ever appear are the temporary name (never a Spec name) and the target *)
Theorem only_tmp_and_target_appear p st0 k n :
  lookup (w_tmp p) (names st0) = None ->
  lookup n (names (state_at p st0 k)) <> None ->
  lookup n (names st0) <> None \/ n = w_target p \/ n = w_tmp p.
Proof.
  intros Hf H.
  destruct (string_dec n (w_tmp p)) as [->|N1]; [right; right; reflexivity|].
  destruct (string_dec n (w_target p)) as [->|N2]; [right; left; reflexivity|].
  left. destruct (prefix_phase p st0 k Hf) as [(_ & _ & P)|(_ & U)].
  - rewrite <- (lookup_published_other p st0 _ n P N1 N2). exact H.
  - rewrite <- (lookup_unpublished p st0 _ n U N1). exact H.
Qed.

(* an inode reachable under a Spec file name at crash point k holds the same bytes at every later point *)
Theorem published_immutable p st0 k k' n i :
  wf st0 -> lookup (w_tmp p) (names st0) = None -> k <= k' ->
  is_spec_name n = true -> lookup n (names (state_at p st0 k)) = Some i ->
  dget (data (state_at p st0 k')) i = dget (data (state_at p st0 k)) i.
Proof.
  intros W Hf Hk S L. pose proof (spec_name_not_tmp n (w_rnd p) S) as N.
  assert (Old : lookup n (names st0) = Some i ->
                dget (data (state_at p st0 k')) i = dget (data (state_at p st0 k)) i).
  { intro L0. pose proof (W n i L0) as Hi.
    rewrite (frame_at p st0 k' Hf i Hi), (frame_at p st0 k Hf i Hi). reflexivity. }
  destruct (prefix_phase p st0 k Hf) as [(E & Lk & P)|(_ & U)].
  - destruct (string_dec n (w_target p)) as [->|N2].
    + rewrite (lookup_published_target p st0 _ P) in L. inversion L; subst i.
      destruct (prefix_phase p st0 k' Hf) as [(_ & _ & P')|([H|H] & _)]; [|congruence|lia].
      destruct P as (_ & _ & D), P' as (_ & _ & D'). rewrite D, D'. reflexivity.
    + apply Old. rewrite <- (lookup_published_other p st0 _ n P N N2). exact L.
  - apply Old. rewrite <- (lookup_unpublished p st0 _ n U N). exact L.
Qed.

(* a reader which opens the target at any point k and reads the inode it got at any later points reads one
   byte string throughout, and that is the complete previous or the complete new content *)
Theorem reader_sees_old_or_new p st0 k i :
  wf st0 -> lookup (w_tmp p) (names st0) = None -> is_spec_name (w_target p) = true ->
  lookup (w_target p) (names (state_at p st0 k)) = Some i ->
  exists b, (content st0 (w_target p) = Some b \/ b = w_new p) /\
            forall k', k <= k' -> dget (data (state_at p st0 k')) i = b.
Proof.
  intros W Hf S L. exists (dget (data (state_at p st0 k)) i). split.
  - destruct (atomic_publication p st0 k (w_target p) W Hf S) as [E|[_ E]];
      unfold content in E at 1; rewrite L in E; cbn in E.
    + left. symmetry. exact E.
    + right. inversion E. reflexivity.
  - intros k' Hk. apply (published_immutable p st0 k k' (w_target p) i); assumption.
Qed.

Lemma writer_ops_length_nofault p : w_fault p = NoFault -> length (writer_ops p) = S (rename_pos p).
Proof.
  intro E. unfold writer_ops, rename_pos, post_ops. rewrite E. cbn [length]. rewrite app_length. cbn [length]. lia.
Qed.

(* a complete undisturbed run changes the target and nothing else: the temporary name is gone again *)
Theorem touches_only_target p st0 k :
  wf st0 -> lookup (w_tmp p) (names st0) = None -> is_spec_name (w_target p) = true ->
  w_fault p = NoFault -> length (writer_ops p) <= k ->
  content (state_at p st0 k) (w_target p) = Some (w_new p) /\
  forall n, n <> w_target p -> content (state_at p st0 k) n = content st0 n.
Proof.
  intros W Hf S E Hk. rewrite (writer_ops_length_nofault p E) in Hk.
  destruct (prefix_phase p st0 k Hf) as [(_ & _ & P)|([H|H] & _)]; [|congruence|lia].
  split; [apply (content_published_target p st0); exact P|].
  intros n N2. destruct (string_dec n (w_tmp p)) as [->|N1].
  - unfold content at 2. rewrite Hf. unfold content. destruct P as (_ & En & _). rewrite En. unfold namesC.
    rewrite lookup_nbind_other by exact N2. rewrite lookup_remove_same. reflexivity.
  - apply (content_published_other p); assumption.
Qed.

(* the boolean form evaluated by the judge agrees with the statement *)
Lemma entry_ok_true st0 tgt new st n :
  entry_ok st0 tgt new st n = true <->
  content st n = content st0 n \/ (n = tgt /\ content st n = Some new).
Proof.
  unfold entry_ok, ob_eqb.
  assert (OE : forall a b : option bytes, option_eqb String.eqb a b = true <-> a = b).
  { intros [a|] [b|]; cbn; split; intro H; try discriminate; try reflexivity.
    - apply String.eqb_eq in H. congruence.
    - inversion H. apply String.eqb_refl. }
  rewrite orb_true_iff, andb_true_iff, !OE, String.eqb_eq. tauto.
Qed.

Theorem atomic_ok_b_holds p st0 k :
  wf st0 -> lookup (w_tmp p) (names st0) = None ->
  atomic_ok_b st0 (w_target p) (w_new p) (state_at p st0 k) = true.
Proof.
  intros W Hf. unfold atomic_ok_b. apply forallb_forall. intros n _.
  destruct (is_spec_name n) eqn:S; [|reflexivity]. cbn [negb orb].
  apply entry_ok_true. apply atomic_publication; assumption.
Qed.

(* ---------------- any interleaving of a reader with the writer ---------------- *)
Lemma skipn_cons_firstn {A} k (l : list A) o rest :
  skipn k l = o :: rest -> firstn (S k) l = (firstn k l ++ [o])%list /\ skipn (S k) l = rest.
Proof.
  revert l; induction k as [|k IH]; intros [|x l] H; cbn in H; try discriminate.
  - inversion H; subst. split; reflexivity.
  - destruct (IH l H) as [HA HB]. split; [cbn [firstn app]; rewrite <- HA; reflexivity|exact HB].
Qed.

Lemma state_at_succ p st0 k o rest :
  skipn k (writer_ops p) = o :: rest -> step (state_at p st0 k) o = state_at p st0 (S k).
Proof.
  intro H. destruct (skipn_cons_firstn k _ o rest H) as [A _]. unfold state_at. rewrite A, run_app. reflexivity.
Qed.

Lemma take_s_nil k : take_s k "" = "".
Proof. destruct k; reflexivity. Qed.

Lemma take_s_idem l s : take_s (String.length (take_s l s)) s = take_s l s.
Proof. revert s; induction l as [|l IH]; intros [|c r]; cbn; try reflexivity. rewrite IH. reflexivity. Qed.

Lemma take_take a : forall l s,
  take_s a s ++ take_s l (drop_s a s) = take_s (a + String.length (take_s l (drop_s a s))) s.
Proof.
  induction a as [|a IH]; intros l s.
  - cbn. symmetry. apply take_s_idem.
  - destruct s as [|c r].
    + cbn [drop_s]. rewrite !take_s_nil. reflexivity.
    + cbn. rewrite IH. reflexivity.
Qed.

Lemma take_nonempty l c r : l <> 0 -> String.length (take_s l (String c r)) <> 0.
Proof. destruct l; [congruence|]. cbn. discriminate. Qed.

(* the reader's state while it reads an inode whose content b does not change *)
Definition reading (i : inode) (b : bytes) (rd : reader) : Prop :=
  r_ino rd = Some i /\ r_buf rd = take_s (r_off rd) b /\ (r_eof rd = true -> r_buf rd = b).

Lemma reading_step i b st rd len :
  dget (data st) i = b -> reading i b rd -> reading i b (rstep st rd (RRead len)).
Proof.
  intros D (I & B & E). unfold rstep. rewrite I, D. split; [reflexivity|]. cbn [r_ino r_off r_buf r_eof]. split.
  - rewrite B. apply take_take.
  - intro H. apply orb_true_iff in H as [H|H].
    + assert (Dr : drop_s (r_off rd) b = "").
      { pose proof (take_drop (r_off rd) b) as T. rewrite <- B, (E H) in T.
        destruct (drop_s (r_off rd) b) as [|c r]; [reflexivity|].
        exfalso. assert (L : String.length (b ++ String c r) = String.length b) by (rewrite T; reflexivity).
        rewrite length_app in L. cbn in L. lia. }
      rewrite Dr, take_s_nil, app_nil_r_s. exact (E H).
    + apply andb_true_iff in H as [H1 H2]. apply negb_true_iff, Nat.eqb_neq in H1. apply Nat.eqb_eq in H2.
      destruct (drop_s (r_off rd) b) as [|c r] eqn:Dr.
      * rewrite take_s_nil, app_nil_r_s, B. pose proof (take_drop (r_off rd) b) as T.
        rewrite Dr, app_nil_r_s in T. exact T.
      * exfalso. exact (take_nonempty len c r H1 H2).
Qed.

Definition read_only (e : ev) : Prop := match e with EvR (ROpen _) => False | _ => True end.

(* the writer's side of any schedule: it is always at some prefix of its program *)
Lemma sys_run_writer p st0 sched : forall k rd,
  exists k' rd', k <= k' /\
    sys_run sched (state_at p st0 k, skipn k (writer_ops p), rd) = (state_at p st0 k', skipn k' (writer_ops p), rd').
Proof.
  induction sched as [|e r IH]; intros k rd.
  - exists k, rd. split; [lia|reflexivity].
  - unfold sys_run. cbn [fold_left]. fold (sys_run r). destruct e as [|ro].
    + cbn [sys_step]. destruct (skipn k (writer_ops p)) as [|o rest] eqn:Sk.
      * rewrite <- Sk. apply IH.
      * rewrite (state_at_succ p st0 k o rest Sk). destruct (skipn_cons_firstn k _ o rest Sk) as [_ <-].
        destruct (IH (S k) rd) as (k' & rd' & L & E). exists k', rd'. split; [lia|exact E].
    + cbn [sys_step]. apply IH.
Qed.

Lemma sys_run_reading p st0 i b sched : forall k rd,
  (forall k', k <= k' -> dget (data (state_at p st0 k')) i = b) ->
  Forall read_only sched -> reading i b rd ->
  exists k' rd', reading i b rd' /\
    sys_run sched (state_at p st0 k, skipn k (writer_ops p), rd) = (state_at p st0 k', skipn k' (writer_ops p), rd').
Proof.
  induction sched as [|e r IH]; intros k rd Hb Hs Hr.
  - exists k, rd. split; [exact Hr|reflexivity].
  - inversion Hs as [|? ? He Hs']; subst. unfold sys_run. cbn [fold_left]. fold (sys_run r). destruct e as [|[nm|len]].
    + cbn [sys_step]. destruct (skipn k (writer_ops p)) as [|o rest] eqn:Sk.
      * rewrite <- Sk. apply IH; assumption.
      * rewrite (state_at_succ p st0 k o rest Sk). destruct (skipn_cons_firstn k _ o rest Sk) as [_ <-].
        apply IH; [|assumption|assumption]. intros k' L. apply Hb. lia.
    + destruct He.
    + cbn [sys_step]. apply IH; [assumption|assumption|].
      apply reading_step; [apply Hb; lia|exact Hr].
Qed.

Lemma sys_run_app a b s : sys_run (a ++ b)%list s = sys_run b (sys_run a s).
Proof. unfold sys_run. apply fold_left_app. Qed.

Lemma sys_run_cons e r s : sys_run (e :: r) s = sys_run r (sys_step s e).
Proof. reflexivity. Qed.

(* EVERY schedule: after any history the reader opens the target, then writer steps and reads interleave
   arbitrarily; what the reader has when it sees end of file is the complete previous or the complete new content *)
Theorem reader_any_schedule p st0 sched1 sched2 :
  wf st0 -> lookup (w_tmp p) (names st0) = None -> is_spec_name (w_target p) = true ->
  Forall read_only sched2 ->
  forall b, r_result (snd (sys_run (sched1 ++ EvR (ROpen (w_target p)) :: sched2)%list (st0, writer_ops p, reader0))) = Some b ->
  content st0 (w_target p) = Some b \/ b = w_new p.
Proof.
  intros W Hf S Hs b Hres. rewrite sys_run_app in Hres.
  destruct (sys_run_writer p st0 sched1 0 reader0) as (k & rd & _ & E).
  change (state_at p st0 0) with st0 in E. change (skipn 0 (writer_ops p)) with (writer_ops p) in E.
  rewrite E, sys_run_cons in Hres. cbn [sys_step rstep] in Hres.
  destruct (lookup (w_target p) (names (state_at p st0 k))) as [i|] eqn:L.
  - destruct (reader_sees_old_or_new p st0 k i W Hf S L) as (b0 & Hb0 & Hconst).
    destruct (sys_run_reading p st0 i b0 sched2 k (mkr (Some i) 0 "" false) Hconst Hs) as (k' & rd' & (_ & _ & Heof) & E2).
    { split; [reflexivity|]. split; [reflexivity|cbn; discriminate]. }
    rewrite E2 in Hres. cbn [snd] in Hres. unfold r_result in Hres.
    destruct (r_eof rd') eqn:Ee; [|discriminate]. inversion Hres; subst b. rewrite (Heof eq_refl). exact Hb0.
  - (* the open failed: no descriptor, nothing is ever read *)
    exfalso.
    assert (N : forall sched k0 rd0, r_ino rd0 = None -> r_eof rd0 = false -> Forall read_only sched ->
              r_eof (snd (sys_run sched (state_at p st0 k0, skipn k0 (writer_ops p), rd0))) = false).
    { induction sched as [|e r IH]; intros k0 rd0 I0 E0 F; [exact E0|].
      inversion F as [|? ? He F']; subst. unfold sys_run. cbn [fold_left]. fold (sys_run r). destruct e as [|[nm|len]].
      - cbn [sys_step]. destruct (skipn k0 (writer_ops p)) as [|o rest] eqn:Sk.
        + rewrite <- Sk. apply IH; assumption.
        + rewrite (state_at_succ p st0 k0 o rest Sk). destruct (skipn_cons_firstn k0 _ o rest Sk) as [_ <-].
          apply IH; assumption.
      - destruct He.
      - cbn [sys_step]. unfold rstep. rewrite I0. apply IH; assumption. }
    specialize (N sched2 k (mkr None 0 "" false) eq_refl eq_refl Hs).
    unfold r_result in Hres. rewrite N in Hres. discriminate.
Qed.

(* ---------------- the hypotheses are satisfiable and the statements are not vacuous ---------------- *)
Definition ex_st0 : fs := fs_of true [("other.json", "{other}"); ("vendor.yaml", "old: content")].
Definition ex_p (f : fault) : wparams := mkw "vendor.yaml" "new: content" "123456789" 3 [4; 3] f.

Lemma ex_wf : wf ex_st0.
Proof.
  intros n i H. apply Nat.ltb_lt. revert H. cbn.
  repeat (destruct (String.eqb n _); [intro H; inversion H; reflexivity|]). discriminate.
Qed.

Lemma ex_fresh f : lookup (w_tmp (ex_p f)) (names ex_st0) = None.
Proof. reflexivity. Qed.

(* the content under the target at every crash point of an undisturbed overwrite: old, ..., old, new *)
Example ex_all_prefixes :
  map (fun k => content (state_at (ex_p NoFault) ex_st0 k) "vendor.yaml") [0; 1; 2; 3; 4; 5; 6; 7; 8] =
  [Some "old: content"; Some "old: content"; Some "old: content"; Some "old: content"; Some "old: content";
   Some "old: content"; Some "old: content"; Some "new: content"; Some "new: content"].
Proof. vm_compute. reflexivity. Qed.

(* the temporary file really holds partial content on the way, and stays behind after a failed write *)
Example ex_partial_tmp :
  content (state_at (ex_p NoFault) ex_st0 3) "spec.123456789.tmp" = Some "new:" /\
  listing (state_at (ex_p (WriteFails 6)) ex_st0 99) =
    [("other.json", "{other}"); ("spec.123456789.tmp", "new: c"); ("vendor.yaml", "old: content")] /\
  listing (state_at (ex_p RenameFails) ex_st0 99) = [("other.json", "{other}"); ("vendor.yaml", "old: content")] /\
  listing (state_at (ex_p NoFault) ex_st0 99) = [("other.json", "{other}"); ("vendor.yaml", "new: content")].
Proof. vm_compute. repeat split. Qed.

(* the predicate is falsifiable: an in-place rewrite of the target shows an empty, then a partial file *)
Example ex_in_place_violates :
  map (atomic_ok_b ex_st0 "vendor.yaml" "new: content")
      (trace ex_st0 [OpenW 3 "vendor.yaml" true false true; WriteChunk 3 "new:"; WriteChunk 3 " content"; Close 3]) =
  [true; false; false; true; true].
Proof. vm_compute. reflexivity. Qed.
