(* CodecProofs.v — struct_roundtrip: decoding the encoding of any Spec value (integers in their Go ranges) gives the
   value back, in every field and list order.  Per struct: the decoder finds every member the encoder may emit
   (brute force over the presence pattern), then per-field scalar round trips. *)
From Coq Require Import String Ascii List Bool Arith ZArith Lia.
From CDI Require Import Base SpecModel Doc Decode Codec.
Import ListNotations.
Open Scope string_scope.

(* ---------- member lookup, per struct, for EVERY presence pattern and every member value ---------- *)
Lemma members_devnode (m1 m2 m3 m4 m5 m6 m7 m8 m9 : option doc) :
  let f := somes [opt "path" m1; opt "hostPath" m2; opt "type" m3; opt "major" m4; opt "minor" m5; opt "fileMode" m6;
                  opt "permissions" m7; opt "uid" m8; opt "gid" m9] in
  all_known devnode_fields f = true /\
  fld "path" f = dflt m1 /\ fld "hostPath" f = dflt m2 /\ fld "type" f = dflt m3 /\ fld "major" f = dflt m4 /\
  fld "minor" f = dflt m5 /\ fld "fileMode" f = dflt m6 /\ fld "permissions" f = dflt m7 /\ fld "uid" f = dflt m8 /\
  fld "gid" f = dflt m9.
Proof.
  destruct m1, m2, m3, m4, m5, m6, m7, m8, m9; vm_compute; repeat split; reflexivity.
Qed.

Lemma members_mount (m1 m2 m3 m4 : option doc) :
  let f := somes [opt "hostPath" m1; opt "containerPath" m2; opt "options" m3; opt "type" m4] in
  all_known mount_fields f = true /\
  fld "hostPath" f = dflt m1 /\ fld "containerPath" f = dflt m2 /\ fld "options" f = dflt m3 /\ fld "type" f = dflt m4.
Proof. destruct m1, m2, m3, m4; vm_compute; repeat split; reflexivity. Qed.

Lemma members_hook (m1 m2 m3 m4 m5 : option doc) :
  let f := somes [opt "hookName" m1; opt "path" m2; opt "args" m3; opt "env" m4; opt "timeout" m5] in
  all_known hook_fields f = true /\
  fld "hookName" f = dflt m1 /\ fld "path" f = dflt m2 /\ fld "args" f = dflt m3 /\ fld "env" f = dflt m4 /\ fld "timeout" f = dflt m5.
Proof. destruct m1, m2, m3, m4, m5; vm_compute; repeat split; reflexivity. Qed.

Lemma members_rdt (m1 m2 m3 m4 m5 : option doc) :
  let f := somes [opt "closID" m1; opt "l3CacheSchema" m2; opt "memBwSchema" m3; opt "enableCMT" m4; opt "enableMBM" m5] in
  all_known rdt_fields f = true /\
  fld "closID" f = dflt m1 /\ fld "l3CacheSchema" f = dflt m2 /\ fld "memBwSchema" f = dflt m3 /\ fld "enableCMT" f = dflt m4 /\
  fld "enableMBM" f = dflt m5.
Proof. destruct m1, m2, m3, m4, m5; vm_compute; repeat split; reflexivity. Qed.

Lemma members_edits (m1 m2 m3 m4 m5 m6 : option doc) :
  let f := somes [opt "env" m1; opt "deviceNodes" m2; opt "hooks" m3; opt "mounts" m4; opt "intelRdt" m5; opt "additionalGids" m6] in
  all_known edits_fields f = true /\
  fld "env" f = dflt m1 /\ fld "deviceNodes" f = dflt m2 /\ fld "hooks" f = dflt m3 /\ fld "mounts" f = dflt m4 /\
  fld "intelRdt" f = dflt m5 /\ fld "additionalGids" f = dflt m6.
Proof. destruct m1, m2, m3, m4, m5, m6; vm_compute; repeat split; reflexivity. Qed.

Lemma members_device (m1 m2 m3 : option doc) :
  let f := somes [opt "name" m1; opt "annotations" m2; opt "containerEdits" m3] in
  all_known device_fields f = true /\
  fld "name" f = dflt m1 /\ fld "annotations" f = dflt m2 /\ fld "containerEdits" f = dflt m3.
Proof. destruct m1, m2, m3; vm_compute; repeat split; reflexivity. Qed.

Lemma members_spec (m1 m2 m3 m4 m5 : option doc) :
  let f := somes [opt "cdiVersion" m1; opt "kind" m2; opt "annotations" m3; opt "devices" m4; opt "containerEdits" m5] in
  all_known spec_fields f = true /\
  fld "cdiVersion" f = dflt m1 /\ fld "kind" f = dflt m2 /\ fld "annotations" f = dflt m3 /\ fld "devices" f = dflt m4 /\
  fld "containerEdits" f = dflt m5.
Proof. destruct m1, m2, m3, m4, m5; vm_compute; repeat split; reflexivity. Qed.

(* ---------- the encoder's members in [opt] form ---------- *)
Lemma always_opt k v : always k v = opt k (Some v). Proof. reflexivity. Qed.
Lemma omit_s_opt k v : omit_s k v = opt k (if String.eqb v "" then None else Some (DStr v)).
Proof. unfold omit_s. destruct (String.eqb v ""); reflexivity. Qed.
Lemma omit_z_opt k v : omit_z k v = opt k (if Z.eqb v 0 then None else Some (DInt v)).
Proof. unfold omit_z. destruct (Z.eqb v 0); reflexivity. Qed.
Lemma omit_b_opt k v : omit_b k v = opt k (if v then Some (DBool true) else None).
Proof. unfold omit_b. destruct v; reflexivity. Qed.
Lemma omit_o_opt k v : omit_o k v = opt k (option_map DInt v).
Proof. unfold omit_o, opt. destruct v; reflexivity. Qed.
Lemma omit_l_opt k (l : list doc) : omit_l k l = opt k (match l with [] => None | _ => Some (DArr l) end).
Proof. unfold omit_l. destruct l; reflexivity. Qed.
Lemma omit_m_opt k (l : list (string * doc)) : omit_m k l = opt k (match l with [] => None | _ => Some (DObj l) end).
Proof. unfold omit_m. destruct l; reflexivity. Qed.
Lemma omit_p_opt k o : omit_p k o = opt k o.
Proof. unfold omit_p, opt. destruct o; reflexivity. Qed.

(* ---------- scalar round trips ---------- *)
Lemma rt_string_always s : dec_string (dflt (Some (DStr s))) = Ok s. Proof. reflexivity. Qed.
Lemma rt_string s : dec_string (dflt (if String.eqb s "" then None else Some (DStr s))) = Ok s.
Proof. destruct (String.eqb_spec s ""); [subst; reflexivity|reflexivity]. Qed.
Lemma rt_int lo hi z : in_range lo hi z = true -> dec_int lo hi (dflt (if Z.eqb z 0 then None else Some (DInt z))) = Ok z.
Proof.
  intro H. destruct (Z.eqb_spec z 0); [subst; reflexivity|]. cbn [dflt dec_int]. rewrite H. reflexivity.
Qed.
Lemma rt_optint lo hi o : opt_in lo hi o = true -> dec_optint lo hi (dflt (option_map DInt o)) = Ok o.
Proof.
  destruct o as [z|]; cbn [opt_in option_map dflt dec_optint]; [|reflexivity]. intro H.
  unfold dec_int. rewrite H. reflexivity.
Qed.
Lemma rt_bool (b : bool) : dec_bool (dflt (if b then Some (DBool true) else None)) = Ok b.
Proof. destruct b; reflexivity. Qed.

Lemma map_result_map {A B C} (enc : A -> C) (dec : C -> result B) (g : A -> B) l :
  (forall x, In x l -> dec (enc x) = Ok (g x)) -> map_result dec (map enc l) = Ok (map g l).
Proof.
  induction l as [|x r IH]; intro H; cbn [map map_result]; [reflexivity|].
  rewrite (H x) by (left; reflexivity). cbn [bind]. rewrite IH by (intros y Hy; apply H; right; exact Hy). reflexivity.
Qed.
Lemma map_id {A} (l : list A) : map (fun x => x) l = l.
Proof. induction l as [|x r IH]; cbn; [reflexivity|rewrite IH; reflexivity]. Qed.

Lemma rt_list {A} (enc : A -> doc) (dec : doc -> result A) l :
  (forall x, In x l -> dec (enc x) = Ok x) ->
  dec_list dec (dflt (match map enc l with [] => None | _ => Some (DArr (map enc l)) end)) = Ok l.
Proof.
  intro H. destruct l as [|x r]; [reflexivity|]. cbn [map dflt dec_list].
  change (enc x :: map enc r) with (map enc (x :: r)).
  rewrite (map_result_map enc dec (fun y => y)) by exact H. rewrite map_id. reflexivity.
Qed.
Lemma rt_strings l : dec_strings (dflt (match enc_strs l with [] => None | _ => Some (DArr (enc_strs l)) end)) = Ok l.
Proof. apply (rt_list DStr dec_string). reflexivity. Qed.

Lemma rt_annots m : dec_annots (dflt (match enc_annots m with [] => None | _ => Some (DObj (enc_annots m)) end)) = Ok m.
Proof.
  destruct m as [|kv r]; [reflexivity|]. unfold enc_annots. cbn [map dflt dec_annots].
  change ((fst kv, DStr (snd kv)) :: map (fun kv0 => (fst kv0, DStr (snd kv0))) r) with (map (fun kv0 : string * string => (fst kv0, DStr (snd kv0))) (kv :: r)).
  rewrite (map_result_map (fun kv0 : string * string => (fst kv0, DStr (snd kv0))) _ (fun y => y)).
  - rewrite map_id. reflexivity.
  - intros [k v] _. reflexivity.
Qed.

Lemma rt_ptr {A} (enc : A -> doc) (dec : doc -> result A) (o : option A) :
  (forall a, o = Some a -> enc a <> DNull /\ dec (enc a) = Ok a) -> dec_ptr dec (enc_ptr enc o) = Ok o.
Proof.
  destruct o as [a|]; intro H; [|reflexivity]. destruct (H a eq_refl) as [Hn Hd]. cbn [enc_ptr].
  assert (G : forall x, x <> DNull -> dec_ptr dec x = bind (dec x) (fun a0 => Ok (Some a0))).
  { intros x Hx. destruct x; try reflexivity. congruence. }
  rewrite (G _ Hn), Hd. reflexivity.
Qed.

(* ---------- the structs ---------- *)
Ltac rt_step :=
  first [ rewrite rt_string_always | rewrite rt_string | rewrite rt_int by assumption | rewrite rt_optint by assumption
        | rewrite rt_bool | rewrite rt_strings | rewrite rt_annots ]; cbn [bind].

Lemma rt_devnode d : devnode_ranges d = true -> dec_devnode (enc_devnode d) = Ok d.
Proof.
  unfold devnode_ranges. intro H. apply andb_true_iff in H as [H H5]. apply andb_true_iff in H as [H H4].
  apply andb_true_iff in H as [H H3]. apply andb_true_iff in H as [H1 H2].
  unfold enc_devnode. rewrite always_opt, !omit_s_opt, !omit_z_opt, !omit_o_opt.
  match goal with |- dec_devnode (DObj (somes [opt _ ?m1; opt _ ?m2; opt _ ?m3; opt _ ?m4; opt _ ?m5; opt _ ?m6; opt _ ?m7; opt _ ?m8; opt _ ?m9])) = _ =>
    destruct (members_devnode m1 m2 m3 m4 m5 m6 m7 m8 m9) as (K & F1 & F2 & F3 & F4 & F5 & F6 & F7 & F8 & F9) end.
  unfold dec_devnode, dec_struct. rewrite K. unfold build_devnode.
  rewrite F1, F2, F3, F4, F5, F6, F7, F8, F9.
  unfold dec_int64. repeat rt_step. destruct d; reflexivity.
Qed.
Lemma enc_devnode_not_null d : enc_devnode d <> DNull. Proof. discriminate. Qed.

Lemma rt_mount m : dec_mount (enc_mount m) = Ok m.
Proof.
  unfold enc_mount. rewrite !always_opt, omit_l_opt, omit_s_opt.
  match goal with |- dec_mount (DObj (somes [opt _ ?m1; opt _ ?m2; opt _ ?m3; opt _ ?m4])) = _ =>
    destruct (members_mount m1 m2 m3 m4) as (K & F1 & F2 & F3 & F4) end.
  unfold dec_mount, dec_struct. rewrite K. unfold build_mount. rewrite F1, F2, F3, F4.
  repeat rt_step. destruct m; reflexivity.
Qed.

Lemma rt_hook h : hook_ranges h = true -> dec_hook (enc_hook h) = Ok h.
Proof.
  unfold hook_ranges. intro H. unfold enc_hook. rewrite !always_opt, !omit_l_opt, omit_o_opt.
  match goal with |- dec_hook (DObj (somes [opt _ ?m1; opt _ ?m2; opt _ ?m3; opt _ ?m4; opt _ ?m5])) = _ =>
    destruct (members_hook m1 m2 m3 m4 m5) as (K & F1 & F2 & F3 & F4 & F5) end.
  unfold dec_hook, dec_struct. rewrite K. unfold build_hook. rewrite F1, F2, F3, F4, F5.
  repeat rt_step. destruct h; reflexivity.
Qed.

Lemma rt_rdt r : dec_rdt (enc_rdt r) = Ok r.
Proof.
  unfold enc_rdt. rewrite !omit_s_opt, !omit_b_opt.
  match goal with |- dec_rdt (DObj (somes [opt _ ?m1; opt _ ?m2; opt _ ?m3; opt _ ?m4; opt _ ?m5])) = _ =>
    destruct (members_rdt m1 m2 m3 m4 m5) as (K & F1 & F2 & F3 & F4 & F5) end.
  unfold dec_rdt, dec_struct. rewrite K. unfold build_rdt. rewrite F1, F2, F3, F4, F5.
  repeat rt_step. destruct r; reflexivity.
Qed.

Lemma forallb_In {A} (p : A -> bool) l x : forallb p l = true -> In x l -> p x = true.
Proof. intros H Hx. exact (proj1 (forallb_forall p l) H x Hx). Qed.

Lemma rt_edits e : edits_ranges e = true -> dec_edits (enc_edits e) = Ok e.
Proof.
  unfold edits_ranges. intro H. apply andb_true_iff in H as [H Hg]. apply andb_true_iff in H as [Hn Hh].
  unfold enc_edits. rewrite !omit_l_opt. change omit_p with opt.
  match goal with |- dec_edits (DObj (somes [opt _ ?m1; opt _ ?m2; opt _ ?m3; opt _ ?m4; opt _ ?m5; opt _ ?m6])) = _ =>
    destruct (members_edits m1 m2 m3 m4 m5 m6) as (K & F1 & F2 & F3 & F4 & F5 & F6) end.
  unfold dec_edits, dec_struct. rewrite K. unfold build_edits. rewrite F1, F2, F3, F4, F5, F6.
  rt_step.
  rewrite (rt_list (enc_ptr enc_devnode) (dec_ptr dec_devnode)).
  2:{ intros o Ho. apply rt_ptr. intros d ->. split; [discriminate|]. apply rt_devnode. exact (forallb_In _ _ _ Hn Ho). }
  cbn [bind]. rewrite (rt_list (enc_ptr enc_hook) (dec_ptr dec_hook)).
  2:{ intros o Ho. apply rt_ptr. intros h ->. split; [discriminate|]. apply rt_hook. exact (forallb_In _ _ _ Hh Ho). }
  cbn [bind]. rewrite (rt_list (enc_ptr enc_mount) (dec_ptr dec_mount)).
  2:{ intros o Ho. apply rt_ptr. intros m ->. split; [discriminate|]. apply rt_mount. }
  cbn [bind].
  assert (R : dec_ptr dec_rdt (dflt (option_map enc_rdt (e_rdt e))) = Ok (e_rdt e)).
  { destruct (e_rdt e) as [r|]; [|reflexivity].
    change (dflt (option_map enc_rdt (Some r))) with (enc_ptr enc_rdt (Some r)).
    apply rt_ptr. intros a Ha. injection Ha as <-. split; [discriminate|apply rt_rdt]. }
  rewrite R. cbn [bind].
  rewrite (rt_list DInt dec_uint32).
  2:{ intros z Hz. unfold dec_uint32, dec_int. rewrite (forallb_In _ _ _ Hg Hz). reflexivity. }
  cbn [bind]. destruct e; reflexivity.
Qed.

Lemma rt_device d : device_ranges d = true -> dec_device (enc_device d) = Ok d.
Proof.
  unfold device_ranges. intro H. unfold enc_device. rewrite !always_opt, omit_m_opt.
  match goal with |- dec_device (DObj (somes [opt _ ?m1; opt _ ?m2; opt _ ?m3])) = _ =>
    destruct (members_device m1 m2 m3) as (K & F1 & F2 & F3) end.
  unfold dec_device, dec_struct. rewrite K. unfold build_device. rewrite F1, F2, F3.
  repeat rt_step. cbn [dflt]. rewrite (rt_edits _ H). cbn [bind]. destruct d; reflexivity.
Qed.

(* C09 struct_roundtrip *)
Theorem struct_roundtrip s : spec_ranges s = true -> spec_of_doc (doc_of_spec s) = Ok s.
Proof.
  unfold spec_ranges. intro H. apply andb_true_iff in H as [Hd He].
  unfold doc_of_spec. rewrite !always_opt, omit_m_opt.
  match goal with |- spec_of_doc (DObj (somes [opt _ ?m1; opt _ ?m2; opt _ ?m3; opt _ ?m4; opt _ ?m5])) = _ =>
    destruct (members_spec m1 m2 m3 m4 m5) as (K & F1 & F2 & F3 & F4 & F5) end.
  unfold spec_of_doc. rewrite K. unfold build_spec. rewrite F1, F2, F3, F4, F5.
  repeat rt_step. cbn [dflt].
  assert (D : dec_list dec_device (enc_devices (s_devices s)) = Ok (s_devices s)).
  { unfold enc_devices. destruct (s_devices s) as [|d r] eqn:E; [reflexivity|]. rewrite <- E in *. cbn [dec_list].
    rewrite (map_result_map enc_device dec_device (fun y => y)).
    - rewrite map_id. reflexivity.
    - intros x Hx. apply rt_device. exact (forallb_In _ _ _ Hd Hx). }
  rewrite D. cbn [bind]. rewrite (rt_edits _ He). cbn [bind]. destruct s; reflexivity.
Qed.

(* ---------- the text layer as an explicit parameter ---------- *)
(* [text] is what a document tree becomes after being emitted in one encoding and scanned again (None: unreadable).  Whenever
   the text layer is faithful on the document of s, the file reads back as s; both encodings then load to equal Specs. *)
Section TextLayer.
  Variable text : doc -> option doc.
  Definition read_back (s : spec) : result spec :=
    match text (doc_of_spec s) with Some d => spec_of_doc d | None => Err end.
  Theorem file_roundtrip s : spec_ranges s = true -> text (doc_of_spec s) = Some (doc_of_spec s) -> read_back s = Ok s.
  Proof. intros R T. unfold read_back. rewrite T. apply struct_roundtrip. exact R. Qed.
End TextLayer.
Theorem json_yaml_interchangeable (text_json text_yaml : doc -> option doc) s :
  spec_ranges s = true ->
  text_json (doc_of_spec s) = Some (doc_of_spec s) -> text_yaml (doc_of_spec s) = Some (doc_of_spec s) ->
  read_back text_json s = read_back text_yaml s.
Proof. intros R J Y. rewrite (file_roundtrip text_json s R J), (file_roundtrip text_yaml s R Y). reflexivity. Qed.
