(* Judge16.v — evaluation of harness cases for C16 (generated Spec file names, write/remove symmetry)
   and correspondence of the path/filepath models. *)
From Coq Require Import String Ascii List Bool Arith ZArith.
From CDI Require Import Base Parser Paths.
Import ListNotations.
Open Scope string_scope.

Record wobs := mkWobs {
  r0_err : bool;                         (* RemoveSpec of the name before anything was written under it returned an error *)
  r0_changed : list string;              (* anything that first RemoveSpec changed (files deleted / changed, directories created / deleted) *)
  w_err : bool;                          (* WriteSpec returned an error *)
  w_changed : list string;               (* files created or modified by WriteSpec (sorted) *)
  w_deleted : list string;               (* files deleted by WriteSpec *)
  w_dirs : list string;                  (* directories created by WriteSpec *)
  w_json : bool;                         (* the changed file holds a JSON document *)
  w_resolved : list (string * Z);        (* after Refresh: for each device of the Spec, GetSpec().GetPath(), GetPriority(); ("",-1) if unresolved *)
  r_err : bool;                          (* RemoveSpec returned an error *)
  r_deleted : list string;               (* files deleted by RemoveSpec *)
  r_other : list string;                 (* anything else RemoveSpec changed *)
  r2_err : bool;                         (* RemoveSpec of the now missing name returned an error *)
  w_again : list string;                 (* files created by writing the same Spec under the same name once more (no refresh
                                            since the removal), with the content of the first write; then an overwrite of
                                            foreign content at that path restores that content too (else "<foreign>" is listed) *)
  r_link : list string                   (* everything RemoveSpec changed when the name was a symbolic link to a file outside the
                                            Spec directories ("<error>" is listed if it returned an error) *)
}.

Inductive case16 :=
| CPath (p : string) (cl ex ba di : string)
| CJoin (a b j : string)
| CName (vendor class tid : string) (n1 n2 : string) (n3 n4 : option string)   (* the four generators; None = error *)
| CWrite (dirs : list string) (name : string) (ndev : nat) (o : wobs).

Definition ls_eqb := list_eqb String.eqb.

Definition corr16 (c : case16) : bool :=
  match c with
  | CPath p cl ex ba di => String.eqb (clean p) cl && String.eqb (ext p) ex && String.eqb (base p) ba && String.eqb (dir p) di
  | CJoin a b j => String.eqb (join2 a b) j
  | CName v c t n1 n2 n3 n4 =>
      String.eqb n1 (generate_spec_name v c) && String.eqb n2 (generate_transient_spec_name v c t) &&
      (* GenerateNameFor[Transient]Spec parse the kind vendor/class with ParseQualifier *)
      match parse_qualifier (v ++ "/" ++ c) with
      | (EmptyString, _) => match n3, n4 with None, None => true | _, _ => false end
      | (v', c') => option_eqb String.eqb n3 (Some (generate_spec_name v' c')) &&
                    option_eqb String.eqb n4 (Some (generate_transient_spec_name v' c' t))
      end
  | CWrite dirs name ndev o =>
      match write_path dirs name, remove_path dirs name, highest_dir dirs with
      | Some p, Some rp, Some (_, prio) =>
          negb (r0_err o) && ls_eqb (r0_changed o) [] &&
          negb (w_err o) && ls_eqb (w_changed o) [p] && ls_eqb (w_deleted o) [] &&
          Bool.eqb (w_json o) (String.eqb (ext p) ".json") &&
          list_eqb (pair_eqb String.eqb Z.eqb) (w_resolved o) (repeat (p, Z.of_nat prio) ndev) &&
          negb (r_err o) && ls_eqb (r_deleted o) [rp] && ls_eqb (r_other o) [] && negb (r2_err o) && ls_eqb (w_again o) [p] &&
          ls_eqb (r_link o) [rp]
      | _, _, _ => w_err o
      end
  end.

(* the property on the observed effects: exactly one file, directly inside the (cleaned) last directory,
   named name or name.yaml; nothing else touched; devices resolve to it at the highest priority;
   removal deletes exactly that file (also when it is a link: the link, not what it points to); removing a missing name
   succeeds and changes nothing (also before the directory exists) *)
Definition ancestor_or_self (d top : string) : bool := has_prefix (d ++ "/") (top ++ "/").
Definition oracle16 (c : case16) : bool :=
  match c with
  | CPath _ _ _ _ _ | CJoin _ _ _ => true
  | CName v c t n1 n2 n3 n4 =>
      (* for valid vendor and class every generated name is a single path component *)
      if vc_b v && vc_b c then
        single_component n1 && single_component n2 &&
        match n3, n4 with Some a, Some b => single_component a && single_component b | _, _ => false end
      else true
  | CWrite dirs name ndev o =>
      match rev dirs with
      | [] => w_err o
      | last :: _ =>
          let top := clean last in
          let fname := if has_suffix ".json" name || has_suffix ".yaml" name then name else name ++ ".yaml" in
          (* directly inside the directory (the working directory is spelled "." and its entries are spelled without it) *)
          let f := if String.eqb top "." then fname else top ++ "/" ++ fname in
          single_component name &&
          negb (r0_err o) && ls_eqb (r0_changed o) [] &&
          negb (w_err o) && ls_eqb (w_changed o) [f] && ls_eqb (w_deleted o) [] &&
          forallb (fun d => ancestor_or_self d top) (w_dirs o) &&
          Bool.eqb (w_json o) (has_suffix ".json" name) &&
          list_eqb (pair_eqb String.eqb Z.eqb) (w_resolved o) (repeat (f, Z.of_nat (length dirs - 1)) ndev) &&
          negb (r_err o) && ls_eqb (r_deleted o) [f] && ls_eqb (r_other o) [] && negb (r2_err o) && ls_eqb (w_again o) [f] &&
          ls_eqb (r_link o) [f]
      end
  end.

Definition judge16 (cases : list case16) : list nat * list nat :=
  (bad_indices corr16 0 cases, bad_indices oracle16 0 cases).
