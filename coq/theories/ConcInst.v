(* ConcInst.v — the lock discipline of Conc.v instantiated with the paths regenerated from pkg/cdi
   (CDIGen.LockGen).  The Examples are re-checked by vm_compute on every run; when one fails its statement
   names the first offending entry point. *)
From Coq Require Import List Bool Arith String.
From CDI Require Import Conc ConcProofs.
From CDIGen Require Import LockGen.
Import ListNotations.
Open Scope string_scope.

(* ---- the instance ---- *)
Definition cguard : var -> option mid := guard_of guards.

Definition var_named (n : string) : option var :=
  match find (fun v => String.eqb (snd v) n) vars with Some v => Some (fst v) | None => None end.
Definition mutex_named (n : string) : option mid :=
  match find (fun v => String.eqb (snd v) n) mutexes with Some v => Some (fst v) | None => None end.
Definition somes {A} (l : list (option A)) : list A :=
  flat_map (fun o => match o with Some a => [a] | None => [] end) l.

(* the snapshot: the three indexes swapped by refresh, and the maps they point to *)
Definition snapshot_slot_names : list string := ["Cache.specs"; "Cache.devices"; "Cache.errors"].
Definition snapshot_content_names : list string := ["Cache.specs[]"; "Cache.devices[]"; "Cache.errors[]"].
Definition snapshot_slots : list var := somes (map var_named snapshot_slot_names).
Definition snapshot_contents : list var := somes (map var_named snapshot_content_names).
Definition snapshot_vars : list var := (snapshot_slots ++ snapshot_contents)%list.
Definition cache_mutex : mid := match mutex_named "Cache.Mutex" with Some m => m | None => 0 end.

(* the vocabulary the property talks about was found by the translator *)
Definition vocabulary_ok : bool :=
  nil_b translator_errors &&
  Nat.eqb (List.length snapshot_slots) 3 && Nat.eqb (List.length snapshot_contents) 3 &&
  match mutex_named "Cache.Mutex" with Some _ => true | None => false end &&
  forallb (fun x => match cguard x with Some m => Nat.eqb m cache_mutex | None => false end) snapshot_vars &&
  negb (nil_b api_paths) && negb (nil_b go_paths).

(* a path is cut at its blocking operations (nothing is held there); a thread runs any sequence of pieces *)
Fixpoint pieces_aux (cur : list act) (p : list act) : list (list act) :=
  match p with
  | [] => [rev cur]
  | Block :: r => rev cur :: [Block] :: pieces_aux [] r
  | a :: r => pieces_aux (a :: cur) r
  end.
Definition pieces (p : list act) : list (list act) := pieces_aux [] p.
Definition all_pieces : list (string * list act) :=
  flat_map (fun np => map (fun q => (fst np, q)) (pieces (snd np))) paths.

(* name of the first entry whose path fails a check *)
Definition first_failing (f : list act -> bool) (ps : list (string * list act)) : option string :=
  match find (fun np => negb (f (snd np))) ps with Some np => Some (fst np) | None => None end.

Lemma first_failing_none f ps : first_failing f ps = None -> forallb (fun np => f (snd np)) ps = true.
Proof.
  unfold first_failing. intro H. apply forallb_forall. intros np Hin.
  destruct (find (fun np => negb (f (snd np))) ps) as [x|] eqn:E; [discriminate|].
  pose proof (find_none _ _ E _ Hin) as N. apply negb_false_iff in N. exact N.
Qed.

Lemma concat_pieces_aux p : forall cur, List.concat (pieces_aux cur p) = (rev cur ++ p)%list.
Proof.
  induction p as [|a r IH]; intro cur.
  - cbn. rewrite app_nil_r. reflexivity.
  - destruct a; cbn [pieces_aux]; try (rewrite IH; cbn [rev]; rewrite <- app_assoc; reflexivity).
    cbn [List.concat]. rewrite IH. reflexivity.
Qed.

(* running whole paths is a special case of running pieces *)
Lemma concat_pieces p : List.concat (pieces p) = p.
Proof. unfold pieces. rewrite concat_pieces_aux. reflexivity. Qed.

(* ---- the checks, re-run on every regeneration ---- *)
Example translator_ok : translator_errors = [].
Proof. vm_compute. reflexivity. Qed.

Example vocabulary_found : vocabulary_ok = true.
Proof. vm_compute. reflexivity. Qed.

(* every path: accesses under the guard, rank order, balanced, nothing held at blocking operations *)
Example cache_paths_ok : first_failing (wl cguard nmutexes [] []) paths = None.
Proof. vm_compute. reflexivity. Qed.

Example cache_well_locked : check_paths cguard nmutexes paths = true.
Proof. exact (first_failing_none _ _ cache_paths_ok). Qed.

Example cache_pieces_ok : first_failing (wl cguard nmutexes [] []) all_pieces = None.
Proof. vm_compute. reflexivity. Qed.

Example cache_pieces_well_locked : check_paths cguard nmutexes all_pieces = true.
Proof. exact (first_failing_none _ _ cache_pieces_ok). Qed.

(* every public operation reads the snapshot inside one critical section of the cache mutex *)
Example queries_one_section_ok : first_failing (one_section cache_mutex snapshot_vars) api_paths = None.
Proof. vm_compute. reflexivity. Qed.

(* a critical section that replaces one of specs/devices/errors replaces all three *)
Example refresh_swaps_ok : first_failing (swaps_together cache_mutex snapshot_slots []) paths = None.
Proof. vm_compute. reflexivity. Qed.

(* the maps published in specs/devices/errors are never modified afterwards *)
Example snapshot_maps_immutable_ok : first_failing (never_written snapshot_contents) paths = None.
Proof. vm_compute. reflexivity. Qed.

(* ---- the theorems for the cache ---- *)
Definition cache_program (s0 : state) : Prop := program (map snd all_pieces) s0.

Lemma cache_init_ok s0 : cache_program s0 -> init_ok cguard nmutexes s0.
Proof. apply program_init_ok. exact cache_pieces_well_locked. Qed.

Theorem cache_race_free s0 s i j a b ra rb x m :
  cache_program s0 -> reach s0 s -> cguard x = Some m ->
  thr s i = a :: ra -> thr s j = b :: rb -> conflict a b x -> i = j.
Proof. intro P. eapply race_free. apply cache_init_ok. exact P. Qed.

Theorem cache_snapshot_consistency s0 s i tr s' :
  cache_program s0 -> reach s0 s -> holds s i cache_mutex -> run s tr s' ->
  (forall a, In (i, a) tr -> is_release cache_mutex a = false) ->
  holds s' i cache_mutex /\
  (forall j x, In (j, Wr x) tr -> cguard x = Some cache_mutex -> j = i) /\
  (own s cache_mutex = Some i -> forall j a x, In (j, a) tr -> accesses a x -> cguard x = Some cache_mutex -> j = i).
Proof. intro P. eapply snapshot_consistency. apply cache_init_ok. exact P. Qed.

Theorem cache_no_deadlock s0 s i a r :
  cache_program s0 -> reach s0 s -> thr s i = a :: r -> a <> Block ->
  exists k a' r' s', thr s k = a' :: r' /\ enabled s a' /\ step s k a' s'.
Proof. intro P. eapply single_lock_no_deadlock. apply cache_init_ok. exact P. Qed.

Theorem cache_queries_one_section n p :
  In (n, p) api_paths ->
  exists pre mid post, p = (pre ++ mid ++ post)%list /\
    (forall x, In x snapshot_vars -> ~ In (Rd x) pre /\ ~ In (Rd x) post) /\
    (forall a, In a mid -> is_release cache_mutex a = false).
Proof.
  intro Hin. apply one_section_sound.
  pose proof (first_failing_none _ _ queries_one_section_ok) as H. rewrite forallb_forall in H. exact (H _ Hin).
Qed.

Theorem cache_refresh_swaps_together n p pre sec post :
  In (n, p) paths -> p = (pre ++ Lock cache_mutex :: sec ++ Unlock cache_mutex :: post)%list ->
  (forall a, In a sec -> a <> Lock cache_mutex /\ a <> Unlock cache_mutex) ->
  forall x, In x snapshot_slots -> In (Wr x) sec -> forall y, In y snapshot_slots -> In (Wr y) sec.
Proof.
  intros Hin. apply swaps_together_sound.
  pose proof (first_failing_none _ _ refresh_swaps_ok) as H. rewrite forallb_forall in H. exact (H _ Hin).
Qed.

Theorem cache_snapshot_maps_immutable n p x : In (n, p) paths -> In x snapshot_contents -> ~ In (Wr x) p.
Proof.
  intros Hin Hx Hw. pose proof (first_failing_none _ _ snapshot_maps_immutable_ok) as H.
  rewrite forallb_forall in H. specialize (H _ Hin). cbn [snd] in H. unfold never_written in H.
  rewrite forallb_forall in H. specialize (H _ Hw). change (negb (memb x snapshot_contents) = true) in H.
  assert (M : memb x snapshot_contents = true).
  { unfold memb. apply existsb_exists. exists x. split; [exact Hx | apply Nat.eqb_refl]. }
  rewrite M in H. discriminate.
Qed.

Lemma pieces_in_all n p q : In (n, p) paths -> In q (pieces p) -> In q (map snd all_pieces).
Proof.
  intros Hp Hq. apply in_map_iff. exists (n, q). split; [reflexivity|].
  unfold all_pieces. apply in_flat_map. exists (n, p). split; [exact Hp|].
  cbn [fst snd]. apply in_map_iff. exists q. split; [reflexivity | exact Hq].
Qed.

(* a program whose threads run whole generated paths is a cache program *)
Theorem whole_paths_program s0 :
  program (map snd paths) s0 -> cache_program s0.
Proof.
  intros (O & R & P). split; [exact O|]. split; [exact R|]. intro i. destruct (P i) as (l & F & E).
  exists (flat_map pieces l). split.
  - rewrite Forall_forall in *. intros q Hq. apply in_flat_map in Hq as (p & Hp & Hq).
    specialize (F p Hp). apply in_map_iff in F as ([n p'] & E' & Hin). cbn in E'; subst p'.
    eapply pieces_in_all; eauto.
  - rewrite E. clear. induction l as [|p l IH]; [reflexivity|].
    cbn [flat_map List.concat]. rewrite concat_app. rewrite concat_pieces. rewrite IH. reflexivity.
Qed.

Lemma hd_in {A} (d : A) l : nil_b l = false -> In (hd d l) l.
Proof. destruct l; [discriminate|]. intros _. left. reflexivity. Qed.

(* satisfiability of the hypotheses: one thread performs an API operation, one is the watcher goroutine *)
Definition example_state : state :=
  {| own := fun _ => None; rdrs := fun _ => [];
     thr := fun i => match i with
                     | 0 => snd (hd ("", []) api_paths)
                     | 1 => snd (hd ("", []) go_paths)
                     | _ => []
                     end |}.

Example example_is_cache_program : cache_program example_state.
Proof.
  apply whole_paths_program. split; [reflexivity|]. split; [reflexivity|]. intro i.
  assert (A : In (hd ("", []) api_paths) paths).
  { unfold paths. apply in_or_app. left. apply hd_in. vm_compute. reflexivity. }
  assert (G : In (hd ("", []) go_paths) paths).
  { unfold paths. apply in_or_app. right. apply in_or_app. right. apply hd_in. vm_compute. reflexivity. }
  destruct i as [|[|i]]; cbn [example_state thr].
  - exists [snd (hd ("", []) api_paths)]. split; [|cbn [List.concat]; symmetry; apply app_nil_r].
    constructor; [|constructor]. apply in_map. exact A.
  - exists [snd (hd ("", []) go_paths)]. split; [|cbn [List.concat]; symmetry; apply app_nil_r].
    constructor; [|constructor]. apply in_map. exact G.
  - exists []. split; [constructor | reflexivity].
Qed.
