(* Version.v — executable model of specs-go/version.go on top of the generated version table
   (CDIGen.VersionGen), and the declarative "highest introduction version of the features used". *)
From Coq Require Import String Ascii List Bool Arith NArith ZArith.
From CDI Require Import Base SpecModel.
From CDIGen Require Import VersionGen.
Import ListNotations.
Open Scope string_scope.

(* ---------------- semver on vX.Y.Z ---------------- *)
Fixpoint digits_val (s : string) (acc : N) : option N :=
  match s with
  | EmptyString => Some acc
  | String c r => if is_digit c then digits_val r (acc * 10 + (N_of_ascii c - 48))%N else None
  end.
Definition parse_num (s : string) : option N :=
  match s with EmptyString => None | _ => digits_val s 0%N end.
Definition semver_triple (v : string) : option (N * N * N) :=
  match v with
  | String "v" r =>
      match split_all "." r with
      | [a; b; c] =>
          match parse_num a, parse_num b, parse_num c with
          | Some x, Some y, Some z => Some (x, y, z)
          | _, _, _ => None
          end
      | _ => None
      end
  | _ => None
  end.
Definition triple_ltb (a b : N * N * N) : bool :=
  let '(a1, a2, a3) := a in let '(b1, b2, b3) := b in
  (a1 <? b1)%N || ((a1 =? b1)%N && ((a2 <? b2)%N || ((a2 =? b2)%N && (a3 <? b3)%N))).
(* semver.Compare(a, b) > 0 ; an invalid version is smaller than every valid one *)
Definition ver_gtb (a b : string) : bool :=
  match semver_triple a, semver_triple b with
  | Some x, Some y => triple_ltb y x
  | Some _, None => true
  | None, _ => false
  end.

(* newVersion: "v" + TrimPrefix(v, "v") *)
Definition new_version (v : string) : string := "v" ++ trim_prefix "v" v.
(* version.String() *)
Definition version_string (v : string) : string := trim_prefix "v" v.

(* ---------------- feature predicates (version.go:146-245, after the fix commits) ---------------- *)
Definition mount_has_type (m : option mount) : bool :=
  match m with Some m => negb (String.eqb (m_type m) "") | None => false end.
Definition node_has_hostpath (d : option devnode) : bool :=
  match d with Some d => negb (String.eqb (dn_hostpath d) "") | None => false end.
Definition name_starts_with_digit (d : device) : bool :=
  match d_name d with String c _ => is_digit c | EmptyString => false end.
Definition nonempty {A} (l : list A) : bool := match l with [] => false | _ => true end.
Definition edits_v070 (e : edits) : bool :=
  match e_rdt e with Some _ => true | None => false end || nonempty (e_gids e).

Definition requires040 (s : spec) : bool :=
  existsb (fun e => existsb mount_has_type (e_mounts e)) (all_edits s).
Definition requires050 (s : spec) : bool :=
  existsb name_starts_with_digit (s_devices s) ||
  existsb (fun e => existsb node_has_hostpath (e_nodes e)) (all_edits s).
Definition class_has_dot (kind : string) : bool :=
  match split_first "/" kind with
  | Some (_, class) => contains "." class
  | None => false
  end.
Definition requires060 (s : spec) : bool :=
  nonempty (s_annot s) || existsb (fun d => nonempty (d_annot d)) (s_devices s) || class_has_dot (s_kind s).
Definition requires070 (s : spec) : bool :=
  edits_v070 (s_edits s) || existsb (fun d => edits_v070 (d_edits d)) (s_devices s).

(* attachment of predicate names (from the generated table) to the modelled predicates *)
Definition pred_of (name : string) : option (spec -> bool) :=
  if String.eqb name "requiresV040" then Some requires040
  else if String.eqb name "requiresV050" then Some requires050
  else if String.eqb name "requiresV060" then Some requires060
  else if String.eqb name "requiresV070" then Some requires070
  else if mem_s name trivially_false_predicates then Some (fun _ => false)
  else None.

(* requiredVersion: version.go:124-141 (the map is iterated in random order in Go; the maximum is order independent) *)
Definition required_step (s : spec) (minv : string) (e : string * option string) : string :=
  match snd e with
  | None => minv
  | Some name =>
      match pred_of name with
      | Some f => if f s && ver_gtb (fst e) minv then fst e else minv
      | None => minv
      end
  end.
Definition required_in (table : list (string * option string)) (s : spec) : string :=
  fold_left (required_step s) table earliest_version.
Definition required (s : spec) : string := required_in version_table s.
(* MinimumRequiredVersion *)
Definition minimum_required_version (s : spec) : string := version_string (required s).

(* ValidateVersion: version.go:67-79 *)
Definition is_valid_version (v : string) : bool := mem_s (new_version v) (map fst version_table).
Definition validate_version (s : spec) : result unit :=
  if negb (is_valid_version (s_version s)) then Err
  else if ver_gtb (new_version (minimum_required_version s)) (new_version (s_version s)) then Err
  else Ok tt.

(* ---------------- the declarative statement ---------------- *)
(* SPEC.md's released versions, transcribed once *)
Definition released_versions : list string :=
  ["v0.1.0"; "v0.2.0"; "v0.3.0"; "v0.4.0"; "v0.5.0"; "v0.6.0"; "v0.7.0"; "v0.8.0"; "v1.0.0"].

Definition uses_mount_type (s : spec) : Prop :=
  exists e m, In e (all_edits s) /\ In (Some m) (e_mounts e) /\ m_type m <> "".
Definition uses_hostpath (s : spec) : Prop :=
  exists e d, In e (all_edits s) /\ In (Some d) (e_nodes e) /\ dn_hostpath d <> "".
Definition uses_digit_name (s : spec) : Prop :=
  exists d c r, In d (s_devices s) /\ d_name d = String c r /\ is_digit c = true.
Definition uses_annotations (s : spec) : Prop :=
  s_annot s <> [] \/ exists d, In d (s_devices s) /\ d_annot d <> [].
Definition uses_dotted_class (s : spec) : Prop :=
  exists v c, s_kind s = v ++ String "/" c /\ contains "/" v = false /\ contains "." c = true.
Definition uses_v070 (s : spec) : Prop :=
  exists e, In e (all_edits s) /\ (e_rdt e <> None \/ e_gids e <> []).

(* highest introduction version among the features used *)
Definition required_spec (f040 f050 f060 f070 : bool) : string :=
  if f070 then "v0.7.0" else if f060 then "v0.6.0" else if f050 then "v0.5.0" else if f040 then "v0.4.0" else "v0.3.0".

(* declared version: one optional leading "v", then a released version *)
Definition declared (v : string) : option string :=
  let nv := new_version v in if mem_s nv released_versions then Some nv else None.
