(* Judge02.v — evaluation of harness cases for C02 (composition), C04 (unresolvable requests) and C14 (injection changes
   nothing but the OCI spec and is repeatable). *)
From Coq Require Import String Ascii List Bool Arith ZArith.
From CDI Require Import Base SpecModel Parser Paths Oci Apply Cache InjectSpec.
Import ListNotations.
Open Scope string_scope.

(* one injection: host nodes at that moment, OCI spec handed in (None: nil), request; observed: unresolved names returned,
   outcome (0 ok, 1 error, 2 panic), OCI spec afterwards; whether the cached Specs and devices (JSON image through the query
   API) are identical to those before the first step; whether every cached Spec could be written back and read back equal;
   whether the slice of names handed to InjectDevices still holds the request as it was *)
Inductive step02 :=
  Inj (host : list (string * (string * Z * Z))) (o : option oci) (names : list string)
      (unres : list string) (outcome : nat) (o' : option oci) (cache_same writeback_ok args_same : bool).
Inductive case02 := Case02 (fs : fsview) (steps : list step02).

Definition res_eqb (a b : list string * nat * option oci) : bool :=
  ls_eqb (fst (fst a)) (fst (fst b)) && Nat.eqb (snd (fst a)) (snd (fst b)) && option_eqb oci_eqb (snd a) (snd b).

Definition corr_step (c : cache) (s : step02) : bool :=
  match s with
  | Inj host o names unres outcome o' _ _ _ => res_eqb (inject (host_of host) c o names) (unres, outcome, o')
  end.
Definition corr02 (c : case02) : bool :=
  match c with Case02 fs steps => let ch := refresh fs in forallb (corr_step ch) steps end.

Fixpoint nodup_names (l : list string) : bool :=
  match l with [] => true | x :: r => negb (mem_s x r) && nodup_names r end.

Definition host_eqb (a b : list (string * (string * Z * Z))) : bool :=
  list_eqb (fun x y => String.eqb (fst x) (fst y) && String.eqb (fst (fst (snd x))) (fst (fst (snd y))) &&
                       Z.eqb (snd (fst (snd x))) (snd (fst (snd y))) && Z.eqb (snd (snd x)) (snd (snd y))) a b.

Definition oracle_step (fl : list lfile) (s : step02) : bool :=
  match s with
  | Inj host o names unres outcome o' same wb args =>
      same && wb && args && negb (Nat.eqb outcome 2) &&
      match o with
      | None => res_eqb (unres, outcome, o') (names, 1, None)
      | Some o0 =>
          if existsb (unresolvable fl) names then
            (* C04: exactly the misses in request order, an error, the OCI spec untouched *)
            res_eqb (unres, outcome, o') (filter (unresolvable fl) names, 1, Some o0)
          else if nodup_names names then
            (* C02: one application of the combined edit list *)
            res_eqb (unres, outcome, o') (inject_spec (host_of host) fl o names)
          else true
      end
  end.
(* C14: equal requests on equal OCI specs with equal host nodes give equal results *)
Definition same_request (a b : step02) : bool :=
  match a, b with
  | Inj h1 o1 n1 _ _ _ _ _ _, Inj h2 o2 n2 _ _ _ _ _ _ => host_eqb h1 h2 && option_eqb oci_eqb o1 o2 && ls_eqb n1 n2
  end.
Definition same_result (a b : step02) : bool :=
  match a, b with
  | Inj _ _ _ u1 c1 r1 _ _ _, Inj _ _ _ u2 c2 r2 _ _ _ => res_eqb (u1, c1, r1) (u2, c2, r2)
  end.
Fixpoint repeatable (l : list step02) : bool :=
  match l with
  | [] => true
  | a :: r => forallb (fun b => if same_request a b then same_result a b else true) r && repeatable r
  end.
Definition oracle02 (c : case02) : bool :=
  match c with
  | Case02 fs steps => let fl := loaded (scan fs) in forallb (oracle_step fl) steps && repeatable steps
  end.

Definition judge02 (cases : list case02) : list nat * list nat :=
  (bad_indices corr02 0 cases, bad_indices oracle02 0 cases).
