(* Judge15.v — evaluation of harness cases for C15 (annotations helpers). *)
From Coq Require Import String Ascii List Bool Arith.
From CDI Require Import Base Parser Annotations.
Import ListNotations.
Open Scope string_scope.

Definition kv_eqb (a b : string * string) : bool := pair_eqb String.eqb String.eqb a b.
Definition amap_eqb (a b : amap) : bool := list_eqb kv_eqb a b.
Definition grp_eqb (a b : string * list string) : bool := pair_eqb String.eqb (list_eqb String.eqb) a b.

Inductive case15 :=
(* AnnotationKey(plugin, devid) -> Some (key, err<>nil, real k8s matcher accepts lower(key)) | None = panic *)
| CKey (plugin devid : string) (o : option (string * bool * bool))
(* AnnotationValue(devices) -> Some (value, err<>nil) *)
| CVal (devices : list string) (o : option (string * bool))
(* UpdateAnnotations(m, plugin, devid, devices): m sorted by key; observed: err<>nil, returned map, caller's map afterwards *)
| CUpd (m : amap) (isnil : bool) (plugin devid : string) (devices : list string) (o : option (bool * amap * amap))
(* ParseAnnotations(m): err<>nil, devices grouped per key sorted by key, both result slices empty *)
| CParse (m : amap) (o : option (bool * list (string * list string) * bool))
(* k8s.IsQualifiedName(s) returned no messages *)
| CK8s (s : string) (ok : bool).

Definition corr15 (c : case15) : bool :=
  match c with
  | CKey p d o =>
      match annotation_key p d, o with
      | Ok k, Some (k', false, _) => String.eqb k k'
      | Err, Some (k', true, _) => String.eqb k' ""
      | Panic, None => true
      | _, _ => false
      end
  | CVal ds o =>
      match annotation_value ds, o with
      | Ok v, Some (v', false) => String.eqb v v'
      | Err, Some (v', true) => String.eqb v' ""
      | Panic, None => true
      | _, _ => false
      end
  | CUpd m isnil p d ds o =>
      match update_annotations m p d ds, o with
      | (Ok _, m'), Some (false, ret, after) =>
          amap_eqb ret m' && amap_eqb after (if isnil then [] else m')
      | (Err, m'), Some (true, ret, after) => amap_eqb ret m && amap_eqb after m
      | (Panic, _), None => true
      | _, _ => false
      end
  | CParse m o =>
      match parse_annotations m, o with
      | Ok l, Some (false, l', _) => list_eqb grp_eqb l l'
      | Err, Some (true, l', empty) => empty
      | Panic, None => true
      | _, _ => false
      end
  | CK8s s ok => Bool.eqb (k8s_qualified_b s) ok
  end.

(* the entries of m' that are not in m *)
Definition added (m m' : amap) : amap :=
  filter (fun kv => match alookup (fst kv) m with None => true | Some _ => false end) m'.
Definition kept (m m' : amap) : bool :=
  forallb (fun kv => option_eqb String.eqb (alookup (fst kv) m') (Some (snd kv))) m.

(* the property evaluated on the observed outputs *)
Definition oracle15 (c : case15) : bool :=
  match c with
  | CKey p d o =>
      match o with
      | Some (k, false, k8s_ok) => has_prefix annotation_prefix k && k8s_qualified_b (to_lower k) && k8s_ok
      | Some (_, true, _) => true
      | None => false
      end
  | CVal ds o =>
      match o with
      | Some (v, false) =>
          forallb exists_qn ds &&
          match ds with [] => true | _ => list_eqb String.eqb (split_all "," v) ds end
      | Some (_, true) => negb (forallb exists_qn ds)
      | None => false
      end
  | CUpd m isnil p d ds o =>
      match o with
      | Some (true, ret, after) => amap_eqb ret m && amap_eqb after m
      | Some (false, ret, after) =>
          match added m ret with
          | [(k, v)] =>
              has_prefix annotation_prefix k && k8s_qualified_b (to_lower k) &&
              kept m ret && Nat.eqb (length ret) (S (length m)) &&
              forallb exists_qn ds &&
              match ds with [] => true | _ => list_eqb String.eqb (split_all "," v) ds end &&
              amap_eqb after (if isnil then [] else ret)
          | _ => false
          end
      | None => false
      end
  | CParse m o =>
      let cdi := filter (fun kv => has_prefix annotation_prefix (fst kv)) m in
      let good := forallb (fun kv => forallb exists_qn (split_all "," (snd kv))) cdi in
      match o with
      | Some (false, l, _) => good && list_eqb grp_eqb l (map (fun kv => (fst kv, split_all "," (snd kv))) cdi)
      | Some (true, _, empty) => negb good && empty
      | None => false
      end
  | CK8s s ok => true
  end.

Definition judge15 (cases : list case15) : list nat * list nat :=
  (bad_indices corr15 0 cases, bad_indices oracle15 0 cases).
