(* Watch.v — executable model of the auto-refresh machinery of pkg/cdi/cache.go (type watch: setup, start,
   watch, update; Cache.refreshIfRequired, Cache.refresh as a function of what a scan sees) together with the
   part of the world it talks to: a file system of Spec directories, the kernel's inotify watches and event
   queue, and the reader goroutine of fsnotify 1.5.1.

   Transitions (labels):
     LOp o       a file-system operation by some other process: changes the file system; if the directory has a
                 kernel watch the events of the rule table ([op_effect], DESIGN.md §11) are queued; removing the
                 directory destroys its kernel watch;
     LRead       fsnotify's reader takes the oldest kernel event, applies its own rule (an event other than
                 Remove/Rename whose file no longer exists is dropped) and hands it on;
     LHandle     the cache's watcher goroutine takes the oldest handed-on event, applies the filter of
                 watch.watch() (event mask, extension filter) and, when accepted, runs update + refresh under the lock;
     LDeliver    LRead immediately followed by LHandle;
     LQuery      a query (ListDevices, GetDevice, InjectDevices, ...): refreshIfRequired -> watch.update re-adds
                 untracked existing directories; refresh iff one was added;
     LNoise      an extra file-level event arrives out of nowhere (duplicates the kernel did not coalesce, Chmod,
                 events for entries the model does not track): shows that the result tolerates them.

   The code-dependent choices (event mask, order of the two loops of update()) are a parameter [variant];
   [fixed_variant] is the code as it stands (after the fixes for D8 and D13).  The older behaviours are defined in
   WatchVariants.v.  No proofs here. *)
From Coq Require Import String Ascii List Bool.
From CDI Require Import Base Paths.
Import ListNotations.
Open Scope string_scope.

Definition dname := string.      (* a configured Spec directory (clean absolute path) *)
Definition fname := string.      (* name of an entry inside a directory *)

(* what the bytes of a file mean to a refresh *)
Inductive content :=
| CEmpty                                         (* zero bytes: a Spec-named file of this kind fails to load *)
| CBad                                           (* non-empty, not a valid Spec: fails to load *)
| CSpec (kind : string) (devs : list string) (tag : string).
                                                 (* a valid Spec: its kind (vendor/class), device names (distinct) and a tag standing
                                                    for the rest of the definitions (two Specs that differ only in the tag define
                                                    the same devices differently) *)
Definition is_empty (c : content) : bool := match c with CEmpty => true | _ => false end.

(* ---------- directories as association lists (keys unique) ---------- *)
Definition dirc := list (fname * content).

Fixpoint lookup (n : fname) (l : dirc) : option content :=
  match l with
  | [] => None
  | (m, c) :: r => if String.eqb m n then Some c else lookup n r
  end.
Definition del (n : fname) (l : dirc) : dirc := filter (fun p => negb (String.eqb (fst p) n)) l.
Definition put (n : fname) (c : content) (l : dirc) : dirc := (del n l ++ [(n, c)])%list.

Definition fsys := dname -> option dirc.          (* None: the directory does not exist *)
Definition upd {A} (f : string -> A) (k : string) (v : A) : string -> A :=
  fun x => if String.eqb x k then v else f x.
Definition is_some {A} (o : option A) : bool := match o with Some _ => true | None => false end.
Definition ex (f : fsys) (d : dname) : bool := is_some (f d).
Definition file (f : fsys) (d : dname) (n : fname) : option content :=
  match f d with Some l => lookup n l | None => None end.

(* what a scan of one directory sees: its Spec-named entries (scanSpecDirs: filepath.Ext in {.json,.yaml});
   a missing directory is empty *)
Definition view_l (l : dirc) : dirc := filter (fun p => is_spec_name (fst p)) l.
Definition view (f : fsys) (d : dname) : dirc :=
  match f d with Some l => view_l l | None => [] end.

(* ---------- events ---------- *)
Inductive eop := Create | Write | Remove | Rename | Chmod.
Definition eop_eqb (a b : eop) : bool :=
  match a, b with
  | Create, Create | Write, Write | Remove, Remove | Rename, Rename | Chmod, Chmod => true
  | _, _ => false
  end.
(* Ev o d n: event o for entry n of watched directory d (Name = d/n);
   EvSelf d: Remove with Name = d (IN_DELETE_SELF of the watched directory) *)
Inductive event := Ev (o : eop) (d : dname) (n : fname) | EvSelf (d : dname).
Definition edir (e : event) : dname := match e with Ev _ d _ => d | EvSelf d => d end.
Definition eopk (e : event) : eop := match e with Ev o _ _ => o | EvSelf _ => Remove end.
Definition epath (e : event) : string := match e with Ev _ d n => d ++ "/" ++ n | EvSelf d => d end.

(* ---------- file-system operations and the inotify/fsnotify rule table ---------- *)
Inductive fsop :=
| OWrite (d : dname) (n : fname) (c : content)   (* os.WriteFile: create+write, truncating rewrite; CEmpty: empty create *)
| OMoveIn (d : dname) (n : fname) (c : content)  (* a file from outside renamed to d/n (replaces d/n) *)
| OLinkIn (d : dname) (n : fname) (c : content)  (* a file from outside hard-linked (or symlinked) as d/n (fails if d/n exists) *)
| ORename (d : dname) (a b : fname)              (* rename inside d (replaces b) *)
| OMoveOut (d : dname) (n : fname)               (* d/n renamed to a place outside every Spec directory *)
| ORemove (d : dname) (n : fname)                (* unlink *)
| OMkdir (d : dname)                             (* create the (missing) Spec directory itself *)
| ORmAll (d : dname).                            (* rm -rf of the Spec directory *)

Definition odir (o : fsop) : dname :=
  match o with
  | OWrite d _ _ | OMoveIn d _ _ | OLinkIn d _ _ | ORename d _ _ | OMoveOut d _ | ORemove d _
  | OMkdir d | ORmAll d => d
  end.

(* op_effect f o = None: the operation fails (nothing changes, no events).
   Some (nd, evs): the directory's new content (None: gone) and the events a kernel watch on it reports. *)
Definition op_effect (f : fsys) (o : fsop) : option (option dirc * list event) :=
  match o with
  | OWrite d n c =>
      match f d with
      | None => None
      | Some l =>
          match lookup n l with
          | None => Some (Some (put n c l), Ev Create d n :: (if is_empty c then [] else [Ev Write d n]))
          | Some _ => Some (Some (put n c l), [Ev Write d n])       (* O_TRUNC reports a modification even if nothing is written *)
          end
      end
  | OMoveIn d n c =>
      match f d with
      | None => None
      | Some l => Some (Some (put n c l), [Ev Create d n])
      end
  | OLinkIn d n c =>
      match f d with
      | None => None
      | Some l =>
          match lookup n l with
          | None => Some (Some (put n c l), [Ev Create d n])
          | Some _ => None
          end
      end
  | ORename d a b =>
      match f d with
      | None => None
      | Some l =>
          match lookup a l with
          | Some c =>
              if String.eqb a b then Some (Some l, [])                (* rename(a, a): success, nothing happens *)
              else Some (Some (put b c (del a l)), [Ev Rename d a; Ev Create d b])
          | None => None
          end
      end
  | OMoveOut d n =>
      match f d with
      | None => None
      | Some l =>
          match lookup n l with
          | Some _ => Some (Some (del n l), [Ev Rename d n])
          | None => None
          end
      end
  | ORemove d n =>
      match f d with
      | None => None
      | Some l =>
          match lookup n l with
          | Some _ => Some (Some (del n l), [Ev Remove d n])
          | None => None
          end
      end
  | OMkdir d =>
      match f d with
      | None => Some (Some [], [])
      | Some _ => None
      end
  | ORmAll d =>
      match f d with
      | Some l => Some (None, (map (fun p => Ev Remove d (fst p)) l ++ [EvSelf d])%list)
      | None => None
      end
  end.

(* the events fsnotify reports for operation o on a watched directory (the rule table of DESIGN.md §11) *)
Definition events_of (f : fsys) (o : fsop) : list event :=
  match op_effect f o with Some (_, evs) => evs | None => [] end.

(* ---------- the code-dependent parameters ---------- *)
Record variant := {
  v_mask : list eop;            (* eventMask of watch.watch() *)
  v_removed_first : bool        (* update(): removed directories are marked before the re-add loop *)
}.
(* the code as it stands (after the fixes for D8 and D13) *)
Definition fixed_variant : variant := {| v_mask := [Rename; Remove; Write; Create]; v_removed_first := true |}.

Definition in_ops (o : eop) (l : list eop) : bool := existsb (eop_eqb o) l.

(* the filter of watch.watch() on an event with op set [ops] and name [path]:
   (event.Op & eventMask) != 0, and if event.Op == Write or event.Op == Create exactly, filepath.Ext(event.Name)
   must be .json or .yaml *)
Definition filter_accepts (v : variant) (ops : list eop) (path : string) : bool :=
  existsb (fun o => in_ops o (v_mask v)) ops &&
  match ops with
  | [Write] | [Create] => is_spec_ext (ext path)
  | _ => true
  end.
Definition accepts (v : variant) (e : event) : bool := filter_accepts v [eopk e] (epath e).

(* fsnotify's own rule (ignoreLinux): an event other than Remove/Rename is dropped when Lstat(Name) says not-exist *)
Definition exists_path (f : fsys) (e : event) : bool :=
  match e with Ev _ d n => is_some (file f d n) | EvSelf d => ex f d end.
Definition survives (f : fsys) (e : event) : bool :=
  match eopk e with Remove | Rename => true | _ => exists_path f e end.

(* ---------- the machine ---------- *)
Record state := mkst {
  fs : fsys;
  kw : dname -> bool;                        (* the kernel has an inotify watch on (the current inode of) d *)
  tr : dname -> option bool;                 (* watch.tracked (None: no such key) *)
  derr : dname -> bool;                      (* Cache.dirErrors has an entry for d *)
  kq : list event;                           (* events queued in the kernel, not yet read by fsnotify *)
  cq : list event;                           (* events read by fsnotify, not yet handled by the watcher goroutine *)
  cache : dname -> dirc                      (* per directory, what the last refresh scanned *)
}.

Definition apply_op (s : state) (o : fsop) : state :=
  match op_effect (fs s) o with
  | None => s
  | Some (nd, evs) =>
      let d := odir o in
      mkst (upd (fs s) d nd)
           (match nd with None => upd (kw s) d false | Some _ => kw s end)
           (tr s) (derr s)
           (if kw s d then (kq s ++ evs)%list else kq s)
           (cq s) (cache s)
  end.

Definition noise (s : state) (o : eop) (d : dname) (n : fname) : state :=
  mkst (fs s) (kw s) (tr s) (derr s) (kq s ++ [Ev o d n])%list (cq s) (cache s).

Definition read (s : state) : state :=
  match kq s with
  | [] => s
  | e :: r => mkst (fs s) (kw s) (tr s) (derr s) r
                   (if survives (fs s) e then (cq s ++ [e])%list else cq s) (cache s)
  end.

(* refresh(): rescan the configured directories *)
Definition scan (dirs : list dname) (f : fsys) : dname -> dirc :=
  fun d => if mem_s d dirs then view f d else [].
Definition refresh (dirs : list dname) (s : state) : state :=
  mkst (fs s) (kw s) (tr s) (derr s) (kq s) (cq s) (scan dirs (fs s)).

(* the re-add loop of update(): every key of tracked with value false gets watcher.Add(dir), which succeeds
   iff the directory exists *)
Definition readd_tr (f : fsys) (t : dname -> option bool) : dname -> option bool :=
  fun d => match t d with Some false => Some (ex f d) | x => x end.
Definition readd_kw (f : fsys) (t : dname -> option bool) (k : dname -> bool) : dname -> bool :=
  fun d => match t d with Some false => ex f d | _ => k d end.
Definition readd_derr (f : fsys) (t : dname -> option bool) (e : dname -> bool) : dname -> bool :=
  fun d => match t d with Some false => negb (ex f d) | _ => e d end.
Definition readd_any (dirs : list dname) (f : fsys) (t : dname -> option bool) : bool :=
  existsb (fun d => match t d with Some false => ex f d | _ => false end) dirs.

(* the loop over the removed directories: tracked[dir] = false; dirErrors[dir] = "directory removed" *)
Definition mark_tr (removed : option dname) (t : dname -> option bool) : dname -> option bool :=
  match removed with Some d => upd t d (Some false) | None => t end.
Definition mark_derr (removed : option dname) (e : dname -> bool) : dname -> bool :=
  match removed with Some d => upd e d true | None => e end.

(* watch.update(dirErrors, removed...): new state and the returned flag *)
Definition update (v : variant) (dirs : list dname) (s : state) (removed : option dname) : state * bool :=
  let f := fs s in
  let t1 := if v_removed_first v then mark_tr removed (tr s) else tr s in
  let e1 := if v_removed_first v then mark_derr removed (derr s) else derr s in
  let t2 := readd_tr f t1 in
  let e2 := readd_derr f t1 e1 in
  (mkst f (readd_kw f t1 (kw s))
        (if v_removed_first v then t2 else mark_tr removed t2)
        (if v_removed_first v then e2 else mark_derr removed e2)
        (kq s) (cq s) (cache s),
   is_some removed || readd_any dirs f t1).

(* the body of the watcher goroutine's loop for one event.  [removed]: event.Op == Remove && w.tracked[event.Name];
   only the directory's own removal event carries a tracked name (configured directories are not nested). *)
Definition handle (v : variant) (dirs : list dname) (s : state) : state :=
  match cq s with
  | [] => s
  | e :: r =>
      let s1 := mkst (fs s) (kw s) (tr s) (derr s) (kq s) r (cache s) in
      if accepts v e then
        let removed := match e with
                       | EvSelf d => match tr s d with Some true => Some d | _ => None end
                       | Ev _ _ _ => None
                       end in
        refresh dirs (fst (update v dirs s1 removed))
      else s1
  end.

(* refreshIfRequired(false) in auto-refresh mode *)
Definition query (v : variant) (dirs : list dname) (s : state) : state :=
  let (s1, flag) := update v dirs s None in
  if flag then refresh dirs s1 else s1.

Inductive label :=
| LOp (o : fsop) | LRead | LHandle | LDeliver | LQuery | LNoise (o : eop) (d : dname) (n : fname).
Definition step (v : variant) (dirs : list dname) (s : state) (l : label) : state :=
  match l with
  | LOp o => apply_op s o
  | LRead => read s
  | LHandle => handle v dirs s
  | LDeliver => handle v dirs (read s)
  | LQuery => query v dirs s
  | LNoise o d n => noise s o d n
  end.
Definition run (v : variant) (dirs : list dname) (s : state) (ls : list label) : state :=
  fold_left (step v dirs) ls s.

(* n deliveries: enough to empty both queues when n >= |kq| + |cq| (each takes one event out of each non-empty queue) *)
Fixpoint drain (v : variant) (dirs : list dname) (n : nat) (s : state) : state :=
  match n with
  | O => s
  | S k => drain v dirs k (step v dirs s LDeliver)
  end.

(* ---------- what queries can observe ---------- *)
(* Cache.refresh as a function of what the scan saw.  [vs]: the configured directories in order (index =
   priority) with their scanned content.  A device is resolved to the file that defines it in the highest
   priority directory defining it at all, provided exactly one file there does; two definitions in one directory
   conflict: no device, and both files are reported in error.  A file that fails to load is reported in error. *)
Definition qnames (c : content) : list string :=
  match c with CSpec k devs _ => map (fun n => k ++ "=" ++ n) devs | _ => [] end.
Definition ctag (c : content) : string := match c with CSpec _ _ t => t | _ => "" end.
Definition defs (d : dname) (v : dirc) : list (string * string) :=       (* (qualified device, defining file) *)
  flat_map (fun p => map (fun q => (q, d ++ "/" ++ fst p)) (qnames (snd p))) v.
Definition count_def (q : string) (l : list (string * string)) : nat :=
  length (filter (fun x => String.eqb (fst x) q) l).
Definition unique_def (l : list (string * string)) (x : string * string) : bool := Nat.eqb (count_def (fst x) l) 1.

Fixpoint resolve (vs : list (dname * dirc)) : list (string * string) :=
  match vs with
  | [] => []
  | (d, v) :: rest =>
      let higher := map fst (flat_map (fun dv => defs (fst dv) (snd dv)) rest) in
      (filter (fun x => unique_def (defs d v) x && negb (mem_s (fst x) higher)) (defs d v) ++ resolve rest)%list
  end.

Definition loads (c : content) : bool := match c with CSpec _ _ _ => true | _ => false end.
Definition unloadable (d : dname) (v : dirc) : list string :=
  map (fun p => d ++ "/" ++ fst p) (filter (fun p => negb (loads (snd p))) v).
Definition conflicting (d : dname) (v : dirc) : list string :=
  map snd (filter (fun x => negb (unique_def (defs d v) x)) (defs d v)).
Definition file_errors (vs : list (dname * dirc)) : list string :=
  flat_map (fun dv => app (unloadable (fst dv) (snd dv)) (conflicting (fst dv) (snd dv))) vs.

(* the definition a resolved device has: the tag of the content of its defining file *)
Fixpoint tag_in (d : dname) (v : dirc) (p : string) : option string :=
  match v with
  | [] => None
  | (n, c) :: r => if String.eqb (d ++ "/" ++ n) p then Some (ctag c) else tag_in d r p
  end.
Fixpoint tag_at (vs : list (dname * dirc)) (p : string) : string :=
  match vs with
  | [] => ""
  | (d, v) :: r => match tag_in d v p with Some t => t | None => tag_at r p end
  end.
Definition with_tags (vs : list (dname * dirc)) (l : list (string * string)) : list (string * string) :=
  map (fun x => (fst x, snd x ++ "#" ++ tag_at vs (snd x))) l.

(* the answers: ListDevices + GetDevice(..): the defining file GetSpec().GetPath() and, after a "#", the tag found in the
   device's edits; and the keys of GetErrors (files in error, directories in error) *)
Definition answer (dirs : list dname) (s : state) : list (string * string) * list string :=
  let vs := map (fun d => (d, cache s d)) dirs in
  (with_tags vs (resolve vs), (file_errors vs ++ filter (derr s) dirs)%list).

(* NewCache on file system f: setup() adds every existing directory, then refresh() *)
Definition init (dirs : list dname) (f : fsys) : state :=
  mkst f
       (fun d => mem_s d dirs && ex f d)
       (fun d => if mem_s d dirs then Some (ex f d) else None)
       (fun d => mem_s d dirs && negb (ex f d))
       [] [] (scan dirs f).

(* what a freshly built cache answers *)
Definition fresh (dirs : list dname) (f : fsys) : list (string * string) * list string :=
  answer dirs (init dirs f).

(* a file system given as an association list (used by the case judge and the examples) *)
Fixpoint mkfs (l : list (dname * dirc)) : fsys :=
  match l with
  | [] => fun _ => None
  | (d, c) :: r => upd (mkfs r) d (Some c)
  end.
