(* Cache.v — executable model of the CDI cache: the directory scan (pkg/cdi/spec-dirs.go scanSpecDirs over
   filepath.Walk), Cache.refresh (pkg/cdi/cache.go:144-211: specs per vendor, device index, the conflicts set,
   per-path errors, resolveConflict with its three priority cases), the query API, and InjectDevices
   (cache.go:228-266).  The declarative specification the theorems compare it with is at the end. *)
From Coq Require Import String Ascii List Bool Arith ZArith.
From CDI Require Import Base SpecModel Parser Paths Oci Apply.
Import ListNotations.
Open Scope string_scope.

(* ---------------- directory populations ---------------- *)
(* A directory entry: a file that loads to a (valid) Spec, a file that fails to load (syntax or semantic error, empty,
   dangling link, link to a directory, vanished between listing and reading), or a sub-directory. *)
Inductive entry := EFile (content : option spec) | ESub.
(* A configured path: missing, not scannable (non-directory ancestor, unreadable), a non-directory, or a directory *)
Inductive dstate := DMissing | DUnscannable | DIsFile (e : entry) | DDir (l : list (string * entry)).
(* the configured directories in order (already cleaned by WithSpecDirs), each with what is there *)
Definition fsview := list (string * dstate).

(* a Spec file as loaded: priority = index of its directory, cleaned path, content *)
Record lfile := mkLfile { lf_prio : nat; lf_path : string; lf_spec : spec }.
Inductive scanned := SLoaded (f : lfile) | SError (path : string).

(* insertion sort of directory entries by name: filepath.Walk visits a directory in lexical (byte) order *)
Fixpoint insert_entry (x : string * entry) (l : list (string * entry)) : list (string * entry) :=
  match l with
  | [] => [x]
  | y :: r => if str_ltb (fst y) (fst x) then y :: insert_entry x r else x :: l
  end.
Definition sort_entries (l : list (string * entry)) := fold_right insert_entry [] l.

Definition load (prio : nat) (path : string) (e : entry) : list scanned :=
  match e with
  | ESub => []
  | EFile None => [SError (clean path)]
  | EFile (Some s) => [SLoaded (mkLfile prio (with_default_ext (clean path)) s)]
  end.

Definition scan_dir (prio : nat) (d : string * dstate) : list scanned :=
  let '(dpath, st) := d in
  match st with
  | DMissing | DUnscannable => []
  | DIsFile e => if is_spec_name dpath then load prio dpath e else []
  | DDir l => flat_map (fun ne => if is_spec_name (fst ne) then load prio (join2 dpath (fst ne)) (snd ne) else [])
                       (sort_entries l)
  end.

Fixpoint scan_from (prio : nat) (fs : fsview) : list scanned :=
  match fs with
  | [] => []
  | d :: r => (scan_dir prio d ++ scan_from (S prio) r)%list
  end.
Definition scan (fs : fsview) : list scanned := scan_from 0 fs.

(* ---------------- refresh ---------------- *)
Definition vendor_of (f : lfile) : string := fst (parse_qualifier (s_kind (lf_spec f))).
Definition class_of (f : lfile) : string := snd (parse_qualifier (s_kind (lf_spec f))).
Definition qname (f : lfile) (d : device) : string := qualified_name (vendor_of f) (class_of f) (d_name d).

Record cdev := mkCdev { cd_file : lfile; cd_dev : device }.
Definition devmap := list (string * cdev).
Fixpoint dlookup (n : string) (m : devmap) : option cdev :=
  match m with [] => None | (k, v) :: r => if String.eqb n k then Some v else dlookup n r end.
Definition sdel (n : string) (s : list string) : list string := filter (fun k => negb (String.eqb n k)) s.

Record rstate := mkR { r_specs : list (string * list lfile); r_devs : devmap; r_conf : list string; r_errs : list string }.

Fixpoint add_spec (v : string) (f : lfile) (m : list (string * list lfile)) : list (string * list lfile) :=
  match m with
  | [] => [(v, [f])]
  | (k, l) :: r => if String.eqb v k then (k, (l ++ [f])%list) :: r else (k, l) :: add_spec v f r
  end.

(* one device of a file: the body of the inner loop including resolveConflict *)
Definition add_dev (f : lfile) (st : rstate) (d : device) : rstate :=
  let n := qname f d in
  match dlookup n (r_devs st) with
  | None => mkR (r_specs st) ((n, mkCdev f d) :: r_devs st) (r_conf st) (r_errs st)
  | Some old =>
      let oldp := lf_prio (cd_file old) in
      if Nat.ltb oldp (lf_prio f) then mkR (r_specs st) ((n, mkCdev f d) :: r_devs st) (sdel n (r_conf st)) (r_errs st)
      else if Nat.eqb (lf_prio f) oldp then
        mkR (r_specs st) (r_devs st) (n :: r_conf st) (r_errs st ++ [lf_path f; lf_path (cd_file old)])%list
      else st
  end.

Definition add_scanned (st : rstate) (x : scanned) : rstate :=
  match x with
  | SError p => mkR (r_specs st) (r_devs st) (r_conf st) (r_errs st ++ [p])%list
  | SLoaded f =>
      let st1 := mkR (add_spec (vendor_of f) f (r_specs st)) (r_devs st) (r_conf st) (r_errs st) in
      fold_left (add_dev f) (s_devices (lf_spec f)) st1
  end.

Definition refresh_st (files : list scanned) : rstate := fold_left add_scanned files (mkR [] [] [] []).

(* the cache after a refresh *)
Record cache := mkCache { c_specs : list (string * list lfile); c_devs : devmap; c_conf : list string; c_errs : list string }.
Definition refresh_files (files : list scanned) : cache :=
  let st := refresh_st files in mkCache (r_specs st) (r_devs st) (r_conf st) (r_errs st).
Definition refresh (fs : fsview) : cache := refresh_files (scan fs).

(* ---------------- queries ---------------- *)
(* GetDevice: the conflicting names have been deleted from the index *)
Definition get_device (c : cache) (n : string) : option cdev :=
  if mem_s n (c_conf c) then None else dlookup n (c_devs c).
Definition list_devices (c : cache) : list string :=
  sort_strings (dedup_s (filter (fun n => negb (mem_s n (c_conf c))) (map fst (c_devs c)))).
Definition list_vendors (c : cache) : list string := sort_strings (dedup_s (map fst (c_specs c))).
Definition list_classes (c : cache) : list string :=
  sort_strings (dedup_s (map class_of (flat_map snd (c_specs c)))).
Fixpoint vendor_specs (c_sp : list (string * list lfile)) (v : string) : list lfile :=
  match c_sp with [] => [] | (k, l) :: r => if String.eqb v k then l else vendor_specs r v end.
Definition error_keys (c : cache) : list string := sort_strings (dedup_s (c_errs c)).
(* Refresh() returns an error iff some path has an error recorded *)
Definition refresh_fails (c : cache) : bool := match c_errs c with [] => false | _ => true end.

(* ---------------- InjectDevices ---------------- *)
Definition same_file (a b : lfile) : bool := Nat.eqb (lf_prio a) (lf_prio b) && String.eqb (lf_path a) (lf_path b).
(* the walk over the request: unresolved names, the Specs met so far, the accumulated edits *)
Definition inj_step (c : cache) (st : list string * list lfile * edits) (n : string) : list string * list lfile * edits :=
  let '(unres, seen, acc) := st in
  match get_device c n with
  | None => ((unres ++ [n])%list, seen, acc)
  | Some cd =>
      let f := cd_file cd in
      let '(seen', acc') := if existsb (same_file f) seen then (seen, acc)
                            else (f :: seen, append_edits acc (s_edits (lf_spec f))) in
      (unres, seen', append_edits acc' (d_edits (cd_dev cd)))
  end.
Definition inj_walk (c : cache) (names : list string) := fold_left (inj_step c) names ([], [], empty_edits).

(* result: the unresolved names returned, the outcome (0 ok, 1 error, 2 panic) and the OCI spec afterwards (None: nil) *)
Definition inject (host : hostfn) (c : cache) (o : option oci) (names : list string) : list string * nat * option oci :=
  match o with
  | None => (names, 1, None)
  | Some o0 =>
      let '(unres, _, acc) := inj_walk c names in
      match unres with
      | _ :: _ => (unres, 1, Some o0)
      | [] => let '(o', code) := apply host acc o0 in ([], code, Some o')
      end
  end.

(* ================= declarative specification (no reference to the scan order or to the index) ================= *)
Fixpoint loaded (files : list scanned) : list lfile :=
  match files with [] => [] | SLoaded f :: r => f :: loaded r | SError _ :: r => loaded r end.
Fixpoint failed (files : list scanned) : list string :=
  match files with [] => [] | SLoaded _ :: r => failed r | SError p :: r => p :: failed r end.

(* the definition of device n in file f, if any (first of that name) *)
Fixpoint def_in (f : lfile) (n : string) (ds : list device) : option device :=
  match ds with [] => None | d :: r => if String.eqb n (qname f d) then Some d else def_in f n r end.
Definition defines (n : string) (f : lfile) : bool := match def_in f n (s_devices (lf_spec f)) with Some _ => true | None => false end.
Definition defs (n : string) (fl : list lfile) : list lfile := filter (defines n) fl.
Definition top (l : list lfile) : nat := fold_right (fun f m => Nat.max (lf_prio f) m) 0 l.
Definition at_top (n : string) (fl : list lfile) : list lfile :=
  filter (fun f => Nat.eqb (lf_prio f) (top (defs n fl))) (defs n fl).
(* n resolves iff, among the files that define it, exactly one has the highest priority; it resolves to that one *)
Definition resolve_spec (fl : list lfile) (n : string) : option cdev :=
  match at_top n fl with
  | [f] => match def_in f n (s_devices (lf_spec f)) with Some d => Some (mkCdev f d) | None => None end
  | _ => None
  end.
(* every qualified name some loaded file defines *)
Definition all_names (fl : list lfile) : list string := flat_map (fun f => map (qname f) (s_devices (lf_spec f))) fl.
Definition resolvable (fl : list lfile) : list string :=
  sort_strings (dedup_s (filter (fun n => match resolve_spec fl n with Some _ => true | None => false end) (all_names fl))).
(* a loaded file is in conflict when another loaded file of the same priority defines one of its devices *)
Fixpoint conflicting_aux (before after : list lfile) : list string :=
  match after with
  | [] => []
  | f :: r =>
      let others := (before ++ r)%list in
      if existsb (fun d => existsb (fun g => Nat.eqb (lf_prio g) (lf_prio f) && defines (qname f d) g) others) (s_devices (lf_spec f))
      then lf_path f :: conflicting_aux (before ++ [f]) r else conflicting_aux (before ++ [f]) r
  end.
Definition conflicting (fl : list lfile) : list string := conflicting_aux [] fl.
Definition expected_error_keys (files : list scanned) : list string :=
  sort_strings (dedup_s (failed files ++ conflicting (loaded files))).

(* boolean equalities for the judges *)
Definition lfile_eqb (a b : lfile) : bool := same_file a b && spec_eqb (lf_spec a) (lf_spec b).
Definition cdev_eqb (a b : cdev) : bool := lfile_eqb (cd_file a) (cd_file b) && device_eqb (cd_dev a) (cd_dev b).
