(* Judge18.v — evaluation of harness cases for C18. *)
From Coq Require Import String Ascii List Bool Arith ZArith.
From CDI Require Import Base SpecModel Doc Schema SchemaInst.
From CDIGen Require Import SchemaGen.
Import ListNotations.
Open Scope string_scope.

(* s: the Spec value; img: json.Marshal(s) decoded into a document; obs: verdicts 0 accepted, 1 rejected, 2 panicked,
   3 not run, in the order
   0 BuiltinSchema().Validate(s)
   1 Cache.WriteSpec(s, x.json) without a Spec validator      2 the same for x.yaml
   3 Cache.WriteSpec(s, x.json) with SetSpecValidator(builtin) 4 the same for x.yaml
   5 ValidateFile(written x.json)   6 ValidateFile(written x.yaml)
   7 ValidateData(bytes of x.json)  8 ValidateData(bytes of x.yaml)
   9 cdi.ReadSpec(x.json) without validator   10 cdi.ReadSpec(x.yaml) without validator
   11 cdi.ReadSpec(x.json) with validator     12 cdi.ReadSpec(x.yaml) with validator *)
Inductive case18 := C18 (s : spec) (img : doc) (obs : list nat).

Definition code (b : bool) : nat := if b then 0 else 1.
Definition ob (obs : list nat) (i : nat) : nat := nth i obs 3.
Definition is_or_skipped (x : nat) (v : nat) : bool := Nat.eqb x 3 || Nat.eqb x v.
(* the validator runs first; when it accepts, the outcome is the library's own *)
Definition with_validator (m : bool) (without : nat) : nat := if m then without else 1.

Definition corr18 (c : case18) : bool :=
  match c with
  | C18 s img obs =>
      let d := doc_of_spec s in
      let m := validate builtin d in
      let md := run_data (CfgSchema builtin) d in
      Nat.eqb (length obs) 13 &&
      doc_eqb d img &&
      Nat.eqb (ob obs 0) (code m) &&
      Nat.eqb (ob obs 3) (with_validator m (ob obs 1)) && Nat.eqb (ob obs 4) (with_validator m (ob obs 2)) &&
      is_or_skipped (ob obs 5) (code m) && is_or_skipped (ob obs 6) (code md) &&
      is_or_skipped (ob obs 7) (code md) && is_or_skipped (ob obs 8) (code md) &&
      is_or_skipped (ob obs 11) (with_validator m (ob obs 9)) && is_or_skipped (ob obs 12) (with_validator m (ob obs 10)) &&
      (* what the theorem assumes of a library-valid Spec really follows from the library accepting it *)
      (negb (Nat.eqb (ob obs 1) 0) || (lib_ok_b s && lib_annots_ok_b s && in_go_ranges_b s))
  end.

Definition oracle18 (c : case18) : bool :=
  match c with
  | C18 s img obs =>
      forallb (fun x => negb (Nat.eqb x 2)) obs &&
      (* the theorem's body on the regenerated schema (model-side search when the proof breaks) *)
      c18_body3_b s &&
      (* the library accepts the Spec, timeouts within 0..2^32-1 ==> *)
      (negb (Nat.eqb (ob obs 1) 0 && timeouts_ok_b s) ||
       ((* the schema accepts the in-memory Spec, and writing with the validator installed works as without *)
        Nat.eqb (ob obs 0) 0 && Nat.eqb (ob obs 2) 0 && Nat.eqb (ob obs 3) 0 && Nat.eqb (ob obs 4) 0 &&
        (* the written files pass the schema *)
        Nat.eqb (ob obs 5) 0 && Nat.eqb (ob obs 6) 0 && Nat.eqb (ob obs 7) 0 && Nat.eqb (ob obs 8) 0 &&
        (* installing the validator never turns a loadable file into an error *)
        Nat.eqb (ob obs 11) (ob obs 9) && Nat.eqb (ob obs 12) (ob obs 10) && negb (Nat.eqb (ob obs 9) 3) && negb (Nat.eqb (ob obs 10) 3)))
  end.

Definition judge18 (cases : list case18) : list nat * list nat :=
  (bad_indices corr18 0 cases, bad_indices oracle18 0 cases).
