(* Oci.v — the part of the OCI runtime spec that CDI container edits can touch (runtime-spec v1.1.0 types),
   plus an opaque token for everything else. nil and empty lists / absent sections are identified (the
   harness normalises them); an absent Process section behaves like uid = gid = 0. *)
From Coq Require Import String Ascii List Bool ZArith.
From CDI Require Import Base SpecModel.
Import ListNotations.
Open Scope string_scope.

Record ocidev := mkOciDev {
  od_path : string; od_type : string; od_major : Z; od_minor : Z;
  od_filemode : option Z; od_uid : option Z; od_gid : option Z }.
Record cgrule := mkCgRule { cg_allow : bool; cg_type : string; cg_major : option Z; cg_minor : option Z; cg_access : string }.
(* om_rest: the members of a mount the edits never produce (uid/gid mappings), as an opaque token *)
Record ocimount := mkOciMount { om_dest : string; om_type : string; om_source : string; om_opts : list string; om_rest : string }.
Record ocihook := mkOciHook { oh_path : string; oh_args : list string; oh_env : list string; oh_timeout : option Z }.
Record ocihooks := mkOciHooks {
  hk_prestart : list ocihook; hk_create_runtime : list ocihook; hk_create_container : list ocihook;
  hk_start_container : list ocihook; hk_poststart : list ocihook; hk_poststop : list ocihook }.
Record oci := mkOci {
  o_env : list string; o_uid : Z; o_gid : Z; o_gids : list Z;
  o_mounts : list ocimount; o_hooks : ocihooks;
  o_devices : list ocidev; o_cgroup : list cgrule; o_rdt : option rdt;
  o_rest : string }.

Definition empty_hooks := mkOciHooks [] [] [] [] [] [].

(* record updates *)
Definition set_env (o : oci) v := mkOci v (o_uid o) (o_gid o) (o_gids o) (o_mounts o) (o_hooks o) (o_devices o) (o_cgroup o) (o_rdt o) (o_rest o).
Definition set_gids (o : oci) v := mkOci (o_env o) (o_uid o) (o_gid o) v (o_mounts o) (o_hooks o) (o_devices o) (o_cgroup o) (o_rdt o) (o_rest o).
Definition set_mounts (o : oci) v := mkOci (o_env o) (o_uid o) (o_gid o) (o_gids o) v (o_hooks o) (o_devices o) (o_cgroup o) (o_rdt o) (o_rest o).
Definition set_hooks (o : oci) v := mkOci (o_env o) (o_uid o) (o_gid o) (o_gids o) (o_mounts o) v (o_devices o) (o_cgroup o) (o_rdt o) (o_rest o).
Definition set_devices (o : oci) v := mkOci (o_env o) (o_uid o) (o_gid o) (o_gids o) (o_mounts o) (o_hooks o) v (o_cgroup o) (o_rdt o) (o_rest o).
Definition set_cgroup (o : oci) v := mkOci (o_env o) (o_uid o) (o_gid o) (o_gids o) (o_mounts o) (o_hooks o) (o_devices o) v (o_rdt o) (o_rest o).
Definition set_rdt (o : oci) v := mkOci (o_env o) (o_uid o) (o_gid o) (o_gids o) (o_mounts o) (o_hooks o) (o_devices o) (o_cgroup o) v (o_rest o).

(* boolean equality for the judges *)
Definition ocidev_eqb (a b : ocidev) : bool :=
  String.eqb (od_path a) (od_path b) && String.eqb (od_type a) (od_type b) && Z.eqb (od_major a) (od_major b) &&
  Z.eqb (od_minor a) (od_minor b) && Z_opt_eqb (od_filemode a) (od_filemode b) &&
  Z_opt_eqb (od_uid a) (od_uid b) && Z_opt_eqb (od_gid a) (od_gid b).
Definition cgrule_eqb (a b : cgrule) : bool :=
  Bool.eqb (cg_allow a) (cg_allow b) && String.eqb (cg_type a) (cg_type b) && Z_opt_eqb (cg_major a) (cg_major b) &&
  Z_opt_eqb (cg_minor a) (cg_minor b) && String.eqb (cg_access a) (cg_access b).
Definition ocimount_eqb (a b : ocimount) : bool :=
  String.eqb (om_dest a) (om_dest b) && String.eqb (om_type a) (om_type b) && String.eqb (om_source a) (om_source b) &&
  ls_eqb (om_opts a) (om_opts b) && String.eqb (om_rest a) (om_rest b).
Definition ocihook_eqb (a b : ocihook) : bool :=
  String.eqb (oh_path a) (oh_path b) && ls_eqb (oh_args a) (oh_args b) && ls_eqb (oh_env a) (oh_env b) &&
  Z_opt_eqb (oh_timeout a) (oh_timeout b).
Definition ocihooks_eqb (a b : ocihooks) : bool :=
  list_eqb ocihook_eqb (hk_prestart a) (hk_prestart b) && list_eqb ocihook_eqb (hk_create_runtime a) (hk_create_runtime b) &&
  list_eqb ocihook_eqb (hk_create_container a) (hk_create_container b) &&
  list_eqb ocihook_eqb (hk_start_container a) (hk_start_container b) &&
  list_eqb ocihook_eqb (hk_poststart a) (hk_poststart b) && list_eqb ocihook_eqb (hk_poststop a) (hk_poststop b).
Definition oci_eqb (a b : oci) : bool :=
  ls_eqb (o_env a) (o_env b) && Z.eqb (o_uid a) (o_uid b) && Z.eqb (o_gid a) (o_gid b) && list_eqb Z.eqb (o_gids a) (o_gids b) &&
  list_eqb ocimount_eqb (o_mounts a) (o_mounts b) && ocihooks_eqb (o_hooks a) (o_hooks b) &&
  list_eqb ocidev_eqb (o_devices a) (o_devices b) && list_eqb cgrule_eqb (o_cgroup a) (o_cgroup b) &&
  option_eqb rdt_eqb (o_rdt a) (o_rdt b) && String.eqb (o_rest a) (o_rest b).
