From Coq Require Import String Ascii List Bool Arith ZArith Lia.
From P Require Import Schema.
Import ListNotations.
Open Scope string_scope.

(* every DeviceNode value of the Go type passes the DeviceNode schema, whatever the strings are *)
Theorem devnode_passes d : devnode_typed d -> validate sDeviceNode (enc_devnode d) = true.
Proof.
  intros (Mj & Mn & Fm & U & G). unfold sDeviceNode, enc_devnode.
  apply validate_obj; [reflexivity|reflexivity|].
  apply Forall_somes. unfold omit_s, omit_z, omit_o, int64, uint32, opt in *.
  repeat (apply Forall_cons); [..|apply Forall_nil];
    try match goal with |- context [if ?c then None else Some _] => destruct c end;
    try match goal with |- context [option_map _ ?o] => destruct o; cbn [option_map] end;
    try exact I;
    (split; [|exact I]);
    cbn [lookup_all String.eqb Ascii.eqb Bool.eqb fst snd andb];
    repeat constructor;
    cbn [validate type_ok range_ok andb sStr sI64 sU32];
    try reflexivity;
    rewrite !andb_true_iff; repeat split; try reflexivity; apply Z.leb_le; lia.
Qed.

(* annotations: any map of strings passes "mapStringString" *)
Definition enc_annotations (m : list (string * string)) : doc := DObj (map (fun kv => (fst kv, DStr (snd kv))) m).
Theorem annotations_pass m : validate sAnnotations (enc_annotations m) = true.
Proof.
  unfold sAnnotations, enc_annotations. apply validate_obj; [reflexivity|reflexivity|].
  apply Forall_forall. intros kv H. apply in_map_iff in H as ((k & v) & <- & _). split; [constructor|]. reflexivity.
Qed.

(* lists of device nodes *)
Theorem devnodes_pass l : Forall devnode_typed l ->
  validate (SNode (Some TArray) [] [] (Some sDeviceNode) None None None) (DArr (map enc_devnode l)) = true.
Proof.
  intro H. apply validate_arr. apply Forall_forall. intros x Hx. apply in_map_iff in Hx as (d & <- & Hd).
  apply devnode_passes. exact (proj1 (Forall_forall _ _) H d Hd).
Qed.

(* the schema rejects what it should *)
Example rejects_bad_major :
  validate sDeviceNode (DObj [("path", DStr "/dev/x"); ("major", DStr "12")]) = false.
Proof. reflexivity. Qed.
Example rejects_big_uid :
  validate sDeviceNode (DObj [("path", DStr "/dev/x"); ("uid", DInt 4294967296)]) = false.
Proof. reflexivity. Qed.
Example rejects_missing_path : validate sDeviceNode (DObj [("type", DStr "c")]) = false.
Proof. reflexivity. Qed.

Print Assumptions devnode_passes.
Print Assumptions devnodes_pass.
