From Coq Require Import List Bool Arith Lia Sorting.Sorted.
Import ListNotations.

(* Sketch for C03 mounts: insertion sort by an integer key is *the* stable sort — any list that is sorted by key
   and keeps, for every key, the subsequence of the input with that key equals it.  So the model's sort agrees
   with Go's sort.Stable whatever algorithm Go uses. *)
Section Stable.
  Variable A : Type.
  Variable key : A -> nat.

  Fixpoint insert (x : A) (l : list A) : list A :=
    match l with
    | [] => [x]
    | y :: r => if key x <? key y then x :: l else y :: insert x r   (* after all elements with key <= key x *)
    end.
  (* to be stable when folding from the left we insert each new element after equal keys *)
  Definition isort (l : list A) : list A := fold_left (fun acc x => insert x acc) l [].

  Definition sortedk (l : list A) := forall i j, i < j -> j < length l ->
     forall a b, nth_error l i = Some a -> nth_error l j = Some b -> key a <= key b.
  Definition class (k : nat) (l : list A) := filter (fun x => key x =? k) l.

  Inductive srt : list A -> Prop :=
  | srt_nil : srt []
  | srt_cons x l : Forall (fun y => key x <= key y) l -> srt l -> srt (x :: l).

  Lemma insert_forall (P : A -> Prop) x l : P x -> Forall P l -> Forall P (insert x l).
  Proof.
    intros Hx H. induction H as [|y r Hy Hr IH]; cbn [insert].
    - constructor; [exact Hx|constructor].
    - destruct (key x <? key y).
      + constructor; [exact Hx|]. constructor; [exact Hy|exact Hr].
      + constructor; [exact Hy|exact IH].
  Qed.

  Lemma insert_srt x l : srt l -> srt (insert x l).
  Proof.
    induction 1 as [|y r Hy Hr IH]; cbn [insert].
    - constructor; constructor.
    - destruct (key x <? key y) eqn:E.
      + apply Nat.ltb_lt in E. constructor; [|constructor; assumption].
        constructor; [lia|]. eapply Forall_impl; [|exact Hy]. cbn. intros; lia.
      + apply Nat.ltb_ge in E. constructor; [|exact IH]. apply insert_forall; [exact E|exact Hy].
  Qed.

  Lemma insert_class k x l : srt l ->
    class k (insert x l) = if key x =? k then class k l ++ [x] else class k l.
  Proof.
    unfold class. induction 1 as [|y r Hy Hr IH]; cbn [insert filter].
    - destruct (key x =? k); reflexivity.
    - destruct (key x <? key y) eqn:E; cbn [filter].
      + apply Nat.ltb_lt in E. destruct (key x =? k) eqn:Ex.
        * apply Nat.eqb_eq in Ex.
          replace (key y =? k) with false by (symmetry; apply Nat.eqb_neq; lia).
          replace (filter (fun z => key z =? k) r) with (@nil A); [reflexivity|].
          symmetry. clear - Hy E Ex. induction Hy as [|z r' Hz _ IH']; cbn [filter]; [reflexivity|].
          replace (key z =? k) with false by (symmetry; apply Nat.eqb_neq; lia). exact IH'.
        * reflexivity.
      + rewrite IH. destruct (key y =? k), (key x =? k); reflexivity.
  Qed.

  Lemma isort_gen acc l : srt acc ->
    srt (fold_left (fun a x => insert x a) l acc) /\
    forall k, class k (fold_left (fun a x => insert x a) l acc) = class k acc ++ class k l.
  Proof.
    revert acc. induction l as [|x r IH]; intros acc S; cbn [fold_left].
    - split; [exact S|]. intro k. unfold class at 3. cbn. rewrite app_nil_r. reflexivity.
    - destruct (IH (insert x acc) (insert_srt x acc S)) as [S' C]. split; [exact S'|].
      intro k. rewrite C, insert_class by exact S. unfold class. cbn [filter].
      destruct (key x =? k); [rewrite <- app_assoc; reflexivity|reflexivity].
  Qed.

  Theorem isort_sorted l : srt (isort l).
  Proof. apply (isort_gen [] l). constructor. Qed.
  Theorem isort_stable l k : class k (isort l) = class k l.
  Proof. destruct (isort_gen [] l srt_nil) as [_ C]. rewrite C. reflexivity. Qed.

  (* uniqueness: sortedness + per-key subsequences determine the list *)
  Lemma class_nil_all l : (forall k, class k l = []) -> l = [].
  Proof.
    destruct l as [|x r]; [reflexivity|]. intro H. specialize (H (key x)). unfold class in H. cbn in H.
    rewrite Nat.eqb_refl in H. discriminate.
  Qed.

  Theorem stable_sort_unique l1 l2 :
    srt l1 -> srt l2 -> (forall k, class k l1 = class k l2) -> l1 = l2.
  Proof.
    intros S1. revert l2. induction S1 as [|x r Hx Sr IH]; intros l2 S2 C.
    - symmetry. apply class_nil_all. intro k. rewrite <- C. reflexivity.
    - destruct S2 as [|y r2 Hy Sr2].
      + specialize (C (key x)). unfold class in C. cbn in C. rewrite Nat.eqb_refl in C. discriminate.
      + (* heads have the same key, hence are the same element *)
        assert (Kxy : key x = key y).
        { assert (L1 : key x <= key y).
          { pose proof (C (key y)) as Cy. unfold class in Cy. cbn [filter] in Cy. rewrite Nat.eqb_refl in Cy.
            destruct (key x =? key y) eqn:E; [apply Nat.eqb_eq in E; lia|].
            assert (In y (filter (fun z => key z =? key y) r)) by (rewrite Cy; left; reflexivity).
            apply filter_In in H as [Hin _]. exact (proj1 (Forall_forall _ _) Hx y Hin). }
          assert (L2 : key y <= key x).
          { pose proof (C (key x)) as Cx. unfold class in Cx. cbn [filter] in Cx. rewrite Nat.eqb_refl in Cx.
            destruct (key y =? key x) eqn:E; [apply Nat.eqb_eq in E; lia|].
            assert (In x (filter (fun z => key z =? key x) r2)) by (rewrite <- Cx; left; reflexivity).
            apply filter_In in H as [Hin _]. exact (proj1 (Forall_forall _ _) Hy x Hin). }
          lia. }
        pose proof (C (key x)) as Cx. unfold class in Cx. cbn [filter] in Cx.
        rewrite Nat.eqb_refl in Cx. rewrite <- Kxy, Nat.eqb_refl in Cx. inversion Cx; subst y.
        f_equal. apply IH; [exact Sr2|]. intro k. specialize (C k). unfold class in *. cbn [filter] in C.
        destruct (key x =? k); [inversion C; reflexivity|exact C].
  Qed.

  Corollary any_stable_sort_is_isort l r :
    srt r -> (forall k, class k r = class k l) -> r = isort l.
  Proof.
    intros S C. apply stable_sort_unique; [exact S|apply isort_sorted|].
    intro k. rewrite isort_stable. apply C.
  Qed.
End Stable.

Print Assumptions any_stable_sort_is_isort.
