From Coq Require Import String Ascii List Bool Arith NArith Lia.
From P Require Import Base.
Import ListNotations.
Open Scope string_scope.

(* ---------------- model of pkg/parser/parser.go (with the single-letter fix) -------- *)
Definition vc_mid (c : ascii) : bool :=
  is_alnum c || Ascii.eqb c "_" || Ascii.eqb c "-" || Ascii.eqb c ".".
Definition dn_mid (c : ascii) : bool := vc_mid c || Ascii.eqb c ":".

Definition validate_vc (name : string) : result unit :=
  match name with
  | EmptyString => Err
  | String c0 _ =>
      if negb (is_letter c0) then Err
      else if Nat.eqb (String.length name) 1 then Ok tt
      else bind (go_slice name 1 (String.length name - 1)) (fun mid =>
        if negb (forallb_s vc_mid mid) then Err
        else match last_char name with
             | Some l => if is_alnum l then Ok tt else Err
             | None => Panic
             end)
  end.

(* the pinned code, without the len==1 guard *)
Definition validate_vc_pinned (name : string) : result unit :=
  match name with
  | EmptyString => Err
  | String c0 _ =>
      if negb (is_letter c0) then Err
      else bind (go_slice name 1 (String.length name - 1)) (fun mid =>
        if negb (forallb_s vc_mid mid) then Err
        else match last_char name with
             | Some l => if is_alnum l then Ok tt else Err
             | None => Panic
             end)
  end.

Definition validate_dn (name : string) : result unit :=
  match name with
  | EmptyString => Err
  | String c0 _ =>
      if negb (is_alnum c0) then Err
      else if Nat.eqb (String.length name) 1 then Ok tt
      else bind (go_slice name 1 (String.length name - 1)) (fun mid =>
        if negb (forallb_s dn_mid mid) then Err
        else match last_char name with
             | Some l => if is_alnum l then Ok tt else Err
             | None => Panic
             end)
  end.

Definition parse_qualifier (kind : string) : string * string :=
  match split_first "/" kind with
  | Some (v, c) => if (String.eqb v "" || String.eqb c "") then ("", kind) else (v, c)
  | None => ("", kind)
  end.

Definition parse_device (device : string) : string * string * string :=
  match device with
  | EmptyString => ("", "", device)
  | String c0 _ =>
      if Ascii.eqb c0 "/" then ("", "", device)
      else match split_first "=" device with
           | None => ("", "", device)
           | Some (q, n) =>
               if (String.eqb q "" || String.eqb n "") then ("", "", device)
               else let '(v, c) := parse_qualifier q in
                    if String.eqb v "" then ("", "", device) else (v, c, n)
           end
  end.

Definition parse_qualified_name (device : string) : result (string * string * string) * (string * string * string) :=
  (* second component: what Go returns alongside a non-nil error *)
  let '(v, c, n) := parse_device device in
  let fail := ("", "", device) in
  if String.eqb v "" then (Err, fail)
  else if String.eqb c "" then (Err, fail)
  else if String.eqb n "" then (Err, fail)
  else match validate_vc v with
       | Panic => (Panic, fail) | Err => (Err, fail)
       | Ok _ =>
         match validate_vc c with
         | Panic => (Panic, fail) | Err => (Err, fail)
         | Ok _ =>
           match validate_dn n with
           | Panic => (Panic, fail) | Err => (Err, fail)
           | Ok _ => (Ok (v, c, n), (v, c, n))
           end
         end
       end.

Definition qualified_name (v c n : string) : string := v ++ "/" ++ c ++ "=" ++ n.

(* ---------------- the grammar, stated independently of the code ---------------- *)
Inductive Shape (first mid last : ascii -> bool) : string -> Prop :=
| Shape1 c : first c = true -> last c = true -> Shape first mid last (String c "")
| ShapeN c m l : first c = true -> forallb_s mid m = true -> last l = true ->
                 Shape first mid last (String c (m ++ String l "")).
Definition VC := Shape is_letter vc_mid is_alnum.
Definition DN := Shape is_alnum dn_mid is_alnum.

(* ---------------- string facts ---------------- *)
Lemma length_app a b : String.length (a ++ b) = String.length a + String.length b.
Proof. induction a; cbn; auto. Qed.

Lemma snoc_decomp s : s <> "" -> exists m l, s = m ++ String l "".
Proof.
  induction s as [|c r IH]; [congruence|]. intros _.
  destruct r as [|c' r'].
  - exists "", c. reflexivity.
  - destruct IH as (m & l & E); [discriminate|]. exists (String c m), l. cbn. rewrite <- E. reflexivity.
Qed.

Lemma substring_all n s : n = String.length s -> substring 0 n s = s.
Proof. intros ->. induction s; cbn; congruence. Qed.

Lemma substring_prefix m r : substring 0 (String.length m) (m ++ r) = m.
Proof. induction m; cbn; [destruct r; reflexivity | congruence]. Qed.

Lemma get_snoc m l : get (String.length m) (m ++ String l "") = Some l.
Proof. induction m; cbn; auto. Qed.

Lemma shape_mid c m l :
  go_slice (String c (m ++ String l "")) 1 (String.length (String c (m ++ String l "")) - 1) = Ok m.
Proof.
  unfold go_slice. cbn [String.length]. rewrite length_app. cbn [String.length].
  replace (S (String.length m + 1) - 1) with (S (String.length m)) by lia.
  replace (Nat.leb 1 (S (String.length m))) with true by (symmetry; apply Nat.leb_le; lia).
  replace (Nat.leb (S (String.length m)) (S (String.length m + 1))) with true
    by (symmetry; apply Nat.leb_le; lia).
  cbn [andb]. f_equal. replace (S (String.length m) - 1) with (String.length m) by lia.
  cbn [substring]. apply substring_prefix.
Qed.

Lemma shape_last c m l : last_char (String c (m ++ String l "")) = Some l.
Proof.
  unfold last_char. cbn [String.length]. rewrite length_app. cbn [String.length].
  replace (S (String.length m + 1) - 1) with (S (String.length m)) by lia.
  cbn [get]. apply get_snoc.
Qed.

(* ---------------- validators = grammar, never panic ---------------- *)
Section Validator.
  Variables first mid last : ascii -> bool.
  Definition validate (name : string) : result unit :=
    match name with
    | EmptyString => Err
    | String c0 _ =>
        if negb (first c0) then Err
        else if Nat.eqb (String.length name) 1 then (if last c0 then Ok tt else Err)
        else bind (go_slice name 1 (String.length name - 1)) (fun m =>
          if negb (forallb_s mid m) then Err
          else match last_char name with
               | Some l => if last l then Ok tt else Err
               | None => Panic
               end)
    end.

  Lemma validate_iff s : validate s = Ok tt <-> Shape first mid last s.
  Proof.
    split.
    - destruct s as [|c r]; cbn [validate]; [discriminate|].
      destruct (first c) eqn:Hf; cbn [negb]; [|discriminate].
      destruct r as [|c' r'].
      + cbn. destruct (last c) eqn:Hl; [|discriminate]. intros _. constructor; auto.
      + destruct (snoc_decomp (String c' r')) as (m & l & E); [discriminate|]. rewrite E.
        replace (Nat.eqb (String.length (String c (m ++ String l ""))) 1) with false.
        2:{ symmetry. apply Nat.eqb_neq. cbn. rewrite length_app. cbn. lia. }
        rewrite shape_mid. cbn [bind]. rewrite shape_last.
        destruct (forallb_s mid m) eqn:Hm; cbn [negb]; [|discriminate].
        destruct (last l) eqn:Hl; [|discriminate]. intros _. constructor; auto.
    - intros [c Hf Hl | c m l Hf Hm Hl]; cbn [validate]; rewrite Hf; cbn [negb].
      + cbn. rewrite Hl. reflexivity.
      + replace (Nat.eqb (String.length (String c (m ++ String l ""))) 1) with false.
        2:{ symmetry. apply Nat.eqb_neq. cbn. rewrite length_app. cbn. lia. }
        rewrite shape_mid. cbn [bind]. rewrite shape_last, Hm, Hl. reflexivity.
  Qed.

  Lemma validate_total s : validate s <> Panic.
  Proof.
    destruct s as [|c r]; cbn [validate]; [discriminate|].
    destruct (first c); cbn [negb]; [|discriminate].
    destruct r as [|c' r'].
    - cbn. destruct (last c); discriminate.
    - destruct (snoc_decomp (String c' r')) as (m & l & E); [discriminate|]. rewrite E.
      replace (Nat.eqb (String.length (String c (m ++ String l ""))) 1) with false.
      2:{ symmetry. apply Nat.eqb_neq. cbn. rewrite length_app. cbn. lia. }
      rewrite shape_mid. cbn [bind]. rewrite shape_last.
      destruct (forallb_s mid m); cbn [negb]; [|discriminate]. destruct (last l); discriminate.
  Qed.
End Validator.

Lemma letter_alnum c : is_letter c = true -> is_alnum c = true.
Proof. unfold is_alnum. intros ->. reflexivity. Qed.

Lemma validate_vc_eq s : validate_vc s = validate is_letter vc_mid is_alnum s.
Proof.
  destruct s as [|c r]; cbn [validate_vc validate]; [reflexivity|].
  destruct (is_letter c) eqn:Hf; cbn [negb]; [|reflexivity].
  destruct (Nat.eqb (String.length (String c r)) 1); [|reflexivity].
  rewrite (letter_alnum _ Hf). reflexivity.
Qed.

Lemma validate_dn_eq s : validate_dn s = validate is_alnum dn_mid is_alnum s.
Proof.
  destruct s as [|c r]; cbn [validate_dn validate]; [reflexivity|].
  destruct (is_alnum c) eqn:Hf; cbn [negb]; [|reflexivity].
  destruct (Nat.eqb (String.length (String c r)) 1); reflexivity.
Qed.

Theorem validate_vc_iff s : validate_vc s = Ok tt <-> VC s.
Proof. rewrite validate_vc_eq. apply validate_iff. Qed.
Theorem validate_vc_total s : validate_vc s <> Panic.
Proof. rewrite validate_vc_eq. apply validate_total. Qed.
Theorem validate_dn_iff s : validate_dn s = Ok tt <-> DN s.
Proof. rewrite validate_dn_eq. apply validate_iff. Qed.
Theorem validate_dn_total s : validate_dn s <> Panic.
Proof. rewrite validate_dn_eq. apply validate_total. Qed.

(* the pinned code is refuted by the shortest witness *)
Theorem validate_vc_pinned_refuted : exists s, validate_vc_pinned s = Panic.
Proof. exists "a". vm_compute. reflexivity. Qed.

Print Assumptions validate_vc_iff.
Print Assumptions validate_vc_total.
