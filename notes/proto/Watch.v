From Coq Require Import List Bool Arith Lia.
Import ListNotations.

(* Feasibility sketch for C11 (with fixes D8 and D13): the watcher state machine converges.
   Directories, file names and contents are naturals; a directory is a partial map name -> content. *)
Definition D := nat. Definition name := nat. Definition content := nat.

Inductive eop := Create | Write | Remove | Rename.
Record ev := { op : eop; ed : D; en : option name }.   (* en = None: the watched directory itself *)

Section Watch.
  Variable specname : name -> bool.

  Definition dirc := name -> option content.
  Record st := { fs : D -> option dirc; kw : D -> bool; tr : D -> bool; q : list ev;
                 cache : D -> name -> option content }.

  Definition ex (s : st) (d : D) : bool := match fs s d with Some _ => true | None => false end.
  Definition file (s : st) (d : D) (n : name) : option content :=
    match fs s d with Some c => c n | None => None end.
  Definition view (s : st) (d : D) (n : name) : option content := if specname n then file s d n else None.

  Definition upd {A} (f : nat -> A) (k : nat) (v : A) : nat -> A := fun x => if Nat.eqb x k then v else f x.

  Inductive fsop :=
  | OWrite (d : D) (n : name) (c : content)     (* create or rewrite with data *)
  | OAppear (d : D) (n : name) (c : content)    (* move in / link / empty create (may replace) *)
  | ORemove (d : D) (n : name)
  | ORename (d : D) (a b : name)
  | OMoveOut (d : D) (n : name)
  | OMkdir (d : D)
  | ORmdir (d : D).

  Definition emit (s : st) (d : D) (l : list ev) : list ev := if kw s d then q s ++ l else q s.
  Definition E o d n := {| op := o; ed := d; en := Some n |}.
  Definition Eself d := {| op := Remove; ed := d; en := None |}.

  Definition setfile (s : st) (d : D) (n : name) (v : option content) : D -> option dirc :=
    match fs s d with Some c => upd (fs s) d (Some (upd c n v)) | None => fs s end.

  (* effect of a file-system operation: new fs, queued events (only if a kernel watch exists), watch loss on rmdir *)
  Definition apply (s : st) (o : fsop) : st :=
    match o with
    | OWrite d n c =>
        if ex s d then
          {| fs := setfile s d n (Some c); kw := kw s; tr := tr s; cache := cache s;
             q := emit s d (match file s d n with Some _ => [E Write d n] | None => [E Create d n; E Write d n] end) |}
        else s
    | OAppear d n c =>
        if ex s d then {| fs := setfile s d n (Some c); kw := kw s; tr := tr s; cache := cache s; q := emit s d [E Create d n] |}
        else s
    | ORemove d n =>
        match file s d n with
        | Some _ => {| fs := setfile s d n None; kw := kw s; tr := tr s; cache := cache s; q := emit s d [E Remove d n] |}
        | None => s end
    | OMoveOut d n =>
        match file s d n with
        | Some _ => {| fs := setfile s d n None; kw := kw s; tr := tr s; cache := cache s; q := emit s d [E Rename d n] |}
        | None => s end
    | ORename d a b =>
        match file s d a, fs s d with
        | Some c, Some dc =>
            {| fs := upd (fs s) d (Some (upd (upd dc b (Some c)) a (if Nat.eqb a b then Some c else None)));
               kw := kw s; tr := tr s; cache := cache s; q := emit s d [E Rename d a; E Create d b] |}
        | _, _ => s end
    | OMkdir d =>
        if ex s d then s
        else {| fs := upd (fs s) d (Some (fun _ => None)); kw := kw s; tr := tr s; cache := cache s; q := q s |}
    | ORmdir d =>
        if ex s d then {| fs := upd (fs s) d None; kw := upd (kw s) d false; tr := tr s; cache := cache s; q := emit s d [Eself d] |}
        else s
    end.

  (* does the event survive fsnotify's exists-check and the cache's filter (mask incl. Create, extension filter)? *)
  Definition fires (s : st) (e : ev) : bool :=
    match op e with
    | Remove | Rename => true
    | Create | Write =>
        match en e with
        | Some n => specname n && match file s (ed e) n with Some _ => true | None => false end
        | None => false
        end
    end.

  (* watch.update(): removed directories first (D13), then (re-)add every untracked existing directory *)
  Definition untrack (s : st) (e : ev) : D -> bool :=
    match op e, en e with Remove, None => upd (tr s) (ed e) false | _, _ => tr s end.
  Definition readd_tr (t : D -> bool) (s : st) : D -> bool := fun d => t d || ex s d.
  Definition readd_kw (t : D -> bool) (s : st) : D -> bool := fun d => if t d then kw s d else ex s d.

  Inductive label := LOp (o : fsop) | LDeliver | LQuery.
  Inductive step : st -> label -> st -> Prop :=
  | SOp s o : step s (LOp o) (apply s o)
  | SDrop s e r : q s = e :: r -> fires s e = false ->
      step s LDeliver {| fs := fs s; kw := kw s; tr := tr s; q := r; cache := cache s |}
  | SFire s e r : q s = e :: r -> fires s e = true ->
      step s LDeliver {| fs := fs s; kw := readd_kw (untrack s e) s; tr := readd_tr (untrack s e) s; q := r; cache := view s |}
  | SQueryAdd s d : tr s d = false -> ex s d = true ->
      step s LQuery {| fs := fs s; kw := readd_kw (tr s) s; tr := readd_tr (tr s) s; q := q s; cache := view s |}
  | SQueryKeep s : (forall d, tr s d = false -> ex s d = false) -> step s LQuery s.

  Definition I1 s := forall d, kw s d = true -> tr s d = true /\ ex s d = true.
  Definition I2 s := forall d, tr s d = true -> kw s d = false -> In (Eself d) (q s).
  Definition I4 s := forall d n, tr s d = false -> cache s d n = None.
  Definition I3 s := forall d n, cache s d n <> view s d n ->
      (exists e, In e (q s) /\ ed e = d /\ fires s e = true) \/ (tr s d = false /\ ex s d = true).
  Definition Inv s := I1 s /\ I2 s /\ I3 s /\ I4 s.

  Definition init (s : st) : Prop :=
    q s = [] /\ (forall d, tr s d = ex s d) /\ (forall d, kw s d = ex s d) /\ (forall d n, cache s d n = view s d n).

  Lemma init_inv s : init s -> Inv s.
  Proof.
    intros (Q & T & K & C). repeat split.
    - rewrite T, <- K; auto. - rewrite <- K; auto.
    - intros d Ht Hk. rewrite T in Ht. rewrite K in Hk. congruence.
    - intros d n H. specialize (C d n). contradiction.
    - intros d n Ht. rewrite C. unfold view, file. rewrite T in Ht. unfold ex in Ht.
      destruct (fs s d); [discriminate|]. destruct (specname n); reflexivity.
  Qed.


  Lemma opt_dec (a b : option content) : {a = b} + {a <> b}.
  Proof. decide equality. apply Nat.eq_dec. Qed.

  Theorem query_converges s s' :
    Inv s -> q s = [] -> step s LQuery s' -> forall d n, cache s' d n = view s' d n.
  Proof.
    intros (_ & _ & H3 & _) Q St. inversion St; subst; cbn [cache]; intros d' n.
    - reflexivity.
    - destruct (opt_dec (cache s' d' n) (view s' d' n)) as [E|N]; [exact E|exfalso].
      destruct (H3 d' n N) as [(e & He & _)|[Ht He]].
      + rewrite Q in He. exact He.
      + rewrite (H d' Ht) in He. discriminate.
  Qed.

  (* ---------- facts about file-system operations ---------- *)
  Definition odir (o : fsop) : D :=
    match o with OWrite d _ _ | OAppear d _ _ | ORemove d _ | ORename d _ _ | OMoveOut d _ | OMkdir d | ORmdir d => d end.

  Lemma upd_same {A} (f : nat -> A) k v : upd f k v k = v.
  Proof. unfold upd. rewrite Nat.eqb_refl. reflexivity. Qed.
  Lemma upd_other {A} (f : nat -> A) k v x : x <> k -> upd f k v x = f x.
  Proof. unfold upd. intro H. apply Nat.eqb_neq in H. rewrite H. reflexivity. Qed.

  Lemma setfile_other s d n v x : x <> d -> setfile s d n v x = fs s x.
  Proof. intro H. unfold setfile. destruct (fs s d); [apply upd_other; exact H|reflexivity]. Qed.

  Ltac case_op o s :=
    destruct o as [d0 n0 c0|d0 n0 c0|d0 n0|d0 a0 b0|d0 n0|d0|d0]; cbn [apply odir];
    [ destruct (ex s d0) eqn:X0
    | destruct (ex s d0) eqn:X0
    | destruct (file s d0 n0) eqn:F0
    | destruct (file s d0 a0) eqn:F0; [destruct (fs s d0) eqn:G0|]
    | destruct (file s d0 n0) eqn:F0
    | destruct (ex s d0) eqn:X0
    | destruct (ex s d0) eqn:X0 ].

  Lemma apply_tr s o : tr (apply s o) = tr s.
  Proof. case_op o s; reflexivity. Qed.
  Lemma apply_cache s o : cache (apply s o) = cache s.
  Proof. case_op o s; reflexivity. Qed.

  Lemma apply_fs_other s o d : d <> odir o -> fs (apply s o) d = fs s d.
  Proof.
    case_op o s; cbn [fs]; intro H; try reflexivity;
      try (apply setfile_other; exact H); try (apply upd_other; exact H).
  Qed.

  Lemma apply_kw_le s o d : kw (apply s o) d = true -> kw s d = true.
  Proof.
    case_op o s; cbn [kw]; try tauto. unfold upd. destruct (Nat.eqb d d0); [discriminate|tauto].
  Qed.

  Lemma apply_q s o : exists l, q (apply s o) = q s ++ l /\ Forall (fun e => ed e = odir o) l.
  Proof.
    case_op o s; cbn [q]; unfold emit;
      try (exists []; rewrite app_nil_r; split; [reflexivity|constructor]);
      destruct (kw s d0);
      try (exists []; rewrite app_nil_r; split; [reflexivity|constructor]).
    - destruct (file s d0 n0); eexists; split; try reflexivity; repeat constructor.
    - eexists; split; [reflexivity|repeat constructor].
    - eexists; split; [reflexivity|repeat constructor].
    - eexists; split; [reflexivity|repeat constructor].
    - eexists; split; [reflexivity|repeat constructor].
    - eexists; split; [reflexivity|repeat constructor].
  Qed.

  Lemma in_q_apply s o e : In e (q s) -> In e (q (apply s o)).
  Proof. intro H. destruct (apply_q s o) as (l & -> & _). apply in_or_app. left; exact H. Qed.

  Lemma fires_other s o e : ed e <> odir o -> fires (apply s o) e = fires s e.
  Proof.
    intro H. unfold fires, file. rewrite (apply_fs_other s o (ed e) H). reflexivity.
  Qed.

  Lemma ex_other s o d : d <> odir o -> ex (apply s o) d = ex s d.
  Proof. intro H. unfold ex. rewrite apply_fs_other by exact H. reflexivity. Qed.
  Lemma view_other s o d n : d <> odir o -> view (apply s o) d n = view s d n.
  Proof. intro H. unfold view, file. rewrite apply_fs_other by exact H. reflexivity. Qed.

  (* in a kernel-watched directory, every operation either leaves the view and all firing events intact,
     or queues an event that fires in the new state *)
  Lemma op_watched s o :
    kw s (odir o) = true -> ex s (odir o) = true ->
    (exists e, In e (q (apply s o)) /\ ed e = odir o /\ fires (apply s o) e = true) \/
    ((forall n, view (apply s o) (odir o) n = view s (odir o) n) /\
     (forall e, ed e = odir o -> fires s e = true -> fires (apply s o) e = true)).
  Proof.
    intros K X.
    destruct o as [d0 n0 c0|d0 n0 c0|d0 n0|d0 a0 b0|d0 n0|d0|d0]; cbn [apply odir] in *.
    - (* OWrite *)
      rewrite X. destruct (specname n0) eqn:SN.
      + left. exists (E Write d0 n0). split; [|split; [reflexivity|]].
        * cbn [q]. unfold emit. rewrite K. apply in_or_app. right. destruct (file s d0 n0); cbn; auto.
        * unfold fires, E, file, setfile. cbn [op en ed fs]. unfold ex in X. destruct (fs s d0); [|discriminate].
          rewrite SN, upd_same, upd_same. reflexivity.
      + right. unfold ex in X. split.
        * intro n. unfold view, file, setfile. cbn [fs]. destruct (fs s d0) as [dc|]; [|discriminate].
          rewrite upd_same. destruct (specname n) eqn:Sn; [|reflexivity].
          rewrite upd_other; [reflexivity|]. intro; subst; congruence.
        * intros e He F. unfold fires, file, setfile in *. cbn [fs]. rewrite He in *.
          destruct (fs s d0) as [dc|]; [|discriminate]. rewrite upd_same.
          destruct (op e); auto. all: destruct (en e) as [m|]; auto.
          all: apply andb_true_iff in F as [F1 F2]; rewrite F1; cbn [andb].
          all: rewrite upd_other; [exact F2|intro; subst; congruence].
    - (* OAppear *)
      rewrite X. destruct (specname n0) eqn:SN.
      + left. exists (E Create d0 n0). split; [|split; [reflexivity|]].
        * cbn [q]. unfold emit. rewrite K. apply in_or_app. right. cbn; auto.
        * unfold fires, E, file, setfile. cbn [op en ed fs]. unfold ex in X. destruct (fs s d0); [|discriminate].
          rewrite SN, upd_same, upd_same. reflexivity.
      + right. unfold ex in X. split.
        * intro n. unfold view, file, setfile. cbn [fs]. destruct (fs s d0) as [dc|]; [|discriminate].
          rewrite upd_same. destruct (specname n) eqn:Sn; [|reflexivity].
          rewrite upd_other; [reflexivity|]. intro; subst; congruence.
        * intros e He F. unfold fires, file, setfile in *. cbn [fs]. rewrite He in *.
          destruct (fs s d0) as [dc|]; [|discriminate]. rewrite upd_same.
          destruct (op e); auto. all: destruct (en e) as [m|]; auto.
          all: apply andb_true_iff in F as [F1 F2]; rewrite F1; cbn [andb].
          all: rewrite upd_other; [exact F2|intro; subst; congruence].
    - (* ORemove *)
      destruct (file s d0 n0) eqn:F0.
      + left. exists (E Remove d0 n0). split; [|split; reflexivity].
        cbn [q]. unfold emit. rewrite K. apply in_or_app. right. cbn; auto.
      + right. split; auto.
    - (* ORename *)
      destruct (file s d0 a0) eqn:F0; [destruct (fs s d0) eqn:G0|].
      + left. exists (E Rename d0 a0). split; [|split; reflexivity].
        cbn [q]. unfold emit. rewrite K. apply in_or_app. right. cbn; auto.
      + right. split; auto.
      + right. split; auto.
    - (* OMoveOut *)
      destruct (file s d0 n0) eqn:F0.
      + left. exists (E Rename d0 n0). split; [|split; reflexivity].
        cbn [q]. unfold emit. rewrite K. apply in_or_app. right. cbn; auto.
      + right. split; auto.
    - (* OMkdir: directory exists, no-op *)
      rewrite X. right. split; auto.
    - (* ORmdir *)
      rewrite X. left. exists (Eself d0). split; [|split; reflexivity].
      cbn [q]. unfold emit. rewrite K. apply in_or_app. right. cbn; auto.
  Qed.

  Lemma view_some_ex s d n : view s d n <> None -> ex s d = true.
  Proof. unfold view, file, ex. destruct (fs s d); [reflexivity|]. destruct (specname n); congruence. Qed.

  Lemma ex_setfile s d n v x : (match setfile s d n v x with Some _ => true | None => false end) = ex s x.
  Proof.
    unfold setfile, ex. destruct (fs s d) eqn:G; [|reflexivity].
    unfold upd. destruct (Nat.eqb x d) eqn:E; [|reflexivity]. apply Nat.eqb_eq in E; subst. rewrite G. reflexivity.
  Qed.

  Lemma ex_apply_true s o d : ex s d = true -> kw (apply s o) d = true -> ex (apply s o) d = true.
  Proof.
    intros X. case_op o s; cbn [kw]; intro K; try exact X; unfold ex at 1; cbn [fs];
      try (rewrite ex_setfile; exact X).
    - unfold upd. destruct (Nat.eqb d d0); [reflexivity|exact X].
    - unfold upd. destruct (Nat.eqb d d0); [reflexivity|exact X].
    - unfold upd in *. destruct (Nat.eqb d d0); [discriminate|exact X].
  Qed.

  Lemma op_inv s o : Inv s -> Inv (apply s o).
  Proof.
    intros (H1 & H2 & H3 & H4). split; [|split; [|split]].
    - (* I1 *)
      intros d K. pose proof (apply_kw_le s o d K) as K0. destruct (H1 d K0) as [T X]. rewrite apply_tr. split; [exact T|].
      apply ex_apply_true; assumption.
    - (* I2 *)
      intros d T K. rewrite apply_tr in T.
      destruct (kw s d) eqn:K0.
      + (* the watch was lost by this very operation: it must be rmdir d, which queues Eself d *)
        destruct (H1 d K0) as [_ X].
        revert K. case_op o s; cbn [kw]; try congruence.
        unfold upd. destruct (Nat.eqb d d0) eqn:E; [|congruence]. apply Nat.eqb_eq in E; subst d0. intros _.
        cbn [q]. unfold emit. rewrite K0. apply in_or_app. right. cbn; auto.
      + apply in_q_apply. apply H2; assumption.
    - (* I3 *)
      intros d n Hs. rewrite apply_cache in Hs. rewrite apply_tr.
      destruct (Nat.eq_dec d (odir o)) as [->|N].
      + destruct (kw s (odir o)) eqn:K.
        * destruct (H1 _ K) as [T X].
          destruct (op_watched s o K X) as [W|[V F]]; [left; exact W|].
          rewrite V in Hs. destruct (H3 _ _ Hs) as [(e & He & Hd & Hf)|[Tf _]]; [|congruence].
          left. exists e. split; [apply in_q_apply; exact He|split; [exact Hd|apply F; assumption]].
        * destruct (tr s (odir o)) eqn:T.
          -- left. exists (Eself (odir o)). split; [apply in_q_apply; apply H2; assumption|split; reflexivity].
          -- right. split; [reflexivity|]. apply (view_some_ex _ _ n). rewrite (H4 _ n T) in Hs. congruence.
      + rewrite view_other in Hs by exact N. rewrite ex_other by exact N.
        destruct (H3 _ _ Hs) as [(e & He & Hd & Hf)|R]; [|right; exact R].
        left. exists e. split; [apply in_q_apply; exact He|split; [exact Hd|]].
        rewrite fires_other; [exact Hf|congruence].
    - (* I4 *)
      intros d n T. rewrite apply_tr in T. rewrite apply_cache. apply H4; exact T.
  Qed.

  Lemma eself_fires s d : fires s (Eself d) = true.
  Proof. reflexivity. Qed.

  Lemma untrack_true s e d : untrack s e d = true -> tr s d = true /\ e <> Eself d.
  Proof.
    unfold untrack. destruct e as [o d' [n|]]; cbn [op en ed].
    - destruct o; intro H; (split; [exact H|discriminate]).
    - destruct o; intro H; try (split; [exact H|discriminate]).
      unfold upd in H. destruct (Nat.eqb d d') eqn:E; [discriminate|]. split; [exact H|].
      unfold Eself. intro X. inversion X; subst. rewrite Nat.eqb_refl in E. discriminate.
  Qed.

  Lemma readd_inv s t r :
    (forall d, t d = true -> tr s d = true) ->
    (forall d, t d = true -> kw s d = false -> In (Eself d) r) ->
    I1 s ->
    Inv {| fs := fs s; kw := readd_kw t s; tr := readd_tr t s; q := r; cache := view s |}.
  Proof.
    intros Ht H2 H1. split; [|split; [|split]].
    - intros d. cbn [kw tr]. unfold readd_kw, readd_tr, ex. cbn [fs]. fold (ex s d).
      destruct (t d) eqn:T; cbn [orb]; intro K; [split; [reflexivity|]|auto].
      apply (H1 d K).
    - intros d. cbn [kw tr q]. unfold readd_kw, readd_tr. destruct (t d) eqn:T; cbn [orb].
      + intros _ K. apply H2; assumption.
      + intros X K. congruence.
    - intros d n. cbn [cache]. unfold view, file. cbn [fs]. congruence.
    - intros d n. cbn [tr cache]. unfold readd_tr. intro T. apply orb_false_iff in T as [_ X].
      unfold view, file. unfold ex in X. destruct (fs s d); [discriminate|]. destruct (specname n); reflexivity.
  Qed.

  Theorem step_inv s l s' : Inv s -> step s l s' -> Inv s'.
  Proof.
    intros I St. inversion St; subst.
    - apply op_inv; exact I.
    - (* dropped / filtered event *)
      destruct I as (H1 & H2 & H3 & H4). split; [|split; [|split]]; cbn [kw tr q cache fs].
      + exact H1.
      + intros d T K. specialize (H2 d T K). rewrite H in H2. destruct H2 as [->|]; [|assumption].
        rewrite eself_fires in H0. discriminate.
      + intros d n Hs. unfold view, file in Hs. cbn [fs] in Hs.
        destruct (H3 d n Hs) as [(e' & He & Hd & Hf)|R]; [|right; exact R].
        left. exists e'. rewrite H in He. destruct He as [<-|He]; [congruence|]. auto.
      + exact H4.
    - (* firing event *)
      destruct I as (H1 & H2 & H3 & H4). apply readd_inv; [| |exact H1].
      + intros d T. apply (untrack_true s e d T).
      + intros d T K. destruct (untrack_true s e d T) as [T0 Ne].
        specialize (H2 d T0 K). rewrite H in H2. destruct H2 as [X|]; [congruence|assumption].
    - (* query that re-adds *)
      destruct I as (H1 & H2 & H3 & H4). apply readd_inv; auto.
    - exact I.
  Qed.

  Inductive reach (s0 : st) : st -> Prop :=
  | R0 : reach s0 s0
  | RS s l s' : reach s0 s -> step s l s' -> reach s0 s'.

  Theorem convergence s0 s s' :
    init s0 -> reach s0 s -> q s = [] -> step s LQuery s' ->
    forall d n, cache s' d n = view s' d n.
  Proof.
    intros I R. apply query_converges. induction R; [apply init_inv; exact I|eapply step_inv; eauto].
  Qed.
End Watch.

Print Assumptions convergence.
