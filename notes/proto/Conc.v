From Coq Require Import List Bool Arith Lia.
Import ListNotations.

(* Feasibility sketch for C12: a syntactic lock discipline on method paths implies that in every
   interleaving no two threads are simultaneously about to perform conflicting accesses to a
   guarded variable, and that a critical section is never interrupted by another thread's access. *)
Definition tid := nat. Definition mid := nat. Definition var := nat.
Inductive act := Lock (m : mid) | Unlock (m : mid) | Rd (x : var) | Wr (x : var).

Section Discipline.
  Variable guard : var -> option mid.          (* which mutex protects which variable *)

  Definition memb (m : mid) (l : list mid) := existsb (Nat.eqb m) l.
  Definition rem (m : mid) (l : list mid) := filter (fun k => negb (Nat.eqb m k)) l.

  (* executable checker run on the generated paths *)
  Fixpoint wl (held : list mid) (p : list act) : bool :=
    match p with
    | [] => match held with [] => true | _ => false end
    | Lock m :: r => negb (memb m held) && wl (m :: held) r
    | Unlock m :: r => memb m held && wl (rem m held) r
    | Rd x :: r | Wr x :: r =>
        match guard x with Some m => memb m held | None => true end && wl held r
    end.

  (* interleaving semantics with a non-reentrant mutex *)
  Record state := { own : mid -> option tid; thr : tid -> list act }.
  Definition upd {A} (f : nat -> A) (k : nat) (v : A) : nat -> A := fun n => if Nat.eqb n k then v else f n.

  Inductive step : state -> tid -> act -> state -> Prop :=
  | SLock s i m r : thr s i = Lock m :: r -> own s m = None ->
      step s i (Lock m) {| own := upd (own s) m (Some i); thr := upd (thr s) i r |}
  | SUnlock s i m r : thr s i = Unlock m :: r ->
      step s i (Unlock m) {| own := upd (own s) m None; thr := upd (thr s) i r |}
  | SRd s i x r : thr s i = Rd x :: r -> step s i (Rd x) {| own := own s; thr := upd (thr s) i r |}
  | SWr s i x r : thr s i = Wr x :: r -> step s i (Wr x) {| own := own s; thr := upd (thr s) i r |}.

  Inductive reach (s0 : state) : state -> Prop :=
  | R0 : reach s0 s0
  | RS s i a s' : reach s0 s -> step s i a s' -> reach s0 s'.

  Definition Inv (s : state) : Prop :=
    forall i, exists held, wl held (thr s i) = true /\ (forall m, memb m held = true <-> own s m = Some i).

  Lemma memb_rem_same m l : memb m (rem m l) = false.
  Proof.
    unfold memb, rem. induction l as [|k r IH]; cbn; [reflexivity|].
    destruct (Nat.eqb m k) eqn:E; cbn; [exact IH|]. rewrite E. exact IH.
  Qed.
  Lemma memb_rem_other m k l : Nat.eqb m k = false -> memb m (rem k l) = memb m l.
  Proof.
    intro H. unfold memb, rem. induction l as [|x r IH]; cbn; [reflexivity|].
    destruct (Nat.eqb k x) eqn:E; cbn.
    - apply Nat.eqb_eq in E; subst. rewrite H. exact IH.
    - rewrite IH. reflexivity.
  Qed.

  Lemma step_inv s i a s' : Inv s -> step s i a s' -> Inv s'.
  Proof.
    intros I St j. destruct (I j) as (hj & Wj & Oj). destruct (I i) as (hi & Wi & Oi).
    inversion St; subst; cbn [own thr]; unfold upd.
    - (* Lock *)
      destruct (Nat.eqb j i) eqn:E.
      + apply Nat.eqb_eq in E; subst j. rewrite H in Wi. cbn [wl] in Wi. apply andb_true_iff in Wi as [N W].
        exists (m :: hi). split; [exact W|]. intro k. cbn [memb existsb]. fold (memb k hi).
        destruct (Nat.eqb k m) eqn:K; cbn [orb].
        * tauto.
        * apply Oi.
      + exists hj. split; [exact Wj|]. intro k. destruct (Nat.eqb k m) eqn:K.
        * apply Nat.eqb_eq in K; subst k. split.
          -- intro Hm. apply Oj in Hm. congruence.
          -- intro X. inversion X; subst. rewrite Nat.eqb_refl in E. discriminate.
        * apply Oj.
    - (* Unlock *)
      destruct (Nat.eqb j i) eqn:E.
      + apply Nat.eqb_eq in E; subst j. rewrite H in Wi. cbn [wl] in Wi. apply andb_true_iff in Wi as [N W].
        exists (rem m hi). split; [exact W|]. intro k. destruct (Nat.eqb k m) eqn:K.
        * apply Nat.eqb_eq in K; subst k. rewrite memb_rem_same. split; discriminate.
        * rewrite memb_rem_other by exact K. apply Oi.
      + exists hj. split; [exact Wj|]. intro k. destruct (Nat.eqb k m) eqn:K.
        * apply Nat.eqb_eq in K; subst k. split; [|discriminate].
          intro Hm. apply Oj in Hm.
          rewrite H in Wi. cbn [wl] in Wi. apply andb_true_iff in Wi as [N _]. apply Oi in N.
          rewrite N in Hm. inversion Hm; subst. rewrite Nat.eqb_refl in E. discriminate.
        * apply Oj.
    - destruct (Nat.eqb j i) eqn:E.
      + apply Nat.eqb_eq in E; subst j. rewrite H in Wi. cbn [wl] in Wi. apply andb_true_iff in Wi as [_ W].
        exists hi. auto.
      + exists hj. auto.
    - destruct (Nat.eqb j i) eqn:E.
      + apply Nat.eqb_eq in E; subst j. rewrite H in Wi. cbn [wl] in Wi. apply andb_true_iff in Wi as [_ W].
        exists hi. auto.
      + exists hj. auto.
  Qed.

  Definition init_ok (s0 : state) : Prop := (forall m, own s0 m = None) /\ (forall i, wl [] (thr s0 i) = true).

  Lemma init_inv s0 : init_ok s0 -> Inv s0.
  Proof.
    intros [O W] i. exists []. split; [apply W|]. intro m. cbn. rewrite O. split; discriminate.
  Qed.

  Theorem reach_inv s0 s : init_ok s0 -> reach s0 s -> Inv s.
  Proof. intros I R. induction R; [apply init_inv; exact I | eapply step_inv; eauto]. Qed.

  Definition accesses (a : act) (x : var) : Prop := a = Rd x \/ a = Wr x.

  (* data-race freedom: two different threads are never both about to access the same guarded variable *)
  Theorem race_free s0 s i j a b ra rb x m :
    init_ok s0 -> reach s0 s -> guard x = Some m ->
    thr s i = a :: ra -> thr s j = b :: rb -> accesses a x -> accesses b x -> i = j.
  Proof.
    intros I R G Hi Hj Ai Aj. pose proof (reach_inv _ _ I R) as V.
    destruct (V i) as (hi & Wi & Oi). destruct (V j) as (hj & Wj & Oj).
    rewrite Hi in Wi. rewrite Hj in Wj.
    assert (Mi : memb m hi = true).
    { destruct Ai as [-> | ->]; cbn [wl] in Wi; rewrite G in Wi; apply andb_true_iff in Wi; tauto. }
    assert (Mj : memb m hj = true).
    { destruct Aj as [-> | ->]; cbn [wl] in Wj; rewrite G in Wj; apply andb_true_iff in Wj; tauto. }
    apply Oi in Mi. apply Oj in Mj. congruence.
  Qed.

  (* a thread about to access a guarded variable owns its mutex: nobody else can be inside that critical section *)
  Theorem access_owns s0 s i a r x m :
    init_ok s0 -> reach s0 s -> guard x = Some m -> thr s i = a :: r -> accesses a x -> own s m = Some i.
  Proof.
    intros I R G Hi Ai. destruct (reach_inv _ _ I R i) as (hi & Wi & Oi). rewrite Hi in Wi.
    apply Oi. destruct Ai as [-> | ->]; cbn [wl] in Wi; rewrite G in Wi; apply andb_true_iff in Wi; tauto.
  Qed.

  (* an Unlock in a disciplined program is always by the owner (no "unlock of unlocked mutex" panic) *)
  Theorem unlock_by_owner s0 s i m r :
    init_ok s0 -> reach s0 s -> thr s i = Unlock m :: r -> own s m = Some i.
  Proof.
    intros I R Hi. destruct (reach_inv _ _ I R i) as (hi & Wi & Oi). rewrite Hi in Wi.
    cbn [wl] in Wi. apply andb_true_iff in Wi as [N _]. apply Oi. exact N.
  Qed.

  (* threads are arbitrary concatenations of checked method paths *)
  Lemma wl_app h p q : wl h p = true -> (forall h', wl h' [] = true -> h' = []) -> wl [] q = true ->
                       (h = [] -> wl [] (p ++ q) = true).
  Proof. Abort.
End Discipline.

Print Assumptions race_free.
