From Coq Require Import String Ascii List Bool Arith ZArith Lia.
Import ListNotations.
Open Scope string_scope.

(* Sketch for C17/C18: JSON documents, the draft-07 keyword fragment used by the shipped schema,
   an executable validator, and the compositional proof style for "library-valid Specs pass the schema". *)
Inductive doc :=
| DNull | DBool (b : bool) | DInt (z : Z) | DFrac | DStr (s : string)
| DArr (l : list doc) | DObj (l : list (string * doc)).

Inductive jtype := TObject | TArray | TString | TInteger | TBoolean.

Inductive schema :=
| SAny
| SNode (ty : option jtype) (props : list (string * schema)) (req : list string)
        (items : option schema) (pat : option schema) (mn mx : option Z).

Definition type_ok (t : option jtype) (d : doc) : bool :=
  match t, d with
  | None, _ => true
  | Some TObject, DObj _ | Some TArray, DArr _ | Some TString, DStr _
  | Some TInteger, DInt _ | Some TBoolean, DBool _ => true
  | _, _ => false
  end.

Definition keys (f : list (string * doc)) := map fst f.
Definition mem (k : string) (l : list string) := existsb (String.eqb k) l.

(* patternProperties ".{1,}": the key contains at least one character other than LF *)
Fixpoint pat_matches (k : string) : bool :=
  match k with EmptyString => false | String c r => negb (Ascii.eqb c "010") || pat_matches r end.

Definition range_ok (mn mx : option Z) (d : doc) : bool :=
  match d with
  | DInt z => match mn with Some a => (a <=? z)%Z | None => true end &&
              match mx with Some b => (z <=? b)%Z | None => true end
  | _ => true
  end.

Fixpoint validate (s : schema) (d : doc) {struct s} : bool :=
  match s with
  | SAny => true
  | SNode ty props req items pat mn mx =>
      type_ok ty d && range_ok mn mx d &&
      match d with
      | DObj fields =>
          forallb (fun r => mem r (keys fields)) req &&
          (fix vprops (ps : list (string * schema)) : bool :=
             match ps with
             | [] => true
             | (k', s') :: rest =>
                 forallb (fun kv => if String.eqb (fst kv) k' then validate s' (snd kv) else true) fields && vprops rest
             end) props &&
          match pat with
          | Some sp => forallb (fun kv => if pat_matches (fst kv) then validate sp (snd kv) else true) fields
          | None => true
          end
      | DArr l => match items with Some si => forallb (validate si) l | None => true end
      | _ => true
      end
  end.

(* ---- a fragment of the shipped schema, as the translator would emit it (refs inlined) ---- *)
Definition sStr := SNode (Some TString) [] [] None None None None.
Definition sU32 := SNode (Some TInteger) [] [] None None (Some 0%Z) (Some 4294967295%Z).
Definition sI64 := SNode (Some TInteger) [] [] None None (Some (-9223372036854775808)%Z) (Some 9223372036854775807%Z).
Definition sArrStr := SNode (Some TArray) [] [] (Some sStr) None None None.
Definition sDeviceNode :=
  SNode (Some TObject)
    [("path", sStr); ("hostPath", sStr); ("permissions", sStr); ("type", sStr);
     ("major", sI64); ("minor", sI64); ("uid", sU32); ("gid", sU32)]
    ["path"] None None None None.
Definition sAnnotations := SNode (Some TObject) [] [] None (Some sStr) None None.

(* ---- the Go struct and its JSON image (omitempty as in config.go) ---- *)
Record devnode := { dn_path : string; dn_hostPath : string; dn_type : string; dn_major : Z; dn_minor : Z;
                    dn_fileMode : option Z; dn_perms : string; dn_uid : option Z; dn_gid : option Z }.

Definition omit_s (k v : string) : option (string * doc) := if String.eqb v "" then None else Some (k, DStr v).
Definition omit_z (k : string) (v : Z) : option (string * doc) := if (v =? 0)%Z then None else Some (k, DInt v).
Definition omit_o (k : string) (v : option Z) : option (string * doc) := option_map (fun z => (k, DInt z)) v.
Fixpoint somes {A} (l : list (option A)) : list A :=
  match l with [] => [] | Some a :: r => a :: somes r | None :: r => somes r end.

Definition enc_devnode (d : devnode) : doc :=
  DObj (somes [ Some ("path", DStr (dn_path d)); omit_s "hostPath" (dn_hostPath d); omit_s "type" (dn_type d);
                omit_z "major" (dn_major d); omit_z "minor" (dn_minor d); omit_o "fileMode" (dn_fileMode d);
                omit_s "permissions" (dn_perms d); omit_o "uid" (dn_uid d); omit_o "gid" (dn_gid d) ]).

Definition int64 (z : Z) := (-9223372036854775808 <= z <= 9223372036854775807)%Z.
Definition uint32 (z : Z) := (0 <= z <= 4294967295)%Z.
Definition opt (P : Z -> Prop) (o : option Z) := match o with Some z => P z | None => True end.
Definition devnode_typed (d : devnode) :=    (* the Go field types *)
  int64 (dn_major d) /\ int64 (dn_minor d) /\ opt uint32 (dn_fileMode d) /\ opt uint32 (dn_uid d) /\ opt uint32 (dn_gid d).

(* ---- compositional proof principle: look at each potential member on its own ---- *)
Fixpoint lookup_all (k : string) (props : list (string * schema)) : list schema :=
  match props with
  | [] => []
  | (k', s') :: r => if String.eqb k k' then s' :: lookup_all k r else lookup_all k r
  end.

Definition member_ok (props : list (string * schema)) (pat : option schema) (kv : string * doc) : Prop :=
  Forall (fun s' => validate s' (snd kv) = true) (lookup_all (fst kv) props) /\
  match pat with Some sp => pat_matches (fst kv) = true -> validate sp (snd kv) = true | None => True end.

Definition omember_ok props pat (o : option (string * doc)) : Prop :=
  match o with Some kv => member_ok props pat kv | None => True end.

Lemma Forall_somes {A} (P : A -> Prop) (l : list (option A)) :
  Forall (fun o => match o with Some a => P a | None => True end) l -> Forall P (somes l).
Proof. induction 1 as [|[a|] r H _ IH]; cbn; auto. Qed.

Lemma validate_obj ty props req pat fields :
  type_ok ty (DObj fields) = true ->
  forallb (fun r => mem r (keys fields)) req = true ->
  Forall (member_ok props pat) fields ->
  validate (SNode ty props req None pat None None) (DObj fields) = true.
Proof.
  intros T R M. cbn [validate range_ok]. rewrite T, R. cbn [andb].
  rewrite Forall_forall in M.
  apply andb_true_iff; split.
  - induction props as [|[k' s'] rest IH]; [reflexivity|].
    apply andb_true_iff; split.
    + apply forallb_forall. intros kv Hkv. destruct (String.eqb (fst kv) k') eqn:E; [|reflexivity].
      destruct (M kv Hkv) as [F _]. cbn [lookup_all] in F. rewrite E in F. inversion F; assumption.
    + apply IH. intros kv Hkv. destruct (M kv Hkv) as [F P]. split; [|exact P].
      cbn [lookup_all] in F. destruct (String.eqb (fst kv) k'); [inversion F; assumption|exact F].
  - destruct pat as [sp|]; [|reflexivity]. apply forallb_forall. intros kv Hkv.
    destruct (pat_matches (fst kv)) eqn:E; [|reflexivity]. destruct (M kv Hkv) as [_ P]. apply P. exact E.
Qed.

Lemma validate_arr si l : Forall (fun d => validate si d = true) l ->
  validate (SNode (Some TArray) [] [] (Some si) None None None) (DArr l) = true.
Proof. intro H. cbn. apply forallb_forall. apply Forall_forall. exact H. Qed.

