From Coq Require Import String Ascii List Bool Arith Lia.
From P Require Import Base.
Import ListNotations.
Open Scope string_scope.

(* Sketch of path/filepath (Unix) as needed by C03 (mount depth) and C16 (Spec file names). *)
Fixpoint split_all_aux (sep : ascii) (s cur : string) : list string :=
  match s with
  | EmptyString => [cur]
  | String c r => if Ascii.eqb c sep then cur :: split_all_aux sep r "" else split_all_aux sep r (cur ++ String c "")
  end.
Definition split_all (sep : ascii) (s : string) : list string := split_all_aux sep s "".

Fixpoint join_with (sep : string) (l : list string) : string :=
  match l with [] => "" | [x] => x | x :: r => x ++ sep ++ join_with sep r end.

(* component stack, most recent first *)
Definition clean_step (rooted : bool) (stack : list string) (c : string) : list string :=
  if String.eqb c "" || String.eqb c "." then stack
  else if String.eqb c ".." then
    match stack with
    | top :: rest => if String.eqb top ".." then c :: stack else rest
    | [] => if rooted then [] else [c]
    end
  else c :: stack.

Definition clean (p : string) : string :=
  match p with
  | EmptyString => "."
  | String c0 _ =>
      let rooted := Ascii.eqb c0 "/" in
      let comps := rev (fold_left (clean_step rooted) (split_all "/" p) []) in
      if rooted then "/" ++ join_with "/" comps
      else match comps with [] => "." | _ => join_with "/" comps end
  end.

Fixpoint count_char (x : ascii) (s : string) : nat :=
  match s with EmptyString => 0 | String c r => (if Ascii.eqb c x then 1 else 0) + count_char x r end.
Definition depth (dest : string) : nat := count_char "/" (clean dest).

Definition join2 (a b : string) : string :=        (* filepath.Join(a, b) *)
  if String.eqb a "" then (if String.eqb b "" then "" else clean b)
  else if String.eqb b "" then clean a else clean (a ++ "/" ++ b).

(* filepath.Ext: suffix starting at the last '.' of the last element *)
Fixpoint ext_aux (s : string) (acc : option string) : string :=
  match s with
  | EmptyString => match acc with Some e => e | None => "" end
  | String c r =>
      if Ascii.eqb c "/" then ext_aux r None
      else if Ascii.eqb c "." then ext_aux r (Some s)
      else ext_aux r acc
  end.
Definition ext (p : string) : string := ext_aux p None.

Definition tests : list string :=
  [""; "/"; "//"; "/a"; "/a/"; "/a/b"; "a/b"; "a"; "."; ".."; "../.."; "../a/.."; "/.."; "/../a"; "/a/../b";
   "//a/./b/.."; "/a/b/../../.."; "a/../.."; "a/./b/"; "/a//b///c"; "./a"; "a/.."; "/./."; "...";
   "/a/.../b"; "a/b/../../../c"; "/usr/lib/libVendor.so.0"; "x.json"; "/d/x.tar.gz"; "/d.e/x"; ".json"; "/a.b/"; "a."].
Definition out := Eval vm_compute in map (fun p => (p, clean p, depth p, ext p)) tests.
Print out.
