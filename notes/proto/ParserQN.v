From Coq Require Import String Ascii List Bool Arith NArith Lia.
From P Require Import Base Parser.
Import ListNotations.
Open Scope string_scope.

Definition QN (s v c n : string) : Prop :=
  s = qualified_name v c n /\ VC v /\ VC c /\ DN n.

Lemma app_assoc_s a b c : (a ++ b) ++ c = a ++ (b ++ c).
Proof. induction a; cbn; congruence. Qed.

Lemma forallb_s_app p a b : forallb_s p (a ++ b) = forallb_s p a && forallb_s p b.
Proof. induction a; cbn; [reflexivity|]. rewrite IHa, andb_assoc. reflexivity. Qed.

Lemma contains_app x a b : contains x (a ++ b) = contains x a || contains x b.
Proof. induction a; cbn; [reflexivity|]. rewrite IHa, orb_assoc. reflexivity. Qed.

Lemma forallb_not_contains p x s :
  forallb_s p s = true -> p x = false -> contains x s = false.
Proof.
  induction s as [|c r IH]; cbn; [reflexivity|]. intros H Hx.
  apply andb_true_iff in H as [Hc Hr]. rewrite (IH Hr Hx), orb_false_r.
  destruct (Ascii.eqb c x) eqn:E; [|reflexivity]. apply Ascii.eqb_eq in E. congruence.
Qed.

Lemma shape_forall first mid last p s :
  Shape first mid last s ->
  (forall c, first c = true -> p c = true) ->
  (forall c, mid c = true -> p c = true) ->
  (forall c, last c = true -> p c = true) ->
  forallb_s p s = true.
Proof.
  intros [c Hf Hl | c m l Hf Hm Hl] H1 H2 H3; cbn.
  - rewrite (H1 _ Hf). reflexivity.
  - rewrite (H1 _ Hf), forallb_s_app. cbn. rewrite (H3 _ Hl). rewrite andb_true_r. cbn.
    clear - Hm H2. induction m as [|a m IH]; cbn in *; [reflexivity|].
    apply andb_true_iff in Hm as [Ha Hm]. rewrite (H2 _ Ha), (IH Hm). reflexivity.
Qed.

Lemma shape_nonempty first mid last s : Shape first mid last s -> s <> "".
Proof. intros [c ? ? | c m l ? ? ?]; discriminate. Qed.

(* character facts, by exhaustive case analysis on the 256 bytes *)
Lemma letter_dn_mid c : is_letter c = true -> dn_mid c = true.
Proof. destruct c as [[] [] [] [] [] [] [] []]; vm_compute; congruence. Qed.
Lemma alnum_dn_mid c : is_alnum c = true -> dn_mid c = true.
Proof. destruct c as [[] [] [] [] [] [] [] []]; vm_compute; congruence. Qed.
Lemma vc_mid_dn_mid c : vc_mid c = true -> dn_mid c = true.
Proof. unfold dn_mid. intros ->. reflexivity. Qed.

Lemma dn_mid_not_eq : dn_mid "=" = false. Proof. reflexivity. Qed.
Lemma dn_mid_not_slash : dn_mid "/" = false. Proof. reflexivity. Qed.

Lemma VC_chars s : VC s -> forallb_s dn_mid s = true.
Proof.
  intro H. apply (shape_forall _ _ _ dn_mid _ H).
  - apply letter_dn_mid. - apply vc_mid_dn_mid. - apply alnum_dn_mid.
Qed.
Lemma DN_chars s : DN s -> forallb_s dn_mid s = true.
Proof.
  intro H. apply (shape_forall _ _ _ dn_mid _ H); auto using alnum_dn_mid.
Qed.

Lemma eqb_empty_false s : s <> "" -> String.eqb s "" = false.
Proof. destruct s; [congruence|reflexivity]. Qed.

Lemma VC_first_not_slash s : VC s -> exists c r, s = String c r /\ Ascii.eqb c "/" = false.
Proof.
  intros [c Hf _ | c m l Hf _ _]; eexists _, _; split; try reflexivity;
    destruct c as [[] [] [] [] [] [] [] []]; vm_compute in Hf |- *; congruence.
Qed.

(* ------------------------------------------------------------------ *)
Theorem parse_complete s v c n :
  QN s v c n -> parse_qualified_name s = (Ok (v, c, n), (v, c, n)).
Proof.
  intros (-> & Hv & Hc & Hn).
  pose proof (VC_chars _ Hv) as Cv. pose proof (VC_chars _ Hc) as Cc. pose proof (DN_chars _ Hn) as Cn.
  pose proof (shape_nonempty _ _ _ _ Hv) as Nv. pose proof (shape_nonempty _ _ _ _ Hc) as Nc.
  pose proof (shape_nonempty _ _ _ _ Hn) as Nn.
  unfold parse_qualified_name, parse_device, qualified_name.
  destruct (VC_first_not_slash _ Hv) as (c0 & r0 & Ev & Hs).
  assert (E1 : v ++ "/" ++ c ++ "=" ++ n = (v ++ String "/" c) ++ String "=" n).
  { symmetry. rewrite app_assoc_s. reflexivity. }
  rewrite E1.
  assert (Hd : exists r', (v ++ String "/" c) ++ String "=" n = String c0 r').
  { rewrite Ev. cbn. eexists; reflexivity. }
  destruct Hd as (r' & Hd). rewrite Hd, Hs, <- Hd.
  rewrite split_first_complete.
  2:{ rewrite contains_app. cbn. rewrite (forallb_not_contains _ _ _ Cv dn_mid_not_eq),
        (forallb_not_contains _ _ _ Cc dn_mid_not_eq). reflexivity. }
  rewrite (eqb_empty_false (v ++ String "/" c)) by (rewrite Ev; discriminate).
  rewrite (eqb_empty_false n Nn). cbn [orb].
  unfold parse_qualifier.
  rewrite split_first_complete by (apply (forallb_not_contains _ _ _ Cv dn_mid_not_slash)).
  rewrite (eqb_empty_false v Nv), (eqb_empty_false c Nc). cbn [orb].
  rewrite ?(eqb_empty_false v Nv), ?(eqb_empty_false c Nc), ?(eqb_empty_false n Nn).
  apply validate_vc_iff in Hv. apply validate_vc_iff in Hc. apply validate_dn_iff in Hn.
  rewrite Hv, Hc, Hn. reflexivity.
Qed.

Theorem parse_sound s v c n out :
  parse_qualified_name s = (Ok (v, c, n), out) -> QN s v c n /\ out = (v, c, n).
Proof.
  unfold parse_qualified_name, parse_device.
  destruct s as [|c0 r0]; [cbn; congruence|].
  destruct (Ascii.eqb c0 "/"); [cbn; congruence|].
  destruct (split_first "=" (String c0 r0)) as [[q n']|] eqn:Es; [|cbn; congruence].
  destruct (String.eqb q "" || String.eqb n' "") eqn:E1; [cbn; congruence|].
  unfold parse_qualifier.
  destruct (split_first "/" q) as [[v' c']|] eqn:Eq; [|cbn; congruence].
  destruct (String.eqb v' "" || String.eqb c' "") eqn:E2; [cbn; congruence|].
  apply orb_false_iff in E2 as [E2a E2b]. rewrite E2a, E2a, E2b.
  apply orb_false_iff in E1 as [_ E1b]. rewrite E1b.
  destruct (validate_vc v') as [[]| |] eqn:Hv; try congruence.
  destruct (validate_vc c') as [[]| |] eqn:Hc; try congruence.
  destruct (validate_dn n') as [[]| |] eqn:Hn; try congruence.
  intro H. inversion H; subst. split; [|reflexivity].
  apply split_first_spec in Es as [Es _]. apply split_first_spec in Eq as [Eq _].
  repeat split.
  - rewrite Es, Eq. unfold qualified_name. rewrite app_assoc_s. reflexivity.
  - apply validate_vc_iff; assumption.
  - apply validate_vc_iff; assumption.
  - apply validate_dn_iff; assumption.
Qed.

Theorem parse_total s : fst (parse_qualified_name s) <> Panic.
Proof.
  unfold parse_qualified_name.
  destruct (parse_device s) as [[v c] n].
  destruct (String.eqb v ""); [cbn; congruence|].
  destruct (String.eqb c ""); [cbn; congruence|].
  destruct (String.eqb n ""); [cbn; congruence|].
  pose proof (validate_vc_total v). pose proof (validate_vc_total c). pose proof (validate_dn_total n).
  destruct (validate_vc v); try (cbn; congruence).
  destruct (validate_vc c); try (cbn; congruence).
  destruct (validate_dn n); cbn; congruence.
Qed.

Theorem parse_err_contract s : fst (parse_qualified_name s) = Err -> snd (parse_qualified_name s) = ("", "", s).
Proof.
  unfold parse_qualified_name.
  destruct (parse_device s) as [[v c] n].
  destruct (String.eqb v ""); [reflexivity|].
  destruct (String.eqb c ""); [reflexivity|].
  destruct (String.eqb n ""); [reflexivity|].
  destruct (validate_vc v); try reflexivity.
  destruct (validate_vc c); try reflexivity.
  destruct (validate_dn n); try reflexivity. cbn. congruence.
Qed.

Example qn_nonvacuous : QN "vendor.com/gpu-0=dev:1" "vendor.com" "gpu-0" "dev:1".
Proof.
  repeat split.
  - apply validate_vc_iff. reflexivity.
  - apply validate_vc_iff. reflexivity.
  - apply validate_dn_iff. reflexivity.
Qed.
Example qn_single_letters : QN "a/b=c" "a" "b" "c".
Proof. repeat split; [apply validate_vc_iff| apply validate_vc_iff | apply validate_dn_iff]; reflexivity. Qed.

Print Assumptions parse_complete.
Print Assumptions parse_sound.
