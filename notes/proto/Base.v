From Coq Require Import String Ascii List Bool Arith NArith Lia.
Import ListNotations.
Open Scope string_scope.

(* Result of a modelled Go call: value, error return, or run-time panic. *)
Inductive result (A : Type) : Type :=
| Ok (a : A)
| Err
| Panic.
Arguments Ok {A} a. Arguments Err {A}. Arguments Panic {A}.

Definition bind {A B} (r : result A) (f : A -> result B) : result B :=
  match r with Ok a => f a | Err => Err | Panic => Panic end.

(* ---- byte classes ---- *)
Definition byte_in (lo hi : N) (c : ascii) : bool :=
  let n := N_of_ascii c in (lo <=? n)%N && (n <=? hi)%N.
Definition is_letter (c : ascii) : bool := byte_in 65 90 c || byte_in 97 122 c.
Definition is_digit (c : ascii) : bool := byte_in 48 57 c.
Definition is_alnum (c : ascii) : bool := is_letter c || is_digit c.

(* ---- strings as lists ---- *)
Fixpoint forallb_s (p : ascii -> bool) (s : string) : bool :=
  match s with EmptyString => true | String c r => p c && forallb_s p r end.

Fixpoint contains (x : ascii) (s : string) : bool :=
  match s with EmptyString => false | String c r => Ascii.eqb c x || contains x r end.

(* strings.SplitN(s, sep, 2) for a one-byte separator: None when sep does not occur *)
Fixpoint split_first (sep : ascii) (s : string) : option (string * string) :=
  match s with
  | EmptyString => None
  | String c r =>
      if Ascii.eqb c sep then Some (EmptyString, r)
      else match split_first sep r with
           | Some (a, b) => Some (String c a, b)
           | None => None
           end
  end.

(* Go slice s[i:j] on strings: panics unless i <= j <= len s *)
Definition go_slice (s : string) (i j : nat) : result string :=
  if Nat.leb i j && Nat.leb j (String.length s) then Ok (substring i (j - i) s) else Panic.

Definition last_char (s : string) : option ascii :=
  match s with EmptyString => None | _ => get (String.length s - 1) s end.

Lemma split_first_spec sep s a b :
  split_first sep s = Some (a, b) -> s = a ++ String sep b /\ contains sep a = false.
Proof.
  revert a b; induction s as [|c r IH]; cbn; intros a b H; [discriminate|].
  destruct (Ascii.eqb c sep) eqn:E.
  - apply Ascii.eqb_eq in E; subst. inversion H; subst; cbn; auto.
  - destruct (split_first sep r) as [[a' b']|] eqn:E2; [|discriminate].
    inversion H; subst. destruct (IH _ _ eq_refl) as [-> Hc]. cbn. rewrite E. auto.
Qed.

Lemma split_first_none sep s : split_first sep s = None <-> contains sep s = false.
Proof.
  induction s as [|c r IH]; cbn; [tauto|].
  destruct (Ascii.eqb c sep); cbn.
  - split; discriminate.
  - destruct (split_first sep r) as [[a b]|]; split; intro H; try discriminate.
    + apply IH in H. discriminate.
    + apply IH; reflexivity.
    + apply IH in H. exact H.
Qed.

Lemma split_first_complete sep a b :
  contains sep a = false -> split_first sep (a ++ String sep b) = Some (a, b).
Proof.
  induction a as [|c r IH]; cbn; intro H.
  - rewrite Ascii.eqb_refl. reflexivity.
  - apply orb_false_iff in H as [H1 H2]. rewrite H1, (IH H2). reflexivity.
Qed.
