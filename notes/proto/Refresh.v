From Coq Require Import String List Bool Arith Lia.
Import ListNotations.

(* Feasibility sketch for C01: the ascending scan with a conflict set (as fixed) computes the
   declarative precedence rule.  Names are strings; a loaded Spec file is (prio, path, names). *)
Record file := { fprio : nat; fpath : string; fdevs : list string }.

Definition defines (n : string) (f : file) : bool := existsb (String.eqb n) (fdevs f).

(* ---------- code-shaped model: cache.go refresh() ---------- *)
Definition dmap := list (string * file).
Fixpoint lookup (n : string) (m : dmap) : option file :=
  match m with [] => None | (k, v) :: r => if String.eqb n k then Some v else lookup n r end.
Definition set (n : string) (f : file) (m : dmap) : dmap := (n, f) :: m.
Definition mem (n : string) (s : list string) : bool := existsb (String.eqb n) s.
Definition del (n : string) (s : list string) : list string := filter (fun k => negb (String.eqb n k)) s.

Definition add_dev (f : file) (st : dmap * list string) (n : string) : dmap * list string :=
  let '(devs, conf) := st in
  match lookup n devs with
  | None => (set n f devs, conf)
  | Some old =>
      if fprio old <? fprio f then (set n f devs, del n conf)      (* override; the fix clears the mark *)
      else if fprio f =? fprio old then (devs, n :: conf)          (* same priority: conflict, keep old *)
      else (devs, conf)
  end.
Definition add_file (st : dmap * list string) (f : file) := fold_left (add_dev f) (fdevs f) st.
Definition scan_all (files : list file) := fold_left add_file files ([], []).
Definition resolved (files : list file) (n : string) : option file :=
  let '(devs, conf) := scan_all files in if mem n conf then None else lookup n devs.

(* ---------- declarative rule ---------- *)
Definition defs (n : string) (files : list file) := filter (defines n) files.
Definition top (l : list file) : nat := fold_right (fun f m => Nat.max (fprio f) m) 0 l.
Definition at_top (n : string) (files : list file) :=
  filter (fun f => fprio f =? top (defs n files)) (defs n files).
Definition resolve_spec (files : list file) (n : string) : option file :=
  match at_top n files with [f] => Some f | _ => None end.

(* ---------- per-name projection ---------- *)
Definition step1 (n : string) (st : option file * bool) (f : file) : option file * bool :=
  if defines n f then
    match fst st with
    | None => (Some f, snd st)
    | Some old => if fprio old <? fprio f then (Some f, false)
                  else if fprio f =? fprio old then (Some old, true) else st
    end
  else st.

Definition proj (n : string) (st : dmap * list string) : option file * bool := (lookup n (fst st), mem n (snd st)).

Lemma mem_del_same n s : mem n (del n s) = false.
Proof.
  unfold mem, del. induction s as [|k r IH]; cbn; [reflexivity|].
  destruct (String.eqb n k) eqn:E; cbn; [exact IH|]. rewrite E. exact IH.
Qed.
Lemma mem_del_other n k s : String.eqb n k = false -> mem n (del k s) = mem n s.
Proof.
  intro H. unfold mem, del. induction s as [|x r IH]; cbn; [reflexivity|].
  destruct (String.eqb k x) eqn:E; cbn.
  - apply String.eqb_eq in E; subst. rewrite H. exact IH.
  - rewrite IH. reflexivity.
Qed.

Lemma add_dev_other f st n k : String.eqb n k = false -> proj n (add_dev f st k) = proj n st.
Proof.
  intro H. destruct st as [devs conf]. unfold add_dev, proj.
  destruct (lookup k devs) as [old|]; cbn [fst snd].
  - destruct (fprio old <? fprio f); cbn [fst snd lookup set].
    + rewrite H. rewrite mem_del_other by exact H. reflexivity.
    + destruct (fprio f =? fprio old); cbn [fst snd mem existsb]; [rewrite H|]; reflexivity.
  - cbn [lookup set]. rewrite H. reflexivity.
Qed.

Lemma add_dev_same f st n :
  proj n (add_dev f st n) =
  match fst (proj n st) with
  | None => (Some f, snd (proj n st))
  | Some old => if fprio old <? fprio f then (Some f, false)
                else if fprio f =? fprio old then (Some old, true) else proj n st
  end.
Proof.
  destruct st as [devs conf]. unfold add_dev, proj. cbn [fst snd].
  destruct (lookup n devs) as [old|] eqn:L.
  - destruct (fprio old <? fprio f); cbn [fst snd lookup set].
    + rewrite String.eqb_refl, mem_del_same. reflexivity.
    + destruct (fprio f =? fprio old); cbn [fst snd].
      * rewrite L. cbn. rewrite String.eqb_refl. reflexivity.
      * rewrite L. reflexivity.
  - cbn [lookup set fst snd]. rewrite String.eqb_refl. reflexivity.
Qed.

Lemma fold_add_dev_absent f n l st :
  existsb (String.eqb n) l = false -> proj n (fold_left (add_dev f) l st) = proj n st.
Proof.
  revert st; induction l as [|k r IH]; cbn; intros st H; [reflexivity|].
  apply orb_false_iff in H as [H1 H2]. rewrite IH by exact H2. apply add_dev_other; exact H1.
Qed.

Lemma add_file_proj f n st :
  NoDup (fdevs f) -> proj n (add_file st f) = step1 n (proj n st) f.
Proof.
  unfold add_file, step1, defines. generalize (fdevs f) as l. intros l ND. revert st.
  induction ND as [|k r Hk ND IH]; intro st; cbn [fold_left existsb]; [reflexivity|].
  destruct (String.eqb n k) eqn:E.
  - apply String.eqb_eq in E; subst k. cbn [orb].
    rewrite fold_add_dev_absent.
    2:{ destruct (existsb (String.eqb n) r) eqn:X; [|reflexivity].
        apply existsb_exists in X as (x & Hx & Ex). apply String.eqb_eq in Ex; subst. contradiction. }
    rewrite add_dev_same. destruct (fst (proj n st)); reflexivity.
  - cbn [orb]. rewrite IH. rewrite add_dev_other by exact E. reflexivity.
Qed.

Lemma scan_proj n files st :
  Forall (fun f => NoDup (fdevs f)) files ->
  proj n (fold_left add_file files st) = fold_left (step1 n) files (proj n st).
Proof.
  intro H. revert st. induction H as [|f r Hf _ IH]; intro st; cbn; [reflexivity|].
  rewrite IH, add_file_proj by exact Hf. reflexivity.
Qed.

(* ---------- the per-name machine computes the rule on a priority-sorted scan ---------- *)
Definition sorted (files : list file) := forall pre f post, files = pre ++ f :: post -> Forall (fun g => fprio g <= fprio f) pre.

Lemma top_app a b : top (a ++ b) = Nat.max (top a) (top b).
Proof. unfold top. induction a; cbn; [reflexivity|]. rewrite IHa. lia. Qed.

Lemma top_bound l k : Forall (fun g => fprio g <= k) l -> top l <= k.
Proof. unfold top. induction 1; cbn; lia. Qed.

Lemma top_ge l f : In f l -> fprio f <= top l.
Proof. unfold top. induction l; cbn; [tauto|]. intros [->|H]; [lia|]. apply IHl in H. lia. Qed.

Lemma Forall_filter {A} (P : A -> Prop) p l : Forall P l -> Forall P (filter p l).
Proof. induction 1; cbn; [constructor|]. destruct (p x); auto. Qed.

Definition inv (n : string) (pre : list file) (st : option file * bool) : Prop :=
  fst st = hd_error (at_top n pre) /\ snd st = (2 <=? length (at_top n pre)).

Lemma at_top_snoc_not n pre f : defines n f = false -> at_top n (pre ++ [f]) = at_top n pre.
Proof. intro H. unfold at_top, defs. rewrite filter_app. cbn. rewrite H, app_nil_r. reflexivity. Qed.

Lemma at_top_in n pre g : In g (at_top n pre) -> fprio g = top (defs n pre) /\ In g (defs n pre).
Proof. unfold at_top. intro H. apply filter_In in H as [H1 H2]. apply Nat.eqb_eq in H2. auto. Qed.

Lemma at_top_snoc_def n pre f :
  defines n f = true -> Forall (fun g => fprio g <= fprio f) pre ->
  at_top n (pre ++ [f]) =
    if top (defs n pre) <? fprio f then [f]
    else at_top n pre ++ [f].
Proof.
  intros Hd Hs. unfold at_top, defs. rewrite filter_app. cbn [filter]. rewrite Hd.
  set (D := filter (defines n) pre).
  assert (HD : Forall (fun g => fprio g <= fprio f) D) by (apply Forall_filter; exact Hs).
  pose proof (top_bound _ _ HD) as Hb.
  rewrite top_app. cbn [top fold_right]. rewrite filter_app. cbn [filter].
  replace (Nat.max (top D) (Nat.max (fprio f) 0)) with (fprio f) by lia.
  rewrite Nat.eqb_refl.
  destruct (top D <? fprio f) eqn:E.
  - apply Nat.ltb_lt in E. replace (filter (fun g => fprio g =? fprio f) D) with (@nil file); [reflexivity|].
    symmetry. clear - E. unfold top in E. induction D as [|g r IH]; cbn in *; [reflexivity|].
    replace (fprio g =? fprio f) with false by (symmetry; apply Nat.eqb_neq; lia).
    apply IH. lia.
  - apply Nat.ltb_ge in E. assert (top D = fprio f) by lia. rewrite H. reflexivity.
Qed.

Lemma top_attained l : l <> [] -> exists g, In g l /\ fprio g = top l.
Proof.
  unfold top. induction l as [|a r IH]; [congruence|]. intros _. cbn.
  destruct r as [|b r'].
  - exists a. cbn. split; [auto|lia].
  - destruct IH as (g & Hg & E); [discriminate|].
    destruct (Nat.le_ge_cases (fprio a) (fold_right (fun f m => Nat.max (fprio f) m) 0 (b :: r'))).
    + exists g. split; [right; exact Hg|]. rewrite E. lia.
    + exists a. split; [left; reflexivity|]. lia.
Qed.

Lemma at_top_nil n pre : at_top n pre = [] -> defs n pre = [].
Proof.
  intro H. destruct (defs n pre) as [|d ds] eqn:D; [reflexivity|]. exfalso.
  destruct (top_attained (d :: ds)) as (g & Hg & E); [discriminate|].
  assert (In g (at_top n pre)).
  { unfold at_top. rewrite D. apply filter_In. split; [exact Hg|]. apply Nat.eqb_eq. exact E. }
  rewrite H in H0. contradiction.
Qed.

Lemma step1_inv n pre f st :
  Forall (fun g => fprio g <= fprio f) pre ->
  inv n pre st -> inv n (pre ++ [f]) (step1 n st f).
Proof.
  intros Hs [H1 H2]. unfold step1.
  destruct (defines n f) eqn:Hd.
  2:{ unfold inv. rewrite at_top_snoc_not by exact Hd. auto. }
  unfold inv. rewrite (at_top_snoc_def n pre f Hd Hs).
  destruct (at_top n pre) as [|g r] eqn:A.
  - rewrite H1. cbn [hd_error]. rewrite (at_top_nil _ _ A). cbn [top fold_right app].
    rewrite H2. destruct (0 <? fprio f); cbn; auto.
  - rewrite H1. cbn [hd_error].
    destruct (at_top_in n pre g) as [G Gin]; [rewrite A; left; reflexivity|].
    assert (Gle : fprio g <= fprio f).
    { unfold defs in Gin. apply filter_In in Gin as [Gin _]. exact (proj1 (Forall_forall _ _) Hs g Gin). }
    rewrite <- G.
    destruct (fprio g <? fprio f) eqn:E; cbn [fst snd hd_error length app].
    + split; reflexivity.
    + apply Nat.ltb_ge in E.
      replace (fprio f =? fprio g) with true by (symmetry; apply Nat.eqb_eq; lia).
      cbn. split; [reflexivity|]. rewrite app_length. cbn. destruct (length r); reflexivity.
Qed.

Lemma sorted_snoc pre f : sorted (pre ++ [f]) -> sorted pre /\ Forall (fun g => fprio g <= fprio f) pre.
Proof.
  intro H. split.
  - intros a x b E. apply (H a x (b ++ [f])). rewrite E, <- app_assoc. reflexivity.
  - apply (H pre f []). reflexivity.
Qed.

Lemma machine_inv n files : sorted files -> inv n files (fold_left (step1 n) files (None, false)).
Proof.
  induction files as [|f pre IH] using rev_ind; intro S.
  - split; reflexivity.
  - apply sorted_snoc in S as [S1 S2]. rewrite fold_left_app. cbn [fold_left].
    apply step1_inv; auto.
Qed.

Theorem refresh_resolves files n :
  sorted files -> Forall (fun f => NoDup (fdevs f)) files ->
  resolved files n = resolve_spec files n.
Proof.
  intros S ND. unfold resolved, scan_all.
  pose proof (scan_proj n files ([], []) ND) as P.
  destruct (fold_left add_file files ([], [])) as [devs conf] eqn:F.
  change (proj n ([], [])) with (@None file, false) in P.
  destruct (machine_inv n files S) as [I1 I2]. rewrite <- P in I1, I2. unfold proj in I1, I2. cbn [fst snd] in I1, I2.
  unfold resolve_spec. rewrite I1, I2.
  destruct (at_top n files) as [|a [|b r]]; reflexivity.
Qed.

(* the pinned code (mark not cleared on override) is refuted *)
Definition add_dev_pinned (f : file) (st : dmap * list string) (n : string) : dmap * list string :=
  let '(devs, conf) := st in
  match lookup n devs with
  | None => (set n f devs, conf)
  | Some old =>
      if fprio old <? fprio f then (set n f devs, conf)
      else if fprio f =? fprio old then (devs, n :: conf)
      else (devs, conf)
  end.
Definition resolved_pinned (files : list file) (n : string) : option file :=
  let '(devs, conf) := fold_left (fun st f => fold_left (add_dev_pinned f) (fdevs f) st) files ([], []) in
  if mem n conf then None else lookup n devs.

Open Scope string_scope.
Definition w := [ {| fprio := 0; fpath := "d0/a.yaml"; fdevs := ["v/c=d"] |};
                  {| fprio := 0; fpath := "d0/b.yaml"; fdevs := ["v/c=d"] |};
                  {| fprio := 1; fpath := "d1/c.yaml"; fdevs := ["v/c=d"] |} ].
Theorem refresh_resolves_pinned_refuted :
  exists files n, resolved_pinned files n <> resolve_spec files n.
Proof. exists w, "v/c=d". vm_compute. discriminate. Qed.

Print Assumptions refresh_resolves.
