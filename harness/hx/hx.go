// Package hx holds what all property harnesses share: deterministic randomness, the Go value ->
// Gallina term printer, panic guards, and the emission of case shards plus meta data.
package hx

import (
	"encoding/json"
	"fmt"
	"math/rand"
	"os"
	"path/filepath"
	"sort"
	"strings"
)

// ---------- Gallina printers ----------

// S prints a Go (byte) string as a Coq string literal. Coq 8.16 accepts arbitrary bytes inside a
// literal; only the double quote is doubled.
func S(s string) string {
	return "\"" + strings.ReplaceAll(s, "\"", "\"\"") + "\""
}

// Z prints an integer as a Z literal.
func Z(n int64) string {
	if n < 0 {
		return fmt.Sprintf("(%d)%%Z", n)
	}
	return fmt.Sprintf("%d%%Z", n)
}

// ZU prints an unsigned integer as a Z literal.
func ZU(n uint64) string { return fmt.Sprintf("%d%%Z", n) }

// Nat prints a small natural number.
func Nat(n int) string { return fmt.Sprintf("%d", n) }

// B prints a boolean.
func B(b bool) string {
	if b {
		return "true"
	}
	return "false"
}

// L prints a list of already printed terms.
func L(items []string) string {
	if len(items) == 0 {
		return "[]"
	}
	return "[" + strings.Join(items, "; ") + "]"
}

// LS prints a list of strings.
func LS(ss []string) string {
	items := make([]string, len(ss))
	for i, s := range ss {
		items[i] = S(s)
	}
	return L(items)
}

// Some / None
func Some(t string) string { return "(Some " + t + ")" }

const None = "None"

// Opt prints an optional term.
func Opt(t string, present bool) string {
	if present {
		return Some(t)
	}
	return None
}

// P prints a pair / tuple.
func P(items ...string) string { return "(" + strings.Join(items, ", ") + ")" }

// C prints a constructor application.
func C(name string, args ...string) string {
	if len(args) == 0 {
		return name
	}
	return "(" + name + " " + strings.Join(args, " ") + ")"
}

// ---------- randomness ----------

// R is the single PRNG every random choice of a run derives from.
type R struct{ *rand.Rand }

func NewR(seed int64) *R { return &R{rand.New(rand.NewSource(seed))} }

// Pick returns a random element.
func Pick[T any](r *R, xs []T) T { return xs[r.Intn(len(xs))] }

// Chance returns true with probability p.
func (r *R) Chance(p float64) bool { return r.Float64() < p }

// ---------- panic guard ----------

// Guard runs f and reports whether it panicked.
func Guard(f func()) (panicked bool, msg string) {
	defer func() {
		if x := recover(); x != nil {
			panicked = true
			msg = fmt.Sprint(x)
		}
	}()
	f()
	return false, ""
}

// ---------- cases ----------

// Case is one generated case: the Gallina term handed to the judge, a JSON-able description
// for evidence and replays, a key for distinctness and whether it is non-trivial by the
// property's stated rule.
type Case struct {
	Term       string      `json:"-"`
	Desc       interface{} `json:"desc"`
	Key        string      `json:"-"`
	Nontrivial bool        `json:"nontrivial"`
	Class      string      `json:"class"`           // generator stream / kind, for the distribution
	Known      string      `json:"known,omitempty"` // id of the known-finding class the input lies in, if any
	Index      int         `json:"i"`
	Cost       float64     `json:"-"` // share of a shard this case takes, relative to an ordinary case (0 means 1): cheap cases fill larger shards
}

// Suite collects the cases of one run.
type Suite struct {
	Property string
	Imports  []string // CDI modules to import
	CaseType string
	Judge    string // Gallina function: list CaseType -> list nat * list nat
	Rule     string
	Cases    []Case
	Extra    map[string]interface{}
	Shard    int
	Preamble string // optional Gallina vernacular emitted in every shard before the case list (e.g. Definitions the cases refer to)
}

type shardMeta struct {
	File  string `json:"file"`
	First int    `json:"first"`
	N     int    `json:"n"`
}

// Add appends a case.
func (s *Suite) Add(c Case) {
	c.Index = len(s.Cases)
	s.Cases = append(s.Cases, c)
}

// Write emits the shards and meta.json into dir. If only >= 0 just that case is emitted.
func (s *Suite) Write(dir string, seed int64, tier string, only int) error {
	if err := os.MkdirAll(dir, 0o755); err != nil {
		return err
	}
	shard := s.Shard
	if shard <= 0 {
		shard = 150
	}
	cases := s.Cases
	if only >= 0 {
		if only >= len(cases) {
			return fmt.Errorf("case %d out of range (%d cases)", only, len(cases))
		}
		cases = cases[only : only+1]
	}
	var shards []shardMeta
	for first, end := 0, 0; first < len(cases); first = end {
		// a shard holds cases up to a total cost of `shard` (every case costs 1 unless it says otherwise)
		acc := 0.0
		for end = first; end < len(cases); end++ {
			c := cases[end].Cost
			if c <= 0 {
				c = 1
				if len(cases[end].Term) > 100000 {
					c = float64(shard) // a very large case is judged in a shard of its own, in parallel with the others
				}
			}
			if end > first && acc+c > float64(shard)+1e-9 {
				break
			}
			acc += c
		}
		name := fmt.Sprintf("cases_%04d.v", len(shards))
		var b strings.Builder
		b.WriteString("From Coq Require Import String Ascii List ZArith Bool.\n")
		b.WriteString("From CDI Require Import " + strings.Join(s.Imports, " ") + ".\n")
		b.WriteString("Import ListNotations.\nOpen Scope string_scope.\n")
		b.WriteString("Set Printing Width 1000000.\nSet Printing Depth 1000000.\n")
		if s.Preamble != "" {
			b.WriteString(s.Preamble + "\n")
		}
		b.WriteString("Definition cases : list " + s.CaseType + " := [\n")
		for i, c := range cases[first:end] {
			if i > 0 {
				b.WriteString(";\n")
			}
			b.WriteString(c.Term)
		}
		b.WriteString("\n].\n")
		b.WriteString("Definition verdict := Eval vm_compute in " + s.Judge + " cases.\nPrint verdict.\n")
		if err := os.WriteFile(filepath.Join(dir, name), []byte(b.String()), 0o644); err != nil {
			return err
		}
		shards = append(shards, shardMeta{File: name, First: cases[first].Index, N: end - first})
	}
	// statistics
	dist := map[string]int{}
	distinct := map[string]bool{}
	nontrivial := map[string]bool{}
	known := map[string]int{}
	for _, c := range cases {
		dist[c.Class]++
		k := c.Key
		if k == "" {
			k = c.Term
		}
		distinct[k] = true
		if c.Nontrivial {
			nontrivial[k] = true
		}
		if c.Known != "" {
			known[c.Known]++
		}
	}
	var samples []interface{}
	seen := map[string]int{}
	for _, c := range cases {
		if seen[c.Class] < 2 && len(samples) < 12 {
			samples = append(samples, map[string]interface{}{"class": c.Class, "case": c.Desc})
			seen[c.Class]++
		}
	}
	classes := make([]string, 0, len(dist))
	for k := range dist {
		classes = append(classes, k)
	}
	sort.Strings(classes)
	meta := map[string]interface{}{
		"property":            s.Property,
		"seed":                seed,
		"tier":                tier,
		"shards":              shards,
		"evaluations":         len(cases),
		"distinct":            len(distinct),
		"distinct_nontrivial": len(nontrivial),
		"rule":                s.Rule,
		"distribution":        dist,
		"known_inputs":        known,
		"samples":             samples,
		"cases":               cases,
	}
	for k, v := range s.Extra {
		meta[k] = v
	}
	data, err := json.Marshal(meta)
	if err != nil {
		return err
	}
	return os.WriteFile(filepath.Join(dir, "meta.json"), data, 0o644)
}

// JS renders a string for JSON descriptions so that arbitrary bytes survive: valid UTF-8
// printable strings are kept, anything else is shown with Go quoting.
func JS(s string) string {
	return fmt.Sprintf("%q", s)
}
