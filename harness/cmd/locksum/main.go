// locksum: lock/access summaries of pkg/cdi for property C12 -> coq/gen/LockGen.v (printed on stdout).
//
//	locksum <repo>
//
// The package is type-checked (go/types, export data located with `go list -export`, all offline) and every
// exported function and method, every goroutine body started by them and the option closures are
// abstractly executed: callees in the package are inlined, `defer` is placed at the exits, conditionals
// fork, loop bodies are taken 0/1 times (0/1/2 times when they contain lock operations).  The result is,
// per entry point, the finite set of paths over the actions
//
//	Lock m | Unlock m | RLock m | RUnlock m | Rd x | Wr x | Block
//
// where x ranges over the fields of the tracked structs (Cache, watch; a map/slice field is two variables:
// the slot and its contents) and the guarded package variables.  Anything the translator does not
// understand is a fatal error (exit 3): it never drops an access silently.
//
// Stdlib only; no module dependencies.
package main

import (
	"bytes"
	"encoding/json"
	"fmt"
	"go/ast"
	"go/importer"
	"go/parser"
	"go/token"
	"go/types"
	"io"
	"os"
	"os/exec"
	"path/filepath"
	"sort"
	"strings"
)

// ---------------------------------------------------------------------------------------------
// policy: what is tracked, which mutex guards what, the rank order of the mutexes

var trackedStructs = []string{"Cache", "watch"} // every expression of these types denotes THE abstract object

// rank order (outermost first).  A mutex found in the package that is not listed here is an error.
var mutexOrder = []string{"getDefaultOnce", "Cache.Mutex", "validatorLock", "verifLogLock"}

// guard of the fields of a tracked struct
var structGuard = map[string]string{"Cache": "Cache.Mutex", "watch": "Cache.Mutex"}

// guarded package-level variables
var globalGuard = map[string]string{"specValidator": "validatorLock"}

// package-level variables initialised under a sync.Once: written only inside once.Do(func), read only after
// a once.Do call in the same function (checked here; the write is emitted under the once's mutex).
var onceVars = map[string]string{"defaultCache": "getDefaultOnce"}

// the named function type of options: a call of a value of this type whose origin is unknown is a call of
// any option closure defined in the package
const optionType = "Option"

const maxPaths = 20000

// ---------------------------------------------------------------------------------------------
// actions and traces

type actKind byte

const (
	aLock actKind = iota
	aUnlock
	aRLock
	aRUnlock
	aRd
	aWr
	aBlock
	aAlloc   // pseudo: a tracked object is allocated (accesses are thread-local until published)
	aSpawn   // pseudo: a goroutine is started
	aPublish // pseudo: the allocating function returns
)

var kindName = map[actKind]string{aLock: "Lock", aUnlock: "Unlock", aRLock: "RLock", aRUnlock: "RUnlock", aRd: "Rd", aWr: "Wr",
	aBlock: "Block", aAlloc: "Alloc", aSpawn: "Spawn", aPublish: "Publish"}

type act struct {
	k  actKind
	id string
}

type trace []act

func (t trace) key() string {
	var b strings.Builder
	for _, a := range t {
		b.WriteByte(byte('a' + a.k))
		b.WriteString(a.id)
		b.WriteByte(';')
	}
	return b.String()
}

func cat(a, b trace) trace {
	if len(b) == 0 {
		return a
	}
	if len(a) == 0 {
		return b
	}
	r := make(trace, 0, len(a)+len(b))
	r = append(r, a...)
	return append(r, b...)
}

type tset []trace

var unit = tset{nil}

// canon removes accesses that repeat an access already made in the same stretch without lock operations:
// a read is dropped when the same read occurred since the last write or lock operation, a write when the
// same write occurred since the last lock operation.  The verdict of every check run on the paths (held
// mutex at each access, single section of reads, slots written together) is unchanged by this.
func canon(t trace) trace {
	type k struct {
		k  actKind
		id string
	}
	var out trace
	changed := false
	seen := map[k]bool{}
	for _, a := range t {
		switch a.k {
		case aRd:
			if seen[k{a.k, a.id}] {
				changed = true
				continue
			}
			seen[k{a.k, a.id}] = true
		case aWr:
			if seen[k{a.k, a.id}] {
				changed = true
				continue
			}
			for x := range seen {
				if x.k == aRd {
					delete(seen, x)
				}
			}
			seen[k{a.k, a.id}] = true
		default:
			if len(seen) > 0 {
				seen = map[k]bool{}
			}
		}
		out = append(out, a)
	}
	if !changed {
		return t
	}
	return out
}

func dedup(ts tset) tset {
	seen := map[string]bool{}
	var out tset
	for _, t := range ts {
		t = canon(t)
		k := t.key()
		if !seen[k] {
			seen[k] = true
			out = append(out, t)
		}
	}
	return out
}

func seq(a, b tset) tset {
	if len(b) == 1 && len(b[0]) == 0 {
		return a
	}
	if len(a) == 1 && len(a[0]) == 0 {
		return b
	}
	var out tset
	for _, x := range a {
		for _, y := range b {
			out = append(out, cat(x, y))
		}
	}
	out = dedup(out)
	if len(out) > maxPaths {
		fatalf(token.NoPos, "path explosion (%d paths) in %s", len(out), strings.Join(*curStack, " > "))
	}
	return out
}

func alt(a, b tset) tset { return dedup(append(append(tset{}, a...), b...)) }

func one(k actKind, id string) tset { return tset{trace{{k, id}}} }

// hasLockOps: some trace operates on a mutex guarding the tracked structs (loops over such bodies are
// unrolled twice so that one critical section per iteration is visible in the paths)
func hasLockOps(ts tset) bool {
	for _, t := range ts {
		for _, a := range t {
			if a.k <= aRUnlock {
				for _, g := range structGuard {
					if g == a.id {
						return true
					}
				}
			}
		}
	}
	return false
}

// ---------------------------------------------------------------------------------------------
// abstract values

type aval interface{}

type vObj struct{ typ string }    // the abstract Cache / watch object
type vMutex struct{ id string }   // a mutex (or pointer to it)
type vOnce struct{ id string }    // a sync.Once
type vContents struct{ v string } // reference to the contents of the guarded map/slice field v
type vFunc struct {               // a function value: declared function / method value / closure
	decl *ast.FuncDecl
	lit  *ast.FuncLit
	env  *env
	name string
}
type vAnyOption struct{} // some option closure

func renderVal(v aval) string {
	switch v := v.(type) {
	case nil:
		return "_"
	case vObj:
		return "obj:" + v.typ
	case vMutex:
		return "mu:" + v.id
	case vOnce:
		return "once:" + v.id
	case vContents:
		return "contents:" + v.v
	case *vFunc:
		return "func:" + v.name
	case vAnyOption:
		return "anyoption"
	}
	return "?"
}

type env struct {
	vars   map[types.Object]aval
	parent *env
}

func newEnv(parent *env) *env { return &env{vars: map[types.Object]aval{}, parent: parent} }

func (e *env) lookup(o types.Object) (aval, bool) {
	for ; e != nil; e = e.parent {
		if v, ok := e.vars[o]; ok {
			return v, true
		}
	}
	return nil, false
}

// frame: one inlined call
type frame struct {
	name      string
	onceDone  map[string]bool
	ret       []aval
	retSet    []bool
	loopDepth int
	body      *ast.BlockStmt
}

type exitKind int

const (
	exNormal exitKind = iota
	exReturn
	exBreak
	exContinue
)

type outcome struct {
	tr     trace
	exit   exitKind
	defers []trace // registered deferred calls, in registration order
}

func (o outcome) key() string {
	var b strings.Builder
	b.WriteString(o.tr.key())
	fmt.Fprintf(&b, "|%d|", o.exit)
	for _, d := range o.defers {
		b.WriteString(d.key())
		b.WriteByte('#')
	}
	return b.String()
}

func dedupOut(os []outcome) []outcome {
	seen := map[string]bool{}
	var out []outcome
	for _, o := range os {
		o.tr = canon(o.tr)
		k := o.key()
		if !seen[k] {
			seen[k] = true
			out = append(out, o)
		}
	}
	if len(out) > maxPaths {
		fatalf(token.NoPos, "path explosion (%d outcomes) in %s", len(out), strings.Join(*curStack, " > "))
	}
	return out
}

// ---------------------------------------------------------------------------------------------

type translatorError struct{ msg string }

var curStack = &[]string{}
var debug = os.Getenv("LOCKSUM_DEBUG") != ""

var fset = token.NewFileSet()

func fatalf(pos token.Pos, format string, args ...interface{}) {
	where := ""
	if pos.IsValid() {
		p := fset.Position(pos)
		where = fmt.Sprintf("%s:%d: ", filepath.Base(p.Filename), p.Line)
	}
	panic(translatorError{where + fmt.Sprintf(format, args...)})
}

type goroutine struct {
	name string
	fv   *vFunc
	args []aval
	pos  token.Pos
}

type T struct {
	pkg         *types.Package
	info        *types.Info
	files       []*ast.File
	decls       map[*types.Func]*ast.FuncDecl
	stack       []string
	memo        map[string]memoEntry
	goroutines  []*goroutine
	goSeen      map[string]bool
	options     []*vFunc
	allocFuncs  map[*ast.BlockStmt]bool
	structField map[string][]fieldInfo // tracked struct -> fields
	mutated     map[types.Object]bool
	onceReads   []string
	notes       []string
	parts       []*entry
	unroll2     bool // unroll loops with lock operations twice (API entries: one critical section per iteration must be visible)
	partSeen    map[string]bool
}

type memoEntry struct {
	ts  tset
	ret []aval
}

type fieldInfo struct {
	name      string
	container bool // map or slice: has a contents variable
	mutex     bool
}

func main() {
	if len(os.Args) < 2 {
		fmt.Fprintln(os.Stderr, "usage: locksum <repo>")
		os.Exit(2)
	}
	var out bytes.Buffer
	err := func() (err error) {
		defer func() {
			if x := recover(); x != nil {
				if te, ok := x.(translatorError); ok {
					err = fmt.Errorf("%s", te.msg)
					return
				}
				panic(x)
			}
		}()
		t := load(os.Args[1])
		t.run(&out)
		return nil
	}()
	if err != nil {
		fmt.Fprintln(os.Stderr, "locksum: "+err.Error())
		os.Exit(3)
	}
	os.Stdout.Write(out.Bytes())
}

// ---------------------------------------------------------------------------------------------
// loading and type-checking

type listedPkg struct {
	Dir        string
	ImportPath string
	Export     string
	GoFiles    []string
	Standard   bool
}

func load(repo string) *T {
	cmd := exec.Command("go", "list", "-tags", "verif", "-export", "-deps", "-json=ImportPath,Export,GoFiles,Dir,Standard", "./pkg/cdi")
	cmd.Dir = repo
	cmd.Env = append(os.Environ(), "GOFLAGS=-mod=mod", "GOPROXY=off", "GOSUMDB=off", "GOTOOLCHAIN=local")
	var stderr bytes.Buffer
	cmd.Stderr = &stderr
	data, err := cmd.Output()
	if err != nil {
		fatalf(token.NoPos, "go list failed: %v\n%s", err, stderr.String())
	}
	exports := map[string]string{}
	var target *listedPkg
	dec := json.NewDecoder(bytes.NewReader(data))
	for {
		var p listedPkg
		if err := dec.Decode(&p); err == io.EOF {
			break
		} else if err != nil {
			fatalf(token.NoPos, "go list output: %v", err)
		}
		exports[p.ImportPath] = p.Export
		if strings.HasSuffix(p.ImportPath, "/pkg/cdi") {
			q := p
			target = &q
		}
	}
	if target == nil {
		fatalf(token.NoPos, "package pkg/cdi not listed")
	}
	t := &T{decls: map[*types.Func]*ast.FuncDecl{}, memo: map[string]memoEntry{}, goSeen: map[string]bool{},
		partSeen: map[string]bool{}, allocFuncs: map[*ast.BlockStmt]bool{}, structField: map[string][]fieldInfo{}, mutated: map[types.Object]bool{}}
	for _, f := range target.GoFiles {
		af, err := parser.ParseFile(fset, filepath.Join(target.Dir, f), nil, parser.SkipObjectResolution)
		if err != nil {
			fatalf(token.NoPos, "parse: %v", err)
		}
		t.files = append(t.files, af)
	}
	lookup := func(path string) (io.ReadCloser, error) {
		e := exports[path]
		if e == "" {
			return nil, fmt.Errorf("no export data for %q", path)
		}
		return os.Open(e)
	}
	conf := types.Config{Importer: importer.ForCompiler(fset, "gc", lookup)}
	t.info = &types.Info{Types: map[ast.Expr]types.TypeAndValue{}, Defs: map[*ast.Ident]types.Object{}, Uses: map[*ast.Ident]types.Object{},
		Selections: map[*ast.SelectorExpr]*types.Selection{}, Implicits: map[ast.Node]types.Object{}}
	pkg, err := conf.Check(target.ImportPath, fset, t.files, t.info)
	if err != nil {
		fatalf(token.NoPos, "type check: %v", err)
	}
	t.pkg = pkg
	return t
}

// ---------------------------------------------------------------------------------------------
// type helpers

func deref(ty types.Type) types.Type {
	for {
		p, ok := ty.Underlying().(*types.Pointer)
		if !ok {
			return ty
		}
		ty = p.Elem()
	}
}

func namedOf(ty types.Type) (pkgPath, name string, ok bool) {
	if ty == nil {
		return "", "", false
	}
	n, isNamed := deref(ty).(*types.Named)
	if !isNamed {
		return "", "", false
	}
	o := n.Obj()
	if o.Pkg() == nil {
		return "", o.Name(), true
	}
	return o.Pkg().Path(), o.Name(), true
}

func isSync(ty types.Type, names ...string) bool {
	p, n, ok := namedOf(ty)
	if !ok || p != "sync" {
		return false
	}
	for _, x := range names {
		if x == n {
			return true
		}
	}
	return false
}

func isMutexType(ty types.Type) bool { return isSync(ty, "Mutex", "RWMutex") }
func isOnceType(ty types.Type) bool  { return isSync(ty, "Once") }

func (t *T) trackedType(ty types.Type) (string, bool) {
	p, n, ok := namedOf(ty)
	if !ok || p != t.pkg.Path() {
		return "", false
	}
	for _, s := range trackedStructs {
		if s == n {
			return n, true
		}
	}
	return "", false
}

func isContainer(ty types.Type) bool {
	switch ty.Underlying().(type) {
	case *types.Map, *types.Slice:
		return true
	}
	return false
}

func isChan(ty types.Type) bool {
	if ty == nil {
		return false
	}
	_, ok := ty.Underlying().(*types.Chan)
	return ok
}

func isFuncType(ty types.Type) bool {
	if ty == nil {
		return false
	}
	_, ok := ty.Underlying().(*types.Signature)
	return ok
}

func (t *T) isOptionType(ty types.Type) bool {
	p, n, ok := namedOf(ty)
	return ok && p == t.pkg.Path() && n == optionType
}

// ---------------------------------------------------------------------------------------------
// preparation: declarations, fields, mutexes, mutated globals, option closures

func (t *T) prepare() {
	for _, f := range t.files {
		for _, d := range f.Decls {
			fd, ok := d.(*ast.FuncDecl)
			if !ok {
				continue
			}
			obj, _ := t.info.Defs[fd.Name].(*types.Func)
			if obj != nil {
				t.decls[obj] = fd
			}
			if fd.Body == nil {
				continue
			}
			nCache := 0
			ast.Inspect(fd, func(n ast.Node) bool {
				switch n := n.(type) {
				case *ast.CompositeLit:
					if s, ok := t.trackedType(t.info.TypeOf(n)); ok && s == trackedStructs[0] {
						t.allocFuncs[fd.Body] = true
					}
				case *ast.Ident:
					if v, ok := t.info.Defs[n].(*types.Var); ok && !v.IsField() {
						if s, ok := t.trackedType(v.Type()); ok && s == trackedStructs[0] {
							nCache++
						}
					}
				case *ast.AssignStmt:
					for _, l := range n.Lhs {
						t.markMutated(l)
					}
				case *ast.IncDecStmt:
					t.markMutated(n.X)
				case *ast.UnaryExpr:
					if n.Op == token.AND {
						if id, ok := n.X.(*ast.Ident); ok {
							if v, ok := t.info.Uses[id].(*types.Var); ok && v.Parent() == t.pkg.Scope() && !isMutexType(v.Type()) && !isOnceType(v.Type()) {
								t.mutated[v] = true // address taken: treat as mutable
							}
						}
					}
				}
				return true
			})
			if nCache > 1 {
				fatalf(fd.Pos(), "function %s has %d variables of type %s: the single-object abstraction does not apply", fd.Name.Name, nCache, trackedStructs[0])
			}
			// option closures
			if fd.Type.Results != nil && len(fd.Type.Results.List) == 1 && t.isOptionType(t.info.TypeOf(fd.Type.Results.List[0].Type)) {
				ast.Inspect(fd.Body, func(n ast.Node) bool {
					if r, ok := n.(*ast.ReturnStmt); ok && len(r.Results) == 1 {
						if lit, ok := r.Results[0].(*ast.FuncLit); ok {
							t.options = append(t.options, &vFunc{lit: lit, env: newEnv(nil), name: fd.Name.Name + ".closure"})
						}
					}
					return true
				})
			}
		}
	}
	// fields of the tracked structs
	for _, s := range trackedStructs {
		obj := t.pkg.Scope().Lookup(s)
		if obj == nil {
			fatalf(token.NoPos, "tracked struct %s not found", s)
		}
		st, ok := obj.Type().Underlying().(*types.Struct)
		if !ok {
			fatalf(obj.Pos(), "%s is not a struct", s)
		}
		for i := 0; i < st.NumFields(); i++ {
			f := st.Field(i)
			fi := fieldInfo{name: f.Name(), container: isContainer(f.Type()), mutex: isMutexType(f.Type())}
			if isOnceType(f.Type()) {
				fatalf(f.Pos(), "sync.Once field %s.%s is not supported", s, f.Name())
			}
			if fi.mutex {
				t.needMutex(s+"."+f.Name(), f.Pos())
			}
			t.structField[s] = append(t.structField[s], fi)
		}
	}
	// package-level variables: mutexes must be known, mutated ones must be covered by the policy
	for _, name := range t.pkg.Scope().Names() {
		v, ok := t.pkg.Scope().Lookup(name).(*types.Var)
		if !ok {
			continue
		}
		switch {
		case isMutexType(v.Type()) || isOnceType(v.Type()):
			t.needMutex(name, v.Pos())
		case t.mutated[v]:
			if _, ok := globalGuard[name]; ok {
				continue
			}
			if _, ok := onceVars[name]; ok {
				continue
			}
			fatalf(v.Pos(), "package variable %s is modified by the package but not covered by the lock policy", name)
		}
	}
}

func (t *T) needMutex(id string, pos token.Pos) {
	for _, m := range mutexOrder {
		if m == id {
			return
		}
	}
	fatalf(pos, "mutex %s has no rank in the lock policy", id)
}

func (t *T) markMutated(e ast.Expr) {
	switch e := e.(type) {
	case *ast.Ident:
		if v, ok := t.info.Uses[e].(*types.Var); ok && v.Parent() == t.pkg.Scope() {
			t.mutated[v] = true
		}
	case *ast.IndexExpr:
		t.markMutated(e.X)
	case *ast.ParenExpr:
		t.markMutated(e.X)
	case *ast.StarExpr:
		t.markMutated(e.X)
	case *ast.SelectorExpr:
		if _, isSel := t.info.Selections[e]; isSel {
			t.markMutated(e.X)
		}
	}
}

// ---------------------------------------------------------------------------------------------
// expressions

func (t *T) typeOf(e ast.Expr) types.Type { return t.info.TypeOf(e) }

// byType gives the abstract value every expression of a tracked struct type has.
func (t *T) byType(e ast.Expr, v aval) aval {
	if v != nil {
		return v
	}
	if ty := t.typeOf(e); ty != nil {
		if s, ok := t.trackedType(ty); ok {
			return vObj{s}
		}
	}
	return nil
}

func (t *T) evalExprs(es []ast.Expr, en *env, fr *frame) (tset, []aval) {
	ts := unit
	var vals []aval
	for _, e := range es {
		x, v := t.evalExpr(e, en, fr)
		ts = seq(ts, x)
		vals = append(vals, v)
	}
	return ts, vals
}

// field resolves X.f on a tracked struct: returns the variable name and the field info.
func (t *T) field(sel *ast.SelectorExpr) (string, *fieldInfo, bool) {
	s := t.info.Selections[sel]
	if s == nil || s.Kind() != types.FieldVal {
		return "", nil, false
	}
	st, ok := t.trackedType(s.Recv())
	if !ok {
		return "", nil, false
	}
	if len(s.Index()) != 1 {
		fatalf(sel.Pos(), "promoted field %s of %s is not supported", sel.Sel.Name, st)
	}
	for i := range t.structField[st] {
		if t.structField[st][i].name == sel.Sel.Name {
			return st + "." + sel.Sel.Name, &t.structField[st][i], true
		}
	}
	fatalf(sel.Pos(), "unknown field %s.%s", st, sel.Sel.Name)
	return "", nil, false
}

func (t *T) evalExpr(e ast.Expr, en *env, fr *frame) (tset, aval) {
	switch e := e.(type) {
	case nil:
		return unit, nil
	case *ast.BasicLit:
		return unit, nil
	case *ast.ParenExpr:
		return t.evalExpr(e.X, en, fr)
	case *ast.Ident:
		return t.evalIdent(e, en, fr)
	case *ast.FuncLit:
		return unit, &vFunc{lit: e, env: en, name: fmt.Sprintf("%s.func@%d", fr.name, fset.Position(e.Pos()).Line)}
	case *ast.SelectorExpr:
		if sel := t.info.Selections[e]; sel != nil {
			switch sel.Kind() {
			case types.FieldVal:
				ts, xv := t.evalExpr(e.X, en, fr)
				if v, fi, ok := t.field(e); ok {
					if fi.mutex {
						return ts, vMutex{v}
					}
					ts = seq(ts, one(aRd, v))
					if fi.container {
						return ts, vContents{v}
					}
					return ts, t.byType(e, nil)
				}
				_ = xv
				return ts, t.byType(e, nil)
			case types.MethodVal:
				ts, _ := t.evalExpr(e.X, en, fr)
				fn := sel.Obj().(*types.Func)
				if d := t.decls[fn]; d != nil {
					return ts, &vFunc{decl: d, env: nil, name: funcName(d)}
				}
				return ts, nil
			default:
				fatalf(e.Pos(), "method expression %s is not supported", e.Sel.Name)
			}
		}
		// qualified identifier pkg.Name
		if obj := t.info.Uses[e.Sel]; obj != nil {
			if v, ok := obj.(*types.Var); ok && (isMutexType(v.Type()) || isOnceType(v.Type())) {
				fatalf(e.Pos(), "mutex of another package %s", e.Sel.Name)
			}
		}
		return unit, nil
	case *ast.StarExpr:
		ts, v := t.evalExpr(e.X, en, fr)
		return ts, t.byType(e, v)
	case *ast.UnaryExpr:
		ts, v := t.evalExpr(e.X, en, fr)
		switch e.Op {
		case token.ARROW:
			return seq(ts, one(aBlock, "")), nil
		case token.AND:
			return ts, t.byType(e, v)
		}
		return ts, nil
	case *ast.BinaryExpr:
		l, _ := t.evalExpr(e.X, en, fr)
		r, _ := t.evalExpr(e.Y, en, fr)
		if e.Op == token.LAND || e.Op == token.LOR {
			return seq(l, alt(unit, r)), nil
		}
		return seq(l, r), nil
	case *ast.KeyValueExpr:
		k := unit
		isFieldName := false
		if id, ok := e.Key.(*ast.Ident); ok {
			if v, ok := t.info.Uses[id].(*types.Var); ok && v.IsField() {
				isFieldName = true
			}
		}
		if !isFieldName {
			k, _ = t.evalExpr(e.Key, en, fr)
		}
		v, _ := t.evalExpr(e.Value, en, fr)
		return seq(k, v), nil
	case *ast.CompositeLit:
		ts := unit
		if s, ok := t.trackedType(t.typeOf(e)); ok {
			ts = one(aAlloc, s)
		}
		for _, el := range e.Elts {
			x, v := t.evalExpr(el, en, fr)
			if _, isC := v.(vContents); isC {
				fatalf(el.Pos(), "guarded container stored in a composite literal")
			}
			ts = seq(ts, x)
		}
		return ts, t.byType(e, nil)
	case *ast.IndexExpr:
		ts, v := t.evalExpr(e.X, en, fr)
		i, _ := t.evalExpr(e.Index, en, fr)
		ts = seq(ts, i)
		if c, ok := v.(vContents); ok {
			ts = seq(ts, one(aRd, c.v+"[]"))
		}
		return ts, t.byType(e, nil)
	case *ast.SliceExpr:
		ts, v := t.evalExpr(e.X, en, fr)
		for _, x := range []ast.Expr{e.Low, e.High, e.Max} {
			y, _ := t.evalExpr(x, en, fr)
			ts = seq(ts, y)
		}
		if c, ok := v.(vContents); ok {
			ts = seq(ts, one(aRd, c.v+"[]"))
			return ts, c
		}
		return ts, nil
	case *ast.TypeAssertExpr:
		ts, _ := t.evalExpr(e.X, en, fr)
		return ts, t.byType(e, nil)
	case *ast.CallExpr:
		ts, vals := t.evalCall(e, en, fr)
		var v aval
		if len(vals) > 0 {
			v = vals[0]
		}
		return ts, t.byType(e, v)
	case *ast.ArrayType, *ast.MapType, *ast.ChanType, *ast.FuncType, *ast.InterfaceType, *ast.StructType, *ast.Ellipsis:
		return unit, nil
	}
	fatalf(e.Pos(), "unsupported expression %T", e)
	return nil, nil
}

func (t *T) evalIdent(id *ast.Ident, en *env, fr *frame) (tset, aval) {
	obj := t.info.Uses[id]
	if obj == nil {
		obj = t.info.Defs[id]
	}
	switch o := obj.(type) {
	case *types.Var:
		if o.Parent() == t.pkg.Scope() { // package-level variable
			name := o.Name()
			switch {
			case isMutexType(o.Type()):
				return unit, vMutex{name}
			case isOnceType(o.Type()):
				return unit, vOnce{name}
			}
			if _, ok := globalGuard[name]; ok {
				return one(aRd, name), nil
			}
			if once, ok := onceVars[name]; ok {
				if !fr.onceDone[once] {
					fatalf(id.Pos(), "read of %s is not preceded by %s.Do in function %s", name, once, fr.name)
				}
				t.onceReads = append(t.onceReads, fmt.Sprintf("%s read in %s after %s.Do", name, fr.name, once))
				return unit, t.byType(id, nil)
			}
			return unit, t.byType(id, nil)
		}
		if v, ok := en.lookup(o); ok {
			return unit, v
		}
		return unit, t.byType(id, nil)
	case *types.Func:
		if d := t.decls[o]; d != nil {
			return unit, &vFunc{decl: d, name: funcName(d)}
		}
	}
	return unit, nil
}

func funcName(d *ast.FuncDecl) string {
	if d.Recv != nil && len(d.Recv.List) == 1 {
		ty := d.Recv.List[0].Type
		if s, ok := ty.(*ast.StarExpr); ok {
			ty = s.X
		}
		if id, ok := ty.(*ast.Ident); ok {
			return id.Name + "." + d.Name.Name
		}
	}
	return d.Name.Name
}

// evalLHS evaluates an assignment target: the traces of its operands, then the write.  bind is set when
// the target is a local variable (the caller rebinds it in the environment).
func (t *T) evalLHS(e ast.Expr, en *env, fr *frame) (ts tset, local types.Object) {
	switch e := e.(type) {
	case *ast.ParenExpr:
		return t.evalLHS(e.X, en, fr)
	case *ast.Ident:
		if e.Name == "_" {
			return unit, nil
		}
		obj := t.info.Defs[e]
		if obj == nil {
			obj = t.info.Uses[e]
		}
		v, ok := obj.(*types.Var)
		if !ok {
			return unit, nil
		}
		if v.Parent() == t.pkg.Scope() {
			name := v.Name()
			if isMutexType(v.Type()) || isOnceType(v.Type()) {
				fatalf(e.Pos(), "assignment to mutex %s", name)
			}
			if _, ok := globalGuard[name]; ok {
				return one(aWr, name), nil
			}
			if once, ok := onceVars[name]; ok {
				if !strings.Contains(fr.name, "@once:"+once) {
					fatalf(e.Pos(), "%s is written outside %s.Do", name, once)
				}
				return one(aWr, name), nil
			}
			fatalf(e.Pos(), "write of package variable %s which is not covered by the lock policy", name)
		}
		return unit, v
	case *ast.SelectorExpr:
		if v, fi, ok := t.field(e); ok {
			if fi.mutex {
				fatalf(e.Pos(), "assignment to mutex %s", v)
			}
			ts, _ := t.evalExpr(e.X, en, fr)
			return seq(ts, one(aWr, v)), nil
		}
		ts, _ := t.evalExpr(e.X, en, fr)
		return ts, nil
	case *ast.IndexExpr:
		ts, v := t.evalExpr(e.X, en, fr)
		i, _ := t.evalExpr(e.Index, en, fr)
		ts = seq(ts, i)
		if c, ok := v.(vContents); ok {
			ts = seq(ts, one(aWr, c.v+"[]"))
		}
		return ts, nil
	case *ast.StarExpr:
		ts, v := t.evalExpr(e.X, en, fr)
		if v != nil {
			fatalf(e.Pos(), "assignment through a pointer to a tracked value")
		}
		return ts, nil
	}
	fatalf(e.Pos(), "unsupported assignment target %T", e)
	return nil, nil
}

// ---------------------------------------------------------------------------------------------
// calls

func (t *T) evalCall(call *ast.CallExpr, en *env, fr *frame) (tset, []aval) {
	// conversion
	if tv, ok := t.info.Types[call.Fun]; ok && tv.IsType() {
		ts, vals := t.evalExprs(call.Args, en, fr)
		if len(vals) == 1 {
			return ts, vals[:1]
		}
		return ts, nil
	}
	fun := call.Fun
	for {
		p, ok := fun.(*ast.ParenExpr)
		if !ok {
			break
		}
		fun = p.X
	}
	// builtins
	if id, ok := fun.(*ast.Ident); ok {
		if b, ok := t.info.Uses[id].(*types.Builtin); ok {
			return t.evalBuiltin(b.Name(), call, en, fr)
		}
	}
	// method calls
	if sel, ok := fun.(*ast.SelectorExpr); ok {
		if s := t.info.Selections[sel]; s != nil && s.Kind() == types.MethodVal {
			return t.evalMethodCall(call, sel, s, en, fr)
		}
	}
	// everything else: evaluate the function expression to an abstract value
	fts, fv := t.evalExpr(fun, en, fr)
	ats, args := t.evalExprs(call.Args, en, fr)
	ts := seq(fts, ats)
	switch f := fv.(type) {
	case *vFunc:
		b, ret := t.inline(f, args, call.Pos())
		return seq(ts, b), ret
	case vAnyOption:
		return seq(ts, t.anyOption(args, call.Pos())), nil
	}
	// unknown function value
	if t.isOptionType(t.typeOf(fun)) {
		return seq(ts, t.anyOption(args, call.Pos())), nil
	}
	if obj := calleeObj(t, fun); obj != nil && obj.Pkg() != t.pkg {
		return seq(ts, t.external(obj.FullName(), call, args)), t.resultVals(call)
	}
	if _, isIdent := fun.(*ast.Ident); isIdent {
		if fn, ok := t.info.Uses[fun.(*ast.Ident)].(*types.Func); ok && fn.Pkg() == t.pkg {
			fatalf(call.Pos(), "function %s has no body", fn.Name())
		}
	}
	// a func-typed value of unknown origin (field, interface result, parameter of an entry point)
	for _, a := range args {
		if a != nil {
			fatalf(call.Pos(), "call of an unknown function value with a tracked argument (%s)", renderVal(a))
		}
	}
	return ts, t.resultVals(call)
}

func calleeObj(t *T, fun ast.Expr) *types.Func {
	switch f := fun.(type) {
	case *ast.Ident:
		fn, _ := t.info.Uses[f].(*types.Func)
		return fn
	case *ast.SelectorExpr:
		fn, _ := t.info.Uses[f.Sel].(*types.Func)
		return fn
	}
	return nil
}

// resultVals: results of an opaque call carry no tracked value except by type; an Option result is "some option".
func (t *T) resultVals(call *ast.CallExpr) []aval {
	if t.isOptionType(t.typeOf(call)) {
		return []aval{vAnyOption{}}
	}
	return nil
}

func (t *T) anyOption(args []aval, pos token.Pos) tset {
	if len(t.options) == 0 {
		fatalf(pos, "call of an option but the package defines no option closure")
	}
	var ts tset
	for _, o := range t.options {
		b, _ := t.inline(o, args, pos)
		ts = alt(ts, b)
	}
	return ts
}

// external: a call into another package (or through an interface).  Tracked objects and mutexes must not be
// handed out; guarded containers are assumed to be modified; function arguments are assumed to be called
// synchronously, any number of times, by the callee (filepath.Walk, sort.Slice, ...).
func (t *T) external(name string, call *ast.CallExpr, args []aval) tset {
	ts := unit
	for i, a := range args {
		switch v := a.(type) {
		case vObj:
			fatalf(call.Pos(), "tracked object %s passed to external function %s", v.typ, name)
		case vMutex, vOnce:
			fatalf(call.Pos(), "mutex passed to external function %s", name)
		case vContents:
			ts = seq(ts, one(aWr, v.v+"[]"))
		case *vFunc:
			b, _ := t.inline(v, nil, call.Args[i].Pos())
			ts = seq(ts, t.loopify(b, call.Args[i].Pos()))
		case vAnyOption:
			fatalf(call.Pos(), "option passed to external function %s", name)
		}
	}
	return ts
}

// loopify: a body executed any number of times.  The body must be lock-neutral; then 0 and 1 executions
// (and 2 when it contains lock operations, so that per-iteration critical sections are visible) represent all.
func (t *T) loopify(body tset, pos token.Pos) tset {
	for _, b := range body {
		checkNeutral(b, pos)
	}
	out := alt(unit, body)
	if t.unroll2 && hasLockOps(body) {
		out = alt(out, seq(body, body))
	}
	return out
}

func checkNeutral(b trace, pos token.Pos) {
	var held []string
	for _, a := range b {
		switch a.k {
		case aLock, aRLock:
			held = append(held, a.id)
		case aUnlock, aRUnlock:
			found := -1
			for i := len(held) - 1; i >= 0; i-- {
				if held[i] == a.id {
					found = i
					break
				}
			}
			if found < 0 {
				fatalf(pos, "loop body releases %s which it did not acquire", a.id)
			}
			held = append(held[:found], held[found+1:]...)
		}
	}
	if len(held) > 0 {
		fatalf(pos, "loop body ends holding %v", held)
	}
}

func (t *T) evalBuiltin(name string, call *ast.CallExpr, en *env, fr *frame) (tset, []aval) {
	ts, args := t.evalExprs(call.Args, en, fr)
	contents := func(i int) (string, bool) {
		if i < len(args) {
			if c, ok := args[i].(vContents); ok {
				return c.v + "[]", true
			}
		}
		return "", false
	}
	switch name {
	case "len", "cap":
		if v, ok := contents(0); ok {
			ts = seq(ts, one(aRd, v))
		}
		return ts, nil
	case "append":
		for i := range args {
			if v, ok := contents(i); ok {
				ts = seq(ts, one(aRd, v))
			}
		}
		if len(args) > 0 {
			if c, ok := args[0].(vContents); ok {
				return ts, []aval{c}
			}
		}
		return ts, nil
	case "copy":
		if v, ok := contents(1); ok {
			ts = seq(ts, one(aRd, v))
		}
		if v, ok := contents(0); ok {
			ts = seq(ts, one(aWr, v))
		}
		return ts, nil
	case "delete", "clear":
		if v, ok := contents(0); ok {
			ts = seq(ts, one(aWr, v))
		}
		return ts, nil
	case "make", "new", "panic", "print", "println", "min", "max", "complex", "real", "imag", "close", "recover":
		return ts, nil
	}
	fatalf(call.Pos(), "unsupported builtin %s", name)
	return nil, nil
}

func (t *T) evalMethodCall(call *ast.CallExpr, sel *ast.SelectorExpr, s *types.Selection, en *env, fr *frame) (tset, []aval) {
	fn := s.Obj().(*types.Func)
	rts, rv := t.evalExpr(sel.X, en, fr)
	pkgPath := ""
	if fn.Pkg() != nil {
		pkgPath = fn.Pkg().Path()
	}
	recvNamed := ""
	if sig, ok := fn.Type().(*types.Signature); ok && sig.Recv() != nil {
		_, recvNamed, _ = namedOf(sig.Recv().Type())
	}
	if pkgPath == "sync" {
		switch recvNamed {
		case "Mutex", "RWMutex":
			id := ""
			if m, ok := rv.(vMutex); ok {
				id = m.id
			} else if st, ok := t.trackedType(s.Recv()); ok && len(s.Index()) == 2 {
				// promoted through an embedded mutex field
				stt := t.pkg.Scope().Lookup(st).Type().Underlying().(*types.Struct)
				id = st + "." + stt.Field(s.Index()[0]).Name()
			}
			if id == "" {
				fatalf(call.Pos(), "cannot identify the mutex of this %s call", fn.Name())
			}
			t.needMutex(id, call.Pos())
			ats, _ := t.evalExprs(call.Args, en, fr)
			ts := seq(rts, ats)
			switch fn.Name() {
			case "Lock":
				return seq(ts, one(aLock, id)), nil
			case "Unlock":
				return seq(ts, one(aUnlock, id)), nil
			case "RLock":
				return seq(ts, one(aRLock, id)), nil
			case "RUnlock":
				return seq(ts, one(aRUnlock, id)), nil
			}
			fatalf(call.Pos(), "unsupported mutex operation %s", fn.Name())
		case "Once":
			o, ok := rv.(vOnce)
			if !ok {
				fatalf(call.Pos(), "cannot identify the sync.Once of this call")
			}
			t.needMutex(o.id, call.Pos())
			if fn.Name() != "Do" || len(call.Args) != 1 {
				fatalf(call.Pos(), "unsupported sync.Once operation %s", fn.Name())
			}
			ats, args := t.evalExprs(call.Args, en, fr)
			f, ok := args[0].(*vFunc)
			if !ok {
				fatalf(call.Pos(), "argument of %s.Do is not a known function", o.id)
			}
			g := *f
			g.name = f.name + "@once:" + o.id
			body, _ := t.inline(&g, nil, call.Pos())
			fr.onceDone[o.id] = fr.onceDone[o.id] || fr.loopDepth == 0
			// once.Do(f) may wait for another goroutine's f: for the caller it is a blocking operation; the
			// critical section of the once (its mutex held around 0/1 executions of f) is a part of its own
			pname := "once:" + o.id + ":" + f.name
			if !t.partSeen[pname] {
				t.partSeen[pname] = true
				t.parts = append(t.parts, &entry{kind: "part", name: pname,
					paths: seq(one(aLock, o.id), seq(alt(unit, body), one(aUnlock, o.id)))})
			}
			return seq(seq(rts, ats), one(aBlock, "")), nil
		case "WaitGroup", "Cond":
			ats, _ := t.evalExprs(call.Args, en, fr)
			if fn.Name() == "Wait" {
				return seq(seq(rts, ats), one(aBlock, "")), nil
			}
			return seq(rts, ats), nil
		}
		fatalf(call.Pos(), "unsupported use of sync.%s.%s", recvNamed, fn.Name())
	}
	ats, args := t.evalExprs(call.Args, en, fr)
	ts := seq(rts, ats)
	if d := t.decls[fn]; d != nil && d.Body != nil {
		b, ret := t.inline(&vFunc{decl: d, name: funcName(d)}, args, call.Pos())
		return seq(ts, b), ret
	}
	if fn.Pkg() == t.pkg && !types.IsInterface(s.Recv()) {
		fatalf(call.Pos(), "method %s has no body", fn.Name())
	}
	// interface method or method of a type of another package
	if _, ok := rv.(vObj); ok {
		fatalf(call.Pos(), "tracked object used as receiver of external method %s", fn.Name())
	}
	return seq(ts, t.external(fn.FullName(), call, args)), t.resultVals(call)
}

// inline abstractly executes a function body with the parameters bound to abstract values.
func (t *T) inline(f *vFunc, args []aval, pos token.Pos) (tset, []aval) {
	var ftype *ast.FuncType
	var body *ast.BlockStmt
	if f.decl != nil {
		ftype, body = f.decl.Type, f.decl.Body
	} else {
		ftype, body = f.lit.Type, f.lit.Body
	}
	if body == nil {
		fatalf(pos, "function %s has no body", f.name)
	}
	for _, s := range t.stack {
		if s == f.name {
			fatalf(pos, "recursion through %s is not supported", f.name)
		}
	}
	key := ""
	if f.env == nil || f.decl != nil {
		var b strings.Builder
		b.WriteString(f.name)
		for _, a := range args {
			b.WriteString("," + renderVal(a))
			if fv, ok := a.(*vFunc); ok && fv.lit != nil {
				b.Reset() // closures capture an environment: do not memoise
				break
			}
		}
		key = b.String()
		if m, ok := t.memo[key]; ok && key != "" {
			return m.ts, m.ret
		}
	}
	en := newEnv(f.env)
	i := 0
	for _, p := range ftype.Params.List {
		for _, n := range p.Names {
			if i < len(args) && args[i] != nil {
				if _, variadic := p.Type.(*ast.Ellipsis); !variadic {
					if obj := t.info.Defs[n]; obj != nil {
						if _, isObj := args[i].(vObj); !isObj {
							en.vars[obj] = args[i]
						}
					}
				} else if _, isC := args[i].(vContents); isC {
					fatalf(pos, "guarded container passed as variadic argument")
				}
			}
			i++
		}
		if len(p.Names) == 0 {
			i++
		}
	}
	fr := &frame{name: f.name, onceDone: map[string]bool{}, body: body}
	t.stack = append(t.stack, f.name)
	curStack = &t.stack
	outs := t.evalBlock(body.List, en, fr)
	if debug && len(outs) > 20 {
		fmt.Fprintf(os.Stderr, "debug: %s -> %d outcomes\n", strings.Join(t.stack, " > "), len(outs))
		if os.Getenv("LOCKSUM_DEBUG") == f.name {
			for _, o := range outs {
				var parts []string
				for _, a := range o.tr {
					parts = append(parts, kindName[a.k]+" "+a.id)
				}
				fmt.Fprintf(os.Stderr, "   %s\n", strings.Join(parts, "; "))
			}
		}
	}
	t.stack = t.stack[:len(t.stack)-1]
	var ts tset
	for _, o := range outs {
		if o.exit == exBreak || o.exit == exContinue {
			fatalf(pos, "break/continue escapes function %s", f.name)
		}
		tr := o.tr
		for k := len(o.defers) - 1; k >= 0; k-- {
			tr = cat(tr, o.defers[k])
		}
		if t.allocFuncs[body] {
			tr = cat(tr, trace{{aPublish, ""}})
		}
		ts = append(ts, tr)
	}
	ts = dedup(ts)
	if key != "" {
		t.memo[key] = memoEntry{ts, fr.ret}
	}
	return ts, fr.ret
}

// ---------------------------------------------------------------------------------------------
// statements

func (t *T) evalBlock(stmts []ast.Stmt, en *env, fr *frame) []outcome {
	outs := []outcome{{}}
	for _, s := range stmts {
		var next []outcome
		var rs []outcome
		evaluated := false
		for _, o := range outs {
			if o.exit != exNormal {
				next = append(next, o)
				continue
			}
			if !evaluated {
				rs = t.evalStmt(s, en, fr)
				evaluated = true
			}
			for _, r := range rs {
				d := o.defers
				if len(r.defers) > 0 {
					d = append(append([]trace{}, o.defers...), r.defers...)
				}
				next = append(next, outcome{tr: cat(o.tr, r.tr), exit: r.exit, defers: d})
			}
		}
		outs = dedupOut(next)
	}
	return outs
}

func normal(ts tset) []outcome {
	out := make([]outcome, len(ts))
	for i, x := range ts {
		out[i] = outcome{tr: x}
	}
	return out
}

// after: run `rest` after every normal outcome of `first`
func prefix(ts tset, outs []outcome) []outcome {
	if len(ts) == 1 && len(ts[0]) == 0 {
		return outs
	}
	var r []outcome
	for _, x := range ts {
		for _, o := range outs {
			r = append(r, outcome{tr: cat(x, o.tr), exit: o.exit, defers: o.defers})
		}
	}
	return dedupOut(r)
}

func (t *T) bind(en *env, obj types.Object, v aval) {
	if obj == nil {
		return
	}
	switch v.(type) {
	case *vFunc, vContents, vMutex, vOnce, vAnyOption:
		en.vars[obj] = v
	default:
		if _, had := en.lookup(obj); had {
			en.vars[obj] = nil
		}
	}
}

func (t *T) evalAssign(lhs, rhs []ast.Expr, tok token.Token, en *env, fr *frame) tset {
	ts, vals := t.evalExprs(rhs, en, fr)
	if len(rhs) == 1 && len(lhs) > 1 {
		// multi-value call / comma-ok: only the first value may be tracked
		for len(vals) < len(lhs) {
			vals = append(vals, nil)
		}
	}
	for i, l := range lhs {
		if tok != token.ASSIGN && tok != token.DEFINE {
			// compound assignment reads the target first
			r, _ := t.evalExpr(l, en, fr)
			ts = seq(ts, r)
		}
		w, local := t.evalLHS(l, en, fr)
		ts = seq(ts, w)
		var v aval
		if i < len(vals) {
			v = vals[i]
		}
		if local != nil {
			t.bind(en, local, v)
		} else if _, isC := v.(vContents); isC {
			// storing a reference to a guarded container anywhere but into a local variable or the same field
			if sel, ok := l.(*ast.SelectorExpr); ok {
				if name, _, ok := t.field(sel); ok && name == v.(vContents).v {
					continue
				}
			}
			fatalf(l.Pos(), "reference to guarded container %s is stored outside a local variable", v.(vContents).v)
		}
	}
	return ts
}

func (t *T) evalStmt(s ast.Stmt, en *env, fr *frame) []outcome {
	switch s := s.(type) {
	case nil, *ast.EmptyStmt:
		return []outcome{{}}
	case *ast.BlockStmt:
		return t.evalBlock(s.List, newEnv(en), fr)
	case *ast.ExprStmt:
		if call, ok := s.X.(*ast.CallExpr); ok {
			ts, _ := t.evalCall(call, en, fr)
			if id, ok := call.Fun.(*ast.Ident); ok {
				if b, ok := t.info.Uses[id].(*types.Builtin); ok && b.Name() == "panic" {
					outs := normal(ts)
					for i := range outs {
						outs[i].exit = exReturn
					}
					return outs
				}
			}
			return normal(ts)
		}
		ts, _ := t.evalExpr(s.X, en, fr)
		return normal(ts)
	case *ast.AssignStmt:
		return normal(t.evalAssign(s.Lhs, s.Rhs, s.Tok, en, fr))
	case *ast.IncDecStmt:
		r, _ := t.evalExpr(s.X, en, fr)
		w, _ := t.evalLHS(s.X, en, fr)
		return normal(seq(r, w))
	case *ast.DeclStmt:
		gd, ok := s.Decl.(*ast.GenDecl)
		if !ok {
			fatalf(s.Pos(), "unsupported declaration")
		}
		ts := unit
		for _, sp := range gd.Specs {
			vs, ok := sp.(*ast.ValueSpec)
			if !ok {
				continue
			}
			if len(vs.Values) > 0 {
				lhs := make([]ast.Expr, len(vs.Names))
				for i, n := range vs.Names {
					lhs[i] = n
				}
				ts = seq(ts, t.evalAssign(lhs, vs.Values, token.DEFINE, en, fr))
			}
		}
		return normal(ts)
	case *ast.ReturnStmt:
		ts, vals := t.evalExprs(s.Results, en, fr)
		for i, v := range vals {
			if _, isC := v.(vContents); isC {
				fatalf(s.Pos(), "reference to guarded container %s is returned", v.(vContents).v)
			}
			for len(fr.ret) <= i {
				fr.ret = append(fr.ret, nil)
				fr.retSet = append(fr.retSet, false)
			}
			switch v.(type) {
			case *vFunc, vAnyOption, vMutex:
				if fr.retSet[i] && renderVal(fr.ret[i]) != renderVal(v) {
					fr.ret[i] = nil // ambiguous: the caller falls back on the type
					if _, isM := v.(vMutex); isM {
						fatalf(s.Pos(), "function returns different mutexes")
					}
				} else {
					fr.ret[i] = v
				}
				fr.retSet[i] = true
			}
		}
		outs := normal(ts)
		for i := range outs {
			outs[i].exit = exReturn
		}
		return outs
	case *ast.BranchStmt:
		if s.Label != nil {
			fatalf(s.Pos(), "labelled %s is not supported", s.Tok)
		}
		switch s.Tok {
		case token.BREAK:
			return []outcome{{exit: exBreak}}
		case token.CONTINUE:
			return []outcome{{exit: exContinue}}
		}
		fatalf(s.Pos(), "%s is not supported", s.Tok)
	case *ast.LabeledStmt:
		return t.evalStmt(s.Stmt, en, fr)
	case *ast.IfStmt:
		en2 := newEnv(en)
		var init []outcome = []outcome{{}}
		if s.Init != nil {
			init = t.evalStmt(s.Init, en2, fr)
		}
		cond, _ := t.evalExpr(s.Cond, en2, fr)
		then := t.evalBlock(s.Body.List, newEnv(en2), fr)
		els := []outcome{{}}
		if s.Else != nil {
			els = t.evalStmt(s.Else, en2, fr)
		}
		branches := dedupOut(append(append([]outcome{}, then...), els...))
		return t.after(init, prefix(cond, branches))
	case *ast.ForStmt:
		en2 := newEnv(en)
		init := []outcome{{}}
		if s.Init != nil {
			init = t.evalStmt(s.Init, en2, fr)
		}
		cond, _ := t.evalExpr(s.Cond, en2, fr)
		var post tset = unit
		if s.Post != nil {
			post = nil
			for _, o := range t.evalStmt(s.Post, en2, fr) {
				post = append(post, o.tr)
			}
			post = dedup(post)
		}
		fr.loopDepth++
		body := t.evalBlock(s.Body.List, newEnv(en2), fr)
		fr.loopDepth--
		return t.after(init, t.loop(cond, body, post, s.Pos()))
	case *ast.RangeStmt:
		en2 := newEnv(en)
		x, xv := t.evalExpr(s.X, en2, fr)
		if c, ok := xv.(vContents); ok {
			x = seq(x, one(aRd, c.v+"[]"))
		}
		var per tset = unit // per iteration, before the body
		if isChan(t.typeOf(s.X)) {
			per = one(aBlock, "")
		}
		if s.Tok == token.ASSIGN {
			for _, l := range []ast.Expr{s.Key, s.Value} {
				if l != nil {
					w, _ := t.evalLHS(l, en2, fr)
					per = seq(per, w)
				}
			}
		}
		fr.loopDepth++
		body := t.evalBlock(s.Body.List, newEnv(en2), fr)
		fr.loopDepth--
		return prefix(x, t.loop(per, body, unit, s.Pos()))
	case *ast.SwitchStmt:
		en2 := newEnv(en)
		init := []outcome{{}}
		if s.Init != nil {
			init = t.evalStmt(s.Init, en2, fr)
		}
		tag, _ := t.evalExpr(s.Tag, en2, fr)
		return t.after(init, prefix(tag, t.clauses(s.Body, en2, fr)))
	case *ast.TypeSwitchStmt:
		en2 := newEnv(en)
		init := []outcome{{}}
		if s.Init != nil {
			init = t.evalStmt(s.Init, en2, fr)
		}
		assign := t.evalStmt(s.Assign, en2, fr)
		return t.after(init, t.after(assign, t.clauses(s.Body, en2, fr)))
	case *ast.SelectStmt:
		hasDefault := false
		var branches []outcome
		for _, c := range s.Body.List {
			cc := c.(*ast.CommClause)
			en3 := newEnv(en)
			var comm tset = unit
			if cc.Comm == nil {
				hasDefault = true
			} else {
				comm = t.commTraces(cc.Comm, en3, fr)
			}
			branches = append(branches, prefix(comm, t.evalBlock(cc.Body, en3, fr))...)
		}
		branches = breakToNormal(dedupOut(branches))
		if len(branches) == 0 {
			branches = []outcome{{}}
		}
		if !hasDefault {
			return prefix(one(aBlock, ""), branches)
		}
		return branches
	case *ast.SendStmt:
		c, _ := t.evalExpr(s.Chan, en, fr)
		v, val := t.evalExpr(s.Value, en, fr)
		if val != nil {
			fatalf(s.Pos(), "tracked value sent on a channel")
		}
		return normal(seq(seq(c, v), one(aBlock, "")))
	case *ast.DeferStmt:
		if fr.loopDepth > 0 {
			fatalf(s.Pos(), "defer inside a loop is not supported")
		}
		ts, _ := t.evalCall(s.Call, en, fr)
		var outs []outcome
		for _, x := range ts {
			outs = append(outs, outcome{defers: []trace{x}})
		}
		return outs
	case *ast.GoStmt:
		return normal(t.evalGo(s, en, fr))
	}
	fatalf(s.Pos(), "unsupported statement %T", s)
	return nil
}

// commTraces: the communication of a select clause (the Block is emitted once for the select itself)
func (t *T) commTraces(s ast.Stmt, en *env, fr *frame) tset {
	strip := func(outs []outcome) tset {
		var ts tset
		for _, o := range outs {
			var tr trace
			for _, a := range o.tr {
				if a.k != aBlock {
					tr = append(tr, a)
				}
			}
			ts = append(ts, tr)
		}
		return dedup(ts)
	}
	return strip(t.evalStmt(s, en, fr))
}

func breakToNormal(outs []outcome) []outcome {
	for i := range outs {
		if outs[i].exit == exBreak {
			outs[i].exit = exNormal
		}
	}
	return dedupOut(outs)
}

func (t *T) after(first, rest []outcome) []outcome {
	var r []outcome
	for _, o := range first {
		if o.exit != exNormal {
			r = append(r, o)
			continue
		}
		for _, x := range rest {
			d := o.defers
			if len(x.defers) > 0 {
				d = append(append([]trace{}, o.defers...), x.defers...)
			}
			r = append(r, outcome{tr: cat(o.tr, x.tr), exit: x.exit, defers: d})
		}
	}
	return dedupOut(r)
}

func (t *T) clauses(body *ast.BlockStmt, en *env, fr *frame) []outcome {
	hasDefault := false
	var branches []outcome
	for _, c := range body.List {
		cc := c.(*ast.CaseClause)
		if cc.List == nil {
			hasDefault = true
		}
		conds, _ := t.evalExprs(cc.List, en, fr)
		for _, st := range cc.Body {
			if b, ok := st.(*ast.BranchStmt); ok && b.Tok == token.FALLTHROUGH {
				fatalf(b.Pos(), "fallthrough is not supported")
			}
		}
		branches = append(branches, prefix(conds, t.evalBlock(cc.Body, newEnv(en), fr))...)
	}
	if !hasDefault {
		branches = append(branches, outcome{})
	}
	return breakToNormal(dedupOut(branches))
}

// loop: cond (once more after each iteration), body 0/1 times (2 when it contains lock operations).
func (t *T) loop(cond tset, body []outcome, post tset, pos token.Pos) []outcome {
	var iter tset       // complete iterations that continue the loop
	var leave []outcome // iterations that leave the loop or the function
	lockops := false
	for _, o := range body {
		if len(o.defers) > 0 {
			fatalf(pos, "defer inside a loop is not supported")
		}
		if hasLockOps(tset{o.tr}) {
			lockops = true
		}
		switch o.exit {
		case exNormal, exContinue:
			checkNeutral(o.tr, pos)
			iter = append(iter, cat(o.tr, nil))
		case exBreak:
			checkNeutral(o.tr, pos)
			leave = append(leave, outcome{tr: o.tr})
		case exReturn:
			leave = append(leave, o)
		}
	}
	iter = dedup(iter)
	full := seq(seq(cond, iter), post) // one whole iteration
	outs := normal(cond)               // zero iterations
	outs = append(outs, prefix(cond, leave)...)
	outs = append(outs, normal(seq(full, cond))...)
	outs = append(outs, prefix(seq(full, cond), leave)...)
	if lockops && t.unroll2 {
		two := seq(full, full)
		outs = append(outs, normal(seq(two, cond))...)
		outs = append(outs, prefix(seq(two, cond), leave)...)
	}
	return dedupOut(outs)
}

func (t *T) evalGo(s *ast.GoStmt, en *env, fr *frame) tset {
	call := s.Call
	var ts tset = unit
	var fv *vFunc
	if sel, ok := call.Fun.(*ast.SelectorExpr); ok {
		if sl := t.info.Selections[sel]; sl != nil && sl.Kind() == types.MethodVal {
			r, _ := t.evalExpr(sel.X, en, fr)
			ts = r
			if d := t.decls[sl.Obj().(*types.Func)]; d != nil {
				fv = &vFunc{decl: d, name: funcName(d)}
			}
		}
	}
	if fv == nil {
		f, v := t.evalExpr(call.Fun, en, fr)
		ts = seq(ts, f)
		fv, _ = v.(*vFunc)
	}
	if fv == nil {
		fatalf(s.Pos(), "goroutine runs a function the translator cannot resolve")
	}
	ats, args := t.evalExprs(call.Args, en, fr)
	ts = seq(ts, ats)
	p := fset.Position(s.Pos())
	var b strings.Builder
	fmt.Fprintf(&b, "go:%s@%s:%d", fv.name, filepath.Base(p.Filename), p.Line)
	sig := ""
	for _, a := range args {
		sig += "," + renderVal(a)
	}
	if !t.goSeen[b.String()+sig] {
		t.goSeen[b.String()+sig] = true
		name := b.String()
		n := 0
		for _, g := range t.goroutines {
			if strings.HasPrefix(g.name, name) {
				n++
			}
		}
		if n > 0 {
			name = fmt.Sprintf("%s#%d", name, n+1)
		}
		t.goroutines = append(t.goroutines, &goroutine{name: name, fv: fv, args: args, pos: s.Pos()})
		t.notes = append(t.notes, fmt.Sprintf("%s started from %s with (%s)", name, fr.name, strings.TrimPrefix(sig, ",")))
	}
	return seq(ts, one(aSpawn, ""))
}

// ---------------------------------------------------------------------------------------------
// driver and output

type entry struct {
	kind  string // api | go
	name  string
	paths tset
}

// finalize removes the pseudo actions; accesses to a freshly allocated object are thread-local until the
// first goroutine is started or the allocating function returns.
func finalize(tr trace, local *[]string, name string) trace {
	fresh := false
	var out trace
	for _, a := range tr {
		switch a.k {
		case aAlloc:
			if a.id == trackedStructs[0] {
				fresh = true
			}
		case aSpawn, aPublish:
			fresh = false
		case aRd, aWr:
			tracked := false
			for _, s := range trackedStructs {
				if strings.HasPrefix(a.id, s+".") {
					tracked = true
				}
			}
			if fresh && tracked {
				*local = append(*local, fmt.Sprintf("%s: %s %s (object not yet shared)", name, kindName[a.k], a.id))
				continue
			}
			out = append(out, a)
		default:
			out = append(out, a)
		}
	}
	return out
}

func ident(s string) string {
	s = strings.ReplaceAll(s, "[]", "_elts")
	var b strings.Builder
	for _, c := range s {
		if c >= 'a' && c <= 'z' || c >= 'A' && c <= 'Z' || c >= '0' && c <= '9' || c == '_' {
			b.WriteRune(c)
		} else {
			b.WriteByte('_')
		}
	}
	return b.String()
}

func (t *T) run(w io.Writer) {
	t.prepare()
	var entries []*entry
	var silent []string
	var apiNames []string
	var local []string
	// API entry points: exported functions, exported methods of exported types
	type cand struct {
		name string
		d    *ast.FuncDecl
	}
	var cands []cand
	for _, f := range t.files {
		for _, d := range f.Decls {
			fd, ok := d.(*ast.FuncDecl)
			if !ok || fd.Body == nil || !fd.Name.IsExported() {
				continue
			}
			name := funcName(fd)
			if fd.Recv != nil {
				if !ast.IsExported(strings.SplitN(name, ".", 2)[0]) {
					continue
				}
			} else {
				name = "cdi." + name
			}
			cands = append(cands, cand{name, fd})
		}
	}
	sort.Slice(cands, func(i, j int) bool { return cands[i].name < cands[j].name })
	t.unroll2 = true
	for _, c := range cands {
		apiNames = append(apiNames, c.name)
		ts, _ := t.inline(&vFunc{decl: c.d, name: funcName(c.d)}, nil, c.d.Pos())
		e := &entry{kind: "api", name: c.name}
		seen := map[string]bool{}
		for _, tr := range ts {
			f := finalize(tr, &local, c.name)
			if len(f) > 0 && !seen[f.key()] {
				seen[f.key()] = true
				e.paths = append(e.paths, f)
			}
		}
		if len(e.paths) == 0 {
			silent = append(silent, c.name)
			continue
		}
		entries = append(entries, e)
	}
	t.unroll2 = false
	// parts cut out of the callers' paths (sync.Once bodies)
	for _, pt := range t.parts {
		e := &entry{kind: "part", name: pt.name}
		seen := map[string]bool{}
		for _, tr := range pt.paths {
			f := finalize(tr, &local, pt.name)
			if len(f) > 0 && !seen[f.key()] {
				seen[f.key()] = true
				e.paths = append(e.paths, f)
			}
		}
		entries = append(entries, e)
	}
	// goroutines (the list may grow while we go)
	for i := 0; i < len(t.goroutines); i++ {
		g := t.goroutines[i]
		t.stack = nil
		ts, _ := t.inline(g.fv, g.args, g.pos)
		e := &entry{kind: "go", name: g.name}
		seen := map[string]bool{}
		for _, tr := range ts {
			f := finalize(tr, &local, g.name)
			if len(f) > 0 && !seen[f.key()] {
				seen[f.key()] = true
				e.paths = append(e.paths, f)
			}
		}
		entries = append(entries, e)
	}
	// option closures on their own (documentation: they run inside configure, under the lock)
	var optionDoc []string
	for _, o := range t.options {
		ts, _ := t.inline(o, []aval{vObj{trackedStructs[0]}}, o.lit.Pos())
		for _, tr := range ts {
			var parts []string
			for _, a := range tr {
				parts = append(parts, kindName[a.k]+" "+a.id)
			}
			optionDoc = append(optionDoc, o.name+": "+strings.Join(parts, "; "))
		}
	}

	// numbering
	muID := map[string]int{}
	for i, m := range mutexOrder {
		muID[m] = i
	}
	type varInfo struct {
		name  string
		guard string
	}
	var vars []varInfo
	for _, s := range trackedStructs {
		for _, f := range t.structField[s] {
			if f.mutex {
				continue
			}
			vars = append(vars, varInfo{s + "." + f.name, structGuard[s]})
			if f.container {
				vars = append(vars, varInfo{s + "." + f.name + "[]", structGuard[s]})
			}
		}
	}
	var gnames []string
	for g := range globalGuard {
		gnames = append(gnames, g)
	}
	sort.Strings(gnames)
	for _, g := range gnames {
		if t.pkg.Scope().Lookup(g) != nil {
			vars = append(vars, varInfo{g, globalGuard[g]})
		}
	}
	var onames []string
	for g := range onceVars {
		onames = append(onames, g)
	}
	sort.Strings(onames)
	for _, g := range onames {
		if t.pkg.Scope().Lookup(g) != nil {
			vars = append(vars, varInfo{g, onceVars[g]})
		}
	}
	varID := map[string]int{}
	for i, v := range vars {
		varID[v.name] = i
	}

	p := func(format string, args ...interface{}) { fmt.Fprintf(w, format, args...) }
	p("(* GENERATED by tools/gen_locks.py (harness/cmd/locksum) from pkg/cdi of the repository — do not edit.\n")
	p("   Paths of lock operations and accesses to guarded state, per exported function/method and goroutine body;\n")
	p("   callees inlined, defers placed at the exits, loop bodies taken 0/1 times (0/1/2 with lock operations). *)\n")
	p("From Coq Require Import String List.\nFrom CDI Require Import Conc.\nImport ListNotations.\nOpen Scope string_scope.\n\n")
	p("Definition translator_errors : list string := [].\n\n")
	p("(* mutexes; the identifier is the rank (a thread acquires in increasing order) *)\n")
	for _, m := range mutexOrder {
		p("Definition mu_%s : mid := %d.\n", ident(m), muID[m])
	}
	p("Definition nmutexes : nat := %d.\n", len(mutexOrder))
	var ms []string
	for _, m := range mutexOrder {
		ms = append(ms, fmt.Sprintf("(mu_%s, \"%s\")", ident(m), m))
	}
	p("Definition mutexes : list (mid * string) := [%s].\n\n", strings.Join(ms, "; "))
	p("(* guarded variables: fields of the tracked structs (X[] = contents of the map/slice held by field X), package variables *)\n")
	for _, v := range vars {
		p("Definition v_%s : var := %d.\n", ident(v.name), varID[v.name])
	}
	var vs, gs []string
	for _, v := range vars {
		vs = append(vs, fmt.Sprintf("(v_%s, \"%s\")", ident(v.name), v.name))
		gs = append(gs, fmt.Sprintf("(v_%s, mu_%s)", ident(v.name), ident(v.guard)))
	}
	p("Definition vars : list (var * string) := [%s].\n", strings.Join(vs, "; "))
	p("Definition guards : list (var * mid) := [%s].\n\n", strings.Join(gs, "; "))

	render := func(tr trace) string {
		var parts []string
		for _, a := range tr {
			switch a.k {
			case aLock, aUnlock, aRLock, aRUnlock:
				if _, ok := muID[a.id]; !ok {
					fatalf(token.NoPos, "internal: unknown mutex %s", a.id)
				}
				parts = append(parts, kindName[a.k]+" mu_"+ident(a.id))
			case aRd, aWr:
				if _, ok := varID[a.id]; !ok {
					fatalf(token.NoPos, "access to %s which is not a declared guarded variable", a.id)
				}
				parts = append(parts, kindName[a.k]+" v_"+ident(a.id))
			case aBlock:
				parts = append(parts, "Block")
			}
		}
		return "[" + strings.Join(parts, "; ") + "]"
	}
	total := 0
	for _, kind := range []string{"api", "part", "go"} {
		var lines []string
		for _, e := range entries {
			if e.kind != kind {
				continue
			}
			for _, tr := range e.paths {
				lines = append(lines, fmt.Sprintf("  (\"%s\", %s)", e.name, render(tr)))
				total++
			}
		}
		p("Definition %s_paths : list (string * list act) := [\n%s\n].\n\n", kind, strings.Join(lines, ";\n"))
	}
	p("Definition paths : list (string * list act) := (api_paths ++ part_paths ++ go_paths)%%list.\n\n")
	q := func(ss []string) string {
		var out []string
		for _, s := range ss {
			out = append(out, "\""+strings.ReplaceAll(s, "\"", "'")+"\"")
		}
		return "[" + strings.Join(out, ";\n   ") + "]"
	}
	p("(* every exported function / method of an exported type that was analysed *)\n")
	p("Definition api_entries : list string :=\n  %s.\n", q(apiNames))
	p("(* ... of which these perform no lock operation and touch no guarded variable on any path *)\n")
	p("Definition silent_entries : list string :=\n  %s.\n", q(silent))
	var gn []string
	for _, g := range t.goroutines {
		gn = append(gn, g.name)
	}
	p("Definition goroutine_entries : list string :=\n  %s.\n\n", q(gn))
	sort.Strings(local)
	local = uniq(local)
	t.onceReads = uniq(t.onceReads)
	p("(* documentation of what was NOT turned into actions, and why *)\n")
	p("Definition unshared_accesses : list string :=\n  %s.\n", q(local))
	p("Definition once_reads : list string :=\n  %s.\n", q(t.onceReads))
	p("Definition option_closures : list string :=\n  %s.\n", q(optionDoc))
	p("Definition goroutine_bindings : list string :=\n  %s.\n", q(t.notes))
	p("(* %d paths *)\n", total)
}

func uniq(ss []string) []string {
	var out []string
	for i, s := range ss {
		if i == 0 || ss[i-1] != s {
			out = append(out, s)
		}
	}
	return out
}
