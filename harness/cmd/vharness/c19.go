package main

// C19 — the cdi and validate commands report what the library computes.
//
// The binaries built from /repo/cmd/cdi and /repo/cmd/validate (paths in VERIF_BIN_CDI, VERIF_BIN_CDI_VALIDATE)
// are executed on generated Spec directory populations; in this process the LIBRARY is asked the same questions
// about the same directories, with the same schema validator installed and the same cache options the command
// uses (cdi.NewCache(cdi.WithSpecDirs(...)), auto-refresh left at its default as in root.go).  A case is
// (library view, stdout, exit status, sub-command); marshalled objects (verbose listings, injected OCI Specs)
// are compared after decoding both sides to canonical JSON (nil/empty normalised, keys sorted).
// Error message texts are never compared.

import (
	"bytes"
	"context"
	"encoding/json"
	"fmt"
	"os"
	"os/exec"
	"path/filepath"
	"sort"
	"strings"
	"time"

	oci "github.com/opencontainers/runtime-spec/specs-go"
	yamlv3 "gopkg.in/yaml.v3"
	"sigs.k8s.io/yaml"
	"tags.cncf.io/container-device-interface/pkg/cdi"
	"tags.cncf.io/container-device-interface/pkg/parser"
	"tags.cncf.io/container-device-interface/schema"
	specs "tags.cncf.io/container-device-interface/specs-go"
	"verif/harness/hx"
)

func init() { registry["C19"] = genC19 }

// ---------------------------------------------------------------------------------------------- scenarios

type c19File struct {
	Name string      `json:"name"`
	Kind string      `json:"kind"` // valid | invalid | nonspec | subdir
	Spec *specs.Spec `json:"-"`
	Raw  string      `json:"-"`
	What string      `json:"what,omitempty"`
}

type c19Dir struct {
	Name  string    `json:"name"`
	State string    `json:"state"` // dir | missing | file | under-file
	Files []c19File `json:"files,omitempty"`
}

type c19Scenario struct {
	Dirs     []c19Dir // distinct directories
	Order    []int    // the --spec-dirs list: indices into Dirs (an index may repeat)
	Spelling []string // per Order entry: "D", "D/", "D/.", ...
	Schema   string   // builtin | "" (flag omitted) | none | strict (file) | missing (file that does not exist)
	Tag      string
}

func c19DevNode(n int) *specs.DeviceNode {
	return &specs.DeviceNode{Path: fmt.Sprintf("/dev/c19-%d", n), Type: "c", Major: 240, Minor: int64(n), Permissions: "rw"}
}

func c19Hook(tag string) *specs.Hook {
	return &specs.Hook{HookName: "createContainer", Path: "/usr/bin/c19-hook", Args: []string{"c19-hook", tag, "--format=%s:%d"}}
}

// c19Spec builds a valid Spec. variety selects which kinds of edits the devices carry.
func c19Spec(vendor, class string, devs []string, tag string, variety int, global bool) *specs.Spec {
	s := &specs.Spec{Version: "0.6.0", Kind: vendor + "/" + class}
	for i, d := range devs {
		e := specs.ContainerEdits{Env: []string{"FROM=" + tag, "DEV=" + d}}
		switch (variety + i) % 4 {
		case 0:
			// strings whose YAML rendering needs block scalars with empty lines / trailing line breaks / leading blanks
			e.Env = append(e.Env, "MOTD=first paragraph\n\nsecond paragraph", "TAIL=x\n\n", "LEAD=  two leading blanks", "HASH=a # b", "COLON=a: b", "PCT=50%s %d%% %[1]q")
		case 1:
			e.DeviceNodes = []*specs.DeviceNode{c19DevNode(10*variety + i)}
		case 2:
			e.Hooks = []*specs.Hook{c19Hook(tag + "-" + d)}
			e.DeviceNodes = []*specs.DeviceNode{c19DevNode(10*variety + i)}
		case 3:
			e.Mounts = []*specs.Mount{{HostPath: "/tmp/c19-" + d, ContainerPath: "/mnt/" + d, Options: []string{"ro", "bind"}}}
		}
		s.Devices = append(s.Devices, specs.Device{Name: d, ContainerEdits: e})
	}
	if global {
		// the Spec-level edits consist of one kind alone (the command decides by kinds whether it prints them), of two kinds, or
		// of a kind the command does not count (additionalGids: nothing is printed for them)
		switch variety % 7 {
		case 0:
			s.ContainerEdits = specs.ContainerEdits{Env: []string{"SPEC=" + tag}}
		case 1:
			s.ContainerEdits = specs.ContainerEdits{Env: []string{"SPEC=" + tag}, Hooks: []*specs.Hook{c19Hook("spec-" + tag)}}
		case 2:
			s.ContainerEdits = specs.ContainerEdits{Hooks: []*specs.Hook{c19Hook("spec-" + tag)}}
		case 3:
			s.ContainerEdits = specs.ContainerEdits{Mounts: []*specs.Mount{{HostPath: "/tmp/c19-spec-" + tag, ContainerPath: "/mnt/spec", Options: []string{"ro"}}}}
		case 4:
			s.ContainerEdits = specs.ContainerEdits{DeviceNodes: []*specs.DeviceNode{c19DevNode(200 + variety)}}
		case 5:
			s.ContainerEdits = specs.ContainerEdits{Env: []string{"SPEC=" + tag, "PCT=100%d of %s, %v%%", "%!d(MISSING)=%"}}
		default:
			s.Version = "0.7.0"
			s.ContainerEdits = specs.ContainerEdits{AdditionalGIDs: []uint32{4, 5}}
		}
	}
	return s
}

var c19Invalid = []struct{ name, raw, what string }{
	{"bad-kind.json", `{"cdiVersion":"0.6.0","kind":"bad kind","devices":[{"name":"d0","containerEdits":{"env":["A=b"]}}]}`, "invalid kind"},
	{"trunc.json", `{"cdiVersion":"0.6.0","kind":"v1.com/gpu","devices":[`, "truncated JSON"},
	{"bad.yaml", "kind: [\n", "unparsable YAML"},
	{"empty.json", "", "empty file"},
	{"nodev.yaml", "cdiVersion: 0.6.0\nkind: v1.com/gpu\ndevices: []\n", "no devices"},
	{"unknown.json", `{"cdiVersion":"0.6.0","kind":"v1.com/gpu","bogus":1,"devices":[{"name":"d0","containerEdits":{"env":["A=b"]}}]}`, "unknown field"},
	{"badname.yaml", "cdiVersion: 0.6.0\nkind: v2.org/net\ndevices:\n- name: \"d 0\"\n  containerEdits:\n    env: [\"A=b\"]\n", "invalid device name"},
	{"oldver.json", `{"cdiVersion":"0.3.0","kind":"v1.com/gpu","devices":[{"name":"d0","containerEdits":{"mounts":[{"hostPath":"/a","containerPath":"/b","type":"bind"}]}}]}`, "version too low for the features used"},
}

var c19NonSpec = []struct{ name, raw string }{
	{"README", "not a spec\n"}, {"x.json.bak", "{}"}, {"UPPER.JSON", "{}"}, {"y.yml", "kind: v1.com/gpu\n"}, {".hidden", ""},
}

func c19RandScenario(r *hx.R, wantErrors bool) c19Scenario {
	var sc c19Scenario
	names := []string{"zz", "aa", "mm", "d0", "cdi.d", "Bb", "sp ace", "p%sct%d"}
	r.Shuffle(len(names), func(i, j int) { names[i], names[j] = names[j], names[i] })
	nd := 1 + r.Intn(3)
	vendors := []string{"v1.com", "v2.org"}
	classes := []string{"gpu", "net"}
	devnames := []string{"d0", "d1", "d2"}
	fnames := []string{"a.json", "b.yaml", "c.json", "d.yaml", "e.json"}
	for i := 0; i < nd; i++ {
		d := c19Dir{Name: names[i], State: "dir"}
		switch {
		case r.Chance(0.08) && wantErrors:
			d.State = "missing"
		case r.Chance(0.03) && wantErrors:
			d.State = "under-file"
		case r.Chance(0.04):
			d.State = "file"
		}
		if d.State == "dir" {
			nf := r.Intn(4)
			if i == 0 && nf == 0 && r.Chance(0.8) {
				nf = 1
			}
			used := map[string]bool{}
			for k := 0; k < nf; k++ {
				fn := hx.Pick(r, fnames)
				if used[fn] {
					continue
				}
				used[fn] = true
				nv := 1 + r.Intn(3)
				devs := append([]string{}, devnames...)
				r.Shuffle(len(devs), func(a, b int) { devs[a], devs[b] = devs[b], devs[a] })
				devs = devs[:nv]
				sort.Strings(devs)
				v, c := hx.Pick(r, vendors), hx.Pick(r, classes)
				tag := names[i] + "-" + strings.TrimSuffix(strings.TrimSuffix(fn, ".json"), ".yaml")
				d.Files = append(d.Files, c19File{Name: fn, Kind: "valid", Spec: c19Spec(v, c, devs, tag, r.Intn(8), r.Chance(0.4)),
					What: fmt.Sprintf("%s/%s %v", v, c, devs)})
			}
			if r.Chance(0.4) {
				ns := hx.Pick(r, c19NonSpec)
				d.Files = append(d.Files, c19File{Name: ns.name, Kind: "nonspec", Raw: ns.raw})
			}
			if r.Chance(0.25) {
				d.Files = append(d.Files, c19File{Name: hx.Pick(r, []string{"sub", "sub.json"}), Kind: "subdir",
					Spec: c19Spec("v1.com", "gpu", []string{"hidden"}, "sub", 0, false)})
			}
			if wantErrors && r.Chance(0.6) {
				iv := hx.Pick(r, c19Invalid)
				d.Files = append(d.Files, c19File{Name: iv.name, Kind: "invalid", Raw: iv.raw, What: iv.what})
			}
		}
		sc.Dirs = append(sc.Dirs, d)
	}
	if !wantErrors {
		// no two files of one directory may define the same device (same-priority conflicts are errors)
		for di := range sc.Dirs {
			seen := map[string]bool{}
			var keep []c19File
			for _, f := range sc.Dirs[di].Files {
				if f.Kind == "valid" {
					clash := false
					for _, dv := range f.Spec.Devices {
						if seen[f.Spec.Kind+"="+dv.Name] {
							clash = true
						}
					}
					if clash {
						continue
					}
					for _, dv := range f.Spec.Devices {
						seen[f.Spec.Kind+"="+dv.Name] = true
					}
				}
				keep = append(keep, f)
			}
			sc.Dirs[di].Files = keep
		}
	}
	for i := range sc.Dirs {
		sc.Order = append(sc.Order, i)
	}
	r.Shuffle(len(sc.Order), func(i, j int) { sc.Order[i], sc.Order[j] = sc.Order[j], sc.Order[i] })
	if wantErrors && r.Chance(0.15) {
		sc.Order = append(sc.Order, sc.Order[r.Intn(len(sc.Order))]) // a directory listed twice
	}
	for range sc.Order {
		sc.Spelling = append(sc.Spelling, hx.Pick(r, []string{"D", "D", "D", "D/", "D/.", "D//"}))
	}
	switch {
	case r.Chance(0.55):
		sc.Schema = "builtin"
	case r.Chance(0.4):
		sc.Schema = ""
	case r.Chance(0.5):
		sc.Schema = "none"
	default:
		sc.Schema = "strict"
	}
	return sc
}

const c19StrictSchema = `{"$schema":"http://json-schema.org/draft-07/schema#","type":"object","required":["cdiVersion","kind","devices"],` +
	`"properties":{"kind":{"type":"string","pattern":"^v1\\."},"devices":{"type":"array","minItems":1}}}`

// materialise the scenario under root; returns the --spec-dirs entries and the schema argument
func c19Materialise(root string, sc c19Scenario) (dirs []string, schemaArg string) {
	_ = os.MkdirAll(root, 0o755)
	paths := make([]string, len(sc.Dirs))
	for i, d := range sc.Dirs {
		p := filepath.Join(root, d.Name)
		paths[i] = p
		switch d.State {
		case "missing":
		case "file":
			p += ".json"
			paths[i] = p
			writeSpecFile(p, c19Spec("v2.org", "net", []string{"filedir"}, "filedir", 0, false))
		case "under-file":
			_ = os.WriteFile(p+"-f", []byte("plain file"), 0o644)
			paths[i] = filepath.Join(p+"-f", "below")
		default:
			_ = os.MkdirAll(p, 0o755)
			for _, f := range d.Files {
				fp := filepath.Join(p, f.Name)
				switch f.Kind {
				case "valid":
					writeSpecFile(fp, f.Spec)
				case "subdir":
					writeSpecFile(filepath.Join(fp, "inner.json"), f.Spec)
				default:
					_ = os.WriteFile(fp, []byte(f.Raw), 0o644)
				}
			}
		}
	}
	for k, i := range sc.Order {
		dirs = append(dirs, strings.Replace(sc.Spelling[k], "D", paths[i], 1))
	}
	switch sc.Schema {
	case "strict":
		schemaArg = filepath.Join(root, "strict-schema.json")
		_ = os.WriteFile(schemaArg, []byte(c19StrictSchema), 0o644)
	case "missing":
		schemaArg = filepath.Join(root, "no-such-schema.json")
	default:
		schemaArg = sc.Schema
	}
	return dirs, schemaArg
}

// ---------------------------------------------------------------------------------------------- running the binaries

type c19Run struct {
	Stdout, Stderr string
	Exit           int
}

func c19Exec(bin string, cwd string, stdin []byte, args ...string) (c19Run, error) {
	var last c19Run
	for attempt := 0; attempt < 6; attempt++ {
		ctx, cancel := context.WithTimeout(context.Background(), 60*time.Second)
		cmd := exec.CommandContext(ctx, bin, args...)
		cmd.Dir = cwd
		cmd.Env = []string{"PATH=/usr/bin:/bin", "HOME=" + cwd, "LANG=C"}
		var so, se bytes.Buffer
		cmd.Stdout, cmd.Stderr = &so, &se
		if stdin != nil {
			cmd.Stdin = bytes.NewReader(stdin)
		}
		err := cmd.Run()
		timedOut := ctx.Err() != nil
		cancel()
		last = c19Run{Stdout: so.String(), Stderr: se.String()}
		if cmd.ProcessState == nil {
			return last, fmt.Errorf("cannot run %s: %v", bin, err)
		}
		last.Exit = cmd.ProcessState.ExitCode()
		if timedOut || last.Exit < 0 {
			return last, fmt.Errorf("%s %v: timeout or signal (%v)", bin, args, err)
		}
		// resource shortage of the sandbox (inotify instances / descriptors shared with other jobs), not the property
		if strings.Contains(last.Stdout, "failed to create watcher") || strings.Contains(last.Stdout, "too many open files") ||
			strings.Contains(last.Stdout, "no space left on device") {
			time.Sleep(time.Duration(200*(attempt+1)) * time.Millisecond)
			continue
		}
		return last, nil
	}
	return last, fmt.Errorf("%s %v: persistent inotify/descriptor shortage", bin, args)
}

// ---------------------------------------------------------------------------------------------- the library's view

type c19View struct {
	Dirs    []string
	Vendors []string
	Classes []string
	Specs   map[string][]*cdi.Spec
	Devices []*cdi.Device
	Errors  map[string]int
	cache   *cdi.Cache
}

func c19LoadSchema(arg string) (*schema.Schema, error) {
	return schema.Load(arg)
}

// c19Library asks the library about dirs (nil: the default directories) the way the command configures it.
func c19Library(dirs []string) (*c19View, error) {
	for attempt := 0; ; attempt++ {
		var cache *cdi.Cache
		if dirs == nil {
			cache, _ = cdi.NewCache()
		} else {
			cache, _ = cdi.NewCache(cdi.WithSpecDirs(dirs...))
		}
		short := false
		for _, e := range cache.GetSpecDirErrors() {
			if strings.Contains(e.Error(), "failed to create watcher") || strings.Contains(e.Error(), "too many open files") ||
				strings.Contains(e.Error(), "no space left") {
				short = true
			}
		}
		if short {
			_ = cache.Configure(cdi.WithAutoRefresh(false))
			if attempt > 8 {
				return nil, fmt.Errorf("persistent inotify/descriptor shortage in the harness")
			}
			time.Sleep(time.Duration(200*(attempt+1)) * time.Millisecond)
			continue
		}
		v := &c19View{cache: cache, Specs: map[string][]*cdi.Spec{}, Errors: map[string]int{}}
		v.Dirs = cache.GetSpecDirectories()
		v.Vendors = cache.ListVendors()
		v.Classes = cache.ListClasses()
		for _, vend := range v.Vendors {
			v.Specs[vend] = cache.GetVendorSpecs(vend)
		}
		for _, n := range cache.ListDevices() {
			v.Devices = append(v.Devices, cache.GetDevice(n))
		}
		for p, errs := range cache.GetErrors() {
			v.Errors[p] = len(errs)
		}
		return v, nil
	}
}

func (v *c19View) close() {
	if v != nil && v.cache != nil {
		_ = v.cache.Configure(cdi.WithAutoRefresh(false))
	}
}

func c19N(n int) string { return fmt.Sprintf("%d%%N", n) }

func c19Global(e *specs.ContainerEdits) bool {
	return len(e.Env)+len(e.DeviceNodes)+len(e.Hooks)+len(e.Mounts) > 0
}

func (v *c19View) term() string {
	var sp []string
	for _, vend := range v.Vendors {
		var fs []string
		for _, s := range v.Specs[vend] {
			fs = append(fs, hx.C("mkSpecfile", hx.S(s.GetPath()), hx.S(s.GetClass()), c19N(s.GetPriority())))
		}
		sp = append(sp, hx.P(hx.S(vend), hx.L(fs)))
	}
	var devs []string
	for _, d := range v.Devices {
		devs = append(devs, hx.C("mkDevinfo", hx.S(d.GetQualifiedName()), hx.S(d.GetSpec().GetPath()), c19N(d.GetSpec().GetPriority()),
			hx.B(c19Global(&d.GetSpec().ContainerEdits))))
	}
	var keys []string
	for p := range v.Errors {
		keys = append(keys, p)
	}
	sort.Strings(keys)
	var errs []string
	for _, p := range keys {
		errs = append(errs, hx.P(hx.S(p), c19N(v.Errors[p])))
	}
	return hx.C("mkView", hx.LS(v.Dirs), hx.LS(v.Vendors), hx.LS(v.Classes), hx.L(sp), hx.L(devs), hx.L(errs))
}

func (v *c19View) desc(root string) map[string]interface{} {
	rel := func(p string) string { return strings.TrimPrefix(p, root) }
	var devs []string
	for _, d := range v.Devices {
		devs = append(devs, d.GetQualifiedName()+" <- "+rel(d.GetSpec().GetPath()))
	}
	var errs []string
	for p, n := range v.Errors {
		errs = append(errs, fmt.Sprintf("%s (%d)", rel(p), n))
	}
	sort.Strings(errs)
	return map[string]interface{}{"devices": devs, "vendors": v.Vendors, "classes": v.Classes, "files_in_error": errs}
}

// ---------------------------------------------------------------------------------------------- canonical JSON

func c19Norm(x interface{}) interface{} {
	switch t := x.(type) {
	case map[string]interface{}:
		out := map[string]interface{}{}
		for k, e := range t {
			n := c19Norm(e)
			if n != nil {
				out[k] = n
			}
		}
		if len(out) == 0 {
			return nil
		}
		return out
	case []interface{}:
		if len(t) == 0 {
			return nil
		}
		out := make([]interface{}, len(t))
		for i, e := range t {
			out[i] = c19Norm(e)
		}
		return out
	default:
		return x
	}
}

// canonical JSON of a Go value: through encoding/json, null / empty containers dropped from objects, keys sorted
func c19Canon(v interface{}) string {
	data, err := json.Marshal(v)
	if err != nil {
		return "!marshal:" + err.Error()
	}
	dec := json.NewDecoder(bytes.NewReader(data))
	dec.UseNumber()
	var g interface{}
	if err := dec.Decode(&g); err != nil {
		return "!decode:" + err.Error()
	}
	out, _ := json.Marshal(c19Norm(g))
	return string(out)
}

// decode a printed body (lines, already unindented) into target with the inverse of the encoder the command used
func c19Decode(lines []string, target interface{}) (string, bool) {
	text := strings.Join(lines, "\n") + "\n"
	isJSON := strings.HasPrefix(strings.TrimSpace(text), "{")
	var err error
	if isJSON {
		err = json.Unmarshal([]byte(text), target)
	} else {
		err = yamlv3.Unmarshal([]byte(text), target)
	}
	if err != nil {
		return "!undecodable:" + err.Error(), false
	}
	return c19Canon(target), true
}

func c19Lines(s string) []string {
	parts := strings.Split(s, "\n")
	if len(parts) > 0 && parts[len(parts)-1] == "" {
		parts = parts[:len(parts)-1]
	}
	return parts
}

func c19Strip(lines []string, p string) ([]string, bool) {
	out := make([]string, len(lines))
	for i, l := range lines {
		if !strings.HasPrefix(l, p) {
			return nil, false
		}
		out[i] = l[len(p):]
	}
	return out, true
}

func c19Body(lines []string, canon string) string { return hx.P(hx.LS(lines), hx.S(canon)) }

const c19Marker = "     global Spec containerEdits:"

// bodies printed by `devices -v`: per device its body, then (after the marker) the Spec-level edits
func c19DeviceBodies(stdout string) []string {
	ls := c19Lines(stdout)
	if len(ls) == 0 || ls[0] != "CDI devices found:" {
		return nil
	}
	var out []string
	var cur []string
	inEdits, have := false, false
	flush := func() {
		if !have {
			return
		}
		if inEdits {
			body, _ := c19Strip(cur, "      ")
			var e specs.ContainerEdits
			canon, _ := c19Decode(body, &e)
			out = append(out, c19Body(body, canon))
		} else {
			body, _ := c19Strip(cur, "    ")
			var d specs.Device
			canon, _ := c19Decode(body, &d)
			out = append(out, c19Body(body, canon))
		}
		cur = nil
	}
	for _, l := range ls[1:] {
		switch {
		case l == c19Marker:
			flush()
			inEdits = true
		case strings.HasPrefix(l, "    "):
			cur = append(cur, l)
		default: // a device header
			flush()
			inEdits, have = false, true
		}
	}
	flush()
	return out
}

// bodies printed by `specs -v`
func c19SpecBodies(stdout string) []string {
	ls := c19Lines(stdout)
	if len(ls) == 0 || ls[0] != "CDI Specs found:" {
		return nil
	}
	var out []string
	var cur []string
	have := false
	flush := func() {
		if have {
			body, _ := c19Strip(cur, "    ")
			var s specs.Spec
			canon, _ := c19Decode(body, &s)
			out = append(out, c19Body(body, canon))
		}
		cur, have = nil, false
	}
	for _, l := range ls[1:] {
		switch {
		case strings.HasPrefix(l, "    "):
			cur = append(cur, l)
		case strings.HasPrefix(l, "  Spec File "):
			flush()
			have = true
		default:
			flush()
		}
	}
	flush()
	return out
}

// ---------------------------------------------------------------------------------------------- cases

type c19Ctx struct {
	s       *hx.Suite
	cdiBin  string
	valBin  string
	root    string
	scDesc  interface{}
	dirs    []string
	schema  string
	view    *c19View
	defView *c19View // the library's view of the default directories (nil if those exist on this host)
	baseArg []string
	known   map[string]int
}

func (c *c19Ctx) args(sub ...string) []string {
	return append(append([]string{}, c.baseArg...), sub...)
}

func c19Short(s string) string {
	if len(s) > 700 {
		return s[:700] + "…"
	}
	return s
}

func (c *c19Ctx) relArgs(a []string) []string {
	out := make([]string, len(a))
	for i, x := range a {
		out[i] = strings.ReplaceAll(x, c.root, "$ROOT")
	}
	return out
}

func (c *c19Ctx) listing(lsub string, given bool, view *c19View, cmdline []string, libBodies []string, bodies func(string) []string, class string, known string) error {
	bin := c.cdiBin
	run, err := c19Exec(bin, c.root, nil, cmdline...)
	if err != nil {
		return err
	}
	var obs []string
	if bodies != nil && run.Exit == 0 {
		obs = bodies(run.Stdout)
	}
	lb := make([]string, len(libBodies))
	for i, b := range libBodies {
		lb[i] = hx.S(b)
	}
	term := hx.C("CList", hx.B(given), lsub, view.term(), hx.L(lb), hx.S(run.Stdout), hx.Z(int64(run.Exit)), hx.L(obs))
	c.s.Add(hx.Case{
		Term: term,
		Desc: map[string]interface{}{"cmd": append([]string{"cdi"}, c.relArgs(cmdline)...), "population": c.scDesc, "library": view.desc(c.root),
			"exit": run.Exit, "stdout": c19Short(strings.ReplaceAll(run.Stdout, c.root, "$ROOT"))},
		Nontrivial: len(view.Devices) > 0 || len(view.Errors) > 0,
		Class:      class,
		Known:      known,
	})
	return nil
}

func c19ArgsTerm(a []string) string { return hx.LS(a) }

func (c *c19Ctx) allListings(r *hx.R, few bool) error {
	v := c.view
	type job struct {
		lsub   string
		cmd    []string
		lib    []string
		bodies func(string) []string
		class  string
		known  string
	}
	var devBodies, specBodies []string
	for _, d := range v.Devices {
		devBodies = append(devBodies, c19Canon(d.Device))
		if c19Global(&d.GetSpec().ContainerEdits) {
			devBodies = append(devBodies, c19Canon(d.GetSpec().ContainerEdits))
		}
	}
	for _, vend := range v.Vendors {
		for _, s := range v.Specs[vend] {
			specBodies = append(specBodies, c19Canon(s.Spec))
		}
	}
	fmtArgs := func() []string {
		switch r.Intn(3) {
		case 0:
			return nil
		case 1:
			return []string{"-o", "json"}
		}
		return []string{"--output", "yaml"}
	}
	jobs := []job{
		{"LDevices", []string{"devices"}, nil, nil, "devices", ""},
		{"LVendors", []string{"vendors"}, nil, nil, "vendors", ""},
		{"LClasses", []string{"classes"}, nil, nil, "classes", ""},
		{"(LSpecs [])", []string{"specs"}, nil, nil, "specs", ""},
		{"LDirs", []string{"dirs"}, nil, nil, "dirs", ""},
		{"LValidate", []string{"validate"}, nil, nil, "validate-sub", ""},
		{"LDevicesV", append([]string{"devices", "-v"}, fmtArgs()...), devBodies, c19DeviceBodies, "devices -v", ""},
		{"(LSpecsV [])", append([]string{"specs", "--verbose"}, fmtArgs()...), specBodies, c19SpecBodies, "specs -v", ""},
	}
	// specs with a vendor list
	pool := append([]string{"v9.example"}, v.Vendors...)
	var sel []string
	for _, p := range pool {
		if r.Chance(0.5) {
			sel = append(sel, p)
		}
	}
	if len(sel) == 0 {
		sel = []string{pool[len(pool)-1]}
	}
	r.Shuffle(len(sel), func(i, j int) { sel[i], sel[j] = sel[j], sel[i] })
	selected := map[string]bool{}
	for _, a := range sel {
		selected[a] = true
	}
	filterMatters := false
	var selBodies []string
	for _, vend := range v.Vendors {
		if !selected[vend] {
			filterMatters = true
		}
	}
	// the Specs of the requested vendors, in the order of the request
	for _, vend := range sel {
		for _, s := range v.Specs[vend] {
			selBodies = append(selBodies, c19Canon(s.Spec))
		}
	}
	known := ""
	if filterMatters && len(v.Errors) == 0 {
		known = "C19/specs-vendor-args-ignored"
	}
	jobs = append(jobs, job{"(LSpecs " + c19ArgsTerm(sel) + ")", append([]string{"specs"}, sel...), nil, nil, "specs <vendors>", known})
	if r.Chance(0.5) {
		jobs = append(jobs, job{"(LSpecsV " + c19ArgsTerm(sel) + ")", append([]string{"specs", "-v", "-o", "json"}, sel...), selBodies, c19SpecBodies, "specs -v <vendors>", known})
	}
	if few {
		r.Shuffle(len(jobs), func(i, j int) { jobs[i], jobs[j] = jobs[j], jobs[i] })
		jobs = jobs[:3]
	}
	for _, j := range jobs {
		if j.known != "" {
			c.known[j.known]++
		}
		if err := c.listing(j.lsub, true, v, c.args(j.cmd...), j.lib, j.bodies, j.class, j.known); err != nil {
			return err
		}
	}
	return nil
}

// ---- OCI Specs

func c19OCI(r *hx.R, withCDI []string) *oci.Spec {
	s := &oci.Spec{Version: "1.0.2", Process: &oci.Process{Args: []string{"sh"}, Cwd: "/", Env: []string{"PATH=/bin"}}, Root: &oci.Root{Path: "rootfs"}}
	if r.Chance(0.3) {
		s.Process.Env = append(s.Process.Env, "FROM=container", "PCT=%d%%")
	}
	if r.Chance(0.12) {
		s.Process = nil
	}
	if r.Chance(0.3) {
		s.Mounts = []oci.Mount{{Destination: "/proc", Type: "proc", Source: "proc"}}
	}
	if r.Chance(0.3) {
		s.Hooks = &oci.Hooks{Poststop: []oci.Hook{{Path: "/bin/true"}}}
	}
	if len(withCDI) > 0 || r.Chance(0.4) {
		s.Linux = &oci.Linux{}
		if r.Chance(0.5) {
			s.Linux.Devices = append(s.Linux.Devices, oci.LinuxDevice{Path: "/dev/c19-own", Type: "c", Major: 1, Minor: 5})
		}
		for i, n := range withCDI {
			s.Linux.Devices = append(s.Linux.Devices, oci.LinuxDevice{Path: n, Type: "c", Major: 9, Minor: int64(i)})
		}
	}
	return s
}

func c19ReadOCI(data []byte) (*oci.Spec, error) {
	s := &oci.Spec{}
	if err := yaml.Unmarshal(data, s); err != nil {
		return nil, err
	}
	return s, nil
}

func c19WriteOCI(path string, s *oci.Spec) []byte {
	var data []byte
	if filepath.Ext(path) == ".json" {
		data, _ = json.MarshalIndent(s, "", " ")
	} else {
		data, _ = yaml.Marshal(s)
	}
	_ = os.WriteFile(path, data, 0o644)
	return data
}

func c19Match(pattern, name string) string {
	ok, err := filepath.Match(pattern, name)
	switch {
	case err != nil:
		return "MBad"
	case ok:
		return "MYes"
	}
	return "MNo"
}

func (c *c19Ctx) inject(r *hx.R, idx int, patterns []string, class string) error {
	v := c.view
	ext := hx.Pick(r, []string{".json", ".yaml", ".json"})
	ociPath := filepath.Join(c.root, fmt.Sprintf("oci-%d%s", idx, ext))
	data := c19WriteOCI(ociPath, c19OCI(r, nil))
	var outArgs []string
	switch r.Intn(3) {
	case 1:
		outArgs = []string{"-o", "json"}
	case 2:
		outArgs = []string{"-o", "yaml"}
	}
	useStdin := r.Chance(0.25)
	cmdline := append([]string{"inject"}, outArgs...)
	var stdin []byte
	if useStdin {
		cmdline = append(cmdline, "-")
		stdin = data
	} else {
		cmdline = append(cmdline, ociPath)
	}
	cmdline = c.args(append(cmdline, patterns...)...)
	run, err := c19Exec(c.cdiBin, c.root, stdin, cmdline...)
	if err != nil {
		return err
	}
	// the library's side
	var rows []string
	matched := map[string]bool{}
	bad := false
	for _, d := range v.Devices {
		name := d.GetQualifiedName()
		var ms []string
		for _, p := range patterns {
			m := c19Match(p, name)
			ms = append(ms, m)
			if m == "MYes" {
				matched[name] = true
			}
			if m == "MBad" {
				bad = true
			}
		}
		rows = append(rows, hx.P(hx.S(name), hx.L(ms)))
	}
	var sel []string
	for n := range matched {
		sel = append(sel, n)
	}
	sort.Strings(sel)
	libOK, libCanon := false, ""
	if !bad && len(v.Errors) == 0 {
		spec, err := c19ReadOCI(data)
		if err != nil {
			return fmt.Errorf("harness OCI spec unreadable: %v", err)
		}
		var ierr error
		hx.Guard(func() { _, ierr = v.cache.InjectDevices(spec, sel...) })
		libOK = ierr == nil
		if libOK {
			libCanon = c19Canon(spec)
		}
	}
	obs := hx.None
	ls := c19Lines(run.Stdout)
	if run.Exit == 0 && len(ls) > 0 && ls[0] == "Updated OCI Spec:" {
		if body, ok := c19Strip(ls[1:], "  "); ok {
			var s oci.Spec
			canon, _ := c19Decode(body, &s)
			obs = hx.Some(c19Body(body, canon))
		}
	}
	term := hx.C("CInject", v.term(), hx.L(rows), hx.LS(sel), hx.B(libOK), hx.S(libCanon), hx.S(run.Stdout), hx.Z(int64(run.Exit)), obs)
	overlap := false
	for _, d := range v.Devices {
		n := 0
		for _, p := range patterns {
			if c19Match(p, d.GetQualifiedName()) == "MYes" {
				n++
			}
		}
		if n > 1 {
			overlap = true
		}
	}
	c.s.Add(hx.Case{
		Term: term,
		Desc: map[string]interface{}{"cmd": append([]string{"cdi"}, c.relArgs(cmdline)...), "stdin": useStdin, "population": c.scDesc, "library": v.desc(c.root),
			"selected": sel, "overlapping_patterns": overlap, "library_injection_ok": libOK, "exit": run.Exit, "stdout": c19Short(strings.ReplaceAll(run.Stdout, c.root, "$ROOT"))},
		Nontrivial: len(sel) > 0,
		Class:      class,
	})
	return nil
}

func (c *c19Ctx) patterns(r *hx.R) []string {
	var names []string
	for _, d := range c.view.Devices {
		names = append(names, d.GetQualifiedName())
	}
	pool := []string{"v1.com/gpu=*", "v2.org/net=*", "v1.com/*=d0", "v?.*/*=d[01]", "*", "*/*", "v1.com/gpu=d?", "v9.example/x=y", "v[12].*/*=*"}
	n := 1 + r.Intn(3)
	var ps []string
	for i := 0; i < n; i++ {
		if len(names) > 0 && r.Chance(0.5) {
			ps = append(ps, hx.Pick(r, names))
		} else {
			ps = append(ps, hx.Pick(r, pool))
		}
	}
	if r.Chance(0.08) {
		ps = append(ps, "v1.com/gpu=[d")
		r.Shuffle(len(ps), func(i, j int) { ps[i], ps[j] = ps[j], ps[i] })
	}
	return ps
}

// what the library answers for `resolve` on the cache for dirs: unresolved devices, success, canonical result
func c19ResolveLib(cache *cdi.Cache, data []byte) (unres []string, ok bool, canon string, req []string, err error) {
	spec, err := c19ReadOCI(data)
	if err != nil {
		return nil, false, "", nil, err
	}
	// the CDI devices named in linux.devices are taken out of the OCI Spec and requested from the cache
	if spec.Linux != nil && len(spec.Linux.Devices) > 0 {
		var keep []oci.LinuxDevice
		for _, d := range spec.Linux.Devices {
			if parser.IsQualifiedName(d.Path) {
				req = append(req, d.Path)
			} else {
				keep = append(keep, d)
			}
		}
		spec.Linux.Devices = keep
	}
	var ierr error
	hx.Guard(func() { unres, ierr = cache.InjectDevices(spec, req...) })
	if ierr == nil {
		canon = c19Canon(spec)
	}
	return unres, ierr == nil, canon, req, nil
}

func (c *c19Ctx) resolve(r *hx.R, idx int, req []string) error {
	if c.defView == nil {
		return nil
	}
	v := c.view
	ext := hx.Pick(r, []string{".json", ".yaml"})
	ociPath := filepath.Join(c.root, fmt.Sprintf("res-%d%s", idx, ext))
	data := c19WriteOCI(ociPath, c19OCI(r, req))
	var outArgs []string
	switch r.Intn(3) {
	case 1:
		outArgs = []string{"-o", "json"}
	case 2:
		outArgs = []string{"-o", "yaml"}
	}
	cmdline := c.args(append(append([]string{"resolve"}, outArgs...), ociPath)...)
	run, err := c19Exec(c.cdiBin, c.root, nil, cmdline...)
	if err != nil {
		return err
	}
	ug, okg, cg, _, err := c19ResolveLib(v.cache, data)
	if err != nil {
		return err
	}
	ud, okd, cd, _, err := c19ResolveLib(c.defView.cache, data)
	if err != nil {
		return err
	}
	obs := hx.None
	ls := c19Lines(run.Stdout)
	if run.Exit == 0 {
		if body, ok := c19Strip(ls, "  "); ok {
			var s oci.Spec
			canon, _ := c19Decode(body, &s)
			obs = hx.Some(c19Body(body, canon))
		}
	}
	known := ""
	if len(v.Errors) == 0 && (okg != okd || cg != cd || strings.Join(ug, ",") != strings.Join(ud, ",")) {
		known = "C19/resolve-ignores-spec-dirs"
		c.known[known]++
	}
	term := hx.C("CResolve", v.term(), hx.LS(ug), hx.B(okg), hx.S(cg), hx.LS(ud), hx.B(okd), hx.S(cd), hx.S(run.Stdout), hx.Z(int64(run.Exit)), obs)
	c.s.Add(hx.Case{
		Term: term,
		Desc: map[string]interface{}{"cmd": append([]string{"cdi"}, c.relArgs(cmdline)...), "population": c.scDesc, "library": v.desc(c.root),
			"cdi_devices_in_oci_spec": req, "library_unresolved_for_given_dirs": ug, "library_unresolved_for_default_dirs": ud,
			"exit": run.Exit, "stdout": c19Short(strings.ReplaceAll(run.Stdout, c.root, "$ROOT"))},
		Nontrivial: len(req) > 0,
		Class:      "resolve",
		Known:      known,
	})
	return nil
}

// ---------------------------------------------------------------------------------------------- one scenario

// aspect lists for `cdi monitor`, one per scenario without cache errors, in the order the scenarios come
var c19WantMonitor [][]string

func c19ScenarioDesc(sc c19Scenario) interface{} {
	var order []string
	for k, i := range sc.Order {
		order = append(order, strings.Replace(sc.Spelling[k], "D", sc.Dirs[i].Name, 1))
	}
	return map[string]interface{}{"spec_dirs": order, "dirs": sc.Dirs, "schema": sc.Schema, "tag": sc.Tag}
}

func c19RunScenario(s *hx.Suite, r *hx.R, scratch string, idx int, sc c19Scenario, defView *c19View, cdiBin, valBin string, known map[string]int,
	injects [][]string, resolves [][]string) error {
	root := filepath.Join(scratch, fmt.Sprintf("s%d", idx))
	dirs, schemaArg := c19Materialise(root, sc)
	c := &c19Ctx{s: s, cdiBin: cdiBin, valBin: valBin, root: root, scDesc: c19ScenarioDesc(sc), dirs: dirs, schema: schemaArg, defView: defView, known: known}
	if r.Chance(0.5) {
		c.baseArg = []string{"--spec-dirs", strings.Join(dirs, ",")}
	} else {
		for _, d := range dirs {
			c.baseArg = append(c.baseArg, "-d", d)
		}
	}
	if sc.Schema != "" {
		c.baseArg = append(c.baseArg, hx.Pick(r, []string{"-s", "--schema"}), schemaArg)
	}
	loadArg := schemaArg
	if sc.Schema == "" {
		loadArg = "builtin" // the flag's default
	}
	scm, err := c19LoadSchema(loadArg)
	if err != nil {
		// the command must refuse as well
		run, xerr := c19Exec(cdiBin, root, nil, c.args("devices")...)
		if xerr != nil {
			return xerr
		}
		s.Add(hx.Case{Term: hx.C("CSchemaFail", hx.Z(int64(run.Exit))),
			Desc:  map[string]interface{}{"cmd": append([]string{"cdi"}, c.relArgs(c.args("devices"))...), "schema": sc.Schema, "exit": run.Exit},
			Class: "schema-load-failure", Nontrivial: true, Key: fmt.Sprintf("schemafail-%d", idx)})
		return nil
	}
	cdi.SetSpecValidator(schema.WithSchema(scm))
	defer cdi.SetSpecValidator(schema.WithSchema(schema.BuiltinSchema()))
	view, err := c19Library(dirs)
	if err != nil {
		return err
	}
	defer view.close()
	c.view = view
	hasErr := len(view.Errors) > 0
	if !hasErr && len(c19WantMonitor) > 0 {
		// `cdi monitor` on this scenario, in the background (the directories are not touched any more)
		c.startMonitor(c19WantMonitor[0])
		c19WantMonitor = c19WantMonitor[1:]
	}
	if err := c.allListings(r, hasErr); err != nil {
		return err
	}
	if injects == nil {
		injects = [][]string{c.patterns(r)}
		if !hasErr {
			injects = append(injects, c.patterns(r))
			// overlapping patterns on a device
			if len(view.Devices) > 0 {
				n := hx.Pick(r, view.Devices).GetQualifiedName()
				injects = append(injects, []string{n[:strings.Index(n, "=")] + "=*", n})
			}
		}
	}
	for k, ps := range injects {
		class := "inject"
		if err := c.inject(r, k, ps, class); err != nil {
			return err
		}
	}
	if resolves == nil {
		var names []string
		for _, d := range view.Devices {
			names = append(names, d.GetQualifiedName())
		}
		var req []string
		if len(names) > 0 {
			req = append(req, hx.Pick(r, names))
			if r.Chance(0.4) {
				req = append(req, hx.Pick(r, names))
			}
		}
		if r.Chance(0.3) {
			req = append(req, "v9.example/x=nodev")
		}
		// no duplicates (the command re-adds devices through the OCI generator, which deduplicates by path)
		seen := map[string]bool{}
		var uniq []string
		for _, n := range req {
			if !seen[n] {
				seen[n] = true
				uniq = append(uniq, n)
			}
		}
		resolves = [][]string{uniq}
	}
	for k, req := range resolves {
		if err := c.resolve(r, k, req); err != nil {
			return err
		}
	}
	if !hasErr && (idx < 3 || r.Chance(0.12)) {
		if err := c.resolveMany(r, idx); err != nil {
			return err
		}
	}
	return nil
}

// ---------------------------------------------------------------------------------------------- cmd/validate

var c19Docs = []struct {
	name, raw string
}{
	{"ok.json", `{"cdiVersion":"0.6.0","kind":"v1.com/gpu","devices":[{"name":"d0","containerEdits":{"env":["A=b"]}}]}`},
	{"ok.yaml", "cdiVersion: 0.6.0\nkind: v1.com/gpu\ndevices:\n- name: d0\n  containerEdits:\n    env: [\"A=b\"]\n"},
	{"ok2.json", `{"cdiVersion":"0.5.0","kind":"v2.org/net","devices":[{"name":"n0","containerEdits":{"deviceNodes":[{"path":"/dev/null"}]}}],"containerEdits":{"env":["G=1"]}}`},
	{"ok-annot.yaml", "cdiVersion: 0.6.0\nkind: v1.com/gpu\nannotations:\n  a.b/c: d\ndevices:\n- name: d0\n  containerEdits:\n    env: [\"A=b\"]\n"},
	{"nokind.json", `{"cdiVersion":"0.6.0","devices":[{"name":"d0","containerEdits":{"env":["A=b"]}}]}`},
	{"nodevices.yaml", "cdiVersion: 0.6.0\nkind: v1.com/gpu\n"},
	{"badtype.json", `{"cdiVersion":"0.6.0","kind":"v1.com/gpu","devices":"none"}`},
	{"badversion.yaml", "cdiVersion: six\nkind: v1.com/gpu\ndevices:\n- name: d0\n  containerEdits:\n    env: [\"A=b\"]\n"},
	{"badenv.json", `{"cdiVersion":"0.6.0","kind":"v1.com/gpu","devices":[{"name":"d0","containerEdits":{"env":"A=b"}}]}`},
	{"baddevname.json", `{"cdiVersion":"0.6.0","kind":"v1.com/gpu","devices":[{"name":"","containerEdits":{"env":["A=b"]}}]}`},
	{"badhook.yaml", "cdiVersion: 0.6.0\nkind: v1.com/gpu\ndevices:\n- name: d0\n  containerEdits:\n    hooks:\n    - hookName: noSuchHook\n      path: /bin/x\n"},
	{"trunc.json", `{"cdiVersion":"0.6.0","kind":`},
	{"notyaml.yaml", "kind: [\n"},
	{"empty.json", ""},
	{"empty.yaml", ""},
	{"array.json", `[1,2]`},
	{"badannot.yaml", "cdiVersion: 0.6.0\nkind: v1.com/gpu\nannotations:\n  \"bad key!\": d\ndevices:\n- name: d0\n  containerEdits:\n    env: [\"A=b\"]\n"},
	{"v2only.json", `{"cdiVersion":"0.6.0","kind":"v2.org/net","devices":[{"name":"d0","containerEdits":{"env":["A=b"]}}]}`},
}

func c19Validate(s *hx.Suite, r *hx.R, scratch string, idx int, valBin string) error {
	root := filepath.Join(scratch, fmt.Sprintf("v%d", idx))
	_ = os.MkdirAll(root, 0o755)
	choice := hx.Pick(r, []string{"builtin", "builtin", "default", "empty", "none", "strict", "strict", "missing", "garbage"})
	var args []string
	schemaArg := "builtin"
	flagForm := hx.Pick(r, []string{"--schema", "-schema"})
	switch choice {
	case "builtin":
		args = []string{flagForm, "builtin"}
	case "default":
	case "empty":
		schemaArg = ""
		args = []string{flagForm, ""}
	case "none":
		schemaArg = "none"
		args = []string{flagForm + "=none"}
	case "strict":
		schemaArg = filepath.Join(root, "strict.json")
		_ = os.WriteFile(schemaArg, []byte(c19StrictSchema), 0o644)
		args = []string{flagForm, schemaArg}
	case "missing":
		schemaArg = filepath.Join(root, "absent.json")
		args = []string{flagForm, schemaArg}
	case "garbage":
		schemaArg = filepath.Join(root, "garbage.json")
		_ = os.WriteFile(schemaArg, []byte(`{"type": 12`), 0o644)
		args = []string{flagForm, schemaArg}
	}
	// the library's side: the schema the command would use
	var scm *schema.Schema
	var lerr error
	if schemaArg == "" {
		scm = schema.BuiltinSchema()
	} else {
		scm, lerr = schema.Load(schemaArg)
	}
	nd := 1 + r.Intn(3)
	useStdin := r.Chance(0.25)
	var docs []string
	var stdin []byte
	var results []string
	type docDesc struct {
		Doc   string `json:"doc"`
		Valid bool   `json:"library_says_valid"`
	}
	var dd []docDesc
	if useStdin {
		d := hx.Pick(r, c19Docs)
		stdin = []byte(d.raw)
		if r.Chance(0.5) {
			docs = []string{"-"}
		}
		ok := false
		if lerr == nil {
			var verr error
			hx.Guard(func() { verr = scm.ValidateData(stdin) })
			ok = verr == nil
		}
		results = append(results, hx.P(hx.S("<stdin>"), hx.B(ok)))
		dd = append(dd, docDesc{"<stdin> = " + d.name, ok})
	} else {
		for i := 0; i < nd; i++ {
			d := hx.Pick(r, c19Docs)
			p := filepath.Join(root, fmt.Sprintf("%d-%s", i, d.name))
			if r.Chance(0.06) {
				p = filepath.Join(root, "absent-"+d.name) // a document that does not exist
			} else {
				_ = os.WriteFile(p, []byte(d.raw), 0o644)
			}
			docs = append(docs, p)
			ok := false
			if lerr == nil {
				var verr error
				hx.Guard(func() { verr = scm.ValidateFile(p) })
				ok = verr == nil
			}
			results = append(results, hx.P(hx.S(p), hx.B(ok)))
			dd = append(dd, docDesc{strings.TrimPrefix(p, root+"/"), ok})
		}
		if r.Chance(0.2) {
			// the standard input named among the files ("-" or the empty argument), at any position
			d := hx.Pick(r, c19Docs)
			stdin = []byte(d.raw)
			ok := false
			if lerr == nil {
				var verr error
				hx.Guard(func() { verr = scm.ValidateData(stdin) })
				ok = verr == nil
			}
			at := r.Intn(len(docs) + 1)
			docs = append(docs[:at], append([]string{hx.Pick(r, []string{"-", ""})}, docs[at:]...)...)
			results = append(results[:at], append([]string{hx.P(hx.S("<stdin>"), hx.B(ok))}, results[at:]...)...)
			dd = append(dd[:at], append([]docDesc{{"<stdin> = " + d.name, ok}}, dd[at:]...)...)
		}
	}
	cmdline := append(args, docs...)
	run, err := c19Exec(valBin, root, stdin, cmdline...)
	if err != nil {
		return err
	}
	anyBad := false
	for _, d := range dd {
		if !d.Valid {
			anyBad = true
		}
	}
	rel := make([]string, len(cmdline))
	for i, x := range cmdline {
		rel[i] = strings.ReplaceAll(x, root, "$ROOT")
	}
	s.Add(hx.Case{
		Term: hx.C("CValidate", hx.S(schemaArg), hx.B(lerr == nil), hx.L(results), hx.S(run.Stdout), hx.S(run.Stderr), hx.Z(int64(run.Exit))),
		Desc: map[string]interface{}{"cmd": append([]string{"validate"}, rel...), "schema": choice, "schema_loads": lerr == nil, "docs": dd, "exit": run.Exit,
			"stdout": c19Short(strings.ReplaceAll(run.Stdout, root, "$ROOT"))},
		Nontrivial: anyBad || lerr != nil,
		Class:      "cmd/validate",
	})
	return nil
}

// ---------------------------------------------------------------------------------------------- fixed witnesses

func c19Fixed() []struct {
	sc       c19Scenario
	injects  [][]string
	resolves [][]string
} {
	spec := func(v, c string, devs []string, tag string, variety int, global bool) *specs.Spec {
		return c19Spec(v, c, devs, tag, variety, global)
	}
	type T = struct {
		sc       c19Scenario
		injects  [][]string
		resolves [][]string
	}
	return []T{
		// D12 (fixed by 38edc74): a single directory with one valid Spec
		{c19Scenario{Tag: "D12 witness", Schema: "",
			Dirs:  []c19Dir{{Name: "only", State: "dir", Files: []c19File{{Name: "vendor.json", Kind: "valid", Spec: spec("v1.com", "gpu", []string{"d0", "d1"}, "only", 1, true)}}}},
			Order: []int{0}, Spelling: []string{"D"}},
			[][]string{{"v1.com/gpu=d0"}, {"v1.com/gpu=*", "v1.com/gpu=d1"}}, [][]string{{"v1.com/gpu=d0"}}},
		// priorities: the later directory wins although it sorts first; same device in both
		{c19Scenario{Tag: "unsorted directory list with shadowing", Schema: "builtin",
			Dirs: []c19Dir{
				{Name: "zz", State: "dir", Files: []c19File{{Name: "vendor.json", Kind: "valid", Spec: spec("v1.com", "gpu", []string{"d0", "d1"}, "zz", 2, true)}}},
				{Name: "aa", State: "dir", Files: []c19File{{Name: "vendor.yaml", Kind: "valid", Spec: spec("v1.com", "gpu", []string{"d0"}, "aa", 1, false)},
					{Name: "other.json", Kind: "valid", Spec: spec("v2.org", "net", []string{"d0", "d2"}, "aa-other", 3, false)}}}},
			Order: []int{0, 1}, Spelling: []string{"D", "D/"}},
			[][]string{{"v1.com/gpu=d0"}, {"v1.com/gpu=*", "v1.com/gpu=d0", "v2.org/*=d2"}, {"*/*=d0", "v?.*/*=d[01]"}}, [][]string{{"v1.com/gpu=d0", "v2.org/net=d2"}, {"v9.example/x=nodev"}}},
		// a vendor with two Spec files of one class, a second vendor
		{c19Scenario{Tag: "two Spec files of one vendor and class", Schema: "none",
			Dirs: []c19Dir{
				{Name: "mm", State: "dir", Files: []c19File{{Name: "a.json", Kind: "valid", Spec: spec("v1.com", "gpu", []string{"d0"}, "a", 0, false)},
					{Name: "b.yaml", Kind: "valid", Spec: spec("v1.com", "gpu", []string{"d1"}, "b", 1, true)},
					{Name: "c.json", Kind: "valid", Spec: spec("v2.org", "gpu", []string{"d0"}, "c", 2, false)}}}},
			Order: []int{0}, Spelling: []string{"D"}},
			nil, nil},
		// errors: same-priority conflict, invalid file, missing directory, directory given twice
		{c19Scenario{Tag: "conflict + invalid + missing + twice", Schema: "builtin",
			Dirs: []c19Dir{
				{Name: "d0", State: "dir", Files: []c19File{{Name: "a.json", Kind: "valid", Spec: spec("v1.com", "gpu", []string{"d0"}, "a", 0, false)},
					{Name: "b.json", Kind: "valid", Spec: spec("v1.com", "gpu", []string{"d0"}, "b", 0, false)},
					{Name: "bad.yaml", Kind: "invalid", Raw: "kind: [\n", What: "unparsable YAML"}}},
				{Name: "gone", State: "missing"}},
			Order: []int{0, 1, 0}, Spelling: []string{"D", "D", "D/"}},
			nil, nil},
		// directory-level errors only (no Spec file is in error): a missing directory first / last, a path below a regular file
		{c19Scenario{Tag: "missing directory first, no file in error", Schema: "builtin",
			Dirs: []c19Dir{
				{Name: "gone", State: "missing"},
				{Name: "aa", State: "dir", Files: []c19File{{Name: "x.json", Kind: "valid", Spec: spec("v1.com", "gpu", []string{"d0"}, "x", 4, true)}}}},
			Order: []int{0, 1}, Spelling: []string{"D", "D"}},
			[][]string{{"v1.com/gpu=d0"}}, nil},
		{c19Scenario{Tag: "missing directory last and a path below a file, no file in error", Schema: "",
			Dirs: []c19Dir{
				{Name: "mm", State: "dir", Files: []c19File{{Name: "x.yaml", Kind: "valid", Spec: spec("v2.org", "net", []string{"d0", "d1"}, "x", 5, true)}}},
				{Name: "uf", State: "under-file"},
				{Name: "gone", State: "missing"}},
			Order: []int{0, 1, 2}, Spelling: []string{"D", "D", "D/"}},
			[][]string{{"*"}}, nil},
		// a device whose injection fails in the library (device node that cannot be inspected)
		{c19Scenario{Tag: "injection failure", Schema: "",
			Dirs: []c19Dir{{Name: "aa", State: "dir", Files: []c19File{{Name: "x.json", Kind: "valid",
				Spec: &specs.Spec{Version: "0.6.0", Kind: "v1.com/gpu", Devices: []specs.Device{
					{Name: "d0", ContainerEdits: specs.ContainerEdits{DeviceNodes: []*specs.DeviceNode{{Path: "/dev/c19-no-such-node"}}}},
					{Name: "d1", ContainerEdits: specs.ContainerEdits{Env: []string{"A=b"}}}}}}}}},
			Order: []int{0}, Spelling: []string{"D"}},
			[][]string{{"v1.com/gpu=d0"}, {"v1.com/gpu=d1"}, {"v1.com/gpu=[d"}}, [][]string{{"v1.com/gpu=d0"}}},
		// the schema named on the command line does not exist
		{c19Scenario{Tag: "schema file missing", Schema: "missing",
			Dirs:  []c19Dir{{Name: "aa", State: "dir", Files: []c19File{{Name: "x.json", Kind: "valid", Spec: spec("v1.com", "gpu", []string{"d0"}, "x", 0, false)}}}},
			Order: []int{0}, Spelling: []string{"D"}},
			nil, nil},
		// the strict schema rejects the second vendor's file
		{c19Scenario{Tag: "schema from a file", Schema: "strict",
			Dirs: []c19Dir{{Name: "aa", State: "dir", Files: []c19File{{Name: "x.json", Kind: "valid", Spec: spec("v1.com", "gpu", []string{"d0"}, "x", 0, false)},
				{Name: "y.yaml", Kind: "valid", Spec: spec("v2.org", "net", []string{"d0"}, "y", 0, false)}}}},
			Order: []int{0}, Spelling: []string{"D"}},
			nil, nil},
	}
}

// ---------------------------------------------------------------------------------------------- entry point

func genC19(r *hx.R, tier string, scratch string) (*hx.Suite, error) {
	cdiBin, valBin := os.Getenv("VERIF_BIN_CDI"), os.Getenv("VERIF_BIN_CDI_VALIDATE")
	if cdiBin == "" || valBin == "" {
		return nil, fmt.Errorf("VERIF_BIN_CDI / VERIF_BIN_CDI_VALIDATE not set (the runner builds cmd/cdi and cmd/validate and passes them)")
	}
	s := &hx.Suite{
		Property: "C19",
		Imports:  []string{"Base", "Cli", "Judge19"},
		CaseType: "case19",
		Judge:    "judge19",
		Shard:    40,
		Rule: "the cdi and validate binaries built from the repository are run on generated Spec directory populations (1-3 directories in unsorted, repeated, " +
			"non-clean spellings; valid Specs over 2 vendors x 2 classes x 3 device names with shadowing; same-priority conflicts; invalid Specs; non-Spec names; " +
			"sub-directories; missing directories, a file in place of a directory) with --spec-dirs / -d and --schema builtin|none|<file>|<missing file>: " +
			"devices, vendors, classes, specs [vendors], dirs, validate, devices -v and specs -v in every output format, inject (file or stdin, glob patterns incl. " +
			"overlapping and malformed ones, every output format), resolve; cmd/validate on valid / schema-invalid / unparsable / absent documents (files, stdin) " +
			"under every schema choice, the standard input also named among the files. Directory names with a blank and with format verbs, '%' in the printed strings, " +
			"Spec-level edits of one single kind each (env / hooks / mounts / device nodes / additionalGids), vendor arguments in any order, a malformed pattern at any position, " +
			"OCI Specs without a process; directory-level errors alone (missing directory first / last, a path below a file). Without --spec-dirs: the default directories, absent, " +
			"and - in a private mount namespace of a child process - populated (a device defined in both, an invalid file, a conflict; schema builtin and from a file). " +
			"The library answers the same questions in the harness process. Non-trivial: the library has devices or errors " +
			"(listings), selects a device (inject), the OCI Spec names CDI devices (resolve), a document fails or the schema does not load (validate).",
		Extra: map[string]interface{}{},
	}
	known := map[string]int{}
	// the library's view of the default directories (for `resolve`, which consults them, and for runs without --spec-dirs)
	var defView *c19View
	defaultsAbsent := true
	for _, d := range cdi.DefaultSpecDirs {
		if _, err := os.Lstat(d); err == nil {
			defaultsAbsent = false
		}
	}
	if defaultsAbsent {
		cdi.SetSpecValidator(schema.WithSchema(schema.BuiltinSchema()))
		dv, err := c19Library(nil)
		if err != nil {
			return nil, err
		}
		defView = dv
		defer dv.close()
	}
	c19WantMonitor = [][]string{{"devices"}, nil, {"classes", "vendors"}, {hx.Pick(r, []string{"specs", "vendors", "all"})}, {"specs", "devices"}}
	idx := 0
	for _, f := range c19Fixed() {
		if err := c19RunScenario(s, r, scratch, idx, f.sc, defView, cdiBin, valBin, known, f.injects, f.resolves); err != nil {
			return nil, err
		}
		idx++
	}
	n, nv := 62, 130
	if tier == "thorough" {
		n, nv = 500, 800
	}
	for i := 0; i < n; i++ {
		sc := c19RandScenario(r, i%3 == 2)
		sc.Tag = "random"
		if r.Chance(0.03) {
			sc.Schema = "missing"
		}
		if err := c19RunScenario(s, r, scratch, idx, sc, defView, cdiBin, valBin, known, nil, nil); err != nil {
			return nil, err
		}
		idx++
	}
	// without --spec-dirs: the default directories (only when they do not exist on this host, so that both sides see the same)
	if defView != nil {
		c := &c19Ctx{s: s, cdiBin: cdiBin, valBin: valBin, root: scratch, scDesc: "default directories (absent on this host)", defView: defView, view: defView, known: known}
		for _, j := range []struct{ lsub, cmd, class string }{{"LValidate", "validate", "validate-sub (default dirs)"}, {"LDirs", "dirs", "dirs (default dirs)"},
			{"LDevices", "devices", "devices (default dirs)"}, {"LVendors", "vendors", "vendors (default dirs)"}} {
			if err := c.listing(j.lsub, false, defView, []string{j.cmd}, nil, nil, j.class, ""); err != nil {
				return nil, err
			}
		}
	}
	// without --spec-dirs, on default directories WITH content (valid, invalid, conflicting files): in a private mount namespace
	if defaultsAbsent {
		note, err := c19Defaults(s, r, scratch, cdiBin)
		if err != nil {
			return nil, err
		}
		s.Extra["x_populated_default_dirs"] = note
	}
	for i := 0; i < nv; i++ {
		if err := c19Validate(s, r, scratch, i, valBin); err != nil {
			return nil, err
		}
	}
	if err := c19CollectMonitors(s); err != nil {
		return nil, err
	}
	s.Extra["x_known_finding_inputs"] = known
	s.Extra["x_default_dirs_absent"] = defaultsAbsent
	return s, nil
}
