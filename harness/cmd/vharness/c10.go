package main

// C10 — Spec files are published atomically.
//
// (i)   strace of a child process calling Cache.WriteSpec: the system calls on the Spec directory are projected
//       to the operations of CDI.AtomicWrite and handed to the Coq judge together with the directory before/after.
// (ii)  crash points: the child exits at verifPoint("write:<step>"); the parent lists and scans the directory.
// (iii) write failures at byte offsets: RLIMIT_FSIZE in a child which ignores SIGXFSZ (with and without strace),
//       followed by an undisturbed write of a shorter Spec under the same name.
// (iv)  concurrent readers (ReadFile, ReadSpec, scanSpecDirs) against writers alternating two contents.
// Observables: file names, file contents (bytes), what the scanner visits and whether/which Spec it loads
// (hash of the loaded Spec), the kind of return (ok / error / crashed at hook) — no error texts.

import (
	"bufio"
	"bytes"
	"crypto/sha256"
	"encoding/hex"
	"encoding/json"
	"flag"
	"fmt"
	"os"
	"os/exec"
	"os/signal"
	"path/filepath"
	"regexp"
	"runtime"
	"sort"
	"strconv"
	"strings"
	"sync"
	"sync/atomic"
	"syscall"
	"time"

	"golang.org/x/sys/unix"
	"tags.cncf.io/container-device-interface/pkg/cdi"
	specs "tags.cncf.io/container-device-interface/specs-go"
	"verif/harness/hx"
)

func init() {
	registry["C10"] = genC10
	children["c10-write"] = c10WriteChild
}

const (
	c10Begin = "/.c10-begin-marker"
	c10End   = "/.c10-end-marker"
)

var c10Hooks = []string{"mkdir", "created", "written", "closed", "renamed", "none"}

// number of devices of the big Spec (about 20 KiB in either encoding: several pages, beyond the default buffers of bufio;
// the evaluation of the model on much longer byte strings overflows the stack of coqc)
const c10BigNdev = 300

// c10Spec builds a valid Spec whose content depends on tag and whose size grows with ndev.
func c10Spec(tag string, ndev int) *specs.Spec {
	devs := make([]string, ndev)
	for i := range devs {
		devs[i] = fmt.Sprintf("dev%d", i)
	}
	return validSpec("vendor.com", "gpu", devs, tag)
}

func c10SpecHash(s *specs.Spec) string {
	data, _ := json.Marshal(s)
	h := sha256.Sum256(data)
	return hex.EncodeToString(h[:6])
}

func c10BytesHash(b []byte) string {
	h := sha256.Sum256(b)
	return hex.EncodeToString(h[:6])
}

// ---------------------------------------------------------------------------------------------
// child: vharness c10-write -dir D -name N [-drop] -script "tag:ndev:limit:hook;..."
// ONE Cache object performs the steps of the script one after the other.  After every step but the last the child prints the
// step's status on stdout and waits for a line on stdin (the parent looks at the directory meanwhile); the status of the last
// step is the exit status: 0 WriteSpec returned nil, 1 it returned an error, 3 it panicked, 77 crashed at a hook.
type c10Step struct {
	Tag   string
	Ndev  int
	Limit int64 // RLIMIT_FSIZE (soft limit) during the step, -1: none
	Hook  int   // index into c10Hooks, 5: none
}

func c10Script(steps []c10Step) string {
	parts := make([]string, len(steps))
	for i, st := range steps {
		parts[i] = fmt.Sprintf("%s:%d:%d:%d", st.Tag, st.Ndev, st.Limit, st.Hook)
	}
	return strings.Join(parts, ";")
}

// c10DropCaps makes the calling thread an ordinary owner: root without CAP_DAC_OVERRIDE, CAP_DAC_READ_SEARCH and CAP_FOWNER
// obeys permission bits and sticky directories.  The goroutine stays on its thread.
func c10DropCaps() error {
	runtime.LockOSThread()
	hdr := unix.CapUserHeader{Version: unix.LINUX_CAPABILITY_VERSION_3}
	var data [2]unix.CapUserData
	if err := unix.Capget(&hdr, &data[0]); err != nil {
		return err
	}
	for _, c := range []uint{unix.CAP_DAC_OVERRIDE, unix.CAP_DAC_READ_SEARCH, unix.CAP_FOWNER} {
		data[c/32].Effective &^= 1 << (c % 32)
	}
	return unix.Capset(&hdr, &data[0])
}

func c10WriteChild(args []string) int {
	fs := flag.NewFlagSet("c10-write", flag.ExitOnError)
	dir := fs.String("dir", "", "Spec directory")
	name := fs.String("name", "", "Spec name")
	script := fs.String("script", "new:2:-1:5", "steps tag:ndev:limit:hook separated by ;")
	drop := fs.Bool("drop", false, "give up the capabilities which let root ignore permission bits")
	_ = fs.Parse(args)
	var steps []c10Step
	for _, part := range strings.Split(*script, ";") {
		f := strings.Split(part, ":")
		if len(f) != 4 {
			return 6
		}
		nd, e1 := strconv.Atoi(f[1])
		lim, e2 := strconv.ParseInt(f[2], 10, 64)
		hk, e3 := strconv.Atoi(f[3])
		if e1 != nil || e2 != nil || e3 != nil {
			return 6
		}
		steps = append(steps, c10Step{f[0], nd, lim, hk})
	}
	cache, err := cdi.NewCache(cdi.WithSpecDirs(*dir), cdi.WithAutoRefresh(false))
	if err != nil {
		return 4
	}
	signal.Ignore(syscall.SIGXFSZ)
	var unlimited syscall.Rlimit
	if err := syscall.Getrlimit(syscall.RLIMIT_FSIZE, &unlimited); err != nil {
		return 5
	}
	if *drop {
		if err := c10DropCaps(); err != nil {
			return 7
		}
	}
	in := bufio.NewReader(os.Stdin)
	status := 0
	for i, st := range steps {
		spec := c10Spec(st.Tag, st.Ndev)
		if st.Limit >= 0 {
			lim := syscall.Rlimit{Cur: uint64(st.Limit), Max: unlimited.Max}
			if err := syscall.Setrlimit(syscall.RLIMIT_FSIZE, &lim); err != nil {
				return 5
			}
		}
		if st.Hook >= 0 && st.Hook < 5 {
			_ = os.Setenv("VERIF_CRASH_AT", "write:"+c10Hooks[st.Hook])
		} else {
			_ = os.Unsetenv("VERIF_CRASH_AT")
		}
		var werr error
		_, _ = os.Stat(c10Begin)
		panicked, _ := hx.Guard(func() { werr = cache.WriteSpec(spec, *name) })
		_, _ = os.Stat(c10End)
		if st.Limit >= 0 {
			_ = syscall.Setrlimit(syscall.RLIMIT_FSIZE, &unlimited)
		}
		switch {
		case panicked:
			status = 3
		case werr != nil:
			status = 1
		default:
			status = 0
		}
		if i < len(steps)-1 {
			fmt.Printf("%d\n", status)
			if _, err := in.ReadString('\n'); err != nil {
				return 8
			}
		}
	}
	return status
}

// ---------------------------------------------------------------------------------------------
// directory observations
type c10Entry struct {
	Name string
	Data []byte
}

// c10Listing returns the regular files of dir (sorted by name) with their bytes; dirOK tells whether dir exists.
func c10Listing(dir string) (entries []c10Entry, dirOK bool) {
	des, err := os.ReadDir(dir)
	if err != nil {
		return nil, false
	}
	for _, de := range des {
		if !de.Type().IsRegular() && de.Type()&os.ModeSymlink == 0 {
			continue
		}
		// a symbolic link counts as a file with the content a reader gets through it
		data, err := os.ReadFile(filepath.Join(dir, de.Name()))
		if err != nil {
			continue
		}
		entries = append(entries, c10Entry{de.Name(), data})
	}
	return entries, true
}

type c10Scanned struct {
	Name string
	Code string // hash of the loaded Spec, or "ERR"
}

// c10Scan runs the library's scanner on dir.
func c10Scan(dir string) []c10Scanned {
	var out []c10Scanned
	hx.Guard(func() {
		_ = cdi.VerifScanSpecDirs([]string{dir}, func(path string, prio int, spec *cdi.Spec, err error) error {
			rel, rerr := filepath.Rel(dir, path)
			if rerr != nil {
				rel = path
			}
			code := "ERR"
			if err == nil && spec != nil && spec.Spec != nil {
				code = c10SpecHash(spec.Spec)
			}
			out = append(out, c10Scanned{rel, code})
			return nil
		})
	})
	return out
}

func c10ListingTerm(l []c10Entry) string {
	items := make([]string, len(l))
	for i, e := range l {
		items[i] = hx.P(hx.S(e.Name), hx.S(string(e.Data)))
	}
	return hx.L(items)
}

func c10ScanTerm(l []c10Scanned) string {
	items := make([]string, len(l))
	for i, e := range l {
		items[i] = hx.P(hx.S(e.Name), hx.S(e.Code))
	}
	return hx.L(items)
}

func c10ListingDesc(l []c10Entry) []string {
	out := make([]string, len(l))
	for i, e := range l {
		out[i] = fmt.Sprintf("%s (%d bytes, %s)", e.Name, len(e.Data), c10BytesHash(e.Data))
	}
	return out
}

func c10ScanDesc(l []c10Scanned) []string {
	out := make([]string, len(l))
	for i, e := range l {
		out[i] = e.Name + ":" + e.Code
	}
	return out
}

// ---------------------------------------------------------------------------------------------
// strace parsing
type c10Op struct {
	Term string
	Desc string
}

var (
	c10LineRe    = regexp.MustCompile(`^(\d+)\s+(.*)$`)
	c10ResumedRe = regexp.MustCompile(`^<\.\.\. (\w+) resumed>\s*(.*)$`)
	c10CallRe    = regexp.MustCompile(`^(\w+)\((.*)\)\s+= (-?\d+|\?)(.*)$`)
	c10TmpRe     = regexp.MustCompile(`^spec\.(.*)\.tmp$`)
)

// splitArgs splits a strace argument list at top-level commas.
func c10SplitArgs(s string) []string {
	var out []string
	depth, inq, start := 0, false, 0
	for i := 0; i < len(s); i++ {
		c := s[i]
		switch {
		case inq:
			if c == '\\' {
				i++
			} else if c == '"' {
				inq = false
			}
		case c == '"':
			inq = true
		case c == '(' || c == '[' || c == '{':
			depth++
		case c == ')' || c == ']' || c == '}':
			depth--
		case c == ',' && depth == 0:
			out = append(out, strings.TrimSpace(s[start:i]))
			start = i + 1
		}
	}
	out = append(out, strings.TrimSpace(s[start:]))
	return out
}

// c10Str decodes a strace -xx string argument ("\x2f\x61"...); ok is false if it was abbreviated or is no string.
func c10Str(a string) (string, bool) {
	if !strings.HasPrefix(a, "\"") {
		return "", false
	}
	end := strings.LastIndex(a, "\"")
	if end <= 0 {
		if a == "\"\"" {
			return "", true
		}
		return "", false
	}
	body := a[1:end]
	complete := !strings.HasSuffix(a, "...")
	var b []byte
	for i := 0; i < len(body); i++ {
		if body[i] == '\\' && i+3 < len(body) && body[i+1] == 'x' {
			v, err := strconv.ParseUint(body[i+2:i+4], 16, 8)
			if err != nil {
				return "", false
			}
			b = append(b, byte(v))
			i += 3
		} else {
			b = append(b, body[i])
		}
	}
	return string(b), complete
}

type c10Trace struct {
	Ops     []c10Op
	Rnd     string   // random part of the first file created in the directory, if it has CreateTemp's shape
	Raw     []string // the projected system calls, for descriptions
	Markers int
	Problem string // the trace could not be interpreted
}

// c10ParseTrace projects the system calls between the two markers which concern directory dir.
// One c10Trace per marker window (one per step of the child's script), in order; a window the child died in has one marker.
func c10ParseTrace(text string, dir string) []c10Trace {
	var out []c10Trace
	tr := &c10Trace{}
	dir = filepath.Clean(dir)
	pending := map[string]string{}
	dirfds := map[string]bool{} // descriptors open on dir
	filefds := map[string]int{} // descriptor -> normalised number, files of dir opened for writing
	nextfd := 0
	inWindow := false
	mkdirSeen := false
	resolve := func(dfd, p string) (string, bool) { // -> entry name inside dir
		full := p
		if !filepath.IsAbs(p) {
			if dfd == "AT_FDCWD" || !dirfds[dfd] {
				return "", false
			}
			full = filepath.Join(dir, p)
		}
		full = filepath.Clean(full)
		if filepath.Dir(full) == dir && full != dir {
			return filepath.Base(full), true
		}
		return "", false
	}
	isDirOrAncestor := func(p string) bool {
		p = filepath.Clean(p)
		return p == dir || strings.HasPrefix(dir, strings.TrimSuffix(p, "/")+"/")
	}
	add := func(term, desc string) {
		tr.Ops = append(tr.Ops, c10Op{term, desc})
	}
	for _, line := range strings.Split(text, "\n") {
		m := c10LineRe.FindStringSubmatch(line)
		if m == nil {
			continue
		}
		pid, rest := m[1], m[2]
		if strings.HasSuffix(rest, "<unfinished ...>") {
			pending[pid] = strings.TrimSuffix(rest, "<unfinished ...>")
			continue
		}
		if rm := c10ResumedRe.FindStringSubmatch(rest); rm != nil {
			rest = pending[pid] + rm[2]
			delete(pending, pid)
		}
		cm := c10CallRe.FindStringSubmatch(rest)
		if cm == nil {
			continue
		}
		call, args, ret := cm[1], c10SplitArgs(cm[2]), cm[3]
		ok := ret != "?" && !strings.HasPrefix(ret, "-")
		str := func(i int) string {
			if i < len(args) {
				s, _ := c10Str(args[i])
				return s
			}
			return ""
		}
		// markers
		if call == "newfstatat" || call == "stat" || call == "lstat" || call == "statx" {
			pi := 1
			if call == "stat" || call == "lstat" {
				pi = 0
			}
			switch str(pi) {
			case c10Begin:
				// a new window: descriptors are numbered from 0 again
				tr = &c10Trace{Markers: 1}
				filefds = map[string]int{}
				nextfd, mkdirSeen = 0, false
				inWindow = true
				continue
			case c10End:
				if inWindow {
					inWindow = false
					tr.Markers++
					out = append(out, *tr)
				}
				continue
			}
		}
		// descriptors on the directory are tracked also outside the window (none are expected to stay open)
		if (call == "openat" || call == "open") && ok {
			pi, fi := 1, 2
			dfd := "AT_FDCWD"
			if call == "open" {
				pi, fi = 0, 1
			} else {
				dfd = args[0]
			}
			p := str(pi)
			flags := ""
			if fi < len(args) {
				flags = args[fi]
			}
			if filepath.IsAbs(p) && filepath.Clean(p) == dir || (!filepath.IsAbs(p) && dirfds[dfd] && filepath.Clean(p) == ".") {
				dirfds[ret] = true
				delete(filefds, ret)
				continue
			}
			if name, in := resolve(dfd, p); in {
				writable := strings.Contains(flags, "O_WRONLY") || strings.Contains(flags, "O_RDWR") ||
					strings.Contains(flags, "O_CREAT") || strings.Contains(flags, "O_TRUNC")
				if !writable {
					delete(filefds, ret)
					delete(dirfds, ret)
					continue
				}
				if !inWindow {
					continue
				}
				id := nextfd
				nextfd++
				filefds[ret] = id
				delete(dirfds, ret)
				creat, excl, trunc := strings.Contains(flags, "O_CREAT"), strings.Contains(flags, "O_EXCL"), strings.Contains(flags, "O_TRUNC")
				if strings.Contains(flags, "O_APPEND") || strings.Contains(flags, "O_TMPFILE") {
					add(hx.C("Other", hx.S("open-flags")), "open "+name+" "+flags)
				}
				if tr.Rnd == "" && id == 0 {
					if mm := c10TmpRe.FindStringSubmatch(name); mm != nil {
						tr.Rnd = mm[1]
					}
				}
				add(hx.C("OpenW", hx.Nat(id), hx.S(name), hx.B(creat), hx.B(excl), hx.B(trunc)),
					fmt.Sprintf("open(%s, %s) = fd%d", name, flags, id))
				continue
			}
			// some other file: forget stale tracking of a reused descriptor number
			delete(filefds, ret)
			delete(dirfds, ret)
			continue
		}
		if call == "creat" && ok {
			if name, in := resolve("AT_FDCWD", str(0)); in && inWindow {
				id := nextfd
				nextfd++
				filefds[ret] = id
				add(hx.C("OpenW", hx.Nat(id), hx.S(name), "true", "false", "true"), fmt.Sprintf("creat(%s) = fd%d", name, id))
			}
			continue
		}
		if call == "close" {
			fd := args[0]
			if id, is := filefds[fd]; is && ok {
				delete(filefds, fd)
				if inWindow {
					add(hx.C("Close", hx.Nat(id)), fmt.Sprintf("close(fd%d)", id))
				}
			}
			if ok {
				delete(dirfds, fd)
			}
			continue
		}
		if call == "dup" || call == "dup2" || call == "dup3" {
			if _, is := filefds[args[0]]; is && inWindow {
				add(hx.C("Other", hx.S(call)), call)
			}
			continue
		}
		if !inWindow {
			continue
		}
		switch call {
		case "newfstatat", "stat", "lstat", "mkdirat", "mkdir":
			pi := 1
			if call == "stat" || call == "lstat" || call == "mkdir" {
				pi = 0
			}
			if !mkdirSeen && nextfd == 0 && isDirOrAncestor(str(pi)) && filepath.IsAbs(str(pi)) {
				mkdirSeen = true
				add("MkdirAll", "MkdirAll (first "+call+" on the directory path)")
			}
		case "write":
			id, is := filefds[args[0]]
			if !is {
				continue
			}
			if !ok {
				add(hx.C("Fail", hx.S("write")), fmt.Sprintf("write(fd%d) failed", id))
				continue
			}
			n, _ := strconv.Atoi(ret)
			data, complete := c10Str(args[1])
			if !complete || len(data) < n {
				tr.Problem = "write data abbreviated by strace"
				continue
			}
			add(hx.C("WriteChunk", hx.Nat(id), hx.S(data[:n])), fmt.Sprintf("write(fd%d, %d bytes) = %d", id, len(data), n))
		case "pwrite64", "writev", "pwritev", "pwritev2", "ftruncate", "fallocate", "sendfile", "copy_file_range", "mmap":
			fdArg := args[0]
			if call == "sendfile" {
				fdArg = args[0]
			}
			if call == "copy_file_range" && len(args) > 2 {
				fdArg = args[2]
			}
			if call == "mmap" && len(args) > 4 {
				fdArg = args[4]
			}
			if id, is := filefds[fdArg]; is && ok {
				add(hx.C("Other", hx.S(call)), fmt.Sprintf("%s(fd%d)", call, id))
			}
		case "rename", "renameat", "renameat2":
			var sd, sp, dd, dp, fl string
			if call == "rename" {
				sd, sp, dd, dp = "AT_FDCWD", str(0), "AT_FDCWD", str(1)
			} else {
				sd, sp, dd, dp = args[0], str(1), args[2], str(3)
				if call == "renameat2" && len(args) > 4 {
					fl = args[4]
				}
			}
			sn, sin := resolve(sd, sp)
			dn, din := resolve(dd, dp)
			switch {
			case sin && din && ok:
				if strings.Contains(fl, "RENAME_EXCHANGE") || strings.Contains(fl, "RENAME_WHITEOUT") {
					add(hx.C("Other", hx.S("rename-flags")), "rename "+fl)
				}
				add(hx.C("Rename", hx.S(sn), hx.S(dn), hx.B(strings.Contains(fl, "RENAME_NOREPLACE"))), fmt.Sprintf("rename(%s, %s, %s)", sn, dn, fl))
			case sin && din:
				add(hx.C("Fail", hx.S("rename")), fmt.Sprintf("rename(%s, %s) failed", sn, dn))
			case (sin || din) && ok:
				add(hx.C("Other", hx.S("rename-across")), fmt.Sprintf("rename(%s, %s) across directories", sp, dp))
			}
		case "unlink", "unlinkat":
			d, p := "AT_FDCWD", str(0)
			if call == "unlinkat" {
				d, p = args[0], str(1)
			}
			if n, in := resolve(d, p); in && ok {
				add(hx.C("Unlink", hx.S(n)), "unlink("+n+")")
			}
		case "link", "linkat", "symlink", "symlinkat", "truncate":
			hit := false
			for i := range args {
				if s, okS := c10Str(args[i]); okS {
					if _, in := resolve("AT_FDCWD", s); in {
						hit = true
					}
				}
			}
			if (hit || call == "linkat" || call == "symlinkat") && ok {
				add(hx.C("Other", hx.S(call)), call)
			}
		}
	}
	if inWindow {
		out = append(out, *tr)
	}
	for i := range out {
		for _, o := range out[i].Ops {
			out[i].Raw = append(out[i].Raw, o.Desc)
		}
		if out[i].Markers != 2 && out[i].Problem == "" {
			out[i].Problem = fmt.Sprintf("expected 2 markers in the trace window, saw %d", out[i].Markers)
		}
	}
	return out
}

const c10TraceSet = "trace=mkdir,mkdirat,open,openat,creat,write,pwrite64,writev,pwritev,pwritev2,close,dup,dup2,dup3,rename,renameat,renameat2," +
	"unlink,unlinkat,link,linkat,symlink,symlinkat,truncate,ftruncate,fallocate,sendfile,copy_file_range,stat,lstat,newfstatat,statx"

// ---------------------------------------------------------------------------------------------
// one write attempt in a child process
type c10Run struct {
	Dir    string
	Name   string // name handed to WriteSpec
	Target string // file name it is expected under
	Tag    string
	Ndev   int
	Limit  int64 // -1: none
	Hook   int   // index into c10Hooks; 5 = none
	Strace bool
	Drop   bool // the child gives up the capabilities which let root ignore permission bits and sticky directories
}

type c10Result struct {
	L0, L1 []c10Entry
	S0, S1 []c10Scanned
	Dir0   bool
	Ret    int // 0 ok, 1 error, 77 crashed at hook, other: unexpected
	Trace  c10Trace
	Err    string
}

var c10Children int

func c10Exec(self string, scratch string, run c10Run) c10Result {
	return c10Session(self, scratch, run.Dir, run.Name, []c10Step{{run.Tag, run.Ndev, run.Limit, run.Hook}}, run.Strace, run.Drop)[0]
}

// c10Session lets child processes perform the steps on directory dir, every child with ONE Cache object for all the steps it
// gets to: a child which dies at a hook is followed by a new one for the remaining steps.  One result per step; the parent looks
// at the directory between the steps while the child waits.
func c10Session(self, scratch, dir, name string, steps []c10Step, strace, drop bool) []c10Result {
	results := make([]c10Result, len(steps))
	for i := 0; i < len(steps); {
		i += c10Child(self, scratch, dir, name, steps[i:], strace, drop, results[i:])
	}
	return results
}

func c10Child(self, scratch, dir, name string, steps []c10Step, strace, drop bool, res []c10Result) int {
	c10Children++
	args := []string{"c10-write", "-dir", dir, "-name", name, "-script", c10Script(steps)}
	if drop {
		args = append(args, "-drop")
	}
	var cmd *exec.Cmd
	tracefile := filepath.Join(scratch, "trace.txt")
	if strace {
		_ = os.Remove(tracefile)
		sargs := append([]string{"-f", "-qq", "-xx", "-s", "1000000", "-o", tracefile, "-e", c10TraceSet, self}, args...)
		cmd = exec.Command("strace", sargs...)
	} else {
		cmd = exec.Command(self, args...)
	}
	cmd.Env = append(os.Environ(), "VERIF_CRASH_AT=", "VERIF_PAUSE_AT=")
	var stderr bytes.Buffer
	cmd.Stderr = &stderr
	stdin, e1 := cmd.StdinPipe()
	stdout, e2 := cmd.StdoutPipe()
	res[0].L0, res[0].Dir0 = c10Listing(dir)
	res[0].S0 = c10Scan(dir)
	fail := func(msg string) int {
		for k := range res {
			res[k].Ret, res[k].Err = 99, msg
		}
		return len(res)
	}
	if e1 != nil || e2 != nil {
		return fail("cannot set up the pipes to the child")
	}
	if err := cmd.Start(); err != nil {
		return fail(err.Error())
	}
	watchdog := time.AfterFunc(120*time.Second, func() { _ = cmd.Process.Kill() })
	defer watchdog.Stop()
	rd := bufio.NewReader(stdout)
	done := 0
	for k := range steps {
		line, err := rd.ReadString('\n')
		if err != nil {
			// the child has ended: its exit status is the status of this step
			res[k].Ret = 0
			if werr := cmd.Wait(); werr != nil {
				if ee, ok := werr.(*exec.ExitError); ok {
					res[k].Ret = ee.ExitCode()
				} else {
					res[k].Ret = 99
					res[k].Err = werr.Error()
				}
			}
			if res[k].Ret != 0 && res[k].Ret != 1 && res[k].Ret != 77 {
				res[k].Err += " child: " + strings.TrimSpace(stderr.String())
			}
			res[k].L1, _ = c10Listing(dir)
			res[k].S1 = c10Scan(dir)
			done = k + 1
			break
		}
		code, cerr := strconv.Atoi(strings.TrimSpace(line))
		if cerr != nil {
			code = 98
			res[k].Err = "unexpected line from the child: " + strings.TrimSpace(line)
		}
		res[k].Ret = code
		var dirOK bool
		res[k].L1, dirOK = c10Listing(dir)
		res[k].S1 = c10Scan(dir)
		if k+1 < len(steps) {
			res[k+1].L0, res[k+1].Dir0, res[k+1].S0 = res[k].L1, dirOK, res[k].S1
		}
		_, _ = stdin.Write([]byte("\n"))
	}
	if done == 0 { // cannot happen: the last step ends with the child
		_ = cmd.Process.Kill()
		_ = cmd.Wait()
		return fail("the child outlived its script")
	}
	if strace {
		data, rerr := os.ReadFile(tracefile)
		var windows []c10Trace
		if rerr == nil {
			windows = c10ParseTrace(string(data), dir)
		}
		for k := 0; k < done; k++ {
			switch {
			case rerr != nil:
				res[k].Trace.Problem = "no trace file"
			case k >= len(windows):
				res[k].Trace.Problem = fmt.Sprintf("the trace has %d windows, step %d has none", len(windows), k)
			default:
				res[k].Trace = windows[k]
			}
		}
	}
	return done
}

// c10Complete returns the bytes an undisturbed WriteSpec produces for (name, tag, ndev): the complete new content.
var c10CompleteCache = map[string][]byte{}

func c10Complete(scratch, name, tag string, ndev int) ([]byte, error) {
	key := fmt.Sprintf("%s|%s|%d", name, tag, ndev)
	if b, ok := c10CompleteCache[key]; ok {
		return b, nil
	}
	dir := filepath.Join(scratch, "ref")
	_ = os.RemoveAll(dir)
	cache, err := cdi.NewCache(cdi.WithSpecDirs(dir), cdi.WithAutoRefresh(false))
	if err != nil {
		return nil, err
	}
	if err := cache.WriteSpec(c10Spec(tag, ndev), name); err != nil {
		return nil, err
	}
	l, _ := c10Listing(dir)
	if len(l) != 1 {
		return nil, fmt.Errorf("reference write of %s left %d files", name, len(l))
	}
	c10CompleteCache[key] = l[0].Data
	_ = os.RemoveAll(dir)
	return l[0].Data, nil
}

func c10TargetOf(name string) string {
	if ext := filepath.Ext(name); ext != ".json" && ext != ".yaml" {
		return name + ".yaml"
	}
	return name
}

// c10Fixture prepares a fresh Spec directory.
type c10Fix struct {
	Prev      bool // a previous version of the target exists
	PrevNdev  int
	Missing   bool // the directory does not exist yet
	StaleTmp  bool // leftovers of earlier interrupted writes
	DirTarget bool // a directory sits where the target should go (makes the rename fail)
	PrevLink  bool // the previous version is reached through a symbolic link under the Spec name (the data lives elsewhere)
	// for writers which obey permissions (c10Run.Drop):
	ReadOnlyDir bool // the directory gives nobody write permission: no file can be created in it, the files in it can still be written
	Sticky      bool // a sticky directory of another user; the previous version belongs to a third user and is writable by everybody:
	// a temporary file can be created, the rename over the previous version is refused, writing into it would be allowed
}

func c10Prepare(dir, name string, fx c10Fix) error {
	_ = os.RemoveAll(dir)
	if fx.Missing {
		return nil
	}
	if err := os.MkdirAll(dir, 0o755); err != nil {
		return err
	}
	writeSpecFile(filepath.Join(dir, "other.json"), validSpec("other.org", "thing", []string{"x"}, "other"))
	_ = os.WriteFile(filepath.Join(dir, "README"), []byte("not a spec"), 0o644)
	if fx.StaleTmp {
		_ = os.WriteFile(filepath.Join(dir, "spec.12345.tmp"), []byte("---\ncdiVersion: 1.0.0\nkind: stale.org/partial\ndevi"), 0o600)
		_ = os.WriteFile(filepath.Join(dir, c10TargetOf(name)+".tmp"), bytes.Repeat([]byte("stale leftover of an interrupted write\n"), 40), 0o600)
	}
	if fx.DirTarget {
		if err := os.MkdirAll(filepath.Join(dir, c10TargetOf(name), "sub"), 0o755); err != nil {
			return err
		}
	}
	if fx.Prev {
		cache, err := cdi.NewCache(cdi.WithSpecDirs(dir), cdi.WithAutoRefresh(false))
		if err != nil {
			return err
		}
		if err := cache.WriteSpec(c10Spec("previous", fx.PrevNdev), name); err != nil {
			return err
		}
		if fx.PrevLink {
			target := filepath.Join(dir, c10TargetOf(name))
			store := filepath.Join(filepath.Dir(dir), "store-"+filepath.Base(dir)+"-"+c10TargetOf(name))
			if err := os.Rename(target, store); err != nil {
				return err
			}
			if err := os.Symlink(store, target); err != nil {
				return err
			}
		}
	}
	if fx.Sticky {
		if err := os.Chown(dir, 1, 1); err != nil {
			return err
		}
		if err := os.Chmod(dir, 0o777|os.ModeSticky); err != nil {
			return err
		}
		if fx.Prev {
			target := filepath.Join(dir, c10TargetOf(name))
			if err := os.Chown(target, 2, 2); err != nil {
				return err
			}
			if err := os.Chmod(target, 0o666); err != nil {
				return err
			}
		}
	}
	if fx.ReadOnlyDir {
		if err := os.Chmod(dir, 0o555); err != nil {
			return err
		}
	}
	return nil
}

func c10Wobs(run c10Run, res c10Result, newData []byte) string {
	return hx.C("mkWobs", hx.S(run.Target), hx.S(string(newData)), hx.B(res.Dir0), c10ListingTerm(res.L0), c10ListingTerm(res.L1),
		c10ScanTerm(res.S0), c10ScanTerm(res.S1), hx.S(c10SpecHash(c10Spec(run.Tag, run.Ndev))), hx.Nat(res.Ret))
}

func c10RndOf(res c10Result) string {
	before := map[string]bool{}
	for _, e := range res.L0 {
		before[e.Name] = true
	}
	for _, e := range res.L1 {
		if !before[e.Name] {
			if m := c10TmpRe.FindStringSubmatch(e.Name); m != nil {
				return m[1]
			}
		}
	}
	return "0"
}

func c10OptN(limit int64) string {
	if limit < 0 {
		return hx.None
	}
	return hx.Some(fmt.Sprintf("%d%%N", limit))
}

func c10Desc(kind string, run c10Run, fx c10Fix, res c10Result, newLen int) map[string]interface{} {
	prev := false
	for _, e := range res.L0 {
		prev = prev || e.Name == run.Target
	}
	d := map[string]interface{}{
		"kind": kind, "name": run.Name, "target": run.Target, "previous_file": prev, "dir_missing": !res.Dir0, "tag": run.Tag,
		"directory_at_target": fx.DirTarget, "new_len": newLen, "ret(0 ok,1 error,77 crashed)": res.Ret,
		"dir_before": c10ListingDesc(res.L0), "dir_after": c10ListingDesc(res.L1), "scan_before": c10ScanDesc(res.S0), "scan_after": c10ScanDesc(res.S1),
	}
	if run.Limit >= 0 {
		d["rlimit_fsize"] = run.Limit
	}
	if run.Hook < 5 {
		d["crash_at"] = "write:" + c10Hooks[run.Hook]
	}
	if run.Strace {
		d["syscalls"] = res.Trace.Raw
	}
	if res.Err != "" {
		d["harness_note"] = res.Err
	}
	return d
}

// ---------------------------------------------------------------------------------------------
// (iv) concurrent readers against writers alternating two contents
func c10Concurrent(scratch string, idx int, name string, prev bool, writers int, dur time.Duration) (hx.Case, error) {
	dir := filepath.Join(scratch, fmt.Sprintf("conc%d", idx))
	_ = os.RemoveAll(dir)
	if err := os.MkdirAll(dir, 0o755); err != nil {
		return hx.Case{}, err
	}
	target := c10TargetOf(name)
	path := filepath.Join(dir, target)
	specA, specB := c10Spec("content-A", 1), c10Spec("content-B-which-is-longer", 6)
	bytesA, err := c10Complete(scratch, name, "content-A", 1)
	if err != nil {
		return hx.Case{}, err
	}
	bytesB, err := c10Complete(scratch, name, "content-B-which-is-longer", 6)
	if err != nil {
		return hx.Case{}, err
	}
	if prev {
		if err := os.WriteFile(path, bytesA, 0o644); err != nil {
			return hx.Case{}, err
		}
	}
	var stop int32
	var wg sync.WaitGroup
	var nwrites, nreads, nscans, werrs int64
	var sharedCache *cdi.Cache
	if idx%2 == 1 {
		var err error
		if sharedCache, err = cdi.NewCache(cdi.WithSpecDirs(dir), cdi.WithAutoRefresh(false)); err != nil {
			return hx.Case{}, err
		}
	}
	for w := 0; w < writers; w++ {
		wg.Add(1)
		go func(w int) {
			defer wg.Done()
			// odd rounds: the writers share one Cache object
			cache := sharedCache
			if cache == nil {
				var err error
				cache, err = cdi.NewCache(cdi.WithSpecDirs(dir), cdi.WithAutoRefresh(false))
				if err != nil {
					atomic.AddInt64(&werrs, 1)
					return
				}
			}
			for i := w; atomic.LoadInt32(&stop) == 0; i++ {
				s := specA
				if i%2 == 1 {
					s = specB
				}
				var e error
				if p, _ := hx.Guard(func() { e = cache.WriteSpec(s, name) }); p || e != nil {
					atomic.AddInt64(&werrs, 1)
				}
				atomic.AddInt64(&nwrites, 1)
			}
		}(w)
	}
	var mu sync.Mutex
	seenBytes := map[string]bool{}
	seenSpec := map[string]bool{} // what ReadSpec returned for the target: hash, or ERR
	seenScan := map[string]bool{} // name \x00 code
	reader := func(kind int) {
		defer wg.Done()
		for atomic.LoadInt32(&stop) == 0 {
			switch kind {
			case 0:
				data, err := os.ReadFile(path)
				if err != nil {
					continue
				}
				h := c10BytesHash(data)
				mu.Lock()
				seenBytes[h] = true
				mu.Unlock()
				atomic.AddInt64(&nreads, 1)
			case 1:
				var spec *cdi.Spec
				var err error
				hx.Guard(func() { spec, err = cdi.ReadSpec(path, 0) })
				if err != nil && os.IsNotExist(err) {
					continue
				}
				code := "ERR"
				if err == nil && spec != nil {
					code = c10SpecHash(spec.Spec)
				}
				mu.Lock()
				seenSpec[code] = true
				mu.Unlock()
				atomic.AddInt64(&nreads, 1)
			default:
				for _, e := range c10Scan(dir) {
					mu.Lock()
					seenScan[e.Name+"\x00"+e.Code] = true
					mu.Unlock()
				}
				atomic.AddInt64(&nscans, 1)
			}
		}
	}
	for k := 0; k < 3; k++ {
		wg.Add(1)
		go reader(k)
	}
	time.Sleep(dur)
	atomic.StoreInt32(&stop, 1)
	wg.Wait()
	final, _ := c10Listing(dir)
	for _, e := range final {
		if e.Name == target {
			seenBytes[c10BytesHash(e.Data)] = true
		}
	}
	keys := func(m map[string]bool) []string {
		var out []string
		for k := range m {
			out = append(out, k)
		}
		sort.Strings(out)
		return out
	}
	var scanItems []string
	var scanDesc []string
	for _, k := range keys(seenScan) {
		parts := strings.SplitN(k, "\x00", 2)
		scanItems = append(scanItems, hx.P(hx.S(parts[0]), hx.S(parts[1])))
		scanDesc = append(scanDesc, parts[0]+":"+parts[1])
	}
	var finalSpecNames []string
	for _, e := range final {
		if ext := filepath.Ext(e.Name); ext == ".json" || ext == ".yaml" {
			finalSpecNames = append(finalSpecNames, e.Name)
		}
	}
	allowedBytes := []string{c10BytesHash(bytesA), c10BytesHash(bytesB)}
	allowedSpec := []string{c10SpecHash(specA), c10SpecHash(specB)}
	term := hx.C("CConc", hx.S(target), hx.LS(allowedBytes), hx.LS(allowedSpec), hx.LS(keys(seenBytes)), hx.LS(keys(seenSpec)), hx.L(scanItems),
		hx.LS(finalSpecNames), hx.B(werrs == 0))
	return hx.Case{
		Term: term,
		Desc: map[string]interface{}{"kind": "concurrent readers vs writers", "target": target, "previous_file": prev, "writers": writers, "writers_share_one_cache": sharedCache != nil,
			"writes": nwrites, "file_reads": nreads, "scans": nscans, "write_errors": werrs,
			"allowed_file_hashes(A,B)": allowedBytes, "allowed_spec_hashes(A,B)": allowedSpec,
			"seen_file_hashes": keys(seenBytes), "seen_ReadSpec": keys(seenSpec), "seen_scan": scanDesc, "final_spec_names": finalSpecNames},
		Key:        fmt.Sprintf("conc|%d|%s|%v|%d", idx, name, prev, writers),
		Nontrivial: nwrites > 10 && nreads > 10,
		Class:      "concurrent",
	}, nil
}

// ---------------------------------------------------------------------------------------------
// scanner filter vs the model's is_spec_name
func c10NameCases(scratch string, s *hx.Suite) {
	dir := filepath.Join(scratch, "names")
	_ = os.RemoveAll(dir)
	_ = os.MkdirAll(dir, 0o755)
	names := []string{"a.json", "a.yaml", "a.yml", "a.JSON", "a.Yaml", ".json", ".yaml", "a.json.tmp", "a.yaml.tmp", "spec.123456789.tmp", "spec.1.tmp",
		"spec..tmp", "spec.a.json.tmp", "spec.tmp", "a.json.bak", "a.json~", "tmp", "a.tmp.json", "spec.42.tmp.yaml", "a.b.c.yaml", "json", "a.", "a.jsonx",
		"a json", "a.json ", "x.yaml.swp", ".a.yaml.swp", "é.json", "spec.99.tmp.json.tmp"}
	for _, n := range names {
		writeSpecFile(filepath.Join(dir, n), validSpec("names.org", "n", []string{"d"}, n))
	}
	visited := map[string]bool{}
	for _, e := range c10Scan(dir) {
		visited[e.Name] = true
	}
	for _, n := range names {
		s.Add(hx.Case{
			Term:       hx.C("CName", hx.S(n), hx.B(visited[n])),
			Desc:       map[string]interface{}{"kind": "scanner filter", "file": hx.JS(n), "visited_by_scanSpecDirs": visited[n]},
			Key:        "name|" + n,
			Nontrivial: strings.Contains(n, "tmp") || visited[n],
			Class:      "scanner-filter",
		})
	}
}

// ---------------------------------------------------------------------------------------------
func genC10(r *hx.R, tier string, scratch string) (*hx.Suite, error) {
	s := &hx.Suite{
		Property: "C10",
		Imports:  []string{"Base", "Paths", "AtomicWrite", "Judge10"},
		CaseType: "case10",
		Judge:    "judge10",
		Shard:    40,
		Rule: "child processes calling Cache.WriteSpec on real directories, both encodings, with/without previous file, directory missing, stale temporary files: " +
			"(i) under strace -f: the projected system-call sequence must equal the model program (observed random suffix and chunk sizes) and the " +
			"atomic-publication predicate is evaluated on EVERY prefix of the OBSERVED sequence; (ii) crash at every verifPoint(write:<step>) hook, the parent " +
			"lists the directory and scans it with scanSpecDirs/ReadSpec: equals the model state at that prefix, old-or-new, nothing else loadable; (iii) write failure " +
			"at byte offsets via RLIMIT_FSIZE (SIGXFSZ ignored), each followed by an undisturbed write of a shorter Spec under the same name; rename failure (directory at the target); " +
			"a writer without CAP_DAC_OVERRIDE / CAP_FOWNER in a directory where no file can be created (alone, with a size limit, with every crash request) and in a sticky directory " +
			"where the rename over somebody else's previous version is refused while that file itself is writable; a Spec of several pages (strace, failure beyond 16 KiB, crash); " +
			"half of the failed writes and all the steps of the random histories are followed by the next write of the SAME process on the SAME Cache object (a crashed writer by a new process); " +
			"(iv) ReadFile/ReadSpec/scanSpecDirs readers against two writers alternating two contents; plus the scanner's name filter vs is_spec_name on 29 names",
	}
	self, err := os.Executable()
	if err != nil {
		return nil, err
	}
	if _, err := exec.LookPath("strace"); err != nil {
		return nil, fmt.Errorf("strace not available: %v", err)
	}
	thorough := tier == "thorough"
	c10NameCases(scratch, s)

	names := []string{"vendor.json", "vendor.yaml", "vendor"} // the last gets the default extension
	if thorough {
		names = append(names, "vendor.com-gpu_pod.ctr.json", "a.b.yaml")
	}
	idx := 0
	newDir := func() string {
		idx++
		return filepath.Join(scratch, fmt.Sprintf("d%d", idx), "cdi")
	}
	// one observed write attempt -> one case
	record := func(kind string, run c10Run, fx c10Fix, res c10Result, newData []byte, mk func(res c10Result, wobs string, newData []byte) string) error {
		if run.Strace && res.Trace.Problem != "" {
			return fmt.Errorf("strace: %s", res.Trace.Problem)
		}
		if res.Ret != 0 && res.Ret != 1 && res.Ret != 77 {
			return fmt.Errorf("child failed unexpectedly (status %d): %s", res.Ret, res.Err)
		}
		desc := c10Desc(kind, run, fx, res, len(newData))
		s.Add(hx.Case{
			Term:       mk(res, c10Wobs(run, res, newData), newData),
			Desc:       desc,
			Key:        fmt.Sprintf("%s|%s|%+v|%d|%d|%s|%d|%d", kind, run.Name, fx, run.Limit, run.Hook, run.Tag, run.Ndev, len(s.Cases)),
			Nontrivial: true,
			Class:      kind,
		})
		return nil
	}
	attempt := func(kind string, run c10Run, fx c10Fix, prepare bool, mk func(res c10Result, wobs string, newData []byte) string) (c10Result, error) {
		run.Target = c10TargetOf(run.Name)
		if prepare {
			if err := c10Prepare(run.Dir, run.Name, fx); err != nil {
				return c10Result{}, err
			}
		}
		newData, err := c10Complete(scratch, run.Name, run.Tag, run.Ndev)
		if err != nil {
			return c10Result{}, err
		}
		res := c10Exec(self, scratch, run)
		for try := 0; try < 2 && prepare && run.Strace && res.Trace.Problem != ""; try++ {
			// an uninterpretable trace (strace hiccup): do the whole attempt again
			if err := c10Prepare(run.Dir, run.Name, fx); err != nil {
				return c10Result{}, err
			}
			res = c10Exec(self, scratch, run)
		}
		return res, record(kind, run, fx, res, newData, mk)
	}
	opsTerm := func(tr c10Trace) string {
		items := make([]string, len(tr.Ops))
		for i, o := range tr.Ops {
			items[i] = o.Term
		}
		return hx.L(items)
	}
	// inj: the failure the fixture arranges - InjNone, InjRename (the rename is refused), InjCreate (no file can be created)
	mkTrace := func(limit int64, inj string) func(c10Result, string, []byte) string {
		return func(res c10Result, wobs string, _ []byte) string {
			return hx.C("CTrace", wobs, hx.S(res.Trace.Rnd), c10OptN(limit), inj, opsTerm(res.Trace))
		}
	}
	mkCrash := func(hook int, inj string) func(c10Result, string, []byte) string {
		return func(res c10Result, wobs string, _ []byte) string {
			return hx.C("CCrash", wobs, hx.S(c10RndOf(res)), inj, hx.Nat(hook))
		}
	}
	mkLimit := func(limit int64, inj string) func(c10Result, string, []byte) string {
		return func(res c10Result, wobs string, _ []byte) string {
			return hx.C("CLimit", wobs, hx.S(c10RndOf(res)), c10OptN(limit), inj)
		}
	}
	// the follow-up: an undisturbed write of a SHORTER Spec under the same name into the directory as it was left
	followUp := func(kind string, run c10Run, strace bool) error {
		run2 := run
		run2.Tag, run2.Ndev, run2.Limit, run2.Hook, run2.Strace = "after", 1, -1, 5, strace
		mk := mkLimit(-1, "InjNone")
		if strace {
			mk = mkTrace(-1, "InjNone")
		}
		_, err := attempt(kind, run2, c10Fix{}, false, mk)
		return err
	}

	// ---- a Spec of several pages: undisturbed under strace / write failure beyond 16 KiB and the next write / crash after the write.
	// The model is slow on long byte strings, so the three parts are spread over the stream (different shards).
	bigName := names[r.Intn(2)]
	big := func(part int) error {
		run := c10Run{Dir: newDir(), Name: bigName, Tag: "big", Ndev: c10BigNdev, Limit: -1, Hook: 5}
		newData, err := c10Complete(scratch, bigName, run.Tag, run.Ndev)
		if err != nil {
			return err
		}
		if len(newData) <= 17000 {
			return fmt.Errorf("the big Spec has only %d bytes", len(newData))
		}
		switch part {
		case 0:
			run.Strace = true
			_, err = attempt("strace-big", run, c10Fix{Prev: true, PrevNdev: 2}, true, mkTrace(-1, "InjNone"))
		case 1:
			off := int64(16384 + r.Intn(len(newData)-16384))
			run.Limit = off
			if _, err = attempt("write-failure-big", run, c10Fix{Prev: true, PrevNdev: c10BigNdev - 100}, true, mkLimit(off, "InjNone")); err == nil {
				err = followUp("write-after-failed-write", run, false)
			}
		default:
			run.Hook = 2 + r.Intn(3)
			_, err = attempt("crash-big", run, c10Fix{Prev: true, PrevNdev: 3}, true, mkCrash(run.Hook, "InjNone"))
		}
		return err
	}

	// ---- (i) strace, undisturbed
	for _, name := range names {
		for _, fx := range []c10Fix{{}, {Prev: true, PrevNdev: 2}, {Missing: true}, {Prev: true, PrevNdev: 5, StaleTmp: true}, {Prev: true, PrevNdev: 2, PrevLink: true}} {
			run := c10Run{Dir: newDir(), Name: name, Tag: "new", Ndev: 1 + r.Intn(4), Limit: -1, Hook: 5, Strace: true}
			if _, err := attempt("strace", run, fx, true, mkTrace(-1, "InjNone")); err != nil {
				return nil, err
			}
		}
	}
	if err := big(0); err != nil {
		return nil, err
	}
	// ---- (i)+(iii) strace with a write failure, then the follow-up write under strace
	for _, name := range names[:2] {
		for _, prev := range []bool{false, true} {
			run := c10Run{Dir: newDir(), Name: name, Tag: "new", Ndev: 4, Limit: -1, Hook: 5, Strace: true}
			newData, err := c10Complete(scratch, name, run.Tag, run.Ndev)
			if err != nil {
				return nil, err
			}
			offs := []int64{0, 1, int64(len(newData)) - 1, int64(len(newData)), int64(1 + r.Intn(len(newData)-2))}
			if !thorough {
				offs = []int64{hx.Pick(r, offs[:3]), offs[4]}
			}
			for _, off := range offs {
				run.Dir, run.Limit = newDir(), off
				fx := c10Fix{Prev: prev, PrevNdev: 2, StaleTmp: r.Chance(0.3), PrevLink: prev && r.Chance(0.4)}
				if _, err := attempt("strace-write-failure", run, fx, true, mkTrace(off, "InjNone")); err != nil {
					return nil, err
				}
				if err := followUp("strace-write-after-failed-write", run, true); err != nil {
					return nil, err
				}
			}
		}
	}
	// ---- rename failure: a directory sits at the target
	for _, name := range names[:2] {
		run := c10Run{Dir: newDir(), Name: name, Tag: "new", Ndev: 2, Limit: -1, Hook: 5, Strace: true}
		if _, err := attempt("strace-rename-failure", run, c10Fix{DirTarget: true}, true, mkTrace(-1, "InjRename")); err != nil {
			return nil, err
		}
		for _, hook := range []int{3, 4} {
			run.Dir, run.Strace, run.Hook = newDir(), false, hook
			if _, err := attempt("crash-rename-failure", run, c10Fix{DirTarget: true}, true, mkCrash(hook, "InjRename")); err != nil {
				return nil, err
			}
		}
	}
	// ---- (ii) crash points
	for _, name := range names {
		fixes := []c10Fix{{}, {Prev: true, PrevNdev: 3}, {Prev: true, PrevNdev: 2, PrevLink: true}}
		if thorough {
			fixes = append(fixes, c10Fix{Missing: true}, c10Fix{Prev: true, PrevNdev: 1, StaleTmp: true})
		} else if name != "vendor" {
			fixes = append(fixes, hx.Pick(r, []c10Fix{{Missing: true}, {Prev: true, PrevNdev: 1, StaleTmp: true}}))
		}
		for _, fx := range fixes {
			for hook := 0; hook <= 5; hook++ {
				run := c10Run{Dir: newDir(), Name: name, Tag: "new", Ndev: 1 + r.Intn(4), Limit: -1, Hook: hook}
				if _, err := attempt("crash", run, fx, true, mkCrash(hook, "InjNone")); err != nil {
					return nil, err
				}
				if hook < 4 && (thorough || r.Chance(0.25)) {
					// the next writer finds the leftovers of the crashed one
					if err := followUp("write-after-crash", run, false); err != nil {
						return nil, err
					}
				}
			}
		}
	}
	if err := big(1); err != nil {
		return nil, err
	}
	// ---- (iii) write failure at byte offsets, each followed by an undisturbed shorter write
	for _, name := range names[:2] {
		for _, prev := range []bool{false, true} {
			ndev := 3
			newData, err := c10Complete(scratch, name, "new", ndev)
			if err != nil {
				return nil, err
			}
			var offs []int64
			if thorough {
				for o := 0; o <= len(newData)+1; o++ {
					offs = append(offs, int64(o))
				}
			} else {
				offs = []int64{0, int64(len(newData)) - 1}
				for len(offs) < 14 {
					offs = append(offs, int64(1+r.Intn(len(newData)-1)))
				}
			}
			for _, off := range offs {
				run := c10Run{Dir: newDir(), Name: name, Tag: "new", Ndev: ndev, Limit: off, Hook: 5}
				fx := c10Fix{Prev: prev, PrevNdev: 1 + r.Intn(3), PrevLink: prev && r.Chance(0.4)}
				if r.Chance(0.5) {
					// the failed write and the next, undisturbed and shorter one by the same process on the same Cache object
					run.Target = c10TargetOf(name)
					if err := c10Prepare(run.Dir, name, fx); err != nil {
						return nil, err
					}
					two := c10Session(self, scratch, run.Dir, name, []c10Step{{"new", ndev, off, 5}, {"after", 1, -1, 5}}, false, false)
					if err := record("write-failure", run, fx, two[0], newData, mkLimit(off, "InjNone")); err != nil {
						return nil, err
					}
					run2 := run
					run2.Tag, run2.Ndev, run2.Limit = "after", 1, -1
					afterData, err := c10Complete(scratch, name, "after", 1)
					if err != nil {
						return nil, err
					}
					if err := record("write-after-failed-write-same-cache", run2, fx, two[1], afterData, mkLimit(-1, "InjNone")); err != nil {
						return nil, err
					}
					continue
				}
				if _, err := attempt("write-failure", run, fx, true, mkLimit(off, "InjNone")); err != nil {
					return nil, err
				}
				if thorough && off%3 != 0 {
					continue
				}
				if err := followUp("write-after-failed-write", run, false); err != nil {
					return nil, err
				}
			}
		}
	}
	if err := big(2); err != nil {
		return nil, err
	}
	// ---- the writer obeys permission bits (root without CAP_DAC_OVERRIDE / CAP_FOWNER): no file can be created in the directory,
	// while the previous version itself could be written; alone, together with a file size limit, and with every crash request
	for _, name := range names[:2] {
		fx := c10Fix{Prev: true, PrevNdev: 2, ReadOnlyDir: true}
		run := c10Run{Dir: newDir(), Name: name, Tag: "new", Ndev: 3, Limit: -1, Hook: 5, Strace: true, Drop: true}
		if _, err := attempt("strace-create-failure", run, fx, true, mkTrace(-1, "InjCreate")); err != nil {
			return nil, err
		}
		newData, err := c10Complete(scratch, name, run.Tag, run.Ndev)
		if err != nil {
			return nil, err
		}
		for _, off := range []int64{0, int64(1 + r.Intn(len(newData)-1))} {
			run.Dir, run.Strace, run.Limit = newDir(), false, off
			if _, err := attempt("create-failure", run, fx, true, mkLimit(off, "InjCreate")); err != nil {
				return nil, err
			}
		}
		for _, hook := range []int{0, 1 + r.Intn(4), 5} {
			run.Dir, run.Strace, run.Limit, run.Hook = newDir(), false, -1, hook
			if _, err := attempt("crash-create-failure", run, fx, true, mkCrash(hook, "InjCreate")); err != nil {
				return nil, err
			}
		}
	}
	// ---- ... the rename over the previous version is refused (sticky directory, the previous version is somebody else's)
	// although a temporary file can be created and the previous version itself could be written
	for _, name := range names[:2] {
		fx := c10Fix{Prev: true, PrevNdev: 2, Sticky: true}
		run := c10Run{Dir: newDir(), Name: name, Tag: "new", Ndev: 3, Limit: -1, Hook: 5, Strace: true, Drop: true}
		if _, err := attempt("strace-rename-refused", run, fx, true, mkTrace(-1, "InjRename")); err != nil {
			return nil, err
		}
		for _, hook := range []int{3, 4, 5} {
			run.Dir, run.Strace, run.Hook = newDir(), false, hook
			if _, err := attempt("crash-rename-refused", run, fx, true, mkCrash(hook, "InjRename")); err != nil {
				return nil, err
			}
		}
	}
	// ---- random histories in one directory: undisturbed writes, crashes and write failures of Specs of varying size follow one
	// another; all the steps up to a crash are performed by ONE process on ONE Cache object (a crashed writer is followed by a new one)
	nh, steps := 4, 8
	if thorough {
		nh, steps = 16, 14
	}
	for h := 0; h < nh; h++ {
		name := hx.Pick(r, names)
		dir := newDir()
		fx := c10Fix{Prev: r.Chance(0.5), PrevNdev: 1 + r.Intn(5), StaleTmp: r.Chance(0.3)}
		fx.PrevLink = fx.Prev && r.Chance(0.3)
		if err := c10Prepare(dir, name, fx); err != nil {
			return nil, err
		}
		traced := h%2 == 0
		var hsteps []c10Step
		for st := 0; st < steps; st++ {
			stp := c10Step{Tag: fmt.Sprintf("h%d-%d", h, st), Ndev: 1 + r.Intn(6), Limit: -1, Hook: 5}
			switch r.Intn(4) {
			case 1:
				stp.Hook = r.Intn(5)
			case 2:
				newData, cerr := c10Complete(scratch, name, stp.Tag, stp.Ndev)
				if cerr != nil {
					return nil, cerr
				}
				stp.Limit = int64(r.Intn(len(newData) + 1))
			}
			hsteps = append(hsteps, stp)
		}
		results := c10Session(self, scratch, dir, name, hsteps, traced, false)
		for k, stp := range hsteps {
			run := c10Run{Dir: dir, Name: name, Target: c10TargetOf(name), Tag: stp.Tag, Ndev: stp.Ndev, Limit: stp.Limit, Hook: stp.Hook}
			newData, cerr := c10Complete(scratch, name, stp.Tag, stp.Ndev)
			if cerr != nil {
				return nil, cerr
			}
			res := results[k]
			kind, mk := "history-write", mkLimit(stp.Limit, "InjNone")
			switch {
			case stp.Hook < 5:
				kind, mk = "history-crash", mkCrash(stp.Hook, "InjNone")
			case traced && res.Trace.Problem == "":
				run.Strace = true
				kind, mk = "history-strace", mkTrace(stp.Limit, "InjNone")
			case stp.Limit >= 0:
				kind = "history-write-failure"
			}
			if err := record(kind, run, fx, res, newData, mk); err != nil {
				return nil, err
			}
		}
	}
	// ---- (iv) concurrent readers
	dur := 2500 * time.Millisecond
	rounds := [][2]interface{}{{"vendor.json", true}, {"vendor.yaml", false}, {"vendor", true}}
	if thorough {
		dur = 8 * time.Second
		rounds = append(rounds, [2]interface{}{"vendor.json", false}, [2]interface{}{"vendor.yaml", true})
	}
	for i, rd := range rounds {
		c, err := c10Concurrent(scratch, i, rd[0].(string), rd[1].(bool), 2, dur)
		if err != nil {
			return nil, err
		}
		s.Add(c)
	}
	s.Extra = map[string]interface{}{"x_child_processes": c10Children, "x_directories": idx, "exhaustive": false}
	return s, nil
}
