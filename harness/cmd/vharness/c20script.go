package main

// Hand-picked C20 histories that run first in every tier, whatever the seed: the transitions the property's
// why_tests_cant names (long option histories, on -> off -> on, shortage at a reconfiguration of a cache that had a
// watcher, default cache before/after first use, former directories).

import (
	"fmt"
	"os"
	"path/filepath"
	"strings"
)

type c20Builder struct {
	h       *c20Hist
	pool    []string
	defs    []string
	exists  map[string]bool
	curDirs []string
}

func newC20Builder(kind, root string, existing ...string) *c20Builder {
	b := &c20Builder{h: &c20Hist{kind: kind, root: root, fs0: map[string]map[string]c20File{}}, exists: map[string]bool{}}
	for i := 0; i < 4; i++ {
		b.pool = append(b.pool, filepath.Join(root, fmt.Sprintf("d%d", i)))
	}
	b.defs = []string{filepath.Join(root, "def0"), filepath.Join(root, "def1")}
	b.h.in.Defs = b.defs
	b.h.in.CalibDir = filepath.Join(root, "calib")
	b.h.in.EventLog = filepath.Join(root, "events.log")
	b.curDirs = append([]string{}, b.defs...)
	for _, name := range existing {
		d := filepath.Join(root, name)
		b.exists[d] = true
		// every existing directory starts with one loadable Spec named after it and one file that is not a Spec
		b.h.fs0[d] = map[string]c20File{"a.json": {devs: []string{"a0"}}, "notes.txt": {bad: true}}
	}
	return b
}

func (b *c20Builder) dir(name string) string { return filepath.Join(b.h.root, name) }

// dirs builds a WithSpecDirs option from directory names (relative to the history root, spelled as given).
func (b *c20Builder) dirs(names ...string) c20Opt {
	o := c20Opt{HasDirs: true, Dirs: []string{}}
	b.curDirs = nil
	for _, n := range names {
		o.Dirs = append(o.Dirs, b.h.root+"/"+n)
		b.curDirs = append(b.curDirs, filepath.Clean(b.h.root+"/"+n))
	}
	return o
}

func c20Auto(on bool) c20Opt { return c20Opt{Auto: on} }

func (b *c20Builder) conf(op string, shortage bool, opts ...c20Opt) {
	b.h.in.Steps = append(b.h.in.Steps, c20Step{Op: op, Opts: opts, Shortage: shortage, Observe: true})
	b.h.nconf++
	if shortage {
		b.h.short++
	}
}

func (b *c20Builder) write(dir, name string, observe bool, devs ...string) {
	b.h.in.Steps = append(b.h.in.Steps, c20Step{Op: "write", Dir: b.dir(dir), Name: name, Devs: devs, Bad: len(devs) == 0, Observe: observe})
}

func (b *c20Builder) step(op, dir, name string, observe bool) {
	st := c20Step{Op: op, Observe: observe}
	if dir != "" {
		st.Dir = b.dir(dir)
	}
	st.Name = name
	switch op {
	case "mkdir":
		b.exists[st.Dir] = true
	case "rmdir":
		b.exists[st.Dir] = false
	}
	b.h.in.Steps = append(b.h.in.Steps, st)
}

func (b *c20Builder) finish() *c20Hist {
	seen := map[string]bool{}
	k := 0
	for _, d := range b.curDirs {
		if seen[d] {
			continue
		}
		seen[d] = true
		if !b.exists[d] {
			b.h.in.Steps = append(b.h.in.Steps, c20Step{Op: "mkdir", Dir: d})
			b.exists[d] = true
		}
		b.h.in.Steps = append(b.h.in.Steps, c20Step{Op: "write", Dir: d, Name: fmt.Sprintf("probe%d.json", k), Devs: []string{fmt.Sprintf("probe%d", k)}, Observe: true, Probe: "final"})
		k++
	}
	for _, d := range append(append([]string{}, b.pool...), b.defs...) {
		if seen[d] || !b.exists[d] {
			continue
		}
		b.h.in.Steps = append(b.h.in.Steps, c20Step{Op: "write", Dir: d, Name: fmt.Sprintf("probe%d.json", k), Devs: []string{fmt.Sprintf("probe%d", k)}, Observe: true, Probe: "former"})
		k++
	}
	return b.h
}

// c20Scripted returns the fixed histories; each gets its own root under scratch.
func c20Scripted(scratch string) []*c20Hist {
	var hs []*c20Hist
	root := func() string { return filepath.Join(scratch, fmt.Sprintf("s%d", len(hs))) }

	// 1. on -> off -> (change) -> on during a shortage -> change: the nil-watcher path on a cache that had a watcher
	b := newC20Builder("single", root(), "d0", "d1", "d2")
	b.conf("new", false, b.dirs("d0", "d1"))
	b.conf("configure", false, c20Auto(false))
	b.write("d0", "b.yaml", true, "b0")
	b.conf("configure", true, c20Auto(true))
	b.write("d1", "c.json", true, "c0", "c1")
	b.step("remove", "d0", "a.json", true)
	b.conf("configure", false, c20Auto(true))
	b.write("d1", "c.json", true, "c1")
	hs = append(hs, b.finish())

	// 2. on(d0) -> on(d1) during a shortage -> changes in the new and in the former directory -> on(d0, d1) with descriptors back
	b = newC20Builder("single", root(), "d0", "d1")
	b.conf("new", false, b.dirs("d0/"))
	b.conf("configure", true, b.dirs("d1"))
	b.write("d1", "b.yaml", true, "b0")
	b.write("d0", "c.json", true, "c0")
	b.conf("configure", false, b.dirs("d0", "d1/."))
	b.write("d0", "c.json", true)
	hs = append(hs, b.finish())

	// 3. on -> off with the directories replaced at the same time: nothing may be held, former directories are dead
	b = newC20Builder("single", root(), "d0", "d1", "d2")
	b.conf("new", false, b.dirs("d0", "d1"))
	b.conf("configure", false, c20Auto(false), b.dirs("d2"))
	b.write("d2", "b.yaml", true, "b0")
	b.write("d0", "c.json", true, "c0")
	b.step("refresh", "", "", true)
	b.write("d2", "c.json", true, "c1")
	hs = append(hs, b.finish())

	// 4. forty reconfigurations toggling the mode and rotating the directories, a change and an observation after each
	b = newC20Builder("single", root(), "d0", "d1", "d2", "d3")
	b.conf("new", false, b.dirs("d0"))
	for i := 1; i < 40; i++ {
		switch i % 4 {
		case 0:
			b.conf("configure", false, b.dirs(fmt.Sprintf("d%d", i%3), fmt.Sprintf("d%d/", (i+1)%3)))
		case 1:
			b.conf("configure", false, c20Auto(false))
		case 2:
			b.conf("configure", false, c20Auto(true), b.dirs(fmt.Sprintf("d%d", (i/4)%4)))
		default:
			b.conf("configure", i%8 == 3, b.dirs(fmt.Sprintf("d%d", (i/4+1)%4), "d3"))
		}
		b.write(fmt.Sprintf("d%d", i%4), "b.yaml", true, fmt.Sprintf("b%d", i%2))
	}
	hs = append(hs, b.finish())

	// 5. default cache used first (default directories, one of them missing), configured afterwards, switched off, on again
	b = newC20Builder("default", root(), "def0", "d0", "d1")
	b.conf("dget", false)
	b.write("def0", "b.yaml", true, "b0")
	b.step("mkdir", "def1", "", false)
	b.write("def1", "c.json", true, "c0")
	b.conf("dconfigure", false, b.dirs("d0"))
	b.write("def0", "b.yaml", true, "b1")
	b.conf("dconfigure", false, c20Auto(false))
	b.write("d0", "b.yaml", true, "b0")
	b.conf("dget", false)
	b.conf("dconfigure", true, c20Auto(true), b.dirs("d1", "d0"))
	b.write("d1", "c.json", true, "c1")
	hs = append(hs, b.finish())

	// 6. default cache configured before its first use, during a shortage; later reconfigured through the handle
	b = newC20Builder("default", root(), "d0", "d1")
	b.conf("dconfigure", true, b.dirs("d0", "missing"))
	b.write("d0", "b.yaml", true, "b0")
	b.conf("dget", false)
	b.conf("configure", false, b.dirs("d1"), c20Auto(true))
	b.step("rmdir", "d1", "", true)
	b.step("mkdir", "d1", "", false)
	b.write("d1", "c.json", true, "c0")
	b.conf("dconfigure", false)
	hs = append(hs, b.finish())

	// 6b. the same directories in another order: nothing changes but the precedence (every directory defines a0 in a.json), in
	// automatic and in manual mode, with a directory named twice, with Cache.WriteSpec / RemoveSpec acting on the last one
	b = newC20Builder("single", root(), "d0", "d1", "d2")
	b.conf("new", false, b.dirs("d0", "d1"))
	b.conf("configure", false, b.dirs("d1", "d0"))
	b.write("d0", "b.yaml", true, "b0")
	b.h.in.Steps = append(b.h.in.Steps, c20Step{Op: "writespec", Dir: b.dir("d0"), Name: "c.json", Devs: []string{"c0"}, Observe: true})
	b.conf("configure", false, c20Auto(false))
	b.conf("configure", false, b.dirs("d0", "d1"))
	b.h.in.Steps = append(b.h.in.Steps, c20Step{Op: "writespec", Dir: b.dir("d1"), Name: "c.json", Devs: []string{"c0", "c1"}, Observe: true})
	b.conf("configure", false, b.dirs("d1/", "d0", "d1"))
	b.conf("configure", false, c20Auto(true), b.dirs("d0", "d1", "d2"))
	b.h.in.Steps = append(b.h.in.Steps, c20Step{Op: "others", Others: [][]string{{b.dir("d0")}, {b.dir("d1"), b.dir("d0")}, {b.dir("d2")}, {b.dir("missing")}}, Observe: true})
	b.conf("configure", false, b.dirs("d2", "d1", "d0"))
	b.h.in.Steps = append(b.h.in.Steps, c20Step{Op: "removespec", Dir: b.dir("d0"), Name: "c.json", Observe: true})
	hs = append(hs, b.finish())

	for _, h := range hs {
		h.kind += "-scripted"
	}
	// 7. OUTSIDE the shortage discipline (known finding C20/rescan-during-shortage): an auto cache with a watcher, descriptors
	// run out, a watched file changes (the watcher's rescan finds nothing it can open), descriptors come back: the cache
	// stays empty until the next event although a new cache sees the devices
	b = newC20Builder("single", root(), "d0")
	b.conf("new", false, b.dirs("d0"))
	b.write("d0", "c.json", true, "c0")
	// the change made during the shortage must not itself need a descriptor: unlink
	b.h.in.Steps = append(b.h.in.Steps, c20Step{Op: "remove", Dir: b.dir("d0"), Name: "a.json", Shortage: true, Observe: true})
	h7 := b.finish()
	h7.known = "C20/rescan-during-shortage"
	hs = append(hs, h7)

	// 8. DEFECT-PENDING(straggler-direrrors): a reconfiguration while the watch goroutine of the replaced watcher still holds
	// an event (notes/audit/DEFECT-C20-straggler-direrrors.md)
	if c20PendingStraggler || strings.Contains(","+os.Getenv("VERIF_PENDING")+",", ",straggler-direrrors,") {
		b = newC20Builder("single", root(), "d0", "d1")
		b.conf("new", false, b.dirs("d0"))
		b.write("d0", "b.yaml", true, "b0")
		opt := b.dirs("d0", "later")
		b.h.in.Steps = append(b.h.in.Steps, c20Step{Op: "straggler", Opts: []c20Opt{opt}, Dir: b.dir("d0"), Name: b.dir("later"), Observe: true})
		b.h.nconf++
		b.exists[b.dir("later")] = true
		b.write("later", "c.json", true, "c0")
		b.conf("configure", false, b.dirs("later", "d0"))
		h8 := b.finish()
		h8.kind += "-scripted"
		hs = append(hs, h8)
	}

	return hs
}

// DEFECT-PENDING(straggler-direrrors): off until the integrator has decided between a repair and a known finding
// (VERIF_PENDING=straggler-direrrors switches the history on for one run).
const c20PendingStraggler = true // repaired: D23
