package main

import (
	"encoding/json"
	"reflect"

	oci "github.com/opencontainers/runtime-spec/specs-go"
	"verif/harness/hx"
)

// Gallina terms for CDI.Oci: projection of an OCI runtime spec onto the part container edits can touch,
// everything else as the JSON image of a copy with that part cleared (nil/empty normalised).

func deepCopyOCI(s *oci.Spec) *oci.Spec {
	if s == nil {
		return nil
	}
	data, _ := json.Marshal(s)
	var c oci.Spec
	_ = json.Unmarshal(data, &c)
	return &c
}

func optZ(p *int64) string {
	if p == nil {
		return hx.None
	}
	return hx.Some(hx.Z(*p))
}

func ociHookTerm(h oci.Hook) string {
	to := hx.None
	if h.Timeout != nil {
		to = hx.Some(hx.Z(int64(*h.Timeout)))
	}
	return hx.C("mkOciHook", hx.S(h.Path), hx.LS(h.Args), hx.LS(h.Env), to)
}

func ociHookList(l []oci.Hook) string {
	items := make([]string, len(l))
	for i, h := range l {
		items[i] = ociHookTerm(h)
	}
	return hx.L(items)
}

func ociRest(s *oci.Spec) string {
	c := deepCopyOCI(s)
	if c.Process != nil {
		c.Process.Env = nil
		c.Process.User.AdditionalGids = nil
		c.Process.User.UID = 0
		c.Process.User.GID = 0
		if reflect.DeepEqual(*c.Process, oci.Process{}) {
			c.Process = nil
		}
	}
	for i := range c.Mounts {
		c.Mounts[i] = oci.Mount{}
	}
	c.Mounts = nil
	c.Hooks = nil
	if c.Linux != nil {
		c.Linux.Devices = nil
		c.Linux.IntelRdt = nil
		if c.Linux.Resources != nil {
			c.Linux.Resources.Devices = nil
			if reflect.DeepEqual(*c.Linux.Resources, oci.LinuxResources{}) {
				c.Linux.Resources = nil
			}
		}
		if reflect.DeepEqual(*c.Linux, oci.Linux{}) {
			c.Linux = nil
		}
	}
	data, _ := json.Marshal(c)
	return string(data)
}

func mountRest(m oci.Mount) string {
	if len(m.UIDMappings) == 0 && len(m.GIDMappings) == 0 {
		return ""
	}
	data, _ := json.Marshal(struct {
		U []oci.LinuxIDMapping
		G []oci.LinuxIDMapping
	}{m.UIDMappings, m.GIDMappings})
	return string(data)
}

func ociTerm(s *oci.Spec) string {
	var env []string
	var uid, gid uint32
	var gids []string
	if s.Process != nil {
		env = s.Process.Env
		uid, gid = s.Process.User.UID, s.Process.User.GID
		for _, g := range s.Process.User.AdditionalGids {
			gids = append(gids, hx.ZU(uint64(g)))
		}
	}
	mounts := make([]string, len(s.Mounts))
	for i, m := range s.Mounts {
		mounts[i] = hx.C("mkOciMount", hx.S(m.Destination), hx.S(m.Type), hx.S(m.Source), hx.LS(m.Options), hx.S(mountRest(m)))
	}
	hooks := "empty_hooks"
	if s.Hooks != nil {
		h := s.Hooks
		hooks = hx.C("mkOciHooks", ociHookList(h.Prestart), ociHookList(h.CreateRuntime), ociHookList(h.CreateContainer),
			ociHookList(h.StartContainer), ociHookList(h.Poststart), ociHookList(h.Poststop))
	}
	var devs, rules []string
	rdt := hx.None
	if s.Linux != nil {
		for _, d := range s.Linux.Devices {
			fm := hx.None
			if d.FileMode != nil {
				fm = hx.Some(hx.ZU(uint64(*d.FileMode)))
			}
			devs = append(devs, hx.C("mkOciDev", hx.S(d.Path), hx.S(d.Type), hx.Z(d.Major), hx.Z(d.Minor), fm, optZ32(d.UID), optZ32(d.GID)))
		}
		if s.Linux.Resources != nil {
			for _, r := range s.Linux.Resources.Devices {
				rules = append(rules, hx.C("mkCgRule", hx.B(r.Allow), hx.S(r.Type), optZ(r.Major), optZ(r.Minor), hx.S(r.Access)))
			}
		}
		if r := s.Linux.IntelRdt; r != nil {
			rdt = hx.Some(hx.C("mkRdt", hx.S(r.ClosID), hx.S(r.L3CacheSchema), hx.S(r.MemBwSchema), hx.B(r.EnableCMT), hx.B(r.EnableMBM)))
		}
	}
	return hx.C("mkOci", hx.LS(env), hx.ZU(uint64(uid)), hx.ZU(uint64(gid)), hx.L(gids), hx.L(mounts), hooks, hx.L(devs), hx.L(rules), rdt, hx.S(ociRest(s)))
}

func ociJSON(s *oci.Spec) json.RawMessage {
	b, err := json.Marshal(s)
	if err != nil {
		return json.RawMessage(`"<unmarshalable>"`)
	}
	return b
}
