//go:build race

package main

// built with the race detector (check.py does so for C12: CONF race=True)
const c12RaceEnabled = true
