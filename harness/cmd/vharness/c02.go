package main

import (
	"encoding/json"
	"fmt"
	"os"
	"path/filepath"
	"reflect"
	"sort"
	"strings"

	oci "github.com/opencontainers/runtime-spec/specs-go"
	"golang.org/x/sys/unix"
	"tags.cncf.io/container-device-interface/pkg/cdi"
	specs "tags.cncf.io/container-device-interface/specs-go"
	"verif/harness/hx"
)

func init() {
	registry["C02"] = func(r *hx.R, tier, scratch string) (*hx.Suite, error) { return genInjectSuite(r, tier, scratch, "C02") }
	registry["C04"] = func(r *hx.R, tier, scratch string) (*hx.Suite, error) { return genInjectSuite(r, tier, scratch, "C04") }
	registry["C14"] = func(r *hx.R, tier, scratch string) (*hx.Suite, error) { return genInjectSuite(r, tier, scratch, "C14") }
}

// DEFECT-PENDING(oci-result-aliases-cache): see notes/audit/DEFECT-C14-oci-result-aliases-cache.md.  The OCI spec an
// injection returns shares slices and pointers (hook args / env, mount options, device file mode / uid / gid, hook timeout)
// with the cached Specs: a caller editing ITS OCI spec in place changes the cache.  While false, the harness does not write
// into the OCI spec it got back before it compares the cache image.
const defectPendingOCIAliasesCache = true // repaired: D27

// richHosts: host device nodes that rich Spec edits may refer to (device nodes completed from the host at injection).
var richHosts []hostNode

func hostRichEdits(r *hx.R, e *specs.ContainerEdits) {
	if len(richHosts) == 0 || !r.Chance(0.5) {
		return
	}
	h := hx.Pick(r, richHosts)
	d := &specs.DeviceNode{Path: hx.Pick(r, []string{"/dev/h0", "/dev/h1", "/dev/x0"}), HostPath: h.Path}
	if r.Chance(0.3) {
		d.Type = h.Type
	}
	e.DeviceNodes = append(e.DeviceNodes, d)
}

// remakeHostNodes replaces every host node by one with another type / major / minor.
func remakeHostNodes(r *hx.R, nodes []hostNode) []hostNode {
	out := make([]hostNode, 0, len(nodes))
	for _, n := range nodes {
		if !strings.Contains(n.Path, "/hostdev/") {
			out = append(out, n)
			continue
		}
		_ = os.Remove(n.Path)
		t := hx.Pick(r, []string{"c", "b", "p"})
		mode := map[string]uint32{"c": unix.S_IFCHR, "b": unix.S_IFBLK, "p": unix.S_IFIFO}[t]
		ma, mi := pickDevNum(r)
		if t == "p" {
			ma, mi = 0, 0
		}
		if err := unix.Mknod(n.Path, mode|0o600, int(unix.Mkdev(uint32(ma), uint32(mi)))); err != nil {
			continue
		}
		if !rdevIs(n.Path, ma, mi) {
			_ = os.Remove(n.Path)
			continue
		}
		out = append(out, hostNode{n.Path, t, ma, mi})
	}
	return out
}

// remakeHostNodesVar re-creates what stands at the given host paths: mostly a device node with another type / major /
// minor, now and then nothing at all, a regular file, or a symbolic link to a device (lstat sees a link): the last three
// are "no device node" to the lstat oracle.  Returns the nodes that exist now.
func remakeHostNodesVar(r *hx.R, paths []string) []hostNode {
	var out []hostNode
	for _, p := range paths {
		_ = os.Remove(p)
		x := r.Float64()
		switch {
		case x < 0.10:
			continue
		case x < 0.16:
			_ = os.WriteFile(p, []byte("x"), 0o644)
			continue
		case x < 0.22:
			_ = os.Symlink("/dev/null", p)
			continue
		}
		t := hx.Pick(r, []string{"c", "b", "p"})
		mode := map[string]uint32{"c": unix.S_IFCHR, "b": unix.S_IFBLK, "p": unix.S_IFIFO}[t]
		ma, mi := pickDevNum(r)
		if t == "p" {
			ma, mi = 0, 0
		}
		if err := unix.Mknod(p, mode|0o600, int(unix.Mkdev(uint32(ma), uint32(mi)))); err != nil {
			continue
		}
		if !rdevIs(p, ma, mi) {
			_ = os.Remove(p)
			continue
		}
		out = append(out, hostNode{p, t, ma, mi})
	}
	return out
}

// scribbleOCI writes into everything an OCI spec holds by reference (the caller doing what it likes with ITS spec).
func scribbleOCI(o *oci.Spec) {
	if o == nil {
		return
	}
	str := func(l []string) {
		for i := range l {
			l[i] = "SCRIBBLE=" + l[i]
		}
	}
	hooks := func(l []oci.Hook) {
		for i := range l {
			str(l[i].Args)
			str(l[i].Env)
			if l[i].Timeout != nil {
				*l[i].Timeout += 1000
			}
		}
	}
	if o.Process != nil {
		str(o.Process.Env)
	}
	for i := range o.Mounts {
		str(o.Mounts[i].Options)
	}
	if o.Hooks != nil {
		hooks(o.Hooks.Prestart)
		hooks(o.Hooks.CreateRuntime)
		hooks(o.Hooks.CreateContainer)
		hooks(o.Hooks.StartContainer)
		hooks(o.Hooks.Poststart)
		hooks(o.Hooks.Poststop)
	}
	if o.Linux != nil {
		for i := range o.Linux.Devices {
			d := &o.Linux.Devices[i]
			if d.FileMode != nil {
				*d.FileMode = 0
			}
			if d.UID != nil {
				*d.UID += 4000
			}
			if d.GID != nil {
				*d.GID += 4000
			}
		}
		if o.Linux.IntelRdt != nil {
			o.Linux.IntelRdt.ClosID = "SCRIBBLE"
		}
	}
}

// cacheImage: everything the query API shows of the cached Specs and devices, as one string.
func cacheImage(c *cdi.Cache) string {
	var b strings.Builder
	vendors := c.ListVendors()
	for _, v := range vendors {
		for _, s := range c.GetVendorSpecs(v) {
			j, _ := json.Marshal(s.Spec)
			fmt.Fprintf(&b, "spec %s %d %s\n", s.GetPath(), s.GetPriority(), j)
		}
	}
	for _, n := range c.ListDevices() {
		d := c.GetDevice(n)
		j, _ := json.Marshal(d.Device)
		fmt.Fprintf(&b, "dev %s %s %s\n", n, d.GetSpec().GetPath(), j)
	}
	return b.String()
}

// writeBackOK: every cached Spec can still be written through the library and reads back equal.
func writeBackOK(c *cdi.Cache, dir string) bool {
	_ = os.RemoveAll(dir)
	wc, _ := cdi.NewCache(cdi.WithSpecDirs(dir), cdi.WithAutoRefresh(false))
	i := 0
	for _, v := range c.ListVendors() {
		for _, s := range c.GetVendorSpecs(v) {
			i++
			name := fmt.Sprintf("wb%d%s", i, filepath.Ext(s.GetPath()))
			if err := wc.WriteSpec(s.Spec, name); err != nil {
				return false
			}
			back, err := cdi.ReadSpec(filepath.Join(dir, name), 0)
			if err != nil {
				return false
			}
			a, _ := json.Marshal(s.Spec)
			bb, _ := json.Marshal(back.Spec)
			if string(a) != string(bb) {
				return false
			}
		}
	}
	return true
}

type injStep struct {
	hosts   []hostNode
	init    *oci.Spec
	names   []string
	unres   []string
	outcome int
	after   *oci.Spec
	same    bool
	wb      bool
	argsOK  bool // the slice of names handed to InjectDevices is as it was
}

func (s *injStep) term() string {
	o, o2 := hx.None, hx.None
	if s.init != nil {
		o = hx.Some(ociTerm(s.init))
		o2 = hx.Some(ociTerm(s.after))
	}
	return hx.C("Inj", hostTerm(s.hosts), o, hx.LS(s.names), hx.LS(s.unres), hx.Nat(s.outcome), o2, hx.B(s.same), hx.B(s.wb), hx.B(s.argsOK))
}

func (s *injStep) desc() interface{} {
	m := map[string]interface{}{"request": s.names, "unresolved_returned": s.unres, "outcome": []string{"ok", "error", "PANIC"}[s.outcome],
		"cache_unchanged": s.same, "writeback_ok": s.wb, "request_slice_unchanged": s.argsOK, "host_nodes": s.hosts}
	if s.init != nil {
		m["initial"] = ociJSON(s.init)
		m["result"] = ociJSON(s.after)
	} else {
		m["initial"] = nil
	}
	return m
}

type cornerRequest struct {
	names  []string
	nilOCI bool
}

var cornerAt int

// cornerRequests: request shapes which a random mixture seldom hits: the only miss is the empty string, misses before and
// after a resolvable name, repetitions, the empty request, a nil OCI spec with every kind of request, eight, nine and ten
// misses, blank-padded names.
func cornerRequests(r1, r2 string) []cornerRequest {
	miss := func(n int) []string {
		var l []string
		for i := 0; i < n; i++ {
			l = append(l, fmt.Sprintf("vendor9.com/gpu=m%d", i))
		}
		return l
	}
	return []cornerRequest{
		{names: []string{""}}, {names: []string{r1, ""}}, {names: []string{"", r1}}, {names: []string{" "}}, {names: []string{r1, r1}},
		{names: []string{}}, {names: nil}, {names: []string{r1, "nope", r2}, nilOCI: true}, {names: []string{r1}, nilOCI: true}, {names: nil, nilOCI: true},
		{names: []string{"", ""}, nilOCI: true}, {names: miss(8)}, {names: miss(9)}, {names: append(miss(9), r1)}, {names: append([]string{r1}, miss(10)...)},
		{names: []string{r1, "nope"}}, {names: []string{"nope", r1}}, {names: []string{r1, "nope", r2, "nope"}}, {names: []string{r1 + " "}}, {names: []string{" " + r1, r1}},
		{names: []string{"nope", "nope"}}, {names: []string{r1, r2, r1}}, {names: []string{"\n"}}, {names: []string{r1, "\t"}},
	}
}

// injectVia: the default cache is asked through the package-level function
var injectViaPackage bool

func doInject(c *cdi.Cache, hosts []hostNode, init *oci.Spec, names []string, image0 string, wbDir string, checkWB bool) injStep {
	st := injStep{hosts: hosts, names: names}
	var work *oci.Spec
	if init != nil {
		st.init = deepCopyOCI(init)
		work = deepCopyOCI(init)
	}
	var unres []string
	var err error
	// the implementation gets its own slice: what it does to it is observed, and cannot reach the request as printed
	passed := append(make([]string, 0, len(names)+2), names...)
	p, _ := hx.Guard(func() {
		if injectViaPackage {
			unres, err = cdi.InjectDevices(work, passed...)
		} else {
			unres, err = c.InjectDevices(work, passed...)
		}
	})
	switch {
	case p:
		st.outcome = 2
	case err != nil:
		st.outcome = 1
	}
	st.unres = append([]string(nil), unres...)
	st.argsOK = len(passed) == len(names) && (len(names) == 0 || reflect.DeepEqual(passed, names))
	st.after = work
	if defectPendingOCIAliasesCache && checkWB && work != nil {
		st.after = deepCopyOCI(work)
		scribbleOCI(work)
	}
	if checkWB {
		// C14: applying a cached device's or Spec's edits directly must leave the cache alone as well
		for _, n := range c.ListDevices() {
			if d := c.GetDevice(n); d != nil {
				// into an empty OCI spec and into the populated one of this step (non-zero uid / gid, existing sections)
				target := func() *oci.Spec {
					if init != nil {
						return deepCopyOCI(init)
					}
					return &oci.Spec{}
				}
				_, _ = hx.Guard(func() { _ = d.ApplyEdits(&oci.Spec{}) })
				_, _ = hx.Guard(func() { _ = d.GetSpec().ApplyEdits(&oci.Spec{}) })
				t1, t2 := target(), target()
				_, _ = hx.Guard(func() { _ = d.ApplyEdits(t1) })
				_, _ = hx.Guard(func() { _ = d.GetSpec().ApplyEdits(t2) })
				if defectPendingOCIAliasesCache {
					scribbleOCI(t1)
					scribbleOCI(t2)
				}
			}
		}
	}
	st.same = cacheImage(c) == image0
	st.wb = true
	if checkWB {
		st.wb = writeBackOK(c, wbDir)
	}
	return st
}

func genInjectSuite(r *hx.R, tier, scratch, prop string) (*hx.Suite, error) {
	s := &hx.Suite{Property: prop, Imports: []string{"Base", "SpecModel", "Oci", "Apply", "Cache", "InjectSpec", "Judge02"}, CaseType: "case02", Judge: "judge02", Shard: 40}
	switch prop {
	case "C02":
		s.Rule = "caches of 1-4 Spec directories with 0-4 entries each (spec-level and device edits of every kind: env, hooks, mounts, device nodes incl. nodes completed from real host nodes), shadowing and conflicts; random initial OCI specs; requests = ordered selections of distinct resolvable devices interleaving files, handed over as a copy whose integrity is observed; caches of their own (manual / automatic refresh) and the default cache through the package-level functions; non-trivial = at least two devices requested, of which two resolve to the same file or two to different files"
	case "C04":
		s.Rule = "same caches; requests mixing resolvable names with unknown, malformed, shadowed and conflict-removed names, with repetitions, near misses of resolvable names (case, blanks, one character more or less), on non-empty OCI specs and on a nil OCI spec, plus 24 corner requests taken in turn (the only miss is the empty string, 8 / 9 / 10 misses, nil OCI spec with each kind of request, the empty request ...); non-trivial = the request contains a resolvable and an unresolvable name"
	default:
		s.Rule = "same caches; histories of 2-5 injections of one request into equal OCI specs with the host device nodes re-created (other type/major/minor, or gone, or a regular file, or a symbolic link) between some of them, the Spec files changed behind the cache's back or re-read unchanged; the cached Specs and devices are compared (JSON image through the query API) with those before the first injection and every cached Spec is written back through the library and read back; non-trivial = some injected device node takes attributes from a host node"
	}
	devDir := filepath.Join(scratch, "hostdev")
	hosts, mknodOK := makeHostNodes(r, devDir)
	richHosts = hosts
	defer func() { richHosts = nil }()
	n := 240
	if prop == "C14" {
		n = 180 // histories: several injections, images and write-backs per case
	}
	if tier == "thorough" {
		n = 1600
	}
	pool := allPoolNames()
	junk := []string{"", "a", "/x=y", "v/c", "vendor1.com/gpu", "vendor1.com/gpu=", "=dev1", "vendor1.com/gpu=none", "vendor9.com/gpu=dev1", "a/b=c",
		// spellings close to a name that may resolve: another case, something appended, a doubled separator, the bare device
		// name, two names in one, a pattern
		"VENDOR1.COM/GPU=DEV1", "Vendor1.com/gpu=dev1", "vendor1.com/gpu=Dev1", "vendor1.com/gpu=dev1=x", "vendor1.com//gpu=dev1", "vendor1.com/gpu==dev1",
		"vendor1.com/gpu=dev1\x00", "dev1", "vendor1.com/gpu=dev1,vendor1.com/gpu=dev2", "vendor1.com/gpu=*", "vendor1.com/gpu=dev1/", "./vendor1.com/gpu=dev1",
		"vendor1.com/gpu=dev", "vendor1.com/gpu=dev11", "endor1.com/gpu=dev1"}
	var hostPaths []string
	for _, h := range hosts {
		if strings.Contains(h.Path, "/hostdev/") {
			hostPaths = append(hostPaths, h.Path)
		}
	}
	fsopts := fsOpts{rich: true}
	creators := []string{"NewCache(WithSpecDirs(dirs), WithAutoRefresh(false)), Cache.InjectDevices", "NewCache(..., WithAutoRefresh(true)), Cache.InjectDevices",
		"the default cache: cdi.Configure(WithSpecDirs(dirs), WithAutoRefresh(false)), cdi.InjectDevices"}
	for i := 0; i < n; i++ {
		root := filepath.Join(scratch, fmt.Sprintf("c%d", i))
		fs := genFS(r, root, fsopts)
		fs.materialise()
		// entry points: a cache of its own in manual mode, one in automatic mode (nothing changes on disk while it is used:
		// not in C14, whose histories change the files behind the cache's back), the default cache through the package
		how := 0
		switch {
		case i%5 == 3 && prop != "C14":
			how = 1
		case i%5 == 4:
			how = 2
		}
		var cache *cdi.Cache
		switch how {
		case 1:
			cache, _ = cdi.NewCache(cdi.WithAutoRefresh(true), cdi.WithSpecDirs(fs.dirList()...))
		case 2:
			_ = cdi.Configure(cdi.WithSpecDirs(fs.dirList()...), cdi.WithAutoRefresh(false))
			cache = cdi.GetDefaultCache()
		default:
			cache, _ = cdi.NewCache(cdi.WithSpecDirs(fs.dirList()...), cdi.WithAutoRefresh(false))
		}
		injectViaPackage = how == 2
		cleanup := func() {
			if how == 1 {
				_ = cache.Configure(cdi.WithAutoRefresh(false))
			}
			injectViaPackage = false
		}
		resolvable := cache.ListDevices()
		image0 := cacheImage(cache)
		fsTerm, fsDesc := fs.term(), fs.desc() // the directories as the cache has read them
		var diskHistory []string
		var steps []injStep
		nontrivial := false
		switch prop {
		case "C02":
			if len(resolvable) == 0 {
				cleanup()
				continue
			}
			perm := r.Perm(len(resolvable))
			k := 1 + r.Intn(len(resolvable))
			var names []string
			for _, j := range perm[:k] {
				names = append(names, resolvable[j])
			}
			init := randOCI(r, hosts, false)
			steps = append(steps, doInject(cache, hosts, init, names, image0, "", false))
			nontrivial = len(names) >= 2
		case "C04":
			var names []string
			k := 1 + r.Intn(6)
			if r.Chance(0.04) {
				k = 0 // the empty request: nothing to resolve, nothing to apply
			}
			if r.Chance(0.15) {
				k = 9 + r.Intn(32) // long requests: many misses in one call
			}
			hasRes, hasUnres := false, false
			rs := map[string]bool{}
			for _, x := range resolvable {
				rs[x] = true
			}
			for j := 0; j < k; j++ {
				var x string
				switch {
				case len(resolvable) > 0 && r.Chance(0.45):
					x = hx.Pick(r, resolvable)
				case r.Chance(0.6):
					x = hx.Pick(r, pool)
				default:
					x = hx.Pick(r, junk)
				}
				if len(names) > 0 && r.Chance(0.15) {
					x = hx.Pick(r, names) // repetition
				}
				if r.Chance(0.12) {
					// blank-padded spellings (of resolvable names too): not the name itself, hence a miss, returned verbatim
					x = hx.Pick(r, []string{" ", "\t", "\n", ""}) + x + hx.Pick(r, []string{" ", "\n", "\t", " \n"})
				}
				names = append(names, x)
				if rs[x] {
					hasRes = true
				} else {
					hasUnres = true
				}
			}
			var init *oci.Spec
			if !r.Chance(0.1) {
				init = randOCI(r, hosts, false)
			}
			steps = append(steps, doInject(cache, hosts, init, names, image0, "", false))
			nontrivial = hasRes && hasUnres
			if len(resolvable) > 0 {
				// requests of particular shapes, in turn, on every cache which resolves something
				corners := cornerRequests(hx.Pick(r, resolvable), hx.Pick(r, resolvable))
				for j := 0; j < 2; j++ {
					c := corners[cornerAt%len(corners)]
					cornerAt++
					var o *oci.Spec
					if !c.nilOCI {
						o = randOCI(r, hosts, false)
					}
					steps = append(steps, doInject(cache, hosts, o, c.names, image0, "", false))
				}
			}
		default: // C14
			if len(resolvable) == 0 {
				cleanup()
				continue
			}
			perm := r.Perm(len(resolvable))
			k := 1 + r.Intn(len(resolvable))
			var names []string
			for _, j := range perm[:k] {
				names = append(names, resolvable[j])
			}
			init := randOCI(r, hosts, false)
			cur := hosts
			nsteps := 2 + r.Intn(4)
			wbDir := filepath.Join(scratch, fmt.Sprintf("wb%d", i))
			varyRequest := r.Chance(0.5)
			diskChange := r.Chance(0.5)
			for j := 0; j < nsteps; j++ {
				if j > 0 && r.Chance(0.6) && mknodOK {
					cur = remakeHostNodesVar(r, hostPaths)
				}
				if j == 1 && diskChange {
					// the Spec files change on disk and nobody refreshes this manual-mode cache: it keeps answering from what it
					// has read, also after a request that fails on a device it does not know
					for k, n := 0, 1+r.Intn(3); k < n; k++ {
						diskHistory = append(diskHistory, fs.mutate(r, fsopts))
					}
					miss := append(append([]string{}, names...), hx.Pick(r, append(append([]string{}, pool...), "vendor9.com/gpu=dev1", "vendor1.com/gpu=none")))
					if r.Chance(0.5) {
						miss = miss[len(miss)-1:]
					}
					steps = append(steps, doInject(cache, cur, init, miss, image0, "", false))
				}
				if !diskChange && j > 0 && r.Chance(0.2) {
					// the same files read again: other objects, the same content
					_ = cache.Refresh()
				}
				req := names
				if varyRequest && j > 0 {
					// another selection on the same cache: nothing of an earlier injection may leak into this one
					perm2 := r.Perm(len(resolvable))
					req = nil
					for _, q := range perm2[:1+r.Intn(len(resolvable))] {
						req = append(req, resolvable[q])
					}
				}
				steps = append(steps, doInject(cache, cur, init, req, image0, wbDir, j == nsteps-1 || r.Chance(0.3)))
			}
			if len(cur) == 0 && mknodOK {
				cur = remakeHostNodesVar(r, hostPaths)
			}
			hosts = cur
			richHosts = cur
			for _, v := range cache.ListVendors() {
				for _, sp := range cache.GetVendorSpecs(v) {
					for _, e := range append([]*specs.ContainerEdits{&sp.ContainerEdits}, devEdits(sp.Spec)...) {
						for _, dn := range e.DeviceNodes {
							if dn != nil && dn.HostPath != "" {
								nontrivial = true
							}
						}
					}
				}
			}
		}
		terms := make([]string, len(steps))
		descs := make([]interface{}, len(steps))
		for j := range steps {
			terms[j] = steps[j].term()
			descs[j] = steps[j].desc()
		}
		sort.Strings(resolvable)
		cleanup()
		s.Add(hx.Case{Term: hx.C("Case02", fsTerm, hx.L(terms)),
			Desc:       map[string]interface{}{"dirs": fsDesc, "resolvable": resolvable, "steps": descs, "changes_on_disk_after_the_first_step_without_refresh": diskHistory, "cache": creators[how]},
			Class:      prop + "-random",
			Nontrivial: nontrivial})
	}
	s.Extra = map[string]interface{}{"x_mknod_available": mknodOK}
	return s, nil
}

func devEdits(s *specs.Spec) []*specs.ContainerEdits {
	var out []*specs.ContainerEdits
	for i := range s.Devices {
		out = append(out, &s.Devices[i].ContainerEdits)
	}
	return out
}
