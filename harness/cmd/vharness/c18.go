package main

// C18 — every Spec the library accepts also passes the builtin schema.
// Random library-valid Specs with the numeric extremes of every integer field, through schema.Validate, Cache.WriteSpec
// and cdi.ReadSpec with and without cdi.SetSpecValidator(schema.BuiltinSchema()), and ValidateFile / ValidateData on
// the files the library wrote; plus Specs outside the property's proviso (hook timeouts below 0 or above 2^32-1) and
// Specs the library rejects, for the correspondence only.

import (
	"encoding/json"
	"fmt"
	"math"
	"os"
	"path/filepath"
	"strings"

	"tags.cncf.io/container-device-interface/pkg/cdi"
	"tags.cncf.io/container-device-interface/schema"
	specs "tags.cncf.io/container-device-interface/specs-go"
	"verif/harness/hx"
)

func init() { registry["C18"] = genC18 }

var safeStrings18 = []string{"x", "/dev/x", "/usr/bin/hook", "value", "a-b_c.d", "0", "ro", "bind", "L3:0=ffff", "MB:0=50", "/a/b/c", "A", "é", "x y", "1.5", "true"}

// strings no rule of the library restricts in the free-form positions, which a stricter schema (a pattern, an enumeration, a
// length bound, a format) or an unquoted YAML spelling would trip over
var oddStrings18 = []string{"", " ", "  lead", "trail ", "UPPER", "0x1F", "1e3", "12:30", "2001-12-14", "null", "~", "yes", "no", "-", "--", ".", "..", "a\nb", "tab\there",
	"relative/path", "./x", "../x", "//", "C:\\dir", "日本語", "\U0001F600", "a=b", "k: v", "# c", "[x]", "{x}", "'q'", "\"q\"", "%41", "a+b", "a#b", "a?b", "*", "&a", "!t", "|", ">",
	"@x", "`x`", strings.Repeat("long", 70), strings.Repeat("/very/long/path", 40)}

// wide18 is set while the C18 generator runs: C17 borrows randLibValidSpec for its valid documents and keeps the plain strings and short lists
var wide18 bool

func randStr18(r *hx.R) string {
	if wide18 && r.Chance(0.3) {
		return hx.Pick(r, oddStrings18)
	}
	return hx.Pick(r, safeStrings18)
}

// nonEmpty18: a string for a position the library wants non-empty
func nonEmpty18(r *hx.R, usual []string) string {
	if !wide18 || r.Chance(0.7) {
		return hx.Pick(r, usual)
	}
	for {
		if x := hx.Pick(r, oddStrings18); x != "" {
			return x
		}
	}
}

// listLen18: mostly 0..2, now and then up to 6 (a bound on the number of items shows only then)
func listLen18(r *hx.R) int {
	if wide18 && r.Chance(0.1) {
		return 3 + r.Intn(4)
	}
	return r.Intn(3)
}

func extremeI64(r *hx.R) int64 {
	return hx.Pick(r, []int64{math.MinInt64, math.MinInt64 + 1, -1, 0, 1, 255, math.MaxInt32, math.MaxUint32, math.MaxUint32 + 1,
		1 << 53, 1<<53 + 1, math.MaxInt64 - 1, math.MaxInt64, math.MaxInt64 - 512, math.MinInt64 + 512, 9007199254740993})
}

func extremeU32(r *hx.R) uint32 {
	return hx.Pick(r, []uint32{0, 1, 0o777, 65535, 65536, math.MaxInt32, math.MaxInt32 + 1, math.MaxUint32 - 1, math.MaxUint32})
}

func randEnv18(r *hx.R) []string {
	n := listLen18(r)
	var out []string
	for i := 0; i < n; i++ {
		if wide18 && r.Chance(0.25) {
			out = append(out, nonEmpty18(r, []string{"N"})+"="+randStr18(r))
			if strings.HasPrefix(out[len(out)-1], "=") {
				out[len(out)-1] = "E" + out[len(out)-1]
			}
			continue
		}
		out = append(out, hx.Pick(r, []string{"A=b", "PATH=/bin:/usr/bin", "X=", "K=v=w", "é=1", "A_B=c d"}))
	}
	if wide18 && len(out) > 0 && r.Chance(0.2) { // the same entry twice
		out = append(out, out[0])
	}
	return out
}

func randAnnots18(r *hx.R) map[string]string {
	if r.Chance(0.5) {
		return nil
	}
	m := map[string]string{}
	for i := r.Intn(3) + 1; i > 0; i-- {
		m[hx.Pick(r, []string{"vendor.com/note", "plain", "a.b/c", "x_y-z.w", "K8S.io/Name", "UPPER", "n0", "example.com/" + strings.Repeat("n", 63),
			"0", "1e3", "true", "null", "y", "0x1F", "12-30", "a", "Z", strings.Repeat("p", 63) + "." + strings.Repeat("q", 63) + "/" + strings.Repeat("N", 63)})] = randStr18(r)
	}
	return m
}

func randEdits18(r *hx.R, extremes bool, nonEmpty bool) specs.ContainerEdits {
	var e specs.ContainerEdits
	i64 := func() int64 {
		if extremes {
			return extremeI64(r)
		}
		return int64(r.Intn(300))
	}
	u32 := func() uint32 {
		if extremes {
			return extremeU32(r)
		}
		return uint32(r.Intn(70000))
	}
	e.Env = randEnv18(r)
	for i := listLen18(r); i > 0; i-- {
		dn := &specs.DeviceNode{Path: nonEmpty18(r, []string{"/dev/x", "/dev/y", "x", "/dev/é"})}
		if r.Chance(0.5) {
			dn.HostPath = "/dev/host"
			if wide18 && r.Chance(0.3) {
				dn.HostPath = randStr18(r)
			}
		}
		dn.Type = hx.Pick(r, []string{"", "b", "c", "u", "p"})
		if r.Chance(0.7) {
			dn.Major, dn.Minor = i64(), i64()
		}
		if r.Chance(0.5) {
			dn.FileMode = fmp(os.FileMode(u32()))
		}
		dn.Permissions = hx.Pick(r, []string{"", "r", "rw", "rwm", "mrw", "rr", "w", "m", "rwmr", "mmmmmmmm", "wr"})
		if r.Chance(0.5) {
			dn.UID = u32p(u32())
		}
		if r.Chance(0.5) {
			dn.GID = u32p(u32())
		}
		e.DeviceNodes = append(e.DeviceNodes, dn)
	}
	if wide18 && len(e.DeviceNodes) > 0 && r.Chance(0.15) { // the same node twice (equal values, and the same pointer)
		cp := *e.DeviceNodes[0]
		e.DeviceNodes = append(e.DeviceNodes, &cp, e.DeviceNodes[0])
	}
	for i := listLen18(r); i > 0; i-- {
		h := &specs.Hook{HookName: hx.Pick(r, []string{"prestart", "createRuntime", "createContainer", "startContainer", "poststart", "poststop"}),
			Path: nonEmpty18(r, []string{"/bin/hook", "hook", "/usr/bin/é"})}
		for j := listLen18(r); j > 0; j-- {
			h.Args = append(h.Args, hx.Pick(r, []string{"hook", "--flag", "", "a b", "hook", randStr18(r)}))
		}
		h.Env = randEnv18(r)
		if r.Chance(0.6) {
			if extremes {
				h.Timeout = intp(hx.Pick(r, []int{0, 1, 30, math.MaxInt32, math.MaxInt32 + 1, math.MaxUint32 - 1, math.MaxUint32}))
			} else {
				h.Timeout = intp(r.Intn(100))
			}
		}
		e.Hooks = append(e.Hooks, h)
	}
	if wide18 && len(e.Hooks) > 0 && r.Chance(0.15) {
		cp := *e.Hooks[0]
		e.Hooks = append(e.Hooks, &cp)
	}
	for i := listLen18(r); i > 0; i-- {
		m := &specs.Mount{HostPath: nonEmpty18(r, []string{"/host", "/h/é", "h"}), ContainerPath: nonEmpty18(r, []string{"/ctr", "/c/d", "c"})}
		for j := listLen18(r); j > 0; j-- {
			m.Options = append(m.Options, hx.Pick(r, []string{"ro", "rbind", "nosuid", "", "ro", randStr18(r)}))
		}
		if r.Chance(0.5) {
			m.Type = hx.Pick(r, []string{"bind", "tmpfs", "none", "Bind", randStr18(r)})
		}
		e.Mounts = append(e.Mounts, m)
	}
	if wide18 && len(e.Mounts) > 0 && r.Chance(0.15) {
		cp := *e.Mounts[0]
		e.Mounts = append(e.Mounts, &cp)
	}
	if r.Chance(0.3) {
		e.IntelRdt = &specs.IntelRdt{}
		if r.Chance(0.7) {
			e.IntelRdt.ClosID = hx.Pick(r, []string{"clos", "a.b", "x-1", "...", " ", "C L O S", "0", "true", "日本", strings.Repeat("c", 4095)})
		}
		if r.Chance(0.5) {
			e.IntelRdt.L3CacheSchema = hx.Pick(r, []string{"L3:0=ffff", "L3:0=ffff", randStr18(r)})
		}
		if r.Chance(0.5) {
			e.IntelRdt.MemBwSchema = hx.Pick(r, []string{"MB:0=50", "MB:0=50", randStr18(r)})
		}
		e.IntelRdt.EnableCMT, e.IntelRdt.EnableMBM = r.Chance(0.5), r.Chance(0.5)
	}
	for i := listLen18(r); i > 0; i-- {
		e.AdditionalGIDs = append(e.AdditionalGIDs, u32())
	}
	if nonEmpty && len(e.Env) == 0 && len(e.DeviceNodes) == 0 && len(e.Hooks) == 0 && len(e.Mounts) == 0 && e.IntelRdt == nil && len(e.AdditionalGIDs) == 0 {
		e.Env = []string{"A=b"}
	}
	return e
}

// randLibValidSpec generates a Spec the library accepts; with extremes the integer fields take boundary values of their Go types
// (hook timeouts stay within 0..2^32-1, the proviso of C18).
func randLibValidSpec(r *hx.R, extremes bool) *specs.Spec {
	s := &specs.Spec{Version: specs.CurrentVersion, Kind: hx.Pick(r, []string{"vendor.com/class", "v.io/c", "example.org/gpu-device", "a1.b2/c_d",
		"v/c", "V/C", "Vendor.COM/Class", "a-b_c.d/e-f_g.h", "x0/y1", "yes/no", "e1/e3"})}
	s.Annotations = randAnnots18(r)
	n := 1 + r.Intn(3)
	if wide18 && r.Chance(0.05) {
		n = 4 + r.Intn(6)
	}
	for i := 0; i < n; i++ {
		// names: also spellings a YAML reader takes for numbers when they are not quoted (1e0, 0x1, 12:30, 00)
		s.Devices = append(s.Devices, specs.Device{Name: fmt.Sprintf("%s%d", hx.Pick(r, []string{"dev", "gpu", "0", "a.b:c-", "GPU", "1e", "0x", "12:3", "1_", "y", "a_b-"}), i),
			Annotations: randAnnots18(r), ContainerEdits: randEdits18(r, extremes, true)})
	}
	if r.Chance(0.6) {
		s.ContainerEdits = randEdits18(r, extremes, false)
	}
	// any released version from the one the features used require upward, with or without the leading v
	if v, err := specs.MinimumRequiredVersion(s); wide18 && err == nil && r.Chance(0.6) {
		s.Version = hx.Pick(r, atLeast05(v))
		if r.Chance(0.3) {
			s.Version = "v" + s.Version
		}
	}
	return s
}

func code18(f func() error) int {
	var err error
	p, _ := hx.Guard(func() { err = f() })
	switch {
	case p:
		return 2
	case err != nil:
		return 1
	}
	return 0
}

var obsNames18 = []string{"BuiltinSchema().Validate(spec)", "WriteSpec(x.json) without validator", "WriteSpec(x.yaml) without validator",
	"WriteSpec(x.json) with SetSpecValidator(builtin)", "WriteSpec(x.yaml) with SetSpecValidator(builtin)", "ValidateFile(written x.json)",
	"ValidateFile(written x.yaml)", "ValidateData(bytes of x.json)", "ValidateData(bytes of x.yaml)", "ReadSpec(x.json) without validator",
	"ReadSpec(x.yaml) without validator", "ReadSpec(x.json) with validator", "ReadSpec(x.yaml) with validator"}

var stats18 = map[string]int{}

func c18Case(sp *specs.Spec, class string, scratch string, n int, nontrivial bool) hx.Case {
	builtin := schema.BuiltinSchema()
	dir := filepath.Join(scratch, fmt.Sprintf("c18-%d", n%8))
	_ = os.RemoveAll(dir)
	_ = os.MkdirAll(dir, 0o755)
	cache, _ := cdi.NewCache(cdi.WithSpecDirs(dir), cdi.WithAutoRefresh(false))
	obs := make([]int, 13)
	for i := range obs {
		obs[i] = 3
	}
	cdi.SetSpecValidator(nil)
	obs[0] = code18(func() error { return builtin.Validate(sp) })
	obs[1] = code18(func() error { return cache.WriteSpec(sp, "plain.json") })
	obs[2] = code18(func() error { return cache.WriteSpec(sp, "plain.yaml") })
	cdi.SetSpecValidator(builtin)
	obs[3] = code18(func() error { return cache.WriteSpec(sp, "checked.json") })
	obs[4] = code18(func() error { return cache.WriteSpec(sp, "checked.yaml") })
	cdi.SetSpecValidator(nil)
	pj, py := filepath.Join(dir, "plain.json"), filepath.Join(dir, "plain.yaml")
	if obs[1] == 0 {
		obs[5] = code18(func() error { return builtin.ValidateFile(pj) })
		if data, err := os.ReadFile(pj); err == nil {
			obs[7] = code18(func() error { return builtin.ValidateData(data) })
		}
		obs[9] = code18(func() error { _, err := cdi.ReadSpec(pj, 0); return err })
		cdi.SetSpecValidator(builtin)
		obs[11] = code18(func() error { _, err := cdi.ReadSpec(pj, 0); return err })
		cdi.SetSpecValidator(nil)
	}
	if obs[2] == 0 {
		obs[6] = code18(func() error { return builtin.ValidateFile(py) })
		if data, err := os.ReadFile(py); err == nil {
			obs[8] = code18(func() error { return builtin.ValidateData(data) })
		}
		obs[10] = code18(func() error { _, err := cdi.ReadSpec(py, 0); return err })
		cdi.SetSpecValidator(builtin)
		obs[12] = code18(func() error { _, err := cdi.ReadSpec(py, 0); return err })
		cdi.SetSpecValidator(nil)
	}
	if obs[1] == 0 {
		stats18["library accepts (WriteSpec without validator)"]++
		all := true
		for _, o := range obs {
			all = all && o == 0
		}
		if all {
			stats18["library accepts and every schema route accepts"]++
		}
	} else {
		stats18["library rejects"]++
	}
	if obs[0] == 0 {
		stats18["schema accepts the in-memory Spec"]++
	} else {
		stats18["schema rejects the in-memory Spec"]++
	}
	img, _ := json.Marshal(sp)
	imgDoc, err := docFromJSON(img)
	imgTerm := "DNull"
	if err == nil {
		imgTerm = imgDoc.Term()
	}
	items := make([]string, len(obs))
	verdicts := map[string]string{}
	for i, o := range obs {
		items[i] = hx.Nat(o)
		verdicts[obsNames18[i]] = verdictNames17[o]
	}
	return hx.Case{
		Term:       chunkLiterals(hx.C("C18", specTerm(sp), imgTerm, hx.L(items))),
		Desc:       map[string]interface{}{"spec": specJSON(sp), "verdicts": verdicts},
		Class:      class,
		Nontrivial: nontrivial,
	}
}

func genC18(r *hx.R, tier string, scratch string) (*hx.Suite, error) {
	s := &hx.Suite{
		Property: "C18",
		Imports:  []string{"Base", "SpecModel", "Doc", "Schema", "SchemaInst", "Judge18"},
		CaseType: "case18",
		Judge:    "judge18",
		Shard:    40,
		Rule: "random library-valid Specs (1-3 devices; every optional member present or absent; annotations; env, device nodes, hooks, mounts, intelRdt, " +
			"additionalGids at device and Spec level), half of them with the boundary values of every integer field (major/minor at the int64 extremes and around " +
			"2^53, fileMode/uid/gid/additionalGids at the uint32 extremes, hook timeouts at 0 and 2^32-1), through BuiltinSchema().Validate, Cache.WriteSpec and " +
			"cdi.ReadSpec with and without cdi.SetSpecValidator(schema.BuiltinSchema()) for .json and .yaml, ValidateFile and ValidateData on the written files; " +
			"json.Marshal(spec) compared with the model encoder. Also Specs outside the proviso (timeout -1, 2^32, max int) and Specs the library rejects " +
			"(no devices, null list entries, empty device edits), for the correspondence. Non-trivial: the Spec has a member beyond the required ones.",
	}
	defer cdi.SetSpecValidator(nil)
	wide18 = true
	defer func() { wide18 = false }()
	n := 0
	add := func(sp *specs.Spec, class string, nontrivial bool) {
		n++
		s.Add(c18Case(sp, class, scratch, n, nontrivial))
	}
	// fixed witnesses first
	full := fullSpec17()
	add(full, "full", true)
	ext := fullSpec17()
	dn := ext.Devices[0].ContainerEdits.DeviceNodes[0]
	dn.Major, dn.Minor = math.MaxInt64, math.MinInt64
	dn.FileMode, dn.UID, dn.GID = fmp(os.FileMode(math.MaxUint32)), u32p(math.MaxUint32), u32p(0)
	ext.Devices[0].ContainerEdits.Hooks[0].Timeout = intp(math.MaxUint32)
	ext.Devices[0].ContainerEdits.AdditionalGIDs = []uint32{0, math.MaxUint32}
	add(ext, "extremes", true)
	// strings the YAML encoder cannot write readably as block scalars (they span several lines and begin with white space):
	// the library must still write a file its readers load (repaired defect D29)
	for _, str := range []string{"  lead=a\nb", "X=\nx", "T=\ta\nb\n", "N= \n"} {
		sp := fullSpec17()
		sp.Devices[0].ContainerEdits.Env = append(sp.Devices[0].ContainerEdits.Env, str)
		sp.Devices[0].ContainerEdits.Hooks[0].Args = append(sp.Devices[0].ContainerEdits.Hooks[0].Args, str[strings.Index(str, "=")+1:])
		add(sp, "multi-line-strings-with-leading-white-space", true)
	}
	minimal := &specs.Spec{Version: specs.CurrentVersion, Kind: "vendor.com/class",
		Devices: []specs.Device{{Name: "d", ContainerEdits: specs.ContainerEdits{Env: []string{"A=b"}}}}}
	add(minimal, "minimal", false)
	// outside the proviso: the library accepts, the schema does not
	for _, t := range []int{-1, math.MinInt64, math.MaxUint32 + 1, math.MaxInt64} {
		sp := fullSpec17()
		sp.Devices[0].ContainerEdits.Hooks[0].Timeout = intp(t)
		add(sp, "timeout-outside-proviso", true)
		sp2 := fullSpec17()
		sp2.ContainerEdits.Hooks[0].Timeout = intp(t)
		add(sp2, "timeout-outside-proviso", true)
	}
	// rejected by the library
	{
		sp := fullSpec17()
		sp.Devices = nil
		add(sp, "library-rejects", true)
		sp = fullSpec17()
		sp.Devices[0].ContainerEdits.DeviceNodes = append(sp.Devices[0].ContainerEdits.DeviceNodes, nil)
		add(sp, "library-rejects", true)
		sp = fullSpec17()
		sp.Devices[0].ContainerEdits.Hooks = []*specs.Hook{nil}
		add(sp, "library-rejects", true)
		sp = fullSpec17()
		sp.ContainerEdits.Mounts = []*specs.Mount{nil}
		add(sp, "library-rejects", true)
		sp = fullSpec17()
		sp.Devices[0].ContainerEdits = specs.ContainerEdits{}
		add(sp, "library-rejects", true)
		sp = fullSpec17()
		sp.Annotations = map[string]string{"bad key": "v"}
		add(sp, "library-rejects", true)
		sp = fullSpec17()
		sp.Devices[0].ContainerEdits.DeviceNodes[0].Path = ""
		add(sp, "library-rejects", true)
	}
	// annotation sets that are each within the 256 KiB limit while the Spec's and the devices' together are far beyond it
	// (the limit holds per set), one set exactly at the limit, and one byte over it (the library rejects)
	{
		nbig := 0
		big := func(n int) map[string]string {
			// a key of its own for most sets, the same key for some
			nbig++
			k := fmt.Sprintf("k%d", nbig/2)
			return map[string]string{k: strings.Repeat("v", n-len(k))}
		}
		sp := fullSpec17()
		sp.Annotations = big(100 << 10)
		for len(sp.Devices) < 3 {
			sp.Devices = append(sp.Devices, specs.Device{Name: fmt.Sprintf("more%d", len(sp.Devices)), ContainerEdits: specs.ContainerEdits{Env: []string{"A=b"}}})
		}
		for i := range sp.Devices {
			sp.Devices[i].Annotations = big(90 << 10)
		}
		add(sp, "annotation-sets-large-together", true)
		sp = fullSpec17()
		sp.Annotations = big(1 << 10)
		sp.Devices[len(sp.Devices)-1].Annotations = big(256 << 10)
		add(sp, "annotation-sets-large-together", true)
		if tier == "thorough" {
			sp = fullSpec17()
			sp.Devices[0].Annotations = big(256<<10 + 1)
			add(sp, "library-rejects", true)
		}
	}
	count := 900
	if tier == "thorough" {
		count = 5000
	}
	for i := 0; i < count; i++ {
		extremes := i%2 == 0
		sp := randLibValidSpec(r, extremes)
		class := "random"
		if extremes {
			class = "random-extremes"
		}
		add(sp, class, true)
	}
	s.Extra = map[string]interface{}{"x_outcomes": stats18}
	return s, nil
}
