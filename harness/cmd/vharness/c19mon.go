package main

// C19 — `cdi monitor`: the sub-command never ends by itself; it lists the requested aspects of the cache at every refresh, the
// first time one second after its start.  It is started on a scenario's directories, left alone until its output has
// stopped growing, and stopped.  The runs overlap with the rest of the generation; their cases are added at the end.

import (
	"bytes"
	"fmt"
	"os/exec"
	"path/filepath"
	"strings"
	"sync"
	"time"

	"verif/harness/hx"
)

type c19LockedBuf struct {
	mu sync.Mutex
	b  bytes.Buffer
}

func (l *c19LockedBuf) Write(p []byte) (int, error) {
	l.mu.Lock()
	defer l.mu.Unlock()
	return l.b.Write(p)
}

func (l *c19LockedBuf) String() string {
	l.mu.Lock()
	defer l.mu.Unlock()
	return l.b.String()
}

type c19Monitor struct {
	args     []string
	cmdline  []string
	viewTerm string
	desc     map[string]interface{}
	nontriv  bool
	stdout   string
	note     string
	err      error
	done     chan struct{}
}

var c19Monitors []*c19Monitor

// c19RunMonitor: stdout of `cdi ... monitor ...` once it has been quiet for 700 ms after printing something (deadline 30 s).
func c19RunMonitor(bin, cwd string, cmdline []string) (stdout, note string, err error) {
	for attempt := 0; attempt < 6; attempt++ {
		cmd := exec.Command(bin, cmdline...)
		cmd.Dir = cwd
		cmd.Env = []string{"PATH=/usr/bin:/bin", "HOME=" + cwd, "LANG=C"}
		out := &c19LockedBuf{}
		cmd.Stdout, cmd.Stderr = out, out
		if err := cmd.Start(); err != nil {
			return "", "", fmt.Errorf("cannot run %s: %v", bin, err)
		}
		exited := make(chan struct{})
		go func() { _ = cmd.Wait(); close(exited) }()
		deadline := time.Now().Add(30 * time.Second)
		last, lastChange := "", time.Now()
		ended := false
	poll:
		for {
			select {
			case <-exited:
				ended = true
				break poll
			case <-time.After(50 * time.Millisecond):
			}
			cur := out.String()
			if cur != last {
				last, lastChange = cur, time.Now()
			}
			if (last != "" && time.Since(lastChange) > 700*time.Millisecond) || time.Now().After(deadline) {
				break poll
			}
		}
		if !ended {
			_ = cmd.Process.Kill()
			<-exited
			return out.String(), "stopped by the harness", nil
		}
		// it ended by itself: a resource shortage of the sandbox, or something the case has to show
		text := out.String()
		if strings.Contains(text, "failed to create") || strings.Contains(text, "too many open files") || strings.Contains(text, "no space left on device") {
			time.Sleep(time.Duration(200*(attempt+1)) * time.Millisecond)
			continue
		}
		return text, fmt.Sprintf("ended by itself with status %d", cmd.ProcessState.ExitCode()), nil
	}
	return "", "", fmt.Errorf("%s %v: persistent inotify/descriptor shortage", bin, cmdline)
}

// startMonitor launches `cdi <options of the scenario> monitor <aspects>` on the scenario of c (which must have no cache errors).
func (c *c19Ctx) startMonitor(aspects []string) {
	m := &c19Monitor{args: aspects, cmdline: c.args(append([]string{"monitor"}, aspects...)...), viewTerm: c.view.term(),
		nontriv: len(c.view.Devices) > 0, done: make(chan struct{})}
	m.desc = map[string]interface{}{"cmd": append([]string{"cdi"}, c.relArgs(m.cmdline)...), "population": c.scDesc, "library": c.view.desc(c.root)}
	root, bin := c.root, c.cdiBin
	c19Monitors = append(c19Monitors, m)
	go func() {
		defer close(m.done)
		m.stdout, m.note, m.err = c19RunMonitor(bin, root, m.cmdline)
		m.desc["stdout"] = c19Short(strings.ReplaceAll(m.stdout, root, "$ROOT"))
		m.desc["end"] = m.note
	}()
}

// resolveMany: `cdi resolve f1 f2 [f3]` against `cdi resolve` on each file alone (error-free scenarios only: the texts of the
// two kinds of run are compared byte for byte, and an error listing has no fixed order).  The files name different CDI devices,
// so an answer which depends on the files before it differs from the answer to the file alone.
func (c *c19Ctx) resolveMany(r *hx.R, idx int) error {
	var names []string
	for _, d := range c.view.Devices {
		names = append(names, d.GetQualifiedName())
	}
	nf := 2 + r.Intn(2)
	var outArgs []string
	switch r.Intn(3) {
	case 1:
		outArgs = []string{"-o", "json"}
	case 2:
		outArgs = []string{"-o", "yaml"}
	}
	var files []string
	var singles []string
	var sdesc []map[string]interface{}
	for i := 0; i < nf; i++ {
		var req []string
		switch {
		case len(names) > 0 && i%2 == 0:
			req = []string{names[(idx+i)%len(names)]}
		case r.Chance(0.25):
			req = []string{"v9.example/x=nodev"} // unresolvable: the run ends here
		}
		p := filepath.Join(c.root, fmt.Sprintf("many-%d-%d%s", idx, i, hx.Pick(r, []string{".json", ".yaml"})))
		c19WriteOCI(p, c19OCI(r, req))
		files = append(files, p)
		run, err := c19Exec(c.cdiBin, c.root, nil, c.args(append(append([]string{"resolve"}, outArgs...), p)...)...)
		if err != nil {
			return err
		}
		singles = append(singles, hx.P(hx.S(run.Stdout), hx.Z(int64(run.Exit))))
		sdesc = append(sdesc, map[string]interface{}{"file": strings.ReplaceAll(p, c.root, "$ROOT"), "cdi_devices": req, "exit": run.Exit, "stdout_bytes": len(run.Stdout)})
	}
	cmdline := c.args(append(append([]string{"resolve"}, outArgs...), files...)...)
	run, err := c19Exec(c.cdiBin, c.root, nil, cmdline...)
	if err != nil {
		return err
	}
	c.s.Add(hx.Case{
		Term: hx.C("CResolveMany", hx.L(singles), hx.S(run.Stdout), hx.Z(int64(run.Exit))),
		Desc: map[string]interface{}{"cmd": append([]string{"cdi"}, c.relArgs(cmdline)...), "population": c.scDesc, "each_file_alone": sdesc,
			"exit": run.Exit, "stdout": c19Short(strings.ReplaceAll(run.Stdout, c.root, "$ROOT"))},
		Nontrivial: len(names) > 0,
		Class:      "resolve <several files>",
	})
	return nil
}

// c19CollectMonitors waits for the monitor runs and adds their cases.
func c19CollectMonitors(s *hx.Suite) error {
	defer func() { c19Monitors = nil }()
	for _, m := range c19Monitors {
		<-m.done
		if m.err != nil {
			return m.err
		}
		s.Add(hx.Case{
			Term:       hx.C("CMonitor", hx.LS(m.args), m.viewTerm, hx.S(m.stdout)),
			Desc:       m.desc,
			Nontrivial: m.nontriv,
			Class:      "monitor",
		})
	}
	return nil
}
