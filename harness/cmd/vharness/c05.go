package main

import (
	"encoding/json"
	"fmt"
	"os"
	"path/filepath"
	"sort"
	"strings"

	"sigs.k8s.io/yaml"
	"tags.cncf.io/container-device-interface/pkg/cdi"
	specs "tags.cncf.io/container-device-interface/specs-go"
	"verif/harness/hx"
)

func init() { registry["C05"] = genC05 }

// ------------------------------------------------------------------------------------------------
// optional fields (pairwise coverage)
const (
	oSpecAnn = iota
	oSpecEnv
	oSpecNodes
	oSpecHooks
	oSpecMounts
	oSpecRdt
	oSpecGids
	oDevAnn
	oDevEnv
	oDevNodes
	oDevHooks
	oDevMounts
	oDevRdt
	oDevGids
	oNHostPath
	oNType
	oNMajor
	oNMinor
	oNFileMode
	oNPerms
	oNUID
	oNGID
	oMOptions
	oMType
	oHArgs
	oHEnv
	oHTimeout
	oRClos
	oRL3
	oRMemBw
	oRCMT
	oRMBM
	nOpt05
)

var optNames05 = []string{"spec.annotations", "spec.env", "spec.deviceNodes", "spec.hooks", "spec.mounts", "spec.intelRdt", "spec.additionalGids",
	"device.annotations", "device.env", "device.deviceNodes", "device.hooks", "device.mounts", "device.intelRdt", "device.additionalGids",
	"node.hostPath", "node.type", "node.major", "node.minor", "node.fileMode", "node.permissions", "node.uid", "node.gid",
	"mount.options", "mount.type", "hook.args", "hook.env", "hook.timeout",
	"rdt.closID", "rdt.l3CacheSchema", "rdt.memBwSchema", "rdt.enableCMT", "rdt.enableMBM"}

type builder05 struct {
	r    *hx.R
	on   []bool
	m    int // elements per list
	seq  int
	vary bool // vary the valid values
}

func (b *builder05) pick(xs ...string) string {
	if !b.vary {
		return xs[0]
	}
	return hx.Pick(b.r, xs)
}

func (b *builder05) node() *specs.DeviceNode {
	b.seq++
	n := &specs.DeviceNode{Path: fmt.Sprintf("/dev/n%d", b.seq)}
	if b.on[oNHostPath] {
		n.HostPath = fmt.Sprintf("/dev/host%d", b.seq)
	}
	if b.on[oNType] {
		n.Type = b.pick("c", "b", "u", "p")
	}
	if b.on[oNMajor] {
		n.Major = int64(10 + b.seq)
	}
	if b.on[oNMinor] {
		n.Minor = int64(b.seq)
	}
	if b.on[oNFileMode] {
		fm := os.FileMode(0o660)
		n.FileMode = &fm
	}
	if b.on[oNPerms] {
		n.Permissions = b.pick("rw", "r", "rwm", "mwr", "m", "rr")
	}
	if b.on[oNUID] {
		u := uint32(1000 + b.seq)
		n.UID = &u
	}
	if b.on[oNGID] {
		g := uint32(0)
		n.GID = &g
	}
	return n
}

func (b *builder05) mount() *specs.Mount {
	b.seq++
	m := &specs.Mount{HostPath: fmt.Sprintf("/host/m%d", b.seq), ContainerPath: fmt.Sprintf("/ctr/m%d", b.seq)}
	if b.on[oMOptions] {
		m.Options = []string{"ro", b.pick("nosuid", "bind", "")}
	}
	if b.on[oMType] {
		m.Type = b.pick("bind", "tmpfs", "none")
	}
	return m
}

func (b *builder05) hook() *specs.Hook {
	b.seq++
	h := &specs.Hook{HookName: b.pick("createContainer", "prestart", "createRuntime", "startContainer", "poststart", "poststop"),
		Path: fmt.Sprintf("/usr/bin/hook%d", b.seq)}
	if b.on[oHArgs] {
		h.Args = []string{"hook", b.pick("--x=1", "", "a b")}
	}
	if b.on[oHEnv] {
		h.Env = []string{"H=1", b.pick("HOOK_ENV=a=b", "E=", "x=y")}
	}
	if b.on[oHTimeout] {
		t := 5 + b.seq
		h.Timeout = &t
	}
	return h
}

func (b *builder05) rdt() *specs.IntelRdt {
	r := &specs.IntelRdt{}
	if b.on[oRClos] {
		r.ClosID = b.pick("clos0", "a.b", "...", "x y", "-", "..a", "a\tb", "clös", "\\", " ", ".a.")
	}
	if b.on[oRL3] {
		r.L3CacheSchema = "L3:0=ff"
	}
	if b.on[oRMemBw] {
		r.MemBwSchema = "MB:0=50"
	}
	r.EnableCMT = b.on[oRCMT]
	r.EnableMBM = b.on[oRMBM]
	return r
}

func (b *builder05) annots() map[string]string {
	m := map[string]string{"example.com/key": "value"}
	if b.m > 1 {
		m[b.pick("plain", "Upper.Case", "a_b-c.d", "0")] = b.pick("", "v", "x=y/z")
	}
	if b.m > 2 {
		m[b.pick("sub.domain.example.com/Na_me-1", "a/b", "x-y.z/0")] = "3"
	}
	return m
}

func (b *builder05) edits(base int) specs.ContainerEdits {
	var e specs.ContainerEdits
	if b.on[base+0] {
		for i := 0; i < b.m; i++ {
			b.seq++
			e.Env = append(e.Env, fmt.Sprintf("%s%d=%s", b.pick("VAR", "VAR", "v a r", "é", "1", "-"), b.seq, b.pick("val", "", "a=b", " ", "=", "line1\nline2")))
		}
	}
	if b.on[base+1] {
		for i := 0; i < b.m; i++ {
			e.DeviceNodes = append(e.DeviceNodes, b.node())
		}
	}
	if b.on[base+2] {
		for i := 0; i < b.m; i++ {
			e.Hooks = append(e.Hooks, b.hook())
		}
	}
	if b.on[base+3] {
		for i := 0; i < b.m; i++ {
			e.Mounts = append(e.Mounts, b.mount())
		}
	}
	if b.on[base+4] {
		e.IntelRdt = b.rdt()
	}
	if b.on[base+5] {
		for i := 0; i < b.m; i++ {
			e.AdditionalGIDs = append(e.AdditionalGIDs, uint32(i*7))
		}
	}
	return e
}

var validKinds05 = []string{"vendor.com/class", "v/c", "a-b.c_d/e-f_g", "Vendor0/Class9", "x.y/z", "ab/c0", "a_-.b/c--d", "V/C"}
var validNames05 = []string{"dev", "d", "a:b", "x.y-z_1", "D", "0", "a:-_.b", "9:"}

func (b *builder05) spec(nDev int) *specs.Spec {
	s := &specs.Spec{Kind: b.pick(validKinds05...)}
	if b.on[oSpecAnn] {
		s.Annotations = b.annots()
	}
	s.ContainerEdits = b.edits(oSpecEnv)
	for i := 0; i < nDev; i++ {
		d := specs.Device{Name: fmt.Sprintf("%s%d", b.pick(validNames05...), i)}
		if b.on[oDevAnn] {
			d.Annotations = b.annots()
		}
		d.ContainerEdits = b.edits(oDevEnv)
		if !(b.on[oDevEnv] || b.on[oDevNodes] || b.on[oDevHooks] || b.on[oDevMounts] || b.on[oDevRdt] || b.on[oDevGids]) {
			b.seq++
			d.ContainerEdits.Env = []string{fmt.Sprintf("ONLY%d=1", b.seq)}
		}
		s.Devices = append(s.Devices, d)
	}
	s.Version, _ = specs.MinimumRequiredVersion(s)
	return s
}

var released05 = []string{"0.1.0", "0.2.0", "0.3.0", "0.4.0", "0.5.0", "0.6.0", "0.7.0", "0.8.0", "1.0.0"}

func atLeast05(v string) []string {
	for i, x := range released05 {
		if x == v {
			return released05[i:]
		}
	}
	return []string{"1.0.0"}
}

// pairwise05 returns option vectors covering every pair of options with all four value combinations.
func pairwise05(r *hx.R) [][]bool {
	type key struct{ i, j, v int }
	need := map[key]bool{}
	for i := 0; i < nOpt05; i++ {
		for j := i + 1; j < nOpt05; j++ {
			for v := 0; v < 4; v++ {
				need[key{i, j, v}] = true
			}
		}
	}
	gain := func(vec []bool) int {
		g := 0
		for i := 0; i < nOpt05; i++ {
			for j := i + 1; j < nOpt05; j++ {
				v := 0
				if vec[i] {
					v |= 1
				}
				if vec[j] {
					v |= 2
				}
				if need[key{i, j, v}] {
					g++
				}
			}
		}
		return g
	}
	var out [][]bool
	all := make([]bool, nOpt05)
	none := make([]bool, nOpt05)
	for i := range all {
		all[i] = true
	}
	use := func(vec []bool) {
		out = append(out, vec)
		for i := 0; i < nOpt05; i++ {
			for j := i + 1; j < nOpt05; j++ {
				v := 0
				if vec[i] {
					v |= 1
				}
				if vec[j] {
					v |= 2
				}
				delete(need, key{i, j, v})
			}
		}
	}
	use(all)
	use(none)
	for len(need) > 0 && len(out) < 64 {
		var best []bool
		bg := -1
		for c := 0; c < 40; c++ {
			vec := make([]bool, nOpt05)
			for i := range vec {
				vec[i] = r.Intn(2) == 0
			}
			// the list-valued parents are mostly on, otherwise the nested options would rarely be visible
			if g := gain(vec); g > bg {
				best, bg = vec, g
			}
		}
		use(best)
	}
	return out
}

// ------------------------------------------------------------------------------------------------
// running the three entry points

const (
	obsAccepted = 0
	obsRejected = 1
	obsPanicked = 2
	obsOdd      = 3 // inconsistent observation (no error recorded, but nothing loaded either)
)

var obsNames05 = []string{"accepted", "rejected", "PANIC", "inconsistent"}

func readRoute05(path string) int {
	var err error
	var sp *cdi.Spec
	p, _ := hx.Guard(func() { sp, err = cdi.ReadSpec(path, 0) })
	switch {
	case p:
		return obsPanicked
	case err != nil:
		return obsRejected
	case sp == nil:
		return obsOdd
	}
	return obsAccepted
}

func refreshRoute05(dir, path string) int {
	res := obsOdd
	p, _ := hx.Guard(func() {
		cache, _ := cdi.NewCache(cdi.WithSpecDirs(dir), cdi.WithAutoRefresh(false))
		_ = cache.Refresh()
		errs := cache.GetErrors()
		loaded := len(cache.ListVendors()) > 0
		switch {
		case len(errs[path]) > 0 && !loaded:
			res = obsRejected
		case len(errs) == 0 && loaded:
			res = obsAccepted
		}
	})
	if p {
		return obsPanicked
	}
	return res
}

// writeRoutes05 hands the same Spec value to one cache under several names, one after the other (a verdict kept from the
// first call would show in the second).
func writeRoutes05(dir string, s *specs.Spec, names ...string) []int {
	var cache *cdi.Cache
	if p, _ := hx.Guard(func() { cache, _ = cdi.NewCache(cdi.WithSpecDirs(dir), cdi.WithAutoRefresh(false)) }); p || cache == nil {
		return []int{obsOdd, obsOdd}
	}
	var out []int
	for _, name := range names {
		var err error
		p, _ := hx.Guard(func() { err = cache.WriteSpec(s, name) })
		switch {
		case p:
			out = append(out, obsPanicked)
		case err != nil:
			out = append(out, obsRejected)
		default:
			if _, serr := os.Stat(filepath.Join(dir, name)); serr != nil {
				out = append(out, obsOdd)
			} else {
				out = append(out, obsAccepted)
			}
		}
	}
	return out
}

// parsedTerm05 runs cdi.ParseSpec and prints what it returned as `option spec`.
func parsedTerm05(data []byte) string {
	var sp *specs.Spec
	var err error
	p, _ := hx.Guard(func() { sp, err = cdi.ParseSpec(data) })
	if p {
		return hx.Some("(mkSpec \"<ParseSpec panicked>\" \"\" [] [] empty_edits)")
	}
	if err != nil || sp == nil {
		return hx.None
	}
	return hx.Some(specTerm(sp))
}

type gen05 struct {
	r       *hx.R
	s       *hx.Suite
	scratch string
	n       int
	stats   map[string]int
}

// chunkLiterals rewrites every Coq string literal longer than 2000 bytes in a term as nested String.append
// applications of short literals: coqc overflows its stack while interpreting a 256 KiB literal. Long runs of one
// repeated unit of 1 to 4 bytes (one character) are written (rep_s "unit" n): interpreting 256 KiB of literal text
// costs coqc some 20 s, the run a fraction of a second.
func chunkLiterals(term string) string {
	if len(term) < 2000 {
		return term
	}
	var b strings.Builder
	i := 0
	for i < len(term) {
		if term[i] != '"' {
			b.WriteByte(term[i])
			i++
			continue
		}
		// literal from i to j (exclusive of the closing quote)
		j := i + 1
		for j < len(term) {
			if term[j] == '"' {
				if j+1 < len(term) && term[j+1] == '"' {
					j += 2
					continue
				}
				break
			}
			j++
		}
		body := term[i+1 : j]
		if len(body) <= 2000 {
			b.WriteString(term[i : j+1])
			i = j + 1
			continue
		}
		// pieces: short literals, and (rep_s "unit" n) for runs of one repeated unit
		var chunks []string
		for len(body) > 0 {
			if unit, reps := runAt05(body); reps > 0 {
				chunks = append(chunks, fmt.Sprintf("(rep_s \"%s\" %d%%N)", unit, reps))
				body = body[len(unit)*reps:]
				continue
			}
			n := 1500
			if n > len(body) {
				n = len(body)
			}
			// stop before a long run, and do not cut a doubled quote in two
			for k := 1; k < n; k++ {
				if _, reps := runAt05(body[k:]); reps > 0 {
					n = k
					break
				}
			}
			for n < len(body) && n > 0 && body[n-1] == '"' && strings.Count(body[:n], "\"")%2 == 1 {
				n++
			}
			chunks = append(chunks, "\""+body[:n]+"\"")
			body = body[n:]
		}
		acc := chunks[len(chunks)-1]
		for k := len(chunks) - 2; k >= 0; k-- {
			acc = "(String.append " + chunks[k] + " " + acc + ")"
		}
		b.WriteString(acc)
		i = j + 1
	}
	return b.String()
}

// runAt05: body starts with at least 500 bytes made of one unit of 1..4 bytes (no quote in it) repeated
func runAt05(body string) (string, int) {
	for k := 1; k <= 4 && 2*k <= len(body); k++ {
		if body[k:2*k] != body[:k] || strings.IndexByte(body[:k], '"') >= 0 {
			continue
		}
		n := 2 * k
		for n+k <= len(body) && body[n:n+k] == body[:k] {
			n += k
		}
		if n >= 500 {
			return body[:k], n / k
		}
	}
	return "", 0
}

func obsList(obs []int) string {
	items := make([]string, len(obs))
	for i, o := range obs {
		items[i] = hx.Nat(o)
	}
	return hx.L(items)
}

func trunc05(s string, n int) string {
	if len(s) <= n {
		return s
	}
	return s[:n] + fmt.Sprintf("...(%d bytes)", len(s))
}

// addDoc pushes one document (given as JSON text) through the document routes, as JSON and as YAML.
// yamlText, when non-empty, is used instead of the conversion of the JSON text (YAML-only spellings);
// then the JSON routes are not run.
func (g *gen05) addDoc(class string, info map[string]interface{}, jsonText, yamlText string, nontrivial bool, withParsed bool) {
	g.n++
	dir := filepath.Join(g.scratch, fmt.Sprintf("doc%05d", g.n))
	jdir, ydir := filepath.Join(dir, "json"), filepath.Join(dir, "yaml")
	defer os.RemoveAll(dir)

	type variant struct {
		name  string
		bytes []byte
		doc   string
		obs   []int
		names []string
		pars  string
	}
	var vs []*variant
	if yamlText == "" {
		v := &variant{name: "json", bytes: []byte(jsonText)}
		if tree, err := parseD(v.bytes); err == nil {
			v.doc = tree.Coq()
		} else if strings.TrimSpace(jsonText) == "" {
			v.doc = "DNull"
		} else {
			panic("harness: generated JSON does not parse: " + err.Error() + ": " + trunc05(jsonText, 200))
		}
		_ = os.MkdirAll(jdir, 0o755)
		path := filepath.Join(jdir, "doc.json")
		_ = os.WriteFile(path, v.bytes, 0o644)
		v.obs = []int{readRoute05(path), refreshRoute05(jdir, path)}
		v.names = []string{"json:ReadSpec", "json:Refresh"}
		v.pars = parsedTerm05(v.bytes)
		vs = append(vs, v)
	}
	var ybytes []byte
	if yamlText != "" {
		ybytes = []byte(yamlText)
	} else if strings.TrimSpace(jsonText) != "" {
		if yb, err := yaml.JSONToYAML([]byte(jsonText)); err == nil {
			ybytes = yb
		}
	}
	if ybytes != nil {
		v := &variant{name: "yaml", bytes: ybytes}
		ok := false
		if jb, err := yaml.YAMLToJSON(ybytes); err == nil {
			if tree, err := parseD(jb); err == nil {
				v.doc = tree.Coq()
				ok = true
			}
		}
		if ok {
			_ = os.MkdirAll(ydir, 0o755)
			path := filepath.Join(ydir, "doc.yaml")
			_ = os.WriteFile(path, v.bytes, 0o644)
			v.obs = []int{readRoute05(path), refreshRoute05(ydir, path)}
			v.names = []string{"yaml:ReadSpec", "yaml:Refresh"}
			v.pars = parsedTerm05(v.bytes)
			vs = append(vs, v)
		} else {
			g.stats["yaml-not-generic-decodable"]++
		}
	}
	// merge variants denoting the same doc into one case
	if len(vs) == 2 && vs[0].doc == vs[1].doc {
		vs[0].obs = append(vs[0].obs, vs[1].obs...)
		vs[0].names = append(vs[0].names, vs[1].names...)
		if vs[1].pars != vs[0].pars {
			vs[0].pars = vs[0].pars + "; " + vs[1].pars
		}
		vs[0].name = "json+yaml"
		vs = vs[:1]
	} else if len(vs) == 2 {
		g.stats["json-yaml-docs-differ"]++
	}
	for _, v := range vs {
		pars := "[" + v.pars + "]"
		if len(v.doc) > 200000 || !withParsed {
			pars = "[]" // very large documents: the verdicts are compared, the decoded value is not printed again
		}
		desc := map[string]interface{}{"encoding": v.name, "document": trunc05(string(v.bytes), 700)}
		for k, x := range info {
			desc[k] = x
		}
		obs := map[string]string{}
		for i, o := range v.obs {
			obs[v.names[i]] = obsNames05[o]
		}
		desc["observed"] = obs
		g.s.Add(hx.Case{
			Term:       chunkLiterals(hx.C("CDoc", v.doc, obsList(v.obs), pars)),
			Desc:       desc,
			Class:      class,
			Nontrivial: nontrivial,
		})
		g.stats["verdict:"+obsNames05[v.obs[0]]]++
	}
}

// addTyped hands a Spec value to Cache.WriteSpec under a .json and a .yaml name.
func (g *gen05) addTyped(class string, info map[string]interface{}, s *specs.Spec, nontrivial bool) {
	g.n++
	dir := filepath.Join(g.scratch, fmt.Sprintf("typed%05d", g.n))
	_ = os.MkdirAll(dir, 0o755)
	defer os.RemoveAll(dir)
	obs := writeRoutes05(dir, s, "typed.json", "typed.yaml")
	desc := map[string]interface{}{"route": "Cache.WriteSpec", "spec": trunc05(string(specJSON(s)), 700),
		"observed": map[string]string{"WriteSpec(.json)": obsNames05[obs[0]], "WriteSpec(.yaml)": obsNames05[obs[1]]}}
	for k, x := range info {
		desc[k] = x
	}
	g.s.Add(hx.Case{Term: chunkLiterals(hx.C("CTyped", specTerm(s), obsList(obs))), Desc: desc, Class: class, Nontrivial: nontrivial})
	g.stats["typed-verdict:"+obsNames05[obs[0]]]++
}

func specText05(s *specs.Spec) string {
	b, err := json.Marshal(s)
	if err != nil {
		panic(err)
	}
	return string(b)
}

// both document and typed routes for a Spec value
func (g *gen05) addSpec(class string, info map[string]interface{}, s *specs.Spec, nontrivial bool) {
	g.addDoc(class, info, specText05(s), "", nontrivial, strings.HasPrefix(class, "wf/"))
	g.addTyped(class+"/typed", info, s, nontrivial)
}

// ------------------------------------------------------------------------------------------------
// defects

func allOn05() []bool {
	on := make([]bool, nOpt05)
	for i := range on {
		on[i] = true
	}
	return on
}

// base for boundary values: three devices, every optional field present, lists of m elements
func (g *gen05) defectBase(m int) *specs.Spec {
	b := &builder05{r: g.r, on: allOn05(), m: m}
	s := b.spec(3)
	s.Version = "1.0.0"
	return s
}

// compact base for defect injection: three devices; the spec-level edits and every device's edits hold one env
// entry plus m elements of the targeted list ("env", "nodes", "hooks", "mounts"), an intelRdt ("rdt") or
// annotations ("annots"); only the optional fields a defect can touch are present
func (g *gen05) compact(target string, m int) *specs.Spec { return g.compactN(target, m, 3) }

// fullN: every optional field present, nDev devices, lists of m elements
func (g *gen05) fullN(m, nDev int) *specs.Spec {
	b := &builder05{r: g.r, on: allOn05(), m: m}
	s := b.spec(nDev)
	s.Version = "1.0.0"
	return s
}

func (g *gen05) compactN(target string, m, nDev int) *specs.Spec {
	on := make([]bool, nOpt05)
	on[oSpecEnv], on[oDevEnv] = true, true
	switch target {
	case "nodes":
		on[oSpecNodes], on[oDevNodes], on[oNType], on[oNPerms] = true, true, true, true
	case "hooks":
		on[oSpecHooks], on[oDevHooks], on[oHEnv] = true, true, true
	case "mounts":
		on[oSpecMounts], on[oDevMounts] = true, true
	case "rdt":
		on[oSpecRdt], on[oDevRdt], on[oRClos] = true, true, true
	case "annots":
		on[oSpecAnn], on[oDevAnn] = true, true
	}
	b := &builder05{r: g.r, on: on, m: m}
	s := b.spec(nDev)
	if target != "env" {
		s.ContainerEdits.Env = s.ContainerEdits.Env[:1]
		for i := range s.Devices {
			s.Devices[i].ContainerEdits.Env = s.Devices[i].ContainerEdits.Env[:1]
		}
	}
	s.Version = "1.0.0"
	return s
}

// a plain base using no versioned feature: env only
func (g *gen05) plainBase() *specs.Spec {
	on := make([]bool, nOpt05)
	on[oDevEnv] = true
	on[oSpecEnv] = true
	b := &builder05{r: g.r, on: on, m: 2}
	s := b.spec(3)
	s.Kind = "vendor.com/class"
	return s
}

func editsAt(s *specs.Spec, place int) *specs.ContainerEdits {
	if place < 0 {
		return &s.ContainerEdits
	}
	return &s.Devices[place].ContainerEdits
}

func placeName(place int) string {
	if place < 0 {
		return "spec level"
	}
	return []string{"first device", "middle device", "last device"}[place]
}

// placeIn: the device index meant by a place (-1 spec level, 0 first, 1 middle, 2 last) among nDev devices
func placeIn(place, nDev int) int {
	switch place {
	case -1:
		return -1
	case 0:
		return 0
	case 1:
		return nDev / 2
	}
	return nDev - 1
}

// surroundings05 draws what a defect stands in: the number of devices (1, 2, 3, more: the first is then also the
// last, ...), the length of the lists (1, 2, 3, 5) and whether the other optional members and lists are present too
// (a validator which stops after the first kind of list it finds non-empty, or looks only at lists of a certain
// length, shows only then).
func (g *gen05) surroundings05(place int) (nDev, m int, full bool) {
	switch place {
	case -1:
		nDev = hx.Pick(g.r, []int{1, 2, 3, 5})
	case 1:
		nDev = hx.Pick(g.r, []int{3, 3, 4, 6})
	default:
		nDev = hx.Pick(g.r, []int{1, 2, 3, 3, 6})
	}
	m = hx.Pick(g.r, []int{1, 2, 3, 3, 5})
	full = g.r.Chance(0.25)
	if full { // everything present: keep the document small (the judge evaluates some 25 ms per record)
		if nDev > 3 {
			nDev = 3
		}
		if m > 2 {
			m = 2
		}
	}
	return nDev, m, full
}

type editDefect struct {
	kind   string
	target string
	apply  func(g *gen05, e *specs.ContainerEdits, j int)
}

var editDefects05 = []editDefect{
	{"bad env entry", "env", func(g *gen05, e *specs.ContainerEdits, j int) {
		e.Env[j] = hx.Pick(g.r, []string{"NOEQUALS", "=value", "", "=", " "})
	}},
	{"empty device node path", "nodes", func(g *gen05, e *specs.ContainerEdits, j int) { e.DeviceNodes[j].Path = "" }},
	{"bad device node type", "nodes", func(g *gen05, e *specs.ContainerEdits, j int) {
		e.DeviceNodes[j].Type = hx.Pick(g.r, []string{"x", "bb", "B", "block", " ", "char", "C", "\u0162", "b\n", "c ", "\xe2"})
	}},
	{"bad device node permissions", "nodes", func(g *gen05, e *specs.ContainerEdits, j int) {
		e.DeviceNodes[j].Permissions = hx.Pick(g.r, []string{"rwx", "R", "rw ", "mrwz", "é", "r,w", "-", "\u0172", "r\u0177", "\u016dw", "r\xffw", "\xf2", "rw\n"})
	}},
	{"unknown hook stage", "hooks", func(g *gen05, e *specs.ContainerEdits, j int) {
		e.Hooks[j].HookName = hx.Pick(g.r, []string{"", "preStart", "createruntime", "poststart ", "hook", "prestop", "PRESTART"})
	}},
	{"empty hook path", "hooks", func(g *gen05, e *specs.ContainerEdits, j int) { e.Hooks[j].Path = "" }},
	{"bad hook env entry (first)", "hooks", func(g *gen05, e *specs.ContainerEdits, j int) {
		e.Hooks[j].Env[0] = hx.Pick(g.r, []string{"NOEQUALS", "=value", ""})
	}},
	{"bad hook env entry (last)", "hooks", func(g *gen05, e *specs.ContainerEdits, j int) {
		h := e.Hooks[j]
		h.Env[len(h.Env)-1] = hx.Pick(g.r, []string{"NOEQUALS", "=value", ""})
	}},
	{"empty mount host path", "mounts", func(g *gen05, e *specs.ContainerEdits, j int) { e.Mounts[j].HostPath = "" }},
	{"empty mount container path", "mounts", func(g *gen05, e *specs.ContainerEdits, j int) { e.Mounts[j].ContainerPath = "" }},
	{"null device node entry", "nodes", func(g *gen05, e *specs.ContainerEdits, j int) { e.DeviceNodes[j] = nil }},
	{"null hook entry", "hooks", func(g *gen05, e *specs.ContainerEdits, j int) { e.Hooks[j] = nil }},
	{"null mount entry", "mounts", func(g *gen05, e *specs.ContainerEdits, j int) { e.Mounts[j] = nil }},
}

var badClosIDs05 = []string{".", "..", "a/b", "/", "a\nb", "\n", strings.Repeat("c", 4096), strings.Repeat("c", 5000)}
var badVersions05 = []string{"0.9.0", "2.0.0", "", "1.0", "1", "vv1.0.0", "1.0.0 ", "0.3.1", "1.0.0-rc1", "1.0.0+x", "junk", "V1.0.0", "01.0.0"}
var badKinds05 = []string{"vendor", "/class", "vendor/", "", "/", "1vendor/class", "vendor./class", "vendor/cl ass", "vendor/class/", "vendor/-class",
	"ven dor/class", "vendor/class_", "vendor.com/class/extra", "-vendor/class", "vendor/1class", "vénd/class", "vendor/cläss", "vendor/class\n", "_/c", "v/_",
	"v-/c", "v/c-", "v./c", "v/c:", "v:/c", "0/c", "v/0", "ven\xffdor/class", "vendor/cl\u0161ss", "vendor /class", " vendor/class", "vendor//class"}
var badDevNames05 = []string{"", "-dev", "dev-", "de v", "dev/0", "dev=0", "dév", ".", "_dev", "dev.", "dev:", ":dev", "d\n", " ", "dev,0",
	"d-", "-d", "d:", "d\xffv", "d\u012dv", "dev ", " dev", "-", ":"}
var badAnnotKeys05 = []string{"", "-a", "a-", "a/b/c", "/name", "prefix_/name", "a b", strings.Repeat("n", 64), strings.Repeat("p", 254) + "/n",
	"example..com/n", ".com/n", "com./n", "a/", "ünï", "-x.com/n", "x-.com/n", "example.com/-n", "example.com/" + strings.Repeat("n", 64), "a/b/", "!", "zz zz",
	"a\xffb", "ex\u0131mple.com/n", "Example_.com/n", "example.com/n\n", " a", "a-/n", "a.-b/n", "a//n", "EXAMPLE.COM/-N"}

// some picks n distinct elements (all of them in the thorough tier)
func some05(g *gen05, tier string, xs []string, n int) []string {
	if tier == "thorough" || n >= len(xs) {
		return xs
	}
	perm := g.r.Perm(len(xs))
	out := make([]string, n)
	for i := range out {
		out[i] = xs[perm[i]]
	}
	return out
}

func (g *gen05) defects(tier string) {
	places := []int{-1, 0, 1, 2}
	// edit-level defects: every place x first/last element, in varying surroundings
	for _, d := range editDefects05 {
		for _, place := range places {
			for _, last := range []bool{false, true} {
				nDev, m, full := g.surroundings05(place)
				if last && m == 1 {
					m = 2
					if !full {
						m = hx.Pick(g.r, []int{2, 3, 5})
					}
				}
				j := 0
				if last {
					j = m - 1
				}
				if (tier == "thorough" || g.r.Chance(0.15)) && m >= 3 {
					j = 1 + g.r.Intn(m-2)
				}
				var s *specs.Spec
				if full {
					s = g.fullN(m, nDev)
				} else {
					s = g.compactN(d.target, m, nDev)
				}
				dev := placeIn(place, nDev)
				d.apply(g, editsAt(s, dev), j)
				g.addSpec("defect/"+d.kind, map[string]interface{}{"defect": d.kind, "place": placeName(place), "device": dev, "devices": nDev,
					"element": j, "of": m, "all optional members present": full}, s, true)
			}
		}
	}
	// RDT class id
	for _, place := range places {
		for _, id := range some05(g, tier, badClosIDs05, 2) {
			nDev, m, full := g.surroundings05(place)
			s := g.compactN("rdt", 1, nDev)
			if full {
				s = g.fullN(m, nDev)
			}
			editsAt(s, placeIn(place, nDev)).IntelRdt.ClosID = id
			g.addSpec("defect/bad RDT class id", map[string]interface{}{"defect": "bad RDT class id", "place": placeName(place), "devices": nDev,
				"all optional members present": full, "closID": hx.JS(trunc05(id, 40))}, s, true)
		}
	}
	// version not released
	for _, v := range some05(g, tier, badVersions05, 7) {
		s := g.compact("env", 1)
		s.Version = v
		g.addSpec("defect/unreleased version", map[string]interface{}{"defect": "unreleased cdiVersion", "cdiVersion": v}, s, true)
	}
	// version below what a feature used at some place requires
	type feat struct {
		name   string
		needs  string
		places []int
		apply  func(s *specs.Spec, place int, j int)
	}
	feats := []feat{
		{"mount type", "0.4.0", places, func(s *specs.Spec, place, j int) {
			e := editsAt(s, place)
			for i := 0; i < 3; i++ {
				e.Mounts = append(e.Mounts, &specs.Mount{HostPath: "/h", ContainerPath: "/c"})
			}
			e.Mounts[j].Type = "bind"
		}},
		{"device node hostPath", "0.5.0", places, func(s *specs.Spec, place, j int) {
			e := editsAt(s, place)
			for i := 0; i < 3; i++ {
				e.DeviceNodes = append(e.DeviceNodes, &specs.DeviceNode{Path: fmt.Sprintf("/dev/x%d", i)})
			}
			e.DeviceNodes[j].HostPath = "/dev/host"
		}},
		{"device name starting with a digit", "0.5.0", []int{0, 1, 2}, func(s *specs.Spec, place, j int) { s.Devices[place].Name = "0" + s.Devices[place].Name }},
		{"annotations", "0.6.0", places, func(s *specs.Spec, place, j int) {
			if place < 0 {
				s.Annotations = map[string]string{"k": "v"}
			} else {
				s.Devices[place].Annotations = map[string]string{"k": "v"}
			}
		}},
		{"dotted class", "0.6.0", []int{-1}, func(s *specs.Spec, place, j int) { s.Kind = "vendor.com/cl.ass" }},
		{"intelRdt", "0.7.0", places, func(s *specs.Spec, place, j int) { editsAt(s, place).IntelRdt = &specs.IntelRdt{} }},
		{"additionalGids", "0.7.0", places, func(s *specs.Spec, place, j int) { editsAt(s, place).AdditionalGIDs = []uint32{0} }},
	}
	for _, f := range feats {
		for _, place := range f.places {
			j := hx.Pick(g.r, []int{0, 2})
			idx := sort.SearchStrings(released05, f.needs)
			vs := []string{released05[idx-1], f.needs}
			if tier == "thorough" {
				vs = append(vs, released05[:idx-1]...)
			} else if g.r.Chance(0.3) {
				vs[0] = hx.Pick(g.r, released05[:idx])
			}
			for _, v := range vs {
				s := g.plainBase()
				f.apply(s, place, j)
				s.Version = v
				info := map[string]interface{}{"feature": f.name, "requires": f.needs, "declared": v, "place": placeName(place), "element": j}
				if v == f.needs {
					g.addDoc("wf/version exactly as required", info, specText05(s), "", true, false)
				} else {
					g.addSpec("defect/version below requirement", info, s, true)
				}
			}
		}
	}
	// kind
	for _, k := range some05(g, tier, badKinds05, 10) {
		s := g.compact("env", 1)
		s.Kind = k
		g.addSpec("defect/bad vendor or class", map[string]interface{}{"defect": "bad vendor/class", "kind": hx.JS(k)}, s, true)
	}
	// no devices
	for _, devs := range [][]specs.Device{nil, {}} {
		s := g.compact("env", 1)
		s.Devices = devs
		g.addSpec("defect/no devices", map[string]interface{}{"defect": "no devices", "nil": devs == nil}, s, true)
	}
	// duplicate names, every pair of positions
	for _, pr := range [][2]int{{0, 1}, {0, 2}, {1, 2}, {0, 8}, {3, 4}, {7, 8}} {
		s := g.compact("env", 1)
		if pr[1] > 2 {
			s = g.compactN("env", 1, 9)
		}
		s.Devices[pr[1]].Name = s.Devices[pr[0]].Name
		g.addSpec("defect/duplicate device name", map[string]interface{}{"defect": "duplicate device name", "devices": pr}, s, true)
	}
	// bad device name / empty edits / annotations, at every device
	for k := 0; k < 3; k++ {
		for _, n := range some05(g, tier, badDevNames05, 3) {
			nDev, m, full := g.surroundings05(k)
			s := g.compactN("env", 1, nDev)
			if full {
				s = g.fullN(m, nDev)
			}
			s.Devices[placeIn(k, nDev)].Name = n
			g.addSpec("defect/bad device name", map[string]interface{}{"defect": "bad device name", "place": placeName(k), "devices": nDev,
				"all optional members present": full, "name": hx.JS(n)}, s, true)
		}
		for variant := 0; variant < 2; variant++ {
			nDev, m, full := g.surroundings05(k)
			s := g.compactN("env", 1, nDev)
			if full {
				s = g.fullN(m, nDev)
			}
			dev := placeIn(k, nDev)
			s.Devices[dev].ContainerEdits = specs.ContainerEdits{}
			if variant == 1 {
				s.Devices[dev].ContainerEdits = specs.ContainerEdits{Env: []string{}, AdditionalGIDs: []uint32{}, DeviceNodes: []*specs.DeviceNode{},
					Hooks: []*specs.Hook{}, Mounts: []*specs.Mount{}}
			}
			g.addSpec("defect/empty device edits", map[string]interface{}{"defect": "empty device edits", "place": placeName(k), "devices": nDev,
				"all optional members present": full, "empty-but-non-nil lists": variant == 1}, s, true)
		}
	}
	for _, place := range places {
		for _, k := range some05(g, tier, badAnnotKeys05, 3) {
			nDev, m, full := g.surroundings05(place)
			s := g.compactN("annots", m, nDev)
			if full {
				s = g.fullN(m, nDev)
			}
			if dev := placeIn(place, nDev); dev < 0 {
				s.Annotations[k] = "v"
			} else {
				s.Devices[dev].Annotations[k] = "v"
			}
			g.addSpec("defect/bad annotation key", map[string]interface{}{"defect": "bad annotation key", "place": placeName(place), "devices": nDev,
				"all optional members present": full, "key": hx.JS(trunc05(k, 80))}, s, true)
		}
	}
	// annotations over the size limit (and exactly at it)
	sizePlaces := []int{hx.Pick(g.r, places)}
	if tier == "thorough" {
		sizePlaces = places
	}
	for pi, place := range sizePlaces {
		for _, over := range []int{1, 0} {
			if over == 0 && pi != 0 {
				continue
			}
			s := g.compact("env", 1)
			m := map[string]string{"example.com/key": "value"}
			used := len("example.com/key") + len("value") + len("big")
			m["big"] = strings.Repeat("x", 262144-used+over)
			if place < 0 {
				s.Annotations = m
			} else {
				s.Devices[place].Annotations = m
			}
			kind := "defect/oversize annotations"
			if over == 0 {
				kind = "wf/annotations exactly at the size limit"
			}
			g.addSpec(kind, map[string]interface{}{"defect": "annotations size", "place": placeName(place), "total bytes": 262144 + over}, s, true)
		}
	}
	// the limit counts bytes: values of 2-, 3- and 4-byte characters, one byte over the limit and exactly at it (far
	// fewer characters than the limit in both)
	for ci, ch := range []string{"\u00e9", "\u20ac", "\U0001F600"} {
		for _, over := range []int{1, 0} {
			if tier != "thorough" && over == 0 && ci != int(g.r.Intn(3)) {
				continue
			}
			place := hx.Pick(g.r, places)
			s := g.compact("env", 1)
			used := len("multi")
			n := (262144 + over - used) / len(ch)
			pad := 262144 + over - used - n*len(ch)
			m := map[string]string{"multi": strings.Repeat("x", pad) + strings.Repeat(ch, n)}
			if place < 0 {
				s.Annotations = m
			} else {
				s.Devices[place].Annotations = m
			}
			kind := "defect/oversize annotations (multi-byte characters)"
			if over == 0 {
				kind = "wf/annotations exactly at the size limit (multi-byte characters)"
			}
			g.addSpec(kind, map[string]interface{}{"defect": "annotations size", "place": placeName(place), "total bytes": 262144 + over, "characters": n + pad + used, "bytes per character": len(ch)}, s, true)
		}
	}
	// the limit holds per annotation set: the Spec's and every device's set are each within it (one of them exactly
	// at it), together far beyond; each set has a key of its own and one key that all of them use
	{
		s := g.compact("env", 1)
		at := g.r.Intn(4) - 1
		set := func(place int) map[string]string {
			n := 150000 + g.r.Intn(50000)
			if place == at {
				n = 262144 - len("big") - 1 - len("k") - len("v")
			}
			return map[string]string{fmt.Sprintf("big%d", place+1): strings.Repeat("x", n), "k": "v"}
		}
		s.Annotations = set(-1)
		for i := range s.Devices {
			s.Devices[i].Annotations = set(i)
		}
		g.addSpec("wf/annotation sets each within the size limit, together beyond it", map[string]interface{}{"exactly at the limit": placeName(at), "sets": 4}, s, true)
	}
}

// ------------------------------------------------------------------------------------------------
// boundary values that must be accepted
func (g *gen05) boundaries() {
	mod := func(name string, f func(s *specs.Spec)) {
		s := g.defectBase(1)
		f(s)
		g.addSpec("wf/boundary", map[string]interface{}{"boundary": name}, s, true)
	}
	mod("one-letter vendor and class", func(s *specs.Spec) { s.Kind = "a/b" })
	mod("one-character device names", func(s *specs.Spec) { s.Devices[0].Name = "x"; s.Devices[1].Name = "0"; s.Devices[2].Name = "Z" })
	mod("device names differing in case only", func(s *specs.Spec) { s.Devices[0].Name = "dev"; s.Devices[1].Name = "Dev"; s.Devices[2].Name = "DEV" })
	mod("env with empty value and with further equal signs", func(s *specs.Spec) { s.ContainerEdits.Env = []string{"A=", "B==", "C=a=b", " = "} })
	mod("closID of 4095 bytes", func(s *specs.Spec) { s.ContainerEdits.IntelRdt.ClosID = strings.Repeat("c", 4095) })
	mod("closID of three dots / empty", func(s *specs.Spec) {
		s.ContainerEdits.IntelRdt.ClosID = "..."
		s.Devices[0].ContainerEdits.IntelRdt.ClosID = ""
	})
	mod("annotation name of 63 and prefix of 253 bytes, upper case", func(s *specs.Spec) {
		label := strings.Repeat("a", 61)
		prefix := label + "." + label + "." + label + "." + label + ".abcde" // 4*61+4+5 = 253
		s.Annotations = map[string]string{prefix + "/" + strings.Repeat("N", 63): "v", "UPPER.EXAMPLE.COM/Key": "", "0": "0"}
	})
	mod("annotation keys with the Kelvin sign and dotted capital I (lower-cased to ASCII by strings.ToLower)", func(s *specs.Spec) {
		s.Annotations = map[string]string{"K8s.io/İd": "v"}
	})
	mod("permissions empty and repeated", func(s *specs.Spec) {
		s.ContainerEdits.DeviceNodes[0].Permissions = ""
		s.Devices[0].ContainerEdits.DeviceNodes[0].Permissions = "rwmrwmmm"
	})
	mod("empty spec-level edits", func(s *specs.Spec) { s.ContainerEdits = specs.ContainerEdits{} })
	mod("device with only additionalGids [0]", func(s *specs.Spec) { s.Devices[1].ContainerEdits = specs.ContainerEdits{AdditionalGIDs: []uint32{0}} })
	mod("device with only an empty intelRdt", func(s *specs.Spec) { s.Devices[2].ContainerEdits = specs.ContainerEdits{IntelRdt: &specs.IntelRdt{}} })
	mod("v-prefixed version", func(s *specs.Spec) { s.Version = "v1.0.0" })
	mod("hook timeout zero and negative, relative paths", func(s *specs.Spec) {
		z, n := 0, -1
		s.ContainerEdits.Hooks[0].Timeout = &z
		s.Devices[0].ContainerEdits.Hooks[0].Timeout = &n
		s.Devices[0].ContainerEdits.Hooks[0].Path = "relative/path"
		s.ContainerEdits.DeviceNodes[0].Path = "not/absolute"
	})
	mod("integer extremes", func(s *specs.Spec) {
		n := s.ContainerEdits.DeviceNodes[0]
		n.Major, n.Minor = 9223372036854775807, -9223372036854775808
		u, fm := uint32(4294967295), os.FileMode(4294967295)
		n.UID, n.GID, n.FileMode = &u, &u, &fm
		s.ContainerEdits.AdditionalGIDs = []uint32{4294967295, 0}
	})
}

// ------------------------------------------------------------------------------------------------
// character sweep: every class of byte at the first / a middle / the last position of each part of the kind,
// of the device name and of an annotation key (documents only, one small device). The characters that are legal
// in one kind of name or position but not in another are always included; the others are sampled in the quick tier.
func (g *gen05) sweep(tier string) {
	critical := []string{":", ".", "_", "-", "0", "/", "=", "A"}
	others := []string{" ", "!", "\"", "#", "$", "%", "&", "'", "(", ")", "*", "+", ",", ";", "<", ">", "?", "@", "[", "\\", "]", "^", "`", "{", "|", "}", "~",
		"z", "9", "é", "K", "\t", "\u012d", "\u013a", "\u015f", "\x7f", "\uff0d"}
	put := func(s string, pos int, ch string) string { // s has 5 bytes
		switch pos {
		case 0:
			return ch + s[1:]
		case 1:
			return s[:2] + ch + s[3:]
		case 3:
			return s[:1] + ch + s[2:]
		case 4:
			return s[:3] + ch + s[4:]
		}
		return s[:4] + ch
	}
	posName := []string{"first", "middle", "last", "second", "second to last"}
	emit := func(what string, pos int, ch string, kind, name, key string) {
		s := &specs.Spec{Version: "1.0.0", Kind: kind, Devices: []specs.Device{{Name: name, ContainerEdits: specs.ContainerEdits{Env: []string{"A=b"}}}}}
		if key != "" {
			s.Annotations = map[string]string{key: "v"}
		}
		g.addDoc("sweep/"+what, map[string]interface{}{"part": what, "position": posName[pos], "character": hx.JS(ch)}, specText05(s), "", true, false)
	}
	for _, set := range [][]string{critical, others} {
		for _, ch := range set {
			for pos := 0; pos < 5; pos++ {
				always := &set[0] == &critical[0]
				take := func() bool {
					if pos >= 3 && tier != "thorough" { // next to the ends: the critical characters, a few of the others
						return always || g.r.Chance(0.04)
					}
					return always || tier == "thorough" || g.r.Chance(0.08)
				}
				if take() {
					emit("vendor", pos, ch, put("vendr", pos, ch)+"/class", "dev", "")
				}
				if take() {
					emit("class", pos, ch, "vendor.com/"+put("class", pos, ch), "dev", "")
				}
				if take() {
					emit("device name", pos, ch, "vendor.com/class", put("devic", pos, ch), "")
				}
				if take() {
					emit("annotation key prefix", pos, ch, "vendor.com/class", "dev", put("prefx", pos, ch)+"/name")
				}
				if take() {
					emit("annotation key name", pos, ch, "vendor.com/class", "dev", "pre.fix/"+put("aname", pos, ch))
				}
			}
		}
	}
	// device edits made of explicitly empty or null members only, at every device (still "empty edits")
	for k := 0; k < 3; k++ {
		for _, txt := range []string{`{"env":[]}`, `{"deviceNodes":[]}`, `{"hooks":[],"mounts":[]}`, `{"additionalGids":[]}`, `{"intelRdt":null}`,
			`{"env":null,"additionalGids":null}`, `{"env":[],"deviceNodes":[],"hooks":[],"mounts":[],"additionalGids":[],"intelRdt":null}`, `null`} {
			if tier != "thorough" && !g.r.Chance(0.5) {
				continue
			}
			tree, err := parseD([]byte(specText05(g.compact("env", 1))))
			if err != nil {
				panic(err)
			}
			e, _ := parseD([]byte(txt))
			tree.Get("devices").A[k].Set("containerEdits", e)
			g.addDoc("defect/empty device edits (explicitly empty members)", map[string]interface{}{"defect": "empty device edits", "place": placeName(k), "containerEdits": txt},
				tree.JSON(), "", true, false)
		}
	}
}

// ------------------------------------------------------------------------------------------------
// the malformed stream (documents only)

// schema of the document tree: member name -> (is a list, struct kind of the value / element)
type child05 struct {
	list bool
	kind string
}

var children05 = map[string]map[string]child05{
	"Spec":           {"devices": {true, "Device"}, "containerEdits": {false, "ContainerEdits"}},
	"Device":         {"containerEdits": {false, "ContainerEdits"}},
	"ContainerEdits": {"deviceNodes": {true, "DeviceNode"}, "hooks": {true, "Hook"}, "mounts": {true, "Mount"}, "intelRdt": {false, "IntelRdt"}},
}

type site05 struct {
	path string
	obj  *D
	kind string
}

func walk05(d *D, kind, path string, out *[]site05) {
	if d == nil || d.K != dObj {
		return
	}
	*out = append(*out, site05{path, d, kind})
	for name, c := range children05[kind] {
		v := d.Get(name)
		if v == nil {
			continue
		}
		if c.list {
			if v.K == dArr {
				for i, e := range v.A {
					walk05(e, c.kind, fmt.Sprintf("%s.%s[%d]", path, name, i), out)
				}
			}
		} else {
			walk05(v, c.kind, path+"."+name, out)
		}
	}
}

func sites05(root *D) []site05 {
	var out []site05
	walk05(root, "Spec", "$", &out)
	sort.Slice(out, func(i, j int) bool { return out[i].path < out[j].path })
	return out
}

// replacement values of every JSON type (numbers: in the space where the coerced text is a function of the value)
func wrongValues05() []*D {
	return []*D{dnull(), dbool(true), dbool(false), dnum("5"), dnum("0"), dnum("-3"), dnum("1.5"), dnum("0.25"), dnum("1.0"), dnum("1e3"),
		dstr("text"), dstr("7"), dstr(""), dstr("true"), darr(), darr(dnull()), darr(dstr("x")), darr(dnum("1")), dobj(), dobj(dmember{"a", dnum("1")}),
		dobj(dmember{"a", dstr("b")}), darr(dobj()), darr(darr())}
}

func caseVariants05(key string) []string {
	out := []string{strings.ToUpper(key), strings.ToLower(key), strings.ToUpper(key[:1]) + key[1:]}
	swap := []byte(key)
	for i, c := range swap {
		if i%2 == 0 && c >= 'a' && c <= 'z' {
			swap[i] = c - 32
		}
	}
	out = append(out, string(swap))
	if i := strings.IndexAny(key, "kK"); i >= 0 {
		out = append(out, key[:i]+"K"+key[i+1:]) // Kelvin sign folds to k
	}
	if i := strings.IndexAny(key, "sS"); i >= 0 {
		out = append(out, key[:i]+"ſ"+key[i+1:]) // long s folds to s
	}
	return out
}

func unknownVariants05(key string) []string {
	return []string{key + "x", "x" + key, key + " ", " " + key, key[:len(key)-1], "", "unknown", key + "_", strings.ReplaceAll(key, "e", "é"),
		strings.ReplaceAll(strings.ReplaceAll(key, "i", "İ"), "I", "ı"), "_" + key, key + "K", "ſ" + key}
}

func (g *gen05) smallFull(nDev, m int) *D {
	b := &builder05{r: g.r, on: allOn05(), m: m}
	s := b.spec(nDev)
	s.Version = "1.0.0"
	tree, err := parseD([]byte(specText05(s)))
	if err != nil {
		panic(err)
	}
	return tree
}

func (g *gen05) malformed(tier string) {
	quick := tier != "thorough"
	base := g.smallFull(2, 2)
	nSites := len(sites05(base))
	take := func(p float64) bool { return !quick || g.r.Chance(p) }

	// (a) unknown member at every object of the tree (each level, each position), any value incl. null
	for i := 0; i < nSites; i++ {
		vals := []*D{dnull(), dnum("1"), dstr("x"), dobj(), darr()}
		t := base.Clone()
		st := sites05(t)[i]
		key := hx.Pick(g.r, unknownVariants05(st.obj.O[g.r.Intn(len(st.obj.O))].K))
		if st.obj.Get(key) != nil {
			key = "unknownField"
		}
		v := hx.Pick(g.r, vals)
		pos := g.r.Intn(len(st.obj.O) + 1)
		ms := append([]dmember{}, st.obj.O[:pos]...)
		ms = append(ms, dmember{key, v})
		st.obj.O = append(ms, st.obj.O[pos:]...)
		g.addDoc("malformed/unknown member", map[string]interface{}{"defect": "unknown member", "at": st.path, "struct": st.kind, "member": hx.JS(key), "value": v.JSON()}, t.JSON(), "", true, true)
	}
	base = g.smallFull(1, 1)
	nSites = len(sites05(base))
	// (b) case variants of known member names (accepted by encoding/json) and near misses (unknown)
	for i := 0; i < nSites; i++ {
		st0 := sites05(base)[i]
		for mi := range st0.obj.O {
			if !take(0.5) {
				continue
			}
			t := base.Clone()
			st := sites05(t)[i]
			key := st.obj.O[mi].K
			nk := hx.Pick(g.r, caseVariants05(key))
			if nk == key {
				continue
			}
			st.obj.O[mi].K = nk
			g.addDoc("malformed/case variant of a member name", map[string]interface{}{"at": st.path, "struct": st.kind, "member": key, "spelled": hx.JS(nk)}, t.JSON(), "", true, true)
		}
	}
	// (c) every member value replaced by a value of every JSON type
	for i := 0; i < nSites; i++ {
		st0 := sites05(base)[i]
		for mi := range st0.obj.O {
			for vi, v := range wrongValues05() {
				if !take(0.15) {
					continue
				}
				t := base.Clone()
				st := sites05(t)[i]
				key := st.obj.O[mi].K
				st.obj.O[mi].V = wrongValues05()[vi]
				g.addDoc("malformed/member value of another type", map[string]interface{}{"at": st.path, "struct": st.kind, "member": key, "value": v.JSON()}, t.JSON(), "", true, true)
			}
		}
	}
	// (d) list elements and map values replaced by values of every JSON type; half of them in lists of two or three
	// elements (two devices), so that the odd element is the first, the last or a middle one of several
	base2 := g.smallFull(2, 2+g.r.Intn(2))
	nSites2 := len(sites05(base2))
	for i := 0; i < nSites+nSites2; i++ {
		dbase, di, rate := base, i, 0.1
		if i >= nSites {
			dbase, di, rate = base2, i-nSites, 0.04
		}
		st0 := sites05(dbase)[di]
		for mi, mm := range st0.obj.O {
			if mm.V.K != dArr && !(mm.V.K == dObj && mm.K == "annotations") {
				continue
			}
			for vi, v := range wrongValues05() {
				if !take(rate) || (!quick && i >= nSites && !g.r.Chance(0.3)) {
					continue
				}
				t := dbase.Clone()
				st := sites05(t)[di]
				c := st.obj.O[mi].V
				where := ""
				if c.K == dArr {
					j := g.r.Intn(len(c.A))
					if g.r.Chance(0.5) {
						j = []int{0, len(c.A) - 1}[g.r.Intn(2)]
					}
					c.A[j] = wrongValues05()[vi]
					where = fmt.Sprintf("%s.%s[%d]", st.path, mm.K, j)
				} else {
					j := g.r.Intn(len(c.O))
					c.O[j].V = wrongValues05()[vi]
					where = fmt.Sprintf("%s.%s[%q]", st.path, mm.K, c.O[j].K)
				}
				g.addDoc("malformed/list element or map value of another type", map[string]interface{}{"at": where, "value": v.JSON()}, t.JSON(), "", true, true)
			}
		}
	}
	// (e) integer members at and beyond the limits of their Go types, integral floats, fractions
	intVals := []string{"0", "-1", "1", "2147483648", "4294967295", "4294967296", "9223372036854775807", "9223372036854775808",
		"-9223372036854775808", "-9223372036854775809", "18446744073709551616", "1.0", "1e3", "2.5e1", "1.5", "-0.5", "1e30", "4294967295.0", "4.294967296e9"}
	for i := 0; i < nSites; i++ {
		st0 := sites05(base)[i]
		for mi, mm := range st0.obj.O {
			isInt := mm.V.K == dNum || (mm.K == "additionalGids")
			if !isInt {
				continue
			}
			for _, lit := range intVals {
				if !take(0.25) {
					continue
				}
				t := base.Clone()
				st := sites05(t)[i]
				if mm.K == "additionalGids" {
					c := st.obj.O[mi].V
					c.A[[]int{0, len(c.A) - 1}[g.r.Intn(2)]] = dnum(lit)
				} else {
					st.obj.O[mi].V = dnum(lit)
				}
				g.addDoc("malformed/integer member range", map[string]interface{}{"at": st.path, "member": mm.K, "value": lit}, t.JSON(), "", true, true)
			}
		}
	}
	// (f) the top level
	for _, txt := range []string{"null", "", "  \n", "[]", "[{}]", "\"text\"", "1", "true", "{}", "{\"cdiVersion\":\"1.0.0\"}",
		"{\"cdiVersion\":\"1.0.0\",\"kind\":\"vendor.com/class\"}", "{\"cdiVersion\":\"1.0.0\",\"kind\":\"vendor.com/class\",\"devices\":[null]}",
		"{\"cdiVersion\":\"1.0.0\",\"kind\":\"vendor.com/class\",\"devices\":[{}]}",
		"{\"cdiVersion\":\"1.0.0\",\"kind\":\"vendor.com/class\",\"devices\":[{\"name\":\"d\"}]}",
		"{\"cdiVersion\":\"1.0.0\",\"kind\":\"vendor.com/class\",\"devices\":[{\"name\":\"d\",\"containerEdits\":{\"env\":[\"A=b\"]}}]}",
		"{\"cdiVersion\":\"0.5.0\",\"kind\":\"vendor.com/class\",\"devices\":[{\"name\":1,\"containerEdits\":{\"env\":[\"A=b\"]}}]}",
		"{\"cdiVersion\":\"0.3.0\",\"kind\":\"vendor.com/class\",\"devices\":[{\"name\":1,\"containerEdits\":{\"env\":[\"A=b\"]}}]}",
		"{\"cdiVersion\":\"0.5.0\",\"kind\":\"vendor.com/class\",\"devices\":[{\"name\":1.5,\"containerEdits\":{\"env\":[\"A=b\"]}}]}",
		"{\"cdiVersion\":\"0.5.0\",\"kind\":\"vendor.com/class\",\"devices\":[{\"name\":-1,\"containerEdits\":{\"env\":[\"A=b\"]}}]}",
		"{\"cdiVersion\":\"0.3.0\",\"kind\":\"vendor.com/class\",\"devices\":[{\"name\":true,\"containerEdits\":{\"env\":[\"A=b\"]}}]}",
		"{\"cdiVersion\":\"0.3.0\",\"kind\":\"vendor.com/class\",\"annotations\":{},\"devices\":[{\"name\":\"d\",\"annotations\":null,\"containerEdits\":{\"env\":[\"A=b\"]}}]}",
		"{\"cdiVersion\":\"0.6.0\",\"kind\":\"vendor.com/class\",\"annotations\":{\"k\":null},\"devices\":[{\"name\":\"d\",\"containerEdits\":{\"env\":[\"A=b\"]}}]}",
		"{\"cdiVersion\":\"0.5.0\",\"kind\":\"vendor.com/class\",\"annotations\":{\"k\":null},\"devices\":[{\"name\":\"d\",\"containerEdits\":{\"env\":[\"A=b\"]}}]}",
		"{\"cdiVersion\":\"0.3.0\",\"kind\":\"vendor.com/class\",\"devices\":[{\"name\":\"d\",\"containerEdits\":{\"additionalGids\":[]}}]}",
		"{\"cdiVersion\":\"0.7.0\",\"kind\":\"vendor.com/class\",\"devices\":[{\"name\":\"d\",\"containerEdits\":{\"additionalGids\":[null]}}]}",
		"{\"cdiVersion\":\"0.7.0\",\"kind\":\"vendor.com/class\",\"devices\":[{\"name\":\"d\",\"containerEdits\":{\"intelRdt\":{}}}]}",
		"{\"cdiVersion\":\"0.6.0\",\"kind\":\"vendor.com/class\",\"devices\":[{\"name\":\"d\",\"containerEdits\":{\"intelRdt\":{}}}]}",
		"{\"cdiVersion\":\"0.7.0\",\"kind\":\"vendor.com/class\",\"devices\":[{\"name\":\"d\",\"containerEdits\":{\"intelRdt\":null}}]}",
		"{\"cdiVersion\":\"0.3.0\",\"kind\":\"vendor.com/class\",\"devices\":[{\"name\":\"d\",\"containerEdits\":{\"hooks\":[{\"hookName\":\"prestart\",\"path\":\"/p\",\"args\":[null,1,true]}]}}]}",
	} {
		g.addDoc("malformed/top level and null placements", map[string]interface{}{"text": txt}, txt, "", true, true)
	}
	// (g) YAML-only spellings of scalars
	ytmpl := "cdiVersion: %s\nkind: vendor.com/class\ndevices:\n- name: %s\n  containerEdits:\n    env: [%s]\n    deviceNodes:\n    - path: %s\n      major: %s\n"
	for _, f := range [][5]string{
		{"0.5.0", "0x10", "A=b", "/dev/x", "1"},
		{"0.3.0", "yes", "A=b", "/dev/x", "1"},
		{"0.3.0", "dev", "A=b", "/dev/x", "0x10"},
		{"0.3.0", "dev", "A=b", "/dev/x", "010"},
		{"0.3.0", "dev", "A=b", "/dev/x", "1_000"},
		{"0.3.0", "dev", "A=b", "/dev/x", "yes"},
		{"0.3.0", "dev", "A=b", "/dev/x", "~"},
		{"0.3.0", "dev", "A=b", "~", "1"},
		{"0.3.0", "~", "A=b", "/dev/x", "1"},
		{"0.3.0", "dev", "~", "/dev/x", "1"},
		{"0.3.0", "dev", "on", "/dev/x", "1"},
		{"0.3.0", "dev", "A=b", "12", "'1'"},
		{"0.3.0", "dev", "A=b", ".5", "1"},
		{"0.3.0", "'dev'", "\"A=b\"", "/dev/x", "1.0"},
		{"1.0", "dev", "A=b", "/dev/x", "1"},
		{"0.5.0", "1e3", "A=b", "/dev/x", "1e3"},
	} {
		txt := fmt.Sprintf(ytmpl, f[0], f[1], f[2], f[3], f[4])
		g.addDoc("malformed/YAML scalar spellings", map[string]interface{}{"yaml": txt}, "", txt, true, true)
	}
	// (h) YAML-only document forms around a Spec: directives and document markers, comments, a byte order mark, CRLF line
	// ends, anchors and aliases, block scalars, explicit keys, tags, escapes, non-string keys
	for _, txt := range []string{
		"%YAML 1.1\n---\n# a comment\ncdiVersion: !!str 1.0.0\nkind: vendor.com/class # trailing comment\ndevices:\n- name: dev\n  containerEdits:\n    env: [A=b]\n...\n",
		"\ufeffcdiVersion: 1.0.0\r\nkind: vendor.com/class\r\ndevices:\r\n- name: dev\r\n  containerEdits:\r\n    env: [A=b]\r\n",
		"cdiVersion: 1.0.0\nkind: vendor.com/class\ncontainerEdits:\n  env: &e [A=b, C=d]\ndevices:\n- name: dev\n  containerEdits:\n    env: *e\n- name: dev2\n  containerEdits: &ce\n    hooks:\n    - {hookName: prestart, path: /bin/h, env: *e}\n- name: dev3\n  containerEdits: *ce\n",
		"cdiVersion: 1.0.0\nkind: vendor.com/class\ncontainerEdits:\n  env: &e [A=b]\ndevices:\n- name: *e\n  containerEdits:\n    env: *e\n",
		"cdiVersion: 1.0.0\nkind: vendor.com/class\ncontainerEdits:\n  env: &e [NOEQUALS]\ndevices:\n- name: dev\n  containerEdits:\n    env: [A=b]\n- name: dev2\n  containerEdits:\n    env: *e\n",
		"cdiVersion: 1.0.0\nkind: vendor.com/class\ndevices:\n- name: |-\n    dev\n  containerEdits:\n    env:\n    - >-\n      A=b\n      c\n",
		"cdiVersion: 1.0.0\nkind: vendor.com/class\ndevices:\n- name: |\n    dev\n  containerEdits:\n    env: [A=b]\n",
		"? cdiVersion\n: 1.0.0\n\"kind\": 'vendor.com/class'\n'devices':\n- {name: dev, containerEdits: {env: [A=b,],},}\n",
		"cdiVersion: 1.0.0\nkind: \"vendor.com\\x2fclass\"\ndevices:\n- name: \"d\\u0065v\"\n  containerEdits:\n    env: ['A=''b']\n    deviceNodes:\n    - path: /dev/x\n      major: !!int \"7\"\n      minor: 0o17\n      fileMode: 0660\n",
		"cdiVersion: 1.0.0\nkind: vendor.com/class\ndevices:\n- name: !!str 123\n  containerEdits:\n    intelRdt: {enableCMT: !!bool \"yes\", closID: !!str 1.0}\n",
		"cdiVersion: 1.0.0\nkind: vendor.com/class\n1: x\ndevices:\n- name: dev\n  containerEdits:\n    env: [A=b]\n",
		"cdiVersion: 1.0.0\nkind: vendor.com/class\ndevices:\n- name: dev\n  containerEdits:\n    env: [A=b]\n    true: x\n",
		"cdiVersion: 1.0.0\nkind: vendor.com/class\nannotations: {1: a, true: b, 2.5: c}\ndevices:\n- name: dev\n  containerEdits:\n    env: [A=b]\n",
		"cdiVersion: 1.0.0\nkind: vendor.com/class\ndevices:\n- name: dev\n  containerEdits:\n    env: [A=b]\n    additionalGids: [0x10, 1_0, +5]\n",
		"{cdiVersion: 1.0.0, kind: vendor.com/class, devices: [{name: dev, containerEdits: {mounts: [{hostPath: /h, containerPath: /c, options: [ro, 1, yes, ~]}]}}]}\n",
	} {
		g.addDoc("malformed/YAML-only document forms", map[string]interface{}{"yaml": txt}, "", txt, true, true)
	}
	// (i) two members with the same name in one object: at every object of the tree (sampled in quick) and in the annotation
	// maps; the second member next to the first or apart from it, with the same or another value
	dbase := g.smallFull(2, 2)
	nd := len(sites05(dbase))
	for i := 0; i < nd+2; i++ {
		if !take(0.45) {
			continue
		}
		t := dbase.Clone()
		var obj *D
		where := ""
		switch {
		case i < nd:
			st := sites05(t)[i]
			obj, where = st.obj, st.path
		case i == nd:
			obj, where = t.Get("annotations"), "$.annotations"
		default:
			k := g.r.Intn(len(t.Get("devices").A))
			obj, where = t.Get("devices").A[k].Get("annotations"), fmt.Sprintf("$.devices[%d].annotations", k)
		}
		if obj == nil || obj.K != dObj || len(obj.O) == 0 {
			continue
		}
		mi := g.r.Intn(len(obj.O))
		dup := dmember{obj.O[mi].K, obj.O[mi].V.Clone()}
		how := "same value"
		switch g.r.Intn(4) {
		case 0:
			dup.V, how = dnull(), "null"
		case 1:
			dup.V, how = hx.Pick(g.r, wrongValues05()), "another value"
		}
		pos := []int{mi, mi + 1, 0, len(obj.O)}[g.r.Intn(4)]
		ms := append([]dmember{}, obj.O[:pos]...)
		ms = append(ms, dup)
		obj.O = append(ms, obj.O[pos:]...)
		g.addDupDoc("malformed/duplicate member", map[string]interface{}{"defect": "duplicate member", "at": where, "member": dup.K, "second": how,
			"positions": []int{pos, mi + map[bool]int{true: 1, false: 0}[pos <= mi]}}, t)
	}
}

// yamlBlock05 renders a tree as block-style YAML (strings double-quoted), keeping members as they are, duplicates included.
func yamlBlock05(d *D, ind string, top bool) string {
	switch d.K {
	case dNull:
		return " null\n"
	case dBool:
		if d.B {
			return " true\n"
		}
		return " false\n"
	case dNum:
		return " " + d.N + "\n"
	case dStr:
		return " " + jsonString(d.S) + "\n"
	case dArr:
		if len(d.A) == 0 {
			return " []\n"
		}
		var b strings.Builder
		b.WriteString("\n")
		for _, e := range d.A {
			b.WriteString(ind + "-" + yamlBlock05(e, ind+"  ", false))
		}
		return b.String()
	}
	if len(d.O) == 0 {
		return " {}\n"
	}
	var b strings.Builder
	if !top {
		b.WriteString("\n")
	}
	for _, m := range d.O {
		b.WriteString(ind + jsonString(m.K) + ":" + yamlBlock05(m.V, ind+"  ", false))
	}
	return b.String()
}

// addDupDoc: a document in which some object has two members of the same name, written as JSON text under a .json name,
// the same text under a .yaml name (flow style) and as block-style YAML; the case carries the tree as written (both
// members kept): a generic decoding of the bytes would have dropped one of them.
func (g *gen05) addDupDoc(class string, info map[string]interface{}, tree *D) {
	g.n++
	dir := filepath.Join(g.scratch, fmt.Sprintf("dup%05d", g.n))
	defer os.RemoveAll(dir)
	jsonText := tree.JSON()
	block := yamlBlock05(tree, "", true)
	// the block rendering must denote the same document as the JSON text (as far as a generic decoding tells)
	a, errA := yaml.YAMLToJSON([]byte(jsonText))
	b, errB := yaml.YAMLToJSON([]byte(block))
	texts := []struct{ sub, file, text string }{{"json", "doc.json", jsonText}, {"flow", "doc.yaml", jsonText}}
	if errA == nil && errB == nil && string(a) == string(b) {
		texts = append(texts, struct{ sub, file, text string }{"block", "doc.yaml", block})
	} else {
		g.stats["dup-block-rendering-differs"]++
	}
	var obs []int
	observed := map[string]string{}
	var pars []string
	for _, tx := range texts {
		d := filepath.Join(dir, tx.sub)
		_ = os.MkdirAll(d, 0o755)
		path := filepath.Join(d, tx.file)
		_ = os.WriteFile(path, []byte(tx.text), 0o644)
		o1, o2 := readRoute05(path), refreshRoute05(d, path)
		obs = append(obs, o1, o2)
		observed[tx.sub+":ReadSpec"], observed[tx.sub+":Refresh"] = obsNames05[o1], obsNames05[o2]
		pars = append(pars, parsedTerm05([]byte(tx.text)))
	}
	desc := map[string]interface{}{"encoding": "json+yaml", "document": trunc05(jsonText, 700), "observed": observed}
	for k, x := range info {
		desc[k] = x
	}
	g.s.Add(hx.Case{Term: chunkLiterals(hx.C("CDoc", tree.Coq(), obsList(obs), hx.L(pars))), Desc: desc, Class: class, Nontrivial: true})
	g.stats["verdict:"+obsNames05[obs[0]]]++
}

// ------------------------------------------------------------------------------------------------

func genC05(r *hx.R, tier string, scratch string) (*hx.Suite, error) {
	s := &hx.Suite{
		Property: "C05",
		Imports:  []string{"Base", "SpecModel", "Doc", "Decode", "Validate", "Judge05"},
		CaseType: "case05",
		Judge:    "judge05",
		Shard:    60,
		Rule: "Well-formed Specs over option vectors covering every pair of the 32 optional fields in all four on/off combinations (1-3 devices, 1-3 list " +
			"elements, declared version anywhere from the required one up) and boundary values; then ONE defect of each kind (22 kinds) at the spec level and " +
			"at the first/middle/last of three devices, at the first/last (thorough: also middle) of three list elements; each Spec is written as JSON and " +
			"as YAML and pushed through cdi.ReadSpec, Cache.Refresh+GetErrors, and as a typed value through Cache.WriteSpec (.json and .yaml). Character sweep: " +
			"every class of byte at the first/middle/last position of vendor, class, device name, annotation-key prefix and name (the characters legal in only " +
			"some of these always, the rest sampled in quick). Malformed stream " +
			"(documents only): unknown member at every object of the tree, case variants of member names (incl. U+212A / U+017F), every member value / list " +
			"element / map value replaced by a value of every JSON type, integer members around the limits of their Go types, top-level non-objects and null " +
			"placements, YAML-only scalar spellings and document forms (directives, comments, BOM, CRLF, anchors/aliases, block scalars, tags, non-string keys), " +
			"two members of one name in any object of the tree (JSON, flow and block YAML). The defects stand in varying surroundings: 1-6 devices, lists of 1-5 " +
			"elements, only the targeted list present or every optional member; bad values include runes whose low byte is a legal character and invalid UTF-8. " +
			"Non-trivial: everything except nothing (every case has optional fields or a defect).",
	}
	g := &gen05{r: r, s: s, scratch: scratch, stats: map[string]int{}}
	// well-formed Specs, pairwise coverage of the optional fields
	vecs := pairwise05(r)
	if tier == "thorough" { // two further, independently drawn covering sets
		vecs = append(vecs, pairwise05(r)[2:]...)
		vecs = append(vecs, pairwise05(r)[2:]...)
	}
	for i, on := range vecs {
		b := &builder05{r: r, on: on, m: 1 + r.Intn(3), vary: i >= 2}
		sp := b.spec(1 + r.Intn(3))
		sp.Version = hx.Pick(r, atLeast05(sp.Version))
		var names []string
		for k, v := range on {
			if v {
				names = append(names, optNames05[k])
			}
		}
		g.addSpec("wf/optional-field combinations", map[string]interface{}{"optional fields present": names, "devices": len(sp.Devices)}, sp, true)
	}
	g.boundaries()
	g.defects(tier)
	if tier == "thorough" { // the same positions again with other randomly chosen bad values
		g.defects("quick")
	}
	g.sweep(tier)
	g.malformed(tier)
	g.constants()
	s.Extra = map[string]interface{}{"x_option_vectors": len(vecs), "x_stats": g.stats}
	return s, nil
}


// constants probes the validation constants as the translator tools/gen_consts.py read them from the source on this run
// (coq/gen/consts.json): every hook stage, device node type and permission character the code names — a value added to the
// code shows up here as a Spec the library accepts and WF rejects —, and the length limits at and one beyond their value.
func (g *gen05) constants() {
	data, err := os.ReadFile(filepath.Join(os.Getenv("VERIF_DIR"), "coq", "gen", "consts.json"))
	if err != nil {
		return
	}
	var c struct {
		HookNames  []string `json:"hook_names"`
		NodeTypes  []string `json:"node_types"`
		PermChars  []string `json:"perm_chars"`
		ClosidMax  int      `json:"closid_max"`
		QnameMax   int      `json:"qname_max"`
		SubdomMax  int      `json:"dns_subdomain_max"`
		Forbidden  []string `json:"closid_forbidden"`
		BadChars   string   `json:"closid_badchars"`
		AnnotLimit int      `json:"annot_size_limit"`
	}
	if json.Unmarshal(data, &c) != nil {
		return
	}
	base := func() *specs.Spec {
		return &specs.Spec{Version: "1.0.0", Kind: "vendor.com/class", Devices: []specs.Device{{Name: "dev0", ContainerEdits: specs.ContainerEdits{Env: []string{"A=b"}}}}}
	}
	for _, h := range append(append([]string{}, c.HookNames...), "prestop", "Prestart", "") {
		sp := base()
		sp.Devices[0].ContainerEdits.Hooks = []*specs.Hook{{HookName: h, Path: "/bin/h"}}
		g.addSpec("constants/hook stage", map[string]interface{}{"hookName": h}, sp, true)
	}
	for _, t := range append(append([]string{}, c.NodeTypes...), "f", "B", "cc", "\u0162", "\u0163") {
		sp := base()
		sp.Devices[0].ContainerEdits.DeviceNodes = []*specs.DeviceNode{{Path: "/dev/x", Type: t}}
		g.addSpec("constants/node type", map[string]interface{}{"type": t}, sp, true)
	}
	for _, t := range c.NodeTypes {
		// a permission string outside rwm is a defect whatever the (legal) node type
		sp := base()
		sp.Devices[0].ContainerEdits.DeviceNodes = []*specs.DeviceNode{{Path: "/dev/x", Type: t, Permissions: "rwx"}}
		g.addSpec("constants/bad permissions per node type", map[string]interface{}{"type": t, "permissions": "rwx"}, sp, true)
	}
	// (the last three: runes whose low byte is a permission character)
	for _, p := range append(append([]string{}, c.PermChars...), "x", "R", "rwmx", "\u0172", "\u0177", "w\u016d") {
		sp := base()
		sp.Devices[0].ContainerEdits.DeviceNodes = []*specs.DeviceNode{{Path: "/dev/x", Permissions: "r" + p}}
		g.addSpec("constants/permission character", map[string]interface{}{"permissions": "r" + p}, sp, true)
	}
	for _, n := range []int{c.ClosidMax - 1, c.ClosidMax} {
		if n < 1 || n > 1<<16 {
			continue
		}
		sp := base()
		sp.Version = "1.0.0"
		sp.Devices[0].ContainerEdits.IntelRdt = &specs.IntelRdt{ClosID: strings.Repeat("c", n)}
		g.addSpec("constants/closID length", map[string]interface{}{"length": n}, sp, true)
	}
	for _, bad := range append(append([]string{}, c.Forbidden...), strings.Split(c.BadChars, "")...) {
		sp := base()
		sp.Devices[0].ContainerEdits.IntelRdt = &specs.IntelRdt{ClosID: bad}
		g.addSpec("constants/closID forbidden", map[string]interface{}{"closID": bad}, sp, true)
		sp2 := base()
		sp2.Devices[0].ContainerEdits.IntelRdt = &specs.IntelRdt{ClosID: "a" + bad + "b"}
		g.addSpec("constants/closID forbidden", map[string]interface{}{"closID": "a" + bad + "b"}, sp2, true)
	}
	for _, n := range []int{c.QnameMax, c.QnameMax + 1} {
		if n < 1 || n > 4096 {
			continue
		}
		sp := base()
		sp.Annotations = map[string]string{strings.Repeat("k", n): "v"}
		g.addSpec("constants/annotation name length", map[string]interface{}{"length": n}, sp, true)
	}
	for _, n := range []int{c.SubdomMax, c.SubdomMax + 1} {
		if n < 4 || n > 4096 {
			continue
		}
		// a DNS subdomain of exactly n bytes: labels of at most 63 separated by dots
		var b strings.Builder
		for b.Len() < n {
			k := n - b.Len()
			if b.Len() > 0 {
				b.WriteByte('.')
				k--
			}
			if k > 60 {
				k = 60
			}
			if k <= 0 {
				break
			}
			b.WriteString(strings.Repeat("d", k))
		}
		pre := b.String()
		if len(pre) != n {
			continue
		}
		sp := base()
		sp.Annotations = map[string]string{pre + "/name": "v"}
		g.addSpec("constants/annotation prefix length", map[string]interface{}{"length": n}, sp, true)
	}
}
