package main

import (
	"encoding/json"
	"sort"

	specs "tags.cncf.io/container-device-interface/specs-go"
	"verif/harness/hx"
)

// Gallina terms for the records of CDI.SpecModel.

func optZ32(p *uint32) string {
	if p == nil {
		return hx.None
	}
	return hx.Some(hx.ZU(uint64(*p)))
}

func devnodeTerm(d *specs.DeviceNode) string {
	if d == nil {
		return hx.None
	}
	fm := hx.None
	if d.FileMode != nil {
		fm = hx.Some(hx.ZU(uint64(*d.FileMode)))
	}
	return hx.Some(hx.C("mkDevnode", hx.S(d.Path), hx.S(d.HostPath), hx.S(d.Type), hx.Z(d.Major), hx.Z(d.Minor),
		fm, hx.S(d.Permissions), optZ32(d.UID), optZ32(d.GID)))
}

func mountTerm(m *specs.Mount) string {
	if m == nil {
		return hx.None
	}
	return hx.Some(hx.C("mkMount", hx.S(m.HostPath), hx.S(m.ContainerPath), hx.LS(m.Options), hx.S(m.Type)))
}

func hookTerm(h *specs.Hook) string {
	if h == nil {
		return hx.None
	}
	to := hx.None
	if h.Timeout != nil {
		to = hx.Some(hx.Z(int64(*h.Timeout)))
	}
	return hx.Some(hx.C("mkHook", hx.S(h.HookName), hx.S(h.Path), hx.LS(h.Args), hx.LS(h.Env), to))
}

func editsTerm(e *specs.ContainerEdits) string {
	nodes := make([]string, len(e.DeviceNodes))
	for i, d := range e.DeviceNodes {
		nodes[i] = devnodeTerm(d)
	}
	hooks := make([]string, len(e.Hooks))
	for i, h := range e.Hooks {
		hooks[i] = hookTerm(h)
	}
	mounts := make([]string, len(e.Mounts))
	for i, m := range e.Mounts {
		mounts[i] = mountTerm(m)
	}
	rdt := hx.None
	if e.IntelRdt != nil {
		r := e.IntelRdt
		rdt = hx.Some(hx.C("mkRdt", hx.S(r.ClosID), hx.S(r.L3CacheSchema), hx.S(r.MemBwSchema), hx.B(r.EnableCMT), hx.B(r.EnableMBM)))
	}
	gids := make([]string, len(e.AdditionalGIDs))
	for i, g := range e.AdditionalGIDs {
		gids[i] = hx.ZU(uint64(g))
	}
	return hx.C("mkEdits", hx.LS(e.Env), hx.L(nodes), hx.L(hooks), hx.L(mounts), rdt, hx.L(gids))
}

func annotsTerm(m map[string]string) string {
	keys := make([]string, 0, len(m))
	for k := range m {
		keys = append(keys, k)
	}
	sort.Strings(keys)
	items := make([]string, len(keys))
	for i, k := range keys {
		items[i] = hx.P(hx.S(k), hx.S(m[k]))
	}
	return hx.L(items)
}

func deviceTerm(d *specs.Device) string {
	return hx.C("mkDevice", hx.S(d.Name), annotsTerm(d.Annotations), editsTerm(&d.ContainerEdits))
}

func specTerm(s *specs.Spec) string {
	devs := make([]string, len(s.Devices))
	for i := range s.Devices {
		devs[i] = deviceTerm(&s.Devices[i])
	}
	return hx.C("mkSpec", hx.S(s.Version), hx.S(s.Kind), annotsTerm(s.Annotations), hx.L(devs), editsTerm(&s.ContainerEdits))
}

// specJSON renders a Spec for descriptions in evidence and replays.
func specJSON(s *specs.Spec) json.RawMessage {
	b, err := json.Marshal(s)
	if err != nil {
		return json.RawMessage(`"<unmarshalable>"`)
	}
	return b
}
