package main

import (
	"bufio"
	"encoding/json"
	"fmt"
	"golang.org/x/sys/unix"
	"os"
	"path/filepath"
	"runtime"
	"sort"
	"strconv"
	"strings"
	"time"

	"github.com/fsnotify/fsnotify"
	oci "github.com/opencontainers/runtime-spec/specs-go"
	"sigs.k8s.io/yaml"
	"tags.cncf.io/container-device-interface/pkg/cdi"
	specs "tags.cncf.io/container-device-interface/specs-go"
	"verif/harness/hx"
)

// C11 — with auto-refresh the cache converges to the directory contents by itself.
//
// Three streams of cases (judged by CDI.Judge11):
//   CEvents  one file-system operation on a directory watched by a bare fsnotify.Watcher: observed events,
//            success and resulting listing against the rule table of CDI.Watch;
//   CHist    a random history of operations (and queries) on 1-3 configured directories at random pacing against
//            a real auto-refresh cache, never calling Refresh; afterwards the cache is polled until it answers
//            like a cache freshly built from the final directories;
//   CFilter  the decisions of the event filter logged by the verifEvent hook during the histories.

func init() { registry["C11"] = genC11 }

// ---------- contents ----------

type c11Content struct {
	term string
	data []byte
	spec *specs.Spec // nil for contents that do not load
}

// index 0 = empty, 1..2 = bad, then the valid Specs; the last one (c11Solo) defines a device nothing else defines
var c11Pool []c11Content
var c11Solo int

// The tags stand for "the rest of the definitions": two valid contents with the same kind and device names differ in the
// environment variable FROM=<tag> of every device, in nothing else, and have the same length in bytes.
var c11Tags = []string{"ta", "tb"}

func c11InitPool() {
	if c11Pool != nil {
		return
	}
	c11Pool = append(c11Pool, c11Content{"CEmpty", nil, nil})
	c11Pool = append(c11Pool, c11Content{"CBad", []byte("this is not a CDI Spec\n"), nil})
	c11Pool = append(c11Pool, c11Content{"CBad", []byte("{\"cdiVersion\":\"1.0.0\",\"kind\":\"vendor0.com/cls\"}"), nil}) // no devices
	add := func(v, class string, devs []string, tag string) {
		sp := validSpec(v, class, devs, tag)
		data, _ := json.Marshal(sp)
		c11Pool = append(c11Pool, c11Content{hx.C("CSpec", hx.S(v+"/"+class), hx.LS(devs), hx.S(tag)), data, sp})
	}
	for _, v := range []string{"vendor0.com", "vendor1.com"} {
		for _, devs := range [][]string{{"dev0"}, {"dev1"}, {"dev0", "dev1"}} {
			for _, tag := range c11Tags {
				add(v, "cls", devs, tag)
			}
		}
	}
	add("vendor9.com", "solocls", []string{"solo"}, c11Tags[0])
	c11Solo = len(c11Pool) - 1
}

// c11TagOf: the tag of a device as read from its edits ("" when there is none).
func c11TagOf(env []string) string {
	for _, e := range env {
		if strings.HasPrefix(e, "FROM=") {
			return strings.TrimPrefix(e, "FROM=")
		}
	}
	return ""
}

func c11ContentOf(data []byte) (string, bool) {
	for _, c := range c11Pool {
		if string(c.data) == string(data) {
			return c.term, true
		}
	}
	// the same Spec in another encoding (what Cache.WriteSpec writes under a .yaml name)
	var sp specs.Spec
	if len(data) > 0 && yaml.Unmarshal(data, &sp) == nil && len(sp.Devices) > 0 {
		var devs []string
		for _, d := range sp.Devices {
			devs = append(devs, d.Name)
		}
		t := hx.C("CSpec", hx.S(sp.Kind), hx.LS(devs), hx.S(c11TagOf(sp.Devices[0].ContainerEdits.Env)))
		for _, c := range c11Pool {
			if c.term == t {
				return t, true
			}
		}
	}
	return "CBad", false
}

var c11Names = []string{"a.json", "b.yaml", "c.json", "a.json.tmp", "notes.txt", "B.YAML"}

// ---------- operations ----------

type c11Op struct {
	Kind string // write movein linkin symlinkin rename moveout remove mkdir rmall
	Dir  int
	N, B string
	C    int
}

func (o c11Op) term(dirs []string) string {
	d := hx.S(dirs[o.Dir])
	switch o.Kind {
	case "write":
		return hx.C("OWrite", d, hx.S(o.N), c11Pool[o.C].term)
	case "movein":
		return hx.C("OMoveIn", d, hx.S(o.N), c11Pool[o.C].term)
	case "linkin", "symlinkin":
		return hx.C("OLinkIn", d, hx.S(o.N), c11Pool[o.C].term)
	case "rename":
		return hx.C("ORename", d, hx.S(o.N), hx.S(o.B))
	case "moveout":
		return hx.C("OMoveOut", d, hx.S(o.N))
	case "remove":
		return hx.C("ORemove", d, hx.S(o.N))
	case "mkdir":
		return hx.C("OMkdir", d)
	case "rmall":
		return hx.C("ORmAll", d)
	}
	panic("c11: unknown op " + o.Kind)
}

func (o c11Op) String() string {
	switch o.Kind {
	case "write", "movein", "linkin", "symlinkin":
		return fmt.Sprintf("%s d%d/%s %s", o.Kind, o.Dir, o.N, c11Pool[o.C].term)
	case "rename":
		return fmt.Sprintf("rename d%d/%s -> %s", o.Dir, o.N, o.B)
	case "mkdir", "rmall":
		return fmt.Sprintf("%s d%d", o.Kind, o.Dir)
	}
	return fmt.Sprintf("%s d%d/%s", o.Kind, o.Dir, o.N)
}

var c11Uniq int

// c11Links: configured directories which are symbolic links, with the real directory each leads to.  To the cache and to the
// model such a directory is a directory like any other; creating it creates the real directory and the link, removing it
// removes both (removing or retargeting the link alone raises no event at all: DEFECT-PENDING(symlinked-dir-retarget)).
var c11Links = map[string]string{}

// c11Apply performs the operation on the real directories; out is a directory outside every watched one.
func c11Apply(dirs []string, out string, o c11Op) bool {
	d := dirs[o.Dir]
	c11Uniq++
	switch o.Kind {
	case "write":
		return os.WriteFile(filepath.Join(d, o.N), c11Pool[o.C].data, 0o644) == nil
	case "movein":
		tmp := filepath.Join(out, fmt.Sprintf("src-%d", c11Uniq))
		if os.WriteFile(tmp, c11Pool[o.C].data, 0o644) != nil {
			return false
		}
		if os.Rename(tmp, filepath.Join(d, o.N)) != nil {
			_ = os.Remove(tmp)
			return false
		}
		return true
	case "linkin":
		tmp := filepath.Join(out, fmt.Sprintf("src-%d", c11Uniq))
		if os.WriteFile(tmp, c11Pool[o.C].data, 0o644) != nil {
			return false
		}
		err := os.Link(tmp, filepath.Join(d, o.N))
		_ = os.Remove(tmp) // the name inside the directory stays the only link
		return err == nil
	case "symlinkin":
		tmp := filepath.Join(out, fmt.Sprintf("target-%d", c11Uniq))
		if os.WriteFile(tmp, c11Pool[o.C].data, 0o644) != nil {
			return false
		}
		return os.Symlink(tmp, filepath.Join(d, o.N)) == nil
	case "rename":
		return os.Rename(filepath.Join(d, o.N), filepath.Join(d, o.B)) == nil
	case "moveout":
		return os.Rename(filepath.Join(d, o.N), filepath.Join(out, fmt.Sprintf("gone-%d", c11Uniq))) == nil
	case "remove":
		return os.Remove(filepath.Join(d, o.N)) == nil
	case "mkdir":
		if real, ok := c11Links[d]; ok {
			if _, err := os.Lstat(d); err == nil {
				return false
			}
			return os.Mkdir(real, 0o755) == nil && os.Symlink(real, d) == nil
		}
		return os.Mkdir(d, 0o755) == nil
	case "rmall":
		_, err := os.Lstat(d)
		if real, ok := c11Links[d]; ok {
			_ = os.RemoveAll(real)
			_ = os.Remove(d)
			return err == nil
		}
		_ = os.RemoveAll(d)
		return err == nil
	}
	panic("c11: unknown op " + o.Kind)
}

// listing of a directory as a dirc term (None if missing) plus a readable form
func c11Listing(d string) (string, []string, bool) {
	ents, err := os.ReadDir(d)
	if err != nil {
		return hx.None, nil, false
	}
	var items, human []string
	for _, e := range ents {
		if e.Type()&os.ModeNamedPipe != 0 {
			// a FIFO (used to hold the initial scan, see c11History): an unloadable file; never opened here
			items = append(items, hx.P(hx.S(e.Name()), "CBad"))
			human = append(human, e.Name()+":fifo")
			continue
		}
		data, _ := os.ReadFile(filepath.Join(d, e.Name()))
		t, _ := c11ContentOf(data)
		items = append(items, hx.P(hx.S(e.Name()), t))
		human = append(human, e.Name()+":"+t)
	}
	return hx.L(items), human, true
}

// ---------- (i) event table ----------

var c11OpNames = map[fsnotify.Op]string{fsnotify.Create: "Create", fsnotify.Write: "Write", fsnotify.Remove: "Remove", fsnotify.Rename: "Rename", fsnotify.Chmod: "Chmod"}

func c11OpsTerm(op fsnotify.Op) string {
	var items []string
	for _, o := range []fsnotify.Op{fsnotify.Create, fsnotify.Write, fsnotify.Remove, fsnotify.Rename, fsnotify.Chmod} {
		if op&o != 0 {
			items = append(items, c11OpNames[o])
		}
	}
	return hx.L(items)
}

func c11EventCase(r *hx.R, root string, idx int, kind string) (hx.Case, error) {
	base := filepath.Join(root, fmt.Sprintf("e%04d", idx))
	d, sent, out := filepath.Join(base, "D"), filepath.Join(base, "S"), filepath.Join(base, "out")
	linked := idx%4 == 3 // the watched directory is a symbolic link to a directory: the same rules
	mk := []string{d, sent, out}
	if linked {
		mk[0] = filepath.Join(base, "Dreal")
	}
	for _, p := range mk {
		if err := os.MkdirAll(p, 0o755); err != nil {
			return hx.Case{}, err
		}
	}
	if linked {
		if err := os.Symlink(mk[0], d); err != nil {
			return hx.Case{}, err
		}
		c11Links[d] = mk[0]
		defer delete(c11Links, d)
	}
	// initial population
	var pre, preHuman []string
	for _, n := range c11Names {
		if r.Chance(0.45) {
			c := r.Intn(len(c11Pool))
			_ = os.WriteFile(filepath.Join(d, n), c11Pool[c].data, 0o644)
			pre = append(pre, hx.P(hx.S(n), c11Pool[c].term))
			preHuman = append(preHuman, n+":"+c11Pool[c].term)
		}
	}
	o := c11Op{Kind: kind, N: hx.Pick(r, c11Names), B: hx.Pick(r, c11Names), C: r.Intn(len(c11Pool))}
	if len(pre) > 0 && r.Chance(0.6) && (kind == "rename" || kind == "moveout" || kind == "remove" || kind == "write") {
		ents, _ := os.ReadDir(d)
		o.N = ents[r.Intn(len(ents))].Name()
	}
	w, err := fsnotify.NewWatcher()
	if err != nil {
		return hx.Case{}, err
	}
	defer w.Close()
	if err := w.Add(d); err != nil {
		return hx.Case{}, err
	}
	if err := w.Add(sent); err != nil {
		return hx.Case{}, err
	}
	ok := c11Apply([]string{d}, out, o)
	post, postHuman, _ := c11Listing(d)
	if post != hx.None {
		post = hx.Some(post)
	}
	// events of one inotify instance are delivered in order: everything before the sentinel belongs to the operation
	mark := filepath.Join(sent, "mark")
	_ = os.WriteFile(mark, nil, 0o644)
	var obs, obsHuman []string
	deadline := time.After(10 * time.Second)
loop:
	for {
		select {
		case e := <-w.Events:
			if e.Name == mark {
				break loop
			}
			name := strings.TrimPrefix(strings.TrimPrefix(e.Name, d), "/")
			obs = append(obs, hx.P(c11OpsTerm(e.Op), hx.S(name)))
			obsHuman = append(obsHuman, e.Op.String()+" "+name)
		case err := <-w.Errors:
			return hx.Case{}, fmt.Errorf("fsnotify error: %v", err)
		case <-deadline:
			return hx.Case{}, fmt.Errorf("no sentinel event within 10s")
		}
	}
	return hx.Case{
		Term: hx.C("CEvents", hx.L(pre), o.term([]string{"D"}), hx.B(ok), post, hx.L(obs)),
		Desc: map[string]interface{}{"stream": "event-table", "before": preHuman, "op": o.String(), "ok": ok, "after": postHuman,
			"observed_events": obsHuman, "watched_directory_is_a_symlink": linked},
		Nontrivial: ok,
		Class:      "events",
	}, nil
}

// ---------- (ii) convergence ----------

// Input classes on which the unchanged code violates the property (notes/audit/DEFECT-C11-*.md).  They stay out of the
// generator until the integrator has decided between a repair and a known finding; VERIF_PENDING=<slug>,... switches a
// class on for one run.
const (
	c11PendingDirRenamedAway = true  // DEFECT-PENDING(dir-renamed-away)
	c11PendingLinkRetarget   = true  // the re-pointing half is known finding C11/symlinked-dir-retarget, the removal half repaired (D28)
	c11PendingQueueOverflow  = true  // DEFECT-PENDING(queue-overflow)
)

func c11Pending(slug string) bool {
	switch slug {
	case "dir-renamed-away":
		if c11PendingDirRenamedAway {
			return true
		}
	case "symlinked-dir-retarget":
		if c11PendingLinkRetarget {
			return true
		}
	case "queue-overflow":
		if c11PendingQueueOverflow {
			return true
		}
	}
	for _, x := range strings.Split(os.Getenv("VERIF_PENDING"), ",") {
		if x == slug {
			return true
		}
	}
	return false
}

type c11Answer struct {
	Devs [][2]string
	Errs []string
}

func (a c11Answer) equal(b c11Answer) bool {
	if len(a.Devs) != len(b.Devs) || len(a.Errs) != len(b.Errs) {
		return false
	}
	for i := range a.Devs {
		if a.Devs[i] != b.Devs[i] {
			return false
		}
	}
	for i := range a.Errs {
		if a.Errs[i] != b.Errs[i] {
			return false
		}
	}
	return true
}

func (a c11Answer) devTerm() string {
	items := make([]string, len(a.Devs))
	for i, d := range a.Devs {
		items[i] = hx.P(hx.S(d[0]), hx.S(d[1]))
	}
	return hx.L(items)
}

func (a c11Answer) human(root string) map[string]interface{} {
	devs := []string{}
	for _, d := range a.Devs {
		devs = append(devs, d[0]+" <- "+strings.TrimPrefix(d[1], root))
	}
	errs := []string{}
	for _, e := range a.Errs {
		errs = append(errs, strings.TrimPrefix(e, root))
	}
	return map[string]interface{}{"devices": devs, "errors": errs}
}

// c11Ask queries the cache: ListDevices, for each device GetDevice(..): GetSpec().GetPath() and the tag in its edits, key set of GetErrors.
// consistent=false when the cache changed between the calls (a listed device no longer resolves) or a call panicked.
func c11Ask(c *cdi.Cache) (a c11Answer, consistent bool) {
	consistent = true
	p, _ := hx.Guard(func() {
		for _, name := range c.ListDevices() {
			dev := c.GetDevice(name)
			if dev == nil {
				consistent = false
				continue
			}
			a.Devs = append(a.Devs, [2]string{name, dev.GetSpec().GetPath() + "#" + c11TagOf(dev.ContainerEdits.Env)})
		}
		for k := range c.GetErrors() {
			a.Errs = append(a.Errs, k)
		}
	})
	if p {
		consistent = false
	}
	sort.Slice(a.Devs, func(i, j int) bool { return a.Devs[i][0] < a.Devs[j][0] })
	sort.Strings(a.Errs)
	return
}

func c11Fresh(dirs []string) c11Answer {
	c, _ := cdi.NewCache(cdi.WithSpecDirs(dirs...), cdi.WithAutoRefresh(true))
	a, _ := c11Ask(c)
	_ = c.Configure(cdi.WithAutoRefresh(false)) // releases the watcher
	return a
}

// c11FreshQuery: what query k answers on a freshly built cache.
func c11FreshQuery(dirs []string, k int) string {
	c, _ := cdi.NewCache(cdi.WithSpecDirs(dirs...), cdi.WithAutoRefresh(true))
	a := c11Queries[k].ask(c)
	_ = c.Configure(cdi.WithAutoRefresh(false))
	return a
}

// c11Queries: the query functions which may be the first to be called after a change nothing announces (every one of them
// begins with refreshIfRequired).  Each returns its answer in a comparable form.
var c11Queries = []struct {
	name string
	ask  func(c *cdi.Cache) string
}{
	{"GetDevice", func(c *cdi.Cache) string {
		d := c.GetDevice("vendor9.com/solocls=solo")
		if d == nil {
			return "nil"
		}
		return d.GetSpec().GetPath() + "#" + c11TagOf(d.ContainerEdits.Env)
	}},
	{"InjectDevices", func(c *cdi.Cache) string {
		o := &oci.Spec{}
		un, err := c.InjectDevices(o, "vendor9.com/solocls=solo")
		if err != nil || o.Process == nil {
			return fmt.Sprint("unresolved ", un)
		}
		return fmt.Sprint(o.Process.Env)
	}},
	{"ListVendors", func(c *cdi.Cache) string { return fmt.Sprint(c.ListVendors()) }},
	{"ListClasses", func(c *cdi.Cache) string { return fmt.Sprint(c.ListClasses()) }},
	{"GetVendorSpecs", func(c *cdi.Cache) string {
		var l []string
		for _, sp := range c.GetVendorSpecs("vendor9.com") {
			l = append(l, sp.GetPath())
		}
		sort.Strings(l)
		return fmt.Sprint(l)
	}},
	{"ListDevices", func(c *cdi.Cache) string { return fmt.Sprint(c.ListDevices()) }},
	{"Refresh", func(c *cdi.Cache) string {
		// in automatic mode Refresh() is refreshIfRequired(false) too; GetErrors itself never refreshes
		_ = c.Refresh()
		var l []string
		for k := range c.GetErrors() {
			l = append(l, k)
		}
		sort.Strings(l)
		return fmt.Sprint(l)
	}},
}

type c11Stats struct {
	notConverged int
	waits        []float64
	pacing       map[string]int
	opsOK        map[string]int
	opsFailed    map[string]int
	tails        map[string]int
	nextQuery    int
}

func c11History(r *hx.R, root string, idx int, tier string, st *c11Stats) hx.Case {
	base := filepath.Join(root, fmt.Sprintf("h%04d", idx))
	out := filepath.Join(base, "out")
	_ = os.MkdirAll(out, 0o755)
	nd := 1 + r.Intn(3)
	dirs := make([]string, nd) // clean and distinct: the operations and the model use these names
	holdDir := -1
	onlyPrelude := false
	var initTerms []string
	initHuman := map[string]interface{}{}
	defer func() {
		for _, d := range dirs {
			delete(c11Links, d)
		}
	}()
	for i := range dirs {
		dirs[i] = filepath.Join(base, fmt.Sprintf("d%d", i))
		linked := r.Chance(0.2)
		if linked {
			// the configured directory is a symbolic link to a directory: watched and scanned through the link
			c11Links[dirs[i]] = filepath.Join(base, fmt.Sprintf("real%d", i))
			st.tails["a configured directory is a symbolic link"]++
		}
		if r.Chance(0.3) {
			initHuman[fmt.Sprintf("d%d", i)] = "missing"
			continue
		}
		if linked {
			_ = os.MkdirAll(c11Links[dirs[i]], 0o755)
			_ = os.Symlink(c11Links[dirs[i]], dirs[i])
		} else {
			_ = os.MkdirAll(dirs[i], 0o755)
		}
		for _, n := range c11Names {
			if r.Chance(0.3) {
				_ = os.WriteFile(filepath.Join(dirs[i], n), c11Pool[r.Intn(len(c11Pool))].data, 0o644)
			}
		}
		if holdDir < 0 && r.Chance(0.3) {
			// a FIFO with a Spec name holds the cache's initial scan of this directory until the harness opens its write
			// end: changes made meanwhile fall between the start of cache creation and the end of its first scan
			if unix.Mkfifo(filepath.Join(dirs[i], "m.yaml"), 0o644) == nil {
				holdDir = i
			}
		}
		t, h, _ := c11Listing(dirs[i])
		initTerms = append(initTerms, hx.P(hx.S(dirs[i]), t))
		initHuman[fmt.Sprintf("d%d", i)] = h
	}

	// What the caches are given: the directories in clean or non-clean spellings (WithSpecDirs cleans them; events, tracked
	// directories and error keys carry the clean names), now and then with the first directory once more at the end (highest
	// priority; one watch).  The machine gets the clean names, with the repetition.
	spell := func(d string) string {
		switch r.Intn(8) {
		case 0:
			return d + "/"
		case 1:
			return d + "/."
		case 2:
			return filepath.Dir(d) + "//" + filepath.Base(d)
		case 3:
			return filepath.Dir(d) + "/nowhere/../" + filepath.Base(d)
		}
		return d
	}
	confDirs := make([]string, nd)
	for i := range dirs {
		confDirs[i] = spell(dirs[i])
	}
	modelDirs := append([]string{}, dirs...)
	if r.Chance(0.12) {
		confDirs = append(confDirs, spell(dirs[0]))
		modelDirs = append(modelDirs, dirs[0])
		st.tails["a directory configured twice"]++
	}
	lastIdx := nd - 1 // the directory Cache.WriteSpec / RemoveSpec act on
	if len(modelDirs) > nd {
		lastIdx = 0
	}
	var cache *cdi.Cache
	created := make(chan bool, 1)
	var preDirs []string
	if holdDir < 0 && r.Chance(0.25) {
		// the cache starts on another list of directories and is pointed at these ones by Configure(WithSpecDirs) alone,
		// the mode untouched: it must watch them exactly like a new cache; the machine starts from the same state
		other := filepath.Join(base, "other")
		_ = os.MkdirAll(other, 0o755)
		_ = os.WriteFile(filepath.Join(other, "a.json"), c11Pool[3+r.Intn(len(c11Pool)-3)].data, 0o644)
		switch r.Intn(3) {
		case 0:
			preDirs = []string{other}
		case 1:
			preDirs = []string{other, dirs[0]}
		default:
			preDirs = append([]string{dirs[nd-1]}, other)
		}
		st.tails["reconfigured onto these directories before the history"]++
	}
	go func() {
		if preDirs != nil {
			cache, _ = cdi.NewCache(cdi.WithSpecDirs(preDirs...), cdi.WithAutoRefresh(true))
			_ = cache.Configure(cdi.WithSpecDirs(confDirs...))
		} else {
			cache, _ = cdi.NewCache(cdi.WithSpecDirs(confDirs...), cdi.WithAutoRefresh(true))
		}
		created <- true
	}()
	if holdDir < 0 {
		<-created
		if r.Chance(0.25) {
			// the same cache reconfigured before the history starts (automatic refresh off and on again, same directories):
			// it must watch again exactly like a new one; the machine starts from the same state
			_ = cache.Configure(cdi.WithAutoRefresh(false))
			if r.Chance(0.5) {
				_ = cache.Configure(cdi.WithAutoRefresh(false))
			}
			_ = cache.Configure(cdi.WithAutoRefresh(true))
			st.tails["reconfigured off/on before the history"]++
		}
	}
	defer func() {
		if cache != nil {
			_ = cache.Configure(cdi.WithAutoRefresh(false))
		}
	}()

	pacings := []string{"none", "gosched", "sleep", "burst", "stall", "mixed"}
	pacing := pacings[r.Intn(len(pacings))]
	st.pacing[pacing]++
	nops := 4 + r.Intn(22)
	if pacing == "sleep" {
		nops = 3 + r.Intn(8)
	}

	var labels, human []string
	nOK := 0
	racyMkdir := false // set in the one stream that leaves the window between Add and scan open (see below)
	locked := false
	unlock := func() {
		if locked {
			cache.Unlock()
			locked = false
		}
	}
	modelSteps := func() {
		// labels only the machine sees: the result must not depend on when events are read and handled
		for r.Chance(0.5) {
			switch r.Intn(6) {
			case 0:
				labels = append(labels, hx.P("LRead", "true"))
			case 1:
				labels = append(labels, hx.P("LHandle", "true"))
			case 2:
				kinds := []string{"Chmod", "Write", "Create"}
				labels = append(labels, hx.P(hx.C("LNoise", hx.Pick(r, kinds), hx.S(dirs[r.Intn(nd)]), hx.S(hx.Pick(r, c11Names))), "true"))
			default:
				labels = append(labels, hx.P("LDeliver", "true"))
			}
		}
	}
	var do func(o c11Op)
	do = func(o c11Op) {
		if o.Kind == "writespec" || o.Kind == "removespec" {
			// Cache.WriteSpec / Cache.RemoveSpec as the source of the change: they act on the last configured directory.
			// Not while this goroutine holds the cache lock (they take it), and not into a missing directory (WriteSpec
			// would create and populate it in one go: the window of known finding C11/add-scan-window).
			_, statErr := os.Stat(dirs[lastIdx])
			if locked || cache == nil || statErr != nil || racyMkdir {
				if o.Kind == "writespec" {
					do(c11Op{Kind: "write", Dir: lastIdx, N: o.N + ".tmp", C: o.C})
					do(c11Op{Kind: "rename", Dir: lastIdx, N: o.N + ".tmp", B: o.N})
				} else {
					do(c11Op{Kind: "remove", Dir: lastIdx, N: o.N})
				}
				return
			}
			d := hx.S(dirs[lastIdx])
			if o.Kind == "writespec" {
				var err error
				p, _ := hx.Guard(func() { err = cache.WriteSpec(c11Pool[o.C].spec, o.N) })
				ok := !p && err == nil
				// temporary file (spec.<random>.tmp: no Spec name), written, renamed over the target
				labels = append(labels, hx.P(hx.C("LOp", hx.C("OWrite", d, hx.S("spec.tmp"), c11Pool[o.C].term)), hx.B(ok)))
				labels = append(labels, hx.P(hx.C("LOp", hx.C("ORename", d, hx.S("spec.tmp"), hx.S(o.N))), hx.B(ok)))
				human = append(human, fmt.Sprintf("cache.WriteSpec(%s, %s) into d%d => %v", c11Pool[o.C].term, o.N, lastIdx, ok))
				if ok {
					st.opsOK[o.Kind]++
					nOK++
				} else {
					st.opsFailed[o.Kind]++
				}
			} else {
				_, lerr := os.Lstat(filepath.Join(dirs[lastIdx], o.N))
				var err error
				p, _ := hx.Guard(func() { err = cache.RemoveSpec(o.N) })
				ok := !p && err == nil && lerr == nil
				labels = append(labels, hx.P(hx.C("LOp", hx.C("ORemove", d, hx.S(o.N))), hx.B(ok)))
				human = append(human, fmt.Sprintf("cache.RemoveSpec(%s) in d%d => %v", o.N, lastIdx, ok))
				if ok {
					st.opsOK[o.Kind]++
					nOK++
				} else {
					st.opsFailed[o.Kind]++
				}
			}
			modelSteps()
			return
		}
		ok := c11Apply(dirs, out, o)
		if !ok {
			st.opsFailed[o.Kind]++
		}
		if ok {
			st.opsOK[o.Kind]++
			nOK++
			if o.Kind == "mkdir" && !locked && !racyMkdir {
				// The model's update+refresh is one atomic step.  In the code a directory which is missing when update()
				// tries to watch it, but exists and is populated when the same refresh scans it a few microseconds later,
				// ends up cached but unwatched (known finding C11/add-scan-window).  Outside the stream that targets this
				// window, a directory created while the watcher may run is populated 2 ms later at the earliest.
				time.Sleep(2 * time.Millisecond)
			}
		}
		labels = append(labels, hx.P(hx.C("LOp", o.term(dirs)), hx.B(ok)))
		human = append(human, fmt.Sprintf("%s => %v", o, ok))
		modelSteps()
	}
	pickName := func(d int, existing float64) string {
		if r.Chance(existing) {
			if ents, err := os.ReadDir(dirs[d]); err == nil && len(ents) > 0 {
				return ents[r.Intn(len(ents))].Name()
			}
		}
		return hx.Pick(r, c11Names)
	}
	// retag: rewrite an existing valid Spec file so that nothing changes but the definitions of its devices (same kind, same
	// device names, same length in bytes; the other tag); ok=false when the directory holds no valid Spec file
	retag := func(d int) (c11Op, bool) {
		ents, err := os.ReadDir(dirs[d])
		if err != nil {
			return c11Op{}, false
		}
		var cands []c11Op
		for _, e := range ents {
			if !e.Type().IsRegular() {
				continue
			}
			data, err := os.ReadFile(filepath.Join(dirs[d], e.Name()))
			if err != nil {
				continue
			}
			for i := 3; i < c11Solo; i++ {
				if string(c11Pool[i].data) == string(data) {
					cands = append(cands, c11Op{Kind: "write", Dir: d, N: e.Name(), C: 3 + ((i - 3) ^ 1)})
				}
			}
		}
		if len(cands) == 0 {
			return c11Op{}, false
		}
		return cands[r.Intn(len(cands))], true
	}
	randomOp := func() []c11Op {
		d := r.Intn(nd)
		c := r.Intn(len(c11Pool))
		switch k := r.Intn(100); {
		case k < 4:
			if o, ok := retag(d); ok {
				return []c11Op{o}
			}
			return []c11Op{{Kind: "write", Dir: d, N: pickName(d, 0.3), C: c}}
		case k < 22:
			return []c11Op{{Kind: "write", Dir: d, N: pickName(d, 0.3), C: c}}
		case k < 32:
			return []c11Op{{Kind: "movein", Dir: d, N: pickName(d, 0.2), C: c}}
		case k < 40:
			return []c11Op{{Kind: "linkin", Dir: d, N: hx.Pick(r, c11Names), C: c}}
		case k < 50:
			return []c11Op{{Kind: "rename", Dir: d, N: pickName(d, 0.8), B: hx.Pick(r, c11Names)}}
		case k < 58:
			return []c11Op{{Kind: "moveout", Dir: d, N: pickName(d, 0.8)}}
		case k < 68:
			return []c11Op{{Kind: "remove", Dir: d, N: pickName(d, 0.8)}}
		case k < 74:
			return []c11Op{{Kind: "mkdir", Dir: d}}
		case k < 82:
			return []c11Op{{Kind: "rmall", Dir: d}}
		case k < 85:
			// the way WriteSpec publishes: temporary name, then rename over the target
			n := hx.Pick(r, []string{"a.json", "b.yaml", "c.json"})
			return []c11Op{{Kind: "write", Dir: d, N: n + ".tmp", C: c}, {Kind: "rename", Dir: d, N: n + ".tmp", B: n}}
		case k < 88:
			return []c11Op{{Kind: "writespec", N: hx.Pick(r, []string{"a.json", "b.yaml", "c.json"}), C: 3 + r.Intn(len(c11Pool)-3)}}
		case k < 90:
			n := hx.Pick(r, []string{"a.json", "b.yaml", "c.json"})
			if ents, err := os.ReadDir(dirs[lastIdx]); err == nil && r.Chance(0.8) {
				var have []string
				for _, e := range ents {
					if x := filepath.Ext(e.Name()); (x == ".json" || x == ".yaml") && e.Name() != "m.yaml" {
						have = append(have, e.Name())
					}
				}
				if len(have) > 0 {
					n = hx.Pick(r, have)
				}
			}
			return []c11Op{{Kind: "removespec", N: n}}
		default:
			// remove the directory and re-create it with content at once
			return []c11Op{{Kind: "rmall", Dir: d}, {Kind: "mkdir", Dir: d}, {Kind: "write", Dir: d, N: hx.Pick(r, c11Names), C: 3 + r.Intn(len(c11Pool)-3)}}
		}
	}
	pause := func() { time.Sleep(time.Duration(1+r.Intn(20)) * time.Millisecond) }

	if holdDir >= 0 {
		st.tails["changes-during-initial-scan"]++
		fifo := filepath.Join(dirs[holdDir], "m.yaml")
		// wait until the scan is blocked in open(2) on the FIFO: a non-blocking open of the write end succeeds only then
		var wfd int = -1
		for i := 0; i < 400 && wfd < 0; i++ {
			fd, err := unix.Open(fifo, unix.O_WRONLY|unix.O_NONBLOCK, 0)
			if err == nil {
				wfd = fd
			} else {
				time.Sleep(5 * time.Millisecond)
			}
		}
		// changes while the creation of the cache is in progress
		for i, n := 0, 1+r.Intn(3); i < n; i++ {
			c := r.Intn(len(c11Pool))
			switch r.Intn(4) {
			case 0:
				do(c11Op{Kind: "write", Dir: holdDir, N: hx.Pick(r, []string{"a.json", "b.yaml", "c.json"}), C: c})
			case 1:
				do(c11Op{Kind: "movein", Dir: holdDir, N: hx.Pick(r, []string{"a.json", "b.yaml", "c.json"}), C: c})
			case 2:
				do(c11Op{Kind: "remove", Dir: holdDir, N: pickName(holdDir, 1.0)})
			default:
				n2 := hx.Pick(r, []string{"a.json", "b.yaml"})
				do(c11Op{Kind: "write", Dir: holdDir, N: n2 + ".tmp", C: c})
				do(c11Op{Kind: "rename", Dir: holdDir, N: n2 + ".tmp", B: n2})
			}
		}
		// release the scan: the FIFO goes away, the reader sees end of file
		if _, err := os.Lstat(fifo); err == nil {
			do(c11Op{Kind: "remove", Dir: holdDir, N: "m.yaml"})
		}
		if wfd >= 0 {
			_ = unix.Close(wfd)
		}
		select {
		case <-created:
		case <-time.After(30 * time.Second):
			panic("c11: cache creation did not finish after the FIFO holding its scan was released")
		}
		if r.Chance(0.7) {
			// the changes made during the creation are the last ones: nothing later may repair a missed event
			nops = 0
			onlyPrelude = true
		}
	}
	burstLeft := 0
	for done := 0; done < nops; {
		ops := randomOp()
		if (pacing == "burst" || pacing == "stall") && burstLeft == 0 {
			unlock()
			if done > 0 {
				pause()
			}
			burstLeft = 2 + r.Intn(5)
			if pacing == "stall" {
				// the watcher goroutine cannot handle events while some caller holds the cache lock
				cache.Lock()
				locked = true
			}
		}
		for _, o := range ops {
			do(o)
			done++
			if burstLeft > 0 {
				burstLeft--
			}
			switch pacing {
			case "gosched":
				runtime.Gosched()
			case "sleep":
				pause()
			case "mixed":
				switch r.Intn(4) {
				case 0:
					runtime.Gosched()
				case 1:
					time.Sleep(time.Duration(r.Intn(3000)) * time.Microsecond)
				}
			}
		}
		// an occasional query in the middle of the history (never Refresh)
		if !locked && r.Chance(0.12) {
			_, _ = hx.Guard(func() { _ = cache.ListDevices() })
			labels = append(labels, hx.P("LQuery", "true"))
			human = append(human, "query")
			modelSteps()
		}
	}
	unlock()

	known := "" // the known-finding class the history lies in, if any (set by the tails below)
	// settle: poll the cache until it answers like a cache freshly built from the directories as they are now (twice, 15 ms apart)
	settle := func() (fresh, got c11Answer, converged bool, wait time.Duration) {
		fresh = c11Fresh(confDirs)
		// "soon": what the property is about is a cache that stays behind for good; ten seconds leave room for a machine
		// that is busy with other things, and cost nothing when the cache converges
		limit := 10 * time.Second
		if known != "" {
			limit = 3 * time.Second // a history inside a known-finding class is expected to stay behind
		}
		if st.notConverged >= 4 {
			limit = time.Second // enough evidence already; keep the run short
		}
		start := time.Now()
		for sleep := 200 * time.Microsecond; ; {
			var consistent bool
			got, consistent = c11Ask(cache)
			if consistent && got.equal(fresh) {
				// and it stays so
				time.Sleep(15 * time.Millisecond)
				again, c2 := c11Ask(cache)
				if c2 && again.equal(fresh) {
					converged = true
					break
				}
				got = again
			}
			if time.Since(start) > limit {
				break
			}
			time.Sleep(sleep)
			if sleep < 20*time.Millisecond {
				sleep *= 2
			}
		}
		return fresh, got, converged, time.Since(start)
	}
	forcedFail := "" // an observation other than the final polling that the property does not allow
	exists := func(i int) bool { _, err := os.Stat(dirs[i]); return err == nil }

	// tail: make every kind of operation likely to be the last effective one, and include the history shape
	// "directory removed and re-created with content before the watcher handles the removal; the watcher catches
	// up; the directory is removed again with no query in between"
	tail := "none"
	kTail := r.Intn(100)
	if onlyPrelude {
		kTail = 99
		tail = "only-changes-during-initial-scan"
	}
	switch k := kTail; {
	case k < 30:
		tail = "last-op"
		d := r.Intn(nd)
		c := r.Intn(len(c11Pool))
		switch r.Intn(10) {
		case 8, 9:
			if o, ok := retag(d); ok {
				tail = "last-op/definitions-only"
				do(o)
			} else {
				do(c11Op{Kind: "write", Dir: d, N: pickName(d, 0.5), C: c})
			}
		case 0:
			do(c11Op{Kind: "write", Dir: d, N: pickName(d, 0.5), C: c})
		case 1:
			do(c11Op{Kind: "movein", Dir: d, N: pickName(d, 0.3), C: c})
		case 2:
			do(c11Op{Kind: "linkin", Dir: d, N: hx.Pick(r, c11Names), C: c})
		case 3:
			do(c11Op{Kind: "rename", Dir: d, N: pickName(d, 0.9), B: hx.Pick(r, c11Names)})
		case 4:
			do(c11Op{Kind: "moveout", Dir: d, N: pickName(d, 0.9)})
		case 5:
			do(c11Op{Kind: "remove", Dir: d, N: pickName(d, 0.9)})
		case 6:
			do(c11Op{Kind: "write", Dir: d, N: pickName(d, 0.9), C: 0})
		default:
			do(c11Op{Kind: "rmall", Dir: d})
		}
	case k < 48:
		d := r.Intn(nd)
		time.Sleep(time.Duration(5+r.Intn(20)) * time.Millisecond) // let the watcher settle first
		if r.Chance(0.5) {
			// while a caller holds the cache lock the watcher cannot be between its Add and its scan
			tail = "recreate-then-remove/locked"
			cache.Lock()
			locked = true
		} else {
			tail = "recreate-then-remove/unlocked"
			known = "C11/add-scan-window"
			racyMkdir = true
		}
		do(c11Op{Kind: "rmall", Dir: d})
		do(c11Op{Kind: "mkdir", Dir: d})
		do(c11Op{Kind: "write", Dir: d, N: hx.Pick(r, []string{"a.json", "b.yaml", "c.json"}), C: 3 + r.Intn(len(c11Pool)-3)})
		unlock()
		time.Sleep(time.Duration(20+r.Intn(40)) * time.Millisecond) // the watcher catches up; no query
		do(c11Op{Kind: "rmall", Dir: d})
	case k < 62 && nd >= 2:
		// A query arrives while a rescan of the watcher is in progress, and it has work of its own: a directory that was
		// missing has appeared (which no event announces).  The rescan is held on a Spec name that is a link to a FIFO
		// outside the Spec directories, after it has passed the still missing directory; the FIFO is then replaced by a
		// regular Spec file, the missing directory created with content, the query made, the rescan released.
		tail = "query-during-held-rescan"
		e := r.Intn(nd - 1)
		d := e + 1 + r.Intn(nd-1-e)
		time.Sleep(20 * time.Millisecond)
		if _, err := os.Stat(dirs[d]); err != nil {
			do(c11Op{Kind: "mkdir", Dir: d})
		}
		_, _ = hx.Guard(func() { _ = cache.ListDevices() }) // every existing directory is watched from here on
		labels = append(labels, hx.P("LQuery", "true"))
		human = append(human, "query")
		if _, err := os.Stat(dirs[e]); err == nil {
			do(c11Op{Kind: "rmall", Dir: e})
		}
		name := hx.Pick(r, []string{"a.json", "b.yaml", "c.json"})
		if _, err := os.Lstat(filepath.Join(dirs[d], name)); err == nil {
			do(c11Op{Kind: "remove", Dir: d, N: name})
		}
		time.Sleep(40 * time.Millisecond) // the watcher has handled all that
		c11Uniq++
		fifo := filepath.Join(out, fmt.Sprintf("target-%d", c11Uniq))
		c := 3 + r.Intn(len(c11Pool)-3)
		if unix.Mkfifo(fifo, 0o644) == nil && os.Symlink(fifo, filepath.Join(dirs[d], name)) == nil {
			o := c11Op{Kind: "symlinkin", Dir: d, N: name, C: c}
			st.opsOK[o.Kind]++
			nOK++
			labels = append(labels, hx.P(hx.C("LOp", o.term(dirs)), hx.B(true)))
			human = append(human, o.String()+" => true (the target is a FIFO until the rescan is blocked on it, then a regular file)")
			wfd := -1
			for i := 0; i < 400 && wfd < 0; i++ {
				if fd, err := unix.Open(fifo, unix.O_WRONLY|unix.O_NONBLOCK, 0); err == nil {
					wfd = fd
				} else {
					time.Sleep(5 * time.Millisecond)
				}
			}
			_ = os.Rename(fifo, fifo+".old")
			_ = os.WriteFile(fifo, c11Pool[c].data, 0o644)
			do(c11Op{Kind: "mkdir", Dir: e})
			do(c11Op{Kind: "write", Dir: e, N: hx.Pick(r, []string{"a.json", "b.yaml", "c.json"}), C: 3 + r.Intn(len(c11Pool)-3)})
			answered := make(chan bool, 1)
			go func() {
				_, _ = hx.Guard(func() { _ = cache.ListDevices() })
				answered <- true
			}()
			got := false
			select {
			case <-answered:
				got = true
			case <-time.After(300 * time.Millisecond):
			}
			labels = append(labels, hx.P("LQuery", "true"))
			human = append(human, fmt.Sprintf("query (answered before the held rescan was released: %v)", got))
			if wfd >= 0 {
				_ = unix.Close(wfd)
			}
			// whoever else got blocked on the old FIFO meanwhile is released as well
			if fd, err := unix.Open(fifo+".old", unix.O_WRONLY|unix.O_NONBLOCK, 0); err == nil {
				_ = unix.Close(fd)
			}
			if !got {
				select {
				case <-answered:
				case <-time.After(30 * time.Second):
					panic("c11: a query did not return after the rescan held on a FIFO was released")
				}
			}
		}
	case k < 78:
		// Every query function as the FIRST query after a change which no event announces: the cache is quiet, a configured
		// directory is missing (so it is not watched), it appears with a Spec in it.  Nothing but the next query's
		// refreshIfRequired can notice.  That query is a different function each time and is polled alone; it must answer
		// like the same function of a freshly built cache.  Determined: no event is pending (settled, then 30 ms), the
		// directory's parent is not watched, nobody else calls the cache.
		tail = "first-query-after-unannounced-appearance"
		if _, _, ok, _ := settle(); ok {
			d := r.Intn(nd)
			if exists(d) {
				do(c11Op{Kind: "rmall", Dir: d})
				_, _, ok, _ = settle()
			}
			if ok {
				time.Sleep(30 * time.Millisecond)
				do(c11Op{Kind: "mkdir", Dir: d})
				do(c11Op{Kind: "write", Dir: d, N: "c.json", C: c11Solo})
				q := st.nextQuery % len(c11Queries)
				st.nextQuery++
				want := c11FreshQuery(confDirs, q)
				var ans string
				okq := false
				for start := time.Now(); time.Since(start) < 2*time.Second; time.Sleep(time.Millisecond) {
					if p, _ := hx.Guard(func() { ans = c11Queries[q].ask(cache) }); !p && ans == want {
						okq = true
						break
					}
				}
				labels = append(labels, hx.P("LQuery", "true"))
				human = append(human, fmt.Sprintf("first query after the directory appeared: %s => %s (a fresh cache: %s)", c11Queries[q].name, ans, want))
				st.tails["first query: "+c11Queries[q].name]++
				if !okq {
					forcedFail = "as the first query after a missing directory had appeared with a Spec in it, " + c11Queries[q].name + " kept answering " + ans + "; a fresh cache answers " + want
				}
			}
		}
	case k < 84 && c11Pending("dir-renamed-away"):
		// DEFECT-PENDING(dir-renamed-away): a watched directory is renamed to a place outside the Spec directories (to the
		// configured path this is a removal; the machine is told ORmAll), sometimes re-created under the old name, sometimes
		// with a further change in the directory that was moved away
		tail = "directory-renamed-away"
		var cand []int
		for i := range dirs {
			if _, linked := c11Links[dirs[i]]; !linked && exists(i) {
				cand = append(cand, i)
			}
		}
		if _, _, ok, _ := settle(); ok && len(cand) > 0 {
			d := cand[r.Intn(len(cand))]
			c11Uniq++
			moved := filepath.Join(out, fmt.Sprintf("moved-%d", c11Uniq))
			ok := os.Rename(dirs[d], moved) == nil
			labels = append(labels, hx.P(hx.C("LOp", hx.C("ORmAll", hx.S(dirs[d]))), hx.B(ok)))
			human = append(human, fmt.Sprintf("rename d%d to a place outside => %v", d, ok))
			if ok {
				nOK++
			}
			time.Sleep(time.Duration(r.Intn(30)) * time.Millisecond)
			if r.Chance(0.6) {
				do(c11Op{Kind: "mkdir", Dir: d})
				do(c11Op{Kind: "write", Dir: d, N: hx.Pick(r, []string{"a.json", "b.yaml"}), C: 3 + r.Intn(len(c11Pool)-3)})
				time.Sleep(time.Duration(r.Intn(30)) * time.Millisecond)
				if r.Chance(0.5) {
					do(c11Op{Kind: "write", Dir: d, N: "c.json", C: 3 + r.Intn(len(c11Pool)-3)})
				}
			}
			if r.Chance(0.5) {
				_ = os.WriteFile(filepath.Join(moved, "z.json"), c11Pool[c11Solo].data, 0o644)
				human = append(human, "write z.json into the directory that was moved away (outside: no operation of the machine)")
			}
		}
	case k < 88 && c11Pending("symlinked-dir-retarget"):
		// DEFECT-PENDING(symlinked-dir-retarget): a configured directory which is a symbolic link is pointed at another
		// directory by an atomic rename of a new link over it, or the link alone is removed (to the configured path: the
		// directory is replaced / removed; the machine is told ORmAll, OMkdir, OWrite)
		tail = "symlinked-directory-retargeted"
		var cand []int
		for i := range dirs {
			if _, linked := c11Links[dirs[i]]; linked && exists(i) {
				cand = append(cand, i)
			}
		}
		if _, _, ok, _ := settle(); ok && len(cand) > 0 {
			d := cand[r.Intn(len(cand))]
			if r.Chance(0.6) {
				c11Uniq++
				real2 := filepath.Join(base, fmt.Sprintf("real%d-%d", d, c11Uniq))
				c := 3 + r.Intn(len(c11Pool)-3)
				name := hx.Pick(r, []string{"a.json", "b.yaml", "c.json"})
				_ = os.Mkdir(real2, 0o755)
				_ = os.WriteFile(filepath.Join(real2, name), c11Pool[c].data, 0o644)
				ok := os.Symlink(real2, dirs[d]+".new") == nil && os.Rename(dirs[d]+".new", dirs[d]) == nil
				c11Links[dirs[d]] = real2
				labels = append(labels, hx.P(hx.C("LOp", hx.C("ORmAll", hx.S(dirs[d]))), hx.B(ok)))
				labels = append(labels, hx.P(hx.C("LOp", hx.C("OMkdir", hx.S(dirs[d]))), hx.B(ok)))
				labels = append(labels, hx.P(hx.C("LOp", hx.C("OWrite", hx.S(dirs[d]), hx.S(name), c11Pool[c].term)), hx.B(ok)))
				human = append(human, fmt.Sprintf("point the link d%d at another directory holding %s %s => %v", d, name, c11Pool[c].term, ok))
				known = "C11/symlinked-dir-retarget"
				if r.Chance(0.5) {
					// ... unless the cache is configured again afterwards (same directories, same mode): Configure sets the
					// watch up anew, which resolves the link anew; from then on the cache must follow the new target
					_, _ = hx.Guard(func() { _ = cache.Configure(cdi.WithAutoRefresh(true)) })
					labels = append(labels, hx.P("LQuery", "true"))
					human = append(human, "Configure(WithAutoRefresh(true)) again")
					known = ""
					if r.Chance(0.5) {
						do(c11Op{Kind: "write", Dir: d, N: hx.Pick(r, []string{"a.json", "b.yaml", "c.json"}), C: 3 + r.Intn(len(c11Pool)-3)})
					}
				}
				if ok {
					nOK++
				}
			} else {
				ok := os.Remove(dirs[d]) == nil
				labels = append(labels, hx.P(hx.C("LOp", hx.C("ORmAll", hx.S(dirs[d]))), hx.B(ok)))
				human = append(human, fmt.Sprintf("remove the link d%d (the directory it led to stays) => %v", d, ok))
				if ok {
					nOK++
				}
				if ok && r.Chance(0.7) {
					// ... a query notices that the directory is gone; the link comes back leading to ANOTHER directory; files
					// appear there: the cache must follow the new target (the old watch is gone, the new one is a watch of its own)
					time.Sleep(time.Duration(r.Intn(20)) * time.Millisecond)
					_, _ = hx.Guard(func() { _ = cache.ListDevices() })
					labels = append(labels, hx.P("LQuery", "true"))
					human = append(human, "query")
					c11Uniq++
					real2 := filepath.Join(base, fmt.Sprintf("real%d-%d", d, c11Uniq))
					_ = os.Mkdir(real2, 0o755)
					ok2 := os.Symlink(real2, dirs[d]) == nil
					c11Links[dirs[d]] = real2
					labels = append(labels, hx.P(hx.C("LOp", hx.C("OMkdir", hx.S(dirs[d]))), hx.B(ok2)))
					human = append(human, fmt.Sprintf("the link d%d comes back, leading to another (empty) directory => %v", d, ok2))
					if ok2 {
						nOK++
						time.Sleep(time.Duration(r.Intn(20)) * time.Millisecond)
						if r.Chance(0.5) {
							_, _ = hx.Guard(func() { _ = cache.ListDevices() })
							labels = append(labels, hx.P("LQuery", "true"))
							human = append(human, "query")
						}
						do(c11Op{Kind: hx.Pick(r, []string{"write", "movein"}), Dir: d, N: hx.Pick(r, []string{"a.json", "b.yaml", "c.json"}), C: 3 + r.Intn(len(c11Pool)-3)})
					}
				}
			}
		}
	case k < 90 && c11Pending("queue-overflow"):
		// DEFECT-PENDING(queue-overflow): more events than the inotify queue holds.  The watcher goroutine is stopped on an
		// accepted event (this goroutine holds the cache lock); writes to two non-Spec files fill the queue (events the
		// filter ignores) and keep it full; the lock is released; as soon as the watcher goroutine is past the accepted event
		// (its rescan is over: the event log has grown again) a Spec file is written: its events are dropped.
		tail = "queue-overflow"
		var cand []int
		for i := range dirs {
			if exists(i) {
				cand = append(cand, i)
			}
		}
		logPath := os.Getenv("VERIF_EVENT_LOG")
		logSize := func() int64 {
			if fi, err := os.Stat(logPath); err == nil {
				return fi.Size()
			}
			return 0
		}
		if len(cand) > 0 && logPath != "" {
			d := cand[r.Intn(len(cand))]
			do(c11Op{Kind: "write", Dir: d, N: "notes.txt", C: 1})
			if _, _, ok, _ := settle(); ok {
				time.Sleep(30 * time.Millisecond)
				cache.Lock()
				locked = true
				size0 := logSize()
				do(c11Op{Kind: "remove", Dir: d, N: "notes.txt"})
				for i := 0; i < 1000 && logSize() == size0; i++ {
					time.Sleep(time.Millisecond)
				}
				do(c11Op{Kind: "write", Dir: d, N: "a.json.tmp", C: 1})
				do(c11Op{Kind: "write", Dir: d, N: "notes.txt", C: 1})
				f1, e1 := os.OpenFile(filepath.Join(dirs[d], "a.json.tmp"), os.O_WRONLY|os.O_APPEND, 0)
				f2, e2 := os.OpenFile(filepath.Join(dirs[d], "notes.txt"), os.O_WRONLY|os.O_APPEND, 0)
				if e1 == nil && e2 == nil {
					burst := func(n int) {
						for i := 0; i < n; i++ { // IN_MODIFY of the two files alternate: no coalescing
							_, _ = f1.Write([]byte("\n"))
							_, _ = f2.Write([]byte("\n"))
						}
					}
					burst(10000)
					stop, stopped := make(chan bool), make(chan bool)
					go func() {
						for {
							select {
							case <-stop:
								stopped <- true
								return
							default:
								burst(10)
							}
						}
					}()
					size1 := logSize()
					unlock()
					for i := 0; i < 20000 && logSize() == size1; i++ {
						time.Sleep(100 * time.Microsecond)
					}
					do(c11Op{Kind: "write", Dir: d, N: "c.json", C: c11Solo})
					stop <- true
					<-stopped
					human = append(human, "(some 20000 further writes to a.json.tmp and notes.txt while the cache lock was held and until c.json was written)")
					time.Sleep(300 * time.Millisecond) // the queue drains
				}
				if f1 != nil {
					f1.Close()
				}
				if f2 != nil {
					f2.Close()
				}
				unlock()
			}
		}
	}
	st.tails[tail]++

	// the changes have ceased
	fresh, got, converged, wait := settle()
	if forcedFail != "" {
		converged = false
	}
	if converged {
		st.waits = append(st.waits, float64(wait.Microseconds())/1000)
	} else {
		st.notConverged++
	}

	rel := make([]string, nd)
	for i := range dirs {
		rel[i] = fmt.Sprintf("d%d", i)
	}
	var confRel, linkRel []string
	for _, d := range confDirs {
		confRel = append(confRel, strings.TrimPrefix(d, base+"/"))
	}
	for i, d := range dirs {
		if _, ok := c11Links[d]; ok {
			linkRel = append(linkRel, rel[i])
		}
	}
	finalHuman := map[string]interface{}{}
	for i := range dirs {
		if _, h, ok := c11Listing(dirs[i]); ok {
			finalHuman[rel[i]] = h
		} else {
			finalHuman[rel[i]] = "missing"
		}
	}
	// for the record of a history which did not converge: what the watch believes and what the kernel watches
	var diag interface{}
	if !converged {
		tracked, has := cdi.VerifTracked(cache)
		watches := 0
		if ents, err := os.ReadDir("/proc/self/fdinfo"); err == nil {
			for _, e := range ents {
				if data, err := os.ReadFile(filepath.Join("/proc/self/fdinfo", e.Name())); err == nil {
					watches += strings.Count(string(data), "inotify wd:")
				}
			}
		}
		trel := map[string]bool{}
		for k, v := range tracked {
			trel[strings.TrimPrefix(k, base+"/")] = v
		}
		diag = map[string]interface{}{"tracked": trel, "has_watcher": has, "inotify_watches_of_the_process": watches}
	}
	return hx.Case{
		Term: hx.C("CHist", hx.LS(modelDirs), hx.L(initTerms), hx.L(labels), fresh.devTerm(), hx.LS(fresh.Errs),
			hx.B(converged), got.devTerm(), hx.LS(got.Errs)),
		Desc: map[string]interface{}{"stream": "convergence", "watch_state_when_not_converged": diag, "dirs": rel, "configured_as": confRel, "symbolic_links": linkRel, "initial": initHuman,
			"pacing": pacing, "tail": tail, "history": human,
			"final": finalHuman, "fresh_cache": fresh.human(base + "/"), "auto_refreshed_cache": got.human(base + "/"),
			"converged": converged, "waited_ms": float64(wait.Microseconds()) / 1000, "not_allowed": forcedFail},
		Nontrivial: nOK > 0,
		Class:      "history",
		Known:      known,
	}
}

// ---------- (iii) filter decisions ----------

func c11ParseOps(s string) (string, bool) {
	var items []string
	for _, p := range strings.Split(s, "|") {
		switch p {
		case "CREATE":
			items = append(items, "Create")
		case "WRITE":
			items = append(items, "Write")
		case "REMOVE":
			items = append(items, "Remove")
		case "RENAME":
			items = append(items, "Rename")
		case "CHMOD":
			items = append(items, "Chmod")
		default:
			return "", false
		}
	}
	return hx.L(items), true
}

func c11FilterCases(s *hx.Suite, logPath, root string) error {
	f, err := os.Open(logPath)
	if err != nil {
		if os.IsNotExist(err) {
			return nil
		}
		return err
	}
	defer f.Close()
	type key struct {
		ops, base string
		acc       bool
	}
	count := map[key]int{}
	example := map[key]string{}
	var order []key
	sc := bufio.NewScanner(f)
	sc.Buffer(make([]byte, 1<<20), 1<<20)
	total := 0
	for sc.Scan() {
		parts := strings.Split(sc.Text(), "\t")
		if len(parts) != 3 {
			continue
		}
		name, err := strconv.Unquote(parts[1])
		if err != nil {
			continue
		}
		total++
		bn := filepath.Base(name)
		if strings.HasPrefix(bn, "spec.") && strings.HasSuffix(bn, ".tmp") {
			bn = "spec.*.tmp" // the temporary files of Cache.WriteSpec: one class, whatever the random part
		}
		k := key{parts[0], bn, parts[2] == "true"}
		if count[k] == 0 {
			order = append(order, k)
			example[k] = name
		}
		count[k]++
	}
	for _, k := range order {
		ops, ok := c11ParseOps(k.ops)
		if !ok {
			return fmt.Errorf("unknown op in event log: %q", k.ops)
		}
		s.Add(hx.Case{
			Term: hx.C("CFilter", ops, hx.S(example[k]), hx.B(k.acc)),
			Desc: map[string]interface{}{"stream": "filter", "op": k.ops, "name": strings.TrimPrefix(example[k], root+"/"), "accepted": k.acc,
				"events_like_this": count[k]},
			Key:        "f:" + k.ops + ":" + k.base + ":" + fmt.Sprint(k.acc),
			Nontrivial: true,
			Class:      "filter/" + k.ops,
		})
	}
	s.Extra["x_filter_events_logged"] = total
	return nil
}

func genC11(r *hx.R, tier string, scratch string) (*hx.Suite, error) {
	c11InitPool()
	s := &hx.Suite{
		Property: "C11",
		Imports:  []string{"Base", "Paths", "Watch", "Judge11"},
		CaseType: "case11",
		Judge:    "judge11",
		Shard:    40,
		Extra:    map[string]interface{}{},
		Rule: "event table: every operation kind (create+write, empty create, truncating rewrite, move in, hard link, symlink, rename inside, replace by rename, " +
			"move out, remove, mkdir, rm -rf) on random directory populations under a bare fsnotify.Watcher, events delimited by a sentinel; " +
			"convergence: random histories of 3-25 such operations (plus temp+rename publication and remove/re-create/populate bursts) over 1-3 configured " +
			"directories, each missing at start with probability 0.3, file names with and without Spec extensions, contents empty / invalid / valid Specs over " +
			"2 vendors x 2 device names x 2 definition tags (conflicts, shadowing, and rewrites that change nothing but the definitions arise), " +
			"directories given to the cache in clean and non-clean spellings (trailing slash, /., //, x/../), one in eight lists naming the first directory again at the end, " +
			"one directory in five a symbolic link to a directory (created and removed together with it), " +
			"Cache.WriteSpec / Cache.RemoveSpec among the sources of changes, pacing none / Gosched / 1-20 ms sleeps / bursts / bursts while the cache lock is held / mixed, " +
			"occasional queries, never Refresh; 30% of the histories end with one more operation of a uniformly chosen kind on an existing entry, 18% with " +
			"remove + re-create + populate in one burst, a pause, and a second removal (half of them while the cache lock is held; the other half is the only " +
			"stream in which a directory is populated less than 2 ms after its creation while the watcher may run: known finding C11/add-scan-window), " +
			"14% (more when there is one directory) with a quiet cache, a missing directory that appears with a Spec in it (no event) and ONE query function polled alone " +
			"(GetDevice, InjectDevices, ListVendors, ListClasses, GetVendorSpecs, ListDevices, Refresh+GetErrors in turn) until it answers like the same function of a fresh cache; " +
			"then polling ListDevices + GetDevice(..): GetSpec().GetPath() and the tag in the device's edits + GetErrors keys until equal (twice, 15 ms apart) to a " +
			"freshly built cache's, deadline 3 s; filter: every distinct (op, base name, decision) logged by the verifEvent hook during the histories. " +
			"Non-trivial: at least one operation of the case succeeded.",
	}
	root, err := filepath.Abs(scratch)
	if err != nil {
		return nil, err
	}
	logPath := filepath.Join(root, "events.log")
	_ = os.Remove(logPath)
	os.Setenv("VERIF_EVENT_LOG", logPath)

	kinds := []string{"write", "write", "write", "movein", "movein", "linkin", "symlinkin", "rename", "rename", "rename", "moveout", "remove", "mkdir", "rmall"}
	nEv, nHist := 6*len(kinds), 300
	if tier == "thorough" {
		nEv, nHist = 20*len(kinds), 1600
	}
	for i := 0; i < nEv; i++ {
		c, err := c11EventCase(r, root, i, kinds[i%len(kinds)])
		if err != nil {
			return nil, err
		}
		s.Add(c)
	}
	st := &c11Stats{pacing: map[string]int{}, opsOK: map[string]int{}, opsFailed: map[string]int{}, tails: map[string]int{}}
	for i := 0; i < nHist; i++ {
		s.Add(c11History(r, root, i, tier, st))
		if i%20 == 19 {
			// keep the scratch directory small
			for j := i - 19; j <= i; j++ {
				_ = os.RemoveAll(filepath.Join(root, fmt.Sprintf("h%04d", j)))
			}
		}
	}
	time.Sleep(50 * time.Millisecond)
	if err := c11FilterCases(s, logPath, root); err != nil {
		return nil, err
	}
	sort.Float64s(st.waits)
	if n := len(st.waits); n > 0 {
		s.Extra["x_convergence_wait_ms"] = map[string]interface{}{"median": st.waits[n/2], "p95": st.waits[n*95/100], "max": st.waits[n-1]}
	}
	s.Extra["x_histories_not_converged"] = st.notConverged
	s.Extra["x_history_pacing"] = st.pacing
	s.Extra["x_history_operations_succeeded"] = st.opsOK
	s.Extra["x_history_operations_failed"] = st.opsFailed
	s.Extra["x_event_table_kinds"] = kinds
	s.Extra["x_history_tails"] = st.tails
	return s, nil
}

// ---------- diagnostic child: vharness c11-stress <n> <locked:0|1> <dir-index> ----------
// Repeats the history shape "remove + re-create + populate in one burst; pause; remove again" against a fresh
// auto-refresh cache and reports the runs that do not converge, with the watcher's event log of each.
func init() { children["c11-stress"] = c11Stress }

func c11Stress(args []string) int {
	c11InitPool()
	n, _ := strconv.Atoi(args[0])
	locked := len(args) > 1 && args[1] == "1"
	di := 0
	if len(args) > 2 {
		di, _ = strconv.Atoi(args[2])
	}
	root, _ := os.MkdirTemp("", "c11-stress-")
	defer os.RemoveAll(root)
	logPath := filepath.Join(root, "events.log")
	os.Setenv("VERIF_EVENT_LOG", logPath)
	bad := 0
	for i := 0; i < n; i++ {
		base := filepath.Join(root, fmt.Sprintf("r%d", i))
		dirs := []string{filepath.Join(base, "d0"), filepath.Join(base, "d1")}
		for _, d := range dirs {
			_ = os.MkdirAll(d, 0o755)
			_ = os.WriteFile(filepath.Join(d, "a.json"), c11Pool[3].data, 0o644)
		}
		_ = os.Remove(logPath)
		cache, _ := cdi.NewCache(cdi.WithSpecDirs(dirs...), cdi.WithAutoRefresh(true))
		time.Sleep(2 * time.Millisecond)
		d := dirs[di]
		t0 := time.Now()
		if locked {
			cache.Lock()
		}
		_ = os.RemoveAll(d)
		t1 := time.Since(t0)
		_ = os.Mkdir(d, 0o755)
		t2 := time.Since(t0)
		_ = os.WriteFile(filepath.Join(d, "b.yaml"), c11Pool[7].data, 0o644)
		t3 := time.Since(t0)
		if locked {
			cache.Unlock()
		}
		time.Sleep(30 * time.Millisecond)
		tr1, _ := cdi.VerifTracked(cache)
		_ = os.RemoveAll(d)
		fresh := c11Fresh(dirs)
		ok := false
		var got c11Answer
		for start := time.Now(); time.Since(start) < time.Second; time.Sleep(2 * time.Millisecond) {
			var c bool
			got, c = c11Ask(cache)
			if c && got.equal(fresh) {
				ok = true
				break
			}
		}
		if !ok {
			bad++
			tr2, _ := cdi.VerifTracked(cache)
			log, _ := os.ReadFile(logPath)
			fmt.Printf("run %d NOT converged: rmall %v mkdir %v write %v\n tracked before 2nd removal %v, at end %v\n got %v\n fresh %v\n%s\n",
				i, t1, t2, t3, tr1, tr2, got, fresh, strings.ReplaceAll(string(log), base+"/", ""))
		}
		_ = cache.Configure(cdi.WithAutoRefresh(false))
		_ = os.RemoveAll(base)
	}
	fmt.Printf("%d of %d runs did not converge\n", bad, n)
	return 0
}
