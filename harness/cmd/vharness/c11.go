package main

import (
	"golang.org/x/sys/unix"
	"bufio"
	"encoding/json"
	"fmt"
	"os"
	"path/filepath"
	"runtime"
	"sort"
	"strconv"
	"strings"
	"time"

	"github.com/fsnotify/fsnotify"
	"tags.cncf.io/container-device-interface/pkg/cdi"
	"verif/harness/hx"
)

// C11 — with auto-refresh the cache converges to the directory contents by itself.
//
// Three streams of cases (judged by CDI.Judge11):
//   CEvents  one file-system operation on a directory watched by a bare fsnotify.Watcher: observed events,
//            success and resulting listing against the rule table of CDI.Watch;
//   CHist    a random history of operations (and queries) on 1-3 configured directories at random pacing against
//            a real auto-refresh cache, never calling Refresh; afterwards the cache is polled until it answers
//            like a cache freshly built from the final directories;
//   CFilter  the decisions of the event filter logged by the verifEvent hook during the histories.

func init() { registry["C11"] = genC11 }

// ---------- contents ----------

type c11Content struct {
	term string
	data []byte
}

var c11Pool []c11Content // index 0 = empty, 1..2 = bad, rest = valid specs

func c11InitPool() {
	if c11Pool != nil {
		return
	}
	c11Pool = append(c11Pool, c11Content{"CEmpty", nil})
	c11Pool = append(c11Pool, c11Content{"CBad", []byte("this is not a CDI Spec\n")})
	c11Pool = append(c11Pool, c11Content{"CBad", []byte("{\"cdiVersion\":\"1.0.0\",\"kind\":\"vendor0.com/cls\"}")}) // no devices
	for _, v := range []string{"vendor0.com", "vendor1.com"} {
		for _, devs := range [][]string{{"dev0"}, {"dev1"}, {"dev0", "dev1"}} {
			data, _ := json.Marshal(validSpec(v, "cls", devs, "c11"))
			c11Pool = append(c11Pool, c11Content{hx.C("CSpec", hx.S(v+"/cls"), hx.LS(devs)), data})
		}
	}
}

func c11ContentOf(data []byte) (string, bool) {
	for _, c := range c11Pool {
		if string(c.data) == string(data) {
			return c.term, true
		}
	}
	return "CBad", false
}

var c11Names = []string{"a.json", "b.yaml", "c.json", "a.json.tmp", "notes.txt", "B.YAML"}

// ---------- operations ----------

type c11Op struct {
	Kind string // write movein linkin symlinkin rename moveout remove mkdir rmall
	Dir  int
	N, B string
	C    int
}

func (o c11Op) term(dirs []string) string {
	d := hx.S(dirs[o.Dir])
	switch o.Kind {
	case "write":
		return hx.C("OWrite", d, hx.S(o.N), c11Pool[o.C].term)
	case "movein":
		return hx.C("OMoveIn", d, hx.S(o.N), c11Pool[o.C].term)
	case "linkin", "symlinkin":
		return hx.C("OLinkIn", d, hx.S(o.N), c11Pool[o.C].term)
	case "rename":
		return hx.C("ORename", d, hx.S(o.N), hx.S(o.B))
	case "moveout":
		return hx.C("OMoveOut", d, hx.S(o.N))
	case "remove":
		return hx.C("ORemove", d, hx.S(o.N))
	case "mkdir":
		return hx.C("OMkdir", d)
	case "rmall":
		return hx.C("ORmAll", d)
	}
	panic("c11: unknown op " + o.Kind)
}

func (o c11Op) String() string {
	switch o.Kind {
	case "write", "movein", "linkin", "symlinkin":
		return fmt.Sprintf("%s d%d/%s %s", o.Kind, o.Dir, o.N, c11Pool[o.C].term)
	case "rename":
		return fmt.Sprintf("rename d%d/%s -> %s", o.Dir, o.N, o.B)
	case "mkdir", "rmall":
		return fmt.Sprintf("%s d%d", o.Kind, o.Dir)
	}
	return fmt.Sprintf("%s d%d/%s", o.Kind, o.Dir, o.N)
}

var c11Uniq int

// c11Apply performs the operation on the real directories; out is a directory outside every watched one.
func c11Apply(dirs []string, out string, o c11Op) bool {
	d := dirs[o.Dir]
	c11Uniq++
	switch o.Kind {
	case "write":
		return os.WriteFile(filepath.Join(d, o.N), c11Pool[o.C].data, 0o644) == nil
	case "movein":
		tmp := filepath.Join(out, fmt.Sprintf("src-%d", c11Uniq))
		if os.WriteFile(tmp, c11Pool[o.C].data, 0o644) != nil {
			return false
		}
		if os.Rename(tmp, filepath.Join(d, o.N)) != nil {
			_ = os.Remove(tmp)
			return false
		}
		return true
	case "linkin":
		tmp := filepath.Join(out, fmt.Sprintf("src-%d", c11Uniq))
		if os.WriteFile(tmp, c11Pool[o.C].data, 0o644) != nil {
			return false
		}
		err := os.Link(tmp, filepath.Join(d, o.N))
		_ = os.Remove(tmp) // the name inside the directory stays the only link
		return err == nil
	case "symlinkin":
		tmp := filepath.Join(out, fmt.Sprintf("target-%d", c11Uniq))
		if os.WriteFile(tmp, c11Pool[o.C].data, 0o644) != nil {
			return false
		}
		return os.Symlink(tmp, filepath.Join(d, o.N)) == nil
	case "rename":
		return os.Rename(filepath.Join(d, o.N), filepath.Join(d, o.B)) == nil
	case "moveout":
		return os.Rename(filepath.Join(d, o.N), filepath.Join(out, fmt.Sprintf("gone-%d", c11Uniq))) == nil
	case "remove":
		return os.Remove(filepath.Join(d, o.N)) == nil
	case "mkdir":
		return os.Mkdir(d, 0o755) == nil
	case "rmall":
		_, err := os.Lstat(d)
		_ = os.RemoveAll(d)
		return err == nil
	}
	panic("c11: unknown op " + o.Kind)
}

// listing of a directory as a dirc term (None if missing) plus a readable form
func c11Listing(d string) (string, []string, bool) {
	ents, err := os.ReadDir(d)
	if err != nil {
		return hx.None, nil, false
	}
	var items, human []string
	for _, e := range ents {
		if e.Type()&os.ModeNamedPipe != 0 {
			// a FIFO (used to hold the initial scan, see c11History): an unloadable file; never opened here
			items = append(items, hx.P(hx.S(e.Name()), "CBad"))
			human = append(human, e.Name()+":fifo")
			continue
		}
		data, _ := os.ReadFile(filepath.Join(d, e.Name()))
		t, _ := c11ContentOf(data)
		items = append(items, hx.P(hx.S(e.Name()), t))
		human = append(human, e.Name()+":"+t)
	}
	return hx.L(items), human, true
}

// ---------- (i) event table ----------

var c11OpNames = map[fsnotify.Op]string{fsnotify.Create: "Create", fsnotify.Write: "Write", fsnotify.Remove: "Remove", fsnotify.Rename: "Rename", fsnotify.Chmod: "Chmod"}

func c11OpsTerm(op fsnotify.Op) string {
	var items []string
	for _, o := range []fsnotify.Op{fsnotify.Create, fsnotify.Write, fsnotify.Remove, fsnotify.Rename, fsnotify.Chmod} {
		if op&o != 0 {
			items = append(items, c11OpNames[o])
		}
	}
	return hx.L(items)
}

func c11EventCase(r *hx.R, root string, idx int, kind string) (hx.Case, error) {
	base := filepath.Join(root, fmt.Sprintf("e%04d", idx))
	d, sent, out := filepath.Join(base, "D"), filepath.Join(base, "S"), filepath.Join(base, "out")
	for _, p := range []string{d, sent, out} {
		if err := os.MkdirAll(p, 0o755); err != nil {
			return hx.Case{}, err
		}
	}
	// initial population
	var pre, preHuman []string
	for _, n := range c11Names {
		if r.Chance(0.45) {
			c := r.Intn(len(c11Pool))
			_ = os.WriteFile(filepath.Join(d, n), c11Pool[c].data, 0o644)
			pre = append(pre, hx.P(hx.S(n), c11Pool[c].term))
			preHuman = append(preHuman, n+":"+c11Pool[c].term)
		}
	}
	o := c11Op{Kind: kind, N: hx.Pick(r, c11Names), B: hx.Pick(r, c11Names), C: r.Intn(len(c11Pool))}
	if len(pre) > 0 && r.Chance(0.6) && (kind == "rename" || kind == "moveout" || kind == "remove" || kind == "write") {
		ents, _ := os.ReadDir(d)
		o.N = ents[r.Intn(len(ents))].Name()
	}
	w, err := fsnotify.NewWatcher()
	if err != nil {
		return hx.Case{}, err
	}
	defer w.Close()
	if err := w.Add(d); err != nil {
		return hx.Case{}, err
	}
	if err := w.Add(sent); err != nil {
		return hx.Case{}, err
	}
	ok := c11Apply([]string{d}, out, o)
	post, postHuman, _ := c11Listing(d)
	if post != hx.None {
		post = hx.Some(post)
	}
	// events of one inotify instance are delivered in order: everything before the sentinel belongs to the operation
	mark := filepath.Join(sent, "mark")
	_ = os.WriteFile(mark, nil, 0o644)
	var obs, obsHuman []string
	deadline := time.After(10 * time.Second)
loop:
	for {
		select {
		case e := <-w.Events:
			if e.Name == mark {
				break loop
			}
			name := strings.TrimPrefix(strings.TrimPrefix(e.Name, d), "/")
			obs = append(obs, hx.P(c11OpsTerm(e.Op), hx.S(name)))
			obsHuman = append(obsHuman, e.Op.String()+" "+name)
		case err := <-w.Errors:
			return hx.Case{}, fmt.Errorf("fsnotify error: %v", err)
		case <-deadline:
			return hx.Case{}, fmt.Errorf("no sentinel event within 10s")
		}
	}
	return hx.Case{
		Term: hx.C("CEvents", hx.L(pre), o.term([]string{"D"}), hx.B(ok), post, hx.L(obs)),
		Desc: map[string]interface{}{"stream": "event-table", "before": preHuman, "op": o.String(), "ok": ok, "after": postHuman,
			"observed_events": obsHuman},
		Nontrivial: ok,
		Class:      "events",
	}, nil
}

// ---------- (ii) convergence ----------

type c11Answer struct {
	Devs [][2]string
	Errs []string
}

func (a c11Answer) equal(b c11Answer) bool {
	if len(a.Devs) != len(b.Devs) || len(a.Errs) != len(b.Errs) {
		return false
	}
	for i := range a.Devs {
		if a.Devs[i] != b.Devs[i] {
			return false
		}
	}
	for i := range a.Errs {
		if a.Errs[i] != b.Errs[i] {
			return false
		}
	}
	return true
}

func (a c11Answer) devTerm() string {
	items := make([]string, len(a.Devs))
	for i, d := range a.Devs {
		items[i] = hx.P(hx.S(d[0]), hx.S(d[1]))
	}
	return hx.L(items)
}

func (a c11Answer) human(root string) map[string]interface{} {
	devs := []string{}
	for _, d := range a.Devs {
		devs = append(devs, d[0]+" <- "+strings.TrimPrefix(d[1], root))
	}
	errs := []string{}
	for _, e := range a.Errs {
		errs = append(errs, strings.TrimPrefix(e, root))
	}
	return map[string]interface{}{"devices": devs, "errors": errs}
}

// c11Ask queries the cache: ListDevices, GetDevice(..).GetSpec().GetPath() for each, key set of GetErrors.
// consistent=false when the cache changed between the calls (a listed device no longer resolves) or a call panicked.
func c11Ask(c *cdi.Cache) (a c11Answer, consistent bool) {
	consistent = true
	p, _ := hx.Guard(func() {
		for _, name := range c.ListDevices() {
			dev := c.GetDevice(name)
			if dev == nil {
				consistent = false
				continue
			}
			a.Devs = append(a.Devs, [2]string{name, dev.GetSpec().GetPath()})
		}
		for k := range c.GetErrors() {
			a.Errs = append(a.Errs, k)
		}
	})
	if p {
		consistent = false
	}
	sort.Slice(a.Devs, func(i, j int) bool { return a.Devs[i][0] < a.Devs[j][0] })
	sort.Strings(a.Errs)
	return
}

func c11Fresh(dirs []string) c11Answer {
	c, _ := cdi.NewCache(cdi.WithSpecDirs(dirs...), cdi.WithAutoRefresh(true))
	a, _ := c11Ask(c)
	_ = c.Configure(cdi.WithAutoRefresh(false)) // releases the watcher
	return a
}

type c11Stats struct {
	notConverged int
	waits        []float64
	pacing       map[string]int
	opsOK        map[string]int
	opsFailed    map[string]int
	tails        map[string]int
}

func c11History(r *hx.R, root string, idx int, tier string, st *c11Stats) hx.Case {
	base := filepath.Join(root, fmt.Sprintf("h%04d", idx))
	out := filepath.Join(base, "out")
	_ = os.MkdirAll(out, 0o755)
	nd := 1 + r.Intn(3)
	dirs := make([]string, nd)
	holdDir := -1
	onlyPrelude := false
	var initTerms []string
	initHuman := map[string]interface{}{}
	for i := range dirs {
		dirs[i] = filepath.Join(base, fmt.Sprintf("d%d", i))
		if r.Chance(0.3) {
			initHuman[fmt.Sprintf("d%d", i)] = "missing"
			continue
		}
		_ = os.MkdirAll(dirs[i], 0o755)
		for _, n := range c11Names {
			if r.Chance(0.3) {
				_ = os.WriteFile(filepath.Join(dirs[i], n), c11Pool[r.Intn(len(c11Pool))].data, 0o644)
			}
		}
		if holdDir < 0 && r.Chance(0.3) {
			// a FIFO with a Spec name holds the cache's initial scan of this directory until the harness opens its write
			// end: changes made meanwhile fall between the start of cache creation and the end of its first scan
			if unix.Mkfifo(filepath.Join(dirs[i], "m.yaml"), 0o644) == nil {
				holdDir = i
			}
		}
		t, h, _ := c11Listing(dirs[i])
		initTerms = append(initTerms, hx.P(hx.S(dirs[i]), t))
		initHuman[fmt.Sprintf("d%d", i)] = h
	}

	var cache *cdi.Cache
	created := make(chan bool, 1)
	var preDirs []string
	if holdDir < 0 && r.Chance(0.25) {
		// the cache starts on another list of directories and is pointed at these ones by Configure(WithSpecDirs) alone,
		// the mode untouched: it must watch them exactly like a new cache; the machine starts from the same state
		other := filepath.Join(base, "other")
		_ = os.MkdirAll(other, 0o755)
		_ = os.WriteFile(filepath.Join(other, "a.json"), c11Pool[3+r.Intn(len(c11Pool)-3)].data, 0o644)
		switch r.Intn(3) {
		case 0:
			preDirs = []string{other}
		case 1:
			preDirs = []string{other, dirs[0]}
		default:
			preDirs = append([]string{dirs[nd-1]}, other)
		}
		st.tails["reconfigured onto these directories before the history"]++
	}
	go func() {
		if preDirs != nil {
			cache, _ = cdi.NewCache(cdi.WithSpecDirs(preDirs...), cdi.WithAutoRefresh(true))
			_ = cache.Configure(cdi.WithSpecDirs(dirs...))
		} else {
			cache, _ = cdi.NewCache(cdi.WithSpecDirs(dirs...), cdi.WithAutoRefresh(true))
		}
		created <- true
	}()
	if holdDir < 0 {
		<-created
		if r.Chance(0.25) {
			// the same cache reconfigured before the history starts (automatic refresh off and on again, same directories):
			// it must watch again exactly like a new one; the machine starts from the same state
			_ = cache.Configure(cdi.WithAutoRefresh(false))
			if r.Chance(0.5) {
				_ = cache.Configure(cdi.WithAutoRefresh(false))
			}
			_ = cache.Configure(cdi.WithAutoRefresh(true))
			st.tails["reconfigured off/on before the history"]++
		}
	}
	defer func() {
		if cache != nil {
			_ = cache.Configure(cdi.WithAutoRefresh(false))
		}
	}()

	pacings := []string{"none", "gosched", "sleep", "burst", "stall", "mixed"}
	pacing := pacings[r.Intn(len(pacings))]
	st.pacing[pacing]++
	nops := 4 + r.Intn(22)
	if pacing == "sleep" {
		nops = 3 + r.Intn(8)
	}

	var labels, human []string
	nOK := 0
	racyMkdir := false // set in the one stream that leaves the window between Add and scan open (see below)
	locked := false
	unlock := func() {
		if locked {
			cache.Unlock()
			locked = false
		}
	}
	modelSteps := func() {
		// labels only the machine sees: the result must not depend on when events are read and handled
		for r.Chance(0.5) {
			switch r.Intn(6) {
			case 0:
				labels = append(labels, hx.P("LRead", "true"))
			case 1:
				labels = append(labels, hx.P("LHandle", "true"))
			case 2:
				kinds := []string{"Chmod", "Write", "Create"}
				labels = append(labels, hx.P(hx.C("LNoise", hx.Pick(r, kinds), hx.S(dirs[r.Intn(nd)]), hx.S(hx.Pick(r, c11Names))), "true"))
			default:
				labels = append(labels, hx.P("LDeliver", "true"))
			}
		}
	}
	do := func(o c11Op) {
		ok := c11Apply(dirs, out, o)
		if !ok {
			st.opsFailed[o.Kind]++
		}
		if ok {
			st.opsOK[o.Kind]++
			nOK++
			if o.Kind == "mkdir" && !locked && !racyMkdir {
				// The model's update+refresh is one atomic step.  In the code a directory which is missing when update()
				// tries to watch it, but exists and is populated when the same refresh scans it a few microseconds later,
				// ends up cached but unwatched (known finding C11/add-scan-window).  Outside the stream that targets this
				// window, a directory created while the watcher may run is populated 2 ms later at the earliest.
				time.Sleep(2 * time.Millisecond)
			}
		}
		labels = append(labels, hx.P(hx.C("LOp", o.term(dirs)), hx.B(ok)))
		human = append(human, fmt.Sprintf("%s => %v", o, ok))
		modelSteps()
	}
	pickName := func(d int, existing float64) string {
		if r.Chance(existing) {
			if ents, err := os.ReadDir(dirs[d]); err == nil && len(ents) > 0 {
				return ents[r.Intn(len(ents))].Name()
			}
		}
		return hx.Pick(r, c11Names)
	}
	randomOp := func() []c11Op {
		d := r.Intn(nd)
		c := r.Intn(len(c11Pool))
		switch k := r.Intn(100); {
		case k < 22:
			return []c11Op{{Kind: "write", Dir: d, N: pickName(d, 0.3), C: c}}
		case k < 32:
			return []c11Op{{Kind: "movein", Dir: d, N: pickName(d, 0.2), C: c}}
		case k < 40:
			return []c11Op{{Kind: "linkin", Dir: d, N: hx.Pick(r, c11Names), C: c}}
		case k < 50:
			return []c11Op{{Kind: "rename", Dir: d, N: pickName(d, 0.8), B: hx.Pick(r, c11Names)}}
		case k < 58:
			return []c11Op{{Kind: "moveout", Dir: d, N: pickName(d, 0.8)}}
		case k < 68:
			return []c11Op{{Kind: "remove", Dir: d, N: pickName(d, 0.8)}}
		case k < 74:
			return []c11Op{{Kind: "mkdir", Dir: d}}
		case k < 82:
			return []c11Op{{Kind: "rmall", Dir: d}}
		case k < 90:
			// the way WriteSpec publishes: temporary name, then rename over the target
			n := hx.Pick(r, []string{"a.json", "b.yaml", "c.json"})
			return []c11Op{{Kind: "write", Dir: d, N: n + ".tmp", C: c}, {Kind: "rename", Dir: d, N: n + ".tmp", B: n}}
		default:
			// remove the directory and re-create it with content at once
			return []c11Op{{Kind: "rmall", Dir: d}, {Kind: "mkdir", Dir: d}, {Kind: "write", Dir: d, N: hx.Pick(r, c11Names), C: 3 + r.Intn(len(c11Pool)-3)}}
		}
	}
	pause := func() { time.Sleep(time.Duration(1+r.Intn(20)) * time.Millisecond) }

	if holdDir >= 0 {
		st.tails["changes-during-initial-scan"]++
		fifo := filepath.Join(dirs[holdDir], "m.yaml")
		// wait until the scan is blocked in open(2) on the FIFO: a non-blocking open of the write end succeeds only then
		var wfd int = -1
		for i := 0; i < 400 && wfd < 0; i++ {
			fd, err := unix.Open(fifo, unix.O_WRONLY|unix.O_NONBLOCK, 0)
			if err == nil {
				wfd = fd
			} else {
				time.Sleep(5 * time.Millisecond)
			}
		}
		// changes while the creation of the cache is in progress
		for i, n := 0, 1+r.Intn(3); i < n; i++ {
			c := r.Intn(len(c11Pool))
			switch r.Intn(4) {
			case 0:
				do(c11Op{Kind: "write", Dir: holdDir, N: hx.Pick(r, []string{"a.json", "b.yaml", "c.json"}), C: c})
			case 1:
				do(c11Op{Kind: "movein", Dir: holdDir, N: hx.Pick(r, []string{"a.json", "b.yaml", "c.json"}), C: c})
			case 2:
				do(c11Op{Kind: "remove", Dir: holdDir, N: pickName(holdDir, 1.0)})
			default:
				n2 := hx.Pick(r, []string{"a.json", "b.yaml"})
				do(c11Op{Kind: "write", Dir: holdDir, N: n2 + ".tmp", C: c})
				do(c11Op{Kind: "rename", Dir: holdDir, N: n2 + ".tmp", B: n2})
			}
		}
		// release the scan: the FIFO goes away, the reader sees end of file
		if _, err := os.Lstat(fifo); err == nil {
			do(c11Op{Kind: "remove", Dir: holdDir, N: "m.yaml"})
		}
		if wfd >= 0 {
			_ = unix.Close(wfd)
		}
		select {
		case <-created:
		case <-time.After(30 * time.Second):
			panic("c11: cache creation did not finish after the FIFO holding its scan was released")
		}
		if r.Chance(0.7) {
			// the changes made during the creation are the last ones: nothing later may repair a missed event
			nops = 0
			onlyPrelude = true
		}
	}
	burstLeft := 0
	for done := 0; done < nops; {
		ops := randomOp()
		if (pacing == "burst" || pacing == "stall") && burstLeft == 0 {
			unlock()
			if done > 0 {
				pause()
			}
			burstLeft = 2 + r.Intn(5)
			if pacing == "stall" {
				// the watcher goroutine cannot handle events while some caller holds the cache lock
				cache.Lock()
				locked = true
			}
		}
		for _, o := range ops {
			do(o)
			done++
			if burstLeft > 0 {
				burstLeft--
			}
			switch pacing {
			case "gosched":
				runtime.Gosched()
			case "sleep":
				pause()
			case "mixed":
				switch r.Intn(4) {
				case 0:
					runtime.Gosched()
				case 1:
					time.Sleep(time.Duration(r.Intn(3000)) * time.Microsecond)
				}
			}
		}
		// an occasional query in the middle of the history (never Refresh)
		if !locked && r.Chance(0.12) {
			_, _ = hx.Guard(func() { _ = cache.ListDevices() })
			labels = append(labels, hx.P("LQuery", "true"))
			human = append(human, "query")
			modelSteps()
		}
	}
	unlock()

	// tail: make every kind of operation likely to be the last effective one, and include the history shape
	// "directory removed and re-created with content before the watcher handles the removal; the watcher catches
	// up; the directory is removed again with no query in between"
	tail := "none"
	known := ""
	kTail := r.Intn(100)
	if onlyPrelude {
		kTail = 99
		tail = "only-changes-during-initial-scan"
	}
	switch k := kTail; {
	case k < 30:
		tail = "last-op"
		d := r.Intn(nd)
		c := r.Intn(len(c11Pool))
		switch r.Intn(8) {
		case 0:
			do(c11Op{Kind: "write", Dir: d, N: pickName(d, 0.5), C: c})
		case 1:
			do(c11Op{Kind: "movein", Dir: d, N: pickName(d, 0.3), C: c})
		case 2:
			do(c11Op{Kind: "linkin", Dir: d, N: hx.Pick(r, c11Names), C: c})
		case 3:
			do(c11Op{Kind: "rename", Dir: d, N: pickName(d, 0.9), B: hx.Pick(r, c11Names)})
		case 4:
			do(c11Op{Kind: "moveout", Dir: d, N: pickName(d, 0.9)})
		case 5:
			do(c11Op{Kind: "remove", Dir: d, N: pickName(d, 0.9)})
		case 6:
			do(c11Op{Kind: "write", Dir: d, N: pickName(d, 0.9), C: 0})
		default:
			do(c11Op{Kind: "rmall", Dir: d})
		}
	case k < 48:
		d := r.Intn(nd)
		time.Sleep(time.Duration(5+r.Intn(20)) * time.Millisecond) // let the watcher settle first
		if r.Chance(0.5) {
			// while a caller holds the cache lock the watcher cannot be between its Add and its scan
			tail = "recreate-then-remove/locked"
			cache.Lock()
			locked = true
		} else {
			tail = "recreate-then-remove/unlocked"
			known = "C11/add-scan-window"
			racyMkdir = true
		}
		do(c11Op{Kind: "rmall", Dir: d})
		do(c11Op{Kind: "mkdir", Dir: d})
		do(c11Op{Kind: "write", Dir: d, N: hx.Pick(r, []string{"a.json", "b.yaml", "c.json"}), C: 3 + r.Intn(len(c11Pool)-3)})
		unlock()
		time.Sleep(time.Duration(20+r.Intn(40)) * time.Millisecond) // the watcher catches up; no query
		do(c11Op{Kind: "rmall", Dir: d})
	case k < 62 && nd >= 2:
		// A query arrives while a rescan of the watcher is in progress, and it has work of its own: a directory that was
		// missing has appeared (which no event announces).  The rescan is held on a Spec name that is a link to a FIFO
		// outside the Spec directories, after it has passed the still missing directory; the FIFO is then replaced by a
		// regular Spec file, the missing directory created with content, the query made, the rescan released.
		tail = "query-during-held-rescan"
		e := r.Intn(nd - 1)
		d := e + 1 + r.Intn(nd-1-e)
		time.Sleep(20 * time.Millisecond)
		if _, err := os.Stat(dirs[d]); err != nil {
			do(c11Op{Kind: "mkdir", Dir: d})
		}
		_, _ = hx.Guard(func() { _ = cache.ListDevices() }) // every existing directory is watched from here on
		labels = append(labels, hx.P("LQuery", "true"))
		human = append(human, "query")
		if _, err := os.Stat(dirs[e]); err == nil {
			do(c11Op{Kind: "rmall", Dir: e})
		}
		name := hx.Pick(r, []string{"a.json", "b.yaml", "c.json"})
		if _, err := os.Lstat(filepath.Join(dirs[d], name)); err == nil {
			do(c11Op{Kind: "remove", Dir: d, N: name})
		}
		time.Sleep(40 * time.Millisecond) // the watcher has handled all that
		c11Uniq++
		fifo := filepath.Join(out, fmt.Sprintf("target-%d", c11Uniq))
		c := 3 + r.Intn(len(c11Pool)-3)
		if unix.Mkfifo(fifo, 0o644) == nil && os.Symlink(fifo, filepath.Join(dirs[d], name)) == nil {
			o := c11Op{Kind: "symlinkin", Dir: d, N: name, C: c}
			st.opsOK[o.Kind]++
			nOK++
			labels = append(labels, hx.P(hx.C("LOp", o.term(dirs)), hx.B(true)))
			human = append(human, o.String()+" => true (the target is a FIFO until the rescan is blocked on it, then a regular file)")
			wfd := -1
			for i := 0; i < 400 && wfd < 0; i++ {
				if fd, err := unix.Open(fifo, unix.O_WRONLY|unix.O_NONBLOCK, 0); err == nil {
					wfd = fd
				} else {
					time.Sleep(5 * time.Millisecond)
				}
			}
			_ = os.Rename(fifo, fifo+".old")
			_ = os.WriteFile(fifo, c11Pool[c].data, 0o644)
			do(c11Op{Kind: "mkdir", Dir: e})
			do(c11Op{Kind: "write", Dir: e, N: hx.Pick(r, []string{"a.json", "b.yaml", "c.json"}), C: 3 + r.Intn(len(c11Pool)-3)})
			answered := make(chan bool, 1)
			go func() {
				_, _ = hx.Guard(func() { _ = cache.ListDevices() })
				answered <- true
			}()
			got := false
			select {
			case <-answered:
				got = true
			case <-time.After(300 * time.Millisecond):
			}
			labels = append(labels, hx.P("LQuery", "true"))
			human = append(human, fmt.Sprintf("query (answered before the held rescan was released: %v)", got))
			if wfd >= 0 {
				_ = unix.Close(wfd)
			}
			// whoever else got blocked on the old FIFO meanwhile is released as well
			if fd, err := unix.Open(fifo+".old", unix.O_WRONLY|unix.O_NONBLOCK, 0); err == nil {
				_ = unix.Close(fd)
			}
			if !got {
				select {
				case <-answered:
				case <-time.After(30 * time.Second):
					panic("c11: a query did not return after the rescan held on a FIFO was released")
				}
			}
		}
	}
	st.tails[tail]++

	// the changes have ceased
	fresh := c11Fresh(dirs)
	limit := 3 * time.Second
	if st.notConverged >= 6 {
		limit = 400 * time.Millisecond // enough evidence already; keep the run short
	}
	start := time.Now()
	var got c11Answer
	converged := false
	for sleep := 200 * time.Microsecond; ; {
		var consistent bool
		got, consistent = c11Ask(cache)
		if consistent && got.equal(fresh) {
			// and it stays so
			time.Sleep(15 * time.Millisecond)
			again, c2 := c11Ask(cache)
			if c2 && again.equal(fresh) {
				converged = true
				break
			}
			got = again
		}
		if time.Since(start) > limit {
			break
		}
		time.Sleep(sleep)
		if sleep < 20*time.Millisecond {
			sleep *= 2
		}
	}
	wait := time.Since(start)
	if converged {
		st.waits = append(st.waits, float64(wait.Microseconds())/1000)
	} else {
		st.notConverged++
	}

	rel := make([]string, nd)
	for i := range dirs {
		rel[i] = fmt.Sprintf("d%d", i)
	}
	finalHuman := map[string]interface{}{}
	for i := range dirs {
		if _, h, ok := c11Listing(dirs[i]); ok {
			finalHuman[rel[i]] = h
		} else {
			finalHuman[rel[i]] = "missing"
		}
	}
	return hx.Case{
		Term: hx.C("CHist", hx.LS(dirs), hx.L(initTerms), hx.L(labels), fresh.devTerm(), hx.LS(fresh.Errs),
			hx.B(converged), got.devTerm(), hx.LS(got.Errs)),
		Desc: map[string]interface{}{"stream": "convergence", "dirs": rel, "initial": initHuman, "pacing": pacing, "tail": tail, "history": human,
			"final": finalHuman, "fresh_cache": fresh.human(base + "/"), "auto_refreshed_cache": got.human(base + "/"),
			"converged": converged, "waited_ms": float64(wait.Microseconds()) / 1000},
		Nontrivial: nOK > 0,
		Class:      "history",
		Known:      known,
	}
}

// ---------- (iii) filter decisions ----------

func c11ParseOps(s string) (string, bool) {
	var items []string
	for _, p := range strings.Split(s, "|") {
		switch p {
		case "CREATE":
			items = append(items, "Create")
		case "WRITE":
			items = append(items, "Write")
		case "REMOVE":
			items = append(items, "Remove")
		case "RENAME":
			items = append(items, "Rename")
		case "CHMOD":
			items = append(items, "Chmod")
		default:
			return "", false
		}
	}
	return hx.L(items), true
}

func c11FilterCases(s *hx.Suite, logPath, root string) error {
	f, err := os.Open(logPath)
	if err != nil {
		if os.IsNotExist(err) {
			return nil
		}
		return err
	}
	defer f.Close()
	type key struct {
		ops, base string
		acc       bool
	}
	count := map[key]int{}
	example := map[key]string{}
	var order []key
	sc := bufio.NewScanner(f)
	sc.Buffer(make([]byte, 1<<20), 1<<20)
	total := 0
	for sc.Scan() {
		parts := strings.Split(sc.Text(), "\t")
		if len(parts) != 3 {
			continue
		}
		name, err := strconv.Unquote(parts[1])
		if err != nil {
			continue
		}
		total++
		k := key{parts[0], filepath.Base(name), parts[2] == "true"}
		if count[k] == 0 {
			order = append(order, k)
			example[k] = name
		}
		count[k]++
	}
	for _, k := range order {
		ops, ok := c11ParseOps(k.ops)
		if !ok {
			return fmt.Errorf("unknown op in event log: %q", k.ops)
		}
		s.Add(hx.Case{
			Term: hx.C("CFilter", ops, hx.S(example[k]), hx.B(k.acc)),
			Desc: map[string]interface{}{"stream": "filter", "op": k.ops, "name": strings.TrimPrefix(example[k], root+"/"), "accepted": k.acc,
				"events_like_this": count[k]},
			Key:        "f:" + k.ops + ":" + k.base + ":" + fmt.Sprint(k.acc),
			Nontrivial: true,
			Class:      "filter/" + k.ops,
		})
	}
	s.Extra["x_filter_events_logged"] = total
	return nil
}

func genC11(r *hx.R, tier string, scratch string) (*hx.Suite, error) {
	c11InitPool()
	s := &hx.Suite{
		Property: "C11",
		Imports:  []string{"Base", "Paths", "Watch", "Judge11"},
		CaseType: "case11",
		Judge:    "judge11",
		Shard:    40,
		Extra:    map[string]interface{}{},
		Rule: "event table: every operation kind (create+write, empty create, truncating rewrite, move in, hard link, symlink, rename inside, replace by rename, " +
			"move out, remove, mkdir, rm -rf) on random directory populations under a bare fsnotify.Watcher, events delimited by a sentinel; " +
			"convergence: random histories of 3-25 such operations (plus temp+rename publication and remove/re-create/populate bursts) over 1-3 configured " +
			"directories, each missing at start with probability 0.3, file names with and without Spec extensions, contents empty / invalid / valid Specs over " +
			"2 vendors x 2 device names (conflicts and shadowing arise), pacing none / Gosched / 1-20 ms sleeps / bursts / bursts while the cache lock is held / mixed, " +
			"occasional queries, never Refresh; 30% of the histories end with one more operation of a uniformly chosen kind on an existing entry, 18% with " +
			"remove + re-create + populate in one burst, a pause, and a second removal (half of them while the cache lock is held; the other half is the only " +
			"stream in which a directory is populated less than 2 ms after its creation while the watcher may run: known finding C11/add-scan-window); then polling ListDevices + GetDevice(..).GetSpec().GetPath() + GetErrors keys until equal (twice, 15 ms apart) to a " +
			"freshly built cache's, deadline 3 s; filter: every distinct (op, base name, decision) logged by the verifEvent hook during the histories. " +
			"Non-trivial: at least one operation of the case succeeded.",
	}
	root, err := filepath.Abs(scratch)
	if err != nil {
		return nil, err
	}
	logPath := filepath.Join(root, "events.log")
	_ = os.Remove(logPath)
	os.Setenv("VERIF_EVENT_LOG", logPath)

	kinds := []string{"write", "write", "write", "movein", "movein", "linkin", "symlinkin", "rename", "rename", "rename", "moveout", "remove", "mkdir", "rmall"}
	nEv, nHist := 6*len(kinds), 320
	if tier == "thorough" {
		nEv, nHist = 20*len(kinds), 1600
	}
	for i := 0; i < nEv; i++ {
		c, err := c11EventCase(r, root, i, kinds[i%len(kinds)])
		if err != nil {
			return nil, err
		}
		s.Add(c)
	}
	st := &c11Stats{pacing: map[string]int{}, opsOK: map[string]int{}, opsFailed: map[string]int{}, tails: map[string]int{}}
	for i := 0; i < nHist; i++ {
		s.Add(c11History(r, root, i, tier, st))
		if i%20 == 19 {
			// keep the scratch directory small
			for j := i - 19; j <= i; j++ {
				_ = os.RemoveAll(filepath.Join(root, fmt.Sprintf("h%04d", j)))
			}
		}
	}
	time.Sleep(50 * time.Millisecond)
	if err := c11FilterCases(s, logPath, root); err != nil {
		return nil, err
	}
	sort.Float64s(st.waits)
	if n := len(st.waits); n > 0 {
		s.Extra["x_convergence_wait_ms"] = map[string]interface{}{"median": st.waits[n/2], "p95": st.waits[n*95/100], "max": st.waits[n-1]}
	}
	s.Extra["x_histories_not_converged"] = st.notConverged
	s.Extra["x_history_pacing"] = st.pacing
	s.Extra["x_history_operations_succeeded"] = st.opsOK
	s.Extra["x_history_operations_failed"] = st.opsFailed
	s.Extra["x_event_table_kinds"] = kinds
	s.Extra["x_history_tails"] = st.tails
	return s, nil
}

// ---------- diagnostic child: vharness c11-stress <n> <locked:0|1> <dir-index> ----------
// Repeats the history shape "remove + re-create + populate in one burst; pause; remove again" against a fresh
// auto-refresh cache and reports the runs that do not converge, with the watcher's event log of each.
func init() { children["c11-stress"] = c11Stress }

func c11Stress(args []string) int {
	c11InitPool()
	n, _ := strconv.Atoi(args[0])
	locked := len(args) > 1 && args[1] == "1"
	di := 0
	if len(args) > 2 {
		di, _ = strconv.Atoi(args[2])
	}
	root, _ := os.MkdirTemp("", "c11-stress-")
	defer os.RemoveAll(root)
	logPath := filepath.Join(root, "events.log")
	os.Setenv("VERIF_EVENT_LOG", logPath)
	bad := 0
	for i := 0; i < n; i++ {
		base := filepath.Join(root, fmt.Sprintf("r%d", i))
		dirs := []string{filepath.Join(base, "d0"), filepath.Join(base, "d1")}
		for _, d := range dirs {
			_ = os.MkdirAll(d, 0o755)
			_ = os.WriteFile(filepath.Join(d, "a.json"), c11Pool[3].data, 0o644)
		}
		_ = os.Remove(logPath)
		cache, _ := cdi.NewCache(cdi.WithSpecDirs(dirs...), cdi.WithAutoRefresh(true))
		time.Sleep(2 * time.Millisecond)
		d := dirs[di]
		t0 := time.Now()
		if locked {
			cache.Lock()
		}
		_ = os.RemoveAll(d)
		t1 := time.Since(t0)
		_ = os.Mkdir(d, 0o755)
		t2 := time.Since(t0)
		_ = os.WriteFile(filepath.Join(d, "b.yaml"), c11Pool[7].data, 0o644)
		t3 := time.Since(t0)
		if locked {
			cache.Unlock()
		}
		time.Sleep(30 * time.Millisecond)
		tr1, _ := cdi.VerifTracked(cache)
		_ = os.RemoveAll(d)
		fresh := c11Fresh(dirs)
		ok := false
		var got c11Answer
		for start := time.Now(); time.Since(start) < time.Second; time.Sleep(2 * time.Millisecond) {
			var c bool
			got, c = c11Ask(cache)
			if c && got.equal(fresh) {
				ok = true
				break
			}
		}
		if !ok {
			bad++
			tr2, _ := cdi.VerifTracked(cache)
			log, _ := os.ReadFile(logPath)
			fmt.Printf("run %d NOT converged: rmall %v mkdir %v write %v\n tracked before 2nd removal %v, at end %v\n got %v\n fresh %v\n%s\n",
				i, t1, t2, t3, tr1, tr2, got, fresh, strings.ReplaceAll(string(log), base+"/", ""))
		}
		_ = cache.Configure(cdi.WithAutoRefresh(false))
		_ = os.RemoveAll(base)
	}
	fmt.Printf("%d of %d runs did not converge\n", bad, n)
	return 0
}
