package main

import (
	oci "github.com/opencontainers/runtime-spec/specs-go"
	"bufio"
	"bytes"
	"encoding/json"
	"fmt"
	"io"
	"os"
	"os/exec"
	"path/filepath"
	"sort"
	"strings"
	"syscall"
	"time"

	"sigs.k8s.io/yaml"
	"tags.cncf.io/container-device-interface/pkg/cdi"
	"tags.cncf.io/container-device-interface/pkg/parser"
	"tags.cncf.io/container-device-interface/schema"
	specs "tags.cncf.io/container-device-interface/specs-go"
	"verif/harness/hx"
)

func init() {
	registry["C08"] = genC08
	children["c08-cache"] = c08CacheChild
}

// watch runs f under a panic guard and a watchdog: 0 returned, 2 panicked, 3 did not return in time.
func watchCall(f func(), limit time.Duration) int {
	done := make(chan int, 1)
	go func() {
		p, _ := hx.Guard(f)
		if p {
			done <- 2
		} else {
			done <- 0
		}
	}()
	select {
	case c := <-done:
		return c
	case <-time.After(limit):
		return 3
	}
}

func safeIsQualified(name string) (ok bool) {
	_, _ = hx.Guard(func() { ok = parser.IsQualifiedName(name) })
	return ok
}

func worst(a, b int) int {
	if b > a {
		return b
	}
	return a
}

// ---------- byte-level mutations ----------

func mutateBytes(r *hx.R, data []byte) []byte {
	d := append([]byte{}, data...)
	if len(d) == 0 {
		return []byte{byte(r.Intn(256))}
	}
	switch r.Intn(15) {
	case 12: // list entries of the wrong type in front of the real ones: scalars, lists, empty objects
		x := hx.Pick(r, []string{"3", `"x"`, "[]", "{}", "true", "1.5", "[null]", `{"name":3}`})
		if bytes.Contains(d, []byte("[")) {
			d = bytes.Replace(d, []byte("["), []byte("["+x+","), 1+r.Intn(3))
		} else {
			d = bytes.Replace(d, []byte("\n- "), []byte("\n- "+x+"\n- "), 1+r.Intn(3))
		}
	case 13: // annotations and names of the wrong type
		repl := [][2]string{{`"annotations":{`, `"annotations":[`}, {`"annotations":{`, `"annotations":{"n":3,`}, {`"annotations":{`, `"annotations":{"n":null,`},
			{`"annotations":{`, `"annotations":"`}, {"annotations:\n", "annotations: 3 #\n"}, {"annotations:\n", "annotations:\n  - x\n"}, {"annotations:\n", "annotations:\n  n: [1]\n"},
			{`"name":"`, `"name":{"a":"`}, {`"name":"`, `"name":["`}, {"name: ", "name: [x] #"}, {`"containerEdits":{`, `"containerEdits":[{`}, {`"hooks":[`, `"hooks":{"a":`}}
		p := hx.Pick(r, repl)
		d = bytes.Replace(d, []byte(p[0]), []byte(p[1]), 1+r.Intn(2))
	case 14: // a device annotation / spec annotation that is huge, has an empty or odd key
		repl := [][2]string{{`"annotations":{`, `"annotations":{"":"",`}, {`"annotations":{`, `"annotations":{"a/b/c":"x",`}, {`"annotations":{`, `"annotations":{"k":"` + strings.Repeat("v", 300000) + `",`}}
		p := hx.Pick(r, repl)
		d = bytes.Replace(d, []byte(p[0]), []byte(p[1]), 1)
	case 0: // bit flips
		for i, n := 0, 1+r.Intn(4); i < n; i++ {
			d[r.Intn(len(d))] ^= 1 << uint(r.Intn(8))
		}
	case 1: // truncation
		d = d[:r.Intn(len(d))]
	case 2: // duplicate a chunk
		i := r.Intn(len(d))
		j := i + r.Intn(len(d)-i)
		d = append(d[:j], append(append([]byte{}, d[i:j]...), d[j:]...)...)
	case 3: // replace a token by null
		toks := []string{`"0.5.0"`, `"rw"`, `"c"`, `[`, `{`, `"/dev/a"`, `"dev1"`, `"prestart"`, "dev1", "0.5.0", "containerEdits"}
		t := hx.Pick(r, toks)
		d = bytes.Replace(d, []byte(t), []byte("null"), 1+r.Intn(2))
	case 4: // null list entries
		d = bytes.Replace(d, []byte("["), []byte("[null,"), 1+r.Intn(3))
	case 5: // deep nesting
		n := 50 + r.Intn(5000)
		d = append(bytes.Repeat([]byte("["), n), append(d, bytes.Repeat([]byte("]"), n)...)...)
	case 6: // huge scalar
		i := r.Intn(len(d))
		d = append(d[:i], append(bytes.Repeat([]byte(hx.Pick(r, []string{"9", "a", "\\u0000", " "})), 1000+r.Intn(100000)), d[i:]...)...)
	case 7: // YAML specials
		d = append([]byte(hx.Pick(r, []string{"&a ", "*a ", "<<: *a\n", "--- !!binary ", "? ", "%YAML 9.9\n---\n", "!!set ", "- - - - ", "\t", "\xff\xfe", "\xef\xbb\xbf"})), d...)
	case 8: // random bytes inserted
		i := r.Intn(len(d))
		junk := make([]byte, 1+r.Intn(16))
		for k := range junk {
			junk[k] = byte(r.Intn(256))
		}
		d = append(d[:i], append(junk, d[i:]...)...)
	case 9: // swap types
		repl := [][2]string{{`"devices":[`, `"devices":{`}, {`"env":[`, `"env":"`}, {`"major":`, `"major":"x`}, {`"kind":"`, `"kind":["`}, {"devices:", "devices: 3 #"}, {"- name:", "- - name:"}}
		p := hx.Pick(r, repl)
		d = bytes.Replace(d, []byte(p[0]), []byte(p[1]), 1)
	case 10: // numbers at extremes
		repl := []string{"1e400", "-0", "18446744073709551616", "-9223372036854775809", "0x10", "1.5", "NaN", ".inf", "0o17", "1_000"}
		for _, t := range []string{`"major":`, "major: ", `"timeout":`, "timeout: ", `"uid":`, "uid: "} {
			if i := bytes.Index(d, []byte(t)); i >= 0 {
				d = append(d[:i+len(t)], append([]byte(hx.Pick(r, repl)+" "), d[i+len(t):]...)...)
				break
			}
		}
	default: // delete a chunk
		i := r.Intn(len(d))
		j := i + r.Intn(len(d)-i)
		d = append(d[:i], d[j:]...)
	}
	if len(d) > 1<<20 {
		d = d[:1<<20]
	}
	return d
}

func corpusSpecs(r *hx.R, hosts []hostNode, devDir string) [][]byte {
	var out [][]byte
	for i := 0; i < 12; i++ {
		s := &specs.Spec{Version: "0.7.0", Kind: hx.Pick(r, poolVendors) + "/" + hx.Pick(r, poolClasses)}
		if r.Chance(0.5) {
			s.Annotations = map[string]string{"example.com/note": "x", "k": "v"}
		}
		for j, n := 0, 1+r.Intn(3); j < n; j++ {
			d := specs.Device{Name: fmt.Sprintf("dev%d", j), ContainerEdits: *randEdits(r, hosts, devDir, false)}
			if len(d.ContainerEdits.Env) == 0 {
				d.ContainerEdits.Env = []string{"A=b"}
			}
			if r.Chance(0.5) {
				d.Annotations = map[string]string{"example.com/dev": fmt.Sprint(j), "k": ""}
			}
			s.Devices = append(s.Devices, d)
		}
		s.ContainerEdits = *randEdits(r, hosts, devDir, false)
		j, _ := json.Marshal(s)
		y, _ := yaml.Marshal(s)
		out = append(out, j, y)
	}
	return out
}

// ---------- the live cache child ----------

// c08CacheChild: an auto-refresh cache on a directory; for every line "<file name>" read from stdin it waits until the
// cache either reports an error entry for that file or has loaded a Spec from it, and answers "error" / "loaded" / "none".
func c08CacheChild(args []string) int {
	dir := args[0]
	// bound the address space so that a hostile document cannot take the machine down
	_ = syscall.Setrlimit(9 /* RLIMIT_AS */, &syscall.Rlimit{Cur: 4 << 30, Max: 4 << 30})
	withValidator := len(args) > 1 && args[1] == "validator"
	if withValidator {
		cdi.SetSpecValidator(schema.BuiltinSchema())
	}
	cache, _ := cdi.NewCache(cdi.WithSpecDirs(dir), cdi.WithAutoRefresh(true))
	fmt.Println("ready")
	toggle := 0
	in := bufio.NewScanner(os.Stdin)
	for in.Scan() {
		name := in.Text()
		path := filepath.Join(dir, name)
		ans := "none"
		end := time.Now().Add(3 * time.Second)
		for time.Now().Before(end) {
			if _, ok := cache.GetErrors()[path]; ok {
				ans = "error"
				break
			}
			found := false
			for _, v := range cache.ListVendors() {
				for _, s := range cache.GetVendorSpecs(v) {
					if s.GetPath() == path {
						found = true
					}
				}
			}
			if found {
				ans = "loaded"
				break
			}
			time.Sleep(2 * time.Millisecond)
		}
		if withValidator {
			// replace the validator after every probe: must not block, whatever the validator said about the file
			done := make(chan bool, 1)
			go func() {
				toggle++
				if toggle%2 == 0 {
					cdi.SetSpecValidator(schema.BuiltinSchema())
				} else {
					cdi.SetSpecValidator(schema.NopSchema())
				}
				_ = cache.ListDevices()
				done <- true
			}()
			select {
			case <-done:
			case <-time.After(5 * time.Second):
				ans = "hang"
			}
		}
		fmt.Println(ans)
		if ans == "hang" {
			os.Exit(3)
		}
	}
	return 0
}

type cacheChild struct {
	cmd *exec.Cmd
	in  io.WriteCloser
	out *bufio.Reader
	dir string
}

func startCacheChild(dir string, mode ...string) (*cacheChild, error) {
	_ = os.MkdirAll(dir, 0o755)
	cmd := exec.Command(os.Args[0], append([]string{"c08-cache", dir}, mode...)...)
	in, _ := cmd.StdinPipe()
	out, _ := cmd.StdoutPipe()
	cmd.Stderr = nil
	if err := cmd.Start(); err != nil {
		return nil, err
	}
	c := &cacheChild{cmd: cmd, in: in, out: bufio.NewReader(out), dir: dir}
	line, err := c.out.ReadString('\n')
	if err != nil || strings.TrimSpace(line) != "ready" {
		return nil, fmt.Errorf("cache child did not start: %v %q", err, line)
	}
	return c, nil
}

// probe writes data as name into the watched directory and asks the child; returns class and whether it was reported.
func (c *cacheChild) probe(name string, data []byte) (int, bool) {
	path := filepath.Join(c.dir, name)
	tmp := filepath.Join(filepath.Dir(c.dir), "c08tmp")
	_ = os.WriteFile(tmp, data, 0o644)
	_ = os.Rename(tmp, path)
	fmt.Fprintln(c.in, name)
	type res struct {
		s   string
		err error
	}
	ch := make(chan res, 1)
	go func() {
		s, err := c.out.ReadString('\n')
		ch <- res{strings.TrimSpace(s), err}
	}()
	var r res
	select {
	case r = <-ch:
	case <-time.After(10 * time.Second):
		_ = c.cmd.Process.Kill()
		_ = os.Remove(path)
		return 3, false
	}
	_ = os.Remove(path)
	if r.err != nil {
		// the child died: a panic on one of its goroutines (or it was killed by the memory limit)
		_ = c.cmd.Wait()
		return 2, false
	}
	if r.s == "hang" {
		_ = c.cmd.Wait()
		return 3, false
	}
	return 0, r.s == "error" || r.s == "loaded"
}

func (c *cacheChild) stop() {
	_ = c.in.Close()
	_ = c.cmd.Process.Kill()
	_ = c.cmd.Wait()
}

// oddOCI makes an OCI spec one no engine would write but the type allows: the same device path, mount destination, cgroup
// rule or variable twice, empty paths, present-but-empty sections.
func oddOCI(r *hx.R, s *oci.Spec) {
	for k, n := 0, 1+r.Intn(3); k < n; k++ {
		switch r.Intn(8) {
		case 0:
			if len(s.Mounts) > 0 {
				s.Mounts = append(s.Mounts, s.Mounts[r.Intn(len(s.Mounts))])
			}
		case 1:
			if len(s.Mounts) > 0 {
				s.Mounts = append([]oci.Mount{s.Mounts[len(s.Mounts)-1]}, s.Mounts...)
			}
		case 2:
			if s.Linux != nil && len(s.Linux.Devices) > 0 {
				s.Linux.Devices = append(s.Linux.Devices, s.Linux.Devices[r.Intn(len(s.Linux.Devices))])
			}
		case 3:
			s.Mounts = append(s.Mounts, oci.Mount{}, oci.Mount{Destination: "/a", Source: "/dup"}, oci.Mount{Destination: "/a"})
		case 4:
			if s.Linux == nil {
				s.Linux = &oci.Linux{}
			}
			s.Linux.Devices = append(s.Linux.Devices, oci.LinuxDevice{}, oci.LinuxDevice{Path: "/dev/a"}, oci.LinuxDevice{Path: "/dev/a", Type: "b"})
		case 5:
			if s.Process != nil {
				s.Process.Env = append(s.Process.Env, s.Process.Env...)
				s.Process.User.AdditionalGids = append(s.Process.User.AdditionalGids, s.Process.User.AdditionalGids...)
			}
		case 6:
			s.Hooks = &oci.Hooks{Prestart: []oci.Hook{}, CreateContainer: []oci.Hook{{}}}
			s.Process = &oci.Process{Env: []string{}}
			s.Linux = &oci.Linux{Devices: []oci.LinuxDevice{}, Resources: &oci.LinuxResources{Devices: []oci.LinuxDeviceCgroup{}}, IntelRdt: &oci.LinuxIntelRdt{}}
		default:
			if s.Linux != nil && s.Linux.Resources != nil && len(s.Linux.Resources.Devices) > 0 {
				s.Linux.Resources.Devices = append(s.Linux.Resources.Devices, s.Linux.Resources.Devices...)
			}
		}
	}
}

// structuralDocs: every JSON corpus document with one list changed - a null, a number, a string, a list or an empty object
// inserted first, in the middle or last, or the last element replaced by null - for every list of the document (devices,
// env, deviceNodes, hooks, mounts, additionalGids, args, options ...; Spec level and device level).  A fixed number per
// kind of list is kept, re-encoded as JSON and YAML in turn.
func structuralDocs(r *hx.R, corpus [][]byte, tier string) [][]byte {
	groups := map[string][][]byte{}
	clone := func(raw []byte) interface{} {
		var t interface{}
		_ = json.Unmarshal(raw, &t)
		return t
	}
	for _, raw := range corpus {
		if len(raw) == 0 || raw[0] != '{' {
			continue
		}
		var paths [][]interface{}
		var walk func(v interface{}, path []interface{})
		walk = func(v interface{}, path []interface{}) {
			switch t := v.(type) {
			case map[string]interface{}:
				keys := make([]string, 0, len(t))
				for k := range t {
					keys = append(keys, k)
				}
				sort.Strings(keys)
				for _, k := range keys {
					walk(t[k], append(append([]interface{}{}, path...), k))
				}
			case []interface{}:
				paths = append(paths, append([]interface{}{}, path...))
				for i, c := range t {
					walk(c, append(append([]interface{}{}, path...), i))
				}
			}
		}
		walk(clone(raw), nil)
		for _, pth := range paths {
			var names []string
			for _, e := range pth {
				if k, ok := e.(string); ok {
					names = append(names, k)
				}
			}
			tag := strings.Join(names, ".")
			// edit applies f to the list at pth in a fresh copy of the document and returns the new document
			edit := func(f func(l []interface{}) []interface{}) interface{} {
				root := clone(raw)
				var parent interface{}
				cur := root
				for _, e := range pth {
					parent = cur
					switch k := e.(type) {
					case string:
						cur = cur.(map[string]interface{})[k]
					case int:
						cur = cur.([]interface{})[k]
					}
				}
				nl := f(append([]interface{}{}, cur.([]interface{})...))
				switch k := pth[len(pth)-1].(type) {
				case string:
					parent.(map[string]interface{})[k] = nl
				case int:
					parent.([]interface{})[k] = nl
				}
				return root
			}
			n := 0
			_ = edit(func(l []interface{}) []interface{} { n = len(l); return l })
			var docs []interface{}
			for _, pos := range []int{0, n / 2, n} {
				for _, val := range []interface{}{nil, nil, 3.0, "x", []interface{}{}, map[string]interface{}{}} {
					pos, val := pos, val
					docs = append(docs, edit(func(l []interface{}) []interface{} {
						return append(l[:pos:pos], append([]interface{}{val}, l[pos:]...)...)
					}))
				}
			}
			if n > 0 {
				docs = append(docs, edit(func(l []interface{}) []interface{} { l[n-1] = nil; return l }),
					edit(func(l []interface{}) []interface{} { l[0] = nil; return l }),
					edit(func(l []interface{}) []interface{} { return []interface{}{nil} }))
			}
			for _, d := range docs {
				j, _ := json.Marshal(d)
				groups[tag] = append(groups[tag], j)
			}
		}
	}
	tags := make([]string, 0, len(groups))
	for t := range groups {
		tags = append(tags, t)
	}
	sort.Strings(tags)
	per := 8
	if tier == "thorough" {
		per = 30
	}
	var out [][]byte
	for _, t := range tags {
		g := groups[t]
		for k := 0; k < per && len(g) > 0; k++ {
			i := r.Intn(len(g))
			doc := g[i]
			g = append(g[:i:i], g[i+1:]...)
			if k%2 == 1 {
				var tree interface{}
				_ = json.Unmarshal(doc, &tree)
				if y, err := yaml.Marshal(tree); err == nil {
					doc = y
				}
			}
			out = append(out, doc)
		}
	}
	return out
}

// c08RunDoc: one document through every entry point that takes Spec file content (live: also through the cache child).
func c08RunDoc(s *hx.Suite, r *hx.R, child **cacheChild, watched, fileDir string, hosts []hostNode, childDeaths *int,
	add func(entry string, data []byte, cls int, reported bool, wellFormed bool)) func(data []byte, wellFormed, live bool) error {
	limit := 5 * time.Second
	sch := schema.BuiltinSchema()
	nopSch := schema.NopSchema()
	var nilSch *schema.Schema
	// a loaded schema that accepts every document: the content checks behind the schema then see documents the builtin
	// schema would have stopped (annotations, devices and device entries of any type)
	anyPath := filepath.Join(filepath.Dir(fileDir), "any-schema.json")
	_ = os.WriteFile(anyPath, []byte("{}"), 0o644)
	anySch, lerr := schema.Load("file://" + anyPath)
	if lerr != nil {
		anySch = nopSch
	}
	manual, _ := cdi.NewCache(cdi.WithSpecDirs(fileDir), cdi.WithAutoRefresh(false))
	return func(data []byte, wellFormed, live bool) error {
		for _, ext := range []string{".json", ".yaml"} {
			path := filepath.Join(fileDir, "f"+ext)
			_ = os.WriteFile(path, data, 0o644)
			var sp *cdi.Spec
			var rerr error
			cls := watchCall(func() { sp, rerr = cdi.ReadSpec(path, 0) }, limit)
			add("ReadSpec"+ext, data, cls, cls != 0 || rerr != nil || sp != nil, wellFormed)
			cls = watchCall(func() { _ = sch.ValidateFile(path) }, limit)
			add("schema.ValidateFile"+ext, data, cls, true, wellFormed)
			if live {
				c2, reported := (*child).probe("p"+ext, data)
				add("live-cache"+ext, data, c2, reported, wellFormed)
				if c2 != 0 {
					*childDeaths++
					(*child).stop()
					var err error
					if *child, err = startCacheChild(watched); err != nil {
						return err
					}
				}
			}
		}
		var parsed *specs.Spec
		cls := watchCall(func() { parsed, _ = cdi.ParseSpec(data) }, limit)
		add("ParseSpec", data, cls, true, wellFormed)
		pcls := cls
		cls = watchCall(func() { _ = sch.ValidateData(data) }, limit)
		add("schema.ValidateData", data, cls, true, wellFormed)
		cls = watchCall(func() { _ = sch.ValidateReader(bytes.NewReader(data)) }, limit)
		add("schema.ValidateReader", data, cls, true, wellFormed)
		// whatever the text layer made of the document (nil list entries, zero members ...) as a typed Spec: the schema's
		// Validate (under every schema configuration) and the version requirement
		if pcls == 0 && parsed != nil {
			cls = watchCall(func() { _ = sch.Validate(parsed) }, limit)
			cls = worst(cls, watchCall(func() { _ = nopSch.Validate(parsed) }, limit))
			cls = worst(cls, watchCall(func() { _ = nilSch.Validate(parsed) }, limit))
			cls = worst(cls, watchCall(func() { _ = sch.ValidateType(parsed) }, limit))
			add("schema.Validate(parsed Spec)", data, cls, true, wellFormed)
			cls = watchCall(func() { _ = specs.ValidateVersion(parsed) }, limit)
			cls = worst(cls, watchCall(func() { _, _ = specs.MinimumRequiredVersion(parsed) }, limit))
			cls = worst(cls, watchCall(func() { _, _ = cdi.MinimumRequiredVersion(parsed) }, limit))
			add("specs.ValidateVersion(parsed Spec)", data, cls, true, wellFormed)
		}
		// the other schema configurations: no-op schema, nil *Schema, the package-level functions on the default schema
		for _, sc := range []struct {
			n string
			s *schema.Schema
		}{{"nop", nopSch}, {"nil", nilSch}, {"loaded-permissive", anySch}} {
			sc := sc
			cls = watchCall(func() { _ = sc.s.ValidateData(data) }, limit)
			cls = worst(cls, watchCall(func() { _ = sc.s.ValidateReader(bytes.NewReader(data)) }, limit))
			cls = worst(cls, watchCall(func() { _, _ = sc.s.ReadAndValidate(bytes.NewReader(data)) }, limit))
			cls = worst(cls, watchCall(func() { _ = sc.s.ValidateFile(filepath.Join(fileDir, "f.json")) }, limit))
			cls = worst(cls, watchCall(func() { _ = sc.s.ValidateFile(filepath.Join(fileDir, "f.yaml")) }, limit))
			add("schema["+sc.n+"].Validate*", data, cls, true, wellFormed)
		}
		cls = watchCall(func() { _ = schema.ValidateData(data) }, limit)
		cls = worst(cls, watchCall(func() { _ = schema.ValidateReader(bytes.NewReader(data)) }, limit))
		cls = worst(cls, watchCall(func() { _, _ = schema.ReadAndValidate(bytes.NewReader(data)) }, limit))
		cls = worst(cls, watchCall(func() { _ = schema.ValidateFile(filepath.Join(fileDir, "f.yaml")) }, limit))
		cls = worst(cls, watchCall(func() { _, _ = sch.ReadAndValidate(bytes.NewReader(data)) }, limit))
		add("schema package-level Validate*", data, cls, true, wellFormed)
		// an explicitly refreshed cache in this process over the two files just written: Refresh, every query, the errors of
		// every Spec, injection of everything that loaded
		// (twice: with both files, which define the same devices and so carry conflict errors, and with the JSON file alone)
		for round := 0; round < 2; round++ {
			exts := []string{".json", ".yaml"}
			if round == 1 {
				_ = os.Remove(filepath.Join(fileDir, "f.yaml"))
				exts = exts[:1]
			}
			reported := true
			ociA, ociB := &oci.Spec{}, randOCI(r, hosts, false)
			cls = watchCall(func() {
				_ = manual.Refresh()
				errs := manual.GetErrors()
				loaded := map[string]bool{}
				for _, v := range manual.ListVendors() {
					for _, sp := range manual.GetVendorSpecs(v) {
						loaded[sp.GetPath()] = true
						_ = manual.GetSpecErrors(sp)
						for n := range sp.Devices {
							_ = sp.GetDevice(sp.Devices[n].Name)
						}
					}
				}
				_ = manual.ListClasses()
				devs := manual.ListDevices()
				for _, n := range devs {
					if d := manual.GetDevice(n); d != nil {
						_ = d.GetQualifiedName()
						_ = d.ApplyEdits(&oci.Spec{})
						_ = d.GetSpec().ApplyEdits(&oci.Spec{})
					}
				}
				_, _ = manual.InjectDevices(ociA, devs...)
				_, _ = manual.InjectDevices(ociB, append(devs, "a/b=c", "")...)
				for _, ext := range exts {
					path := filepath.Join(fileDir, "f"+ext)
					if _, ok := errs[path]; !ok && !loaded[path] {
						reported = false
					}
				}
			}, limit)
			add([]string{"Cache.Refresh(manual, two files)+queries+InjectDevices", "Cache.Refresh(manual, one file)+queries+InjectDevices"}[round], data, cls, cls != 0 || reported, wellFormed)
		}
		return nil
	}
}

// ---------- the suite ----------

func genC08(r *hx.R, tier, scratch string) (*hx.Suite, error) {
	s := &hx.Suite{Property: "C08", Imports: []string{"Base", "Parser", "Annotations", "Judge08"}, CaseType: "case08", Judge: "judge08", Shard: 400,
		Rule: "device-name strings (mutated valid names, separators in every position, random bytes, long strings) through every pkg/parser entry point; annotation maps and keys through ParseAnnotations / AnnotationKey; byte-level stream: mutations (bit flips, truncation, duplication, nulls, deep nesting, huge scalars, YAML anchors/aliases/merge keys/tags, type swaps, numeric extremes, random bytes) of valid JSON and YAML Spec files through cdi.ParseSpec, cdi.ReadSpec (.json and .yaml), a LIVE auto-refresh cache in a child process (must survive and report an error entry or load the file), schema.ValidateData / ValidateReader / ValidateFile; device lists through AnnotationValue / UpdateAnnotations; whatever ParseSpec made of a document through Schema.Validate (builtin, no-op, nil schema) and the version requirement; the no-op schema, a nil *Schema, a loaded schema accepting everything (so that the content checks behind the schema see every parseable document) and the package-level schema functions on every document; an explicitly refreshed cache in this process (Refresh, every query, GetSpecErrors, ApplyEdits and InjectDevices of whatever loaded); OCI specs no engine would write (repeated device paths / destinations / rules, empty paths, present-but-empty sections) x valid edits through the three Apply entry points, applied twice; Cache.InjectDevices from a cache of loaded Specs with unknown and malformed names; mutation kinds: wrong-typed list entries, wrong-typed annotations / names / containerEdits / hooks, odd annotation keys and a 300 kB annotation; every call under a panic guard and a 5 s watchdog; non-trivial = the input is not a well-formed Spec / name"}
	limit := 5 * time.Second
	nNames, nAnn, nBytes := 400, 150, 260
	if tier == "thorough" {
		nNames, nAnn, nBytes = 4000, 1500, 4000
	}
	// --- names
	alphabet := []string{"a", "Z", "0", "_", "-", ".", ":", "/", "=", " ", "\xc3", "\x00", ",", "vendor.com", "gpu", "dev"}
	hostileName := func() string {
		var b strings.Builder
		switch r.Intn(4) {
		case 0:
			b.WriteString(hx.Pick(r, poolVendors) + "/" + hx.Pick(r, poolClasses) + "=" + hx.Pick(r, poolDevNames))
		case 1:
			for j, n := 0, r.Intn(7); j < n; j++ {
				b.WriteString(hx.Pick(r, alphabet))
			}
		case 2:
			for j, n := 0, r.Intn(5); j < n; j++ {
				b.WriteByte(byte(r.Intn(256)))
			}
		default:
			b.WriteString(strings.Repeat(hx.Pick(r, alphabet), r.Intn(300)) + "/" + hx.Pick(r, alphabet) + "=" + hx.Pick(r, alphabet))
		}
		name := b.String()
		if r.Chance(0.5) && len(name) > 0 {
			name = string(mutateBytes(r, []byte(name)))
			if len(name) > 400 {
				name = name[:400]
			}
		}
		return name
	}
	for i := 0; i < nNames; i++ {
		name := hostileName()
		cls := 0
		cls = worst(cls, watchCall(func() { _, _, _, _ = parser.ParseQualifiedName(name) }, limit))
		cls = worst(cls, watchCall(func() { _ = parser.IsQualifiedName(name) }, limit))
		cls = worst(cls, watchCall(func() { _, _, _ = parser.ParseDevice(name) }, limit))
		cls = worst(cls, watchCall(func() { _, _ = parser.ParseQualifier(name) }, limit))
		cls = worst(cls, watchCall(func() { _ = parser.ValidateVendorName(name) }, limit))
		cls = worst(cls, watchCall(func() { _ = parser.ValidateClassName(name) }, limit))
		cls = worst(cls, watchCall(func() { _ = parser.ValidateDeviceName(name) }, limit))
		s.Add(hx.Case{Term: hx.C("NName", hx.S(name), hx.Nat(cls)), Desc: map[string]interface{}{"entry": "pkg/parser", "name": hx.JS(name), "class": cls},
			Class: "name", Nontrivial: cls != 0 || !safeIsQualified(name)})
	}
	// --- annotations
	for i := 0; i < nAnn; i++ {
		m := map[string]string{}
		for j, n := 0, r.Intn(4); j < n; j++ {
			k := hx.Pick(r, []string{"cdi.k8s.io/", "cdi.k8s.io/x_", "foreign/", ""}) + hx.Pick(r, alphabet) + hx.Pick(r, alphabet)
			var vs []string
			for l, q := 0, r.Intn(3); l < q; l++ {
				switch r.Intn(3) {
				case 0:
					vs = append(vs, hx.Pick(r, poolVendors)+"/"+hx.Pick(r, poolClasses)+"="+hx.Pick(r, poolDevNames))
				case 1:
					vs = append(vs, hx.Pick(r, alphabet)+"/"+hx.Pick(r, alphabet)+"="+hx.Pick(r, alphabet))
				default:
					vs = append(vs, hx.Pick(r, alphabet))
				}
			}
			m[k] = strings.Join(vs, ",")
		}
		cls := watchCall(func() { _, _, _ = cdi.ParseAnnotations(m) }, limit)
		keys := make([]string, 0, len(m))
		for k := range m {
			keys = append(keys, k)
		}
		sort.Strings(keys)
		items := make([]string, len(keys))
		for j, k := range keys {
			items[j] = hx.P(hx.S(k), hx.S(m[k]))
		}
		s.Add(hx.Case{Term: hx.C("NAnnot", hx.L(items), hx.Nat(cls)), Desc: map[string]interface{}{"entry": "ParseAnnotations", "map": m, "class": cls}, Class: "annotations", Nontrivial: len(m) > 0})
		p, d := hx.Pick(r, alphabet)+hx.Pick(r, alphabet), strings.Repeat(hx.Pick(r, alphabet), r.Intn(70))
		cls2 := watchCall(func() { _, _ = cdi.AnnotationKey(p, d) }, limit)
		s.Add(hx.Case{Term: hx.C("NKey", hx.S(p), hx.S(d), hx.Nat(cls2)), Desc: map[string]interface{}{"entry": "AnnotationKey", "plugin": hx.JS(p), "id": hx.JS(d), "class": cls2}, Class: "annotation-key", Nontrivial: true})
		// AnnotationValue / UpdateAnnotations with device lists nobody validated
		var ds []string
		for l, q := 0, r.Intn(4); l < q; l++ {
			ds = append(ds, hostileName())
		}
		cls3 := watchCall(func() { _, _ = cdi.AnnotationValue(ds) }, limit)
		s.Add(hx.Case{Term: hx.C("NVal", hx.LS(ds), hx.Nat(cls3)), Desc: map[string]interface{}{"entry": "AnnotationValue", "devices": descList(ds), "class": cls3}, Class: "annotation-value", Nontrivial: len(ds) > 0})
		um := copyMap(m)
		if r.Chance(0.2) {
			um = nil
			items = nil
		}
		if r.Chance(0.3) {
			p, d = hx.Pick(r, []string{"vendor.com-gpu", "a", "p.q"}), hx.Pick(r, []string{"0", "gpu/0", "x_y"})
		}
		cls4 := watchCall(func() { _, _ = cdi.UpdateAnnotations(um, p, d, ds) }, limit)
		s.Add(hx.Case{Term: hx.C("NUpd", hx.L(items), hx.S(p), hx.S(d), hx.LS(ds), hx.Nat(cls4)),
			Desc: map[string]interface{}{"entry": "UpdateAnnotations", "map": m, "plugin": hx.JS(p), "id": hx.JS(d), "devices": descList(ds), "class": cls4}, Class: "annotation-update", Nontrivial: true})
	}
	// --- byte stream
	devDir := filepath.Join(scratch, "hostdev")
	hosts, _ := makeHostNodes(r, devDir)
	corpus := corpusSpecs(r, hosts, devDir)
	watched := filepath.Join(scratch, "watched", "cdi")
	child, err := startCacheChild(watched)
	if err != nil {
		return nil, err
	}
	defer func() { child.stop() }()
	fileDir := filepath.Join(scratch, "files")
	_ = os.MkdirAll(fileDir, 0o755)
	sch := schema.BuiltinSchema()
	childDeaths := 0
	add := func(entry string, data []byte, cls int, reported bool, wellFormed bool) {
		sample := data
		if len(sample) > 160 {
			sample = sample[:160]
		}
		s.Add(hx.Case{Term: hx.C("NBytes", hx.S(entry), hx.Nat(len(data)), hx.Nat(cls), hx.B(reported)),
			Desc:  map[string]interface{}{"entry": entry, "length": len(data), "head": hx.JS(string(sample)), "class": cls, "reported": reported},
			Class: "bytes:" + entry, Key: entry + "|" + string(data), Nontrivial: !wellFormed})
	}
	tiny := []string{"", " ", "\n", "\t\n", "\r\n", "  \n  ", "---", "---\n", "...", "#c", "# c\n", "{", "}", "{}", "[", "[]", "null", "~", "\"\"", "0", "-", ":", "?", "|", ">", "\x00", "\xef\xbb\xbf", "\xef\xbb\xbf\n", "{\n", " {}", "\n{}\n", "- ", "a: b", "%"}
	var runDoc func(data []byte, wellFormed, live bool) error
	for i := 0; i < nBytes+len(tiny); i++ {
		var data []byte
		wellFormed := true
		if i < len(tiny) {
			data = []byte(tiny[i])
			wellFormed = false
		} else {
			data = hx.Pick(r, corpus)
			for k, n := 0, r.Intn(3); k < n; k++ {
				data = mutateBytes(r, data)
				wellFormed = false
			}
		}
		if runDoc == nil {
			runDoc = c08RunDoc(s, r, &child, watched, fileDir, hosts, &childDeaths, add)
		}
		if err := runDoc(data, wellFormed, true); err != nil {
			return nil, err
		}
	}
	// a null entry (and an entry of another type) at every position of every list of pointers (hooks, deviceNodes, mounts)
	// and of devices / env / options / gids, in every corpus document: through everything that runs in this process
	for _, doc := range structuralDocs(r, corpus, tier) {
		if err := runDoc(doc, false, false); err != nil {
			return nil, err
		}
	}
	// --- a live cache with an external Spec validator (the builtin schema) that is replaced after every file:
	// documents the library loads but the validator rejects, and the mutation stream again
	vdir := filepath.Join(scratch, "watched-v", "cdi")
	vchild, err := startCacheChild(vdir, "validator")
	if err != nil {
		return nil, err
	}
	defer func() { vchild.stop() }()
	for i := 0; i < nBytes/4+8; i++ {
		var data []byte
		wellFormed := true
		if i%2 == 0 {
			sp := &specs.Spec{Version: "0.7.0", Kind: hx.Pick(r, poolVendors) + "/" + hx.Pick(r, poolClasses)}
			to := -1 - r.Intn(5)
			d := specs.Device{Name: "dev0", ContainerEdits: specs.ContainerEdits{Env: []string{"A=b"}, Hooks: []*specs.Hook{{HookName: "prestart", Path: "/bin/h", Timeout: &to}}}}
			sp.Devices = []specs.Device{d}
			data, _ = json.Marshal(sp)
		} else {
			data = hx.Pick(r, corpus)
			for k, n := 0, r.Intn(3); k < n; k++ {
				data = mutateBytes(r, data)
				wellFormed = false
			}
		}
		ext := hx.Pick(r, []string{".json", ".yaml"})
		c2, reported := vchild.probe("v"+ext, data)
		add("live-cache+validator"+ext, data, c2, reported, wellFormed && i%2 != 0)
		if c2 != 0 {
			childDeaths++
			vchild.stop()
			if vchild, err = startCacheChild(vdir, "validator"); err != nil {
				return nil, err
			}
		}
	}
	// --- OCI specs x valid (loadable) edits through ContainerEdits.Apply
	for i := 0; i < nBytes; i++ {
		init := randOCI(r, hosts, false)
		if r.Chance(0.4) {
			oddOCI(r, init)
		}
		e := randEdits(r, hosts, devDir, false)
		ce := &cdi.ContainerEdits{ContainerEdits: e}
		valid := false
		cls := watchCall(func() { valid = ce.Validate() == nil }, limit)
		which := i % 3
		entry := []string{"ContainerEdits.Apply", "Device.ApplyEdits", "Spec.ApplyEdits"}[which]
		if cls == 0 && valid {
			apply := func() {
				switch which {
				case 0:
					_ = ce.Apply(init)
				case 1:
					_ = (&cdi.Device{Device: &specs.Device{Name: "d", ContainerEdits: *e}}).ApplyEdits(init)
				default:
					_ = (&cdi.Spec{Spec: &specs.Spec{ContainerEdits: *e}}).ApplyEdits(init)
				}
			}
			cls = watchCall(apply, limit)
			// ... and once more into the spec as it is now
			cls = worst(cls, watchCall(apply, limit))
		}
		j, _ := json.Marshal(e)
		add(entry, j, cls, true, false)
	}
	// --- injection from a cache of loaded Specs into OCI specs of every shape, requests with unknown and malformed names
	{
		injDir := filepath.Join(scratch, "inject")
		_ = os.MkdirAll(injDir, 0o755)
		for i := 0; i < len(corpus); i += 2 {
			_ = os.WriteFile(filepath.Join(injDir, fmt.Sprintf("c%d.json", i)), corpus[i], 0o644)
		}
		ic, _ := cdi.NewCache(cdi.WithSpecDirs(injDir), cdi.WithAutoRefresh(false))
		var known []string
		_ = watchCall(func() { known = ic.ListDevices() }, limit)
		for i := 0; i < nBytes/2; i++ {
			init := randOCI(r, hosts, false)
			if r.Chance(0.4) {
				oddOCI(r, init)
			}
			var req []string
			for k, n := 0, r.Intn(5); k < n; k++ {
				if len(known) > 0 && r.Chance(0.7) {
					req = append(req, hx.Pick(r, known))
				} else {
					req = append(req, hostileName())
				}
			}
			cls := watchCall(func() { _, _ = ic.InjectDevices(init, req...) }, limit)
			cls = worst(cls, watchCall(func() { _, _ = ic.InjectDevices(init, req...) }, limit))
			j, _ := json.Marshal(descList(req))
			add("Cache.InjectDevices", j, cls, true, false)
		}
	}
	// --- typed entry points handed nil / zero values
	{
		wc, _ := cdi.NewCache(cdi.WithSpecDirs(filepath.Join(scratch, "typed")), cdi.WithAutoRefresh(false))
		var werr error
		cls := watchCall(func() { werr = wc.WriteSpec(nil, "nil.json") }, limit)
		add("Cache.WriteSpec(nil)", nil, cls, cls != 0 || werr != nil, false)
		cls = watchCall(func() { werr = wc.WriteSpec(&specs.Spec{}, "zero.json") }, limit)
		add("Cache.WriteSpec(zero Spec)", []byte("{}"), cls, cls != 0 || werr != nil, false)
		cls = watchCall(func() { _ = sch.Validate(nil) }, limit)
		add("schema.Validate(nil)", nil, cls, true, false)
		cls = watchCall(func() { _, _ = wc.InjectDevices(nil, "a/b=c") }, limit)
		add("Cache.InjectDevices(nil OCI)", nil, cls, true, false)
		var aerr error
		cls = watchCall(func() { aerr = (&cdi.ContainerEdits{ContainerEdits: &specs.ContainerEdits{Env: []string{"A=b"}}}).Apply(nil) }, limit)
		add("ContainerEdits.Apply(nil OCI)", nil, cls, cls != 0 || aerr != nil, false)
		cls = watchCall(func() { aerr = (&cdi.ContainerEdits{}).Apply(&oci.Spec{}) }, limit)
		add("ContainerEdits{nil}.Apply", nil, cls, true, false)
		cls = watchCall(func() { _ = (*cdi.ContainerEdits)(nil).Apply(&oci.Spec{}) }, limit)
		add("(*ContainerEdits)(nil).Apply", nil, cls, true, false)
		cls = watchCall(func() { _ = (&cdi.ContainerEdits{}).Validate() }, limit)
		add("ContainerEdits{nil}.Validate", nil, cls, true, false)
		cls = watchCall(func() { _ = (&cdi.ContainerEdits{}).Append(nil) }, limit)
		add("ContainerEdits.Append(nil)", nil, cls, true, false)
		cls = watchCall(func() { _, _ = cdi.ReadSpec("/nonexistent/dir/x.json", 0) }, limit)
		add("ReadSpec(missing file)", nil, cls, true, false)
		cls = watchCall(func() { _, _, _ = cdi.ParseAnnotations(nil) }, limit)
		add("ParseAnnotations(nil map)", nil, cls, true, false)
		cls = watchCall(func() { _, _ = cdi.UpdateAnnotations(nil, "p", "d", nil) }, limit)
		add("UpdateAnnotations(nil map, nil devices)", nil, cls, true, false)
	}
	s.Extra = map[string]interface{}{"x_live_cache_child_deaths": childDeaths}
	return s, nil
}
