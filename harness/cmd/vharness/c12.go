package main

// C12 — concurrent use of a cache: schedule exploration under the Go race detector, deadlock watchdog and the
// snapshot-consistency scenario.  Every scenario runs in a CHILD process (`vharness c12child ...`), so that a
// race report (GORACE halt_on_error=1 exitcode=66), a hang (watchdog, exit 67) or a crash is observed by the
// parent as the outcome of the case; the seed in the case description replays it.  Public API only.

import (
	"github.com/fsnotify/fsnotify"
	"bytes"
	"encoding/json"
	"flag"
	"fmt"
	"math/rand"
	"os"
	"os/exec"
	"path/filepath"
	"reflect"
	"runtime"
	"sort"
	"strings"
	"sync"
	"sync/atomic"
	"time"

	oci "github.com/opencontainers/runtime-spec/specs-go"
	"tags.cncf.io/container-device-interface/pkg/cdi"
	specs "tags.cncf.io/container-device-interface/specs-go"

	"verif/harness/hx"
)

func init() {
	registry["C12"] = genC12
	children["c12child"] = c12Child
}

const (
	c12ExitRace  = 66
	c12ExitStall = 67
	c12ExitCrash = 69
)

// ------------------------------------------------------------------------------------------------
// parent

type c12Scenario struct {
	Name    string `json:"name"`
	Mode    string `json:"mode"`    // soak | snap
	Profile string `json:"profile"` // soak: mixed | reconf | dirs ; snap: manual | auto
	Seed    int64  `json:"seed"`
	DurMs   int    `json:"dur_ms"`
	Workers int    `json:"workers"`
}

type c12Obs struct {
	Kind  string   `json:"kind"`
	Obs   []string `json:"obs"`
	Count int      `json:"count"`
}

type c12Result struct {
	Ops      map[string]int         `json:"ops"`
	Expect   map[string][2][]string `json:"expect,omitempty"` // kind -> admissible results for state A and B
	Observed []c12Obs               `json:"observed,omitempty"`
	Flips    int                    `json:"flips,omitempty"`
	Note     string                 `json:"note,omitempty"`
}

func c12Scenarios(r *hx.R, tier string) []c12Scenario {
	var out []c12Scenario
	add := func(mode, profile string, durMs, workers int) {
		seed := r.Int63n(1 << 40)
		out = append(out, c12Scenario{Name: fmt.Sprintf("%s-%s-%d", mode, profile, seed), Mode: mode, Profile: profile, Seed: seed, DurMs: durMs, Workers: workers})
	}
	if tier == "thorough" {
		for i := 0; i < 30; i++ {
			add("first", "default-cache", 300, 4+r.Intn(13))
		}
		for i := 0; i < 12; i++ {
			add("errq", "watcher-report-behind-configure", 300, 1)
		}
		for i := 0; i < 4; i++ {
			add("soak", "mixed", 15000, 6+r.Intn(4))
			add("soak", "reconf", 15000, 5+r.Intn(4))
			add("soak", "dirs", 15000, 5+r.Intn(4))
		}
		for i := 0; i < 2; i++ {
			add("snap", "manual", 20000, 4)
			add("snap", "auto", 20000, 4)
		}
	} else {
		for i := 0; i < 5; i++ {
			add("first", "default-cache", 300, 8+r.Intn(9))
		}
		for i := 0; i < 3; i++ {
			add("errq", "watcher-report-behind-configure", 300, 1)
		}
		add("soak", "mixed", 4000, 6+r.Intn(3))
		add("soak", "reconf", 4000, 5+r.Intn(3))
		add("soak", "dirs", 4000, 5+r.Intn(3))
		add("snap", "manual", 3000, 4)
		add("snap", "auto", 3000, 4)
	}
	return out
}

func genC12(r *hx.R, tier string, scratch string) (*hx.Suite, error) {
	s := &hx.Suite{
		Property: "C12",
		Imports:  []string{"Base", "Judge12"},
		CaseType: "case12",
		Judge:    "judge12",
		Shard:    400,
		Rule: "one case per child process: N goroutines issue the public cache operations (ListDevices, GetDevice, InjectDevices, Refresh, " +
			"Configure(WithSpecDirs/WithAutoRefresh), WriteSpec, RemoveSpec, GetErrors, GetSpecErrors, GetSpecDirErrors, GetSpecDirectories, GetVendorSpecs, " +
			"ListVendors, ListClasses, SetSpecValidator, the package-level default-cache functions, NewCache of further short-lived caches) on one cache under randomised yields while files change " +
			"underneath and the watcher refreshes; children whose 4-16 goroutines, released together, make the first use of the package-level default cache; " +
			"all built with -race (a report ends the child with exit 66, a 20 s stall of all operations with exit 67); " +
			"plus the snapshot scenario: one Spec file flips by rename(2) between contents A and B while readers compare every ListDevices / InjectDevices / " +
			"GetVendorSpecs / GetDevice result with the two admissible results (one case per distinct observed result; in automatic mode every third switch is made by " +
			"Cache.WriteSpec); after every soak, with the workers stopped: all candidate directories made to exist and given one more Spec, the cache as the workers left it " +
			"polled (Refresh + queries) until it answers like a fresh cache on its directory list (devices with defining files, files in error), then configured onto all " +
			"directories in automatic mode and required to follow a Spec dropped into each directory in turn; plus the list of exported *Cache methods " +
			"(reflection) which must all be entry points of the regenerated lock model.",
		Extra: map[string]interface{}{"x_race_detector": c12RaceEnabled},
	}
	// (a) coverage of the translator
	var methods []string
	ct := reflect.TypeOf(&cdi.Cache{})
	for i := 0; i < ct.NumMethod(); i++ {
		m := ct.Method(i).Name
		if m == "Lock" || m == "Unlock" || m == "TryLock" {
			continue // promoted from the embedded sync.Mutex
		}
		methods = append(methods, m)
	}
	s.Add(hx.Case{Term: hx.C("C12api", hx.LS(methods)), Desc: map[string]interface{}{"exported_methods_of_Cache": methods}, Class: "api-coverage", Nontrivial: true, Key: "api"})

	self, err := os.Executable()
	if err != nil {
		return nil, err
	}
	totalOps := map[string]int{}
	var childLog []map[string]interface{}
	for i, sc := range c12Scenarios(r, tier) {
		dir := filepath.Join(scratch, fmt.Sprintf("c12-%d", i))
		if err := os.MkdirAll(dir, 0o755); err != nil {
			return nil, err
		}
		outFile := filepath.Join(dir, "result.json")
		args := []string{"c12child", "-mode", sc.Mode, "-profile", sc.Profile, "-seed", fmt.Sprint(sc.Seed), "-dur", fmt.Sprint(sc.DurMs),
			"-workers", fmt.Sprint(sc.Workers), "-dir", dir, "-out", outFile}
		cmd := exec.Command(self, args...)
		cmd.Env = append(os.Environ(), "GORACE=halt_on_error=1 exitcode=66", "GOMAXPROCS=4")
		var stderr bytes.Buffer
		cmd.Stderr = &stderr
		cmd.Stdout = &stderr
		t0 := time.Now()
		if err := cmd.Start(); err != nil {
			return nil, err
		}
		done := make(chan error, 1)
		go func() { done <- cmd.Wait() }()
		killed := false
		var werr error
		select {
		case werr = <-done:
		case <-time.After(time.Duration(sc.DurMs)*time.Millisecond + 90*time.Second):
			killed = true
			_ = cmd.Process.Kill()
			werr = <-done
		}
		code := 0
		if werr != nil {
			code = -1
			if ee, ok := werr.(*exec.ExitError); ok {
				code = ee.ExitCode()
			}
		}
		text := stderr.String()
		race := code == c12ExitRace || strings.Contains(text, "WARNING: DATA RACE")
		stalled := killed || code == c12ExitStall
		crashed := !race && !stalled && code != 0
		completed := code == 0
		var res c12Result
		if data, err := os.ReadFile(outFile); err == nil {
			_ = json.Unmarshal(data, &res)
		}
		for k, v := range res.Ops {
			totalOps[k] += v
		}
		desc := map[string]interface{}{"scenario": sc, "exit_code": code, "wall_s": time.Since(t0).Seconds(), "ops": res.Ops,
			"replay": "GORACE='halt_on_error=1 exitcode=66' " + filepath.Base(self) + " " + strings.Join(args[:len(args)-4], " ") + " -dir <empty dir> -out <file>"}
		if !completed {
			desc["output"] = c12Excerpt(text, 120)
		}
		if res.Flips > 0 {
			desc["flips"] = res.Flips
		}
		childLog = append(childLog, map[string]interface{}{"scenario": sc.Name, "exit": code, "ops": c12Sum(res.Ops)})
		s.Add(hx.Case{
			Term:       hx.C("C12run", hx.S(sc.Name), hx.B(completed), hx.B(race), hx.B(stalled), hx.B(crashed)),
			Desc:       desc,
			Class:      sc.Mode + ":" + sc.Profile,
			Nontrivial: c12Sum(res.Ops) > 0,
			Key:        sc.Name,
		})
		// snapshot observations: one case per query kind with every distinct result observed (fixed shape, so case indices are stable)
		kinds := c12SnapKinds
		if sc.Mode == "soak" {
			kinds = []string{c12FinalKind, c12FollowKind}
		}
		if sc.Mode == "snap" || sc.Mode == "soak" {
			for _, kind := range kinds {
				exp := res.Expect[kind]
				var terms []string
				var shown []map[string]interface{}
				nA, nB, nBad := 0, 0, 0
				for _, o := range res.Observed {
					if o.Kind != kind {
						continue
					}
					terms = append(terms, hx.LS(o.Obs))
					switch {
					case c12Eq(o.Obs, exp[0]):
						nA += o.Count
					case c12Eq(o.Obs, exp[1]):
						nB += o.Count
					default:
						nBad += o.Count
						if len(shown) < 5 {
							shown = append(shown, map[string]interface{}{"observed": o.Obs, "times": o.Count})
						}
					}
				}
				s.Add(hx.Case{
					Term: hx.C("C12snap", hx.S(kind), hx.LS(exp[0]), hx.LS(exp[1]), hx.L(terms)),
					Desc: map[string]interface{}{"scenario": sc, "query": kind, "results_equal_to_A": nA, "results_equal_to_B": nB,
						"results_equal_to_neither": nBad, "inadmissible_results": shown, "admissible_A": exp[0], "admissible_B": exp[1]},
					Class:      "snapshot:" + sc.Profile + ":" + kind,
					Nontrivial: nA+nB+nBad > 0,
					Key:        sc.Name + "|" + kind,
				})
			}
		}
		_ = os.RemoveAll(dir)
	}
	s.Extra["x_operations_executed"] = totalOps
	s.Extra["x_children"] = childLog
	return s, nil
}

// c12Follow: see c12FollowKind.  One directory after the other: a file is dropped, the cache is polled (queries only) until it
// answers like a fresh cache, 3 s each; the last answers are reported.
func c12Follow(st *c12State, stage string, tmpN *atomic.Int64) (fresh, got []string) {
	cache := st.cache
	st.guarded("Configure(both)", func() { _ = cache.Configure(cdi.WithAutoRefresh(true), cdi.WithSpecDirs(st.dirs...)) })
	for i, d := range st.dirs {
		_ = c12Put(stage, filepath.Join(d, fmt.Sprintf("follow%d.json", i)), c12Spec("follow.org", "class", "follow", []string{fmt.Sprintf("g%d", i)}, ""), tmpN)
		fc, _ := cdi.NewCache(cdi.WithSpecDirs(st.dirs...), cdi.WithAutoRefresh(true))
		fresh = c12Answer(fc)
		_ = fc.Configure(cdi.WithAutoRefresh(false))
		for start := time.Now(); ; time.Sleep(2 * time.Millisecond) {
			st.guarded("ListDevices", func() { got = c12Answer(cache) })
			if c12Eq(got, fresh) {
				break
			}
			if time.Since(start) > 3*time.Second {
				return
			}
		}
	}
	return
}

var c12SnapKinds = []string{"ListDevices", "InjectDevices(common)", "InjectDevices(common+onlyA)", "GetVendorSpecs", "ListVendors", "GetDevice(dev00)", "GetDevice(onlyA)"}

// after a soak: what the cache answers once everything has stopped, against a cache freshly built on the same directories
// (both admissible results of the observation case are the fresh cache's answer)
const c12FinalKind = "final-state"

// and then: the same cache configured (by the harness, alone) onto all candidate directories in automatic mode must follow one
// more Spec file dropped into each directory in turn, without any Refresh
const c12FollowKind = "final-state/reconfigured-and-followed"

// DEFECT-PENDING(straggler-direrrors): the directory errors are part of the final-state comparison only when this is on
// (notes/audit/DEFECT-C20-straggler-direrrors.md; VERIF_PENDING=straggler-direrrors switches it on for one run)
const c12PendingStraggler = true // repaired: D23

func c12Pending() bool {
	return c12PendingStraggler || strings.Contains(","+os.Getenv("VERIF_PENDING")+",", ",straggler-direrrors,")
}

// c12Answer: devices with their defining files, files in error (and directories in error, see above), sorted.
func c12Answer(c *cdi.Cache) []string {
	var out []string
	for _, n := range c.ListDevices() {
		p := "?"
		if d := c.GetDevice(n); d != nil {
			p = d.GetSpec().GetPath()
		}
		out = append(out, n+"@"+p)
	}
	de := c.GetSpecDirErrors()
	for k := range c.GetErrors() {
		if _, isDir := de[k]; !isDir {
			out = append(out, "error:"+k)
		}
	}
	if c12Pending() {
		for k := range de {
			out = append(out, "directory-error:"+k)
		}
	}
	sort.Strings(out)
	return out
}

// c12FinalState: the workers have stopped.  Every candidate directory is made to exist and gets one more Spec file (atomically);
// then the cache — whatever configuration the workers left it in — must come to answer like a fresh cache on the same directory
// list: by itself in automatic mode (Refresh() is a query there), through Refresh() in manual mode.  Polled, 5 s.
func c12FinalState(st *c12State, stage string, tmpN *atomic.Int64) (fresh, got []string) {
	cache := st.cache
	time.Sleep(50 * time.Millisecond) // watch goroutines finish what they were waiting to do
	for i, d := range st.dirs {
		_ = os.MkdirAll(d, 0o755)
		_ = c12Put(stage, filepath.Join(d, fmt.Sprintf("final%d.json", i)), c12Spec("final.org", "class", "final", []string{fmt.Sprintf("f%d", i)}, ""), tmpN)
	}
	dirs := cache.GetSpecDirectories()
	fc, _ := cdi.NewCache(cdi.WithSpecDirs(dirs...), cdi.WithAutoRefresh(true))
	fresh = c12Answer(fc)
	_ = fc.Configure(cdi.WithAutoRefresh(false))
	for start := time.Now(); ; time.Sleep(5 * time.Millisecond) {
		st.guarded("Refresh", func() { _ = cache.Refresh() })
		st.guarded("ListDevices", func() { got = c12Answer(cache) })
		if c12Eq(got, fresh) || time.Since(start) > 5*time.Second {
			return
		}
	}
}

func c12Eq(a, b []string) bool {
	if len(a) != len(b) {
		return false
	}
	for i := range a {
		if a[i] != b[i] {
			return false
		}
	}
	return true
}

func c12Sum(m map[string]int) int {
	n := 0
	for _, v := range m {
		n += v
	}
	return n
}

func c12Excerpt(text string, lines int) string {
	ls := strings.Split(text, "\n")
	if len(ls) > lines {
		ls = ls[:lines]
	}
	out := strings.Join(ls, "\n")
	if len(out) > 12000 {
		out = out[:12000]
	}
	return out
}

// ------------------------------------------------------------------------------------------------
// child

type c12State struct {
	root     string
	dirs     []string // candidate Spec directories (some may not exist at times)
	cache    *cdi.Cache
	progress atomic.Int64
	stop     atomic.Bool
	opsMu    sync.Mutex
	ops      map[string]int
	sink     atomic.Int64 // results are folded in here so that they are really read
}

func (st *c12State) count(op string) {
	st.progress.Add(1)
	st.opsMu.Lock()
	st.ops[op]++
	st.opsMu.Unlock()
}

func c12Spec(vendor, class, tag string, devs []string, only string) *specs.Spec {
	s := &specs.Spec{Version: "0.6.0", Kind: vendor + "/" + class, ContainerEdits: specs.ContainerEdits{Env: []string{"SPEC=" + tag}}}
	for i, d := range devs {
		s.Devices = append(s.Devices, specs.Device{Name: d, ContainerEdits: specs.ContainerEdits{Env: []string{fmt.Sprintf("DEV%d=%s", i, tag)}}})
	}
	if only != "" {
		s.Devices = append(s.Devices, specs.Device{Name: only, ContainerEdits: specs.ContainerEdits{Env: []string{"ONLY=" + tag}}})
	}
	return s
}

// c12Put publishes a Spec file atomically without going through the library: temp file outside the Spec directories, rename(2).
func c12Put(stage, path string, s *specs.Spec, n *atomic.Int64) error {
	data, err := json.Marshal(s)
	if err != nil {
		return err
	}
	tmp := filepath.Join(stage, fmt.Sprintf("t%d", n.Add(1)))
	if err := os.WriteFile(tmp, data, 0o644); err != nil {
		return err
	}
	return os.Rename(tmp, path)
}

type c12Validator struct{}

func (c12Validator) Validate(*specs.Spec) error { return nil }

func c12Child(args []string) int {
	fs := flag.NewFlagSet("c12child", flag.ExitOnError)
	mode := fs.String("mode", "soak", "soak|snap")
	profile := fs.String("profile", "mixed", "")
	seed := fs.Int64("seed", 1, "")
	dur := fs.Int("dur", 2000, "milliseconds")
	workers := fs.Int("workers", 6, "")
	dir := fs.String("dir", "", "")
	out := fs.String("out", "", "")
	stall := fs.Int("stall", 20, "seconds without any completed operation before the run is declared hung")
	_ = fs.Parse(args)
	if *dir == "" || *out == "" {
		fmt.Fprintln(os.Stderr, "c12child: -dir and -out required")
		return 2
	}
	st := &c12State{root: *dir, ops: map[string]int{}}
	// watchdog: if no operation completes for `stall` seconds every goroutine is stuck behind the cache mutex
	finished := make(chan struct{})
	go func() {
		last, lastT := int64(-1), time.Now()
		for {
			select {
			case <-finished:
				return
			case <-time.After(250 * time.Millisecond):
			}
			if p := st.progress.Load(); p != last {
				last, lastT = p, time.Now()
			} else if time.Since(lastT) > time.Duration(*stall)*time.Second {
				buf := make([]byte, 1<<20)
				n := runtime.Stack(buf, true)
				if n > 24000 {
					n = 24000
				}
				fmt.Fprintf(os.Stderr, "C12 WATCHDOG: no cache operation completed for %d s (deadlock). Goroutines:\n%s\n", *stall, buf[:n])
				st.opsMu.Lock()
				data, _ := json.Marshal(c12Result{Ops: st.ops, Note: "hung"})
				st.opsMu.Unlock()
				_ = os.WriteFile(*out, data, 0o644)
				os.Exit(c12ExitStall)
			}
		}
	}()
	var res c12Result
	var code int
	crashed, msg := hx.Guard(func() {
		switch *mode {
		case "snap":
			res, code = c12Snap(st, *profile, *seed, time.Duration(*dur)*time.Millisecond, *workers, *stall)
		case "first":
			res, code = c12First(st, *seed, *workers, *stall)
		case "errq":
			res, code = c12ErrQueued(st, *seed, *stall)
		default:
			res, code = c12Soak(st, *profile, *seed, time.Duration(*dur)*time.Millisecond, *workers, *stall)
		}
	})
	close(finished)
	if crashed {
		fmt.Fprintln(os.Stderr, "C12 CRASH: "+msg)
		code = c12ExitCrash
	}
	res.Ops = st.ops
	data, _ := json.Marshal(res)
	_ = os.WriteFile(*out, data, 0o644)
	return code
}

// c12Wait waits for the workers; a worker that does not come back is a hang.
func c12Wait(wg *sync.WaitGroup, stall int) bool {
	done := make(chan struct{})
	go func() { wg.Wait(); close(done) }()
	select {
	case <-done:
		return true
	case <-time.After(time.Duration(stall+5) * time.Second):
		return false
	}
}

func c12Yield(r *rand.Rand) {
	switch r.Intn(6) {
	case 0:
		runtime.Gosched()
	case 1:
		time.Sleep(time.Duration(r.Intn(300)) * time.Microsecond)
	case 2:
		for i := 0; i < r.Intn(2000); i++ {
			_ = i
		}
	}
}

// guarded runs one operation; a panic inside the library ends the child as a crash.
func (st *c12State) guarded(op string, f func()) {
	if p, msg := hx.Guard(f); p {
		fmt.Fprintf(os.Stderr, "C12 CRASH: %s panicked: %s\n", op, msg)
		os.Exit(c12ExitCrash)
	}
	st.count(op)
}

// c12First: the first use of the package-level default cache, by all workers at once: in a new process the workers wait
// behind a barrier and then each calls package-level functions (the default cache does not exist before the first of them).
func c12First(st *c12State, seed int64, workers int, stall int) (c12Result, int) {
	dir := filepath.Join(st.root, "specs")
	_ = os.MkdirAll(dir, 0o755)
	var tmpN atomic.Int64
	stage := filepath.Join(st.root, "stage")
	_ = os.MkdirAll(stage, 0o755)
	_ = c12Put(stage, filepath.Join(dir, "base.json"), c12Spec("vendor0.com", "class", "base", []string{"dev0", "dev1"}, ""), &tmpN)
	start := make(chan struct{})
	var wg sync.WaitGroup
	for w := 0; w < workers; w++ {
		wg.Add(1)
		go func(w int) {
			defer wg.Done()
			r := rand.New(rand.NewSource(seed + int64(w)))
			<-start
			for i := 0; i < 4; i++ {
				switch (w + i + int(seed%5)) % 5 {
				case 0:
					st.guarded("cdi.GetDefaultCache", func() { _ = cdi.GetDefaultCache().ListDevices() })
				case 1:
					st.guarded("cdi.Configure", func() { _ = cdi.Configure(cdi.WithSpecDirs(dir), cdi.WithAutoRefresh(w%2 == 0)) })
				case 2:
					st.guarded("cdi.Refresh", func() { _ = cdi.Refresh() })
				case 3:
					st.guarded("cdi.InjectDevices", func() { _, _ = cdi.InjectDevices(&oci.Spec{}, "vendor0.com/class=dev0") })
				default:
					st.guarded("cdi.GetErrors", func() { _ = cdi.GetErrors() })
				}
				c12Yield(r)
			}
		}(w)
	}
	time.Sleep(20 * time.Millisecond) // every worker is parked at the barrier
	close(start)
	if !c12Wait(&wg, stall) {
		fmt.Fprintln(os.Stderr, "C12 WATCHDOG: a worker did not return from a package-level function")
		return c12Result{Note: "hung"}, c12ExitStall
	}
	_ = cdi.Configure(cdi.WithAutoRefresh(false))
	return c12Result{}, 0
}

// c12ErrQueued: a report of the watcher (an event queue overflow) is taken by the watcher goroutine while a Configure is
// already queued for the cache lock: the harness holds the lock, starts Configure (first in the queue), makes the watcher
// report the error through the verif hook (the goroutine takes it and queues second), and releases the lock.  Configure
// replaces the watcher; the old goroutine then finds itself replaced.  Afterwards every operation must still return (nobody
// may be left holding the lock) and the cache must answer like a fresh one.
func c12ErrQueued(st *c12State, seed int64, stall int) (c12Result, int) {
	d0, d1 := filepath.Join(st.root, "specs", "d0"), filepath.Join(st.root, "specs", "d1")
	_ = os.MkdirAll(d0, 0o755)
	_ = os.MkdirAll(d1, 0o755)
	var tmpN atomic.Int64
	stage := filepath.Join(st.root, "stage")
	_ = os.MkdirAll(stage, 0o755)
	_ = c12Put(stage, filepath.Join(d0, "base.json"), c12Spec("vendor0.com", "class", "base", []string{"dev0"}, ""), &tmpN)
	_ = c12Put(stage, filepath.Join(d1, "more.json"), c12Spec("vendor1.com", "class", "more", []string{"dev1"}, ""), &tmpN)
	cache, err := cdi.NewCache(cdi.WithSpecDirs(d0), cdi.WithAutoRefresh(true))
	if err != nil || cache == nil {
		return c12Result{}, c12ExitCrash
	}
	variants := seed % 3
	errs := cdi.VerifWatchErrors(cache)
	cache.Lock()
	configured := make(chan struct{})
	go func() {
		defer close(configured)
		switch variants {
		case 0:
			_ = cache.Configure(cdi.WithSpecDirs(d0, d1))
		case 1:
			_ = cache.Configure(cdi.WithAutoRefresh(true))
		default:
			_ = cache.Configure(cdi.WithAutoRefresh(false))
		}
	}()
	time.Sleep(30 * time.Millisecond) // Configure is waiting for the lock
	injected := false
	if errs != nil {
		select {
		case errs <- fsnotify.ErrEventOverflow:
			injected = true
		case <-time.After(2 * time.Second):
		}
	}
	time.Sleep(30 * time.Millisecond) // the watcher goroutine has taken the report and waits for the lock, behind Configure
	cache.Unlock()
	st.count("Configure with a watcher report queued behind it")
	wait := func(what string, ch chan struct{}) bool {
		select {
		case <-ch:
			return true
		case <-time.After(time.Duration(stall) * time.Second / 2):
			fmt.Fprintf(os.Stderr, "C12 WATCHDOG: %s did not return (a goroutine was left holding the cache lock). injected=%v\n", what, injected)
			return false
		}
	}
	if !wait("Configure", configured) {
		return c12Result{Note: "hung"}, c12ExitStall
	}
	for i := 0; i < 3; i++ {
		done := make(chan struct{})
		go func() {
			defer close(done)
			st.guarded("ListDevices", func() { _ = cache.ListDevices() })
			st.guarded("Refresh", func() { _ = cache.Refresh() })
			st.guarded("GetErrors", func() { _ = cache.GetErrors() })
		}()
		if !wait("a query after the reconfiguration", done) {
			return c12Result{Note: "hung"}, c12ExitStall
		}
		time.Sleep(10 * time.Millisecond)
	}
	_ = cache.Configure(cdi.WithAutoRefresh(false))
	return c12Result{}, 0
}

func c12Soak(st *c12State, profile string, seed int64, dur time.Duration, workers int, stall int) (c12Result, int) {
	root := st.root
	stage := filepath.Join(root, "stage")
	_ = os.MkdirAll(stage, 0o755)
	for _, d := range []string{"d0", "d1", "d2", "d3"} {
		st.dirs = append(st.dirs, filepath.Join(root, "specs", d))
	}
	for _, d := range st.dirs[:3] {
		_ = os.MkdirAll(d, 0o755)
	}
	var tmpN atomic.Int64
	vendors := []string{"vendor0.com", "vendor1.com", "vendor2.org"}
	devNames := []string{"dev0", "dev1", "dev2", "dev3"}
	var qualified []string
	for _, v := range vendors {
		for _, d := range devNames {
			qualified = append(qualified, v+"/class="+d)
		}
	}
	qualified = append(qualified, "vendor0.com/class=missing", "not a device")
	_ = c12Put(stage, filepath.Join(st.dirs[0], "base0.json"), c12Spec(vendors[0], "class", "base", devNames, ""), &tmpN)
	_ = c12Put(stage, filepath.Join(st.dirs[1], "base1.json"), c12Spec(vendors[1], "class", "base", devNames[:2], ""), &tmpN)
	_ = os.WriteFile(filepath.Join(st.dirs[1], "broken.json"), []byte("{ not a spec"), 0o644)

	cache, err := cdi.NewCache(cdi.WithSpecDirs(st.dirs[0], st.dirs[1], st.dirs[2]), cdi.WithAutoRefresh(true))
	if err != nil || cache == nil {
		fmt.Fprintln(os.Stderr, "C12 CRASH: NewCache failed")
		return c12Result{}, c12ExitCrash
	}
	st.cache = cache
	names := []string{"w0", "w1.json", "w2.yaml", "vendor0.com-class"}

	type op struct {
		name   string
		weight int
		f      func(r *rand.Rand)
	}
	randDirs := func(r *rand.Rand) []string {
		n := 1 + r.Intn(3)
		if r.Intn(12) == 0 {
			return nil // an empty directory list is a legal configuration: writes and removals then fail with an error
		}
		perm := r.Perm(len(st.dirs))
		out := make([]string, n)
		for i := range out {
			out[i] = st.dirs[perm[i]]
		}
		return out
	}
	use := func(n int) { st.sink.Add(int64(n)) }
	readSpecs := func(ss []*cdi.Spec) {
		for _, s := range ss {
			use(len(s.GetPath()) + s.GetPriority() + len(s.GetVendor()) + len(s.GetClass()) + len(s.Devices))
			for _, e := range cache.GetSpecErrors(s) {
				use(len(e.Error()))
			}
		}
	}
	queries := []op{
		{"ListDevices", 6, func(r *rand.Rand) { use(len(cache.ListDevices())) }},
		{"GetDevice", 6, func(r *rand.Rand) {
			if d := cache.GetDevice(qualified[r.Intn(len(qualified))]); d != nil {
				use(len(d.GetQualifiedName()) + len(d.GetSpec().GetPath()) + len(d.ContainerEdits.Env))
			}
		}},
		{"InjectDevices", 6, func(r *rand.Rand) {
			n := 1 + r.Intn(4)
			req := make([]string, n)
			for i := range req {
				req[i] = qualified[r.Intn(len(qualified))]
			}
			o := &oci.Spec{}
			unresolved, err := cache.InjectDevices(o, req...)
			use(len(unresolved))
			if err == nil && o.Process != nil {
				use(len(o.Process.Env))
			}
		}},
		{"ListVendors", 2, func(r *rand.Rand) { use(len(cache.ListVendors())) }},
		{"ListClasses", 2, func(r *rand.Rand) { use(len(cache.ListClasses())) }},
		{"GetVendorSpecs", 3, func(r *rand.Rand) { readSpecs(cache.GetVendorSpecs(vendors[r.Intn(len(vendors))])) }},
		{"GetErrors", 4, func(r *rand.Rand) {
			for p, errs := range cache.GetErrors() {
				use(len(p))
				for _, e := range errs {
					use(len(e.Error()))
				}
			}
		}},
		{"GetSpecDirErrors", 4, func(r *rand.Rand) {
			for p, e := range cache.GetSpecDirErrors() {
				use(len(p) + len(e.Error()))
			}
		}},
		{"GetSpecDirectories", 4, func(r *rand.Rand) {
			for _, d := range cache.GetSpecDirectories() {
				use(len(d))
			}
		}},
	}
	refresh := op{"Refresh", 4, func(r *rand.Rand) {
		if err := cache.Refresh(); err != nil {
			use(len(err.Error()))
		}
	}}
	configure := []op{
		{"Configure(WithSpecDirs)", 3, func(r *rand.Rand) { _ = cache.Configure(cdi.WithSpecDirs(randDirs(r)...)) }},
		{"Configure(WithAutoRefresh)", 3, func(r *rand.Rand) { _ = cache.Configure(cdi.WithAutoRefresh(r.Intn(3) != 0)) }},
		{"Configure(both)", 2, func(r *rand.Rand) {
			_ = cache.Configure(cdi.WithAutoRefresh(r.Intn(3) != 0), cdi.WithSpecDirs(randDirs(r)...))
		}},
		{"Configure()", 1, func(r *rand.Rand) { _ = cache.Configure() }},
	}
	writes := []op{
		{"WriteSpec", 5, func(r *rand.Rand) {
			v := vendors[r.Intn(len(vendors))]
			if err := cache.WriteSpec(c12Spec(v, "class", fmt.Sprint(r.Intn(100)), devNames[:1+r.Intn(len(devNames))], ""), names[r.Intn(len(names))]); err != nil {
				use(len(err.Error()))
			}
		}},
		{"RemoveSpec", 4, func(r *rand.Rand) {
			if err := cache.RemoveSpec(names[r.Intn(len(names))]); err != nil {
				use(len(err.Error()))
			}
		}},
	}
	fsops := []op{
		{"fs:put", 3, func(r *rand.Rand) {
			d := st.dirs[r.Intn(len(st.dirs))]
			_ = c12Put(stage, filepath.Join(d, fmt.Sprintf("ext%d.json", r.Intn(3))), c12Spec(vendors[2], "class", fmt.Sprint(r.Intn(100)), devNames[:1+r.Intn(3)], ""), &tmpN)
		}},
		{"fs:remove", 2, func(r *rand.Rand) {
			_ = os.Remove(filepath.Join(st.dirs[r.Intn(len(st.dirs))], fmt.Sprintf("ext%d.json", r.Intn(3))))
		}},
		{"fs:mkdir", 1, func(r *rand.Rand) { _ = os.MkdirAll(st.dirs[3], 0o755) }},
		{"fs:rmdir", 1, func(r *rand.Rand) { _ = os.RemoveAll(st.dirs[3]) }},
	}
	defaults := []op{
		{"cdi.Configure", 1, func(r *rand.Rand) {
			_ = cdi.Configure(cdi.WithSpecDirs(randDirs(r)...), cdi.WithAutoRefresh(r.Intn(2) == 0))
		}},
		{"cdi.Refresh", 1, func(r *rand.Rand) { _ = cdi.Refresh() }},
		{"cdi.GetErrors", 1, func(r *rand.Rand) { use(len(cdi.GetErrors())) }},
		{"cdi.InjectDevices", 1, func(r *rand.Rand) { _, _ = cdi.InjectDevices(&oci.Spec{}, qualified[r.Intn(len(qualified))]) }},
		{"cdi.GetDefaultCache", 1, func(r *rand.Rand) { use(len(cdi.GetDefaultCache().ListDevices())) }},
		{"NewCache", 1, func(r *rand.Rand) {
			// another cache comes and goes (its own watcher on the same directories)
			if oc, err := cdi.NewCache(cdi.WithSpecDirs(randDirs(r)...), cdi.WithAutoRefresh(r.Intn(3) != 0)); err == nil && oc != nil {
				use(len(oc.ListDevices()))
				_ = oc.Configure(cdi.WithAutoRefresh(false))
			}
		}},
		{"cdi.SetSpecValidator", 1, func(r *rand.Rand) {
			if r.Intn(2) == 0 {
				cdi.SetSpecValidator(c12Validator{})
			} else {
				cdi.SetSpecValidator(nil)
			}
		}},
	}
	scale := func(ops []op, k int) []op {
		out := make([]op, len(ops))
		for i, o := range ops {
			o.weight *= k
			out[i] = o
		}
		return out
	}
	var table []op
	switch profile {
	case "reconf": // reconfiguration against directory events and queries (watcher goroutine waiting for the mutex)
		table = append(table, scale(configure, 6)...)
		table = append(table, scale(writes, 3)...)
		table = append(table, scale(fsops, 3)...)
		table = append(table, queries...)
		table = append(table, refresh)
	case "dirs": // readers of the directory list and of the directory errors against writers of them
		table = append(table, scale(configure, 4)...)
		table = append(table, scale(writes, 4)...)
		for _, q := range queries {
			if q.name == "GetSpecDirErrors" || q.name == "GetSpecDirectories" || q.name == "GetErrors" {
				q.weight *= 5
			}
			table = append(table, q)
		}
		table = append(table, fsops...)
	default:
		table = append(table, scale(queries, 2)...)
		table = append(table, scale([]op{refresh}, 2)...)
		table = append(table, configure...)
		table = append(table, scale(writes, 2)...)
		table = append(table, scale(fsops, 2)...)
		table = append(table, defaults...)
	}
	total := 0
	for _, o := range table {
		total += o.weight
	}
	var wg sync.WaitGroup
	for w := 0; w < workers; w++ {
		wg.Add(1)
		go func(w int) {
			defer wg.Done()
			r := rand.New(rand.NewSource(seed*1000 + int64(w)))
			for !st.stop.Load() {
				k := r.Intn(total)
				for _, o := range table {
					if k < o.weight {
						st.guarded(o.name, func() { o.f(r) })
						break
					}
					k -= o.weight
				}
				c12Yield(r)
			}
		}(w)
	}
	time.Sleep(dur)
	st.stop.Store(true)
	if !c12Wait(&wg, stall) {
		fmt.Fprintf(os.Stderr, "C12 WATCHDOG: workers did not finish within %d s after the end of the run (deadlock)\n", stall+5)
		return c12Result{}, c12ExitStall
	}
	fresh, got := c12FinalState(st, stage, &tmpN)
	fresh2, got2 := c12Follow(st, stage, &tmpN)
	res := c12Result{Expect: map[string][2][]string{c12FinalKind: {fresh, fresh}, c12FollowKind: {fresh2, fresh2}},
		Observed: []c12Obs{{Kind: c12FinalKind, Obs: got, Count: 1}, {Kind: c12FollowKind, Obs: got2, Count: 1}}}
	// leave no watcher behind; the final state must still answer
	st.guarded("Configure(WithAutoRefresh)", func() { _ = cache.Configure(cdi.WithAutoRefresh(false)) })
	st.guarded("ListDevices", func() { use(len(cache.ListDevices())) })
	return res, 0
}

// ------------------------------------------------------------------------------------------------
// snapshot scenario

type c12Recorder struct {
	mu  sync.Mutex
	obs map[string]*c12Obs
}

func (rec *c12Recorder) add(kind string, obs []string) {
	key := kind + "\x00" + strings.Join(obs, "\x00")
	rec.mu.Lock()
	if o := rec.obs[key]; o != nil {
		o.Count++
	} else {
		rec.obs[key] = &c12Obs{Kind: kind, Obs: obs, Count: 1}
	}
	rec.mu.Unlock()
}

func c12Snap(st *c12State, profile string, seed int64, dur time.Duration, workers int, stall int) (c12Result, int) {
	root := st.root
	stage := filepath.Join(root, "stage")
	dir := filepath.Join(root, "specs")
	_ = os.MkdirAll(stage, 0o755)
	_ = os.MkdirAll(dir, 0o755)
	var tmpN atomic.Int64
	const nDev = 24
	var common []string
	for i := 0; i < nDev; i++ {
		common = append(common, fmt.Sprintf("dev%02d", i))
	}
	vendor, class := "vendor.com", "class"
	specA := c12Spec(vendor, class, "A", common, "onlyA")
	specB := c12Spec(vendor, class, "B", common, "onlyB")
	other := c12Spec("other.org", "thing", "other", []string{"x"}, "")
	target := filepath.Join(dir, "vendor.json")
	_ = c12Put(stage, filepath.Join(dir, "other.json"), other, &tmpN)
	_ = c12Put(stage, target, specA, &tmpN)

	auto := profile == "auto"
	cache, err := cdi.NewCache(cdi.WithSpecDirs(dir), cdi.WithAutoRefresh(auto))
	if err != nil || cache == nil {
		fmt.Fprintln(os.Stderr, "C12 CRASH: NewCache failed")
		return c12Result{}, c12ExitCrash
	}
	st.cache = cache
	q := func(d string) string { return vendor + "/" + class + "=" + d }
	var reqCommon []string
	for _, d := range common {
		reqCommon = append(reqCommon, q(d))
	}
	reqWithA := append(append([]string{}, reqCommon...), q("onlyA"))
	// admissible results
	list := func(only string) []string {
		l := append([]string{"other.org/thing=x"}, reqCommon...)
		l = append(l, q(only))
		sort.Strings(l)
		return l
	}
	env := func(tag string, only bool) []string {
		e := []string{"ok", "SPEC=" + tag}
		for i := range common {
			e = append(e, fmt.Sprintf("DEV%d=%s", i, tag))
		}
		if only {
			e = append(e, "ONLY="+tag)
		}
		return e
	}
	specView := func(tag, only string) []string {
		v := []string{"SPEC=" + tag}
		for i, d := range common {
			v = append(v, fmt.Sprintf("%s:DEV%d=%s", d, i, tag))
		}
		return append(v, only+":ONLY="+tag)
	}
	res := c12Result{Expect: map[string][2][]string{
		"ListDevices":                 {list("onlyA"), list("onlyB")},
		"InjectDevices(common)":       {env("A", false), env("B", false)},
		"InjectDevices(common+onlyA)": {env("A", true), {"unresolved", q("onlyA")}},
		"GetVendorSpecs":              {specView("A", "onlyA"), specView("B", "onlyB")},
		"ListVendors":                 {{"other.org", "vendor.com"}, {"other.org", "vendor.com"}},
		"GetDevice(dev00)":            {{"SPEC=A", "DEV0=A"}, {"SPEC=B", "DEV0=B"}},
		"GetDevice(onlyA)":            {{"SPEC=A", "ONLY=A"}, {"nil"}},
	}}
	rec := &c12Recorder{obs: map[string]*c12Obs{}}
	getDevice := func(kind, name string) {
		d := cache.GetDevice(q(name))
		if d == nil {
			rec.add(kind, []string{"nil"})
			return
		}
		rec.add(kind, append(append([]string{}, d.GetSpec().ContainerEdits.Env...), d.ContainerEdits.Env...))
	}
	inject := func(kind string, req []string) {
		o := &oci.Spec{}
		unresolved, err := cache.InjectDevices(o, req...)
		if err != nil {
			rec.add(kind, append([]string{"unresolved"}, unresolved...))
			return
		}
		obs := []string{"ok"}
		if o.Process != nil {
			obs = append(obs, o.Process.Env...)
		}
		rec.add(kind, obs)
	}
	var wg sync.WaitGroup
	var flips atomic.Int64
	// the writer: flips the file atomically between A and B
	wg.Add(1)
	go func() {
		defer wg.Done()
		r := rand.New(rand.NewSource(seed))
		cur := specB
		for !st.stop.Load() {
			if n := flips.Load(); auto && n%3 == 2 {
				// the library's own atomic publication (temporary file in the directory, rename) as the switch
				st.guarded("WriteSpec", func() { _ = cache.WriteSpec(cur, "vendor.json") })
			} else {
				st.guarded("fs:flip", func() { _ = c12Put(stage, target, cur, &tmpN) })
			}
			flips.Add(1)
			if cur == specA {
				cur = specB
			} else {
				cur = specA
			}
			if !auto {
				st.guarded("Refresh", func() { _ = cache.Refresh() })
			}
			time.Sleep(time.Duration(r.Intn(1500)) * time.Microsecond)
		}
	}()
	if !auto { // a second source of refreshes
		wg.Add(1)
		go func() {
			defer wg.Done()
			r := rand.New(rand.NewSource(seed + 7))
			for !st.stop.Load() {
				st.guarded("Refresh", func() { _ = cache.Refresh() })
				time.Sleep(time.Duration(r.Intn(800)) * time.Microsecond)
			}
		}()
	}
	for w := 0; w < workers; w++ {
		wg.Add(1)
		go func(w int) {
			defer wg.Done()
			r := rand.New(rand.NewSource(seed*1000 + int64(w)))
			for !st.stop.Load() {
				switch r.Intn(10) {
				case 8:
					st.guarded("GetDevice", func() { getDevice("GetDevice(dev00)", "dev00") })
				case 9:
					st.guarded("GetDevice", func() { getDevice("GetDevice(onlyA)", "onlyA") })
				case 0, 1:
					st.guarded("ListDevices", func() { rec.add("ListDevices", cache.ListDevices()) })
				case 2, 3, 4:
					st.guarded("InjectDevices", func() { inject("InjectDevices(common)", reqCommon) })
				case 5:
					st.guarded("InjectDevices", func() { inject("InjectDevices(common+onlyA)", reqWithA) })
				case 6:
					st.guarded("GetVendorSpecs", func() {
						var v []string
						for _, s := range cache.GetVendorSpecs(vendor) {
							v = append(v, s.ContainerEdits.Env...)
							for _, d := range s.Devices {
								for _, e := range d.ContainerEdits.Env {
									v = append(v, d.Name+":"+e)
								}
							}
						}
						rec.add("GetVendorSpecs", v)
					})
				case 7:
					st.guarded("ListVendors", func() { rec.add("ListVendors", cache.ListVendors()) })
				}
				c12Yield(r)
			}
		}(w)
	}
	time.Sleep(dur)
	st.stop.Store(true)
	if !c12Wait(&wg, stall) {
		fmt.Fprintf(os.Stderr, "C12 WATCHDOG: workers did not finish within %d s after the end of the run (deadlock)\n", stall+5)
		return res, c12ExitStall
	}
	st.guarded("Configure(WithAutoRefresh)", func() { _ = cache.Configure(cdi.WithAutoRefresh(false)) })
	keys := make([]string, 0, len(rec.obs))
	for k := range rec.obs {
		keys = append(keys, k)
	}
	sort.Strings(keys)
	for _, k := range keys {
		res.Observed = append(res.Observed, *rec.obs[k])
	}
	res.Flips = int(flips.Load())
	return res, 0
}
