package main

// JSON value trees for the schema properties (C17, C18): the Go side of CDI.Doc.doc, with renderers to Gallina,
// JSON and block-style YAML, a decoder from JSON text that keeps member order and exact numbers, and a canonical
// form used to check that a YAML text denotes the same document.

import (
	"bytes"
	"encoding/json"
	"fmt"
	"io"
	"math/big"
	"regexp"
	"sort"
	"strings"
	"unicode/utf8"

	"verif/harness/hx"
)

type docKind int

const (
	sdNull docKind = iota
	sdBool
	sdNum
	sdStr
	sdArr
	sdObj
)

type Doc struct {
	K   docKind
	B   bool
	Num *big.Rat // value of a number
	Lit string   // its spelling (valid JSON, also read as the same value by yaml.v2 when yamlExact says so)
	S   string
	A   []*Doc
	O   []Member
}

type Member struct {
	K string
	V *Doc
}

func sdnull() *Doc         { return &Doc{K: sdNull} }
func sdbool(b bool) *Doc   { return &Doc{K: sdBool, B: b} }
func sdstr(s string) *Doc  { return &Doc{K: sdStr, S: s} }
func sdarr(a ...*Doc) *Doc { return &Doc{K: sdArr, A: a} }
func sdobj(m ...Member) *Doc {
	return &Doc{K: sdObj, O: m}
}
func mem(k string, v *Doc) Member { return Member{K: k, V: v} }

// sdnum builds a number from a JSON literal.
func sdnum(lit string) *Doc {
	r, ok := new(big.Rat).SetString(lit)
	if !ok {
		panic("bad number literal " + lit)
	}
	return &Doc{K: sdNum, Num: r, Lit: lit}
}

func dint(n int64) *Doc { return sdnum(fmt.Sprintf("%d", n)) }

func (d *Doc) clone() *Doc {
	c := *d
	if d.Num != nil {
		c.Num = new(big.Rat).Set(d.Num)
	}
	if d.A != nil {
		c.A = make([]*Doc, len(d.A))
		for i, x := range d.A {
			c.A[i] = x.clone()
		}
	}
	if d.O != nil {
		c.O = make([]Member, len(d.O))
		for i, m := range d.O {
			c.O[i] = Member{m.K, m.V.clone()}
		}
	}
	return &c
}

func (d *Doc) get(k string) *Doc {
	if d == nil || d.K != sdObj {
		return nil
	}
	for _, m := range d.O {
		if m.K == k {
			return m.V
		}
	}
	return nil
}

func (d *Doc) set(k string, v *Doc) {
	for i, m := range d.O {
		if m.K == k {
			d.O[i].V = v
			return
		}
	}
	d.O = append(d.O, Member{k, v})
}

func (d *Doc) del(k string) {
	for i, m := range d.O {
		if m.K == k {
			d.O = append(append([]Member{}, d.O[:i]...), d.O[i+1:]...)
			return
		}
	}
}

// hasDupKeys reports whether some object has two members of the same name (outside the modelled space).
func (d *Doc) hasDupKeys() bool {
	switch d.K {
	case sdArr:
		for _, x := range d.A {
			if x.hasDupKeys() {
				return true
			}
		}
	case sdObj:
		seen := map[string]bool{}
		for _, m := range d.O {
			if seen[m.K] || m.V.hasDupKeys() {
				return true
			}
			seen[m.K] = true
		}
	}
	return false
}

// Term prints the Gallina term of type CDI.Doc.doc.
func (d *Doc) Term() string {
	switch d.K {
	case sdNull:
		return "DNull"
	case sdBool:
		return hx.C("DBool", hx.B(d.B))
	case sdNum:
		if d.Num.IsInt() {
			n := d.Num.Num()
			if n.Sign() < 0 {
				return "(DInt (" + n.String() + ")%Z)"
			}
			return "(DInt " + n.String() + "%Z)"
		}
		n, q := d.Num.Num(), d.Num.Denom()
		ns := n.String() + "%Z"
		if n.Sign() < 0 {
			ns = "(" + n.String() + ")%Z"
		}
		return "(DFrac " + ns + " " + q.String() + "%positive)"
	case sdStr:
		if len(d.S) > 4096 && strings.Count(d.S, d.S[:1]) == len(d.S) {
			// a very long run of one byte: coqc cannot parse string literals of that size
			return fmt.Sprintf("(DStr (rep_s %s %d%%N))", hx.S(d.S[:1]), len(d.S))
		}
		return hx.C("DStr", hx.S(d.S))
	case sdArr:
		items := make([]string, len(d.A))
		for i, x := range d.A {
			items[i] = x.Term()
		}
		return hx.C("DArr", hx.L(items))
	default:
		items := make([]string, len(d.O))
		for i, m := range d.O {
			items[i] = hx.P(hx.S(m.K), m.V.Term())
		}
		return hx.C("DObj", hx.L(items))
	}
}

func sjsonString(s string) string {
	var b bytes.Buffer
	enc := json.NewEncoder(&b)
	enc.SetEscapeHTML(false)
	_ = enc.Encode(s)
	return strings.TrimSuffix(b.String(), "\n")
}

// JSON renders the document; pretty adds whitespace (also in front of the top-level value).
func (d *Doc) JSON(pretty bool) []byte {
	var b bytes.Buffer
	if pretty {
		b.WriteString("\n  ")
	}
	d.json(&b, pretty, 1)
	if pretty {
		b.WriteString("\n")
	}
	return b.Bytes()
}

func (d *Doc) json(b *bytes.Buffer, pretty bool, depth int) {
	nl := func(k int) {
		if pretty {
			b.WriteString("\n" + strings.Repeat("  ", k))
		}
	}
	switch d.K {
	case sdNull:
		b.WriteString("null")
	case sdBool:
		if d.B {
			b.WriteString("true")
		} else {
			b.WriteString("false")
		}
	case sdNum:
		b.WriteString(d.Lit)
	case sdStr:
		b.WriteString(sjsonString(d.S))
	case sdArr:
		b.WriteString("[")
		for i, x := range d.A {
			if i > 0 {
				b.WriteString(",")
			}
			nl(depth + 1)
			x.json(b, pretty, depth+1)
		}
		if len(d.A) > 0 {
			nl(depth)
		}
		b.WriteString("]")
	default:
		b.WriteString("{")
		for i, m := range d.O {
			if i > 0 {
				b.WriteString(",")
			}
			nl(depth + 1)
			b.WriteString(sjsonString(m.K))
			b.WriteString(":")
			if pretty {
				b.WriteString(" ")
			}
			m.V.json(b, pretty, depth+1)
		}
		if len(d.O) > 0 {
			nl(depth)
		}
		b.WriteString("}")
	}
}

var yamlPlainSafe = regexp.MustCompile(`^[A-Za-z/][A-Za-z0-9/._-]*$`)
var yamlWords = map[string]bool{"y": true, "n": true, "yes": true, "no": true, "on": true, "off": true, "true": true,
	"false": true, "null": true, "nan": true, "inf": true}

// yamlScalar renders a string: plain when that is certainly read back as the same string and plain is wanted,
// otherwise double-quoted with every byte outside printable ASCII escaped.
func yamlScalar(s string, plain bool) string {
	if plain && yamlPlainSafe.MatchString(s) && !yamlWords[strings.ToLower(s)] && !strings.HasPrefix(strings.ToLower(s), ".") {
		return s
	}
	var b strings.Builder
	b.WriteByte('"')
	for _, r := range s {
		switch {
		case r == '"':
			b.WriteString(`\"`)
		case r == '\\':
			b.WriteString(`\\`)
		case r >= 0x20 && r <= 0x7e:
			b.WriteRune(r)
		case r <= 0xffff:
			fmt.Fprintf(&b, `\u%04x`, r)
		default:
			fmt.Fprintf(&b, `\U%08x`, r)
		}
	}
	b.WriteByte('"')
	return b.String()
}

// YAML renders the document in block style (the style the library writes); plain selects unquoted scalars where safe.
func (d *Doc) YAML(plain bool) []byte {
	var b bytes.Buffer
	switch d.K {
	case sdObj, sdArr:
		if (d.K == sdObj && len(d.O) == 0) || (d.K == sdArr && len(d.A) == 0) {
			d.yamlInline(&b, plain)
			b.WriteString("\n")
		} else {
			d.yamlBlock(&b, 0, plain)
		}
	default:
		d.yamlInline(&b, plain)
		b.WriteString("\n")
	}
	return b.Bytes()
}

func (d *Doc) yamlInline(b *bytes.Buffer, plain bool) {
	switch d.K {
	case sdNull:
		b.WriteString("null")
	case sdBool:
		if d.B {
			b.WriteString("true")
		} else {
			b.WriteString("false")
		}
	case sdNum:
		b.WriteString(d.Lit)
	case sdStr:
		b.WriteString(yamlScalar(d.S, plain))
	case sdArr:
		b.WriteString("[]")
	default:
		b.WriteString("{}")
	}
}

func (d *Doc) isBlock() bool {
	return (d.K == sdObj && len(d.O) > 0) || (d.K == sdArr && len(d.A) > 0)
}

// yamlBlock writes a non-empty mapping or sequence, every line indented by ind spaces.
func (d *Doc) yamlBlock(b *bytes.Buffer, ind int, plain bool) {
	pad := strings.Repeat(" ", ind)
	if d.K == sdObj {
		for _, m := range d.O {
			b.WriteString(pad + yamlScalar(m.K, plain) + ":")
			if m.V.isBlock() {
				b.WriteString("\n")
				if m.V.K == sdArr {
					m.V.yamlBlock(b, ind, plain) // sequences under a key are not indented further, as yaml.v3 writes them
				} else {
					m.V.yamlBlock(b, ind+2, plain)
				}
			} else {
				b.WriteString(" ")
				m.V.yamlInline(b, plain)
				b.WriteString("\n")
			}
		}
		return
	}
	for _, x := range d.A {
		if x.isBlock() {
			// "- " followed by the nested block, its first line on the dash line
			var nb bytes.Buffer
			x.yamlBlock(&nb, ind+2, plain)
			s := nb.String()
			b.WriteString(pad + "- " + s[ind+2:])
		} else {
			b.WriteString(pad + "- ")
			x.yamlInline(b, plain)
			b.WriteString("\n")
		}
	}
}

// docFromJSON decodes JSON text keeping member order and exact numbers.
func docFromJSON(data []byte) (*Doc, error) {
	dec := json.NewDecoder(bytes.NewReader(data))
	dec.UseNumber()
	d, err := decodeDoc(dec)
	if err != nil {
		return nil, err
	}
	if _, err := dec.Token(); err != io.EOF {
		return nil, fmt.Errorf("trailing data")
	}
	return d, nil
}

func decodeDoc(dec *json.Decoder) (*Doc, error) {
	tok, err := dec.Token()
	if err != nil {
		return nil, err
	}
	switch t := tok.(type) {
	case nil:
		return sdnull(), nil
	case bool:
		return sdbool(t), nil
	case json.Number:
		r, ok := new(big.Rat).SetString(t.String())
		if !ok {
			return nil, fmt.Errorf("bad number %s", t)
		}
		return &Doc{K: sdNum, Num: r, Lit: t.String()}, nil
	case string:
		return sdstr(t), nil
	case json.Delim:
		if t == '[' {
			d := &Doc{K: sdArr, A: []*Doc{}}
			for dec.More() {
				x, err := decodeDoc(dec)
				if err != nil {
					return nil, err
				}
				d.A = append(d.A, x)
			}
			_, err := dec.Token()
			return d, err
		}
		d := &Doc{K: sdObj, O: []Member{}}
		for dec.More() {
			kt, err := dec.Token()
			if err != nil {
				return nil, err
			}
			v, err := decodeDoc(dec)
			if err != nil {
				return nil, err
			}
			d.O = append(d.O, Member{kt.(string), v})
		}
		_, err := dec.Token()
		return d, err
	}
	return nil, fmt.Errorf("unexpected token %v", tok)
}

// canon is a canonical rendering: members sorted by name, numbers by value.
func (d *Doc) canon() string {
	switch d.K {
	case sdNull:
		return "null"
	case sdBool:
		return fmt.Sprint(d.B)
	case sdNum:
		return "#" + d.Num.RatString()
	case sdStr:
		return sjsonString(d.S)
	case sdArr:
		parts := make([]string, len(d.A))
		for i, x := range d.A {
			parts[i] = x.canon()
		}
		return "[" + strings.Join(parts, ",") + "]"
	default:
		parts := make([]string, len(d.O))
		for i, m := range d.O {
			parts[i] = sjsonString(m.K) + ":" + m.V.canon()
		}
		sort.Strings(parts)
		return "{" + strings.Join(parts, ",") + "}"
	}
}

// generic converts to the tree encoding/json would build with UseNumber (for ValidateType).
func (d *Doc) generic() interface{} {
	switch d.K {
	case sdNull:
		return nil
	case sdBool:
		return d.B
	case sdNum:
		return json.Number(d.Lit)
	case sdStr:
		return d.S
	case sdArr:
		out := make([]interface{}, len(d.A))
		for i, x := range d.A {
			out[i] = x.generic()
		}
		return out
	default:
		out := make(map[string]interface{}, len(d.O))
		for _, m := range d.O {
			out[m.K] = m.V.generic()
		}
		return out
	}
}

// allValidUTF8 reports whether every string of the document is valid UTF-8 (the JSON and YAML texts carry it unchanged).
func (d *Doc) allValidUTF8() bool {
	switch d.K {
	case sdStr:
		return utf8.ValidString(d.S)
	case sdArr:
		for _, x := range d.A {
			if !x.allValidUTF8() {
				return false
			}
		}
	case sdObj:
		for _, m := range d.O {
			if !utf8.ValidString(m.K) || !m.V.allValidUTF8() {
				return false
			}
		}
	}
	return true
}

// walk calls f for every node with its parent (nil for the root) and its position in the parent.
func (d *Doc) walk(f func(node, parent *Doc, idx int)) {
	var rec func(n, p *Doc, i int)
	rec = func(n, p *Doc, i int) {
		f(n, p, i)
		switch n.K {
		case sdArr:
			for j, x := range n.A {
				rec(x, n, j)
			}
		case sdObj:
			for j, m := range n.O {
				rec(m.V, n, j)
			}
		}
	}
	rec(d, nil, 0)
}
