//go:build !race

package main

const c12RaceEnabled = false
