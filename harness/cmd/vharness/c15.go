package main

import (
	"sort"
	"strings"

	"tags.cncf.io/container-device-interface/pkg/cdi"
	"verif/harness/hx"
)

func init() { registry["C15"] = genC15 }

func sortedMap(m map[string]string) string {
	keys := make([]string, 0, len(m))
	for k := range m {
		keys = append(keys, k)
	}
	sort.Strings(keys)
	items := make([]string, len(keys))
	for i, k := range keys {
		items[i] = hx.P(hx.S(k), hx.S(m[k]))
	}
	return hx.L(items)
}

func copyMap(m map[string]string) map[string]string {
	if m == nil {
		return nil
	}
	c := make(map[string]string, len(m))
	for k, v := range m {
		c[k] = v
	}
	return c
}

func descMap(m map[string]string) map[string]string {
	d := map[string]string{}
	for k, v := range m {
		d[hx.JS(k)] = hx.JS(v)
	}
	return d
}

func descList(l []string) []string {
	d := make([]string, len(l))
	for i, s := range l {
		d[i] = hx.JS(s)
	}
	return d
}

func c15Key(plugin, devid, class string) hx.Case {
	var key string
	var err error
	p, _ := hx.Guard(func() { key, err = cdi.AnnotationKey(plugin, devid) })
	k8sOK := false
	if !p && err == nil {
		k8sOK = len(cdi.VerifK8sQualifiedName(strings.ToLower(key))) == 0
	}
	return hx.Case{
		Term:       hx.C("CKey", hx.S(plugin), hx.S(devid), hx.Opt(hx.P(hx.S(key), hx.B(err != nil), hx.B(k8sOK)), !p)),
		Desc:       map[string]interface{}{"op": "AnnotationKey", "plugin": hx.JS(plugin), "deviceID": hx.JS(devid), "key": hx.JS(key), "err": err != nil, "panic": p},
		Key:        "k:" + plugin + "\x00" + devid,
		Nontrivial: plugin != "" && devid != "",
		Class:      class,
	}
}

func c15K8s(s string) hx.Case {
	ok := len(cdi.VerifK8sQualifiedName(s)) == 0
	return hx.Case{
		Term:       hx.C("CK8s", hx.S(s), hx.B(ok)),
		Desc:       map[string]interface{}{"op": "k8s.IsQualifiedName", "value": hx.JS(s), "ok": ok},
		Key:        "q:" + s,
		Nontrivial: strings.Contains(s, "/") || ok,
		Class:      "k8s-matcher",
	}
}

func c15Val(devices []string) hx.Case {
	var v string
	var err error
	p, _ := hx.Guard(func() { v, err = cdi.AnnotationValue(devices) })
	return hx.Case{
		Term:       hx.C("CVal", hx.LS(devices), hx.Opt(hx.P(hx.S(v), hx.B(err != nil)), !p)),
		Desc:       map[string]interface{}{"op": "AnnotationValue", "devices": descList(devices), "value": hx.JS(v), "err": err != nil, "panic": p},
		Key:        "v:" + strings.Join(devices, "\x00"),
		Nontrivial: len(devices) > 0,
		Class:      "value",
	}
}

func c15Upd(m map[string]string, plugin, devid string, devices []string, class string) hx.Case {
	before := copyMap(m)
	var ret map[string]string
	var err error
	p, _ := hx.Guard(func() { ret, err = cdi.UpdateAnnotations(m, plugin, devid, devices) })
	return hx.Case{
		Term: hx.C("CUpd", sortedMap(before), hx.B(before == nil), hx.S(plugin), hx.S(devid), hx.LS(devices),
			hx.Opt(hx.P(hx.B(err != nil), sortedMap(ret), sortedMap(m)), !p)),
		Desc: map[string]interface{}{"op": "UpdateAnnotations", "annotations": descMap(before), "nil": before == nil, "plugin": hx.JS(plugin),
			"deviceID": hx.JS(devid), "devices": descList(devices), "err": err != nil, "returned": descMap(ret), "panic": p},
		Key:        "u:" + sortedMap(before) + plugin + "\x00" + devid + "\x00" + strings.Join(devices, "\x00"),
		Nontrivial: len(before) > 0 || err == nil,
		Class:      class,
	}
}

func c15Parse(m map[string]string, class string) hx.Case {
	var keys, devs []string
	var err error
	p, _ := hx.Guard(func() { keys, devs, err = cdi.ParseAnnotations(copyMap(m)) })
	// group the flat device list per key (the i-th key owns as many devices as its value has
	// comma separated parts), then sort by key: Go's map iteration order is random
	type grp struct {
		k  string
		ds []string
	}
	var groups []grp
	pos := 0
	consistent := true
	for _, k := range keys {
		n := len(strings.Split(m[k], ","))
		if pos+n > len(devs) {
			consistent = false
			break
		}
		groups = append(groups, grp{k, devs[pos : pos+n]})
		pos += n
	}
	if pos != len(devs) {
		consistent = false
	}
	sort.Slice(groups, func(i, j int) bool { return groups[i].k < groups[j].k })
	items := make([]string, len(groups))
	for i, g := range groups {
		items[i] = hx.P(hx.S(g.k), hx.LS(g.ds))
	}
	if !consistent {
		items = []string{hx.P(hx.S("<<inconsistent keys/devices>>"), hx.LS(devs))}
	}
	empty := len(keys) == 0 && len(devs) == 0
	nCDI := 0
	for k := range m {
		if strings.HasPrefix(k, cdi.AnnotationPrefix) {
			nCDI++
		}
	}
	return hx.Case{
		Term: hx.C("CParse", sortedMap(m), hx.Opt(hx.P(hx.B(err != nil), hx.L(items), hx.B(empty)), !p)),
		Desc: map[string]interface{}{"op": "ParseAnnotations", "annotations": descMap(m), "err": err != nil, "keys": descList(keys),
			"devices": descList(devs), "panic": p},
		Key:        "p:" + sortedMap(m),
		Nontrivial: nCDI > 0,
		Class:      class,
	}
}

// incl. the two code points outside ASCII whose lower case is an ASCII letter (Kelvin sign, dotted capital I), the long s, a fullwidth letter
var c15Chars = []string{"a", "Z", "5", "_", "-", ".", ":", "/", "+", " ", "=", ",", "\x00", "\xc3", "é", "٣", "\xe9", "@", "\n", "\u212a", "\u0130", "\u017f", "\uff21"}

func randDevice(r *hx.R, valid bool) string {
	d := randPart(r, false) + "/" + randPart(r, false) + "=" + randPart(r, true)
	if !valid {
		switch r.Intn(5) {
		case 0:
			return randPart(r, true) // unqualified
		case 1:
			return ""
		case 2:
			return d + ":"
		case 3:
			return "/" + d
		default:
			return mutate(r, d)
		}
	}
	return d
}

func randDevices(r *hx.R, n int, pBad float64) []string {
	ds := make([]string, n)
	for i := range ds {
		ds[i] = randDevice(r, !r.Chance(pBad))
	}
	return ds
}

func genC15(r *hx.R, tier string, _ string) (*hx.Suite, error) {
	s := &hx.Suite{
		Property: "C15",
		Imports:  []string{"Base", "Parser", "Annotations", "Judge15"},
		CaseType: "case15",
		Judge:    "judge15",
		Shard:    300,
		Rule: "AnnotationKey over plugin/device-id pairs with total key-name length 58..67, every character class (19 representatives incl. ':', '/', non-ASCII) " +
			"at first/middle/last position of plugin and id, every byte value in the middle of plugin and id, first in the plugin, last in the id; " +
			"AnnotationValue over device lists with 0..4 (sometimes 5..30) entries, repeated entries, bad names at every index; " +
			"UpdateAnnotations over nil/empty/foreign/CDI/conflicting initial maps, maps holding near misses of the key (other case, longer, shorter, unreplaced slash), " +
			"and histories (the result updated again with the same and with another id, the same request on a fresh copy); keys which only resemble CDI keys;  ParseAnnotations over maps with 0..3 CDI keys and foreign keys, " +
			"bad names at every index; the internal k8s matcher on generated keys and mutations. Non-trivial: key cases with non-empty plugin and id, " +
			"value cases with devices, update cases that succeed or start from a non-empty map, parse cases with a CDI key; distinct by input.",
	}
	// corpus
	s.Add(c15Parse(map[string]string{"cdi.k8s.io/x": "v.com/c=d"}, "corpus"))
	s.Add(c15Parse(map[string]string{"cdi.k8s.io/x": "vendor.com/class=dev1,dev2"}, "corpus"))
	s.Add(c15Key("vendor.com-gpu", "0000:3b:00.0", "corpus"))
	s.Add(c15Key("a", "b", "corpus"))
	s.Add(c15Parse(nil, "corpus"))
	// keys: lengths around the limit
	for total := 58; total <= 67; total++ {
		for _, pl := range []int{1, 2, 10, total - 2} {
			idl := total - 1 - pl
			if pl < 1 || idl < 1 {
				continue
			}
			s.Add(c15Key(strings.Repeat("p", pl), strings.Repeat("d", idl), "key-length"))
			s.Add(c15Key("P"+strings.Repeat(".", pl-1), strings.Repeat("/", idl-1)+"9", "key-length"))
		}
	}
	// keys: every character class at every position
	for _, x := range c15Chars {
		for _, shape := range []string{"X", "Xb", "aXb", "aX"} {
			part := strings.ReplaceAll(shape, "X", x)
			s.Add(c15Key(part, "id0", "key-chars"))
			s.Add(c15Key("plug.in", part, "key-chars"))
			s.Add(c15K8s(strings.ToLower("cdi.k8s.io/" + part + "_x")))
			s.Add(c15K8s(part))
			s.Add(c15K8s(part + "/" + part))
		}
	}
	// every byte value in the middle of the plugin name and of the device id, first in the plugin, last in the id
	for b := 0; b < 256; b++ {
		x := string([]byte{byte(b)})
		s.Add(c15Key("a"+x+"b", "id0", "key-bytes"))
		s.Add(c15Key("plug.in", "a"+x+"b", "key-bytes"))
		s.Add(c15Key(x+"b", "id0", "key-bytes"))
		s.Add(c15Key("plug.in", "a"+x, "key-bytes"))
	}
	s.Add(c15Key("", "x", "key-chars"))
	s.Add(c15Key("x", "", "key-chars"))
	s.Add(c15Key("", "", "key-chars"))
	for _, q := range []string{"", "/", "a/b/c", "a//b", "A.b/c", "a.b/C", "-a/b", "a-/b", "a..b/c", "a.b./c", strings.Repeat("a", 253) + "/b", strings.Repeat("a", 254) + "/b",
		strings.Repeat("a.", 126) + "a/b", "a/" + strings.Repeat("b", 63), "a/" + strings.Repeat("b", 64), strings.Repeat("b", 63), strings.Repeat("b", 64), "a/b\n", "a\n/b"} {
		s.Add(c15K8s(q))
	}
	n := 150
	if tier == "thorough" {
		n = 1500
	}
	for i := 0; i < n; i++ {
		pl, id := randPart(r, true), randPart(r, true)
		if r.Chance(0.3) {
			id = strings.ReplaceAll(id, ".", "/")
		}
		if r.Chance(0.25) {
			pl = mutate(r, pl)
		}
		if r.Chance(0.25) {
			id = mutate(r, id)
		}
		s.Add(c15Key(pl, id, "key-random"))
		// values
		nd := r.Intn(5)
		pBad := 0.0
		if r.Chance(0.4) {
			pBad = 0.4
		}
		if r.Chance(0.1) {
			nd = 5 + r.Intn(26)
		}
		ds := randDevices(r, nd, pBad)
		if nd > 1 && r.Chance(0.3) {
			// the same device asked for twice (next to each other or not): both stay
			ds[r.Intn(nd)] = ds[r.Intn(nd)]
		}
		s.Add(c15Val(ds))
		// update
		var m map[string]string
		switch r.Intn(5) {
		case 0:
			m = nil
		case 1:
			m = map[string]string{}
		case 2:
			m = map[string]string{"foo": "bar", "example.com/x": "y,z"}
		case 3:
			m = map[string]string{"cdi.k8s.io/other_1": "v.com/c=d", "zzz": ""}
		default:
			// conflicting key
			k, err := cdi.AnnotationKey(pl, id)
			m = map[string]string{"a": "b"}
			if err == nil {
				// a used key is used whatever it holds: a device list, nothing at all, blanks, something else
				m[k] = hx.Pick(r, []string{"vendor.com/class=old", "", "vendor.com/class=old", " ", "x", ","})
			}
		}
		if k, err := cdi.AnnotationKey(pl, id); err == nil && r.Chance(0.4) {
			// neighbours of the key which are NOT the key: other case, longer, shorter, the id with its slashes, a blank
			if m == nil {
				m = map[string]string{}
			}
			near := []string{strings.ToUpper(k), strings.ToLower(k), "cdi.k8s.io/" + strings.ToUpper(k[len("cdi.k8s.io/"):]), k + "x", k[:len(k)-1], k + " ", " " + k,
				"cdi.k8s.io/" + pl + "_" + id, "cdi.k8s.io/" + pl + "/" + id, k[len("cdi.k8s.io/"):], strings.Replace(k, "_", "-", 1)}
			for j, nn := 0, 1+r.Intn(3); j < nn; j++ {
				if x := hx.Pick(r, near); x != k {
					m[x] = hx.Pick(r, []string{"vendor.com/class=near", "", "x"})
				}
			}
		}
		s.Add(c15Upd(m, pl, id, ds, "update"))
		if r.Chance(0.5) {
			// histories: the result of a successful update is updated again - the same plugin and id are refused, another id
			// is added next to the first; and the same request on a fresh copy of the first map succeeds again
			var m1 map[string]string
			var e1 error
			if p, _ := hx.Guard(func() { m1, e1 = cdi.UpdateAnnotations(copyMap(m), pl, id, ds) }); !p && e1 == nil {
				ds2 := randDevices(r, 1+r.Intn(3), 0)
				s.Add(c15Upd(copyMap(m1), pl, id, ds2, "update-again"))
				s.Add(c15Upd(copyMap(m1), pl, id+"x", ds2, "update-again"))
				s.Add(c15Upd(copyMap(m), pl, id, ds2, "update-again"))
			}
		}
		// parse
		pm := map[string]string{}
		nk := r.Intn(4)
		for j := 0; j < nk; j++ {
			nd := 1 + r.Intn(4)
			ds := randDevices(r, nd, 0)
			if r.Chance(0.35) {
				ds[r.Intn(nd)] = randDevice(r, false)
			}
			pm["cdi.k8s.io/"+randPart(r, true)] = strings.Join(ds, ",")
		}
		if r.Chance(0.6) {
			pm["foreign.io/"+randPart(r, true)] = hx.Pick(r, []string{"", "not a device", "v.com/c=d", ",,,"})
		}
		if r.Chance(0.1) {
			pm["cdi.k8s.io/empty"] = ""
		}
		if r.Chance(0.25) {
			// white space around an otherwise well-formed value, or around one of its names: not a qualified name
			v := "vendor.com/class=dev0,vendor.com/class=dev1"
			pm["cdi.k8s.io/ws_"+randPart(r, true)] = hx.Pick(r, []string{" " + v, v + " ", v + "\n", "\t" + v, strings.Replace(v, ",", ", ", 1), strings.Replace(v, ",", " ,", 1), " ", "\n", v + "\r\n"})
		}
		if r.Chance(0.1) {
			pm["cdi.k8s.io"] = "unqualified"
			pm["CDI.K8S.IO/x"] = "unqualified"
		}
		if r.Chance(0.3) {
			// keys that only resemble CDI keys (foreign: whatever they hold is ignored) and odd keys that ARE CDI keys
			for j, nn := 0, 1+r.Intn(2); j < nn; j++ {
				k := hx.Pick(r, []string{"xcdi.k8s.io/x", "example.com/cdi.k8s.io/x", " cdi.k8s.io/x", "cdi.k8s.io.evil/x", "cdi.k8s.io", "cdi.k8s.i", "Cdi.k8s.io/x", "cdi.k8s.io\\x", "cdi-k8s.io/x", "k8s.io/x", "/cdi.k8s.io/x",
					"cdi.k8s.io/", "cdi.k8s.io//x", "cdi.k8s.io/x/y", "cdi.k8s.io/ x", "cdi.k8s.io/cdi.k8s.io/x"})
				pm[k] = hx.Pick(r, []string{"unqualified", "vendor.com/class=dev0", "vendor.com/class=dev0,vendor.com/class=dev1", ""})
			}
		}
		if r.Chance(0.1) {
			// a long request, the same device more than once
			ds := randDevices(r, 9+r.Intn(30), 0)
			ds[len(ds)-1] = ds[0]
			ds[len(ds)/2] = ds[len(ds)/2-1]
			if r.Chance(0.3) {
				ds[r.Intn(len(ds))] = randDevice(r, false)
			}
			pm["cdi.k8s.io/long_"+randPart(r, true)] = strings.Join(ds, ",")
		}
		s.Add(c15Parse(pm, "parse"))
		// full round trip: update then parse
		var m2 map[string]string
		var uerr error
		if p, _ := hx.Guard(func() { m2, uerr = cdi.UpdateAnnotations(copyMap(m), pl, id, ds) }); !p && uerr == nil {
			s.Add(c15Parse(m2, "update-then-parse"))
		}
	}
	return s, nil
}
