package main

import (
	"strings"

	"tags.cncf.io/container-device-interface/pkg/parser"
	"verif/harness/hx"
)

func init() { registry["C07"] = genC07 }

type obs07 struct {
	Input string `json:"input"`
	PQN   string `json:"ParseQualifiedName"`
	IsQ   string `json:"IsQualifiedName"`
}

func optBool(panicked bool, b bool) string { return hx.Opt(hx.B(b), !panicked) }

func triple(a, b, c string) string { return hx.P(hx.S(a), hx.S(b), hx.S(c)) }

func c07Str(s string, class string) hx.Case {
	var (
		v, c, n    string
		err        error
		isq        bool
		dv, dc, dn string
		qv, qc     string
		ev, ec, ed error
	)
	p1, _ := hx.Guard(func() { v, c, n, err = parser.ParseQualifiedName(s) })
	p2, _ := hx.Guard(func() { isq = parser.IsQualifiedName(s) })
	p3, _ := hx.Guard(func() { dv, dc, dn = parser.ParseDevice(s) })
	p4, _ := hx.Guard(func() { qv, qc = parser.ParseQualifier(s) })
	p5, _ := hx.Guard(func() { ev = parser.ValidateVendorName(s) })
	p6, _ := hx.Guard(func() { ec = parser.ValidateClassName(s) })
	p7, _ := hx.Guard(func() { ed = parser.ValidateDeviceName(s) })
	term := hx.C("CStr", hx.S(s), hx.C("mkObs07",
		hx.Opt(hx.P(triple(v, c, n), hx.B(err != nil)), !p1),
		optBool(p2, isq),
		hx.Opt(triple(dv, dc, dn), !p3),
		hx.Opt(hx.P(hx.S(qv), hx.S(qc)), !p4),
		optBool(p5, ev != nil), optBool(p6, ec != nil), optBool(p7, ed != nil)))
	pq := hx.JS(v) + "," + hx.JS(c) + "," + hx.JS(n)
	if err != nil {
		pq += ",err"
	}
	if p1 {
		pq = "PANIC"
	}
	return hx.Case{
		Term:       term,
		Desc:       obs07{Input: hx.JS(s), PQN: pq, IsQ: optBool(p2, isq)},
		Key:        "s:" + s,
		Nontrivial: dv != "" || ev == nil || ed == nil, // reached the validators, or is itself a valid part
		Class:      class,
	}
}

func c07Triple(v, c, n string) hx.Case {
	var q string
	p, _ := hx.Guard(func() { q = parser.QualifiedName(v, c, n) })
	return hx.Case{
		Term:       hx.C("CTriple", hx.S(v), hx.S(c), hx.S(n), hx.Opt(hx.S(q), !p)),
		Desc:       map[string]string{"vendor": hx.JS(v), "class": hx.JS(c), "name": hx.JS(n), "QualifiedName": hx.JS(q)},
		Key:        "t:" + v + "\x00" + c + "\x00" + n,
		Nontrivial: true,
		Class:      "compose",
	}
}

// alphabet for exhaustive short strings: one representative per character class, the separators,
// and bytes / runes outside ASCII (a lone UTF-8 lead byte, NUL, a two-byte letter, a non-ASCII digit)
var c07Alphabet = []string{"a", "Z", "0", "_", "-", ".", ":", "/", "=", " ", "\xc3", "\x00"}
var c07Odd = []string{"é", "٣", "\xe9", "ß", "Ⅷ", "ª", "²", "😀", "\n", "\t", ",", "+", "*", "@", "[", "`", "{", "\x7f", "\x80", "\xff"}

func randPart(r *hx.R, devname bool) string {
	first := "abcxyzABCXYZ"
	if devname {
		first += "0123456789"
	}
	mid := "abcxyzABC0189_-."
	if devname {
		mid += ":"
	}
	last := "abcxyzABC0189"
	n := r.Intn(12)
	var b strings.Builder
	b.WriteByte(first[r.Intn(len(first))])
	if n == 0 {
		return b.String()
	}
	for i := 0; i < n-1; i++ {
		b.WriteByte(mid[r.Intn(len(mid))])
	}
	b.WriteByte(last[r.Intn(len(last))])
	return b.String()
}

func mutate(r *hx.R, s string) string {
	if s == "" {
		return hx.Pick(r, c07Odd)
	}
	i := r.Intn(len(s) + 1)
	switch r.Intn(4) {
	case 0: // insert
		x := hx.Pick(r, append(append([]string{}, c07Alphabet...), c07Odd...))
		return s[:i] + x + s[i:]
	case 1: // delete
		if i == len(s) {
			i--
		}
		return s[:i] + s[i+1:]
	case 2: // replace
		if i == len(s) {
			i--
		}
		x := hx.Pick(r, append(append([]string{}, c07Alphabet...), c07Odd...))
		return s[:i] + x + s[i+1:]
	default: // duplicate a separator
		return strings.Replace(s, "=", "==", 1)
	}
}

func genC07(r *hx.R, tier string, _ string) (*hx.Suite, error) {
	s := &hx.Suite{
		Property: "C07",
		Imports:  []string{"Base", "Parser", "Judge07"},
		CaseType: "case07",
		Judge:    "judge07",
		Shard:    400,
		Rule: "exhaustive strings up to length L over a 12-symbol alphabet (one per character class, separators, non-ASCII/NUL); " +
			"every byte value 0..255 and a set of multi-byte runes at first/middle/last/only position of each of the three parts; " +
			"parts of 13 .. 1024 characters (13, 32, 63-65, 128, 129, 255-257, 1024), valid and with an offending character second / middle / second to last; " +
			"random grammar-derived names with 0-2 mutations; random triples through QualifiedName. " +
			"A string case is non-trivial when ParseDevice found a vendor (the validators were reached) or the string is itself a valid vendor/class/device name; distinct by input string.",
	}
	// corpus: past failures and hand-picked witnesses first
	for _, w := range []string{"a/b=c", "a/b", "v.com/c=d", "a", "", "/", "=", "/=", "a/=b", "a/b=", "/a/b=c", "a=b/c=d", "a/b/c=d", "a/b=c=d",
		"vendor.com/class=dev", "vendor.com/class=-dev", "vendor.com/class=dev-", "vendor.com/class=dév", "vendör.com/class=dev",
		"\xe9/b=c", "a/b=1\xe9", "vendor.com/class=gpu٣x", "vendor.com/cl:ass=dev", "vendor.com/class=d:e:v", "1a/b=c", "a/1b=c", "a/b=1"} {
		s.Add(c07Str(w, "corpus"))
	}
	// exhaustive short strings
	maxLen := 3
	if tier == "thorough" {
		maxLen = 4
	}
	var rec func(prefix string, depth int)
	rec = func(prefix string, depth int) {
		s.Add(c07Str(prefix, "exhaustive"))
		if depth == maxLen {
			return
		}
		for _, a := range c07Alphabet {
			rec(prefix+a, depth+1)
		}
	}
	rec("", 0)
	// every byte / odd rune at each position of each part
	var xs []string
	for b := 0; b < 256; b++ {
		xs = append(xs, string([]byte{byte(b)}))
	}
	xs = append(xs, c07Odd...)
	// multi-byte runes that alias an allowed ASCII character when truncated to 8 or 7 bits, and the fullwidth forms
	for _, b := range []rune{'a', 'Z', '0', '_', '-', '.', ':'} {
		for _, base := range []rune{0x100, 0x2000, 0x1F500, 0xFEE0, 0x80} {
			xs = append(xs, string(base+b))
		}
	}
	for _, x := range xs {
		for _, shape := range []string{"X", "Xb", "aXb", "aX", "aXXb"} {
			part := strings.ReplaceAll(shape, "X", x)
			s.Add(c07Str(part+"/cl=dev", "sweep-vendor"))
			s.Add(c07Str("ven/"+part+"=dev", "sweep-class"))
			s.Add(c07Str("ven/cl="+part, "sweep-name"))
			if tier == "thorough" || shape == "aXb" || shape == "X" {
				s.Add(c07Str(part, "sweep-part"))
			}
		}
	}
	// long parts: the grammar has no length limit; an offending character second, in the middle, second to last
	lens := []int{13, 32, 63, 64, 65, 128, 129, 255, 256, 257, 1024}
	if tier == "thorough" {
		lens = append(lens, 2048, 4097)
	}
	for _, n := range lens {
		body := strings.Repeat("abcdefghijklmnopqrstuvwxyz0123456789_-.", n/39+1)
		good := "a" + body[:n-2] + "z"
		s.Add(c07Str(good+"/cl=dev", "long-vendor"))
		s.Add(c07Str("ven/"+good+"=dev", "long-class"))
		s.Add(c07Str("ven/cl="+good, "long-name"))
		s.Add(c07Str(good+"/"+good+"="+good, "long-all"))
		s.Add(c07Str(good, "long-part"))
		for _, pos := range []int{1, n / 2, n - 2} {
			bad := good[:pos] + hx.Pick(r, []string{"!", ":", " ", "\xc3\xa9"}) + good[pos+1:]
			s.Add(c07Str(bad+"/cl=dev", "long-vendor"))
			s.Add(c07Str("ven/"+bad+"=dev", "long-class"))
			s.Add(c07Str("ven/cl="+bad, "long-name"))
			s.Add(c07Str(bad, "long-part"))
		}
		if n <= 257 {
			s.Add(c07Triple(good, good, good))
		}
	}
	// the whole name around and beyond the sizes where a buffer or a "reasonable maximum" would sit (valid names only)
	for _, total := range []int{4095, 4096, 4097, 8192, 12000} {
		body := strings.Repeat("abcdefghijklmnopqrstuvwxyz0123456789_-.", total/39+1)
		for k, split := range [][3]int{{1, 1, total - 4}, {total - 4, 1, 1}, {1, total - 4, 1}, {total / 3, total / 3, total - 2 - 2*(total/3)}} {
			if tier != "thorough" && k != (total+k)%4 && total != 4096 {
				continue
			}
			part := func(n int) string {
				if n <= 1 {
					return "a"
				}
				return "a" + body[:n-2] + "z"
			}
			s.Add(c07Str(part(split[0])+"/"+part(split[1])+"="+part(split[2]), "long-whole-name"))
		}
	}
	// random grammar-derived names, mutated
	nRand := 400
	if tier == "thorough" {
		nRand = 4000
	}
	for i := 0; i < nRand; i++ {
		v, c, n := randPart(r, false), randPart(r, false), randPart(r, true)
		q := v + "/" + c + "=" + n
		for k := r.Intn(3); k > 0; k-- {
			q = mutate(r, q)
		}
		s.Add(c07Str(q, "random"))
		if i%4 == 0 {
			s.Add(c07Triple(v, c, n))
			s.Add(c07Str(parser.QualifiedName(v, c, n), "composed"))
		}
		if i%16 == 0 {
			s.Add(c07Triple(mutate(r, v), c, mutate(r, n)))
		}
	}
	return s, nil
}
