package main

// C17 — the builtin schema validator decides exactly what the shipped schema files say.
// Documents (valid Specs; members removed at every level; wrong member types at every level; out-of-range and
// non-integral numbers; extra members; odd annotation maps; null entries; odd top levels), each as JSON and as
// block-style YAML, through every entry point of package schema, under the builtin schema, the none schema, a nil
// schema and variant schemas written to disk, translated by tools/gen_schema.py and loaded with schema.Load(path).

import (
	"bytes"
	"encoding/json"
	"fmt"
	"os"
	"os/exec"
	"io"
	"path/filepath"
	"strings"
	"testing/iotest"

	"sigs.k8s.io/yaml"

	"tags.cncf.io/container-device-interface/schema"
	specs "tags.cncf.io/container-device-interface/specs-go"
	"verif/harness/hx"
)

func init() { registry["C17"] = genC17 }

func useNumber17(d *json.Decoder) *json.Decoder {
	d.UseNumber()
	return d
}

// yamlDenotes reports whether the YAML text, read the way sigs.k8s.io/yaml reads it (numbers kept exact), denotes
// the document d.  The YAML text layer is not modelled; documents it cannot carry take the JSON routes only.
func yamlDenotes(y []byte, d *Doc) bool {
	var v interface{}
	if err := yaml.Unmarshal(y, &v, useNumber17); err != nil {
		return false
	}
	j, err := json.Marshal(v)
	if err != nil {
		return false
	}
	back, err := docFromJSON(j)
	if err != nil {
		return false
	}
	return back.canon() == d.canon()
}

type cfg17 struct {
	name   string // for descriptions
	term   string // Gallina term of type cfg17
	load   func() (*schema.Schema, error)
	kind   string // builtin | variant | none | nil
	cached *schema.Schema
	ok     bool
}

func (c *cfg17) get() (*schema.Schema, error) {
	if c.ok {
		return c.cached, nil
	}
	s, err := c.load()
	if err != nil {
		return nil, err
	}
	c.cached, c.ok = s, true
	return s, nil
}

func verdict17(f func() error) int {
	var err error
	p, _ := hx.Guard(func() { err = f() })
	switch {
	case p:
		return 2
	case err != nil:
		return 1
	}
	return 0
}

var epNames17 = []string{"ValidateData(JSON)", "ValidateData(YAML)", "ValidateFile(x.json)", "ValidateFile(x.yaml)",
	"ValidateFile(a name not ending in .json, holding JSON)", "ValidateReader(JSON)", "ReadAndValidate(JSON)", "ValidateType(decoded tree)",
	"schema.Set + package-level ValidateData(JSON) / ValidateFile(not .json)", "Validate(spec)",
	"ValidateFile(.json under an unusual path)", "ValidateData(flow-style YAML)",
	"schema.Set + package-level ValidateReader / ReadAndValidate / ValidateFile(x.json) / ValidateType"}

// DEFECT-PENDING(json-path-url): ValidateFile hands "file://"+path to the schema library as a URL reference; a '#', '+' or %xx in
// the path of a .json file makes it open another (or no) file.  notes/audit/DEFECT-C17-json-path-url.md.  Off: such paths are not generated.
const defectPendingJSONPathURL = true // repaired: D21

// DEFECT-PENDING(flow-yaml): ValidateData takes every text starting with '{' for JSON; a YAML flow mapping is refused by every
// real schema.  notes/audit/DEFECT-C17-flow-yaml.md.  Off: the flow-style route is not run.
const defectPendingFlowYAML = true // repaired: D22

// names for the file that holds JSON under a name not ending in ".json" (the extension test is exact and case-sensitive)
var otherNames17 = []string{"doc.txt", "DOC.JSON", "doc", "doc.yml", "doc.json.bak", "doc.Json", "doc.json ", ".json.d"}

// unusual but legal paths of a .json file
var oddJSONPaths17 = []string{"with blank/a b.json", "ünï/dôc.json", "q?x/doc?.json", "DOTDOT", "=&;/a=b&c;d.json", "REL"}
var oddJSONPathsPending17 = []string{"c++/doc.json", "hash#1/doc.json", "pct%41/doc.json", "doc#frag.json", "100%25.json", "a+b.json"}

// flowYAML17 renders an object document as a YAML flow mapping which is not JSON.
func flowYAML17(d *Doc, style int) []byte {
	jb := d.JSON(false)
	if d.K != sdObj || len(d.O) == 0 || len(jb) < 2 || jb[0] != '{' {
		return nil
	}
	k := d.O[0].K
	if style%2 == 0 && !strings.ContainsAny(k, "'\\\"\n") && k != "" && strings.HasPrefix(string(jb), "{"+jsonQuote17(k)+":") {
		return append([]byte("{'"+k+"': "), jb[len("{"+jsonQuote17(k)+":"):]...)
	}
	return append(append([]byte{}, jb[:len(jb)-1]...), []byte(",}")...)
}

func jsonQuote17(s string) string {
	b, _ := json.Marshal(s)
	return string(b)
}

var verdictNames17 = []string{"accept", "reject", "PANIC", "not run", "returned bytes differ from input"}

type run17 struct {
	padded   int
	r        *hx.R
	scratch  string
	n        int
	yamlSkip int
	accepts  []int // per entry point
	rejects  []int
}

// observe runs every entry point on the document under the configuration.
func (x *run17) observe(c *cfg17, d *Doc, spec *specs.Spec) ([]int, map[string]interface{}, error) {
	s, err := c.get()
	if err != nil {
		return nil, nil, fmt.Errorf("cannot load schema %s: %v", c.name, err)
	}
	pretty := x.r.Chance(0.3)
	plain := x.r.Chance(0.5)
	jb := d.JSON(pretty)
	yb := d.YAML(plain)
	yamlOK := yamlDenotes(yb, d)
	if d.K == sdObj && len(d.O) == 0 {
		yamlOK = true // "{}" is what a block-style writer emits; ValidateData takes the JSON branch for it
	}
	x.n++
	if x.n%89 == 7 && d.K == sdObj && len(d.O) > 0 && len(jb) > 0 && jb[0] == '{' {
		// the same document as a text of more than a megabyte: insignificant white space in the JSON text, comment lines in the
		// YAML text (size must not matter to any entry point, in particular not to the ones that read from a stream)
		pad := bytes.Repeat([]byte("          \n"), 120000)
		jb = append(append([]byte("{"), pad...), jb[1:]...)
		yb = append(bytes.Repeat([]byte("# padding padding padding padding\n"), 40000), yb...)
		x.padded++
	}
	dir := filepath.Join(x.scratch, fmt.Sprintf("c17-%d", x.n%8))
	_ = os.MkdirAll(dir, 0o755)
	pj, py, pt := filepath.Join(dir, "doc.json"), filepath.Join(dir, "doc.yaml"), filepath.Join(dir, otherNames17[x.n%len(otherNames17)])
	_ = os.WriteFile(pj, jb, 0o644)
	_ = os.WriteFile(py, yb, 0o644)
	_ = os.WriteFile(pt, jb, 0o644)
	// the .json file again under an unusual path
	odd := oddJSONPaths17
	if defectPendingJSONPathURL {
		odd = append(append([]string{}, odd...), oddJSONPathsPending17...)
	}
	po := filepath.Join(dir, odd[x.n%len(odd)])
	if strings.HasSuffix(po, "REL") { // a relative path to the plain file
		po = pj
		if wd, err := os.Getwd(); err == nil {
			if rel, err := filepath.Rel(wd, pj); err == nil {
				po = rel
			}
		}
	} else if strings.HasSuffix(po, "DOTDOT") { // a path that is not clean
		_ = os.MkdirAll(filepath.Join(dir, "sub"), 0o755)
		po = dir + "/sub/..//./doc.json"
	} else {
		_ = os.MkdirAll(filepath.Dir(po), 0o755)
		_ = os.WriteFile(po, jb, 0o644)
	}
	obs := make([]int, 13)
	obs[0] = verdict17(func() error { return s.ValidateData(jb) })
	obs[1], obs[3] = 3, 3
	if yamlOK {
		obs[1] = verdict17(func() error { return s.ValidateData(yb) })
		obs[3] = verdict17(func() error { return s.ValidateFile(py) })
	}
	obs[2] = verdict17(func() error { return s.ValidateFile(pj) })
	obs[4] = verdict17(func() error { return s.ValidateFile(pt) })
	// the stream entry points get their data in one piece, byte by byte, in halves, or with the error arriving together with the last piece
	reader := func(k int) io.Reader {
		var rd io.Reader = bytes.NewReader(jb)
		switch k % 4 {
		case 1:
			rd = iotest.OneByteReader(rd)
		case 2:
			rd = iotest.DataErrReader(rd)
		case 3:
			rd = iotest.HalfReader(rd)
		}
		return rd
	}
	obs[5] = verdict17(func() error { return s.ValidateReader(reader(x.n)) })
	var back []byte
	obs[6] = verdict17(func() error {
		var err error
		back, err = s.ReadAndValidate(reader(x.n + 1))
		return err
	})
	if obs[6] != 2 && !bytes.Equal(back, jb) {
		obs[6] = 4
	}
	obs[7] = verdict17(func() error { return s.ValidateType(d.generic()) })
	prev := schema.Get()
	schema.Set(s)
	if x.n%2 == 0 {
		obs[8] = verdict17(func() error { return schema.ValidateData(jb) })
	} else {
		obs[8] = verdict17(func() error { return schema.ValidateFile(pt) })
	}
	switch x.n % 4 {
	case 0:
		obs[12] = verdict17(func() error { return schema.ValidateReader(reader(x.n + 2)) })
	case 1:
		obs[12] = verdict17(func() error { _, err := schema.ReadAndValidate(reader(x.n + 2)); return err })
	case 2:
		obs[12] = verdict17(func() error { return schema.ValidateFile(pj) })
	default:
		obs[12] = verdict17(func() error { return schema.ValidateType(d.generic()) })
	}
	if schema.Get() != s {
		obs[12] = 4 // Get does not return what Set was given
	}
	schema.Set(prev)
	obs[10] = verdict17(func() error { return s.ValidateFile(po) })
	obs[11] = 3
	if fy := flowYAML17(d, x.n); defectPendingFlowYAML && fy != nil && yamlDenotes(fy, d) {
		obs[11] = verdict17(func() error { return s.ValidateData(fy) })
	}
	obs[9] = 3
	if spec != nil {
		obs[9] = verdict17(func() error { return s.Validate(spec) })
	}
	verdicts := map[string]interface{}{}
	if !yamlOK {
		x.yamlSkip++
	}
	if x.accepts == nil {
		x.accepts, x.rejects = make([]int, len(obs)), make([]int, len(obs))
	}
	for i, o := range obs {
		verdicts[epNames17[i]] = verdictNames17[o]
		if o == 0 {
			x.accepts[i]++
		} else if o == 1 {
			x.rejects[i]++
		}
	}
	trunc := func(b []byte) string {
		if len(b) > 3000 {
			return string(b[:1500]) + fmt.Sprintf(" ...(%d bytes in all)... ", len(b)) + string(b[len(b)-300:])
		}
		return string(b)
	}
	desc := map[string]interface{}{"schema": c.name, "json": trunc(jb), "yaml": trunc(yb), "verdicts": verdicts}
	return obs, desc, nil
}

func (x *run17) mkCase(c *cfg17, d *Doc, spec *specs.Spec, class string, nontrivial bool) (hx.Case, error) {
	obs, desc, err := x.observe(c, d, spec)
	if err != nil {
		return hx.Case{}, err
	}
	items := make([]string, len(obs))
	for i, o := range obs {
		items[i] = hx.Nat(o)
	}
	return hx.Case{
		Term:       hx.C("C17", c.term, d.Term(), hx.L(items)),
		Desc:       desc,
		Key:        c.term + "|" + d.canon(),
		Class:      class + "/" + c.kind,
		Nontrivial: nontrivial,
	}, nil
}

// ---------- documents ----------

func u32p(v uint32) *uint32 { return &v }
func intp(v int) *int       { return &v }
func fmp(v os.FileMode) *os.FileMode {
	return &v
}

// fullSpec17 has every member of every struct present.
func fullSpec17() *specs.Spec {
	edits := func() specs.ContainerEdits {
		return specs.ContainerEdits{
			Env: []string{"A=b", "C=d"},
			DeviceNodes: []*specs.DeviceNode{{Path: "/dev/x", HostPath: "/dev/hx", Type: "c", Major: 10, Minor: 20,
				FileMode: fmp(0o640), Permissions: "rw", UID: u32p(1000), GID: u32p(1001)}},
			Hooks: []*specs.Hook{{HookName: "createContainer", Path: "/bin/hook", Args: []string{"hook", "arg"},
				Env: []string{"X=y"}, Timeout: intp(5)}},
			Mounts:         []*specs.Mount{{HostPath: "/host", ContainerPath: "/ctr", Options: []string{"ro", "bind"}, Type: "bind"}},
			IntelRdt:       &specs.IntelRdt{ClosID: "clos", L3CacheSchema: "L3:0=f", MemBwSchema: "MB:0=50", EnableCMT: true, EnableMBM: true},
			AdditionalGIDs: []uint32{5, 6},
		}
	}
	return &specs.Spec{
		Version: "1.0.0", Kind: "vendor.com/class", Annotations: map[string]string{"vendor.com/note": "n", "plain": "p"},
		Devices:        []specs.Device{{Name: "dev0", Annotations: map[string]string{"a.b/c": "d"}, ContainerEdits: edits()}},
		ContainerEdits: edits(),
	}
}

func specDoc(s *specs.Spec) *Doc {
	b, err := json.Marshal(s)
	if err != nil {
		panic(err)
	}
	d, err := docFromJSON(b)
	if err != nil {
		panic(err)
	}
	return d
}

var interestingNumbers = []string{
	"0", "1", "-1", "5", "255", "65535", "65536", "4294967295", "4294967296", "-4294967296", "2147483648",
	"9223372036854775807", "9223372036854775808", "-9223372036854775808", "-9223372036854775809",
	"18446744073709551615", "18446744073709551616", "100000000000000000000",
	"1.0", "1e3", "1E3", "1e0", "-0", "0.0", "4294967295.0", "4294967296.0", "4.294967295e9", "4.294967296e9",
	"9.223372036854775807e18", "-9.223372036854775808e18", "9.223372036854775808e18",
	"0.5", "1.5", "-0.5", "-1.5", "4294967295.5", "4294967294.5", "1e-3", "12.25", "1.5e1", "15e-1",
}

var oddKeys = []string{
	"", " ", "a b", "a", "A", "a.b/c", "A.b/c", "vendor.com/name", "vendor.com/", "/name", "a/b/c", "-a", "a-", "a_b.c-d",
	"\n", "\n\n", "a\nb", "\na", "\t", "kéy", "é", "İ", "K", "İİ", "Key", "UPPER.Case/Name",
	"example.com/" + strings.Repeat("n", 63), "example.com/" + strings.Repeat("n", 64), strings.Repeat("n", 64),
	strings.Repeat("a", 253) + "/n", strings.Repeat("a", 254) + "/n", "a..b/c", "a_b/c", "1/2", "x.y.z/w_v-u.t",
	"日本", "\U0001f600", " x", "x\rx", "0", "true", "null", "~", "yes", "{", "[", "#", "k: v", "- x", "'q'", "\"q\"",
}

func pickValue17(r *hx.R) *Doc {
	switch r.Intn(9) {
	case 0:
		return sdnull()
	case 1:
		return sdbool(r.Chance(0.5))
	case 2:
		return sdstr(hx.Pick(r, []string{"", "x", "1", "true", "null", "/dev/x", "A=b", "é", "a\nb", " lead", "yes", "0x10"}))
	case 3, 4:
		return sdnum(hx.Pick(r, interestingNumbers))
	case 5:
		return sdarr()
	case 6:
		return sdobj()
	case 7:
		return sdarr(sdstr("x"), sdnum("1"))
	}
	return sdobj(mem("k", sdstr("v")))
}

// wrongKinds: one value of every kind other than the node's own (integers and fractions count as different kinds).
func wrongKinds(n *Doc) []*Doc {
	all := []*Doc{sdnull(), sdbool(true), sdstr("x"), sdnum("1"), sdnum("1.5"), sdarr(), sdobj()}
	var out []*Doc
	for _, v := range all {
		if v.K == n.K && (v.K != sdNum || v.Num.IsInt() == n.Num.IsInt()) {
			continue
		}
		out = append(out, v)
	}
	return out
}

type nodeRef struct {
	parent *Doc
	idx    int
	path   string
}

// nodes lists every non-root node of the document with a readable path.
func nodes17(d *Doc) []nodeRef {
	var out []nodeRef
	var rec func(n *Doc, path string)
	rec = func(n *Doc, path string) {
		switch n.K {
		case sdArr:
			for i, x := range n.A {
				p := fmt.Sprintf("%s[%d]", path, i)
				out = append(out, nodeRef{n, i, p})
				rec(x, p)
			}
		case sdObj:
			for i, m := range n.O {
				p := path + "." + m.K
				out = append(out, nodeRef{n, i, p})
				rec(m.V, p)
			}
		}
	}
	rec(d, "")
	return out
}

func (nr nodeRef) node() *Doc {
	if nr.parent.K == sdArr {
		return nr.parent.A[nr.idx]
	}
	return nr.parent.O[nr.idx].V
}

func (nr nodeRef) replace(v *Doc) {
	if nr.parent.K == sdArr {
		nr.parent.A[nr.idx] = v
	} else {
		nr.parent.O[nr.idx].V = v
	}
}

func (nr nodeRef) remove() {
	if nr.parent.K == sdArr {
		nr.parent.A = append(append([]*Doc{}, nr.parent.A[:nr.idx]...), nr.parent.A[nr.idx+1:]...)
	} else {
		nr.parent.O = append(append([]Member{}, nr.parent.O[:nr.idx]...), nr.parent.O[nr.idx+1:]...)
	}
}

// mutateAt clones d and applies f to the k-th node of the clone.
func mutateAt(d *Doc, k int, f func(nr nodeRef)) (*Doc, string) {
	c := d.clone()
	ns := nodes17(c)
	f(ns[k])
	return c, ns[k].path
}

func annotDoc(keys []string, vals []*Doc) *Doc {
	o := sdobj()
	seen := map[string]bool{}
	for i, k := range keys {
		if seen[k] {
			continue
		}
		seen[k] = true
		o.O = append(o.O, Member{k, vals[i]})
	}
	return o
}

func randAnnotations17(r *hx.R) *Doc {
	n := 1 + r.Intn(3)
	keys := make([]string, n)
	vals := make([]*Doc, n)
	for i := range keys {
		if r.Chance(0.35) {
			keys[i] = hx.Pick(r, []string{"vendor.com/note", "plain", "a.b/c", "x_y-z.w", "K8S.io/Name"})
		} else {
			keys[i] = hx.Pick(r, oddKeys)
		}
		if r.Chance(0.8) {
			vals[i] = sdstr(hx.Pick(r, []string{"", "v", "a\nb", "é", "1"}))
		} else {
			vals[i] = pickValue17(r)
		}
	}
	return annotDoc(keys, vals)
}

// ---------- variant schemas ----------

func jget(v interface{}, path ...string) interface{} {
	for _, p := range path {
		m, ok := v.(map[string]interface{})
		if !ok {
			return nil
		}
		v = m[p]
	}
	return v
}

func jobj(v interface{}, path ...string) map[string]interface{} {
	m, _ := jget(v, path...).(map[string]interface{})
	return m
}

type variant17 struct {
	name string
	what string
	// edit the decoded schema.json / defs.json; false when the shipped files no longer have the place to edit
	edit func(root, defs map[string]interface{}) bool
	// or a stand-alone schema text
	text string
}

func variants17() []variant17 {
	D := "definitions"
	return []variant17{
		{name: "shipped-copy", what: "the shipped schema files, copied unchanged", edit: func(root, defs map[string]interface{}) bool { return true }},
		{name: "tight-uint32", what: "uint32.maximum tightened to 65535, int64.minimum raised to 0", edit: func(root, defs map[string]interface{}) bool {
			u, i := jobj(defs, D, "uint32"), jobj(defs, D, "int64")
			if u == nil || i == nil {
				return false
			}
			u["maximum"] = 65535
			i["minimum"] = 0
			return true
		}},
		{name: "added-required", what: "DeviceNode requires type, the Spec requires annotations, devices items require annotations", edit: func(root, defs map[string]interface{}) bool {
			dn := jobj(defs, D, "DeviceNode")
			it := jobj(root, "properties", "devices", "items")
			if dn == nil || it == nil {
				return false
			}
			dn["required"] = []interface{}{"path", "type"}
			root["required"] = []interface{}{"cdiVersion", "kind", "devices", "annotations"}
			it["required"] = []interface{}{"name", "containerEdits", "annotations"}
			return true
		}},
		{name: "changed-type", what: "DeviceNode.major is a string, kind may be string or integer, Hook.timeout is a number in -2..10, env items are strings", edit: func(root, defs map[string]interface{}) bool {
			dn, hk, rp, ce := jobj(defs, D, "DeviceNode", "properties"), jobj(defs, D, "Hook", "properties"), jobj(root, "properties"), jobj(defs, D, "containerEdits", "properties")
			if dn == nil || hk == nil || rp == nil || ce == nil {
				return false
			}
			dn["major"] = map[string]interface{}{"type": "string"}
			rp["kind"] = map[string]interface{}{"type": []interface{}{"string", "integer"}}
			hk["timeout"] = map[string]interface{}{"type": "number", "minimum": -2, "maximum": 10}
			ce["env"] = map[string]interface{}{"type": "array", "items": map[string]interface{}{"type": "string"}}
			return true
		}},
		{name: "removed-property", what: "Hook.hookName, DeviceNode.uid, Spec.cdiVersion properties removed (still required where they were)", edit: func(root, defs map[string]interface{}) bool {
			dn, hk, rp := jobj(defs, D, "DeviceNode", "properties"), jobj(defs, D, "Hook", "properties"), jobj(root, "properties")
			if dn == nil || hk == nil || rp == nil {
				return false
			}
			delete(hk, "hookName")
			delete(dn, "uid")
			delete(rp, "cdiVersion")
			return true
		}},
		{name: "closed-objects", what: "additionalProperties false on the Spec and on DeviceNode, additionalProperties {type string} on Mount", edit: func(root, defs map[string]interface{}) bool {
			dn, mt := jobj(defs, D, "DeviceNode"), jobj(defs, D, "Mount")
			if dn == nil || mt == nil {
				return false
			}
			root["additionalProperties"] = false
			dn["additionalProperties"] = false
			mt["additionalProperties"] = map[string]interface{}{"type": "string"}
			return true
		}},
		{name: "patterns", what: "annotation keys of 3 or more characters map to strings, any key to string-or-null (dot-star), shorter keys are additional and must be integers", edit: func(root, defs map[string]interface{}) bool {
			ms := jobj(defs, D, "mapStringString")
			if ms == nil {
				return false
			}
			ms["patternProperties"] = map[string]interface{}{".{3,}": map[string]interface{}{"type": "string"}}
			ms["additionalProperties"] = map[string]interface{}{"type": "integer"}
			return true
		}},
		{name: "ref-siblings", what: "$ref with siblings (ignored per draft-07), boolean schemas, a nested $ref chain", edit: func(root, defs map[string]interface{}) bool {
			dn := jobj(defs, D, "DeviceNode", "properties")
			if dn == nil || jobj(defs, D, "uint32") == nil {
				return false
			}
			dn["uid"] = map[string]interface{}{"$ref": "#/definitions/uint32", "maximum": 5, "type": "string"}
			dn["permissions"] = false
			dn["type"] = true
			dn["gid"] = map[string]interface{}{"$ref": "#/definitions/gidAlias"}
			jobj(defs, D)["gidAlias"] = map[string]interface{}{"$ref": "defs.json#/definitions/uint32", "description": "alias"}
			return true
		}},
		{name: "standalone", what: "a small stand-alone schema: dot-plus pattern, additionalProperties false, nested items bounds, type lists", text: `{
  "$schema": "http://json-schema.org/draft-07/schema#",
  "type": "object",
  "properties": {
    "cdiVersion": {"type": ["string", "null"]},
    "devices": {"type": "array", "items": {"type": "object", "properties": {"name": {"type": "string"}}, "patternProperties": {".+": {}}, "additionalProperties": false}},
    "annotations": {"patternProperties": {".*": {"type": ["string", "null", "boolean"]}, ".{2,}": {"type": "string"}}},
    "containerEdits": {"properties": {"additionalGids": {"items": {"type": "integer", "minimum": 1, "maximum": 4294967295}}}, "required": ["env"]}
  },
  "patternProperties": {".{1,}": true},
  "additionalProperties": false,
  "required": ["kind"]
}`},
	}
}

func verifDir() string {
	if d := os.Getenv("VERIF_DIR"); d != "" {
		return d
	}
	wd, _ := os.Getwd()
	return filepath.Dir(wd)
}

func repoDir() string {
	if d := os.Getenv("VERIF_REPO"); d != "" {
		return d
	}
	return "/repo"
}

// buildVariants writes the variant schemas to disk and translates them with tools/gen_schema.py --term.
func buildVariants(scratch string) (cfgs []*cfg17, preamble string, notes []string, err error) {
	rootText, err1 := os.ReadFile(filepath.Join(repoDir(), "schema", "schema.json"))
	defsText, err2 := os.ReadFile(filepath.Join(repoDir(), "schema", "defs.json"))
	if err1 != nil || err2 != nil {
		return nil, "", nil, fmt.Errorf("cannot read the shipped schema files: %v %v", err1, err2)
	}
	var pre strings.Builder
	for i, v := range variants17() {
		dir := filepath.Join(scratch, "variants", v.name)
		if err := os.MkdirAll(dir, 0o755); err != nil {
			return nil, "", nil, err
		}
		rootPath := filepath.Join(dir, "schema.json")
		// whatever stood at this path before, and was loaded from it, is history: a schema that accepts everything is
		// written and loaded first (under both spellings of the source used below), then replaced by the variant
		if os.WriteFile(rootPath, []byte("{}"), 0o644) == nil {
			_, _ = hx.Guard(func() {
				_, _ = schema.Load("file://" + rootPath)
				_, _ = schema.Load(" " + rootPath + " ")
				_, _ = schema.Load(rootPath)
			})
		}
		if v.text != "" {
			if err := os.WriteFile(rootPath, []byte(v.text), 0o644); err != nil {
				return nil, "", nil, err
			}
		} else {
			var root, defs map[string]interface{}
			if json.Unmarshal(rootText, &root) != nil || json.Unmarshal(defsText, &defs) != nil {
				notes = append(notes, "variant "+v.name+" skipped: shipped schema files are not JSON objects")
				continue
			}
			if !v.edit(root, defs) {
				notes = append(notes, "variant "+v.name+" skipped: the shipped schema no longer has the place it edits")
				continue
			}
			rb, _ := json.MarshalIndent(root, "", "  ")
			db, _ := json.MarshalIndent(defs, "", "  ")
			if os.WriteFile(rootPath, rb, 0o644) != nil || os.WriteFile(filepath.Join(dir, "defs.json"), db, 0o644) != nil {
				return nil, "", nil, fmt.Errorf("cannot write variant %s", v.name)
			}
		}
		cmd := exec.Command("python3", filepath.Join(verifDir(), "tools", "gen_schema.py"), "--term", rootPath)
		var stderr bytes.Buffer
		cmd.Stderr = &stderr
		out, err := cmd.Output()
		if err != nil {
			notes = append(notes, fmt.Sprintf("variant %s skipped: translator failed: %v %s", v.name, err, stderr.String()))
			continue
		}
		term := strings.TrimSpace(string(out))
		if strings.Contains(term, "SUnsupported") {
			notes = append(notes, "variant "+v.name+" skipped: outside the modelled fragment")
			continue
		}
		ident := fmt.Sprintf("variant_%d", i)
		fmt.Fprintf(&pre, "(* variant %s: %s *)\nDefinition %s : schema := %s.\n", v.name, v.what, ident, term)
		path := rootPath
		useURL := i%3 == 1
		useRel := i%3 == 2
		cfgs = append(cfgs, &cfg17{
			name: "variant " + v.name + " (" + v.what + "), loaded with schema.Load(path)",
			term: hx.C("KVariant", ident), kind: "variant:" + v.name,
			load: func() (*schema.Schema, error) {
				if useURL {
					return schema.Load("file://" + path)
				}
				if useRel {
					if wd, err := os.Getwd(); err == nil {
						if rel, err := filepath.Rel(wd, path); err == nil {
							return schema.Load(rel)
						}
					}
				}
				return schema.Load(" " + path + " ")
			},
		})
	}
	return cfgs, pre.String(), notes, nil
}

func genC17(r *hx.R, tier string, scratch string) (*hx.Suite, error) {
	s := &hx.Suite{
		Property: "C17",
		Imports:  []string{"Base", "SpecModel", "Doc", "Schema", "Judge17"},
		CaseType: "case17",
		Judge:    "judge17",
		Shard:    120,
		Rule: "documents derived from Spec images: every member removed in turn (all levels), every node replaced by a value of every other kind, every string replaced by odd contents, every " +
			"number replaced by boundary / out-of-range / integral-float / fractional literals, an extra member added to every object, odd annotation maps " +
			"(keys: empty, LF-only, blanks, upper case, dotless-I and Kelvin sign, over-long names and prefixes, non-ASCII; non-string values; oversize), " +
			"null list entries, odd top levels, random multi-mutations of random Specs; each as compact or indented JSON and as block-style YAML (plain or " +
			"quoted scalars; skipped when the YAML text layer cannot carry the document) through ValidateData, ValidateFile (.json/.yaml/.txt), ValidateReader, " +
			"ReadAndValidate, ValidateType, package-level ValidateData after Set and Validate(spec); under Load(builtin)/BuiltinSchema, Load(none)/Load(\"\")/NopSchema, " +
			"a nil *Schema, and 8 variant schemas (tightened bounds, added required, changed types, removed properties, additionalProperties, other patterns, " +
			"$ref siblings and boolean schemas, a stand-alone schema) written to disk, translated by tools/gen_schema.py and loaded with schema.Load(path). " +
			"Non-trivial: the document is not a plain valid Spec image, or the configuration is not the builtin schema.",
	}
	x := &run17{r: r, scratch: scratch}
	builtinCfgs := []*cfg17{
		{name: `schema.Load("builtin")`, term: "KBuiltin", kind: "builtin", load: func() (*schema.Schema, error) { return schema.Load("builtin") }},
		{name: `schema.BuiltinSchema()`, term: "KBuiltin", kind: "builtin", load: func() (*schema.Schema, error) { return schema.BuiltinSchema(), nil }},
		{name: `schema.Load(" builtin ")`, term: "KBuiltin", kind: "builtin", load: func() (*schema.Schema, error) { return schema.Load(" builtin ") }},
	}
	nopCfgs := []*cfg17{
		{name: `schema.Load("none")`, term: "KNop", kind: "none", load: func() (*schema.Schema, error) { return schema.Load("none") }},
		{name: `schema.Load("")`, term: "KNop", kind: "none", load: func() (*schema.Schema, error) { return schema.Load("") }},
		{name: `schema.NopSchema()`, term: "KNop", kind: "none", load: func() (*schema.Schema, error) { return schema.NopSchema(), nil }},
	}
	nilCfg := &cfg17{name: "nil *Schema", term: "KNil", kind: "nil", load: func() (*schema.Schema, error) { return nil, nil }}
	varCfgs, preamble, notes, err := buildVariants(scratch)
	if err != nil {
		return nil, err
	}
	s.Preamble = preamble
	s.Extra = map[string]interface{}{"x_variant_schemas_loaded": len(varCfgs), "x_variant_notes": notes}

	type docCase struct {
		d     *Doc
		spec  *specs.Spec
		class string
		plain bool // a plain valid Spec image
	}
	var pool []docCase
	add := func(d *Doc, spec *specs.Spec, class string, plainValid bool) {
		if d.hasDupKeys() || !d.allValidUTF8() {
			return
		}
		pool = append(pool, docCase{d, spec, class, plainValid})
	}

	add(specDoc(fullSpec17()), fullSpec17(), "valid-spec", true)
	// the document the systematic sweeps start from: every member of every struct at device level; the Spec-level
	// containerEdits (which the shipped schema does not constrain at all) kept small
	full := fullSpec17()
	full.ContainerEdits = specs.ContainerEdits{Env: []string{"A=b"}, AdditionalGIDs: []uint32{5}}
	fullDoc := specDoc(full)
	add(fullDoc, full, "valid-spec", true)
	nq, nr := 25, 120
	if tier == "thorough" {
		nq, nr = 400, 3000
	}
	for i := 0; i < nq; i++ {
		sp := randLibValidSpec(r, r.Chance(0.5))
		add(specDoc(sp), sp, "valid-spec", true)
	}
	// typed Spec values which are NOT valid: the in-memory route must say what the other routes say about the image
	for _, f := range []func(sp *specs.Spec){
		func(sp *specs.Spec) { sp.Kind = "" },
		func(sp *specs.Spec) { sp.Version = "" },
		func(sp *specs.Spec) { sp.Devices = nil },
		func(sp *specs.Spec) { sp.Devices = []specs.Device{} },
		func(sp *specs.Spec) { sp.Devices[0].Name = "" },
		func(sp *specs.Spec) { sp.Devices[0].ContainerEdits = specs.ContainerEdits{} },
		func(sp *specs.Spec) { sp.Devices[0].ContainerEdits.DeviceNodes = []*specs.DeviceNode{nil} },
		func(sp *specs.Spec) { sp.Devices[0].ContainerEdits.Hooks = append(sp.Devices[0].ContainerEdits.Hooks, nil) },
		func(sp *specs.Spec) { sp.Devices[0].ContainerEdits.Mounts = []*specs.Mount{nil, {HostPath: "/h", ContainerPath: "/c"}} },
		func(sp *specs.Spec) { sp.Devices[0].ContainerEdits.DeviceNodes[0].Path = "" },
		func(sp *specs.Spec) { sp.Devices[0].ContainerEdits.Hooks[0].Timeout = intp(-1) },
		func(sp *specs.Spec) { sp.Devices[0].ContainerEdits.Hooks[0].Timeout = intp(1 << 32) },
		func(sp *specs.Spec) { sp.Devices[0].ContainerEdits.Hooks[0].Timeout = intp(1<<32 - 1) },
		func(sp *specs.Spec) { sp.Devices[0].ContainerEdits.Hooks[0].HookName = "" },
		func(sp *specs.Spec) { sp.Devices[0].ContainerEdits.Mounts[0].HostPath = "" },
		func(sp *specs.Spec) {
			sp.Devices[0].ContainerEdits.DeviceNodes[0].Major = -1 << 63
			sp.Devices[0].ContainerEdits.DeviceNodes[0].Minor = 1<<63 - 1
		},
		func(sp *specs.Spec) { sp.Devices[0].ContainerEdits.DeviceNodes[0].FileMode = fmp(os.ModeDir | 0o777) },
		func(sp *specs.Spec) { sp.Devices[0].ContainerEdits.DeviceNodes[0].Type = "x" },
		func(sp *specs.Spec) { sp.Devices[0].Annotations = map[string]string{"bad key!": "v"} },
		func(sp *specs.Spec) { sp.Annotations = map[string]string{} },
		func(sp *specs.Spec) { sp.Devices = append(sp.Devices, specs.Device{}) },
	} {
		sp := fullSpec17()
		sp.ContainerEdits = specs.ContainerEdits{Env: []string{"A=b"}, AdditionalGIDs: []uint32{5}}
		f(sp)
		add(specDoc(sp), sp, "typed-value", false)
	}
	// members the schema requires, present and EMPTY: the document is written by the harness (the member is there, holding ""),
	// the typed value holds "" in the field; the in-memory route must see the member like every other route does (an encoder
	// that leaves an empty required member out makes Validate(spec) disagree with the bytes of the same document)
	for _, set := range []func(sp *specs.Spec, v string){
		func(sp *specs.Spec, v string) { sp.Kind = v },
		func(sp *specs.Spec, v string) { sp.Version = v },
		func(sp *specs.Spec, v string) { sp.Devices[0].Name = v },
		func(sp *specs.Spec, v string) { sp.Devices[0].ContainerEdits.DeviceNodes[0].Path = v },
		func(sp *specs.Spec, v string) { sp.Devices[0].ContainerEdits.Hooks[0].HookName = v },
		func(sp *specs.Spec, v string) { sp.Devices[0].ContainerEdits.Hooks[0].Path = v },
		func(sp *specs.Spec, v string) { sp.Devices[0].ContainerEdits.Mounts[0].HostPath = v },
		func(sp *specs.Spec, v string) { sp.Devices[0].ContainerEdits.Mounts[0].ContainerPath = v },
	} {
		const mark = "@@required-member@@"
		marked := fullSpec17()
		marked.ContainerEdits = specs.ContainerEdits{Env: []string{"A=b"}, AdditionalGIDs: []uint32{5}}
		set(marked, mark)
		text, err := json.Marshal(marked)
		if err != nil || !strings.Contains(string(text), `"`+mark+`"`) {
			continue
		}
		d, err := docFromJSON([]byte(strings.Replace(string(text), `"`+mark+`"`, `""`, 1)))
		if err != nil {
			continue
		}
		sp := fullSpec17()
		sp.ContainerEdits = specs.ContainerEdits{Env: []string{"A=b"}, AdditionalGIDs: []uint32{5}}
		set(sp, "")
		add(d, sp, "typed-value-required-member-empty", false)
	}
	// every member / element removed in turn
	for k := range nodes17(fullDoc) {
		d, _ := mutateAt(fullDoc, k, func(nr nodeRef) { nr.remove() })
		add(d, nil, "member-removed", false)
	}
	// every node replaced by values of every other kind
	for k, nr0 := range nodes17(fullDoc) {
		for _, w := range wrongKinds(nr0.node()) {
			w := w
			d, _ := mutateAt(fullDoc, k, func(nr nodeRef) { nr.replace(w.clone()) })
			add(d, nil, "wrong-type", false)
		}
	}
	// every number replaced by the interesting literals
	for k, nr0 := range nodes17(fullDoc) {
		if nr0.node().K != sdNum {
			continue
		}
		for _, lit := range interestingNumbers {
			lit := lit
			d, _ := mutateAt(fullDoc, k, func(nr nodeRef) { nr.replace(sdnum(lit)) })
			add(d, nil, "numbers", false)
		}
	}
	// the schema files say nothing about the content of any string: every string replaced by odd contents
	for k, nr0 := range nodes17(fullDoc) {
		if nr0.node().K != sdStr || nr0.parent.K == sdObj && strings.HasSuffix(nr0.path, ".annotations."+nr0.parent.O[nr0.idx].K) {
			continue // annotation values are covered by the annotation classes
		}
		for _, str := range []string{"", " ", "bad name!", "é", "-x-", "a\nb", "0", "x/y=z"} {
			str := str
			d, _ := mutateAt(fullDoc, k, func(nr nodeRef) { nr.replace(sdstr(str)) })
			add(d, nil, "string-content", false)
		}
	}
	// an extra member in every object
	objs := []int{-1}
	for k, nr0 := range nodes17(fullDoc) {
		if nr0.node().K == sdObj {
			objs = append(objs, k)
		}
	}
	for _, k := range objs {
		for _, name := range []string{"extra", "fileMode", "path", "x-vendor", ""} {
			d := fullDoc.clone()
			target := d
			if k >= 0 {
				target = nodes17(d)[k].node()
			}
			if target.get(name) != nil {
				continue
			}
			target.O = append(target.O, Member{name, pickValue17(r)})
			add(d, nil, "extra-member", false)
		}
	}
	// annotation maps
	for _, key := range oddKeys {
		for lvl := 0; lvl < 2; lvl++ {
			d := fullDoc.clone()
			a := annotDoc([]string{key}, []*Doc{sdstr("v")})
			if lvl == 0 {
				d.set("annotations", a)
			} else {
				d.get("devices").A[0].set("annotations", a)
			}
			add(d, nil, "annotations", false)
		}
	}
	for i := 0; i < 40; i++ {
		d := fullDoc.clone()
		if r.Chance(0.5) {
			d.set("annotations", randAnnotations17(r))
		}
		if r.Chance(0.6) {
			d.get("devices").A[0].set("annotations", randAnnotations17(r))
		}
		add(d, nil, "annotations", false)
	}
	{ // total size limit: 262144 bytes of keys and values
		for _, n := range []int{262144 - 5, 262144 - 4} {
			d := fullDoc.clone()
			d.set("annotations", annotDoc([]string{"big"}, []*Doc{sdstr(strings.Repeat("v", n))}))
			add(d, nil, "annotations-size", false)
		}
	}
	// devices member and entries of odd kinds, null list entries
	for _, v := range []*Doc{sdnull(), sdarr(), sdobj(), sdstr("x"), sdarr(sdnull()), sdarr(sdstr("x")), sdarr(sdnum("1")), sdarr(sdarr()),
		sdarr(sdobj()), sdarr(sdobj(mem("name", sdstr("d")))), sdarr(sdobj(mem("name", sdstr("d")), mem("containerEdits", sdobj()))),
		sdarr(sdobj(mem("name", sdstr("d")), mem("containerEdits", sdnull()))),
		sdarr(sdobj(mem("name", sdstr("d")), mem("annotations", sdstr("x")), mem("containerEdits", sdobj()))),
		sdarr(sdobj(mem("name", sdstr("d")), mem("annotations", sdobj(mem("bad key", sdstr("v")))), mem("containerEdits", sdobj())), sdnull())} {
		d := fullDoc.clone()
		d.set("devices", v)
		add(d, nil, "devices-shape", false)
	}
	for _, list := range []string{"deviceNodes", "hooks", "mounts", "env", "additionalGids"} {
		d := fullDoc.clone()
		l := d.get("devices").A[0].get("containerEdits").get(list)
		l.A = append(l.A, sdnull())
		add(d, nil, "null-entry", false)
		d2 := fullDoc.clone()
		d2.get("devices").A[0].get("containerEdits").set(list, sdarr())
		add(d2, nil, "empty-list", false)
	}
	// top levels
	for _, v := range []*Doc{sdobj(), sdnull(), sdarr(), sdarr(fullDoc.clone()), sdstr("x"), sdnum("1"), sdbool(true),
		sdobj(mem("annotations", sdobj(mem("bad key", sdstr("v"))))), sdobj(mem("devices", sdarr(sdstr("x")))), sdobj(mem("kind", sdstr("k")))} {
		add(v, nil, "top-level", false)
	}
	// random multi-mutations of random Specs
	for i := 0; i < nr; i++ {
		base := fullDoc
		if r.Chance(0.6) {
			base = specDoc(randLibValidSpec(r, r.Chance(0.5)))
		}
		d := base.clone()
		for m := 1 + r.Intn(3); m > 0; m-- {
			ns := nodes17(d)
			if len(ns) == 0 {
				break
			}
			nr0 := ns[r.Intn(len(ns))]
			switch r.Intn(6) {
			case 0:
				nr0.remove()
			case 1:
				nr0.replace(pickValue17(r))
			case 2:
				if nr0.node().K == sdNum {
					nr0.replace(sdnum(hx.Pick(r, interestingNumbers)))
				} else {
					nr0.replace(sdnull())
				}
			case 3:
				if nr0.node().K == sdObj {
					name := hx.Pick(r, []string{"extra", "fileMode", "x", "Path", "NAME"})
					if nr0.node().get(name) == nil {
						nr0.node().O = append(nr0.node().O, Member{name, pickValue17(r)})
					}
				} else if nr0.node().K == sdArr {
					nr0.node().A = append(nr0.node().A, pickValue17(r))
				}
			case 4:
				if nr0.parent.K == sdObj && nr0.parent.O[nr0.idx].K == "annotations" {
					nr0.replace(randAnnotations17(r))
				} else if nr0.node().K == sdStr {
					nr0.replace(sdstr(hx.Pick(r, []string{"", "é", "a\nb", "x y", "0"})))
				}
			case 5:
				if nr0.node().K == sdObj && nr0.node().get("annotations") == nil && r.Chance(0.5) {
					nr0.node().O = append(nr0.node().O, Member{"annotations", randAnnotations17(r)})
				}
			}
		}
		add(d, nil, "random-mutations", false)
	}

	emit := func(c *cfg17, dc docCase) error {
		cs, err := x.mkCase(c, dc.d, dc.spec, dc.class, !dc.plain || c.kind != "builtin")
		if err != nil {
			return err
		}
		s.Add(cs)
		return nil
	}
	// builtin: every document; none / nil: every fourth (all of the annotation, devices-shape and top-level classes)
	for i, dc := range pool {
		if err := emit(builtinCfgs[i%len(builtinCfgs)], dc); err != nil {
			return nil, err
		}
		special := dc.class == "annotations" || dc.class == "devices-shape" || dc.class == "top-level" || dc.class == "annotations-size" || dc.class == "string-content"
		top := dc.class == "top-level" // every odd top level (null, arrays, scalars ...) under every configuration
		if top || special && i%2 == 0 || i%7 == 0 {
			if err := emit(nopCfgs[(i/2)%len(nopCfgs)], dc); err != nil {
				return nil, err
			}
		}
		if top || special && i%4 == 1 || i%11 == 0 {
			if err := emit(nilCfg, dc); err != nil {
				return nil, err
			}
		}
	}
	// variants: the valid images and a sample of everything else, plus documents aimed at each variant
	perVariant := 45
	if tier == "thorough" {
		perVariant = 400
	}
	aimed := []*Doc{}
	for _, lit := range []string{"65535", "65536", "0", "-1", "5", "6", "10", "10.5", "-2", "-2.5", "1.5"} {
		for _, path := range []string{"major", "uid", "gid", "timeout", "gids"} {
			d := fullDoc.clone()
			ce := d.get("devices").A[0].get("containerEdits")
			switch path {
			case "major", "uid", "gid":
				ce.get("deviceNodes").A[0].set(path, sdnum(lit))
			case "timeout":
				ce.get("hooks").A[0].set("timeout", sdnum(lit))
			default:
				ce.get("additionalGids").A[0] = sdnum(lit)
				d.get("containerEdits").get("additionalGids").A[0] = sdnum(lit)
			}
			aimed = append(aimed, d)
		}
	}
	for _, key := range []string{"", "a", "ab", "abc", "é", "éé", "ééé", "a\nb", "ab\nc", "abc\n", "\n", "\n\n\n", "a\n\nbcd", "\U0001f600\U0001f600", "\U0001f600\U0001f600\U0001f600"} {
		for vi, v := range []*Doc{sdstr("v"), sdnum("1"), sdnull(), sdbool(true)} {
			if vi%2 == 0 {
				d := fullDoc.clone()
				d.set("annotations", annotDoc([]string{key}, []*Doc{v}))
				aimed = append(aimed, d)
			} else {
				d2 := fullDoc.clone()
				d2.get("devices").A[0].O = append(d2.get("devices").A[0].O, Member{key, v.clone()})
				d2.set("annotations", annotDoc([]string{key}, []*Doc{v}))
				if !d2.hasDupKeys() {
					aimed = append(aimed, d2)
				}
			}
		}
	}
	for _, f := range []func(d *Doc){
		func(d *Doc) { d.get("devices").A[0].get("containerEdits").get("deviceNodes").A[0].set("major", sdstr("10")) },
		func(d *Doc) { d.set("kind", sdnum("7")) },
		func(d *Doc) { d.set("kind", sdnum("7.5")) },
		func(d *Doc) { d.set("cdiVersion", sdnull()) },
		func(d *Doc) { d.del("cdiVersion") },
		func(d *Doc) { d.del("annotations") },
		func(d *Doc) { d.get("devices").A[0].del("annotations") },
		func(d *Doc) { d.get("devices").A[0].get("containerEdits").get("deviceNodes").A[0].del("type") },
		func(d *Doc) { d.get("devices").A[0].get("containerEdits").get("deviceNodes").A[0].del("permissions") },
		func(d *Doc) { d.get("devices").A[0].get("containerEdits").get("deviceNodes").A[0].del("fileMode") },
		func(d *Doc) { d.get("devices").A[0].get("containerEdits").get("hooks").A[0].set("hookName", sdnum("1")) },
		func(d *Doc) { d.get("devices").A[0].get("containerEdits").get("mounts").A[0].set("extra", sdnum("1")) },
		func(d *Doc) { d.get("devices").A[0].get("containerEdits").get("mounts").A[0].set("extra", sdstr("s")) },
		func(d *Doc) { d.get("devices").A[0].get("containerEdits").get("env").A[0] = sdnum("1") },
		func(d *Doc) { d.get("containerEdits").del("env") },
		func(d *Doc) { d.set("extra", sdstr("s")) },
	} {
		d := fullDoc.clone()
		f(d)
		aimed = append(aimed, d)
	}
	for vi, c := range varCfgs {
		for _, dc := range pool {
			if dc.class == "valid-spec" && r.Chance(0.3) {
				if err := emit(c, dc); err != nil {
					return nil, err
				}
			}
		}
		for _, d := range aimed {
			if err := emit(c, docCase{d, nil, "aimed-at-variants", false}); err != nil {
				return nil, err
			}
		}
		for k := 0; k < perVariant; k++ {
			dc := pool[(vi*7919+r.Intn(len(pool)))%len(pool)]
			if err := emit(c, dc); err != nil {
				return nil, err
			}
		}
	}
	perEP := map[string]interface{}{}
	for i, n := range epNames17 {
		perEP[n] = map[string]int{"accepted": x.accepts[i], "rejected": x.rejects[i]}
	}
	s.Extra["x_verdicts_per_entry_point"] = perEP
	s.Extra["x_yaml_routes_skipped_text_layer_cannot_carry_document"] = x.yamlSkip
	return s, nil
}
