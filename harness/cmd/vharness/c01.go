package main

import (
	"fmt"
	"path/filepath"
	"time"

	"tags.cncf.io/container-device-interface/pkg/cdi"
	"verif/harness/hx"
)

func init() {
	registry["C01"] = func(r *hx.R, tier, scratch string) (*hx.Suite, error) { return genCacheSuite(r, tier, scratch, "C01") }
	registry["C13"] = func(r *hx.R, tier, scratch string) (*hx.Suite, error) { return genCacheSuite(r, tier, scratch, "C13") }
}

// genCacheSuite: directory layouts and histories of changes, each step followed by a refresh and an observation of
// the cache through the query API.  C01: precedence and listings, manual and automatic refresh.  C13: the same with
// the fault vocabulary (invalid / empty / dangling files, directories that are missing, files, or have a
// non-directory ancestor) and later repairs.
func genCacheSuite(r *hx.R, tier, scratch, prop string) (*hx.Suite, error) {
	faults := prop == "C13"
	s := &hx.Suite{Property: prop, Imports: []string{"Base", "SpecModel", "Cache", "Judge01"}, CaseType: "case01", Judge: "judge01", Shard: 60}
	if faults {
		s.Rule = "random lists of 1-4 configured directories with fault placement (invalid/empty/dangling/link-to-directory Spec files, directories missing, being a file, having a non-directory ancestor, repeated) and histories of 0-4 changes incl. repairs, each followed by Refresh(); non-trivial = at least one loadable Spec file and at least one fault present"
	} else {
		s.Rule = "random lists of 0-4 configured directories (missing, empty, populated, repeated) with valid/invalid Specs over 2 vendors x 2 classes x 3 device names, non-Spec names and sub-directories, and histories of 0-4 changes each followed by Refresh(), in manual and automatic refresh mode; non-trivial = some device name is defined by at least two files"
	}
	layouts := 220
	if tier == "thorough" {
		layouts = 2200
	}
	probes := append(allPoolNames(), "vendor1.com/gpu=none", "bogus", "")
	autoConverged, autoTotal := 0, 0
	// a stream aimed at mode switches: an automatic-refresh cache with a missing directory (which it reports), switched to
	// manual refresh, then the directory appears: the stale directory entry must be gone at once, the new files are seen
	// at the next refresh
	for k := 0; k < 6; k++ {
		root := filepath.Join(scratch, fmt.Sprintf("m%d", k))
		fs := genFS(r, root, false, faults, false)
		fs.Dirs = append(fs.Dirs, &absDir{Path: filepath.Join(root, "late"), State: dirMissing})
		if k%2 == 1 && len(fs.Dirs) > 1 {
			fs.Dirs[0], fs.Dirs[len(fs.Dirs)-1] = fs.Dirs[len(fs.Dirs)-1], fs.Dirs[0]
		}
		fs.materialise()
		cache, _ := cdi.NewCache(cdi.WithSpecDirs(fs.dirList()...), cdi.WithAutoRefresh(true))
		emit := func(auto bool, history []string) {
			var o cacheObs
			if auto {
				o = settle(cache, fs.dirList(), probes, 3*time.Second, fs.missingDirs())
			} else {
				o = observeCache(cache, probes, true)
			}
			o.Auto = auto
			s.Add(hx.Case{Term: hx.C("Case01", fs.term(), o.term()),
				Desc: map[string]interface{}{"dirs": fs.desc(), "auto_refresh": auto, "history": append([]string{}, history...),
					"observed": map[string]interface{}{"devices": o.Devices, "error_keys": o.ErrKeys, "dir_error_keys": o.DirErrs, "refresh_error": o.RefErr}},
				Class: "mode-switch", Key: fs.term() + fmt.Sprint(auto, len(history)), Nontrivial: true})
		}
		hist := []string{}
		emit(true, hist)
		_ = cache.Configure(cdi.WithAutoRefresh(false))
		hist = append(hist, "configure: automatic refresh off")
		emit(false, hist)
		for _, d := range fs.Dirs {
			if d.State == dirMissing {
				d.State = dirDir
				d.Entries = genDirEntries(r, "late", false, faults)
				d.materialise()
			}
		}
		hist = append(hist, "mkdir the missing directories, with content")
		emit(false, hist)
		if k%3 == 0 {
			_ = cache.Configure(cdi.WithAutoRefresh(true))
			hist = append(hist, "configure: automatic refresh on")
			emit(true, hist)
			_ = cache.Configure(cdi.WithAutoRefresh(false))
		}
	}
	// a stream aimed at reconfiguration without a mode change: a cache in automatic mode is given another list of
	// directories by Configure(WithSpecDirs) alone; it must answer from the new directories at once and keep following them
	for k := 0; k < 8; k++ {
		rootA := filepath.Join(scratch, fmt.Sprintf("sa%d", k))
		rootB := filepath.Join(scratch, fmt.Sprintf("sb%d", k))
		fsA := genFS(r, rootA, false, faults, false)
		fsB := genFS(r, rootB, false, faults, false)
		if k%2 == 1 && len(fsA.Dirs) > 0 {
			// the new list shares a directory with the old one
			fsB.Dirs = append(fsB.Dirs, fsA.Dirs[0])
		}
		fsA.materialise()
		fsB.materialise()
		cache, _ := cdi.NewCache(cdi.WithSpecDirs(fsA.dirList()...), cdi.WithAutoRefresh(true))
		hist := []string{"cache created in automatic mode on another list of directories: " + fmt.Sprint(fsA.dirList())}
		emit := func() {
			o := settleQuiet(cache, fsB.dirList(), probes, 3*time.Second, fsB.missingDirs())
			o.Auto = true
			s.Add(hx.Case{Term: hx.C("Case01", fsB.term(), o.term()),
				Desc: map[string]interface{}{"dirs": fsB.desc(), "auto_refresh": true, "history": append([]string{}, hist...),
					"observed": map[string]interface{}{"devices": o.Devices, "error_keys": o.ErrKeys, "dir_error_keys": o.DirErrs, "refresh_error": o.RefErr}},
				Class: "dirs-switch", Key: fsB.term() + fmt.Sprint(len(hist)), Nontrivial: true})
		}
		_ = settle(cache, fsA.dirList(), probes, 3*time.Second, fsA.missingDirs())
		_ = cache.Configure(cdi.WithSpecDirs(fsB.dirList()...))
		hist = append(hist, "configure: these directories, mode untouched")
		emit()
		for st := 0; st < 2; st++ {
			hist = append(hist, fsB.mutate(r, false, faults))
			emit()
		}
		_ = cache.Configure(cdi.WithAutoRefresh(false))
	}
	for li := 0; li < layouts; li++ {
		root := filepath.Join(scratch, fmt.Sprintf("l%d", li))
		auto := li%3 == 2
		fs := genFS(r, root, false, faults, faults && !auto)
		fs.materialise()
		var cache *cdi.Cache
		panicked, msg := hx.Guard(func() {
			cache, _ = cdi.NewCache(cdi.WithSpecDirs(fs.dirList()...), cdi.WithAutoRefresh(auto))
		})
		if panicked {
			return nil, fmt.Errorf("NewCache panicked: %s", msg)
		}
		steps := r.Intn(5)
		history := []string{}
		for st := 0; st <= steps; st++ {
			if st > 0 {
				history = append(history, fs.mutate(r, false, faults))
			}
			if auto && st > 0 && r.Chance(0.15) {
				// from here on the same cache runs in manual mode: whatever the watch reported must be forgotten
				_ = cache.Configure(cdi.WithAutoRefresh(false))
				auto = false
				history = append(history, "configure: automatic refresh off")
			}
			var o cacheObs
			if auto {
				o = settle(cache, fs.dirList(), probes, 3*time.Second, fs.missingDirs())
				autoTotal++
				autoConverged++
			} else {
				o = observeCache(cache, probes, true)
			}
			o.Auto = auto
			class := "manual"
			if auto {
				class = "auto"
			}
			if faults {
				class = "faults-" + class
			}
			if st > 0 {
				class += "+history"
			}
			desc := map[string]interface{}{"dirs": fs.desc(), "auto_refresh": auto, "history": append([]string{}, history...),
				"observed": map[string]interface{}{"devices": o.Devices, "vendors": o.Vendors, "classes": o.Classes, "error_keys": o.ErrKeys, "refresh_error": o.RefErr, "panic": o.Panic}}
			if o.Panic != "" {
				// a panic is reported as an observation nothing in the model matches
				o.Devices = append(o.Devices, "PANIC: "+o.Panic)
			}
			s.Add(hx.Case{Term: hx.C("Case01", fs.term(), o.term()), Desc: desc, Class: class,
				Key: fs.term(), Nontrivial: nontrivialFS(fs, faults)})
		}
		// stop the watcher of an auto cache
		if auto {
			_ = cache.Configure(cdi.WithAutoRefresh(false))
		}
	}
	s.Extra = map[string]interface{}{"x_auto_refresh_observations": autoTotal}
	return s, nil
}

func nontrivialFS(fs *absFS, faults bool) bool {
	defs := map[string]int{}
	valid, bad := 0, 0
	seen := map[*absDir]bool{}
	for _, d := range fs.Dirs {
		if d.State != dirDir {
			if d.State != dirMissing {
				bad++
			}
			if seen[d] {
				continue
			}
		}
		list := d.Entries
		if d.State == dirIsFile {
			list = []absEntry{*d.File}
		}
		for _, e := range list {
			if filepath.Ext(e.Name) != ".json" && filepath.Ext(e.Name) != ".yaml" {
				continue
			}
			switch e.Kind {
			case entValid:
				valid++
				for _, dev := range e.Spec.Devices {
					defs[e.Spec.Kind+"="+dev.Name]++
				}
			case entInvalid:
				bad++
			}
		}
		seen[d] = true
	}
	if faults {
		return valid > 0 && bad > 0
	}
	for _, n := range defs {
		if n >= 2 {
			return true
		}
	}
	return false
}
