package main

import (
	"fmt"
	"os"
	"path/filepath"
	"strings"
	"time"

	"tags.cncf.io/container-device-interface/pkg/cdi"
	"verif/harness/hx"
)

func init() {
	registry["C01"] = func(r *hx.R, tier, scratch string) (*hx.Suite, error) { return genCacheSuite(r, tier, scratch, "C01") }
	registry["C13"] = func(r *hx.R, tier, scratch string) (*hx.Suite, error) { return genCacheSuite(r, tier, scratch, "C13") }
}

// how the cache of a layout comes to be on its directories
var cacheCreators = []string{
	"NewCache(WithSpecDirs(dirs), WithAutoRefresh(mode))",
	"NewCache(WithSpecDirs(dirs), WithAutoRefresh(mode))",
	"NewCache(WithAutoRefresh(mode), WithSpecDirs(dirs))",
	"NewCache(WithSpecDirs(other), WithAutoRefresh(!mode), WithAutoRefresh(mode), WithSpecDirs(dirs)): the last option of a kind counts",
	"DefaultSpecDirs = dirs; NewCache(WithAutoRefresh(mode))",
	"the default cache: cdi.Configure(WithSpecDirs(dirs), WithAutoRefresh(mode)), refreshed by cdi.Refresh(), errors from cdi.GetErrors()",
	"NewCache(WithSpecDirs(other), WithAutoRefresh(mode)) then Configure(WithSpecDirs(dirs))",
}

// makeCache creates (or reconfigures) a cache on dirs in one of the ways above.  Afterwards the slice handed in and the
// slice GetSpecDirectories returns are overwritten: the cache must have its own copy.
func makeCache(variant int, dirs []string, auto bool, elsewhere string) *cdi.Cache {
	var c *cdi.Cache
	switch variant {
	case 2:
		c, _ = cdi.NewCache(cdi.WithAutoRefresh(auto), cdi.WithSpecDirs(dirs...))
	case 3:
		c, _ = cdi.NewCache(cdi.WithSpecDirs(elsewhere), cdi.WithAutoRefresh(!auto), cdi.WithAutoRefresh(auto), cdi.WithSpecDirs(dirs...))
	case 4:
		saved := cdi.DefaultSpecDirs
		cdi.DefaultSpecDirs = dirs
		c, _ = cdi.NewCache(cdi.WithAutoRefresh(auto))
		cdi.DefaultSpecDirs = saved
	case 5:
		_ = cdi.Configure(cdi.WithSpecDirs(dirs...), cdi.WithAutoRefresh(auto))
		c = cdi.GetDefaultCache()
	case 6:
		c, _ = cdi.NewCache(cdi.WithSpecDirs(elsewhere), cdi.WithAutoRefresh(auto))
		_ = c.Configure(cdi.WithSpecDirs(dirs...))
	default:
		c, _ = cdi.NewCache(cdi.WithSpecDirs(dirs...), cdi.WithAutoRefresh(auto))
	}
	for i := range dirs {
		dirs[i] = "/nonexistent/overwritten-by-the-caller"
	}
	if c != nil {
		got := c.GetSpecDirectories()
		for i := range got {
			got[i] = "/nonexistent/overwritten-by-the-caller"
		}
	}
	return c
}

// genCacheSuite: directory layouts and histories of changes, each step followed by a refresh and an observation of
// the cache through the query API.  C01: precedence and listings, manual and automatic refresh.  C13: the same with
// the fault vocabulary (invalid / empty / dangling / unreadable files, directories that are missing, files, have a
// non-directory ancestor or lack permissions) and later repairs.
func genCacheSuite(r *hx.R, tier, scratch, prop string) (*hx.Suite, error) {
	faults := prop == "C13"
	s := &hx.Suite{Property: prop, Imports: []string{"Base", "SpecModel", "Cache", "Judge01"}, CaseType: "case01", Judge: "judge01", Shard: 60}
	if faults {
		s.Rule = "random lists of 0-6 configured directories (spelled cleanly or not) with fault placement (invalid / empty / dangling / looping / over-long links, links to directories, sockets, unreadable Spec files; directories missing, being a file, having a non-directory ancestor, lacking read or search permission, repeated) and histories of 0-4 changes (write, rewrite in place, remove, rename, repairs, good directories going bad, no change) each followed by Refresh(), manual and automatic refresh, caches created in seven ways incl. the default cache; non-trivial = at least one loadable Spec file and at least one fault present"
	} else {
		s.Rule = "random lists of 0-6 configured directories (missing, empty, populated, repeated, spelled cleanly or not, nested) with valid/invalid Specs over 2(+1) vendors x 2(+1) classes x 3(+1) device names, Spec and non-Spec file names of usual and unusual shape, sub-directories, special files, and histories of 0-4 changes (write, rewrite in place, remove, rename within and across directories, rmdir, mkdir, no change) each followed by Refresh(), in manual and automatic refresh mode, caches created in seven ways incl. the default cache and reconfiguration; non-trivial = some device name is defined by at least two files"
	}
	layouts := 220
	if tier == "thorough" {
		layouts = 2200
	}
	capsOK := faults && dacCapsWork(scratch)
	// some directories are configured relative to the working directory: work from the scratch directory
	if wd, err := os.Getwd(); err == nil && os.Chdir(scratch) == nil {
		defer os.Chdir(wd)
	}
	elsewhere := filepath.Join(scratch, "elsewhere")
	_ = os.MkdirAll(elsewhere, 0o755)
	_ = os.WriteFile(filepath.Join(elsewhere, "a.json"), []byte(`{"cdiVersion":"0.3.0","kind":"vendor1.com/gpu","devices":[{"name":"dev1","containerEdits":{"env":["FP=elsewhere"]}}]}`), 0o644)
	autoTotal := 0
	obsDesc := func(o cacheObs) map[string]interface{} {
		return map[string]interface{}{"devices": o.Devices, "vendors": o.Vendors, "classes": o.Classes, "error_keys": o.ErrKeys, "dir_error_keys": o.DirErrs,
			"spec_error_paths": o.SpecErrs, "all_error_keys": o.AllErrs, "refresh_error": o.RefErr, "panic": o.Panic}
	}
	// a stream aimed at mode switches: an automatic-refresh cache with a missing directory (which it reports), switched to
	// manual refresh, then the directory appears: the stale directory entry must be gone at once, the new files are seen
	// at the next refresh
	for k := 0; k < 6; k++ {
		root := filepath.Join(scratch, fmt.Sprintf("m%d", k))
		opts := fsOpts{faults: faults, auto: true}
		fs := genFS(r, root, opts)
		fs.add(&absDir{Path: filepath.Join(root, "late"), State: dirMissing})
		if k%2 == 1 && len(fs.Dirs) > 1 {
			l := len(fs.Dirs) - 1
			fs.Dirs[0], fs.Dirs[l] = fs.Dirs[l], fs.Dirs[0]
			fs.Spell[0], fs.Spell[l] = fs.Spell[l], fs.Spell[0]
		}
		fs.materialise()
		cache, _ := cdi.NewCache(cdi.WithSpecDirs(fs.dirList()...), cdi.WithAutoRefresh(true))
		emit := func(auto bool, history []string) {
			var o cacheObs
			if auto {
				o = settle(cache, fs.dirList(), fs.probeNames(), 10*time.Second, fs.unwatchableDirs())
			} else {
				o = observeCache(cache, fs.probeNames(), true)
			}
			o.Auto = auto
			s.Add(hx.Case{Term: hx.C("Case01", fs.term(), o.term()),
				Desc:  map[string]interface{}{"dirs": fs.desc(), "auto_refresh": auto, "history": append([]string{}, history...), "observed": obsDesc(o)},
				Class: "mode-switch", Key: fs.term() + fmt.Sprint(auto, len(history)), Nontrivial: true})
		}
		hist := []string{}
		emit(true, hist)
		_ = cache.Configure(cdi.WithAutoRefresh(false))
		hist = append(hist, "configure: automatic refresh off")
		emit(false, hist)
		for _, d := range fs.Dirs {
			if d.State == dirMissing {
				d.State = dirDir
				d.Entries = genDirEntries(r, "late", fsOpts{faults: faults})
				d.materialise()
			}
		}
		hist = append(hist, "mkdir the missing directories, with content")
		emit(false, hist)
		if k%3 == 0 {
			_ = cache.Configure(cdi.WithAutoRefresh(true))
			hist = append(hist, "configure: automatic refresh on")
			emit(true, hist)
			_ = cache.Configure(cdi.WithAutoRefresh(false))
		}
	}
	// a stream aimed at reconfiguration without a mode change: a cache is given another list of directories by
	// Configure(WithSpecDirs) alone; in automatic mode it must answer from the new directories at once and keep following
	// them (observed without any Refresh), in manual mode from the next Refresh on
	for k := 0; k < 11; k++ {
		auto := k < 8
		rootA := filepath.Join(scratch, fmt.Sprintf("sa%d", k))
		rootB := filepath.Join(scratch, fmt.Sprintf("sb%d", k))
		opts := fsOpts{faults: faults, auto: auto, quiet: auto}
		fsA := genFS(r, rootA, opts)
		fsB := genFS(r, rootB, opts)
		if k%2 == 1 && len(fsA.Dirs) > 0 {
			// the new list shares a directory with the old one
			fsB.add(fsA.Dirs[0])
		}
		fsA.materialise()
		fsB.materialise()
		cache, _ := cdi.NewCache(cdi.WithSpecDirs(fsA.dirList()...), cdi.WithAutoRefresh(auto))
		hist := []string{"cache created on another list of directories: " + fmt.Sprint(fsA.dirList())}
		emit := func() {
			var o cacheObs
			if auto {
				o = settleQuiet(cache, fsB.dirList(), fsB.probeNames(), 10*time.Second, fsB.unwatchableDirs())
			} else {
				o = observeCache(cache, fsB.probeNames(), true)
			}
			o.Auto = auto
			s.Add(hx.Case{Term: hx.C("Case01", fsB.term(), o.term()),
				Desc:  map[string]interface{}{"dirs": fsB.desc(), "auto_refresh": auto, "history": append([]string{}, hist...), "observed": obsDesc(o)},
				Class: "dirs-switch", Key: fsB.term() + fmt.Sprint(len(hist)), Nontrivial: true})
		}
		if auto {
			_ = settle(cache, fsA.dirList(), fsA.probeNames(), 10*time.Second, fsA.unwatchableDirs())
		} else {
			_ = cache.Refresh()
		}
		_ = cache.Configure(cdi.WithSpecDirs(fsB.dirList()...))
		hist = append(hist, "configure: these directories, mode untouched")
		emit()
		for st := 0; st < 2; st++ {
			hist = append(hist, fsB.mutate(r, opts))
			emit()
		}
		_ = cache.Configure(cdi.WithAutoRefresh(false))
	}
	// a configured directory which is a sub-directory of another configured one: skipped as a sub-directory there, scanned
	// with its own priority
	for k := 0; k < 4; k++ {
		root := filepath.Join(scratch, fmt.Sprintf("n%d", k))
		auto := k >= 2
		opts := fsOpts{faults: faults, auto: auto}
		outer := &absDir{Path: filepath.Join(root, "outer"), State: dirDir}
		for _, e := range genDirEntries(r, "outer", opts) {
			if e.Name != "sub" {
				outer.Entries = append(outer.Entries, e)
			}
		}
		outer.Entries = append(outer.Entries, absEntry{Name: "sub", Kind: entSub})
		inner := &absDir{Path: filepath.Join(root, "outer", "sub"), State: dirDir, Entries: genDirEntries(r, "inner", opts)}
		if len(inner.Entries) == 0 {
			inner.Entries = []absEntry{*genEntryNamed(r, "inner", "a.json", entValid, opts)}
		}
		outer.materialise()
		inner.materialise()
		fs := &absFS{Dirs: []*absDir{outer, inner}}
		if k%2 == 1 {
			fs.Dirs = []*absDir{inner, outer}
		}
		cache, _ := cdi.NewCache(cdi.WithSpecDirs(fs.dirList()...), cdi.WithAutoRefresh(auto))
		var o cacheObs
		if auto {
			o = settle(cache, fs.dirList(), fs.probeNames(), 10*time.Second, fs.unwatchableDirs())
			_ = cache.Configure(cdi.WithAutoRefresh(false))
		} else {
			o = observeCache(cache, fs.probeNames(), true)
		}
		o.Auto = auto
		s.Add(hx.Case{Term: hx.C("Case01", fs.term(), o.term()),
			Desc:  map[string]interface{}{"dirs": fs.desc(), "auto_refresh": auto, "history": []string{}, "observed": obsDesc(o)},
			Class: "nested-directories", Key: fs.term(), Nontrivial: true})
	}
	// same-priority conflicts of every size, every run: a directory in which 3 or 4 valid files define one qualified name,
	// alone, configured twice, below / above a directory which defines the name once or twice; then the conflict shrinks
	// file by file (3 -> 2 -> 1 definitions: the name must stay unresolved until one definition is left)
	for k := 0; k < 10; k++ {
		root := filepath.Join(scratch, fmt.Sprintf("x%d", k))
		auto := k%5 == 4
		opts := fsOpts{faults: faults, auto: auto}
		const kind, dev = "vendor1.com/gpu", "dev1"
		definers := func(tag string, n int) *absDir {
			d := &absDir{Path: filepath.Join(root, tag), State: dirDir}
			names := append(append([]string{}, specNames...), oddSpecNames[:6]...)
			perm := r.Perm(len(names))
			for i := 0; i < n; i++ {
				name := names[perm[i]]
				d.Entries = append(d.Entries, absEntry{Name: name, Kind: entValid, Spec: genSpecDefining(r, tag+"/"+name, kind, dev)})
			}
			// bystanders: other files, some of them sorting between the definers
			for _, e := range genDirEntries(r, tag, opts) {
				free := true
				for _, x := range d.Entries {
					if x.Name == e.Name {
						free = false
					}
				}
				if free {
					d.Entries = append(d.Entries, e)
				}
			}
			return d
		}
		m := 3 + k%2
		x := definers("same", m)
		fs := &absFS{}
		switch k % 10 {
		case 0, 1:
			fs.Dirs = []*absDir{x}
		case 2, 3:
			fs.Dirs = []*absDir{x, x}
		case 4:
			fs.Dirs = []*absDir{definers("lower", 1), x}
		case 5:
			fs.Dirs = []*absDir{definers("lower", 2), x}
		case 6:
			fs.Dirs = []*absDir{x, definers("higher", 1)}
		case 7:
			fs.Dirs = []*absDir{x, definers("higher", 2)}
		case 8:
			fs.Dirs = []*absDir{x, definers("between", 1+r.Intn(2)), x}
		default:
			fs.Dirs = []*absDir{definers("lower", 1+r.Intn(2)), x, definers("higher", 0)}
		}
		fs.materialise()
		cache, _ := cdi.NewCache(cdi.WithSpecDirs(fs.dirList()...), cdi.WithAutoRefresh(auto))
		hist := []string{}
		emit := func() {
			var o cacheObs
			if auto {
				o = settle(cache, fs.dirList(), fs.probeNames(), 10*time.Second, fs.unwatchableDirs())
			} else {
				o = observeCache(cache, fs.probeNames(), true)
			}
			o.Auto = auto
			s.Add(hx.Case{Term: hx.C("Case01", fs.term(), o.term()),
				Desc:  map[string]interface{}{"dirs": fs.desc(), "auto_refresh": auto, "history": append([]string{}, hist...), "observed": obsDesc(o)},
				Class: "same-priority-conflict", Key: fs.term(), Nontrivial: true})
		}
		emit()
		// take the definers away one at a time, in a random order
		for left := m; left > 1; left-- {
			var idx []int
			for i, e := range x.Entries {
				if e.Kind == entValid && isSpecFileName(e.Name) && e.Spec.Kind == kind && len(e.Spec.Devices) > 0 && e.Spec.Devices[0].Name == dev {
					idx = append(idx, i)
				}
			}
			if len(idx) == 0 {
				break
			}
			i := hx.Pick(r, idx)
			name := x.Entries[i].Name
			removeEntry(filepath.Join(x.Path, name))
			x.Entries = append(x.Entries[:i:i], x.Entries[i+1:]...)
			hist = append(hist, "remove same/"+name)
			emit()
		}
		if auto {
			_ = cache.Configure(cdi.WithAutoRefresh(false))
		}
	}
	// faults repaired from outside the file: a Spec file which is a dangling link is repaired by its target appearing (the
	// link itself is not touched), broken again by the target going away, and repaired again
	for k := 0; k < 6; k++ {
		root := filepath.Join(scratch, fmt.Sprintf("r%d", k))
		auto := defectPendingLinkTargetUnwatched && k%3 == 2
		opts := fsOpts{faults: faults, auto: auto}
		fs := genFS(r, root, opts)
		d := &absDir{Path: filepath.Join(root, "links"), State: dirDir, Entries: genDirEntries(r, "links", opts)}
		name := hx.Pick(r, []string{"a.json", "d.yaml", "l.json", "0.yaml", "zz.json"})
		var kept []absEntry
		for _, e := range d.Entries {
			if e.Name != name {
				kept = append(kept, e)
			}
		}
		// every run: entries one cannot read a Spec from (links to directories, a socket, a FIFO) sorting before a valid file
		special := []absEntry{{Name: "00dl.json", Kind: entInvalid, Invalid: "linktodir"}, {Name: "01sock", Kind: entInvalid, Invalid: "socket"},
			{Name: "02fifo", Kind: entInvalid, Invalid: "fifo"}, {Name: "03dl", Kind: entInvalid, Invalid: "linktodir"}, {Name: "04sock.yaml", Kind: entInvalid, Invalid: "socket"},
			{Name: "zzz.yaml", Kind: entValid, Spec: genSpecDefining(r, "links/zzz.yaml", "vendor2.org/nic", "dev2")}}
		d.Entries = append(append(special, kept...), absEntry{Name: name, Kind: entInvalid, Invalid: "dangling"})
		fs.add(d)
		if k%2 == 1 {
			l := len(fs.Dirs) - 1
			fs.Dirs[0], fs.Dirs[l] = fs.Dirs[l], fs.Dirs[0]
			fs.Spell[0], fs.Spell[l] = fs.Spell[l], fs.Spell[0]
		}
		fs.materialise()
		cache, _ := cdi.NewCache(cdi.WithSpecDirs(fs.dirList()...), cdi.WithAutoRefresh(auto))
		hist := []string{}
		emit := func() {
			var o cacheObs
			if auto {
				o = settle(cache, fs.dirList(), fs.probeNames(), 10*time.Second, fs.unwatchableDirs())
			} else {
				o = observeCache(cache, fs.probeNames(), true)
			}
			o.Auto = auto
			s.Add(hx.Case{Term: hx.C("Case01", fs.term(), o.term()),
				Desc:  map[string]interface{}{"dirs": fs.desc(), "auto_refresh": auto, "history": append([]string{}, hist...), "observed": obsDesc(o)},
				Class: "link-target-repair", Key: fs.term(), Nontrivial: true})
		}
		emit()
		path := filepath.Join(d.Path, name)
		for round := 0; round < 2; round++ {
			e := &d.Entries[len(d.Entries)-1]
			e.Kind, e.Invalid, e.ViaLink, e.LinkHow = entValid, "", true, 3
			e.Spec = genValidSpec(r, fmt.Sprintf("links/%s#%d", name, round), false)
			writeSpecFile(danglingTarget(path), e.Spec)
			hist = append(hist, "the target of links/"+name+" appears")
			emit()
			if round == 0 {
				e.Kind, e.Invalid, e.ViaLink, e.Spec = entInvalid, "dangling", false, nil
				_ = os.Remove(danglingTarget(path))
				hist = append(hist, "the target of links/"+name+" is removed")
				emit()
			}
		}
		if auto {
			_ = cache.Configure(cdi.WithAutoRefresh(false))
		}
	}
	// configured paths one cannot scan, of every kind, every run, in every position among good directories: links leading
	// nowhere or in a circle, a socket, links to Spec files, paths below a file or below a dangling link, over-long names
	for k := 0; faults && k < 6; k++ {
		root := filepath.Join(scratch, fmt.Sprintf("b%d", k))
		opts := fsOpts{faults: true}
		mkGood := func(tag string) *absDir {
			d := &absDir{Path: filepath.Join(root, tag), State: dirDir, Entries: genDirEntries(r, tag, opts)}
			var kept []absEntry
			for _, e := range d.Entries {
				if e.Name != "g.json" {
					kept = append(kept, e)
				}
			}
			d.Entries = append(kept, absEntry{Name: "g.json", Kind: entValid, Spec: genSpecDefining(r, tag+"/g.json", "vendor1.com/gpu", "dev1")})
			return d
		}
		fileAs := func(name string, e absEntry) *absDir {
			e.Name = name
			return &absDir{Path: filepath.Join(root, name), State: dirIsFile, File: &e}
		}
		bad := []*absDir{
			fileAs("dangling.json", absEntry{Kind: entInvalid, Invalid: "dangling"}),
			fileAs("dangling", absEntry{Kind: entInvalid, Invalid: "dangling"}),
			fileAs("loop.yaml", absEntry{Kind: entInvalid, Invalid: "selflink"}),
			fileAs("sock.json", absEntry{Kind: entInvalid, Invalid: "socket"}),
			fileAs("toolong.json", absEntry{Kind: entInvalid, Invalid: "toolonglink"}),
			fileAs("linked.json", absEntry{Kind: entValid, ViaLink: true, LinkHow: r.Intn(3), Spec: genSpecDefining(r, "linked.json", "vendor1.com/gpu", "dev1")}),
			fileAs("linked", absEntry{Kind: entValid, ViaLink: true, Spec: genSpecDefining(r, "linked", "vendor1.com/gpu", "dev1")}),
			{Path: filepath.Join(root, "f", "below"), State: dirUnscannable},
			{Path: filepath.Join(root, "nowhere", "below"), State: dirMissing},                        // nowhere is a dangling link
			{Path: filepath.Join(root, strings.Repeat("x", 300)), State: dirUnscannable, Unscan: "nametoolong"}, // never materialised: lstat fails with ENAMETOOLONG
		}
		g1, g2 := mkGood("good1"), mkGood("good2")
		perm := r.Perm(len(bad))
		pick := []*absDir{bad[perm[0]], bad[perm[1]], bad[perm[2]], bad[(k*2)%len(bad)], bad[(k*2+1)%len(bad)]}
		fs := &absFS{}
		switch k % 3 {
		case 0:
			fs.Dirs = []*absDir{pick[0], pick[3], g1, pick[1], g2, pick[2], pick[4]}
		case 1:
			fs.Dirs = []*absDir{g1, pick[0], pick[3], pick[4], pick[1], g2}
		default:
			fs.Dirs = []*absDir{pick[3], pick[0], pick[1], pick[2], pick[4], g1, g2, g1}
		}
		_ = os.MkdirAll(root, 0o755)
		_ = os.Symlink(filepath.Join(root, "does-not-exist"), filepath.Join(root, "nowhere"))
		seen := map[*absDir]bool{}
		for _, d := range fs.Dirs {
			if !seen[d] && d.State != dirMissing && d.Unscan != "nametoolong" {
				d.materialise()
			}
			seen[d] = true
		}
		cache, _ := cdi.NewCache(cdi.WithSpecDirs(fs.dirList()...), cdi.WithAutoRefresh(false))
		o0 := observeCache(cache, fs.probeNames(), false)
		o := observeCache(cache, fs.probeNames(), true)
		o0.RefErr = o.RefErr
		for i, ob := range []cacheObs{o0, o} {
			s.Add(hx.Case{Term: hx.C("Case01", fs.term(), ob.term()),
				Desc:  map[string]interface{}{"dirs": fs.desc(), "auto_refresh": false, "history": []string{}, "refreshed_explicitly": i == 1, "observed": obsDesc(ob)},
				Class: "bad-directory-paths", Key: fs.term() + fmt.Sprint(i), Nontrivial: true})
		}
	}
	for li := 0; li < layouts; li++ {
		root := filepath.Join(scratch, fmt.Sprintf("l%d", li))
		auto := li%3 == 2
		capdrop := capsOK && !auto && li%4 == 1
		variant := li % len(cacheCreators)
		opts := fsOpts{faults: faults, dirFaults: faults, perm: capdrop, auto: auto, relative: true}
		fs := genFS(r, root, opts)
		fs.materialise()
		// with permission faults in the population everything the cache does happens without the DAC capabilities
		run := func(f func()) {
			if capdrop {
				withoutDACCaps(f)
			} else {
				f()
			}
		}
		var cache *cdi.Cache
		obsDefaultAPI = variant == 5
		var panicked bool
		var msg string
		run(func() {
			panicked, msg = hx.Guard(func() { cache = makeCache(variant, fs.dirList(), auto, elsewhere) })
		})
		if panicked {
			return nil, fmt.Errorf("creating the cache panicked: %s", msg)
		}
		steps := r.Intn(5)
		history := []string{}
		emit := func(o cacheObs, st int, history []string, note string) {
			o.Auto = auto
			class := "manual"
			if auto {
				class = "auto"
			}
			if faults {
				class = "faults-" + class
			}
			if capdrop {
				class += "+permissions"
			}
			if st > 0 {
				class += "+history"
			}
			desc := map[string]interface{}{"dirs": fs.desc(), "auto_refresh": auto, "history": append([]string{}, history...), "cache": cacheCreators[variant], "observed": obsDesc(o)}
			if note != "" {
				desc["note"] = note
			}
			if capdrop {
				desc["permissions"] = "the cache is created and used by a thread without CAP_DAC_OVERRIDE and CAP_DAC_READ_SEARCH"
			}
			if o.Panic != "" {
				// a panic is reported as an observation nothing in the model matches
				o.Devices = append(o.Devices, "PANIC: "+o.Panic)
			}
			s.Add(hx.Case{Term: hx.C("Case01", fs.term(), o.term()), Desc: desc, Class: class,
				Key: fs.term() + note, Nontrivial: nontrivialFS(fs, faults)})
		}
		for st := 0; st <= steps; st++ {
			if st > 0 {
				history = append(history, fs.mutate(r, opts))
			}
			if auto && st > 0 && r.Chance(0.15) {
				// from here on the same cache runs in manual mode: whatever the watch reported must be forgotten
				_ = cache.Configure(cdi.WithAutoRefresh(false))
				auto = false
				opts.auto = false
				history = append(history, "configure: automatic refresh off")
			}
			probes := fs.probeNames()
			var o cacheObs
			switch {
			case auto && st == 0 && li%2 == 0:
				// what the cache answers before anybody asked it to refresh
				o = settleQuiet(cache, fs.dirList(), probes, 10*time.Second, fs.unwatchableDirs())
				autoTotal++
			case auto:
				o = settle(cache, fs.dirList(), probes, 10*time.Second, fs.unwatchableDirs())
				autoTotal++
			default:
				var o0 cacheObs
				run(func() {
					if st == 0 {
						o0 = observeCache(cache, probes, false)
					}
					o = observeCache(cache, probes, true)
				})
				if st == 0 {
					// a new cache answers from its directories before the first Refresh(): reported only when it differs
					o0.RefErr = o.RefErr
					if o0.key() != o.key() || fmt.Sprint(o0.DirErrs, o0.AllErrs) != fmt.Sprint(o.DirErrs, o.AllErrs) {
						emit(o0, st, history, "observed before the first Refresh()")
					}
				}
			}
			emit(o, st, history, "")
		}
		// stop the watcher of an auto cache
		if auto || variant == 5 {
			_ = cache.Configure(cdi.WithAutoRefresh(false))
		}
		obsDefaultAPI = false
	}
	s.Extra = map[string]interface{}{"x_auto_refresh_observations": autoTotal, "x_permission_faults_available": capsOK, "x_settle_deadlines_hit": settleDeadlines}
	return s, nil
}

func nontrivialFS(fs *absFS, faults bool) bool {
	defs := map[string]int{}
	valid, bad := 0, 0
	seen := map[*absDir]bool{}
	for _, d := range fs.Dirs {
		if d.State != dirDir {
			if d.State != dirMissing {
				bad++
			}
			if seen[d] {
				continue
			}
		}
		list := d.Entries
		if d.State == dirIsFile {
			list = []absEntry{*d.File}
		}
		if d.State == dirUnscannable {
			list = nil
		}
		for _, e := range list {
			if !isSpecFileName(e.Name) {
				continue
			}
			switch e.Kind {
			case entValid:
				valid++
				for _, dev := range e.Spec.Devices {
					defs[e.Spec.Kind+"="+dev.Name]++
				}
			case entInvalid:
				bad++
			}
		}
		seen[d] = true
	}
	if faults {
		return valid > 0 && bad > 0
	}
	for _, n := range defs {
		if n >= 2 {
			return true
		}
	}
	return false
}
