package main

import (
	"fmt"
	"os"
	"path/filepath"
	"strings"

	"tags.cncf.io/container-device-interface/pkg/cdi"
	"tags.cncf.io/container-device-interface/pkg/parser"
	specs "tags.cncf.io/container-device-interface/specs-go"
	"verif/harness/hx"
)

func init() { registry["C16"] = genC16 }

func c16Path(p string) hx.Case {
	return hx.Case{
		Term:       hx.C("CPath", hx.S(p), hx.S(filepath.Clean(p)), hx.S(filepath.Ext(p)), hx.S(filepath.Base(p)), hx.S(filepath.Dir(p))),
		Desc:       map[string]string{"op": "filepath", "path": hx.JS(p), "Clean": filepath.Clean(p), "Ext": filepath.Ext(p), "Base": filepath.Base(p), "Dir": filepath.Dir(p)},
		Key:        "p:" + p,
		Nontrivial: strings.Contains(p, "/") || strings.Contains(p, "."),
		Class:      "filepath",
	}
}

func c16Join(a, b string) hx.Case {
	return hx.Case{
		Term:       hx.C("CJoin", hx.S(a), hx.S(b), hx.S(filepath.Join(a, b))),
		Desc:       map[string]string{"op": "filepath.Join", "a": hx.JS(a), "b": hx.JS(b), "Join": filepath.Join(a, b)},
		Key:        "j:" + a + "\x00" + b,
		Nontrivial: a != "" && b != "",
		Class:      "filepath",
	}
}

func c16Name(v, c, tid string) hx.Case {
	n1 := cdi.GenerateSpecName(v, c)
	n2 := cdi.GenerateTransientSpecName(v, c, tid)
	raw := &specs.Spec{Kind: v + "/" + c}
	n3, e3 := cdi.GenerateNameForSpec(raw)
	n4, e4 := cdi.GenerateNameForTransientSpec(raw, tid)
	return hx.Case{
		Term: hx.C("CName", hx.S(v), hx.S(c), hx.S(tid), hx.S(n1), hx.S(n2), hx.Opt(hx.S(n3), e3 == nil), hx.Opt(hx.S(n4), e4 == nil)),
		Desc: map[string]interface{}{"op": "Generate*SpecName", "vendor": hx.JS(v), "class": hx.JS(c), "transientID": hx.JS(tid),
			"names": []string{hx.JS(n1), hx.JS(n2), hx.JS(n3), hx.JS(n4)}},
		Key:        "n:" + v + "\x00" + c + "\x00" + tid,
		Nontrivial: parser.ValidateVendorName(v) == nil && parser.ValidateClassName(c) == nil,
		Class:      "names",
	}
}

func validSpec(vendor, class string, devs []string, tag string) *specs.Spec {
	s := &specs.Spec{Version: "1.0.0", Kind: vendor + "/" + class}
	for _, d := range devs {
		s.Devices = append(s.Devices, specs.Device{Name: d, ContainerEdits: specs.ContainerEdits{Env: []string{"FROM=" + tag, "DEV=" + d}}})
	}
	return s
}

var repeatLast16 bool // scenario variant: the last configured directory repeats the first one (in another spelling)

// c16Opt: dimensions of a write / remove scenario beyond the directory spellings.
type c16Opt struct {
	LastMissing bool
	PrevKind    int    // at the target path before the write: 0 nothing, 1 a previous version (regular file), 2 a link to a file outside the Spec directories, 3 a dangling link
	LowerShadow bool   // a lower-priority directory defines the same devices ...
	SameName    bool   // ... in a file with the very name of the file to be written (else shadowed.yaml)
	Relative    bool   // the directories are configured relative to the working directory
	LastIsCwd   bool   // (Relative) the last directory is the working directory itself, spelled LastSpell
	LastSpell   string //
	Config      int    // how the cache got its directories: 0 NewCache(WithSpecDirs); 1 NewCache on other directories, then Configure(WithSpecDirs); 2 NewCache(WithSpecDirs), then Configure(WithAutoRefresh(false)); 3 as 1 with an empty list in between
}

// c16Write runs one remove / write / refresh / remove / remove-again / write-again / remove-a-link scenario under root.
func c16Write(root string, idx int, dirSpellings []string, vendor, class, name string, o c16Opt) hx.Case {
	base := filepath.Join(root, fmt.Sprintf("w%d", idx))
	_ = os.MkdirAll(base, 0o755)
	if o.Relative {
		if cwd, err := os.Getwd(); err == nil {
			defer func() { _ = os.Chdir(cwd) }()
		}
		_ = os.Chdir(base)
	}
	lastMissing := o.LastMissing && !o.LastIsCwd
	// the configured directories: spelling i is applied to base/d<i>
	dirs := make([]string, len(dirSpellings))
	realOf := func(i int) string {
		if o.LastIsCwd && i == len(dirSpellings)-1 {
			return base
		}
		if repeatLast16 && i == len(dirSpellings)-1 && i > 0 {
			return filepath.Join(base, "d0", "cdi") // the last configured directory is the first one again
		}
		return filepath.Join(base, fmt.Sprintf("d%d", i), "cdi")
	}
	for i, sp := range dirSpellings {
		real := realOf(i)
		if !(lastMissing && i == len(dirSpellings)-1) {
			_ = os.MkdirAll(real, 0o755)
		}
		shown := real
		if o.Relative {
			shown, _ = filepath.Rel(base, real)
		}
		switch {
		case o.LastIsCwd && i == len(dirSpellings)-1:
			dirs[i] = o.LastSpell
		case sp == "DD": // the first separator doubled
			dirs[i] = strings.Replace(shown, "/", "//", 1)
		default:
			dirs[i] = strings.ReplaceAll(sp, "D", shown)
		}
	}
	tname := name
	if e := filepath.Ext(name); e != ".json" && e != ".yaml" {
		tname += ".yaml"
	}
	plainName := name != "" && !strings.ContainsAny(name, "/\x00") && name != "." && name != ".."
	spec := validSpec(vendor, class, []string{"dev0", "dev1"}, "written")
	last := realOf(len(dirs) - 1)
	// pre-existing content: unrelated vendor in every existing directory, an optional lower-priority definition of the same
	// devices (under a name of its own or under the name of the file to be written), an optional previous version of the target file
	lowerName := "shadowed.yaml"
	if o.SameName && plainName {
		lowerName = tname
	}
	for i := range dirs {
		real := realOf(i)
		if repeatLast16 && i == len(dirs)-1 && i > 0 {
			continue // populated as directory 0 already
		}
		if _, err := os.Stat(real); err == nil {
			writeSpecFile(filepath.Join(real, "other.json"), validSpec("other.org", "thing", []string{"x"}, fmt.Sprintf("other%d", i)))
			_ = os.WriteFile(filepath.Join(real, "README"), []byte("not a spec"), 0o644)
			if o.LowerShadow && i < len(dirs)-1 && real != last {
				writeSpecFile(filepath.Join(real, lowerName), validSpec(vendor, class, []string{"dev0", "dev1"}, fmt.Sprintf("lower%d", i)))
			}
		}
	}
	outside := filepath.Join(base, "outside")
	_ = os.MkdirAll(outside, 0o755)
	_ = os.WriteFile(filepath.Join(outside, "victim"), []byte("a file outside the Spec directories"), 0o644)
	writeSpecFile(filepath.Join(outside, "victim.json"), validSpec(vendor, class, []string{"dev0"}, "outside"))
	var cache *cdi.Cache
	switch o.Config {
	case 1, 3:
		// the later configuration must win: first the directories in reverse order behind a foreign one
		elsewhere := filepath.Join(base, "elsewhere", "cdi")
		_ = os.MkdirAll(elsewhere, 0o755)
		first := []string{}
		for i := len(dirs) - 1; i >= 0; i-- {
			first = append(first, dirs[i])
		}
		first = append(first, elsewhere)
		cache, _ = cdi.NewCache(cdi.WithSpecDirs(first...), cdi.WithAutoRefresh(false))
		// the cache is used under its first configuration (write and remove in the foreign directory) before it is given the directories
		_, _ = hx.Guard(func() { _ = cache.WriteSpec(spec, "probe.json") })
		_, _ = hx.Guard(func() { _ = cache.RemoveSpec("probe.json") })
		_, _ = hx.Guard(func() { _ = cache.RemoveSpec(name) })
		if o.Config == 3 {
			_ = cache.Configure(cdi.WithSpecDirs())
		}
		_ = cache.Configure(cdi.WithSpecDirs(dirs...))
	case 2:
		cache, _ = cdi.NewCache(cdi.WithSpecDirs(dirs...))
		_ = cache.Configure(cdi.WithAutoRefresh(false))
	default:
		cache, _ = cdi.NewCache(cdi.WithSpecDirs(dirs...), cdi.WithAutoRefresh(false))
	}
	all := func(d snapDiff) []string {
		return append(append(append(append([]string{}, d.FilesDeleted...), d.FilesChanged...), d.DirsCreated...), d.DirsDeleted...)
	}
	// removing a name which was never written (the last directory possibly missing): succeeds and changes nothing
	var r0err error
	sA := takeSnap(base)
	p0, _ := hx.Guard(func() { r0err = cache.RemoveSpec(name) })
	r0changes := all(diffSnap(sA, takeSnap(base)))
	switch o.PrevKind {
	case 1:
		_ = cache.WriteSpec(validSpec(vendor, class, []string{"dev0"}, "previous"), name)
	case 2, 3:
		if _, err := os.Stat(last); err == nil && plainName {
			to := filepath.Join(outside, "victim.json")
			if o.PrevKind == 3 {
				to = filepath.Join(outside, "nothing-here.json")
			}
			_ = os.Symlink(to, filepath.Join(last, tname))
		}
	}
	// neighbours of the file to be written, named after it: left-overs a writer could mistake for its own (a regular file, a
	// link to a file outside the Spec directories, a dangling link or a directory called <file>.tmp; backups; an old
	// temporary file).  Writing and removing must leave every one of them alone.
	neighbours := []string{}
	if idx%3 != 0 && plainName {
		if _, err := os.Stat(last); err == nil {
			tmp := filepath.Join(last, tname+".tmp")
			switch (idx / 3) % 4 {
			case 0:
				_ = os.WriteFile(tmp, []byte("left over"), 0o644)
				neighbours = append(neighbours, tname+".tmp (regular file)")
			case 1:
				_ = os.Symlink(filepath.Join(outside, "victim"), tmp)
				neighbours = append(neighbours, tname+".tmp (link to a file outside)")
			case 2:
				_ = os.Symlink(filepath.Join(outside, "nothing-here"), tmp)
				neighbours = append(neighbours, tname+".tmp (dangling link)")
			default:
				_ = os.MkdirAll(filepath.Join(tmp, "sub"), 0o755)
				neighbours = append(neighbours, tname+".tmp (directory)")
			}
			for _, n := range []string{tname + ".bak", tname + "~", "." + tname + ".swp", "spec.123.tmp", name + ".tmp"} {
				if _, err := os.Lstat(filepath.Join(last, n)); err != nil {
					_ = os.WriteFile(filepath.Join(last, n), []byte("neighbour "+n), 0o644)
					neighbours = append(neighbours, n)
				}
			}
		}
	}
	s0 := takeSnap(base)
	var werr, rerr, r2err error
	p, _ := hx.Guard(func() { werr = cache.WriteSpec(spec, name) })
	s1 := takeSnap(base)
	d1 := diffSnap(s0, s1)
	isJSON := false
	if len(d1.FilesChanged) == 1 {
		data, _ := os.ReadFile(d1.FilesChanged[0])
		isJSON = strings.HasPrefix(strings.TrimSpace(string(data)), "{")
	}
	_ = cache.Refresh()
	var resolved []string
	for _, dn := range []string{"dev0", "dev1"} {
		dev := cache.GetDevice(parser.QualifiedName(vendor, class, dn))
		if dev == nil {
			resolved = append(resolved, hx.P(hx.S(""), hx.Z(-1)))
		} else {
			resolved = append(resolved, hx.P(hx.S(dev.GetSpec().GetPath()), hx.Z(int64(dev.GetSpec().GetPriority()))))
		}
	}
	p2, _ := hx.Guard(func() { rerr = cache.RemoveSpec(name) })
	s2 := takeSnap(base)
	d2 := diffSnap(s1, s2)
	p3, _ := hx.Guard(func() { r2err = cache.RemoveSpec(name) })
	// the same Spec under the same name once more, with no refresh since the removal: the file must be there again, with
	// the same content; and written over foreign content at that path it must restore its own content
	var again []string
	// removing the name while it is a link to a file outside the Spec directories deletes the link and nothing else
	rlink := []string{"<not tried>"}
	{
		s3 := takeSnap(base)
		_, _ = hx.Guard(func() { _ = cache.WriteSpec(spec, name) })
		s4 := takeSnap(base)
		d4 := diffSnap(s3, s4)
		again = append(again, d4.FilesChanged...)
		if len(d1.FilesChanged) == 1 && len(d4.FilesChanged) == 1 && s4[d4.FilesChanged[0]] != s1[d1.FilesChanged[0]] {
			again = append(again, "<content differs from the first write>")
		}
		if len(d4.FilesChanged) == 1 {
			target := d4.FilesChanged[0]
			_ = os.WriteFile(target, []byte("foreign content, not a Spec"), 0o644)
			_, _ = hx.Guard(func() { _ = cache.WriteSpec(spec, name) })
			if takeSnap(base)[target] != s4[target] {
				again = append(again, "<foreign>")
			}
			_ = os.Remove(target)
			if os.Symlink(filepath.Join(outside, "victim.json"), target) == nil {
				s5 := takeSnap(base)
				var lerr error
				pl, _ := hx.Guard(func() { lerr = cache.RemoveSpec(name) })
				rlink = all(diffSnap(s5, takeSnap(base)))
				if lerr != nil || pl {
					rlink = append(rlink, "<error>")
				}
				_ = os.Remove(target)
			}
		}
	}
	other := append(append(append([]string{}, d2.FilesChanged...), d2.DirsCreated...), d2.DirsDeleted...)
	// with directories configured relative to the working directory the observed paths are taken relative to it too
	obsPaths := func(l []string) []string {
		out := make([]string, len(l))
		for i, x := range l {
			switch {
			case !o.Relative:
				out[i] = x
			case x == base:
				out[i] = "."
			default:
				out[i] = strings.TrimPrefix(x, base+"/")
			}
		}
		return out
	}
	obs := hx.C("mkWobs", hx.B(r0err != nil || p0), hx.LS(obsPaths(r0changes)),
		hx.B(werr != nil || p), hx.LS(obsPaths(d1.FilesChanged)), hx.LS(obsPaths(append(d1.FilesDeleted, d1.DirsDeleted...))), hx.LS(obsPaths(d1.DirsCreated)), hx.B(isJSON),
		hx.L(resolved), hx.B(rerr != nil || p2), hx.LS(obsPaths(d2.FilesDeleted)), hx.LS(obsPaths(other)), hx.B(r2err != nil || p3), hx.LS(obsPaths(again)), hx.LS(obsPaths(rlink)))
	rel := func(l []string) []string {
		o := make([]string, len(l))
		for i, x := range l {
			o[i] = strings.TrimPrefix(x, base)
		}
		return o
	}
	return hx.Case{
		Term: hx.C("CWrite", hx.LS(dirs), hx.S(name), "2", obs),
		Desc: map[string]interface{}{"op": "RemoveSpec/WriteSpec/Refresh/RemoveSpec/...", "dirs(relative to scenario root)": rel(dirs), "name": hx.JS(name), "kind": vendor + "/" + class,
			"options": o, "last_dir_repeats_first": repeatLast16, "neighbours_in_last_dir": neighbours, "lower_priority_file": lowerName,
			"first_remove_err": fmt.Sprint(r0err), "first_remove_changed": rel(r0changes),
			"write_err": fmt.Sprint(werr), "files_changed": rel(d1.FilesChanged), "dirs_created": rel(d1.DirsCreated), "remove_deleted": rel(d2.FilesDeleted),
			"remove_of_link_changed": rel(rlink)},
		Nontrivial: true,
		Class:      "write-remove",
	}
}

func genC16(r *hx.R, tier string, scratch string) (*hx.Suite, error) {
	s := &hx.Suite{
		Property: "C16",
		Imports:  []string{"Base", "Parser", "Paths", "Judge16"},
		CaseType: "case16",
		Judge:    "judge16",
		Shard:    200,
		Rule: "write/refresh/remove scenarios on real directory trees (tree snapshots before/after): 1-3 configured directories in clean and non-clean " +
			"spellings (doubled and trailing separators, ./ and x/.. segments), last directory missing or present, previous file or not, lower-priority " +
			"definition of the same devices or not; names from all four generators for kinds with dotted vendors/classes, classes ending in .json/.yaml/.JSON/.yml, " +
			"one-letter parts; transient ids with '/', '..', dots, extensions in every case spelling, empty id, blanks / line breaks at either end, glob and shell characters, " +
			"invalid UTF-8, every id dealt out at least once; explicit .json/.yaml suffixes. Directories absolute or relative to the working directory (incl. the working " +
			"directory itself spelled '.', '', './', 'x/..'); the cache configured at creation, re-configured onto the directories after having been used on others, or after an empty list; " +
			"a file of the very same name in the lower directories; a link to a file outside (or a dangling link) at the target; the name removed before it was ever written " +
			"(directory possibly missing) and removed while it is a link to a file outside. " +
			"Plus correspondence of the filepath models (Clean/Ext/Base/Dir/Join) on generated paths and of the four name generators on valid and invalid kinds.",
	}
	// filepath models
	segs := []string{"", ".", "..", "a", "b.json", ".yaml", "c.d", "...", "x.JSON"}
	var paths []string
	for _, a := range segs {
		paths = append(paths, a, "/"+a, a+"/")
		for _, b := range segs {
			paths = append(paths, a+"/"+b, "/"+a+"/"+b, a+"//"+b+"/")
			if tier == "thorough" {
				for _, c := range segs {
					paths = append(paths, a+"/"+b+"/"+c, "/"+a+"/"+b+"/"+c+"/")
				}
			}
		}
	}
	for _, p := range paths {
		s.Add(c16Path(p))
	}
	for i := 0; i < 150; i++ {
		s.Add(c16Join(hx.Pick(r, paths), hx.Pick(r, paths)))
	}
	// name generators
	vendors := []string{"vendor.com", "v", "a-b_c.d", "Vendor1", "bad vendor", "", "-x", "x-", "ven/dor"}
	classes := []string{"gpu", "c", "net.json", "nic.yaml", "NIC.YAML", "a.b.c", "dev.yml", "x.JSON", "bad=class", "", "cl/ass", "y."}
	tids := []string{"", "id0", "pod1/ctr0", "../../../outside/ctr0", "..", ".", "a/../b", "ctr0.json", "ctr0.JSON", "CTR0.Yaml", "x.yaml", "x.yml", "/abs", "a//b", "trailing/", "sp ace", "é/ü", "a.b.c",
		"x ", " x", "x\n", "tab\tid", "-rf", ".hidden", "a\\b", "x.", "x..", "~", "*", "a:b", "%2e%2e%2f", "\xff\xfe/\x80", "x.json ", "ctr.yaml.", "x.json.tmp", "x.tmp", ".json", ".yaml", "/", "//", "x/.json",
		"CTR0.YAML", "x.jsonx", "x.yaml~", "0000:3b:00.0", "pod_9f/ctr#1?", strings.Repeat("long-id/", 12) + "end"}
	for _, v := range vendors {
		for _, c := range classes {
			for _, t := range tids {
				if tier == "thorough" || r.Chance(0.25) {
					s.Add(c16Name(v, c, t))
				}
			}
		}
	}
	// write / remove scenarios
	spellings := []string{"D", "D/", "D//", "D/.", "D/x/..", "D/../cdi", "DD", "./D"}
	goodV := []string{"vendor.com", "v", "a-b_c.d"}
	goodC := []string{"gpu", "c", "net.json", "nic.yaml", "NIC.YAML", "dev.yml", "x.JSON", "a.b.c"}
	exts := []string{"", ".json", ".yaml"}
	n := 150
	if tier == "thorough" {
		n = 900
	}
	// every transient id is used: the ids are dealt out in a shuffled order, round after round
	deal := append([]string{}, tids...)
	r.Shuffle(len(deal), func(a, b int) { deal[a], deal[b] = deal[b], deal[a] })
	dealt := 0
	nextTid := func() string {
		t := deal[dealt%len(deal)]
		dealt++
		return t
	}
	for i := 0; i < n; i++ {
		nd := 1 + r.Intn(3)
		sp := make([]string, nd)
		for j := range sp {
			sp[j] = hx.Pick(r, spellings)
		}
		v, c := hx.Pick(r, goodV), hx.Pick(r, goodC)
		raw := &specs.Spec{Kind: v + "/" + c}
		var name, tid string
		switch r.Intn(6) {
		case 0:
			name = cdi.GenerateSpecName(v, c)
		case 1:
			name, _ = cdi.GenerateNameForSpec(raw)
		case 2, 3:
			tid = nextTid()
			name = cdi.GenerateTransientSpecName(v, c, tid)
		default:
			tid = nextTid()
			name, _ = cdi.GenerateNameForTransientSpec(raw, tid)
		}
		ext := hx.Pick(r, exts)
		if strings.TrimSpace(tid) != tid && r.Chance(0.7) {
			ext = "" // the name keeps its trailing blank / line break
		}
		name += ext
		repeatLast16 = nd >= 2 && r.Chance(0.2)
		o := c16Opt{LastMissing: r.Chance(0.3) && !repeatLast16, Relative: r.Chance(0.3), Config: hx.Pick(r, []int{0, 0, 1, 2, 3})}
		o.LowerShadow = r.Chance(0.5) && !repeatLast16 // a "lower" definition in the repeated directory would be a same-directory conflict
		o.SameName = r.Chance(0.5)
		if !o.LastMissing {
			o.PrevKind = hx.Pick(r, []int{0, 0, 1, 1, 2, 3})
		}
		if o.Relative && !repeatLast16 && r.Chance(0.3) {
			o.LastIsCwd, o.LastSpell, o.PrevKind = true, hx.Pick(r, []string{".", "", "./", "x/.."}), hx.Pick(r, []int{0, 1})
		}
		for j := range sp {
			if sp[j] == "./D" && !o.Relative {
				sp[j] = "D"
			}
		}
		s.Add(c16Write(scratch, i, sp, v, c, name, o))
		repeatLast16 = false
	}
	return s, nil
}
