package main

// Abstract directory populations shared by the cache harnesses (C01, C13, C02, C04, C14): the abstract state, its
// materialisation as real directories and files, its Gallina term (CDI.Cache.fsview) and the observation of a cache
// through the query API.

import (
	"golang.org/x/sys/unix"
	"fmt"
	"os"
	"path/filepath"
	"sort"
	"strings"
	"time"

	"tags.cncf.io/container-device-interface/pkg/cdi"
	specs "tags.cncf.io/container-device-interface/specs-go"
	"verif/harness/hx"
)

const (
	entValid = iota
	entInvalid
	entSub
)

type absEntry struct {
	Name    string
	Kind    int
	Spec    *specs.Spec // entValid
	Invalid string      // entInvalid: syntax | nodevices | dupnames | empty | dangling | linktodir | badkind
	SubFile bool        // entSub: put a valid-looking Spec file inside the sub-directory
	ViaLink bool        // entValid: the name is a symbolic link to the Spec file (which lives outside the configured directories)
}

const (
	dirMissing = iota
	dirUnscannable
	dirIsFile
	dirDir
)

type absDir struct {
	Path    string // as configured (already clean)
	State   int
	Entries []absEntry // dirDir
	File    *absEntry  // dirIsFile
	ViaLink bool       // dirDir: the configured path is a symbolic link to the directory
}

type absFS struct{ Dirs []*absDir }

func (e *absEntry) term() string {
	switch e.Kind {
	case entValid:
		return hx.C("EFile", hx.Some(specTerm(e.Spec)))
	case entInvalid:
		return "(EFile None)"
	}
	return "ESub"
}

func (d *absDir) term() string {
	var st string
	switch d.State {
	case dirMissing:
		st = "DMissing"
	case dirUnscannable:
		st = "DUnscannable"
	case dirIsFile:
		st = hx.C("DIsFile", d.File.term())
	default:
		items := make([]string, len(d.Entries))
		for i := range d.Entries {
			items[i] = hx.P(hx.S(d.Entries[i].Name), d.Entries[i].term())
		}
		st = hx.C("DDir", hx.L(items))
	}
	return hx.P(hx.S(d.Path), st)
}

func (fs *absFS) term() string {
	items := make([]string, len(fs.Dirs))
	for i, d := range fs.Dirs {
		items[i] = d.term()
	}
	return hx.L(items)
}

func (fs *absFS) dirList() []string {
	out := make([]string, len(fs.Dirs))
	for i, d := range fs.Dirs {
		out[i] = d.Path
	}
	return out
}

// desc renders the abstract state for evidence and replays.
func (fs *absFS) desc() interface{} {
	var out []interface{}
	for _, d := range fs.Dirs {
		m := map[string]interface{}{"path": d.Path, "state": []string{"missing", "unscannable", "is-file", "dir"}[d.State]}
		if d.ViaLink {
			m["symbolic_link_to_directory"] = true
		}
		var ents []interface{}
		list := d.Entries
		if d.State == dirIsFile {
			list = []absEntry{*d.File}
		}
		for _, e := range list {
			switch e.Kind {
			case entValid:
				ents = append(ents, map[string]interface{}{"name": e.Name, "spec": specJSON(e.Spec)})
			case entInvalid:
				ents = append(ents, map[string]interface{}{"name": e.Name, "invalid": e.Invalid})
			default:
				ents = append(ents, map[string]interface{}{"name": e.Name, "subdir": true})
			}
		}
		if ents != nil {
			m["entries"] = ents
		}
		out = append(out, m)
	}
	return out
}

func writeEntry(path string, e *absEntry) {
	_ = os.RemoveAll(path)
	switch e.Kind {
	case entValid:
		if e.ViaLink {
			store := filepath.Join(filepath.Dir(filepath.Dir(path)), "linked-specs")
			_ = os.MkdirAll(store, 0o755)
			tgt := filepath.Join(store, strings.ReplaceAll(strings.TrimPrefix(path, "/"), "/", "_")+filepath.Ext(path))
			writeSpecFile(tgt, e.Spec)
			_ = os.Symlink(tgt, path)
		} else {
			writeSpecFile(path, e.Spec)
		}
	case entSub:
		_ = os.MkdirAll(path, 0o755)
		if e.SubFile {
			_ = os.WriteFile(filepath.Join(path, "inner.json"), []byte(`{"cdiVersion":"0.3.0","kind":"vendor1.com/gpu","devices":[{"name":"inner","containerEdits":{"env":["FP=inner"]}}]}`), 0o644)
		}
	case entInvalid:
		switch e.Invalid {
		case "syntax":
			_ = os.WriteFile(path, []byte("{ this is : [ not a spec"), 0o644)
		case "nodevices":
			_ = os.WriteFile(path, []byte(`{"cdiVersion":"0.3.0","kind":"vendor1.com/gpu","devices":[]}`), 0o644)
		case "dupnames":
			_ = os.WriteFile(path, []byte(`{"cdiVersion":"0.3.0","kind":"vendor1.com/gpu","devices":[{"name":"dev1","containerEdits":{"env":["A=b"]}},{"name":"dev1","containerEdits":{"env":["A=c"]}}]}`), 0o644)
		case "badkind":
			_ = os.WriteFile(path, []byte(`{"cdiVersion":"0.3.0","kind":"novendor","devices":[{"name":"dev1","containerEdits":{"env":["A=b"]}}]}`), 0o644)
		case "empty":
			_ = os.WriteFile(path, nil, 0o644)
		case "dangling":
			_ = os.Symlink(filepath.Join(filepath.Dir(path), "does-not-exist-target"), path)
		case "linktodir":
			tgt := path + ".tgtdir"
			_ = os.MkdirAll(tgt, 0o755)
			_ = os.Symlink(tgt, path)
		case "fifo": // only under names without a Spec extension: reading one would block
			if ext := filepath.Ext(path); ext == ".json" || ext == ".yaml" {
				_ = unix.Mknod(path, unix.S_IFSOCK|0o644, 0)
			} else {
				_ = unix.Mkfifo(path, 0o644)
			}
		case "socket":
			_ = unix.Mknod(path, unix.S_IFSOCK|0o644, 0)
		}
	}
}

// materialise (re)creates the directory on disk from its abstract state.
func (d *absDir) materialise() {
	_ = os.RemoveAll(d.Path)
	// a regular file possibly standing where an ancestor directory should be
	switch d.State {
	case dirMissing:
	case dirUnscannable:
		// the parent of the configured path is a regular file: lstat fails with ENOTDIR
		parent := filepath.Dir(d.Path)
		_ = os.RemoveAll(parent)
		_ = os.MkdirAll(filepath.Dir(parent), 0o755)
		_ = os.WriteFile(parent, []byte("not a directory"), 0o644)
	case dirIsFile:
		_ = os.MkdirAll(filepath.Dir(d.Path), 0o755)
		writeEntry(d.Path, d.File)
	default:
		if d.ViaLink {
			real := d.Path + ".real"
			_ = os.RemoveAll(real)
			_ = os.MkdirAll(real, 0o755)
			_ = os.MkdirAll(filepath.Dir(d.Path), 0o755)
			_ = os.Symlink(real, d.Path)
		} else {
			_ = os.MkdirAll(d.Path, 0o755)
		}
		for i := range d.Entries {
			writeEntry(filepath.Join(d.Path, d.Entries[i].Name), &d.Entries[i])
		}
	}
}

func (fs *absFS) materialise() {
	seen := map[string]bool{}
	for _, d := range fs.Dirs {
		if seen[d.Path] {
			continue
		}
		seen[d.Path] = true
		d.materialise()
	}
}

// ---------- generators ----------

var poolVendors = []string{"vendor1.com", "vendor2.org"}
var poolClasses = []string{"gpu", "nic"}
var poolDevNames = []string{"dev1", "dev2", "3d"}

func allPoolNames() []string {
	var out []string
	for _, v := range poolVendors {
		for _, c := range poolClasses {
			for _, n := range poolDevNames {
				out = append(out, v+"/"+c+"="+n)
			}
		}
	}
	return out
}

// genValidSpec: 1-3 devices with unique names, each with a fingerprint env entry; optional spec-level edits.
func genValidSpec(r *hx.R, fp string, rich bool) *specs.Spec {
	s := &specs.Spec{Version: "0.5.0", Kind: hx.Pick(r, poolVendors) + "/" + hx.Pick(r, poolClasses)}
	perm := r.Perm(len(poolDevNames))
	n := 1 + r.Intn(len(poolDevNames))
	for _, i := range perm[:n] {
		name := poolDevNames[i]
		d := specs.Device{Name: name}
		d.ContainerEdits.Env = []string{"FP=" + fp + ":" + name}
		if rich {
			richEdits(r, &d.ContainerEdits, fp+":"+name)
		}
		s.Devices = append(s.Devices, d)
	}
	if rich && r.Chance(0.25) {
		// Spec-level edits consisting of nothing but the two kinds added last (additional GIDs, Intel RDT)
		if r.Chance(0.7) {
			s.ContainerEdits.AdditionalGIDs = hx.Pick(r, [][]uint32{{11, 12}, {0, 13}, {14}})
		}
		if len(s.ContainerEdits.AdditionalGIDs) == 0 || r.Chance(0.5) {
			s.ContainerEdits.IntelRdt = &specs.IntelRdt{ClosID: "spec-" + hx.Pick(r, []string{"a", "b"}), L3CacheSchema: "L3:0=f"}
		}
	} else if rich || r.Chance(0.3) {
		s.ContainerEdits.Env = []string{"SPECFP=" + fp}
		if rich {
			richEdits(r, &s.ContainerEdits, fp)
		}
	}
	if v, err := specs.MinimumRequiredVersion(s); err == nil {
		s.Version = v
	}
	return s
}

// richEdits adds edit kinds whose duplication or loss is visible in an OCI spec (hooks, mounts, gids; device nodes
// with all attributes given so that no host node is needed).
func richEdits(r *hx.R, e *specs.ContainerEdits, tag string) {
	if r.Chance(0.6) {
		e.Hooks = append(e.Hooks, &specs.Hook{HookName: hx.Pick(r, []string{"prestart", "createRuntime", "poststop"}), Path: "/bin/hook-" + tag})
	}
	if r.Chance(0.35) {
		// a hook equal in every field to one that other edit lists carry too (and now and then twice in this one):
		// injection composes lists, it does not merge equal elements
		h := specs.Hook{HookName: "createContainer", Path: "/usr/bin/update-ldcache", Args: []string{"update-ldcache", hx.Pick(r, []string{"--all", "--fast"})}}
		for i, n := 0, 1+r.Intn(4)/3; i < n; i++ {
			hc := h
			e.Hooks = append(e.Hooks, &hc)
		}
	}
	if r.Chance(0.15) {
		e.Mounts = append(e.Mounts, &specs.Mount{HostPath: "/host/shared", ContainerPath: "/mnt/shared", Options: []string{"ro"}})
	}
	if r.Chance(0.5) {
		e.Mounts = append(e.Mounts, &specs.Mount{HostPath: "/host/" + tag, ContainerPath: hx.Pick(r, []string{"/mnt/a", "/mnt/a/b", "/mnt/c", "/data"}), Options: []string{"ro"}})
	}
	if r.Chance(0.5) {
		dn := &specs.DeviceNode{Path: hx.Pick(r, []string{"/dev/x0", "/dev/x1", "/dev/x2"}), Type: "c", Major: int64(1 + r.Intn(200)), Minor: int64(r.Intn(200)), Permissions: hx.Pick(r, []string{"", "rw", "r"})}
		if r.Chance(0.4) {
			fm := os.FileMode(hx.Pick(r, []uint32{0o660, 0o600, 8630, 25008, 0o4755}))
			dn.FileMode = &fm
		}
		if r.Chance(0.2) {
			dn.UID = u32(uint32(r.Intn(3)) * 100)
		}
		e.DeviceNodes = append(e.DeviceNodes, dn)
	}
	if r.Chance(0.3) {
		e.Env = append(e.Env, hx.Pick(r, []string{"SHARED=", "COMMON="})+tag)
	}
	if r.Chance(0.3) {
		e.AdditionalGIDs = hx.Pick(r, [][]uint32{{0, 5, 0, 7}, {0, 9}, {5, 5, 6}, {7}})
	}
	if r.Chance(0.2) {
		e.IntelRdt = &specs.IntelRdt{ClosID: "dev-" + hx.Pick(r, []string{"x", "y"}), EnableMBM: r.Chance(0.5)}
	}
	hostRichEdits(r, e)
}

var specNames = []string{"a.json", "b.yaml", "c.json", "d.yaml", ".json"}
var nonSpecNames = []string{"x.yml", "y.json.bak", "noext", "UP.JSON", "z.yaml~", "aa", "b.sock", "0fifo"}
var invalidKinds = []string{"syntax", "nodevices", "dupnames", "empty", "dangling", "linktodir", "badkind"}

func genEntry(r *hx.R, dirTag string, used map[string]bool, rich bool, faults bool) *absEntry {
	var name string
	kind := entValid
	x := r.Float64()
	switch {
	case x < 0.60:
		name = hx.Pick(r, specNames)
	case x < 0.72:
		name = hx.Pick(r, specNames)
		kind = entInvalid
	case x < 0.86:
		name = hx.Pick(r, nonSpecNames)
		if r.Chance(0.3) {
			kind = entInvalid
		}
	default:
		name = hx.Pick(r, []string{"sub", "s.json", "t.yaml"})
		kind = entSub
	}
	if faults && kind == entValid && r.Chance(0.35) {
		kind = entInvalid
	}
	if used[name] {
		return nil
	}
	used[name] = true
	e := &absEntry{Name: name, Kind: kind}
	switch kind {
	case entValid:
		e.Spec = genValidSpec(r, dirTag+"/"+name, rich)
		e.ViaLink = r.Chance(0.1)
	case entInvalid:
		e.Invalid = hx.Pick(r, invalidKinds)
		isSpecName := filepath.Ext(name) == ".json" || filepath.Ext(name) == ".yaml"
		if r.Chance(0.25) {
			// a special file: ignored under a non-Spec name, an unloadable Spec file under a Spec name; it must never hide
			// the entries that sort after it
			if isSpecName {
				e.Invalid = "socket"
			} else {
				e.Invalid = hx.Pick(r, []string{"fifo", "socket"})
			}
		}
	case entSub:
		e.SubFile = r.Chance(0.5)
	}
	return e
}

func genDirEntries(r *hx.R, tag string, rich, faults bool) []absEntry {
	used := map[string]bool{}
	var out []absEntry
	n := r.Intn(5)
	for i := 0; i < n; i++ {
		if e := genEntry(r, tag, used, rich, faults); e != nil {
			out = append(out, *e)
		}
	}
	return out
}

// genFS: 1-4 configured directories under root: missing, empty, populated, repeated; with faults also unscannable / is-file.
func genFS(r *hx.R, root string, rich, faults, dirFaults bool) *absFS {
	fs := &absFS{}
	n := 1 + r.Intn(4)
	if r.Chance(0.03) {
		n = 0
	}
	for i := 0; i < n; i++ {
		if i > 0 && r.Chance(0.12) {
			fs.Dirs = append(fs.Dirs, fs.Dirs[r.Intn(i)]) // repeated directory: the same object
			continue
		}
		d := &absDir{Path: filepath.Join(root, fmt.Sprintf("d%d", i)), State: dirDir}
		x := r.Float64()
		switch {
		case x < 0.12:
			d.State = dirMissing
		case dirFaults && x < 0.22:
			d.State = dirUnscannable
			d.Path = filepath.Join(root, fmt.Sprintf("f%d", i), "below")
		case dirFaults && x < 0.32:
			d.State = dirIsFile
			if r.Chance(0.7) {
				d.Path = filepath.Join(root, fmt.Sprintf("d%d.json", i))
			}
			used := map[string]bool{}
			var e *absEntry
			for e == nil || e.Kind == entSub {
				used = map[string]bool{}
				e = genEntry(r, fmt.Sprintf("d%d", i), used, rich, faults)
			}
			e.Name = filepath.Base(d.Path)
			if e.Kind == entInvalid && e.Invalid == "fifo" {
				e.Invalid = "socket" // a FIFO under a Spec name would block the reader: never generated
			}
			if e.Kind == entInvalid && (e.Invalid == "linktodir") {
				e.Invalid = "syntax" // a link to a directory as the configured path would be walked as a directory by nobody: keep it a file
			}
			d.File = e
		default:
			d.Entries = genDirEntries(r, fmt.Sprintf("d%d", i), rich, faults)
			d.ViaLink = r.Chance(0.12)
		}
		fs.Dirs = append(fs.Dirs, d)
	}
	return fs
}

// mutate applies one random change to the abstract state and to the disk; returns a description.
func (fs *absFS) mutate(r *hx.R, rich, faults bool) string {
	if len(fs.Dirs) == 0 {
		return "none"
	}
	d := hx.Pick(r, fs.Dirs)
	tag := filepath.Base(d.Path)
	switch d.State {
	case dirMissing:
		d.State = dirDir
		d.Entries = nil
		_ = os.MkdirAll(d.Path, 0o755)
		return "mkdir " + tag
	case dirUnscannable:
		// repair: the ancestor becomes a directory, the configured path an empty directory
		d.State = dirDir
		d.Entries = nil
		_ = os.RemoveAll(filepath.Dir(d.Path))
		_ = os.MkdirAll(d.Path, 0o755)
		return "repair-ancestor " + tag
	case dirIsFile:
		d.State = dirMissing
		d.File = nil
		_ = os.RemoveAll(d.Path)
		return "remove-file-dir " + tag
	}
	x := r.Float64()
	switch {
	case x < 0.45 || len(d.Entries) == 0: // write or overwrite
		used := map[string]bool{}
		e := genEntry(r, tag, used, rich, faults)
		for e == nil {
			e = genEntry(r, tag, used, rich, faults)
		}
		replaced := false
		for i := range d.Entries {
			if d.Entries[i].Name == e.Name {
				d.Entries[i] = *e
				replaced = true
			}
		}
		if !replaced {
			d.Entries = append(d.Entries, *e)
		}
		writeEntry(filepath.Join(d.Path, e.Name), e)
		if replaced {
			return "overwrite " + tag + "/" + e.Name
		}
		return "write " + tag + "/" + e.Name
	case x < 0.75: // remove
		i := r.Intn(len(d.Entries))
		name := d.Entries[i].Name
		_ = os.RemoveAll(filepath.Join(d.Path, name))
		_ = os.RemoveAll(filepath.Join(d.Path, name) + ".tgtdir")
		d.Entries = append(d.Entries[:i], d.Entries[i+1:]...)
		return "remove " + tag + "/" + name
	case x < 0.88 && faults: // repair: an invalid file becomes valid
		for i := range d.Entries {
			if d.Entries[i].Kind == entInvalid {
				d.Entries[i].Kind = entValid
				d.Entries[i].Spec = genValidSpec(r, tag+"/"+d.Entries[i].Name, rich)
				writeEntry(filepath.Join(d.Path, d.Entries[i].Name), &d.Entries[i])
				return "repair " + tag + "/" + d.Entries[i].Name
			}
		}
		fallthrough
	default: // rmdir
		_ = os.RemoveAll(d.Path)
		_ = os.RemoveAll(d.Path + ".real")
		d.State = dirMissing
		d.ViaLink = false
		d.Entries = nil
		return "rmdir " + tag
	}
}

// ---------- observation ----------

type probeObs struct {
	Name  string
	Found bool
	Path  string
	Prio  int
	FP    string
}

type cacheObs struct {
	Devices []string
	Probes  []probeObs
	Vendors []string
	Classes []string
	VSpecs  map[string][][2]interface{}
	ErrKeys []string
	RefErr  bool
	Panic   string
	Auto    bool
	DirErrs []string
}

func observeCache(c *cdi.Cache, probes []string, refresh bool) cacheObs {
	var o cacheObs
	panicked, msg := hx.Guard(func() {
		if refresh {
			o.RefErr = c.Refresh() != nil
		}
		o.Devices = c.ListDevices()
		for _, n := range probes {
			p := probeObs{Name: n}
			if d := c.GetDevice(n); d != nil {
				p.Found = true
				p.Path = d.GetSpec().GetPath()
				p.Prio = d.GetSpec().GetPriority()
				if len(d.ContainerEdits.Env) > 0 {
					p.FP = d.ContainerEdits.Env[0]
				}
			}
			o.Probes = append(o.Probes, p)
		}
		o.Vendors = c.ListVendors()
		o.Classes = c.ListClasses()
		o.VSpecs = map[string][][2]interface{}{}
		for _, v := range append(append([]string{}, o.Vendors...), "novendor.example") {
			var l [][2]interface{}
			for _, s := range c.GetVendorSpecs(v) {
				l = append(l, [2]interface{}{s.GetPath(), s.GetPriority()})
			}
			if v != "novendor.example" || len(l) > 0 {
				o.VSpecs[v] = l
			}
		}
		dirErrs := c.GetSpecDirErrors()
		for k := range dirErrs {
			o.DirErrs = append(o.DirErrs, k)
		}
		sort.Strings(o.DirErrs)
		for k := range c.GetErrors() {
			if _, isDir := dirErrs[k]; isDir {
				continue
			}
			o.ErrKeys = append(o.ErrKeys, k)
		}
		sort.Strings(o.ErrKeys)
	})
	if panicked {
		o.Panic = msg
	}
	return o
}

func (o *cacheObs) key() string {
	var b strings.Builder
	fmt.Fprint(&b, o.Devices, o.Probes, o.Vendors, o.Classes, o.ErrKeys, o.RefErr, o.Panic)
	vs := make([]string, 0, len(o.VSpecs))
	for v := range o.VSpecs {
		vs = append(vs, v)
	}
	sort.Strings(vs)
	for _, v := range vs {
		fmt.Fprint(&b, v, o.VSpecs[v])
	}
	return b.String()
}

func (o *cacheObs) term() string {
	probes := make([]string, len(o.Probes))
	for i, p := range o.Probes {
		v := hx.None
		if p.Found {
			v = hx.Some(hx.P(hx.S(p.Path), hx.Nat(p.Prio), hx.S(p.FP)))
		}
		probes[i] = hx.P(hx.S(p.Name), v)
	}
	vs := make([]string, 0, len(o.VSpecs))
	for v := range o.VSpecs {
		vs = append(vs, v)
	}
	sort.Strings(vs)
	vitems := make([]string, len(vs))
	for i, v := range vs {
		l := make([]string, len(o.VSpecs[v]))
		for j, pp := range o.VSpecs[v] {
			l[j] = hx.P(hx.S(pp[0].(string)), hx.Nat(pp[1].(int)))
		}
		vitems[i] = hx.P(hx.S(v), hx.L(l))
	}
	return hx.C("mkObs01", hx.LS(o.Devices), hx.L(probes), hx.LS(o.Vendors), hx.LS(o.Classes), hx.L(vitems), hx.LS(o.ErrKeys), hx.B(o.RefErr), hx.B(o.Auto), hx.LS(o.DirErrs))
}

// settle polls an auto-refresh cache until its observation equals the one of a freshly built manual cache on the same
// directories (deadline), and returns the last observation.
func settle(c *cdi.Cache, dirs []string, probes []string, deadline time.Duration, wantDirErrs []string) cacheObs {
	fresh := cdi.NewCache // placeholder to keep the import used when building without auto mode
	_ = fresh
	ref, _ := cdi.NewCache(cdi.WithSpecDirs(dirs...), cdi.WithAutoRefresh(false))
	want := observeCache(ref, probes, true)
	end := time.Now().Add(deadline)
	var got cacheObs
	for {
		got = observeCache(c, probes, true)
		if (got.key() == want.key() && fmt.Sprint(got.DirErrs) == fmt.Sprint(wantDirErrs)) || time.Now().After(end) {
			return got
		}
		time.Sleep(5 * time.Millisecond)
	}
}


// settleQuiet: like settle, but the cache is only queried, never asked to refresh, until it answers like a cache freshly
// built on the directories (or the deadline passes): what is observed is what automatic refresh alone achieved.  Once
// converged, one explicit Refresh supplies the refresh verdict.
func settleQuiet(c *cdi.Cache, dirs []string, probes []string, deadline time.Duration, wantDirErrs []string) cacheObs {
	ref, _ := cdi.NewCache(cdi.WithSpecDirs(dirs...), cdi.WithAutoRefresh(false))
	want := observeCache(ref, probes, true)
	end := time.Now().Add(deadline)
	for {
		got := observeCache(c, probes, false)
		got.RefErr = want.RefErr
		if got.key() == want.key() && fmt.Sprint(got.DirErrs) == fmt.Sprint(wantDirErrs) {
			return observeCache(c, probes, true)
		}
		if time.Now().After(end) {
			return got
		}
		time.Sleep(5 * time.Millisecond)
	}
}

// missingDirs: the configured directories that do not exist (sorted, without repetitions): what an automatic-refresh cache
// reports as directory errors.
func (fs *absFS) missingDirs() []string {
	seen := map[string]bool{}
	out := []string{}
	for _, d := range fs.Dirs {
		if d.State == dirMissing && !seen[d.Path] {
			seen[d.Path] = true
			out = append(out, d.Path)
		}
	}
	sort.Strings(out)
	return out
}
