package main

// Abstract directory populations shared by the cache harnesses (C01, C13, C02, C04, C14): the abstract state, its
// materialisation as real directories and files, its Gallina term (CDI.Cache.fsview) and the observation of a cache
// through the query API.

import (
	"fmt"
	"os"
	"path/filepath"
	"runtime"
	"sort"
	"strings"
	"time"

	"golang.org/x/sys/unix"

	"tags.cncf.io/container-device-interface/pkg/cdi"
	specs "tags.cncf.io/container-device-interface/specs-go"
	"verif/harness/hx"
)

// DEFECT-PENDING(link-target-unwatched): see notes/audit/DEFECT-C13-link-target-unwatched.md.  In automatic refresh mode a
// Spec file which is a dangling link stays in error after its target has been created under a non-Spec name (no event
// the watcher reacts to, and Refresh() does not rescan in that mode).  While false, this repair is only generated for
// manual-refresh caches.
const defectPendingLinkTargetUnwatched = true // repaired: D26

const (
	entValid = iota
	entInvalid
	entSub
)

type absEntry struct {
	Name    string
	Kind    int
	Spec    *specs.Spec // entValid
	Invalid string      // entInvalid: syntax | nodevices | dupnames | empty | dangling | linktodir | badkind | selflink | enotdirlink | toolonglink | socket | fifo | unreadable
	SubFile bool        // entSub: put a valid-looking Spec file inside the sub-directory
	ViaLink bool        // entValid: the name is a symbolic link to the Spec file (which lives outside the configured directories)
	LinkHow int         // ViaLink: 0 absolute target, 1 relative target, 2 a chain of two links, 3 target <name>.target next to the link
}

const (
	dirMissing = iota
	dirUnscannable
	dirIsFile
	dirDir
)

type absDir struct {
	Path    string // absolute and clean: where the directory is on disk
	Rel     string // if set: the (clean) path relative to the working directory under which the directory is configured
	State   int
	Entries []absEntry // dirDir
	File    *absEntry  // dirIsFile
	ViaLink bool       // dirDir: the configured path is a symbolic link to the directory
	// dirUnscannable: "" = the parent of the path is a regular file (ENOTDIR); otherwise a permission fault which shows only
	// while the scanning thread is without CAP_DAC_OVERRIDE / CAP_DAC_READ_SEARCH (withoutDACCaps): "mode000", "mode444"
	// (names can be listed, no entry can be looked at), "mode111" (cannot be listed), "parent000".  The Entries are on disk
	// all the time and become visible when the permissions are repaired.
	Unscan string
}

// absFS: the configured directories in order; Spell (optional, parallel to Dirs) holds the spelling handed to WithSpecDirs
// for that position (a spelling which filepath.Clean brings to Dirs[i].Path by construction).
type absFS struct {
	Dirs  []*absDir
	Spell []string
}

// fsOpts: what the generators may produce.
type fsOpts struct {
	rich      bool // edits of every kind (injection harnesses)
	faults    bool // the C13 fault vocabulary for files, and repairs
	dirFaults bool // configured paths that are files / have a non-directory ancestor, and directories turning into such
	perm      bool // permission faults (the cache must then be used under withoutDACCaps only)
	auto      bool // the cache under test refreshes automatically
	relative  bool // directories may be configured relative to the working directory (the harness has moved into its scratch directory)
	quiet     bool // the cache is observed without ever being asked to refresh (settleQuiet): only changes which produce an event
}

func (e *absEntry) term() string {
	switch e.Kind {
	case entValid:
		return hx.C("EFile", hx.Some(specTerm(e.Spec)))
	case entInvalid:
		return "(EFile None)"
	}
	return "ESub"
}

func (d *absDir) term() string {
	var st string
	switch d.State {
	case dirMissing:
		st = "DMissing"
	case dirUnscannable:
		st = "DUnscannable"
	case dirIsFile:
		st = hx.C("DIsFile", d.File.term())
	default:
		items := make([]string, len(d.Entries))
		for i := range d.Entries {
			items[i] = hx.P(hx.S(d.Entries[i].Name), d.Entries[i].term())
		}
		st = hx.C("DDir", hx.L(items))
	}
	return hx.P(hx.S(d.confPath()), st)
}

// confPath: the clean path the directory is configured under (what the cache reports paths below).
func (d *absDir) confPath() string {
	if d.Rel != "" {
		return d.Rel
	}
	return d.Path
}

func (fs *absFS) term() string {
	items := make([]string, len(fs.Dirs))
	for i, d := range fs.Dirs {
		items[i] = d.term()
	}
	return hx.L(items)
}

// dirList: the directory list as handed to WithSpecDirs (a fresh slice every time).
func (fs *absFS) dirList() []string {
	out := make([]string, len(fs.Dirs))
	for i, d := range fs.Dirs {
		out[i] = d.confPath()
		if i < len(fs.Spell) && fs.Spell[i] != "" {
			out[i] = fs.Spell[i]
		}
	}
	return out
}

// add appends a directory (clean spelling).
func (fs *absFS) add(d *absDir) {
	if fs.Spell != nil {
		for len(fs.Spell) < len(fs.Dirs) {
			fs.Spell = append(fs.Spell, "")
		}
		fs.Spell = append(fs.Spell, "")
	}
	fs.Dirs = append(fs.Dirs, d)
}

// spellDir: an unusual but equivalent spelling of a clean absolute path: filepath.Clean(spellDir(p)) == p by construction.
func spellDir(r *hx.R, p string) string {
	dir, base := filepath.Dir(p), filepath.Base(p)
	switch r.Intn(7) {
	case 0:
		return p + "/"
	case 1:
		return dir + "//" + base
	case 2:
		return dir + "/./" + base
	case 3:
		return p + "/."
	case 4:
		return dir + "/zz/../" + base
	case 5:
		return p + "//"
	}
	return dir + "/" + base + "/yy/.."
}

// desc renders the abstract state for evidence and replays.
func (fs *absFS) desc() interface{} {
	var out []interface{}
	for i, d := range fs.Dirs {
		m := map[string]interface{}{"path": d.confPath(), "state": []string{"missing", "unscannable", "is-file", "dir"}[d.State]}
		if i < len(fs.Spell) && fs.Spell[i] != "" {
			m["configured_as"] = fs.Spell[i]
		}
		if d.ViaLink {
			m["symbolic_link_to_directory"] = true
		}
		if d.State == dirUnscannable {
			how := d.Unscan
			if how == "" {
				how = "parent is a regular file"
			}
			m["unscannable_because"] = how
		}
		var ents []interface{}
		list := d.Entries
		if d.State == dirIsFile {
			list = []absEntry{*d.File}
		}
		for _, e := range list {
			switch e.Kind {
			case entValid:
				x := map[string]interface{}{"name": e.Name, "spec": specJSON(e.Spec)}
				if e.ViaLink {
					x["symbolic_link"] = []string{"absolute", "relative", "chain of two", "to <name>.target"}[e.LinkHow]
				}
				ents = append(ents, x)
			case entInvalid:
				ents = append(ents, map[string]interface{}{"name": e.Name, "invalid": e.Invalid})
			default:
				ents = append(ents, map[string]interface{}{"name": e.Name, "subdir": true})
			}
		}
		if ents != nil {
			m["entries"] = ents
		}
		out = append(out, m)
	}
	return out
}

// linkStore: where the targets of linked Spec files live (a sibling of the configured directories, never scanned itself).
var linkSeq int

func linkStore(path string) string {
	// configured directories are <root>/<name> or <root>/<name>/below: walk up to the scenario root
	dir := filepath.Dir(path)
	if filepath.Base(dir) == "below" {
		dir = filepath.Dir(dir)
	}
	return filepath.Join(filepath.Dir(dir), "linked-specs")
}

// isRegularContent: the entry is materialised as a regular file holding bytes (so that it can also be rewritten in place).
func (e *absEntry) isRegularContent() bool {
	switch e.Kind {
	case entValid:
		return !e.ViaLink
	case entInvalid:
		switch e.Invalid {
		case "syntax", "nodevices", "dupnames", "badkind", "empty":
			return true
		}
	}
	return false
}

// hasCompanion: something next to the entry belongs to it (<name>.tgtdir, <name>.target): such entries are not renamed.
func (e *absEntry) hasCompanion() bool {
	return (e.Kind == entInvalid && (e.Invalid == "linktodir" || e.Invalid == "dangling" || e.Invalid == "selflink")) ||
		(e.Kind == entValid && e.ViaLink && e.LinkHow == 3)
}

func removeEntry(path string) {
	_ = os.RemoveAll(path)
	_ = os.RemoveAll(path + ".tgtdir")
	_ = os.RemoveAll(path + ".target")
}

func writeEntry(path string, e *absEntry) { writeEntryHow(path, e, false) }

// writeEntryHow: inPlace rewrites an existing regular file through open(O_TRUNC) + write instead of replacing it.
func writeEntryHow(path string, e *absEntry, inPlace bool) {
	if !inPlace {
		removeEntry(path)
	}
	switch e.Kind {
	case entValid:
		if e.ViaLink {
			if e.LinkHow == 3 {
				writeSpecFile(danglingTarget(path), e.Spec)
				_ = os.Symlink(danglingTarget(path), path)
				return
			}
			store := linkStore(path)
			_ = os.MkdirAll(store, 0o755)
			linkSeq++
			tgt := filepath.Join(store, fmt.Sprintf("t%d%s", linkSeq, filepath.Ext(path)))
			if ext := filepath.Ext(tgt); ext != ".json" && ext != ".yaml" {
				tgt += ".yaml"
			}
			writeSpecFile(tgt, e.Spec)
			switch e.LinkHow {
			case 1: // relative to the directory the link lives in (configured directories are siblings of the store)
				rel := filepath.Join("..", "linked-specs", filepath.Base(tgt))
				if filepath.Base(filepath.Dir(path)) == "below" {
					rel = filepath.Join("..", rel)
				}
				_ = os.Symlink(rel, path)
			case 2: // link -> link -> file
				mid := filepath.Join(store, fmt.Sprintf("m%d", linkSeq))
				_ = os.Symlink(filepath.Base(tgt), mid)
				_ = os.Symlink(mid, path)
			default:
				_ = os.Symlink(tgt, path)
			}
		} else {
			writeSpecFile(path, e.Spec)
		}
	case entSub:
		_ = os.MkdirAll(path, 0o755)
		if e.SubFile {
			_ = os.WriteFile(filepath.Join(path, "inner.json"), []byte(`{"cdiVersion":"0.3.0","kind":"vendor1.com/gpu","devices":[{"name":"inner","containerEdits":{"env":["FP=inner"]}}]}`), 0o644)
		}
	case entInvalid:
		switch e.Invalid {
		case "syntax":
			_ = os.WriteFile(path, []byte("{ this is : [ not a spec"), 0o644)
		case "nodevices":
			_ = os.WriteFile(path, []byte(`{"cdiVersion":"0.3.0","kind":"vendor1.com/gpu","devices":[]}`), 0o644)
		case "dupnames":
			_ = os.WriteFile(path, []byte(`{"cdiVersion":"0.3.0","kind":"vendor1.com/gpu","devices":[{"name":"dev1","containerEdits":{"env":["A=b"]}},{"name":"dev1","containerEdits":{"env":["A=c"]}}]}`), 0o644)
		case "badkind":
			_ = os.WriteFile(path, []byte(`{"cdiVersion":"0.3.0","kind":"novendor","devices":[{"name":"dev1","containerEdits":{"env":["A=b"]}}]}`), 0o644)
		case "empty":
			_ = os.WriteFile(path, nil, 0o644)
		case "dangling":
			_ = os.Symlink(danglingTarget(path), path)
		case "selflink": // two links pointing at each other: ELOOP when opened
			_ = os.Symlink(path, path+".target")
			_ = os.Symlink(path+".target", path)
		case "enotdirlink": // the target has a non-directory ancestor: ENOTDIR when opened
			_ = os.Symlink("/dev/null/x.json", path)
		case "toolonglink": // ENAMETOOLONG when opened
			_ = os.Symlink("/"+strings.Repeat("n", 300)+".json", path)
		case "linktodir":
			tgt := path + ".tgtdir"
			_ = os.MkdirAll(tgt, 0o755)
			_ = os.Symlink(tgt, path)
		case "fifo": // only under names without a Spec extension: reading one would block
			if ext := filepath.Ext(path); ext == ".json" || ext == ".yaml" {
				_ = unix.Mknod(path, unix.S_IFSOCK|0o644, 0)
			} else {
				_ = unix.Mkfifo(path, 0o644)
			}
		case "socket":
			_ = unix.Mknod(path, unix.S_IFSOCK|0o644, 0)
		case "unreadable": // a perfectly good Spec nobody may read (shows only without the DAC capabilities)
			_ = os.WriteFile(path, []byte(`{"cdiVersion":"0.3.0","kind":"vendor1.com/gpu","devices":[{"name":"dev1","containerEdits":{"env":["FP=unreadable"]}}]}`), 0o644)
			_ = os.Chmod(path, 0)
		}
	}
}

// danglingTarget: where a dangling link of this name points: <name>.target next to it (not a Spec name).
func danglingTarget(path string) string { return path + ".target" }

// materialise (re)creates the directory on disk from its abstract state.
func (d *absDir) materialise() {
	d.clearPerm()
	_ = os.RemoveAll(d.Path)
	_ = os.RemoveAll(d.Path + ".real")
	switch d.State {
	case dirMissing:
	case dirUnscannable:
		if d.Unscan != "" {
			_ = os.MkdirAll(d.Path, 0o755)
			for i := range d.Entries {
				writeEntry(filepath.Join(d.Path, d.Entries[i].Name), &d.Entries[i])
			}
			d.applyPerm()
			return
		}
		// the parent of the configured path is a regular file: lstat fails with ENOTDIR
		parent := filepath.Dir(d.Path)
		_ = os.RemoveAll(parent)
		_ = os.MkdirAll(filepath.Dir(parent), 0o755)
		_ = os.WriteFile(parent, []byte("not a directory"), 0o644)
	case dirIsFile:
		_ = os.MkdirAll(filepath.Dir(d.Path), 0o755)
		writeEntry(d.Path, d.File)
	default:
		if d.ViaLink {
			real := d.Path + ".real"
			_ = os.MkdirAll(real, 0o755)
			_ = os.MkdirAll(filepath.Dir(d.Path), 0o755)
			_ = os.Symlink(real, d.Path)
		} else {
			_ = os.MkdirAll(d.Path, 0o755)
		}
		for i := range d.Entries {
			writeEntry(filepath.Join(d.Path, d.Entries[i].Name), &d.Entries[i])
		}
	}
}

// applyPerm puts the permission fault of an unscannable directory in place; clearPerm takes it away.
func (d *absDir) applyPerm() {
	switch d.Unscan {
	case "mode000":
		_ = os.Chmod(d.Path, 0)
	case "mode444":
		_ = os.Chmod(d.Path, 0o444)
	case "mode111":
		_ = os.Chmod(d.Path, 0o111)
	case "parent000":
		_ = os.Chmod(filepath.Dir(d.Path), 0)
	}
}

func (d *absDir) clearPerm() {
	if d.Unscan == "" {
		return
	}
	if d.Unscan == "parent000" {
		_ = os.Chmod(filepath.Dir(d.Path), 0o755)
	}
	if fi, err := os.Stat(d.Path); err == nil && fi.IsDir() {
		_ = os.Chmod(d.Path, 0o755)
	}
}

// withoutDACCaps runs f on a thread which has given up CAP_DAC_OVERRIDE and CAP_DAC_READ_SEARCH for the duration: file
// permissions then apply to this (root) process as to anybody, so that unreadable directories and files can be produced.
// Only the calling goroutine is affected (a manual-refresh cache scans on the caller's goroutine).  Returns false when the
// capabilities cannot be handled here (f has then not been run).
func withoutDACCaps(f func()) bool {
	runtime.LockOSThread()
	defer runtime.UnlockOSThread()
	hdr := unix.CapUserHeader{Version: unix.LINUX_CAPABILITY_VERSION_3}
	var data [2]unix.CapUserData
	if err := unix.Capget(&hdr, &data[0]); err != nil {
		return false
	}
	saved := data
	data[0].Effective &^= (1 << unix.CAP_DAC_OVERRIDE) | (1 << unix.CAP_DAC_READ_SEARCH)
	if err := unix.Capset(&hdr, &data[0]); err != nil {
		return false
	}
	defer func() {
		if err := unix.Capset(&hdr, &saved[0]); err != nil {
			panic("cannot restore capabilities: " + err.Error())
		}
	}()
	f()
	return true
}

// dacCapsWork: permission faults can be produced here (root whose capabilities can be dropped per thread).
func dacCapsWork(scratch string) bool {
	_ = os.MkdirAll(scratch, 0o755)
	p := filepath.Join(scratch, "capprobe")
	_ = os.WriteFile(p, []byte("x"), 0)
	defer os.Remove(p)
	denied := false
	ok := withoutDACCaps(func() {
		_, err := os.ReadFile(p)
		denied = err != nil
	})
	_, err := os.ReadFile(p)
	return ok && denied && err == nil
}

func (fs *absFS) materialise() {
	seen := map[string]bool{}
	for _, d := range fs.Dirs {
		if seen[d.Path] {
			continue
		}
		seen[d.Path] = true
		d.materialise()
	}
}

// ---------- generators ----------

var poolVendors = []string{"vendor1.com", "vendor2.org"}
var poolClasses = []string{"gpu", "nic"}
var poolDevNames = []string{"dev1", "dev2", "3d"}

// spellings which differ from a pool name only in the case of a letter: other names altogether
var caseVendor, caseClass, caseDevName = "Vendor1.com", "GPU", "Dev1"

func allPoolNames() []string {
	var out []string
	for _, v := range poolVendors {
		for _, c := range poolClasses {
			for _, n := range poolDevNames {
				out = append(out, v+"/"+c+"="+n)
			}
		}
	}
	return out
}

// definedNames: every qualified name some valid Spec of the population defines (whatever the file is called), sorted.
func (fs *absFS) definedNames() []string {
	seen := map[string]bool{}
	for _, d := range fs.Dirs {
		list := d.Entries
		if d.State == dirIsFile && d.File != nil {
			list = []absEntry{*d.File}
		}
		for _, e := range list {
			if e.Kind == entValid {
				for _, dev := range e.Spec.Devices {
					seen[e.Spec.Kind+"="+dev.Name] = true
				}
			}
		}
	}
	out := make([]string, 0, len(seen))
	for n := range seen {
		out = append(out, n)
	}
	sort.Strings(out)
	return out
}

// probeNames: the pool names, the names the population defines beyond the pool, and names nothing defines.
func (fs *absFS) probeNames() []string {
	out := allPoolNames()
	seen := map[string]bool{}
	for _, n := range out {
		seen[n] = true
	}
	for _, n := range fs.definedNames() {
		if !seen[n] {
			seen[n] = true
			out = append(out, n)
		}
	}
	return append(out, "vendor1.com/gpu=none", "VENDOR1.COM/gpu=dev1", "vendor1.com/gpu=dev1 ", "bogus", "")
}

// genValidSpec: 1-3 devices with unique names, each with a fingerprint env entry; optional spec-level edits.
func genValidSpec(r *hx.R, fp string, rich bool) *specs.Spec {
	vendor, class := hx.Pick(r, poolVendors), hx.Pick(r, poolClasses)
	if r.Chance(0.07) {
		vendor = caseVendor
	}
	if r.Chance(0.05) {
		class = caseClass
	}
	s := &specs.Spec{Version: "0.5.0", Kind: vendor + "/" + class}
	names := poolDevNames
	if r.Chance(0.15) {
		names = append(append([]string{}, poolDevNames...), caseDevName)
	}
	perm := r.Perm(len(names))
	n := 1 + r.Intn(len(poolDevNames))
	for _, i := range perm[:n] {
		name := names[i]
		d := specs.Device{Name: name}
		d.ContainerEdits.Env = []string{"FP=" + fp + ":" + name}
		if rich {
			richEdits(r, &d.ContainerEdits, fp+":"+name)
		}
		s.Devices = append(s.Devices, d)
	}
	if rich && r.Chance(0.25) {
		// Spec-level edits consisting of nothing but the two kinds added last (additional GIDs, Intel RDT)
		if r.Chance(0.7) {
			s.ContainerEdits.AdditionalGIDs = hx.Pick(r, [][]uint32{{11, 12}, {0, 13}, {14}})
		}
		if len(s.ContainerEdits.AdditionalGIDs) == 0 || r.Chance(0.5) {
			s.ContainerEdits.IntelRdt = &specs.IntelRdt{ClosID: "spec-" + hx.Pick(r, []string{"a", "b"}), L3CacheSchema: "L3:0=f"}
		}
	} else if rich || r.Chance(0.3) {
		s.ContainerEdits.Env = []string{"SPECFP=" + fp}
		if rich {
			richEdits(r, &s.ContainerEdits, fp)
		}
	}
	if v, err := specs.MinimumRequiredVersion(s); err == nil {
		s.Version = v
	}
	return s
}

// genSpecDefining: a valid Spec of the given kind whose first device has the given name (others of the pool may follow).
func genSpecDefining(r *hx.R, fp, kind, dev string) *specs.Spec {
	s := &specs.Spec{Version: "0.5.0", Kind: kind}
	names := []string{dev}
	for _, n := range poolDevNames {
		if n != dev && r.Chance(0.4) {
			names = append(names, n)
		}
	}
	for _, name := range names {
		d := specs.Device{Name: name}
		d.ContainerEdits.Env = []string{"FP=" + fp + ":" + name}
		s.Devices = append(s.Devices, d)
	}
	if r.Chance(0.3) {
		s.ContainerEdits.Env = []string{"SPECFP=" + fp}
	}
	if v, err := specs.MinimumRequiredVersion(s); err == nil {
		s.Version = v
	}
	return s
}

// richEdits adds edit kinds whose duplication or loss is visible in an OCI spec (hooks, mounts, gids; device nodes
// with all attributes given so that no host node is needed).
func richEdits(r *hx.R, e *specs.ContainerEdits, tag string) {
	if r.Chance(0.6) {
		e.Hooks = append(e.Hooks, &specs.Hook{HookName: hx.Pick(r, []string{"prestart", "createRuntime", "poststop"}), Path: "/bin/hook-" + tag})
	}
	if r.Chance(0.35) {
		// a hook equal in every field to one that other edit lists carry too (and now and then twice in this one):
		// injection composes lists, it does not merge equal elements
		h := specs.Hook{HookName: "createContainer", Path: "/usr/bin/update-ldcache", Args: []string{"update-ldcache", hx.Pick(r, []string{"--all", "--fast"})}}
		for i, n := 0, 1+r.Intn(4)/3; i < n; i++ {
			hc := h
			e.Hooks = append(e.Hooks, &hc)
		}
	}
	if r.Chance(0.15) {
		e.Mounts = append(e.Mounts, &specs.Mount{HostPath: "/host/shared", ContainerPath: "/mnt/shared", Options: []string{"ro"}})
	}
	if r.Chance(0.5) {
		e.Mounts = append(e.Mounts, &specs.Mount{HostPath: "/host/" + tag, ContainerPath: hx.Pick(r, []string{"/mnt/a", "/mnt/a/b", "/mnt/c", "/data"}), Options: []string{"ro"}})
	}
	if r.Chance(0.5) {
		dn := &specs.DeviceNode{Path: hx.Pick(r, []string{"/dev/x0", "/dev/x1", "/dev/x2"}), Type: "c", Major: int64(1 + r.Intn(200)), Minor: int64(r.Intn(200)), Permissions: hx.Pick(r, []string{"", "rw", "r"})}
		if r.Chance(0.4) {
			fm := os.FileMode(hx.Pick(r, []uint32{0o660, 0o600, 8630, 25008, 0o4755}))
			dn.FileMode = &fm
		}
		if r.Chance(0.2) {
			dn.UID = u32(uint32(r.Intn(3)) * 100)
		}
		e.DeviceNodes = append(e.DeviceNodes, dn)
	}
	if r.Chance(0.3) {
		e.Env = append(e.Env, hx.Pick(r, []string{"SHARED=", "COMMON="})+tag)
	}
	if r.Chance(0.3) {
		e.AdditionalGIDs = hx.Pick(r, [][]uint32{{0, 5, 0, 7}, {0, 9}, {5, 5, 6}, {7}})
	}
	if r.Chance(0.2) {
		e.IntelRdt = &specs.IntelRdt{ClosID: "dev-" + hx.Pick(r, []string{"x", "y"}), EnableMBM: r.Chance(0.5)}
	}
	hostRichEdits(r, e)
}

var specNames = []string{"a.json", "b.yaml", "c.json", "d.yaml", ".json"}

// Spec names of unusual shape: a name differing from a usual one in case only, several dots, both extensions, a blank,
// a non-ASCII letter, a leading dash, nothing but dots before the extension, the longest name a directory can hold
var oddSpecNames = []string{"A.json", "a.b.json", "a.json.yaml", "b.yaml.json", "x y.yaml", "\xc3\xbc.json", "-n.json", "..yaml", ".yaml",
	strings.Repeat("l", 250) + ".json"}
var nonSpecNames = []string{"x.yml", "y.json.bak", "noext", "UP.JSON", "z.yaml~", "aa", "b.sock", "0fifo"}

// names which only look like Spec names: other case, the extension without its dot or not at the very end, one letter
// more or less
var oddNonSpecNames = []string{"json", "xjson", "myyaml", "a.jsonx", "a.json ", "a.Json", "B.YAML", "a.yaml.bak", "a.json.", ".json.swp",
	"a_json", "a.jso", "a.yam", "a.json,v", "c.json.d"}
var invalidKinds = []string{"syntax", "nodevices", "dupnames", "empty", "dangling", "linktodir", "badkind", "selflink", "enotdirlink", "toolonglink"}

func pickSpecName(r *hx.R) string {
	if r.Chance(0.22) {
		return hx.Pick(r, oddSpecNames)
	}
	return hx.Pick(r, specNames)
}

func pickNonSpecName(r *hx.R) string {
	if r.Chance(0.45) {
		return hx.Pick(r, oddNonSpecNames)
	}
	return hx.Pick(r, nonSpecNames)
}

func isSpecFileName(name string) bool {
	ext := filepath.Ext(name)
	return ext == ".json" || ext == ".yaml"
}

func genEntry(r *hx.R, dirTag string, used map[string]bool, o fsOpts) *absEntry {
	var name string
	kind := entValid
	x := r.Float64()
	switch {
	case x < 0.60:
		name = pickSpecName(r)
	case x < 0.72:
		name = pickSpecName(r)
		kind = entInvalid
	case x < 0.86:
		name = pickNonSpecName(r)
		if r.Chance(0.3) {
			kind = entInvalid
		}
	default:
		name = hx.Pick(r, []string{"sub", "s.json", "t.yaml"})
		kind = entSub
	}
	if o.faults && kind == entValid && r.Chance(0.35) {
		kind = entInvalid
	}
	if used[name] {
		return nil
	}
	used[name] = true
	return genEntryNamed(r, dirTag, name, kind, o)
}

func genEntryNamed(r *hx.R, dirTag, name string, kind int, o fsOpts) *absEntry {
	e := &absEntry{Name: name, Kind: kind}
	switch kind {
	case entValid:
		e.Spec = genValidSpec(r, dirTag+"/"+name, o.rich)
		e.ViaLink = r.Chance(0.12)
		e.LinkHow = r.Intn(3)
	case entInvalid:
		e.Invalid = hx.Pick(r, invalidKinds)
		if r.Chance(0.25) {
			// a special file: ignored under a non-Spec name, an unloadable Spec file under a Spec name; it must never hide
			// the entries that sort after it
			if isSpecFileName(name) {
				e.Invalid = "socket"
			} else {
				e.Invalid = hx.Pick(r, []string{"fifo", "socket"})
				if len(name) > 6 || strings.Contains(name, "json") || strings.Contains(name, "yaml") {
					// a FIFO only under names nobody could take for a Spec file: whoever opens one hangs
					e.Invalid = "socket"
				}
			}
		} else if o.perm && r.Chance(0.35) {
			e.Invalid = "unreadable"
		}
	case entSub:
		e.SubFile = r.Chance(0.5)
	}
	return e
}

func genDirEntries(r *hx.R, tag string, o fsOpts) []absEntry {
	used := map[string]bool{}
	var out []absEntry
	n := r.Intn(5)
	if r.Chance(0.06) {
		n = 5 + r.Intn(4)
	}
	for i := 0; i < n; i++ {
		if e := genEntry(r, tag, used, o); e != nil {
			out = append(out, *e)
		}
	}
	return out
}

// genFileAsDir: what stands at a configured path which is not a directory.
func genFileAsDir(r *hx.R, tag, base string, o fsOpts) *absEntry {
	var e *absEntry
	for e == nil || e.Kind == entSub {
		e = genEntry(r, tag, map[string]bool{}, o)
	}
	e.Name = base
	if e.Kind == entValid && o.auto && (!defectPendingLinkTargetUnwatched || o.quiet) {
		// DEFECT-PENDING(link-target-unwatched): a configured path which is a link to a Spec file is watched behind the link;
		// taking the link away is not noticed in automatic mode
		e.ViaLink = false
	}
	if e.Kind == entInvalid {
		switch e.Invalid {
		case "fifo":
			e.Invalid = "socket" // a FIFO under a Spec name would block the reader: never generated
		case "linktodir":
			e.Invalid = "syntax" // a link to a directory as the configured path is a configured directory (ViaLink)
		case "dangling", "selflink", "enotdirlink", "toolonglink":
			if o.auto {
				// such a path is also a directory the watcher cannot watch: it would carry a Spec error and a directory
				// error under one key; kept to manual mode
				e.Invalid = "empty"
			}
		}
	}
	return e
}

// genFS: 0-6 configured directories under root: missing, empty, populated, repeated (also in another spelling), spelled
// unusually; with dirFaults also a file / below a file; with perm also without the permissions needed to scan them.
func genFS(r *hx.R, root string, o fsOpts) *absFS {
	fs := &absFS{}
	n := 1 + r.Intn(4)
	if r.Chance(0.03) {
		n = 0
	} else if r.Chance(0.05) {
		n = 5 + r.Intn(2)
	}
	for i := 0; i < n; i++ {
		if i > 0 && r.Chance(0.12) {
			fs.Dirs = append(fs.Dirs, fs.Dirs[r.Intn(i)]) // repeated directory: the same object
			continue
		}
		d := &absDir{Path: filepath.Join(root, fmt.Sprintf("d%d", i)), State: dirDir}
		tag := fmt.Sprintf("d%d", i)
		x := r.Float64()
		switch {
		case x < 0.12:
			d.State = dirMissing
		case o.dirFaults && x < 0.22:
			d.State = dirUnscannable
			d.Path = filepath.Join(root, fmt.Sprintf("f%d", i), "below")
		case o.dirFaults && x < 0.32:
			d.State = dirIsFile
			if r.Chance(0.7) {
				d.Path = filepath.Join(root, fmt.Sprintf("d%d.json", i))
			}
			d.File = genFileAsDir(r, tag, filepath.Base(d.Path), o)
		case o.perm && x < 0.50:
			d.State = dirUnscannable
			d.Unscan = hx.Pick(r, []string{"mode000", "mode444", "mode111", "parent000"})
			if d.Unscan == "parent000" {
				d.Path = filepath.Join(root, fmt.Sprintf("p%d", i), "below")
			}
			d.Entries = genDirEntries(r, tag, o)
			if len(d.Entries) == 0 {
				d.Entries = []absEntry{*genEntryNamed(r, tag, "a.json", entValid, o)}
			}
		default:
			if r.Chance(0.08) {
				// a directory whose own name looks like a Spec file
				d.Path = filepath.Join(root, fmt.Sprintf("d%d%s", i, hx.Pick(r, []string{".json", ".yaml"})))
			}
			d.Entries = genDirEntries(r, tag, o)
			d.ViaLink = r.Chance(0.12)
		}
		fs.Dirs = append(fs.Dirs, d)
	}
	if wd, err := os.Getwd(); err == nil && o.relative {
		// now and then a directory is configured relative to the working directory
		for _, d := range fs.Dirs {
			if rel, err := filepath.Rel(wd, d.Path); err == nil && !strings.HasPrefix(rel, "..") && d.Rel == "" && r.Chance(0.07) {
				d.Rel = rel
			}
		}
	}
	fs.Spell = make([]string, len(fs.Dirs))
	for i, d := range fs.Dirs {
		switch {
		case d.Rel != "" && r.Chance(0.5):
			fs.Spell[i] = "./" + d.Rel
		case d.Rel != "":
		case r.Chance(0.2):
			fs.Spell[i] = spellDir(r, d.Path)
		}
	}
	return fs
}

// mutate applies one random change to the abstract state and to the disk; returns a description.
func (fs *absFS) mutate(r *hx.R, o fsOpts) string {
	if len(fs.Dirs) == 0 {
		return "none"
	}
	d := hx.Pick(r, fs.Dirs)
	tag := filepath.Base(d.Path)
	if tag == "below" {
		tag = filepath.Base(filepath.Dir(d.Path))
	}
	switch d.State {
	case dirMissing:
		d.State = dirDir
		d.Entries = nil
		_ = os.MkdirAll(d.Path, 0o755)
		return "mkdir " + tag
	case dirUnscannable:
		if d.Unscan != "" {
			// repair: the permissions are given back; what has been in the directory all the time is seen now
			d.clearPerm()
			d.State = dirDir
			how := d.Unscan
			d.Unscan = ""
			return "repair-permissions (" + how + ") " + tag
		}
		// repair: the ancestor becomes a directory, the configured path an empty directory
		d.State = dirDir
		d.Entries = nil
		_ = os.RemoveAll(filepath.Dir(d.Path))
		_ = os.MkdirAll(d.Path, 0o755)
		return "repair-ancestor " + tag
	case dirIsFile:
		_ = os.RemoveAll(d.Path)
		removeEntry(d.Path)
		d.File = nil
		if r.Chance(0.4) {
			d.State = dirDir
			d.Entries = nil
			_ = os.MkdirAll(d.Path, 0o755)
			return "file-becomes-directory " + tag
		}
		d.State = dirMissing
		return "remove-file-dir " + tag
	}
	x := r.Float64()
	var bad []int
	for i := range d.Entries {
		if d.Entries[i].Kind == entInvalid {
			bad = append(bad, i)
		}
	}
	switch {
	case x < 0.38 || len(d.Entries) == 0: // write or overwrite
		used := map[string]bool{}
		e := genEntry(r, tag, used, o)
		for e == nil {
			e = genEntry(r, tag, used, o)
		}
		replaced, inPlace := false, false
		for i := range d.Entries {
			if d.Entries[i].Name == e.Name {
				inPlace = d.Entries[i].isRegularContent() && e.isRegularContent() && r.Chance(0.6)
				d.Entries[i] = *e
				replaced = true
			}
		}
		if !replaced {
			d.Entries = append(d.Entries, *e)
		}
		writeEntryHow(filepath.Join(d.Path, e.Name), e, inPlace)
		switch {
		case inPlace:
			return "rewrite-in-place " + tag + "/" + e.Name
		case replaced:
			return "overwrite " + tag + "/" + e.Name
		}
		return "write " + tag + "/" + e.Name
	case x < 0.56: // remove
		i := r.Intn(len(d.Entries))
		name := d.Entries[i].Name
		removeEntry(filepath.Join(d.Path, name))
		d.Entries = append(d.Entries[:i:i], d.Entries[i+1:]...)
		return "remove " + tag + "/" + name
	case x < 0.68: // rename: inside the directory or into another configured directory, under a free name
		i := r.Intn(len(d.Entries))
		e := d.Entries[i]
		d2 := d
		if r.Chance(0.4) && !(e.Kind == entValid && e.ViaLink && e.LinkHow == 1) {
			var cand []*absDir
			for _, c := range fs.Dirs {
				if c.State == dirDir {
					cand = append(cand, c)
				}
			}
			d2 = hx.Pick(r, cand)
		}
		var name string
		if e.Kind == entInvalid && e.Invalid == "fifo" {
			name = hx.Pick(r, []string{"noext", "aa", "0fifo", "b.sock", "zz"})
		} else if r.Chance(0.25) {
			name = pickNonSpecName(r)
		} else {
			name = pickSpecName(r)
		}
		free := true
		for _, x := range d2.Entries {
			if x.Name == name {
				free = false
			}
		}
		if !free || e.hasCompanion() {
			return "none (refresh again)"
		}
		if os.Rename(filepath.Join(d.Path, e.Name), filepath.Join(d2.Path, name)) != nil {
			return "none (rename failed)"
		}
		old := e.Name
		d.Entries = append(d.Entries[:i:i], d.Entries[i+1:]...)
		e.Name = name
		d2.Entries = append(d2.Entries, e)
		tag2 := filepath.Base(d2.Path)
		if tag2 == "below" {
			tag2 = filepath.Base(filepath.Dir(d2.Path))
		}
		return "rename " + tag + "/" + old + " -> " + tag2 + "/" + name
	case x < 0.72:
		return "none (refresh again)"
	case x < 0.85 && o.faults && len(bad) > 0: // repair: an invalid file (any of them) becomes valid
		i := hx.Pick(r, bad)
		e := &d.Entries[i]
		path := filepath.Join(d.Path, e.Name)
		if e.Invalid == "dangling" && len(e.Name) < 200 && (!o.auto || (defectPendingLinkTargetUnwatched && !o.quiet)) && r.Chance(0.7) {
			// the link stays, its target appears
			e.Kind, e.Invalid = entValid, ""
			e.Spec = genValidSpec(r, tag+"/"+e.Name, o.rich)
			e.ViaLink, e.LinkHow = true, 3
			writeSpecFile(danglingTarget(path), e.Spec)
			return "repair (the target of the link appears) " + tag + "/" + e.Name
		}
		if e.Invalid == "unreadable" && r.Chance(0.7) {
			// the permission to read it is given back: the Spec that has been in the file all the time
			e.Kind, e.Invalid, e.ViaLink = entValid, "", false
			dev := specs.Device{Name: "dev1"}
			dev.ContainerEdits.Env = []string{"FP=unreadable"}
			e.Spec = &specs.Spec{Version: "0.3.0", Kind: "vendor1.com/gpu", Devices: []specs.Device{dev}}
			_ = os.Chmod(path, 0o644)
			return "repair (chmod 644) " + tag + "/" + e.Name
		}
		e.Kind, e.Invalid = entValid, ""
		e.Spec = genValidSpec(r, tag+"/"+e.Name, o.rich)
		e.ViaLink = false
		writeEntry(path, e)
		return "repair " + tag + "/" + e.Name
	case x < 0.93 && o.dirFaults: // a good directory goes bad
		switch {
		case o.perm && !d.ViaLink && r.Chance(0.5):
			d.State = dirUnscannable
			d.Unscan = hx.Pick(r, []string{"mode000", "mode444", "mode111"})
			d.applyPerm()
			return "chmod (" + d.Unscan + ") " + tag
		case filepath.Base(d.Path) == "below" && filepath.Base(filepath.Dir(d.Path))[0] == 'f':
			d.State = dirUnscannable
			d.Entries = nil
			d.ViaLink = false
			d.materialise()
			return "ancestor-becomes-file " + tag
		default:
			_ = os.RemoveAll(d.Path)
			_ = os.RemoveAll(d.Path + ".real")
			d.State = dirIsFile
			d.ViaLink = false
			d.Entries = nil
			d.File = genFileAsDir(r, tag, filepath.Base(d.Path), o)
			writeEntry(d.Path, d.File)
			return "directory-becomes-file " + tag
		}
	default: // rmdir
		_ = os.RemoveAll(d.Path)
		_ = os.RemoveAll(d.Path + ".real")
		d.State = dirMissing
		d.ViaLink = false
		d.Entries = nil
		return "rmdir " + tag
	}
}

// ---------- observation ----------

type probeObs struct {
	Name  string
	Found bool
	Path  string
	Prio  int
	FP    string
}

type cacheObs struct {
	Devices  []string
	Probes   []probeObs
	Vendors  []string
	Classes  []string
	VSpecs   map[string][][2]interface{}
	ErrKeys  []string
	RefErr   bool
	Panic    string
	Auto     bool
	DirErrs  []string
	SpecErrs []string // paths of the cached Specs for which GetSpecErrors answers with errors
	AllErrs  []string // every key of GetErrors
}

// obsDefaultAPI: the default cache is refreshed and asked for its errors through the package-level functions.
var obsDefaultAPI bool

func observeCache(c *cdi.Cache, probes []string, refresh bool) cacheObs {
	var o cacheObs
	panicked, msg := hx.Guard(func() {
		viaPkg := obsDefaultAPI && c == cdi.GetDefaultCache()
		if refresh {
			if viaPkg {
				o.RefErr = cdi.Refresh() != nil
			} else {
				o.RefErr = c.Refresh() != nil
			}
		}
		// the directory errors as they stand right after Refresh(), before any query has run: "an entry disappears at the
		// first refresh after its cause is gone" is a statement about the refresh, not about the queries that follow it
		var early []string
		if refresh {
			for k := range c.GetSpecDirErrors() {
				early = append(early, k)
			}
			sort.Strings(early)
			defer func() {
				// only an entry which outlived its cause counts: reported right after Refresh() although the directory is
				// there, and gone once a query has run (the watcher goroutine may legitimately change the set in the other
				// direction between the two readings)
				late := map[string]bool{}
				for _, k := range o.DirErrs {
					late[k] = true
				}
				stale := false
				for _, k := range early {
					if st, err := os.Stat(k); !late[k] && err == nil && st.IsDir() {
						stale = true
					}
				}
				if stale && o.Panic == "" {
					o.DirErrs = append([]string{}, early...)
					o.DirErrs = append(o.DirErrs, "<<directory errors right after Refresh() differ from those after the queries>>")
				}
			}()
		}
		o.Devices = c.ListDevices()
		for _, n := range probes {
			p := probeObs{Name: n}
			if d := c.GetDevice(n); d != nil {
				p.Found = true
				p.Path = d.GetSpec().GetPath()
				p.Prio = d.GetSpec().GetPriority()
				if len(d.ContainerEdits.Env) > 0 {
					p.FP = d.ContainerEdits.Env[0]
				}
			}
			o.Probes = append(o.Probes, p)
		}
		o.Vendors = c.ListVendors()
		o.Classes = c.ListClasses()
		o.VSpecs = map[string][][2]interface{}{}
		specErrs := map[string]bool{}
		for _, v := range append(append([]string{}, o.Vendors...), "novendor.example") {
			var l [][2]interface{}
			for _, s := range c.GetVendorSpecs(v) {
				l = append(l, [2]interface{}{s.GetPath(), s.GetPriority()})
				if len(c.GetSpecErrors(s)) > 0 {
					specErrs[s.GetPath()] = true
				}
			}
			if v != "novendor.example" || len(l) > 0 {
				o.VSpecs[v] = l
			}
		}
		o.SpecErrs = []string{}
		for k := range specErrs {
			o.SpecErrs = append(o.SpecErrs, k)
		}
		sort.Strings(o.SpecErrs)
		dirErrs := c.GetSpecDirErrors()
		for k := range dirErrs {
			o.DirErrs = append(o.DirErrs, k)
		}
		sort.Strings(o.DirErrs)
		all := c.GetErrors()
		if viaPkg {
			all = cdi.GetErrors()
		}
		for k := range all {
			o.AllErrs = append(o.AllErrs, k)
			if _, isDir := dirErrs[k]; isDir {
				continue
			}
			o.ErrKeys = append(o.ErrKeys, k)
		}
		sort.Strings(o.ErrKeys)
		sort.Strings(o.AllErrs)
	})
	if panicked {
		o.Panic = msg
	}
	return o
}

func (o *cacheObs) key() string {
	var b strings.Builder
	fmt.Fprint(&b, o.Devices, o.Probes, o.Vendors, o.Classes, o.ErrKeys, o.SpecErrs, o.RefErr, o.Panic)
	vs := make([]string, 0, len(o.VSpecs))
	for v := range o.VSpecs {
		vs = append(vs, v)
	}
	sort.Strings(vs)
	for _, v := range vs {
		fmt.Fprint(&b, v, o.VSpecs[v])
	}
	return b.String()
}

func (o *cacheObs) term() string {
	probes := make([]string, len(o.Probes))
	for i, p := range o.Probes {
		v := hx.None
		if p.Found {
			v = hx.Some(hx.P(hx.S(p.Path), hx.Nat(p.Prio), hx.S(p.FP)))
		}
		probes[i] = hx.P(hx.S(p.Name), v)
	}
	vs := make([]string, 0, len(o.VSpecs))
	for v := range o.VSpecs {
		vs = append(vs, v)
	}
	sort.Strings(vs)
	vitems := make([]string, len(vs))
	for i, v := range vs {
		l := make([]string, len(o.VSpecs[v]))
		for j, pp := range o.VSpecs[v] {
			l[j] = hx.P(hx.S(pp[0].(string)), hx.Nat(pp[1].(int)))
		}
		vitems[i] = hx.P(hx.S(v), hx.L(l))
	}
	return hx.C("mkObs01", hx.LS(o.Devices), hx.L(probes), hx.LS(o.Vendors), hx.LS(o.Classes), hx.L(vitems), hx.LS(o.ErrKeys), hx.B(o.RefErr), hx.B(o.Auto), hx.LS(o.DirErrs),
		hx.LS(o.SpecErrs), hx.LS(o.AllErrs))
}

// settle polls an auto-refresh cache until its observation equals the one of a freshly built manual cache on the same
// directories (deadline), and returns the last observation.
func settle(c *cdi.Cache, dirs []string, probes []string, deadline time.Duration, wantDirErrs []string) cacheObs {
	ref, _ := cdi.NewCache(cdi.WithSpecDirs(dirs...), cdi.WithAutoRefresh(false))
	want := observeCache(ref, probes, true)
	end := time.Now().Add(deadline)
	var got cacheObs
	for first := true; ; first = false {
		got = observeCache(c, probes, true)
		if got.key() == want.key() && fmt.Sprint(got.DirErrs) == fmt.Sprint(wantDirErrs) {
			return got
		}
		if first && got.Panic == "" && len(got.DirErrs) > 0 && strings.HasPrefix(got.DirErrs[len(got.DirErrs)-1], "<<directory errors right after Refresh()") {
			// likewise the directory errors the first Refresh() left behind (see observeCache)
			return got
		}
		if first && got.RefErr != want.RefErr && got.Panic == "" {
			// An explicit Refresh() rescans under the cache lock: its verdict (error iff a Spec file is in error) is the one of
			// the directories as they are now, whatever the watcher has or has not seen yet.  The verdict of the FIRST
			// Refresh() after a change is therefore observed as such, not the one of a later poll.
			return got
		}
		if time.Now().After(end) {
			settleDeadlines++
			return got
		}
		time.Sleep(5 * time.Millisecond)
	}
}

// settleQuiet: like settle, but the cache is only queried, never asked to refresh, until it answers like a cache freshly
// built on the directories (or the deadline passes): what is observed is what automatic refresh alone achieved.  Once
// converged, one explicit Refresh supplies the refresh verdict.
func settleQuiet(c *cdi.Cache, dirs []string, probes []string, deadline time.Duration, wantDirErrs []string) cacheObs {
	ref, _ := cdi.NewCache(cdi.WithSpecDirs(dirs...), cdi.WithAutoRefresh(false))
	want := observeCache(ref, probes, true)
	end := time.Now().Add(deadline)
	for {
		got := observeCache(c, probes, false)
		got.RefErr = want.RefErr
		if got.key() == want.key() && fmt.Sprint(got.DirErrs) == fmt.Sprint(wantDirErrs) {
			return observeCache(c, probes, true)
		}
		if time.Now().After(end) {
			settleDeadlines++
			return got
		}
		time.Sleep(5 * time.Millisecond)
	}
}

// settleDeadlines counts the observations of automatic-refresh caches which did not converge within their deadline.
var settleDeadlines int

// unwatchableDirs: the configured directories that do not exist or lie below a regular file (sorted, without repetitions):
// what an automatic-refresh cache reports as directory errors.
func (fs *absFS) unwatchableDirs() []string {
	seen := map[string]bool{}
	out := []string{}
	for _, d := range fs.Dirs {
		if (d.State == dirMissing || d.State == dirUnscannable) && !seen[d.Path] {
			seen[d.Path] = true
			out = append(out, d.confPath())
		}
	}
	sort.Strings(out)
	return out
}
