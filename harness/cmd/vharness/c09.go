package main

import (
	"encoding/json"
	"fmt"
	"os"
	"path/filepath"
	"strings"
	"unicode/utf8"

	"tags.cncf.io/container-device-interface/pkg/cdi"
	specs "tags.cncf.io/container-device-interface/specs-go"
	"verif/harness/hx"
)

func init() { registry["C09"] = genC09 }

// coqOrdered prints a document tree with the members in document order (json.Marshal emits struct members in
// declaration order and map keys sorted): what the encoder model doc_of_spec must produce exactly.
func (d *D) coqOrdered() string {
	switch d.K {
	case dArr:
		items := make([]string, len(d.A))
		for i, e := range d.A {
			items[i] = e.coqOrdered()
		}
		return hx.C("DArr", hx.L(items))
	case dObj:
		items := make([]string, len(d.O))
		for i, m := range d.O {
			items[i] = hx.P(hx.S(m.K), m.V.coqOrdered())
		}
		return hx.C("DObj", hx.L(items))
	}
	return d.Coq()
}

// ---- known-finding classes (mirrored as booleans in Judge09.v) ----

func hasC1(s string) bool {
	for _, r := range s {
		if (r >= 0x7f && r <= 0x9f && r != 0x85) || r == 0xfffe || r == 0xffff {
			return true
		}
	}
	return false
}
func hasNEL(s string) bool { return strings.ContainsRune(s, 0x85) }
func leadingBlankMultiline(s string) bool {
	return strings.Contains(s, "\n") && len(s) > 0 && (s[0] == '\n' || s[0] == ' ' || s[0] == '\t')
}

func specStrings(s *specs.Spec) []string {
	var out []string
	ed := func(e *specs.ContainerEdits) {
		out = append(out, e.Env...)
		for _, d := range e.DeviceNodes {
			if d != nil {
				out = append(out, d.Path, d.HostPath, d.Type, d.Permissions)
			}
		}
		for _, h := range e.Hooks {
			if h != nil {
				out = append(out, h.HookName, h.Path)
				out = append(out, h.Args...)
				out = append(out, h.Env...)
			}
		}
		for _, m := range e.Mounts {
			if m != nil {
				out = append(out, m.HostPath, m.ContainerPath, m.Type)
				out = append(out, m.Options...)
			}
		}
		if e.IntelRdt != nil {
			out = append(out, e.IntelRdt.ClosID, e.IntelRdt.L3CacheSchema, e.IntelRdt.MemBwSchema)
		}
	}
	an := func(m map[string]string) {
		for k, v := range m {
			out = append(out, k, v)
		}
	}
	out = append(out, s.Version, s.Kind)
	an(s.Annotations)
	ed(&s.ContainerEdits)
	for i := range s.Devices {
		out = append(out, s.Devices[i].Name)
		an(s.Devices[i].Annotations)
		ed(&s.Devices[i].ContainerEdits)
	}
	return out
}

var knownIDs09 = []string{"", "C09/json-c1-controls", "C09/json-nel", "C09/yaml-leading-blank-multiline"}

func knownClass09(enc int, s *specs.Spec) int {
	strs := specStrings(s)
	if enc == 0 {
		for _, x := range strs {
			if hasC1(x) {
				return 1
			}
		}
		for _, x := range strs {
			if hasNEL(x) {
				return 2
			}
		}
		return 0
	}
	for _, x := range strs {
		if leadingBlankMultiline(x) {
			return 3
		}
	}
	return 0
}

// ---- one Spec through the three encodings ----

type back09 struct {
	ok        bool
	spec      *specs.Spec
	cacheSame bool
	panicMsg  string
}

func roundTrip09(dir string, idx int, enc int, s *specs.Spec) back09 {
	var b back09
	_ = os.RemoveAll(dir)
	_ = os.MkdirAll(dir, 0o755)
	cache, _ := cdi.NewCache(cdi.WithSpecDirs(dir), cdi.WithAutoRefresh(false))
	ext := []string{".json", ".yaml", ""}[enc]
	name := fmt.Sprintf("s%d%s", idx, ext)
	path := filepath.Join(dir, name)
	if enc == 2 {
		path += ".yaml"
	}
	var werr error
	p, msg := hx.Guard(func() { werr = cache.WriteSpec(s, name) })
	if p {
		b.panicMsg = msg
		return b
	}
	if werr != nil {
		b.panicMsg = "WriteSpec refused: " + werr.Error()
		return b
	}
	var rs *cdi.Spec
	var rerr error
	p, msg = hx.Guard(func() { rs, rerr = cdi.ReadSpec(path, 0) })
	if p {
		b.panicMsg = msg
		return b
	}
	if rerr != nil || rs == nil {
		return b
	}
	b.ok = true
	b.spec = rs.Spec
	// the same devices through the cache
	_, _ = hx.Guard(func() {
		_ = cache.Refresh()
		same := true
		vendorClass := s.Kind
		for i := range s.Devices {
			d := cache.GetDevice(vendorClass + "=" + s.Devices[i].Name)
			if d == nil || d.GetSpec().GetPath() != path {
				same = false
				continue
			}
			a, _ := json.Marshal(d.Device)
			o, _ := json.Marshal(&s.Devices[i])
			if string(a) != string(o) {
				same = false
			}
		}
		if len(cache.ListDevices()) != len(s.Devices) {
			same = false
		}
		b.cacheSame = same
	})
	return b
}

func optSpecTerm(b back09) string {
	if !b.ok {
		return hx.None
	}
	return hx.Some(specTerm(b.spec))
}

func addSpec09(s *hx.Suite, scratch string, idx *int, class string, sp *specs.Spec, note interface{}) {
	*idx++
	img, _ := json.Marshal(sp)
	d, err := parseD(img)
	if err != nil {
		return
	}
	image := d.coqOrdered()
	dir := filepath.Join(scratch, "rt")
	var backs [3]back09
	for enc := 0; enc < 3; enc++ {
		backs[enc] = roundTrip09(dir, *idx, enc, sp)
	}
	for enc := 0; enc < 3; enc++ {
		// interchangeability: compare with the read-back of the other encoding, unless that one lies in a known-finding class
		other := hx.None
		otherEnc := 0
		if enc == 0 {
			otherEnc = 1
		}
		if knownClass09(otherEnc, sp) == 0 {
			other = optSpecTerm(backs[otherEnc])
		}
		k := knownClass09(enc, sp)
		desc := map[string]interface{}{"spec": specJSON(sp), "encoding": []string{".json", ".yaml", "no extension (YAML)"}[enc], "read_back_ok": backs[enc].ok,
			"cache_same": backs[enc].cacheSame, "note": note}
		if backs[enc].ok {
			desc["read_back"] = specJSON(backs[enc].spec)
		}
		if backs[enc].panicMsg != "" {
			desc["problem"] = backs[enc].panicMsg
		}
		s.Add(hx.Case{
			Term:       chunkLiterals(hx.C("Case09", specTerm(sp), hx.Nat(enc), image, optSpecTerm(backs[enc]), hx.B(backs[enc].cacheSame), other, hx.Nat(k))),
			Desc:       desc,
			Class:      class,
			Known:      knownIDs09[k],
			Nontrivial: true,
			Key:        fmt.Sprintf("%d|%s", enc, img),
		})
	}
}

// a minimal valid Spec carrying str in every kind of string position where any string is valid
func stringSpec09(str string) *specs.Spec {
	s := &specs.Spec{Version: "0.6.0", Kind: "vendor.com/class", Annotations: map[string]string{"example.com/note": str}}
	e := specs.ContainerEdits{
		Env:    []string{"V=" + str},
		Hooks:  []*specs.Hook{{HookName: "prestart", Path: "/bin/h", Args: []string{"a", str, "z"}, Env: []string{"H=" + str}}},
		Mounts: []*specs.Mount{{HostPath: "/h" + str, ContainerPath: "/c", Options: []string{str}}},
	}
	if str != "" {
		e.Mounts[0].Type = str
		e.DeviceNodes = []*specs.DeviceNode{{Path: "/dev/x", HostPath: str}}
		s.Version = "0.6.0"
	}
	s.Devices = []specs.Device{{Name: "dev0", ContainerEdits: e}}
	if v, err := specs.MinimumRequiredVersion(s); err == nil {
		s.Version = v
	}
	return s
}

var yamlDict09 = []string{"yes", "no", "on", "off", "y", "n", "true", "True", "NULL", "null", "~", "", " ", "0123", "0x1F", "0o17", "1_000", "1e3", ".5", "-.inf", ".NaN",
	"2001-12-14", "2001-12-14t21:59:43.10-05:00", "<<", "=", "!!str x", "&a", "*a", "- x", "? x", ": x", "x: y", "x :y", "a #b", "#c", "'", "\"", "''", "\"\"", "'x'", "\"x\"", "\\",
	"\\n", "\\u0041", " x", "x ", "  x  ", "\tx", "x\t", "\n", "\nx", "x\n", "x\n\ny", "x\ny\n", "\r", "x\ry", "\r\n", "x\r\ny", "---", "...", "--- x", "%TAG", "@x", "`x", "|", ">", "|-", ">+",
	"{", "}", "[", "]", "{a: b}", "[a, b]", ",", "a,b", "\u0085", "\u2028", "\u2029", "\ufeff", "\ufeffx", "é", "日本語", "😀", "\U0001F600x", "a\u0000b", "\u0001", "\u001b[0m", "~"}

func genC09(r *hx.R, tier, scratch string) (*hx.Suite, error) {
	s := &hx.Suite{Property: "C09", Imports: []string{"Base", "SpecModel", "Doc", "Decode", "Codec", "Judge09"}, CaseType: "case09", Judge: "judge09", Shard: 60,
		Rule: "every Spec is written through Cache.WriteSpec under a .json name, a .yaml name and an extension-less name, read back with cdi.ReadSpec and loaded through the cache; structure stream: valid Specs over pairwise combinations of the 32 optional fields with 1-3 devices and list elements, and numeric extremes of every integer field; scalar stream: strings (code points U+0000..U+3000 sampled in quick / all in thorough, alone and embedded, U+FFFE/U+FFFF, non-BMP, a YAML-sensitive dictionary, newlines and blanks in every position) placed in every kind of string position (scalar member, list element, map value, env value); non-trivial: all cases (each is a distinct Spec x encoding)"}
	idx := 0
	// --- structure: pairwise option vectors
	vectors := pairwise05(r)
	nStruct := 10
	if tier == "thorough" {
		nStruct = len(vectors) * 3
	}
	for i := 0; i < nStruct; i++ {
		b := &builder05{r: r, on: vectors[i%len(vectors)], m: 1 + r.Intn(3), vary: true}
		sp := b.spec(1 + r.Intn(3))
		addSpec09(s, scratch, &idx, "structure", sp, "pairwise optional fields")
	}
	// --- numeric extremes
	{
		maxU := ^uint32(0)
		fm := os.FileMode(maxU)
		tmax, tmin := int(^uint(0)>>1), -int(^uint(0)>>1)-1
		zero := 0
		u0 := uint32(0)
		fm0 := os.FileMode(0)
		ext := &specs.Spec{Kind: "vendor.com/class"}
		ext.Devices = []specs.Device{{Name: "dev0", ContainerEdits: specs.ContainerEdits{
			DeviceNodes: []*specs.DeviceNode{
				{Path: "/dev/a", Type: "c", Major: 1<<63 - 1, Minor: -1 << 63, FileMode: &fm, UID: &maxU, GID: &maxU},
				{Path: "/dev/b", Type: "b", Major: -1 << 63, Minor: 1<<63 - 1, FileMode: &fm0, UID: &u0, GID: &u0},
				{Path: "/dev/c", Major: 1 << 53, Minor: 1<<53 + 1},
			},
			Hooks:          []*specs.Hook{{HookName: "prestart", Path: "/h", Timeout: &tmax}, {HookName: "poststop", Path: "/h", Timeout: &tmin}, {HookName: "poststart", Path: "/h", Timeout: &zero}},
			AdditionalGIDs: []uint32{maxU, 1, 1 << 31},
		}}}
		ext.Version, _ = specs.MinimumRequiredVersion(ext)
		addSpec09(s, scratch, &idx, "numeric-extremes", ext, "int64 / uint32 / int extremes, explicit zero pointers")
	}
	// --- scalar layer
	var strs []string
	strs = append(strs, yamlDict09...)
	step := 97
	if tier == "thorough" {
		step = 1
	}
	for cp := r.Intn(step); cp <= 0x3000; cp += step {
		if cp >= 0xd800 && cp <= 0xdfff {
			continue
		}
		c := string(rune(cp))
		strs = append(strs, c, "a"+c+"b")
	}
	// always: the boundaries of the known classes and their neighbours
	for _, cp := range []int{0x00, 0x09, 0x0a, 0x0d, 0x1f, 0x20, 0x7e, 0x7f, 0x80, 0x84, 0x85, 0x86, 0x9f, 0xa0, 0xd7ff, 0xe000, 0xfffd, 0xfffe, 0xffff, 0x10000, 0x10ffff} {
		c := string(rune(cp))
		strs = append(strs, c, "a"+c+"b")
	}
	// newline / blank combinations
	alpha := []string{"a", " ", "\n", "\t", "-", ":", "#", "'", "\"", "\r"}
	nCombo := 60
	if tier == "thorough" {
		nCombo = 1500
	}
	for i := 0; i < nCombo; i++ {
		var b strings.Builder
		for j, n := 0, 1+r.Intn(4); j < n; j++ {
			b.WriteString(hx.Pick(r, alpha))
		}
		strs = append(strs, b.String())
	}
	seen := map[string]bool{}
	for _, str := range strs {
		if seen[str] || !utf8.ValidString(str) {
			continue
		}
		seen[str] = true
		addSpec09(s, scratch, &idx, "scalar", stringSpec09(str), map[string]interface{}{"string": hx.JS(str)})
	}
	return s, nil
}
