package main

import (
	"bytes"
	"encoding/json"
	"fmt"
	"os"
	"path/filepath"
	"strings"
	"unicode/utf8"

	"sigs.k8s.io/yaml"
	"tags.cncf.io/container-device-interface/pkg/cdi"
	"tags.cncf.io/container-device-interface/pkg/parser"
	specs "tags.cncf.io/container-device-interface/specs-go"
	"verif/harness/hx"
)

func init() { registry["C09"] = genC09 }

// coqOrdered prints a document tree with the members in document order (json.Marshal emits struct members in
// declaration order and map keys sorted): what the encoder model doc_of_spec must produce exactly.
func (d *D) coqOrdered() string {
	switch d.K {
	case dArr:
		items := make([]string, len(d.A))
		for i, e := range d.A {
			items[i] = e.coqOrdered()
		}
		return hx.C("DArr", hx.L(items))
	case dObj:
		items := make([]string, len(d.O))
		for i, m := range d.O {
			items[i] = hx.P(hx.S(m.K), m.V.coqOrdered())
		}
		return hx.C("DObj", hx.L(items))
	}
	return d.Coq()
}

// ---- known-finding classes (mirrored as booleans in Judge09.v) ----

func hasC1(s string) bool {
	for _, r := range s {
		if (r >= 0x7f && r <= 0x9f && r != 0x85) || r == 0xfffe || r == 0xffff {
			return true
		}
	}
	return false
}
func hasNEL(s string) bool { return strings.ContainsRune(s, 0x85) }
func leadingBlankMultiline(s string) bool {
	return strings.Contains(s, "\n") && len(s) > 0 && (s[0] == '\n' || s[0] == ' ' || s[0] == '\t')
}

func specStrings(s *specs.Spec) []string {
	var out []string
	ed := func(e *specs.ContainerEdits) {
		out = append(out, e.Env...)
		for _, d := range e.DeviceNodes {
			if d != nil {
				out = append(out, d.Path, d.HostPath, d.Type, d.Permissions)
			}
		}
		for _, h := range e.Hooks {
			if h != nil {
				out = append(out, h.HookName, h.Path)
				out = append(out, h.Args...)
				out = append(out, h.Env...)
			}
		}
		for _, m := range e.Mounts {
			if m != nil {
				out = append(out, m.HostPath, m.ContainerPath, m.Type)
				out = append(out, m.Options...)
			}
		}
		if e.IntelRdt != nil {
			out = append(out, e.IntelRdt.ClosID, e.IntelRdt.L3CacheSchema, e.IntelRdt.MemBwSchema)
		}
	}
	an := func(m map[string]string) {
		for k, v := range m {
			out = append(out, k, v)
		}
	}
	out = append(out, s.Version, s.Kind)
	an(s.Annotations)
	ed(&s.ContainerEdits)
	for i := range s.Devices {
		out = append(out, s.Devices[i].Name)
		an(s.Devices[i].Annotations)
		ed(&s.Devices[i].ContainerEdits)
	}
	return out
}

var knownIDs09 = []string{"", "C09/json-c1-controls", "C09/json-nel", "C09/yaml-leading-blank-multiline"}

func knownClass09(enc int, s *specs.Spec) int {
	// no string is set aside any more: repaired defects D20 (.json: characters the reader refuses are escaped) and D29 (.yaml: a
	// document the YAML encoder cannot write readably is written in JSON syntax)
	return 0
}

// ---- one Spec through the three encodings ----

type back09 struct {
	ok        bool
	spec      *specs.Spec
	cacheSame bool
	panicMsg  string
}

func roundTrip09(dir string, idx int, enc int, s *specs.Spec) back09 {
	var b back09
	_ = os.RemoveAll(dir)
	_ = os.MkdirAll(dir, 0o755)
	cache, _ := cdi.NewCache(cdi.WithSpecDirs(dir), cdi.WithAutoRefresh(false))
	ext := []string{".json", ".yaml", ""}[enc]
	if enc == 2 {
		// any name that ends neither in .json nor in .yaml is a YAML file with .yaml appended
		ext = []string{"", ".yml", "", ".txt", "", ".JSON", ".yaml.bak", "", ".json5", ".Yaml"}[idx%10]
	}
	name := fmt.Sprintf("s%d%s", idx, ext)
	path := filepath.Join(dir, name)
	if enc == 2 {
		path += ".yaml"
	}
	// one case in three: the file to be written is already there — an older Spec of another vendor in the other encoding's
	// syntax, a longer text, a file without write permission — and must be replaced as a whole
	switch (idx + enc) % 9 {
	case 0:
		_ = os.WriteFile(path, []byte(`{"cdiVersion":"0.3.0","kind":"old.example.org/stale","devices":[{"name":"stale","containerEdits":{"env":["STALE=1"]}}]}`+strings.Repeat(" ", 4096)+"\n"), 0o644)
	case 3:
		_ = os.WriteFile(path, []byte("---\ncdiVersion: 0.3.0\nkind: old.example.org/stale\ndevices:\n- name: stale\n  containerEdits:\n    env:\n    - STALE=1\n"+strings.Repeat("# padding\n", 2000)), 0o444)
	case 6:
		_ = os.WriteFile(path, []byte("not a Spec at all: [\n"), 0o600)
	}
	// one case in four: what an earlier writer which failed or was killed may have left behind, longer than anything to be
	// written: temporary files named after the Spec file, in the forms writers use (<file>.tmp, .<file>.tmp, <file>~)
	if (idx+enc)%4 == 1 {
		junk := []byte(strings.Repeat("left over by a writer that died: [\n", 3000))
		for _, n := range []string{path + ".tmp", filepath.Join(dir, "."+filepath.Base(path)+".tmp"), path + "~", filepath.Join(dir, name+".tmp")} {
			_ = os.WriteFile(n, junk, 0o600)
		}
	}
	var werr error
	p, msg := hx.Guard(func() { werr = cache.WriteSpec(s, name) })
	if p {
		b.panicMsg = msg
		return b
	}
	if werr != nil {
		b.panicMsg = "WriteSpec refused: " + werr.Error()
		return b
	}
	var rs *cdi.Spec
	var rerr error
	p, msg = hx.Guard(func() { rs, rerr = cdi.ReadSpec(path, 0) })
	if p {
		b.panicMsg = msg
		return b
	}
	if rerr != nil || rs == nil {
		return b
	}
	b.ok = true
	b.spec = rs.Spec
	// the same devices through the cache
	_, _ = hx.Guard(func() {
		_ = cache.Refresh()
		same := true
		vendorClass := s.Kind
		for i := range s.Devices {
			d := cache.GetDevice(vendorClass + "=" + s.Devices[i].Name)
			if d == nil || d.GetSpec().GetPath() != path {
				same = false
				continue
			}
			a, _ := json.Marshal(d.Device)
			o, _ := json.Marshal(&s.Devices[i])
			if string(a) != string(o) {
				same = false
			}
		}
		if len(cache.ListDevices()) != len(s.Devices) {
			same = false
		}
		b.cacheSame = same
	})
	return b
}

func optSpecTerm(b back09) string {
	if !b.ok {
		return hx.None
	}
	return hx.Some(specTerm(b.spec))
}

func addSpec09(s *hx.Suite, scratch string, idx *int, class string, sp *specs.Spec, note interface{}) {
	*idx++
	img, _ := json.Marshal(sp)
	d, err := parseD(img)
	if err != nil {
		return
	}
	image := d.coqOrdered()
	origTerm, origJSON := specTerm(sp), specJSON(sp)
	dir := filepath.Join(scratch, "rt")
	var backs [3]back09
	var known [3]int
	for enc := 0; enc < 3; enc++ {
		known[enc] = knownClass09(enc, sp)
	}
	for enc := 0; enc < 3; enc++ {
		backs[enc] = roundTrip09(dir, *idx, enc, sp)
	}
	for enc := 0; enc < 3; enc++ {
		// interchangeability: compare with the read-back of the other encoding, unless that one lies in a known-finding class
		other := hx.None
		otherEnc := 0
		if enc == 0 {
			otherEnc = 1
		}
		if known[otherEnc] == 0 {
			other = optSpecTerm(backs[otherEnc])
		}
		k := known[enc]
		desc := map[string]interface{}{"spec": origJSON, "encoding": []string{".json", ".yaml", "no extension (YAML)"}[enc], "read_back_ok": backs[enc].ok,
			"cache_same": backs[enc].cacheSame, "note": note}
		if backs[enc].ok {
			desc["read_back"] = specJSON(backs[enc].spec)
		}
		if backs[enc].panicMsg != "" {
			desc["problem"] = backs[enc].panicMsg
		}
		s.Add(hx.Case{
			Term:       chunkLiterals(hx.C("Case09", origTerm, hx.Nat(enc), image, optSpecTerm(backs[enc]), hx.B(backs[enc].cacheSame), other, hx.Nat(k))),
			Desc:       desc,
			Class:      class,
			Known:      knownIDs09[k],
			Nontrivial: true,
			Key:        fmt.Sprintf("%d|%s", enc, img),
		})
	}
}

// ---- one string through the JSON text layer alone (no files): json.Marshal writes the literal, the reader of every Spec file
// (sigs.k8s.io/yaml, strict, as cdi.ParseSpec calls it) reads it back as a member value of a one-line JSON object ----

func strClass09(str string) int {
	if hasC1(str) {
		return 1
	}
	if hasNEL(str) {
		return 2
	}
	return 0
}

// libLiteral09: the literal the library's own JSON writer produces for str: a minimal Spec with str as the value of the annotation
// example.com/note is written through Cache.WriteSpec under a .json name and the literal is cut out of the file (from the quote
// after the key to the first quote not preceded by an odd number of backslashes).
var litDir09 string
var litCache09 *cdi.Cache

func libLiteral09(str string) ([]byte, bool) {
	if litCache09 == nil {
		return nil, false
	}
	sp := &specs.Spec{Version: "0.6.0", Kind: "vendor.com/class", Annotations: map[string]string{"example.com/note": str},
		Devices: []specs.Device{{Name: "d", ContainerEdits: specs.ContainerEdits{Env: []string{"A=b"}}}}}
	var werr error
	if p, _ := hx.Guard(func() { werr = litCache09.WriteSpec(sp, "lit.json") }); p || werr != nil {
		return nil, false
	}
	data, err := os.ReadFile(filepath.Join(litDir09, "lit.json"))
	if err != nil {
		return nil, false
	}
	key := []byte(`"example.com/note":`)
	i := bytes.Index(data, key)
	if i < 0 || i+len(key) >= len(data) || data[i+len(key)] != '"' {
		return nil, false
	}
	start := i + len(key)
	for j := start + 1; j < len(data); j++ {
		if data[j] == '\\' {
			j++
			continue
		}
		if data[j] == '"' {
			return data[start : j+1], true
		}
	}
	return nil, false
}

func addStr09(s *hx.Suite, class string, str string) {
	// the writer under test is the library's (encoding/json followed by its own escaping of what the Spec reader refuses),
	// not encoding/json alone
	lit, okLit := libLiteral09(str)
	if !okLit || len(lit) < 2 {
		s.Add(hx.Case{Term: hx.C("CaseStr", hx.S(str), hx.B(utf8.ValidString(str)), hx.S("<<no literal: WriteSpec failed>>"), hx.None, "0"),
			Desc: map[string]interface{}{"string": hx.JS(str), "problem": "Cache.WriteSpec of a Spec carrying the string as an annotation value failed"},
			Class: class, Nontrivial: true, Key: "str|" + str, Cost: strCost09})
		return
	}
	escaped := string(lit[1 : len(lit)-1])
	var back struct {
		S *string `json:"s"`
	}
	var uerr error
	p, msg := hx.Guard(func() { uerr = yaml.UnmarshalStrict([]byte(`{"s":`+string(lit)+`}`), &back) })
	ok := !p && uerr == nil && back.S != nil
	scanned := hx.None
	desc := map[string]interface{}{"string": hx.JS(str), "json_literal_inside": hx.JS(escaped), "read_back_ok": ok}
	if ok {
		scanned = hx.Some(hx.S(*back.S))
		desc["read_back"] = hx.JS(*back.S)
	} else if p {
		desc["problem"] = "panic: " + msg
	}
	k := 0 // no string class is set aside any more (repaired defect D20)
	valid := utf8.ValidString(str)
	known := ""
	// coqc spends its time elaborating string literals: write each distinct string once
	term := ""
	if escaped == str {
		sc := scanned
		if ok && *back.S == str {
			sc = hx.Some("x")
		}
		term = "(let x := " + hx.S(str) + " in " + hx.C("CaseStr", "x", hx.B(valid), "x", sc, hx.Nat(k)) + ")"
	} else if ok && *back.S == str {
		term = "(let x := " + hx.S(str) + " in " + hx.C("CaseStr", "x", hx.B(valid), hx.S(escaped), hx.Some("x"), hx.Nat(k)) + ")"
	} else {
		term = hx.C("CaseStr", hx.S(str), hx.B(valid), hx.S(escaped), scanned, hx.Nat(k))
	}
	s.Add(hx.Case{
		Term:       chunkLiterals(term),
		Desc:       desc,
		Class:      class,
		Known:      known,
		Nontrivial: true,
		Key:        "str|" + str,
		Cost:       strCost09,
	})
}

// addLit09 writes the string Spec of str through Cache.WriteSpec under a .json name and hands the file's bytes to the judge: the
// member "example.com/note":"<literal>" must carry the literal json_escape predicts (the library writes .json files with
// encoding/json, HTML escaping on — the writer the theorem json_string_layer is about).
func addLit09(s *hx.Suite, scratch string, idx *int, str string) {
	*idx++
	dir := filepath.Join(scratch, "lit")
	_ = os.RemoveAll(dir)
	_ = os.MkdirAll(dir, 0o755)
	cache, _ := cdi.NewCache(cdi.WithSpecDirs(dir), cdi.WithAutoRefresh(false))
	name := fmt.Sprintf("l%d.json", *idx)
	var werr error
	p, msg := hx.Guard(func() { werr = cache.WriteSpec(stringSpec09(str), name) })
	data, rerr := os.ReadFile(filepath.Join(dir, name))
	desc := map[string]interface{}{"string": hx.JS(str), "file": hx.JS(string(data))}
	if p {
		desc["problem"] = "panic: " + msg
	} else if werr != nil {
		desc["problem"] = "WriteSpec refused: " + werr.Error()
	} else if rerr != nil {
		desc["problem"] = "file not readable: " + rerr.Error()
	}
	s.Add(hx.Case{
		Term:       chunkLiterals(hx.C("CaseLit", hx.S(str), hx.S(string(data)))),
		Desc:       desc,
		Class:      "json-literal-in-file",
		Nontrivial: true,
		Key:        "lit|" + str,
		Cost:       0.5,
	})
}

// a string case costs coqc about 1/40 of a Spec case
var strCost09 = 0.025 // quick tier: 0.05 (shards of 1200: the last shards of a run are these, smaller ones end the run sooner)

// a minimal valid Spec carrying str in every kind of string position where it is valid: annotation value, env value, hook
// argument / env value / path, mount host path (prefixed and alone) / container path / option / type, device node path / host
// path, the three intelRdt strings, and — when the string is legal there — a device name, an annotation key (Spec and device
// level), the class and the vendor of the kind
func stringSpec09(str string) *specs.Spec { return stringSpecIn09(str, 7) }

// groups (bits): 1 the intelRdt strings, 2 the paths that must not be empty (device node, hook, mount), 4 the positions with a
// grammar (device name, annotation key, class / vendor).  The dictionaries go everywhere; the strings of the code point sweep
// take one group each in turn (a Spec case costs the judge some 25 ms per record).
func stringSpecIn09(str string, groups int) *specs.Spec {
	s := &specs.Spec{Version: "0.6.0", Kind: "vendor.com/class", Annotations: map[string]string{"example.com/note": str}}
	e := specs.ContainerEdits{
		Env:    []string{"V=" + str},
		Hooks:  []*specs.Hook{{HookName: "prestart", Path: "/bin/h", Args: []string{"a", str, "z"}, Env: []string{"H=" + str}}},
		Mounts: []*specs.Mount{{HostPath: "/h" + str, ContainerPath: "/c", Options: []string{str}}},
	}
	if groups&1 != 0 {
		rdt := &specs.IntelRdt{L3CacheSchema: str, MemBwSchema: str}
		if (&cdi.IntelRdt{IntelRdt: &specs.IntelRdt{ClosID: str}}).Validate() == nil {
			rdt.ClosID = str
		}
		e.IntelRdt = rdt
	}
	if str != "" {
		e.Mounts[0].Type = str
		e.DeviceNodes = []*specs.DeviceNode{{Path: "/dev/x", HostPath: str}}
		if groups&2 != 0 {
			e.DeviceNodes = append(e.DeviceNodes, &specs.DeviceNode{Path: str})
			e.Hooks = append(e.Hooks, &specs.Hook{HookName: "poststop", Path: str})
			e.Mounts = append(e.Mounts, &specs.Mount{HostPath: str, ContainerPath: str})
		}
	}
	s.Devices = []specs.Device{{Name: "dev0", ContainerEdits: e}}
	if groups&4 != 0 && parser.ValidateDeviceName(str) == nil && str != "dev0" {
		s.Devices = append(s.Devices, specs.Device{Name: str, ContainerEdits: specs.ContainerEdits{Env: []string{"N=1"}}})
	}
	if groups&4 != 0 && str != "example.com/note" && cdi.VerifValidateAnnotations(map[string]string{str: ""}) == nil {
		s.Annotations[str] = "key"
		s.Devices[0].Annotations = map[string]string{str: str}
	}
	if groups&4 != 0 && parser.ValidateClassName(str) == nil {
		s.Kind = "vendor.com/" + str
		if parser.ValidateVendorName(str) == nil {
			s.Kind = str + "/" + str
		}
	}
	if v, err := specs.MinimumRequiredVersion(s); err == nil {
		s.Version = v
	}
	return s
}

// bigSpec09: n devices with a few edits each; if long > 0 the first device carries one env value of that many bytes
func bigSpec09(n, long int) *specs.Spec {
	s := &specs.Spec{Kind: "vendor.com/class"}
	for i := 0; i < n; i++ {
		d := specs.Device{Name: fmt.Sprintf("dev%d", i)}
		d.ContainerEdits.Env = []string{fmt.Sprintf("DEVICE_INDEX=%d", i), "PADDING=" + strings.Repeat("x", 60)}
		d.ContainerEdits.Mounts = []*specs.Mount{{HostPath: fmt.Sprintf("/host/lib/dev%d", i), ContainerPath: fmt.Sprintf("/usr/lib/dev%d", i), Options: []string{"ro", "nosuid"}}}
		if i == 0 && long > 0 {
			d.ContainerEdits.Env = append(d.ContainerEdits.Env, "LONG="+strings.Repeat("abcdefghij", long/10))
		}
		s.Devices = append(s.Devices, d)
	}
	s.Version, _ = specs.MinimumRequiredVersion(s)
	return s
}

var yamlDict09 = []string{"yes", "no", "on", "off", "y", "n", "true", "True", "NULL", "null", "~", "", " ", "0123", "0x1F", "0o17", "1_000", "1e3", ".5", "-.inf", ".NaN",
	"2001-12-14", "2001-12-14t21:59:43.10-05:00", "<<", "=", "!!str x", "&a", "*a", "- x", "? x", ": x", "x: y", "x :y", "a #b", "#c", "'", "\"", "''", "\"\"", "'x'", "\"x\"", "\\",
	"\\n", "\\u0041", " x", "x ", "  x  ", "\tx", "x\t", "\n", "\nx", "x\n", "x\n\ny", "x\ny\n", "\r", "x\ry", "\r\n", "x\r\ny", "---", "...", "--- x", "%TAG", "@x", "`x", "|", ">", "|-", ">+",
	"{", "}", "[", "]", "{a: b}", "[a, b]", ",", "a,b", "\u0085", "\u2028", "\u2029", "\ufeff", "\ufeffx", "é", "日本語", "😀", "\U0001F600x", "a\u0000b", "\u0001", "\u001b[0m", "~",
	// a backslash followed by what looks like one of encoding/json's own escapes: survives only if nothing rewrites the written bytes
	"\\u003c", "a\\u0026b", "\\\\u003e", "\\u2028", "<\\u003c>&",
	// spellings of paths which a cleaning step would rewrite
	"a//b", "./x", "x/", "/..", "a/./b", "/", "//", "../x", "/a/../b", "x/."}

// YAML-sensitive spellings that are legal device names, annotation keys, classes: numbers in every YAML 1.1 / 1.2 notation,
// sexagesimals, booleans, null, dates
var yamlNames09 = []string{"y", "Y", "n", "N", "yes", "No", "ON", "off", "true", "TRUE", "False", "null", "Null", "NaN", "inf", "0", "00", "0123", "0o17", "0x1F", "0b11",
	"1e3", "1E3", "1e-3", "1.5", "1.e3", "0.0", "1_000", "1_0.5", "4_2", "12:30", "1:2:3", "190:20:30.15", "2001-12-14", "2001-12-14t21:59:43.10-05:00", "1-2", "a.b", "a:b", "x-", "e1"}

// long strings: the YAML writer folds plain and quoted scalars at blanks beyond its line width
func longStrings09() []string {
	l := func(unit string, n int) string { return strings.Repeat(unit, n) }
	return []string{l("word ", 40), l("word ", 40) + " ", l("ab  cd ", 30), l("key: value ", 20), l("a #b ", 30), "'" + l("it's a \"test\" ", 20),
		l("tab\there and \\ backslash \u00e9 ", 10), l("bell\x07 and words ", 12), l("word ", 30) + "\n" + l("next ", 30), l("x", 300), l(" ", 100), " " + l("word ", 30),
		l("\u65e5\u672c\u8a9e \u30c6\u30ad\u30b9\u30c8 ", 20), l("\U0001F600 ", 60), l("word ", 30) + "\n", l("word ", 30) + "\n\n", l("word\u00a0word ", 20), l("word\u2028word ", 20),
		l("word\t", 40), l("word \tword", 20), l("word ", 20) + "\r" + l("word ", 20), l("word ", 20) + ":", "- " + l("word ", 30), "? " + l("word ", 30), l("1", 100),
		l("say \"hi\" \\n ", 20), l("word ", 15) + l(" ", 10) + l("word ", 15), l("a ", 45), l("word ", 16) + "x", l("word ", 15) + "abcd"}
}

func genC09(r *hx.R, tier, scratch string) (*hx.Suite, error) {
	s := &hx.Suite{Property: "C09", Imports: []string{"Base", "SpecModel", "Doc", "Decode", "Codec", "JsonString", "JsonStringFix", "Judge09"}, CaseType: "case09", Judge: "judge09", Shard: 60,
		Preamble: "Definition rep_s (c : string) (n : N) : string := N.iter n (String.append c) \"\".", // chunkLiterals writes long runs of one byte with it
		
		Rule: "every Spec is written through Cache.WriteSpec under a .json name, a .yaml name and an extension-less name, read back with cdi.ReadSpec and loaded through the cache; structure stream: valid Specs over pairwise combinations of the 32 optional fields with 1-3 devices and list elements, and numeric extremes of every integer field; scalar stream: strings (code points U+0000..U+3000 sampled in quick / all in thorough, alone and embedded, U+FFFE/U+FFFF, non-BMP, a YAML-sensitive dictionary, newlines and blanks in every position) placed in every kind of string position (scalar member, list element, map value, env value); string stream (the literal Cache.WriteSpec writes into a .json file for the string as an annotation value, cut out of the file, then sigs.k8s.io/yaml UnmarshalStrict of the literal as a member value): every code point U+0000..U+FFFF (quick: in runs of 16 consecutive code points, alone where anything is treated specially and for a random 1/32; thorough: each alone as well), code points embedded in seven contexts, a sample beyond the BMP, random strings over an alphabet of every specially treated character, long strings, U+0085 followed by document indicators, and byte strings that are not valid UTF-8; non-trivial: all cases (each is a distinct Spec x encoding or a distinct string)"}
	idx := 0
	strCost09 = 0.025
	if tier != "thorough" {
		strCost09 = 0.05
	}
	litDir09 = filepath.Join(scratch, "strlit")
	_ = os.MkdirAll(litDir09, 0o755)
	litCache09, _ = cdi.NewCache(cdi.WithSpecDirs(litDir09), cdi.WithAutoRefresh(false))
	// --- structure: pairwise option vectors
	vectors := pairwise05(r)
	nStruct := 10
	if tier == "thorough" {
		nStruct = len(vectors) * 3
	}
	for i := 0; i < nStruct; i++ {
		b := &builder05{r: r, on: vectors[i%len(vectors)], m: 1 + r.Intn(3), vary: true}
		sp := b.spec(1 + r.Intn(3))
		if i%3 == 1 {
			sp.Version = "v" + sp.Version // the other legal spelling of a released version
		}
		addSpec09(s, scratch, &idx, "structure", sp, "pairwise optional fields")
	}
	// --- numeric extremes
	{
		maxU := ^uint32(0)
		fm := os.FileMode(maxU)
		tmax, tmin := int(^uint(0)>>1), -int(^uint(0)>>1)-1
		zero := 0
		u0 := uint32(0)
		fm0 := os.FileMode(0)
		ext := &specs.Spec{Kind: "vendor.com/class"}
		ext.Devices = []specs.Device{{Name: "dev0", ContainerEdits: specs.ContainerEdits{
			DeviceNodes: []*specs.DeviceNode{
				{Path: "/dev/a", Type: "c", Major: 1<<63 - 1, Minor: -1 << 63, FileMode: &fm, UID: &maxU, GID: &maxU},
				{Path: "/dev/b", Type: "b", Major: -1 << 63, Minor: 1<<63 - 1, FileMode: &fm0, UID: &u0, GID: &u0},
				{Path: "/dev/c", Major: 1 << 53, Minor: 1<<53 + 1},
			},
			Hooks:          []*specs.Hook{{HookName: "prestart", Path: "/h", Timeout: &tmax}, {HookName: "poststop", Path: "/h", Timeout: &tmin}, {HookName: "poststart", Path: "/h", Timeout: &zero}},
			AdditionalGIDs: []uint32{maxU, 1, 1 << 31},
		}}}
		ext.Version, _ = specs.MinimumRequiredVersion(ext)
		addSpec09(s, scratch, &idx, "numeric-extremes", ext, "int64 / uint32 / int extremes, explicit zero pointers")
	}
	// --- size: Specs well beyond a megabyte per file (many devices; one long string), in the three encodings
	for bi, big := range []*specs.Spec{bigSpec09(7000, 0), bigSpec09(2, 1500000)} {
		for enc := 0; enc < 3; enc++ {
			idx++
			dir := filepath.Join(scratch, "rtbig")
			b := roundTrip09(dir, idx, enc, big)
			same := b.ok && b.cacheSame
			if b.ok {
				x, _ := json.Marshal(b.spec)
				y, _ := json.Marshal(big)
				same = same && string(x) == string(y)
			}
			size := 0
			if ents, err := os.ReadDir(dir); err == nil {
				for _, e := range ents {
					if fi, err := e.Info(); err == nil {
						size += int(fi.Size())
					}
				}
			}
			s.Add(hx.Case{Term: hx.C("CaseBig", hx.Nat(len(big.Devices)), hx.Nat(size), hx.Nat(enc), hx.B(same)),
				Desc:  map[string]interface{}{"devices": len(big.Devices), "file_bytes": size, "encoding": []string{".json", ".yaml", "no extension (YAML)"}[enc], "read_back_equal_and_cache_same": same, "problem": b.panicMsg},
				Class: "large", Nontrivial: true, Key: fmt.Sprintf("big%d|%d", bi, enc)})
		}
	}
	// --- scalar layer
	var strs []string
	strs = append(strs, yamlDict09...)
	strs = append(strs, yamlNames09...)
	everywhere := map[string]bool{}
	for _, x := range strs {
		everywhere[x] = true
	}
	lean := map[string]bool{} // the longest legal keys: the positions with a grammar only (long strings take one group in turn, as the sweep does)
	{
		ls := longStrings09()
		if tier != "thorough" {
			perm := r.Perm(len(ls))[:8]
			var pick []string
			for _, i := range perm {
				pick = append(pick, ls[i])
			}
			ls = pick
		}
		strs = append(strs, ls...)
	}
	// the longest legal annotation key (253-byte prefix, 63-byte name: the YAML writer switches to the explicit "? key" form beyond 128)
	{
		label := strings.Repeat("a", 61)
		keys := []string{label + "." + label + "." + label + "." + label + ".abcde/" + strings.Repeat("N", 63), strings.Repeat("k", 63), strings.Repeat("a", 60) + ".b/c",
			strings.Repeat("d", 129), strings.Repeat("d", 128)}
		for _, k := range keys {
			strs = append(strs, k)
			lean[k] = true
		}
	}
	step := 97
	if tier == "thorough" {
		step = 1
	}
	for cp := r.Intn(step); cp <= 0x3000; cp += step {
		if cp >= 0xd800 && cp <= 0xdfff {
			continue
		}
		c := string(rune(cp))
		strs = append(strs, c, "a"+c+"b")
	}
	// always: the boundaries of the known classes and their neighbours
	for _, cp := range []int{0x00, 0x09, 0x0a, 0x0d, 0x1f, 0x20, 0x7e, 0x7f, 0x80, 0x84, 0x85, 0x86, 0x9f, 0xa0, 0xd7ff, 0xe000, 0xfffd, 0xfffe, 0xffff, 0x10000, 0x10ffff} {
		c := string(rune(cp))
		strs = append(strs, c, "a"+c+"b")
	}
	// newline / blank combinations
	alpha := []string{"a", " ", "\n", "\t", "-", ":", "#", "'", "\"", "\r"}
	nCombo := 60
	if tier == "thorough" {
		nCombo = 1500
	}
	for i := 0; i < nCombo; i++ {
		var b strings.Builder
		for j, n := 0, 1+r.Intn(4); j < n; j++ {
			b.WriteString(hx.Pick(r, alpha))
		}
		strs = append(strs, b.String())
	}
	seen := map[string]bool{}
	for _, str := range strs {
		if seen[str] || !utf8.ValidString(str) {
			continue
		}
		seen[str] = true
		groups := 1 << (len(seen) % 3)
		if everywhere[str] {
			groups = 7
		} else if lean[str] {
			groups = 4
		}
		addSpec09(s, scratch, &idx, "scalar", stringSpecIn09(str, groups), map[string]interface{}{"string": hx.JS(str), "position groups": groups})
	}
	// two strings in one Spec, each harmless to a writer that treats only the other one specially: a string the YAML encoder
	// cannot write readably (several lines, leading white space) next to a character the Spec reader refuses or folds when it
	// stands raw in a JSON text
	for i, a := range []string{"  indented\nlines", "\nx", "\t- a\n\t- b\n", " \n"} {
		for j, b := range []string{"del\u007f", "c1\u0080", "nel\u0085x", "\ufffe", "\uffff", "plain"} {
			if tier != "thorough" && (i+j)%2 == 1 {
				continue
			}
			sp := stringSpecIn09(a, 0)
			sp.Annotations["example.com/other"] = b
			sp.Devices[0].ContainerEdits.Env = append(sp.Devices[0].ContainerEdits.Env, "W="+b)
			addSpec09(s, scratch, &idx, "two-strings", sp, map[string]interface{}{"string": hx.JS(a), "other string": hx.JS(b)})
		}
	}
	// the literals in the files the library writes
	nLit := 0
	seenLit := map[string]bool{}
	for _, str := range strs {
		if !utf8.ValidString(str) || seenLit[str] {
			continue
		}
		seenLit[str] = true
		if (nLit >= 120 && tier != "thorough" || nLit >= 600) && r.Intn(8) != 0 {
			continue
		}
		nLit++
		addLit09(s, scratch, &idx, str)
	}
	genStrings09(r, tier, s, strs)
	return s, nil
}

// the alphabet of the random strings of the string stream: every kind of character the escaping or the scanner treats specially
var strAlpha09 = []string{"a", "b", "z", "0", "9", "A", "F", "f", "u", "n", "x", "U", "N", "L", "P", "_", "e", "/", " ", " ", "  ", "\t", "\n", "\r", "\r\n", "\b", "\f", "\v",
	"\x00", "\x01", "\x1b", "\x1f", "\"", "'", "\\", "\\\\", "\\n", "\\u0041", "\\\"", "<", ">", "&", "-", "---", "...", "--- ", "... ", ".", ":", "#", ",", "{", "}", "[", "]",
	"\x7e", "\x7f", "\u0080", "\u0084", "\u0085", "\u0086", "\u009f", "\u00a0", "\u00e9", "\u07ff", "\u0800", "\u2027", "\u2028", "\u2029", "\u202a", "\ud7ff", "\ue000",
	"\ufeff", "\ufffd", "\ufffe", "\uffff", "\U00010000", "\U0001F600", "\U0010FFFF", "\u65e5\u672c"}

// genStrings09 adds the string-level cases: every code point of the BMP (see below), code points embedded between
// other characters, a sample beyond the BMP, random strings over strAlpha09, everything the scalar stream used, and a few byte
// strings that are not valid UTF-8 (the property does not speak of them; they tie valid_utf8 to utf8.ValidString and the
// U+FFFD replacement of the model to encoding/json).
func genStrings09(r *hx.R, tier string, s *hx.Suite, scalarStrs []string) {
	seen := map[string]bool{}
	add := func(class, str string) {
		if seen[str] {
			return
		}
		seen[str] = true
		addStr09(s, class, str)
	}
	for _, str := range scalarStrs {
		add("string-dictionary", str)
	}
	// every code point of the BMP.  thorough: each alone.  quick: each alone where anything is treated specially (below U+0300,
	// U+2000..U+206F, the edges of the surrogate gap, U+FE00..U+FFFF) plus a random sample, and ALL of them in runs of 16
	// consecutive code points (the members of the two known classes are left out of the runs: they are covered alone)
	special := func(cp int) bool {
		return cp < 0x300 || (cp >= 0x2000 && cp < 0x2070) || (cp >= 0xd7f0 && cp < 0xe010) || cp >= 0xfe00
	}
	for cp := 0; cp <= 0xffff; cp++ {
		if cp >= 0xd800 && cp <= 0xdfff {
			continue
		}
		if tier == "thorough" || special(cp) || r.Intn(32) == 0 {
			add("string-codepoint", string(rune(cp)))
		}
	}
	for lo := 0; lo <= 0xffff; lo += 16 {
		var b strings.Builder
		for cp := lo; cp < lo+16; cp++ {
			if (cp >= 0xd800 && cp <= 0xdfff) || hasC1(string(rune(cp))) || cp == 0x85 {
				continue
			}
			b.WriteRune(rune(cp))
		}
		if b.Len() > 0 {
			add("string-codepoint-run", b.String())
		}
	}
	// embedded: between blanks, after a backslash, before a quote, at a line start made by U+0085 ...
	ctx := [][2]string{{"a", "b"}, {" ", " "}, {"\\", "\""}, {"x ", " y"}, {"\n", "\t"}, {"\u00e9", "\U0001F600"}, {"-", "-"}}
	nEmb, nBeyond, nRand := 3000, 600, 3000
	if tier == "thorough" {
		nEmb, nBeyond, nRand = 40000, 8000, 40000
	}
	for i := 0; i < nEmb; i++ {
		cp := r.Intn(0x10000)
		if i < 0x300 {
			cp = i // every code point below U+0300 at least once
		}
		if cp >= 0xd800 && cp <= 0xdfff {
			continue
		}
		c := hx.Pick(r, ctx)
		add("string-embedded", c[0]+string(rune(cp))+c[1])
	}
	for _, cp := range []int{0x10000, 0x10001, 0x1ffff, 0x20000, 0x2fffe, 0x2ffff, 0xe0000, 0xfffff, 0x100000, 0x10fffe, 0x10ffff} {
		add("string-beyond-bmp", string(rune(cp)))
	}
	for i := 0; i < nBeyond; i++ {
		c := string(rune(0x10000 + r.Intn(0x100000)))
		if r.Chance(0.3) {
			c = "a" + c + " "
		}
		add("string-beyond-bmp", c)
	}
	for i := 0; i < nRand; i++ {
		var b strings.Builder
		for j, n := 0, 1+r.Intn(10); j < n; j++ {
			if r.Chance(0.1) {
				b.WriteRune(rune(r.Intn(0xd800)))
			} else {
				b.WriteString(hx.Pick(r, strAlpha09))
			}
		}
		add("string-random", b.String())
	}
	// a long string (the reader refills its buffers several times) and the document-indicator check at a line start
	add("string-long", strings.Repeat("abc \u00e9\\\"<\n", 700))
	add("string-long", strings.Repeat("\U0001F600", 2000)+" "+strings.Repeat(" ", 1500)+"x")
	for _, str := range []string{"a\u0085--- b", "a\u0085---", "a\u0085...\tb", "a\u0085 --- b", "\u0085---\u0085", "--- a", "a\u0085\u0085b", "a \u0085 b", "\u0085", "a\u0085\u2028b"} {
		add("string-random", str)
	}
	// not valid UTF-8
	bad := []string{"\xff", "\xc0\x80", "\xc2", "a\xc2", "\xe0\x80\x80", "\xe0\xa0", "\xed\xa0\x80", "\xed\xbf\xbf", "\xf0\x80\x80\x80", "\xf4\x90\x80\x80", "\xf5\x80\x80\x80",
		"\xf8\x88\x80\x80\x80", "\x80", "\xbf", "a\x80b", "\xc2\x41", "\xe2\x80", "\xe2\x80\x41", "\xf0\x9f\x98", "\xf0\x9f\x98\x41", "\xc1\xbf", "\xef\xbf", "\xc2\xc2\x85", "\xe1\xc2\x80", "\xfe\xff"}
	nBad := 200
	if tier == "thorough" {
		nBad = 3000
	}
	for i := 0; i < nBad; i++ {
		n := 1 + r.Intn(6)
		bs := make([]byte, n)
		for j := range bs {
			switch r.Intn(4) {
			case 0:
				bs[j] = byte(0x80 + r.Intn(0x40))
			case 1:
				bs[j] = byte(0xc0 + r.Intn(0x40))
			case 2:
				bs[j] = byte(r.Intn(256))
			default:
				bs[j] = byte(0x20 + r.Intn(0x5f))
			}
		}
		bad = append(bad, string(bs))
	}
	for _, str := range bad {
		add("string-bytes", str)
	}
}
