package main

import (
	"encoding/json"
	"os"
	"path/filepath"

	specs "tags.cncf.io/container-device-interface/specs-go"
	"sigs.k8s.io/yaml"
)

// writeSpecFile writes a Spec as JSON or (for other extensions) YAML, directly, without the library's writer.
func writeSpecFile(path string, s *specs.Spec) {
	var data []byte
	if filepath.Ext(path) == ".json" {
		data, _ = json.Marshal(s)
	} else {
		data, _ = yaml.Marshal(s)
	}
	_ = os.MkdirAll(filepath.Dir(path), 0o755)
	_ = os.WriteFile(path, data, 0o644)
}
