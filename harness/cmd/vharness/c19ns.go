package main

// C19 — the cdi command WITHOUT --spec-dirs, on default Spec directories which have content.
//
// Without --spec-dirs the command consults the default cache as it is (root.go does not look at the cache errors then), so
// this is the only way to reach the error branch of the `validate` sub-command itself (cmd/cdi/cmd/validate.go: listing and
// exit status 1) and the listings of a cache which has errors.  The default directories (/etc/cdi, /var/run/cdi) must not
// be touched on the host: a child of the harness is started in a PRIVATE mount namespace (unshare -m), mounts an empty tmpfs
// over the parent of the dynamic default directory there, populates /var/run/cdi inside it, and runs both the command and
// the library in that namespace.  Nothing of this is visible outside the child.

import (
	"encoding/json"
	"flag"
	"fmt"
	"os"
	"os/exec"
	"path/filepath"
	"strings"
	"syscall"

	"tags.cncf.io/container-device-interface/pkg/cdi"
	"tags.cncf.io/container-device-interface/schema"
	"verif/harness/hx"
)

func init() { children["c19-defaults"] = c19DefaultsChild }

type c19WireCase struct {
	Term       string
	Desc       interface{}
	Key        string
	Nontrivial bool
	Class      string
	Known      string
}

func c19LibDevBodies(v *c19View) []string {
	var out []string
	for _, d := range v.Devices {
		out = append(out, c19Canon(d.Device))
		if c19Global(&d.GetSpec().ContainerEdits) {
			out = append(out, c19Canon(d.GetSpec().ContainerEdits))
		}
	}
	return out
}

func c19LibSpecBodies(v *c19View) []string {
	var out []string
	for _, vend := range v.Vendors {
		for _, s := range v.Specs[vend] {
			out = append(out, c19Canon(s.Spec))
		}
	}
	return out
}

// exit status: 0 cases written; 10 the mount is not permitted; 11 not in a private mount namespace (nothing was mounted); other: failure
func c19DefaultsChild(args []string) int {
	fs := flag.NewFlagSet("c19-defaults", flag.ExitOnError)
	cdiBin := fs.String("cdi", "", "the cdi binary")
	out := fs.String("out", "", "file the cases are written to (JSON)")
	seed := fs.Int64("seed", 1, "PRNG seed")
	scratch := fs.String("scratch", "", "working directory for OCI Spec files")
	parentNS := fs.String("parentns", "", "mount namespace of the parent (readlink /proc/self/ns/mnt)")
	_ = fs.Parse(args)
	mine, err := os.Readlink("/proc/self/ns/mnt")
	if err != nil || *parentNS == "" || mine == *parentNS {
		fmt.Fprintln(os.Stderr, "c19-defaults: not in a mount namespace of its own; refusing to mount anything")
		return 11
	}
	dyn := cdi.DefaultDynamicDir
	over, err := filepath.EvalSymlinks(filepath.Dir(dyn))
	if err != nil {
		fmt.Fprintln(os.Stderr, "c19-defaults:", err)
		return 10
	}
	if err := syscall.Mount("tmpfs", over, "tmpfs", 0, ""); err != nil {
		fmt.Fprintln(os.Stderr, "c19-defaults: mount:", err)
		return 10
	}
	if _, err := os.Lstat(cdi.DefaultStaticDir); err == nil {
		fmt.Fprintln(os.Stderr, "c19-defaults: the static default directory exists on this host")
		return 10
	}
	// the static default directory as well, if an empty file system can be put over its parent (neither this process nor the
	// command needs anything from there); else it stays missing and every population has at least that cache error
	static := ""
	if sover, err := filepath.EvalSymlinks(filepath.Dir(cdi.DefaultStaticDir)); err == nil && sover != "/" {
		if syscall.Mount("tmpfs", sover, "tmpfs", 0, "") == nil {
			static = cdi.DefaultStaticDir
		}
	}
	_ = os.MkdirAll(*scratch, 0o755)
	r := hx.NewR(*seed)
	s := &hx.Suite{}
	known := map[string]int{}
	type pop struct {
		tag   string
		files []c19File // a name starting with "static/" goes into the static default directory (if there is one)
	}
	pops := []pop{
		{"default directories with valid Spec files, a device defined in both", []c19File{
			{Name: "static/s.yaml", Kind: "valid", Spec: c19Spec("v1.com", "gpu", []string{"d0", "d2"}, "static-s", r.Intn(8), false)},
			{Name: "a.json", Kind: "valid", Spec: c19Spec("v1.com", "gpu", []string{"d0", "d1"}, "dyn-a", 1+r.Intn(6), true)},
			{Name: "b.yaml", Kind: "valid", Spec: c19Spec("v2.org", "net", []string{"d0"}, "dyn-b", r.Intn(8), r.Chance(0.5))}}},
		{"default directory with a valid and an invalid Spec file", []c19File{
			{Name: "a.json", Kind: "valid", Spec: c19Spec("v1.com", "gpu", []string{"d0", "d2"}, "dyn-a", r.Intn(8), false)},
			{Name: hx.Pick(r, c19Invalid).name, Kind: "invalid"}}},
		{"default directory with two files defining the same device", []c19File{
			{Name: "a.json", Kind: "valid", Spec: c19Spec("v1.com", "gpu", []string{"d0", "d1"}, "dyn-a", 0, false)},
			{Name: "b.json", Kind: "valid", Spec: c19Spec("v1.com", "gpu", []string{"d1"}, "dyn-b", 0, false)},
			{Name: "c.yaml", Kind: "valid", Spec: c19Spec("v2.org", "net", []string{"d0"}, "dyn-c", 3, true)}}},
	}
	for k, p := range pops {
		_ = os.RemoveAll(dyn)
		if err := os.MkdirAll(dyn, 0o755); err != nil {
			fmt.Fprintln(os.Stderr, "c19-defaults:", err)
			return 12
		}
		if static != "" {
			_ = os.RemoveAll(static)
			if err := os.MkdirAll(static, 0o755); err != nil {
				fmt.Fprintln(os.Stderr, "c19-defaults:", err)
				return 12
			}
		}
		for i, f := range p.files {
			fp := filepath.Join(dyn, f.Name)
			if strings.HasPrefix(f.Name, "static/") {
				if static == "" {
					continue
				}
				fp = filepath.Join(static, strings.TrimPrefix(f.Name, "static/"))
			}
			if f.Kind == "valid" {
				writeSpecFile(fp, f.Spec)
				continue
			}
			for _, iv := range c19Invalid {
				if iv.name == f.Name {
					_ = os.WriteFile(fp, []byte(iv.raw), 0o644)
					p.files[i].What = iv.what
				}
			}
		}
		cdi.SetSpecValidator(schema.WithSchema(schema.BuiltinSchema()))
		view, err := c19Library(nil)
		if err != nil {
			fmt.Fprintln(os.Stderr, "c19-defaults:", err)
			return 12
		}
		c := &c19Ctx{s: s, cdiBin: *cdiBin, root: *scratch, defView: view, view: view, known: known,
			scDesc: map[string]interface{}{"no --spec-dirs; " + dyn + " (private mount namespace)": p.tag, "files": p.files}}
		type job struct {
			lsub   string
			cmd    []string
			lib    []string
			bodies func(string) []string
		}
		jobs := []job{{"LValidate", []string{"validate"}, nil, nil}, {"LDevices", []string{"devices"}, nil, nil},
			{"LVendors", []string{"vendors"}, nil, nil}, {"LClasses", []string{"classes"}, nil, nil}}
		if len(view.Errors) == 0 {
			// (with cache errors `dirs`, `specs` and the verbose listings interleave error texts; the model covers them without errors only)
			jobs = append(jobs, job{"LDirs", []string{"dirs"}, nil, nil}, job{"(LSpecs [])", []string{"specs"}, nil, nil},
				job{"LDevicesV", []string{"devices", "-v"}, c19LibDevBodies(view), c19DeviceBodies},
				job{"(LSpecsV [])", []string{"specs", "-v", "-o", hx.Pick(r, []string{"json", "yaml"})}, c19LibSpecBodies(view), c19SpecBodies})
		}
		for _, j := range jobs {
			if err := c.listing(j.lsub, false, view, j.cmd, j.lib, j.bodies, j.cmd[0]+" (populated default dirs)", ""); err != nil {
				fmt.Fprintln(os.Stderr, "c19-defaults:", err)
				view.close()
				return 12
			}
		}
		if len(view.Errors) == 0 {
			if err := c.inject(r, k, []string{"v1.com/gpu=*", "v2.org/net=d0"}, "inject (populated default dirs)"); err != nil {
				fmt.Fprintln(os.Stderr, "c19-defaults:", err)
				view.close()
				return 12
			}
			if err := c.resolve(r, k, []string{"v1.com/gpu=d1", "v9.example/x=nodev"}[:1+r.Intn(2)]); err != nil {
				fmt.Fprintln(os.Stderr, "c19-defaults:", err)
				view.close()
				return 12
			}
		}
		view.close()
		if k == 0 {
			// the same files under a schema (from a file) which rejects the second vendor: the validator named on the command line
			// must be in place when the default cache is first filled
			strict := filepath.Join(*scratch, "strict-schema.json")
			_ = os.WriteFile(strict, []byte(c19StrictSchema), 0o644)
			scm, err := c19LoadSchema(strict)
			if err != nil {
				fmt.Fprintln(os.Stderr, "c19-defaults:", err)
				return 12
			}
			cdi.SetSpecValidator(schema.WithSchema(scm))
			sview, err := c19Library(nil)
			if err != nil {
				fmt.Fprintln(os.Stderr, "c19-defaults:", err)
				return 12
			}
			sc := &c19Ctx{s: s, cdiBin: *cdiBin, root: *scratch, defView: sview, view: sview, known: known,
				scDesc: map[string]interface{}{"no --spec-dirs, --schema <file rejecting v2.org>; " + dyn + " (private mount namespace)": p.tag, "files": p.files}}
			for _, j := range jobs[:4] {
				cmdline := append([]string{hx.Pick(r, []string{"-s", "--schema"}), strict}, j.cmd...)
				if err := sc.listing(j.lsub, false, sview, cmdline, nil, nil, j.cmd[0]+" (populated default dirs, schema file)", ""); err != nil {
					fmt.Fprintln(os.Stderr, "c19-defaults:", err)
					sview.close()
					return 12
				}
			}
			sview.close()
			cdi.SetSpecValidator(schema.WithSchema(schema.BuiltinSchema()))
		}
	}
	wire := make([]c19WireCase, len(s.Cases))
	for i, c := range s.Cases {
		wire[i] = c19WireCase{c.Term, c.Desc, c.Key, c.Nontrivial, c.Class, c.Known}
	}
	data, err := json.Marshal(wire)
	if err != nil {
		fmt.Fprintln(os.Stderr, "c19-defaults:", err)
		return 12
	}
	if err := os.WriteFile(*out, data, 0o644); err != nil {
		fmt.Fprintln(os.Stderr, "c19-defaults:", err)
		return 12
	}
	return 0
}

// c19Defaults runs the child in a private mount namespace and adds its cases; note says why nothing was added, if so.
func c19Defaults(s *hx.Suite, r *hx.R, scratch, cdiBin string) (note string, err error) {
	self, err := os.Executable()
	if err != nil {
		return "", err
	}
	unshare, lerr := exec.LookPath("unshare")
	if lerr != nil {
		return "unavailable: no unshare(1)", nil
	}
	ns, lerr := os.Readlink("/proc/self/ns/mnt")
	if lerr != nil {
		return "unavailable: " + lerr.Error(), nil
	}
	dir := filepath.Join(scratch, "defaults-ns")
	_ = os.MkdirAll(dir, 0o755)
	out := filepath.Join(dir, "cases.json")
	cmd := exec.Command(unshare, "-m", "--propagation", "private", self, "c19-defaults", "-cdi", cdiBin, "-out", out,
		"-seed", fmt.Sprint(r.Int63()), "-scratch", filepath.Join(dir, "work"), "-parentns", ns)
	cmd.Env = append(os.Environ(), "VERIF_BIN_CDI="+cdiBin)
	outb, rerr := cmd.CombinedOutput()
	if rerr != nil {
		msg := strings.TrimSpace(string(outb))
		if ee, ok := rerr.(*exec.ExitError); ok && (ee.ExitCode() == 10 || ee.ExitCode() == 11 || ee.ExitCode() == 1) {
			// 1: unshare itself was refused
			return "unavailable: " + msg, nil
		}
		return "", fmt.Errorf("c19-defaults child: %v: %s", rerr, msg)
	}
	data, rerr := os.ReadFile(out)
	if rerr != nil {
		return "", rerr
	}
	var wire []c19WireCase
	if err := json.Unmarshal(data, &wire); err != nil {
		return "", err
	}
	for _, w := range wire {
		s.Add(hx.Case{Term: w.Term, Desc: w.Desc, Key: w.Key, Nontrivial: w.Nontrivial, Class: w.Class, Known: w.Known})
	}
	return fmt.Sprintf("%d cases", len(wire)), nil
}
