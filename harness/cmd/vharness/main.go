// vharness runs the implementation built from /repo's working tree on generated inputs and
// emits, per property, shards of Gallina case files (input + observed behaviour) for the Coq judges.
package main

import (
	"flag"
	"fmt"
	"os"
	"sort"

	"verif/harness/hx"
)

type genFunc func(r *hx.R, tier string, scratch string) (*hx.Suite, error)

var registry = map[string]genFunc{}

func main() {
	if len(os.Args) < 2 {
		fmt.Fprintln(os.Stderr, "usage: vharness <property|child-command> [flags]")
		os.Exit(2)
	}
	prop := os.Args[1]
	if child, ok := children[prop]; ok {
		os.Exit(child(os.Args[2:]))
	}
	fs := flag.NewFlagSet(prop, flag.ExitOnError)
	seed := fs.Int64("seed", 1, "PRNG seed")
	tier := fs.String("tier", "quick", "quick|thorough")
	out := fs.String("out", "", "output directory")
	only := fs.Int("only", -1, "emit only this case index")
	scratch := fs.String("scratch", "", "scratch directory for files, device nodes, ...")
	_ = fs.Parse(os.Args[2:])
	gen, ok := registry[prop]
	if !ok {
		var ids []string
		for k := range registry {
			ids = append(ids, k)
		}
		sort.Strings(ids)
		fmt.Fprintf(os.Stderr, "unknown property %q (have %v)\n", prop, ids)
		os.Exit(2)
	}
	if *out == "" {
		fmt.Fprintln(os.Stderr, "-out required")
		os.Exit(2)
	}
	if *scratch == "" {
		d, err := os.MkdirTemp("", "vharness-"+prop+"-")
		if err != nil {
			fmt.Fprintln(os.Stderr, err)
			os.Exit(2)
		}
		defer os.RemoveAll(d)
		*scratch = d
	}
	suite, err := gen(hx.NewR(*seed), *tier, *scratch)
	if err != nil {
		fmt.Fprintln(os.Stderr, "harness error:", err)
		os.Exit(3)
	}
	if err := suite.Write(*out, *seed, *tier, *only); err != nil {
		fmt.Fprintln(os.Stderr, "harness error:", err)
		os.Exit(3)
	}
	fmt.Printf("%s: %d cases\n", prop, len(suite.Cases))
}

// children are sub-commands run as separate processes by some harnesses (crash points, fd limits).
var children = map[string]func(args []string) int{}
