package main

import (
	"encoding/json"
	"fmt"
	"os"
	"path/filepath"

	"tags.cncf.io/container-device-interface/pkg/cdi"
	specs "tags.cncf.io/container-device-interface/specs-go"
	"verif/harness/hx"
)

func init() { registry["C06"] = genC06 }

// features: 0 mount type, 1 hostPath, 2 digit name, 3 annotations, 4 dotted class, 5 rdt, 6 gids
const nFeat06 = 7

var featNames06 = []string{"mountType", "hostPath", "digitName", "annotations", "dottedClass", "intelRdt", "additionalGids"}

var c06Variant int

func plainEdits() specs.ContainerEdits { return specs.ContainerEdits{Env: []string{"A=b"}} }

// applyFeature places feature f at location loc (-1 = spec level, k = device k)
func applyFeature(s *specs.Spec, f, loc int) {
	var e *specs.ContainerEdits
	if loc < 0 {
		e = &s.ContainerEdits
	} else {
		e = &s.Devices[loc].ContainerEdits
	}
	c06Variant++ // unusual but legal spellings of each feature take turns with the usual ones
	v := c06Variant % 3
	// list elements that carry a feature stand alone, first, last or in the middle of elements that do not
	before, after := (c06Variant/3)%4 >= 2, (c06Variant/3)%2 == 1
	switch f {
	case 0:
		if before {
			e.Mounts = append(e.Mounts, &specs.Mount{HostPath: "/h0", ContainerPath: "/c0"})
		}
		e.Mounts = append(e.Mounts, &specs.Mount{HostPath: "/h", ContainerPath: "/c", Type: []string{"bind", "x", " "}[v]})
		if after {
			e.Mounts = append(e.Mounts, &specs.Mount{HostPath: "/h1", ContainerPath: "/c1"})
		}
	case 1:
		if before {
			e.DeviceNodes = append(e.DeviceNodes, &specs.DeviceNode{Path: "/dev/w"})
		}
		e.DeviceNodes = append(e.DeviceNodes, &specs.DeviceNode{Path: "/dev/x", HostPath: []string{"/dev/y", "/dev/x", " "}[v]})
		if after {
			e.DeviceNodes = append(e.DeviceNodes, &specs.DeviceNode{Path: "/dev/z"})
		}
	case 2:
		if loc >= 0 {
			s.Devices[loc].Name = "0" + s.Devices[loc].Name
		} else {
			s.Devices[len(s.Devices)-1].Name = "9x"
		}
	case 3:
		if loc < 0 {
			s.Annotations = map[string]string{"k": "v"}
		} else {
			s.Devices[loc].Annotations = map[string]string{"k": "v"}
		}
	case 4:
		s.Kind = "vendor.com/cl.ass"
	case 5:
		e.IntelRdt = []*specs.IntelRdt{{ClosID: "c"}, {}, {EnableCMT: true}}[v]
	case 6:
		e.AdditionalGIDs = append(e.AdditionalGIDs, [][]uint32{{5}, {0}, {0, 0}}[v]...)
	}
}

func c06Case(s *specs.Spec, class, scratch string, withFile bool, feats []string) hx.Case {
	var minv string
	var verr error
	p1, _ := hx.Guard(func() { minv, _ = specs.MinimumRequiredVersion(s) })
	p2, _ := hx.Guard(func() { verr = specs.ValidateVersion(s) })
	rs := 3
	if withFile {
		data, _ := json.Marshal(s)
		path := filepath.Join(scratch, "c06.json")
		_ = os.WriteFile(path, data, 0o644)
		var rerr error
		p3, _ := hx.Guard(func() { _, rerr = cdi.ReadSpec(path, 0) })
		switch {
		case p3:
			rs = 2
		case rerr != nil:
			rs = 1
		default:
			rs = 0
		}
	}
	return hx.Case{
		Term: hx.C("C06", specTerm(s), hx.Opt(hx.S(minv), !p1), hx.Opt(hx.B(verr != nil), !p2), hx.Nat(rs)),
		Desc: map[string]interface{}{"spec": specJSON(s), "features": feats, "MinimumRequiredVersion": minv,
			"ValidateVersion_err": verr != nil, "ReadSpec": []string{"accepted", "rejected", "PANIC", "not run"}[rs]},
		Nontrivial: len(feats) > 0 || len(s.Devices) > 1,
		Class:      class,
	}
}

func genC06(r *hx.R, tier string, scratch string) (*hx.Suite, error) {
	s := &hx.Suite{
		Property: "C06",
		Imports:  []string{"Base", "SpecModel", "Version", "Judge06"},
		CaseType: "case06",
		Judge:    "judge06",
		Shard:    150,
		Rule: "every single feature (7) at every placement (spec level, device k of n for n = 1..3) and every rotation of the device list, declared at " +
			"every released version; all pairs of features at random placements; random feature subsets x placements x declared version strings " +
			"(released, v-prefixed, vv-prefixed, shorthand 0.6 / 1.0 / 1, build metadata, pre-release, unreleased, junk, empty); null deviceNodes/mounts entries. " +
			"Otherwise-valid Specs are also written to a file and read with cdi.ReadSpec. Non-trivial: at least one feature or more than one device.",
	}
	released := []string{"0.1.0", "0.2.0", "0.3.0", "0.4.0", "0.5.0", "0.6.0", "0.7.0", "0.8.0", "1.0.0"}
	odd := []string{"v0.5.0", "v1.0.0", "vv0.5.0", "0.6", "1.0", "1", "v0.4", "0.5.0+unreleased", "1.0.0+vendor.1", "0.7.0-rc1", "0.9.0", "0.3.1", "0.0.0", "", "v", "junk", "1.0.0 ", " 1.0.0", "01.0.0", "0.10.0", "2.0.0"}
	mk := func(n int) *specs.Spec {
		sp := &specs.Spec{Version: "1.0.0", Kind: "vendor.com/class"}
		for i := 0; i < n; i++ {
			sp.Devices = append(sp.Devices, specs.Device{Name: fmt.Sprintf("dev%d", i), ContainerEdits: plainEdits()})
		}
		return sp
	}
	rotate := func(sp *specs.Spec, k int) {
		n := len(sp.Devices)
		if n == 0 {
			return
		}
		k %= n
		sp.Devices = append(sp.Devices[k:], sp.Devices[:k]...)
	}
	// single features, every placement, every rotation, every released version
	for f := 0; f < nFeat06; f++ {
		for n := 1; n <= 3; n++ {
			for loc := -1; loc < n; loc++ {
				for rot := 0; rot < n; rot++ {
					for vi, v := range released {
						sp := mk(n)
						applyFeature(sp, f, loc)
						rotate(sp, rot)
						sp.Version = v
						s.Add(c06Case(sp, "single-feature", scratch, vi%3 == rot%3, []string{featNames06[f]}))
					}
				}
			}
		}
	}
	// no feature, odd declared versions
	for _, v := range append(append([]string{}, released...), odd...) {
		sp := mk(1)
		sp.Version = v
		s.Add(c06Case(sp, "declared-version", scratch, true, nil))
		sp2 := mk(2)
		applyFeature(sp2, 1, 0)
		sp2.Version = v
		s.Add(c06Case(sp2, "declared-version", scratch, true, []string{"hostPath"}))
	}
	// null entries (after the fix they are skipped by the version predicates; ReadSpec rejects them, so no file)
	for _, v := range []string{"0.3.0", "0.5.0"} {
		sp := mk(2)
		sp.Devices[0].ContainerEdits.DeviceNodes = []*specs.DeviceNode{nil, {Path: "/dev/a", HostPath: "/dev/b"}}
		sp.Devices[1].ContainerEdits.Mounts = []*specs.Mount{nil}
		sp.Version = v
		s.Add(c06Case(sp, "null-entries", scratch, false, []string{"hostPath"}))
	}
	// random subsets
	n := 300
	if tier == "thorough" {
		n = 6000
	}
	for i := 0; i < n; i++ {
		nd := 1 + r.Intn(3)
		sp := mk(nd)
		var feats []string
		k := r.Intn(4)
		if tier == "thorough" && r.Chance(0.2) {
			k = r.Intn(nFeat06 + 1)
		}
		for j := 0; j < k; j++ {
			f := r.Intn(nFeat06)
			applyFeature(sp, f, r.Intn(nd+1)-1)
			feats = append(feats, featNames06[f])
		}
		rotate(sp, r.Intn(nd))
		if r.Chance(0.8) {
			sp.Version = hx.Pick(r, released)
		} else {
			sp.Version = hx.Pick(r, odd)
		}
		s.Add(c06Case(sp, "random", scratch, r.Chance(0.5), feats))
	}
	return s, nil
}
