package main

import (
	"encoding/json"
	"fmt"
	"os"
	"path/filepath"

	"sigs.k8s.io/yaml"
	"tags.cncf.io/container-device-interface/pkg/cdi"
	specs "tags.cncf.io/container-device-interface/specs-go"
	"verif/harness/hx"
)

func init() { registry["C06"] = genC06 }

// features: 0 mount type, 1 hostPath, 2 digit name, 3 annotations, 4 dotted class, 5 rdt, 6 gids
const nFeat06 = 7

var featNames06 = []string{"mountType", "hostPath", "digitName", "annotations", "dottedClass", "intelRdt", "additionalGids"}

var c06Variant int
var c06Files int

// lookalike gives location loc (-1 = spec level) everything that resembles a gated feature without being one: an empty but
// present annotation map and gid list, mounts and device nodes whose type / hostPath is the empty string, no RDT.
func lookalike(s *specs.Spec, loc int) {
	e := &s.ContainerEdits
	if loc >= 0 {
		e = &s.Devices[loc].ContainerEdits
		s.Devices[loc].Annotations = map[string]string{}
		s.Devices[loc].Name = "d0" + s.Devices[loc].Name + "9"
	} else {
		s.Annotations = map[string]string{}
	}
	e.AdditionalGIDs = []uint32{}
	e.Mounts = append(e.Mounts, &specs.Mount{HostPath: "/h", ContainerPath: "/c", Type: "", Options: []string{"bind", "type=x"}})
	e.DeviceNodes = append(e.DeviceNodes, &specs.DeviceNode{Path: "/dev/hostPath", HostPath: "", Type: "c", Major: 1})
	e.Hooks = append(e.Hooks, &specs.Hook{HookName: "prestart", Path: "/bin/intelRdt", Args: []string{"additionalGids", "annotations"}})
	e.Env = append(e.Env, "hostPath=/dev/x", "type=bind")
}

func plainEdits() specs.ContainerEdits { return specs.ContainerEdits{Env: []string{"A=b"}} }

// applyFeature places feature f at location loc (-1 = spec level, k = device k)
func applyFeature(s *specs.Spec, f, loc int) {
	var e *specs.ContainerEdits
	if loc < 0 {
		e = &s.ContainerEdits
	} else {
		e = &s.Devices[loc].ContainerEdits
	}
	c06Variant++ // unusual but legal spellings of each feature take turns with the usual ones
	v := c06Variant % 3
	// list elements that carry a feature stand alone, first, last or in the middle of elements that do not
	before, after := (c06Variant/3)%4 >= 2, (c06Variant/3)%2 == 1
	switch f {
	case 0:
		if before {
			e.Mounts = append(e.Mounts, &specs.Mount{HostPath: "/h0", ContainerPath: "/c0"})
		}
		e.Mounts = append(e.Mounts, &specs.Mount{HostPath: "/h", ContainerPath: "/c", Type: []string{"bind", "x", " "}[v]})
		if after {
			e.Mounts = append(e.Mounts, &specs.Mount{HostPath: "/h1", ContainerPath: "/c1"})
		}
	case 1:
		if before {
			e.DeviceNodes = append(e.DeviceNodes, &specs.DeviceNode{Path: "/dev/w"})
		}
		e.DeviceNodes = append(e.DeviceNodes, &specs.DeviceNode{Path: "/dev/x", HostPath: []string{"/dev/y", "/dev/x", " "}[v]})
		if after {
			e.DeviceNodes = append(e.DeviceNodes, &specs.DeviceNode{Path: "/dev/z"})
		}
	case 2:
		if loc >= 0 {
			s.Devices[loc].Name = "0" + s.Devices[loc].Name
		} else {
			s.Devices[len(s.Devices)-1].Name = "9x"
		}
	case 3:
		a := []map[string]string{{"k": "v"}, {"k": ""}, {"a.b/c": "v", "k": "", "z": "1"}}[v]
		if loc < 0 {
			s.Annotations = a
		} else {
			s.Devices[loc].Annotations = a
		}
	case 4:
		s.Kind = []string{"vendor.com/cl.ass", "vendor.com/c.l.a.s.s", "v/class.x"}[v]
	case 5:
		e.IntelRdt = []*specs.IntelRdt{{ClosID: "c"}, {}, {EnableCMT: true}}[v]
	case 6:
		e.AdditionalGIDs = append(e.AdditionalGIDs, [][]uint32{{5}, {0}, {0, 0}}[v]...)
	}
}

func c06Case(s *specs.Spec, class, scratch string, withFile bool, feats []string) hx.Case {
	var minv string
	var verr error
	p1, _ := hx.Guard(func() { minv, _ = specs.MinimumRequiredVersion(s) })
	// the wrapper kept in pkg/cdi must answer the same
	var minv2 string
	var merr error
	p1b, _ := hx.Guard(func() { minv2, merr = cdi.MinimumRequiredVersion(s) })
	if !p1 && (p1b || merr != nil || minv2 != minv) {
		minv = "cdi.MinimumRequiredVersion disagrees: " + minv2
	}
	p2, _ := hx.Guard(func() { verr = specs.ValidateVersion(s) })
	rs := 3
	if withFile {
		c06Files++
		data, _ := json.Marshal(s)
		path := filepath.Join(scratch, "c06.json")
		if c06Files%2 == 1 {
			data, _ = yaml.Marshal(s)
			path = filepath.Join(scratch, "c06.yaml")
		}
		_ = os.WriteFile(path, data, 0o644)
		var rerr error
		p3, _ := hx.Guard(func() { _, rerr = cdi.ReadSpec(path, 0) })
		switch {
		case p3:
			rs = 2
		case rerr != nil:
			rs = 1
		default:
			rs = 0
		}
	}
	return hx.Case{
		Term: hx.C("C06", specTerm(s), hx.Opt(hx.S(minv), !p1), hx.Opt(hx.B(verr != nil), !p2), hx.Nat(rs)),
		Desc: map[string]interface{}{"spec": specJSON(s), "features": feats, "MinimumRequiredVersion": minv,
			"ValidateVersion_err": verr != nil, "ReadSpec": []string{"accepted", "rejected", "PANIC", "not run"}[rs]},
		Nontrivial: len(feats) > 0 || len(s.Devices) > 1,
		Class:      class,
	}
}

func genC06(r *hx.R, tier string, scratch string) (*hx.Suite, error) {
	s := &hx.Suite{
		Property: "C06",
		Imports:  []string{"Base", "SpecModel", "Version", "Judge06"},
		CaseType: "case06",
		Judge:    "judge06",
		Shard:    150,
		Rule: "every single feature (7) at every placement (spec level, device k of n for n = 1..3) and every rotation of the device list, declared at " +
			"every released version; all pairs of features at random placements; random feature subsets x placements x declared version strings " +
			"(released, v-prefixed, vv-prefixed, shorthand 0.6 / 1.0 / 1, build metadata, pre-release, unreleased, junk, empty); null deviceNodes/mounts entries; " +
			"every unreleased X.Y.Z for X <= 2, Y <= 10, Z <= 1; lookalikes of every feature (present-but-empty maps and lists, empty strings) at every placement; " +
			"every first character class of a device name; kinds without / with several slashes; Specs without devices; the same Spec value asked again after a change; " +
			"specs.MinimumRequiredVersion and the cdi wrapper must agree. " +
			"Otherwise-valid Specs are also written to a file (JSON and YAML in turn) and read with cdi.ReadSpec. Non-trivial: at least one feature or more than one device.",
	}
	released := []string{"0.1.0", "0.2.0", "0.3.0", "0.4.0", "0.5.0", "0.6.0", "0.7.0", "0.8.0", "1.0.0"}
	odd := []string{"v0.5.0", "v1.0.0", "vv0.5.0", "0.6", "1.0", "1", "v0.4", "0.5.0+unreleased", "1.0.0+vendor.1", "0.7.0-rc1", "0.9.0", "0.3.1", "0.0.0", "", "v", "junk", "1.0.0 ", " 1.0.0", "01.0.0", "0.10.0", "2.0.0",
		"V1.0.0", "1.0.0\n", "\t1.0.0", "1.0.0+", "1.0.0-", "1.0.0.0", "0.3.0\x00", "v0.3.0 ", "0.5.0v", "vv", "v v0.5.0", "\xd9\xa1.\xd9\xa0.\xd9\xa0", "0.5.00", "0.05.0", "+0.5.0", "0,5,0", "0.5.0.", ".0.5.0"}
	mk := func(n int) *specs.Spec {
		sp := &specs.Spec{Version: "1.0.0", Kind: "vendor.com/class"}
		for i := 0; i < n; i++ {
			sp.Devices = append(sp.Devices, specs.Device{Name: fmt.Sprintf("dev%d", i), ContainerEdits: plainEdits()})
		}
		return sp
	}
	rotate := func(sp *specs.Spec, k int) {
		n := len(sp.Devices)
		if n == 0 {
			return
		}
		k %= n
		sp.Devices = append(sp.Devices[k:], sp.Devices[:k]...)
	}
	// single features, every placement, every rotation, every released version
	for f := 0; f < nFeat06; f++ {
		for n := 1; n <= 3; n++ {
			for loc := -1; loc < n; loc++ {
				for rot := 0; rot < n; rot++ {
					for vi, v := range released {
						sp := mk(n)
						applyFeature(sp, f, loc)
						rotate(sp, rot)
						sp.Version = v
						s.Add(c06Case(sp, "single-feature", scratch, vi%3 == rot%3, []string{featNames06[f]}))
					}
				}
			}
		}
	}
	// no feature, odd declared versions
	for _, v := range append(append([]string{}, released...), odd...) {
		sp := mk(1)
		sp.Version = v
		s.Add(c06Case(sp, "declared-version", scratch, true, nil))
		sp2 := mk(2)
		applyFeature(sp2, 1, 0)
		sp2.Version = v
		s.Add(c06Case(sp2, "declared-version", scratch, true, []string{"hostPath"}))
	}
	// every unreleased X.Y.Z around the released ones: none may be accepted (a version added to the table in a form the
	// translator does not read would show here)
	isReleased := map[string]bool{}
	for _, v := range released {
		isReleased[v] = true
	}
	for x := 0; x <= 2; x++ {
		for y := 0; y <= 10; y++ {
			for z := 0; z <= 1; z++ {
				v := fmt.Sprintf("%d.%d.%d", x, y, z)
				if isReleased[v] {
					continue
				}
				sp := mk(1)
				sp.Version = v
				if (x+y+z)%2 == 0 {
					sp.Version = "v" + v
				}
				s.Add(c06Case(sp, "unreleased-version", scratch, y%3 == 0, nil))
			}
		}
	}
	// lookalikes: present-but-empty annotations and gids, empty type / hostPath, digits elsewhere in the name, the feature
	// names as values: nothing of it is a feature (0.3.0 is enough, 0.2.0 is below the floor)
	for n := 1; n <= 3; n++ {
		for loc := -1; loc < n; loc++ {
			for _, v := range []string{"0.3.0", "0.2.0"} {
				sp := mk(n)
				lookalike(sp, loc)
				sp.Version = v
				s.Add(c06Case(sp, "lookalike", scratch, true, nil))
			}
		}
	}
	// first character of a device name: every digit, the characters next to the digits, digits of other scripts, no name
	for i, nm := range []string{"0x", "1x", "2x", "3x", "4x", "5x", "6x", "7x", "8x", "9x", "7", "x7", "/x", ":x", "\xd9\xa3x", "\xe0\xa5\xa9", "\xef\xbc\x91x", "", "a", "-1", " 1"} {
		for k := 0; k < 2; k++ {
			for _, v := range []string{"0.4.0", "0.5.0"} {
				sp := mk(2)
				sp.Devices[k].Name = nm
				sp.Version = v
				var feats []string
				if i <= 10 {
					feats = []string{"digitName"}
				}
				s.Add(c06Case(sp, "name-first-character", scratch, i <= 11, feats))
			}
		}
	}
	// kinds: the class is what follows the FIRST slash; without a slash there is no class
	for i, kind := range []string{"vendor.com/class", "a.b/c", "vendor.com/class.x", "vendor.com", "", "/", "a.b", "vendor.com/a/b.c", "vendor.com/a.b/c", "vendor.com/.", "v/c.", "v/.c", "v.com//", "v.com/c/d.e/f"} {
		for _, v := range []string{"0.5.0", "0.6.0"} {
			sp := mk(1)
			sp.Kind = kind
			sp.Version = v
			s.Add(c06Case(sp, "kind", scratch, i <= 2, []string{"kind " + kind}))
		}
	}
	// no devices at all: the Spec-level features still count (such a Spec does not load, so no file)
	for _, f := range []int{0, 1, 3, 4, 5, 6} {
		for _, v := range []string{"0.3.0", "0.4.0", "0.5.0", "0.6.0", "0.7.0"} {
			sp := mk(0)
			applyFeature(sp, f, -1)
			sp.Version = v
			s.Add(c06Case(sp, "no-devices", scratch, false, []string{featNames06[f]}))
		}
	}
	// null entries (after the fix they are skipped by the version predicates; ReadSpec rejects them, so no file)
	for _, v := range []string{"0.3.0", "0.5.0"} {
		sp := mk(2)
		sp.Devices[0].ContainerEdits.DeviceNodes = []*specs.DeviceNode{nil, {Path: "/dev/a", HostPath: "/dev/b"}}
		sp.Devices[1].ContainerEdits.Mounts = []*specs.Mount{nil}
		sp.Version = v
		s.Add(c06Case(sp, "null-entries", scratch, false, []string{"hostPath"}))
	}
	// random subsets
	n := 300
	if tier == "thorough" {
		n = 6000
	}
	for i := 0; i < n; i++ {
		nd := 1 + r.Intn(3)
		if r.Chance(0.15) {
			nd = 4 + r.Intn(4)
		}
		sp := mk(nd)
		var feats []string
		if r.Chance(0.3) {
			lookalike(sp, r.Intn(nd+1)-1)
		}
		k := r.Intn(4)
		if tier == "thorough" && r.Chance(0.2) {
			k = r.Intn(nFeat06 + 1)
		}
		for j := 0; j < k; j++ {
			f := r.Intn(nFeat06)
			applyFeature(sp, f, r.Intn(nd+1)-1)
			feats = append(feats, featNames06[f])
		}
		rotate(sp, r.Intn(nd))
		if r.Chance(0.8) {
			sp.Version = hx.Pick(r, released)
		} else {
			sp.Version = hx.Pick(r, odd)
		}
		s.Add(c06Case(sp, "random", scratch, r.Chance(0.5), feats))
		if r.Chance(0.3) {
			// the same Spec value asked again after it gained a feature
			f := r.Intn(nFeat06)
			applyFeature(sp, f, r.Intn(nd+1)-1)
			s.Add(c06Case(sp, "same-object", scratch, r.Chance(0.5), append(feats, featNames06[f])))
		}
	}
	return s, nil
}
