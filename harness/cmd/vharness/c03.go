package main

import (
	"encoding/json"
	"fmt"
	"os"
	"path/filepath"
	"strings"

	oci "github.com/opencontainers/runtime-spec/specs-go"
	"golang.org/x/sys/unix"
	"tags.cncf.io/container-device-interface/pkg/cdi"
	specs "tags.cncf.io/container-device-interface/specs-go"
	"verif/harness/hx"
)

func init() { registry["C03"] = genC03 }

// hostNodes creates real device nodes under dir and returns the lstat oracle as the harness knows it.
type hostNode struct {
	Path         string
	Type         string
	Major, Minor int64
}

func makeHostNodes(r *hx.R, dir string) ([]hostNode, bool) {
	_ = os.MkdirAll(dir, 0o755)
	var nodes []hostNode
	mknodOK := true
	kinds := []struct {
		t    string
		mode uint32
	}{{"c", unix.S_IFCHR}, {"b", unix.S_IFBLK}, {"p", unix.S_IFIFO}, {"c", unix.S_IFCHR}, {"b", unix.S_IFBLK}}
	for i, k := range kinds {
		p := filepath.Join(dir, fmt.Sprintf("n%d", i))
		ma, mi := pickDevNum(r)
		if k.t == "p" {
			ma, mi = 0, 0
		}
		if err := unix.Mknod(p, k.mode|0o600, int(unix.Mkdev(uint32(ma), uint32(mi)))); err != nil {
			mknodOK = false
			continue
		}
		if !rdevIs(p, ma, mi) {
			_ = os.Remove(p)
			continue
		}
		nodes = append(nodes, hostNode{p, k.t, ma, mi})
	}
	if !mknodOK {
		// fallback: nodes that exist everywhere
		nodes = append(nodes, hostNode{"/dev/null", "c", 1, 3}, hostNode{"/dev/zero", "c", 1, 5})
	}
	// a regular file (not a device node) is known to the oracle as absent; so are a directory, a socket, a dangling link
	// and - the implementation uses lstat - a symbolic link to a device node
	_ = os.WriteFile(filepath.Join(dir, "regular"), []byte("x"), 0o644)
	_ = os.Mkdir(filepath.Join(dir, "dir"), 0o755)
	_ = os.Symlink(filepath.Join(dir, "n0"), filepath.Join(dir, "link"))
	_ = os.Symlink(filepath.Join(dir, "nowhere"), filepath.Join(dir, "dangling"))
	_ = unix.Mknod(filepath.Join(dir, "sock"), unix.S_IFSOCK|0o600, 0)
	return nodes, mknodOK
}

// pickDevNum: device numbers over the whole range Linux stores (12-bit major, 20-bit minor), with the boundaries of
// the 8-bit/16-bit encodings likely.
func pickDevNum(r *hx.R) (int64, int64) {
	if r.Chance(0.5) {
		return int64(1 + r.Intn(250)), int64(r.Intn(250))
	}
	ma := hx.Pick(r, []int64{1, 255, 256, 259, 511, 4095, int64(1 + r.Intn(4095))})
	mi := hx.Pick(r, []int64{0, 255, 256, 4095, 4096, 65535, 65536, 70000, 1048575, int64(r.Intn(1 << 20))})
	return ma, mi
}

// rdevIs: the node really carries these numbers (compared on the raw st_rdev encoding, not through the decoding helpers
// the implementation uses).
func rdevIs(path string, ma, mi int64) bool {
	var st unix.Stat_t
	if unix.Lstat(path, &st) != nil {
		return false
	}
	want := (uint64(ma)&0xfff)<<8 | (uint64(ma)&^0xfff)<<32 | uint64(mi)&0xff | (uint64(mi)&^0xff)<<12
	return uint64(st.Rdev) == want
}

func hostTerm(nodes []hostNode) string {
	items := make([]string, len(nodes))
	for i, n := range nodes {
		items[i] = hx.P(hx.S(n.Path), hx.P(hx.S(n.Type), hx.Z(n.Major), hx.Z(n.Minor)))
	}
	return hx.L(items)
}

// names which are prefixes of one another, differ only in case, or contain what looks like another name
var envNames03 = []string{"A", "B", "FOO", "PATH", "LD_LIBRARY_PATH", "X_Y", "AB", "FOOBAR", "foo", "PATH_X"}
var destPool03 = []string{"/a", "/a/b", "/x", "//a/./b/..", "/", "/a/b/c", "/lib/x.so", "/a/", "/x/y/../z", "/usr/lib", "/b", "/c/d/e/f", "relative/p", "/a//b",
	"a", "../up", "/../a", ".", "/a/./././b", "/A", "/a/b/", "x/y/z/..", "/\xc3\xa9/\xc3\xa9"}
var devPathPool03 = []string{"/dev/a", "/dev/b", "/dev/gpu0", "/dev/null", "/dev/c", "/dev//a", "/dev/a/", "/dev/A", "/dev/gpu1"}
var hookNames03 = []string{"prestart", "createRuntime", "createContainer", "startContainer", "poststart", "poststop"}

func u32(v uint32) *uint32 { return &v }

func randHook03(r *hx.R, path string) oci.Hook {
	h := oci.Hook{Path: path}
	if r.Chance(0.5) {
		h.Args = []string{filepath.Base(path), "x"}
	}
	if r.Chance(0.3) {
		h.Env = []string{"H=1"}
	}
	if r.Chance(0.3) {
		to := r.Intn(10)
		h.Timeout = &to
	}
	return h
}

func randOCI(r *hx.R, hosts []hostNode, many bool) *oci.Spec {
	s := &oci.Spec{Version: "1.0.2"}
	if r.Chance(0.7) {
		s.Process = &oci.Process{Cwd: "/", Args: []string{"sh"}}
		n := r.Intn(4)
		if r.Chance(0.2) {
			n = 4 + r.Intn(5)
		}
		used := map[string]bool{}
		for i := 0; i < n; i++ {
			k := hx.Pick(r, envNames03)
			if used[k] {
				continue
			}
			used[k] = true
			s.Process.Env = append(s.Process.Env, k+"="+hx.Pick(r, []string{"1", "", "a=b", "/usr/bin", "=", "FOO=1", "FOO"}))
		}
		if r.Chance(0.3) {
			// entries nobody validated: no '=', empty, only '='
			for i, n := 0, 1+r.Intn(2); i < n; i++ {
				x := hx.Pick(r, []string{"TERM", "", "=", "=x", hx.Pick(r, envNames03)})
				pos := r.Intn(len(s.Process.Env) + 1)
				s.Process.Env = append(s.Process.Env[:pos:pos], append([]string{x}, s.Process.Env[pos:]...)...)
			}
		}
		if r.Chance(0.5) {
			s.Process.User.UID = hx.Pick(r, []uint32{1000, 1000, 1, 4294967295})
		}
		if r.Chance(0.5) {
			s.Process.User.GID = hx.Pick(r, []uint32{2000, 2000, 1, 4294967295})
		}
		if r.Chance(0.4) {
			s.Process.User.AdditionalGids = hx.Pick(r, [][]uint32{{5, 10}, {5, 10}, {0}, {20, 5, 20}, {30}, {0, 10, 4294967295}})
		}
	}
	if r.Chance(0.5) {
		s.Hostname = "host" + fmt.Sprint(r.Intn(100))
		s.Root = &oci.Root{Path: "rootfs", Readonly: r.Chance(0.5)}
	}
	if r.Chance(0.2) {
		s.Annotations = map[string]string{"io.kubernetes.cri.container-name": "c", "cdi.k8s.io/x": "v.com/c=d"}
	}
	nm := r.Intn(4)
	if many {
		nm = 9 + r.Intn(8)
	}
	used := map[string]bool{}
	for i := 0; i < nm; i++ {
		d := hx.Pick(r, destPool03)
		if many {
			d = fmt.Sprintf("%s/m%d", hx.Pick(r, []string{"", "/a", "/a/b", "/x/y/z"}), i)
		}
		if used[d] {
			continue
		}
		used[d] = true
		m := oci.Mount{Destination: d, Source: "/src" + fmt.Sprint(i), Type: hx.Pick(r, []string{"", "bind", "tmpfs"}), Options: []string{"ro"}}
		if r.Chance(0.2) {
			m.Options = hx.Pick(r, [][]string{nil, {}, {"rbind", "rw", "nosuid"}})
		}
		if r.Chance(0.1) {
			m.UIDMappings = []oci.LinuxIDMapping{{ContainerID: 0, HostID: 1000, Size: 1}}
		}
		s.Mounts = append(s.Mounts, m)
	}
	if r.Chance(0.4) {
		s.Hooks = &oci.Hooks{}
		to := 5
		s.Hooks.Prestart = []oci.Hook{{Path: "/bin/pre", Args: []string{"pre", "x"}, Timeout: &to}}
		if r.Chance(0.5) {
			s.Hooks.CreateRuntime = []oci.Hook{{Path: "/bin/cr", Env: []string{"H=1"}}}
			s.Hooks.Poststop = []oci.Hook{{Path: "/bin/ps"}}
		}
	} else if r.Chance(0.5) {
		// every stage with its own previous hooks (none, one, two), so that a hook landing in a neighbouring list shows
		s.Hooks = &oci.Hooks{}
		for i, l := range []*[]oci.Hook{&s.Hooks.Prestart, &s.Hooks.CreateRuntime, &s.Hooks.CreateContainer, &s.Hooks.StartContainer, &s.Hooks.Poststart, &s.Hooks.Poststop} {
			for j, n := 0, r.Intn(3); j < n; j++ {
				*l = append(*l, randHook03(r, fmt.Sprintf("/bin/old-%s-%d", hookNames03[i], j)))
			}
		}
	}
	if r.Chance(0.6) {
		s.Linux = &oci.Linux{}
		if r.Chance(0.5) {
			s.Linux.Namespaces = []oci.LinuxNamespace{{Type: "pid"}, {Type: "mount"}}
		}
		nd := r.Intn(3)
		if r.Chance(0.25) {
			nd = 3 + r.Intn(4)
		}
		usedp := map[string]bool{}
		for i := 0; i < nd; i++ {
			p := hx.Pick(r, []string{"/dev/a", "/dev/b", "/dev/null", "/dev/c", "/dev//a", "/dev/a/", "/dev/A", "/dev/gpu0"})
			if usedp[p] {
				continue
			}
			usedp[p] = true
			d := oci.LinuxDevice{Path: p, Type: "c", Major: 9, Minor: int64(i), UID: u32(7)}
			if r.Chance(0.3) {
				fm := os.FileMode(0o640)
				d = oci.LinuxDevice{Path: p, Type: hx.Pick(r, []string{"b", "p", "u"}), Major: int64(r.Intn(300)), Minor: int64(r.Intn(300)), FileMode: &fm, GID: u32(0)}
			}
			s.Linux.Devices = append(s.Linux.Devices, d)
		}
		if r.Chance(0.5) {
			s.Linux.Resources = &oci.LinuxResources{}
			if r.Chance(0.5) {
				lim := int64(1 << 20)
				s.Linux.Resources.Memory = &oci.LinuxMemory{Limit: &lim}
			}
			if r.Chance(0.7) {
				ma, mi := int64(9), int64(0)
				s.Linux.Resources.Devices = []oci.LinuxDeviceCgroup{{Allow: false, Access: "rwm"}, {Allow: true, Type: "c", Major: &ma, Minor: &mi, Access: "r"}}
				if r.Chance(0.5) {
					// wildcard rules as container engines write them: no major, or a major and no minor
					m1 := int64(1 + r.Intn(200))
					s.Linux.Resources.Devices = append(s.Linux.Resources.Devices,
						oci.LinuxDeviceCgroup{Allow: true, Type: "c", Access: "m"},
						oci.LinuxDeviceCgroup{Allow: true, Type: "b", Major: &m1, Access: "rwm"},
						oci.LinuxDeviceCgroup{Allow: true, Type: "c", Major: &m1, Access: "rw"})
				}
				if r.Chance(0.3) && len(hosts) > 0 {
					// a rule for one of the host nodes is there already (allow or deny): the edits still append theirs
					h := hx.Pick(r, hosts)
					hma, hmi := h.Major, h.Minor
					s.Linux.Resources.Devices = append(s.Linux.Resources.Devices,
						oci.LinuxDeviceCgroup{Allow: r.Chance(0.5), Type: h.Type, Major: &hma, Minor: &hmi, Access: hx.Pick(r, []string{"rwm", "r", ""})})
				}
			}
		}
		if r.Chance(0.3) {
			s.Linux.IntelRdt = &oci.LinuxIntelRdt{ClosID: "old", L3CacheSchema: "L3:0=f", EnableCMT: true}
			if r.Chance(0.5) {
				s.Linux.IntelRdt = &oci.LinuxIntelRdt{ClosID: hx.Pick(r, []string{"", "old", "new"}), L3CacheSchema: hx.Pick(r, []string{"", "L3:0=f"}),
					MemBwSchema: hx.Pick(r, []string{"", "MB:0=20"}), EnableCMT: r.Chance(0.5), EnableMBM: r.Chance(0.5)}
			}
		}
	}
	return s
}

func randEdits(r *hx.R, hosts []hostNode, scratchDev string, many bool) *specs.ContainerEdits {
	e := &specs.ContainerEdits{}
	ne := r.Intn(4)
	if r.Chance(0.15) {
		ne = 4 + r.Intn(6)
	}
	for i := 0; i < ne; i++ {
		e.Env = append(e.Env, hx.Pick(r, envNames03)+"="+hx.Pick(r, []string{"2", "", "x=y", "new", "=", "FOO=3", "A"}))
	}
	nn := r.Intn(4)
	if r.Chance(0.1) {
		nn = 4 + r.Intn(4)
	}
	for i := 0; i < nn; i++ {
		d := &specs.DeviceNode{}
		h := hx.Pick(r, hosts)
		switch r.Intn(9) {
		case 0: // container path = host path, nothing specified
			d.Path = h.Path
		case 1: // explicit host path
			d.Path = hx.Pick(r, devPathPool03)
			d.HostPath = h.Path
		case 2: // fully specified, no host lookup
			d.Path = hx.Pick(r, devPathPool03)
			d.Type = hx.Pick(r, []string{"c", "b", "u"})
			d.Major, d.Minor = int64(1+r.Intn(200)), int64(r.Intn(200))
			if r.Chance(0.2) {
				d.Minor = 0
			}
		case 3: // type given, numbers from the host (type may mismatch)
			d.Path = hx.Pick(r, []string{"/dev/a", "/dev/gpu0"})
			d.HostPath = h.Path
			d.Type = hx.Pick(r, []string{h.Type, h.Type, h.Type, "c", "b", "p", "u"})
			if r.Chance(0.3) {
				// a minor without a major: the host numbers are taken
				d.Minor = int64(1 + r.Intn(50))
			}
		case 4: // fifo given explicitly: no lookup
			d.Path = "/dev/fifo"
			d.Type = "p"
			if r.Chance(0.3) {
				d.Major, d.Minor = int64(r.Intn(3)), int64(r.Intn(3))
			}
		case 5: // numbers given, type from the host: the numbers stay
			d.Path = hx.Pick(r, devPathPool03)
			d.HostPath = h.Path
			d.Major, d.Minor = int64(1+r.Intn(200)), int64(r.Intn(3))
		case 6: // no type, no major, but a minor: type and numbers from the host
			d.Path = hx.Pick(r, devPathPool03)
			d.HostPath = h.Path
			d.Minor = int64(1 + r.Intn(50))
		default: // missing host node / not a device node / a link to a device node (lstat)
			d.Path = "/dev/gpu0"
			d.HostPath = filepath.Join(scratchDev, hx.Pick(r, []string{"missing", "regular", "dir", "link", "dangling", "sock"}))
			if r.Chance(0.5) {
				d.Type = "c"
				d.Major = 5
			}
		}
		d.Permissions = hx.Pick(r, []string{"", "", "rw", "r", "rwm", "m", "w", "mrw", "rr", "wm"})
		if r.Chance(0.3) {
			d.UID = u32(hx.Pick(r, []uint32{0, 100, 200, 4294967295}))
		}
		if r.Chance(0.3) {
			d.GID = u32(hx.Pick(r, []uint32{0, 100, 200, 4294967295}))
		}
		if r.Chance(0.3) {
			fm := os.FileMode(hx.Pick(r, []uint32{0o660, 0o600, 8630, 0}))
			d.FileMode = &fm
		}
		e.DeviceNodes = append(e.DeviceNodes, d)
	}
	if len(e.DeviceNodes) > 1 && r.Chance(0.15) {
		// the same node value twice in the list
		e.DeviceNodes = append(e.DeviceNodes, e.DeviceNodes[r.Intn(len(e.DeviceNodes))])
	}
	nm := r.Intn(4)
	if many && r.Chance(0.7) {
		nm = 1 + r.Intn(8)
	}
	for i := 0; i < nm; i++ {
		d := hx.Pick(r, destPool03)
		if many && r.Chance(0.5) {
			d = fmt.Sprintf("%s/m%d", hx.Pick(r, []string{"", "/a", "/a/b", "/x/y/z"}), r.Intn(20))
		}
		m := &specs.Mount{HostPath: "/host" + fmt.Sprint(i), ContainerPath: d, Options: []string{"rw", "nosuid"}, Type: hx.Pick(r, []string{"", "bind"})}
		if r.Chance(0.25) {
			m.Options = hx.Pick(r, [][]string{nil, {}, {"ro"}, {"rbind", "ro", "nodev", "x-opt=1"}})
			m.Type = hx.Pick(r, []string{"", "bind", "tmpfs", " "})
		}
		e.Mounts = append(e.Mounts, m)
	}
	nh := r.Intn(4)
	if r.Chance(0.1) {
		nh = 4 + r.Intn(5)
	}
	for i := 0; i < nh; i++ {
		h := &specs.Hook{HookName: hx.Pick(r, hookNames03), Path: "/bin/hook" + fmt.Sprint(i), Args: []string{"hook", fmt.Sprint(i)}}
		if r.Chance(0.2) {
			h.Args = hx.Pick(r, [][]string{nil, {}, {""}})
		}
		if r.Chance(0.3) {
			h.Env = []string{"HK=" + fmt.Sprint(i)}
		}
		if r.Chance(0.3) {
			to := r.Intn(100)
			h.Timeout = &to
		}
		e.Hooks = append(e.Hooks, h)
	}
	if len(e.Hooks) > 0 && r.Chance(0.15) {
		// a hook equal in every field to an earlier one: both are appended
		c := *e.Hooks[r.Intn(len(e.Hooks))]
		e.Hooks = append(e.Hooks, &c)
	}
	if r.Chance(0.25) {
		e.IntelRdt = &specs.IntelRdt{ClosID: "new", MemBwSchema: "MB:0=70", EnableMBM: r.Chance(0.5)}
		if r.Chance(0.6) {
			// every member takes both kinds of value, also all of them empty: the whole previous setting is replaced
			e.IntelRdt = &specs.IntelRdt{ClosID: hx.Pick(r, []string{"", "new", "old"}), L3CacheSchema: hx.Pick(r, []string{"", "L3:0=ff;1=f"}),
				MemBwSchema: hx.Pick(r, []string{"", "MB:0=70"}), EnableCMT: r.Chance(0.5), EnableMBM: r.Chance(0.5)}
		}
	}
	ng := r.Intn(4)
	if r.Chance(0.1) {
		ng = 4 + r.Intn(6)
	}
	for i := 0; i < ng; i++ {
		e.AdditionalGIDs = append(e.AdditionalGIDs, hx.Pick(r, []uint32{0, 5, 10, 20, 30, 20, 1, 4294967295}))
	}
	return e
}

// envDefectRepaired: /repo carries the repair of the former known finding C03/env-existing-name
const envDefectRepaired = true

func envClassKnown(init *oci.Spec, e *specs.ContainerEdits) bool {
	if envDefectRepaired {
		// repaired defect D19 (Apply drops the variables about to be set): no input class is set aside any more
		return false
	}
	if init.Process == nil {
		return false
	}
	names := map[string]bool{}
	for _, x := range e.Env {
		names[strings.SplitN(x, "=", 2)[0]] = true
	}
	for _, x := range init.Process.Env {
		if names[strings.SplitN(x, "=", 2)[0]] {
			return true
		}
	}
	return false
}

var c03AliasTurn int

// c03Cases applies the edits through one of the three public entry points and emits the case(s).
func c03Cases(s *hx.Suite, hosts []hostNode, init *oci.Spec, e *specs.ContainerEdits, entry int, class string) {
	before := deepCopyOCI(init)
	work := deepCopyOCI(init)
	// Every other case: a hook of the OCI spec shares its env slice with the process (the same backing array, as a runtime
	// that builds its hooks from the container's environment has it).  The values are what `before` says; whatever Apply does
	// to the process env, it must not rewrite the array under the hook ("nothing else in the OCI spec changes").
	c03AliasTurn++
	if c03AliasTurn%2 == 0 && work.Process != nil && len(work.Process.Env) > 0 && work.Hooks != nil {
		for _, hl := range []*[]oci.Hook{&work.Hooks.CreateRuntime, &work.Hooks.Prestart, &work.Hooks.Poststop} {
			if len(*hl) > 0 {
				(*hl)[0].Env = work.Process.Env
			}
		}
		for _, hl := range []*[]oci.Hook{&before.Hooks.CreateRuntime, &before.Hooks.Prestart, &before.Hooks.Poststop} {
			if len(*hl) > 0 {
				(*hl)[0].Env = append([]string{}, before.Process.Env...)
			}
		}
	}
	var err error
	p, _ := hx.Guard(func() {
		switch entry {
		case 0:
			err = (&cdi.ContainerEdits{ContainerEdits: e}).Apply(work)
		case 1:
			d := cdi.Device{Device: &specs.Device{Name: "d", ContainerEdits: *e}}
			err = d.ApplyEdits(work)
		case 2:
			sp := cdi.Spec{Spec: &specs.Spec{ContainerEdits: *e}}
			err = sp.ApplyEdits(work)
		case 3: // no edits at all: a wrapper around nil (e is the empty edits then)
			err = (&cdi.ContainerEdits{}).Apply(work)
		default: // ... and a nil wrapper
			err = (*cdi.ContainerEdits)(nil).Apply(work)
		}
	})
	outcome := 0
	if p {
		outcome = 2
	} else if err != nil {
		outcome = 1
	}
	mk := func(mode int, known string) hx.Case {
		return hx.Case{
			Term: hx.C("C03", hx.Nat(mode), hostTerm(hosts), editsTerm(e), ociTerm(before), ociTerm(work), hx.Nat(outcome)),
			Desc: map[string]interface{}{"entry": []string{"ContainerEdits.Apply", "Device.ApplyEdits", "Spec.ApplyEdits", "ContainerEdits{nil}.Apply", "(*ContainerEdits)(nil).Apply"}[entry], "edits": e, "initial": ociJSON(before),
				"result": ociJSON(work), "outcome": []string{"ok", "error", "PANIC"}[outcome], "host_nodes": hosts, "checked": []string{"all", "all but env", "env only"}[mode]},
			Nontrivial: len(e.DeviceNodes)+len(e.Mounts)+len(e.Hooks)+len(e.Env)+len(e.AdditionalGIDs) > 0 || e.IntelRdt != nil || entry >= 3,
			Class:      class,
			Known:      known,
		}
	}
	if envClassKnown(before, e) {
		s.Add(mk(1, ""))
		s.Add(mk(2, "C03/env-existing-name"))
	} else {
		s.Add(mk(0, ""))
	}
}

// c03Again applies the SAME edits value a second time, to a fresh copy of the initial spec, after the host nodes have been
// re-created with other attributes: the result must be the one of the edits as they were given (printed before the first
// application) under the new host nodes — nothing of the first application may stick to the edits.
func c03Again(s *hx.Suite, hosts1, hosts2 []hostNode, init *oci.Spec, e *specs.ContainerEdits, origTerm string, eJSON interface{}) {
	before := deepCopyOCI(init)
	work := deepCopyOCI(init)
	var err error
	p, _ := hx.Guard(func() { err = (&cdi.ContainerEdits{ContainerEdits: e}).Apply(work) })
	outcome := 0
	if p {
		outcome = 2
	} else if err != nil {
		outcome = 1
	}
	mode := 0
	if envClassKnown(before, e) {
		mode = 1
	}
	s.Add(hx.Case{
		Term: hx.C("C03", hx.Nat(mode), hostTerm(hosts2), origTerm, ociTerm(before), ociTerm(work), hx.Nat(outcome)),
		Desc: map[string]interface{}{"entry": "ContainerEdits.Apply, second application of the same edits after the host nodes were re-created", "edits": eJSON,
			"initial": ociJSON(before), "result": ociJSON(work), "outcome": []string{"ok", "error", "PANIC"}[outcome], "host_nodes_first": hosts1, "host_nodes": hosts2},
		Nontrivial: true, Class: "apply-twice"})
}

func genC03(r *hx.R, tier string, scratch string) (*hx.Suite, error) {
	s := &hx.Suite{
		Property: "C03",
		Imports:  []string{"Base", "SpecModel", "Oci", "Apply", "ApplySpec", "Judge03"},
		CaseType: "case03",
		Judge:    "judge03",
		Shard:    60,
		Rule: "random well-formed initial OCI specs (nil or populated Process/Linux/Hooks sections, existing env/devices/cgroup rules/mounts/hooks/gids/RDT, " +
			"uid/gid zero or not, random unmodelled fields checked unchanged through a JSON image) x random valid edit lists (repeated paths, destinations and " +
			"variable names, non-clean destinations, every node type, host nodes created with mknod at random major/minor, missing and non-device host nodes, " +
			"type mismatches, 9-25 mounts so that an unstable sort shows) through ContainerEdits.Apply / Device.ApplyEdits / Spec.ApplyEdits; " +
			"non-trivial: at least one edit; inputs whose initial env already has a variable named by the edits are split into an all-but-env case and an " +
			"env-only case tagged with the known finding.",
	}
	devDir := filepath.Join(scratch, "hostdev")
	hosts, mknodOK := makeHostNodes(r, devDir)
	s.Extra = map[string]interface{}{"x_mknod_available": mknodOK}
	// corpus: the witness of the known finding, uid/gid defaulting with only one of them set, unstable sort sizes
	{
		init := &oci.Spec{Process: &oci.Process{Env: []string{"FOO=1"}}}
		c03Cases(s, hosts, init, &specs.ContainerEdits{Env: []string{"FOO=2"}}, 0, "corpus")
		init2 := &oci.Spec{Process: &oci.Process{User: oci.User{UID: 1000, GID: 2000}}}
		c03Cases(s, hosts, init2, &specs.ContainerEdits{DeviceNodes: []*specs.DeviceNode{{Path: "/dev/x", Type: "c", Major: 1, Minor: 2, UID: u32(5)}, {Path: "/dev/y", Type: "c", Major: 1, Minor: 3, GID: u32(6)}}}, 0, "corpus")
		for _, n := range []int{4, 12, 13, 20, 40} {
			init3 := &oci.Spec{}
			for i := 0; i < n; i++ {
				init3.Mounts = append(init3.Mounts, oci.Mount{Destination: fmt.Sprintf("%s/m%d", []string{"", "/a", "/a/b"}[i%3], i), Source: "/s"})
			}
			c03Cases(s, hosts, init3, &specs.ContainerEdits{Mounts: []*specs.Mount{{HostPath: "/h", ContainerPath: "/a/new"}}}, 0, "corpus")
		}
	}
	n := 500
	if tier == "thorough" {
		n = 6000
	}
	for i := 0; i < n; i++ {
		many := r.Chance(0.15)
		init := randOCI(r, hosts, many)
		e := randEdits(r, hosts, devDir, many)
		origTerm := editsTerm(e)
		eJSON, _ := json.Marshal(e)
		c03Cases(s, hosts, init, e, r.Intn(3), "random")
		if i%25 == 3 {
			// no edits: nothing changes, whatever the spec holds (also unsorted mounts stay as they are)
			c03Cases(s, hosts, init, &specs.ContainerEdits{}, 3+r.Intn(2), "no-edits")
			c03Cases(s, hosts, init, &specs.ContainerEdits{}, r.Intn(3), "no-edits")
		}
		if i%5 == 0 && mknodOK {
			old := hosts
			hosts = remakeHostNodes(r, hosts)
			c03Again(s, old, hosts, init, e, origTerm, json.RawMessage(eJSON))
		}
	}
	return s, nil
}
