package main

import (
	"encoding/json"
	"fmt"
	"os"
	"path/filepath"
	"strings"

	oci "github.com/opencontainers/runtime-spec/specs-go"
	"golang.org/x/sys/unix"
	"tags.cncf.io/container-device-interface/pkg/cdi"
	specs "tags.cncf.io/container-device-interface/specs-go"
	"verif/harness/hx"
)

func init() { registry["C03"] = genC03 }

// hostNodes creates real device nodes under dir and returns the lstat oracle as the harness knows it.
type hostNode struct {
	Path         string
	Type         string
	Major, Minor int64
}

func makeHostNodes(r *hx.R, dir string) ([]hostNode, bool) {
	_ = os.MkdirAll(dir, 0o755)
	var nodes []hostNode
	mknodOK := true
	kinds := []struct {
		t    string
		mode uint32
	}{{"c", unix.S_IFCHR}, {"b", unix.S_IFBLK}, {"p", unix.S_IFIFO}, {"c", unix.S_IFCHR}, {"b", unix.S_IFBLK}}
	for i, k := range kinds {
		p := filepath.Join(dir, fmt.Sprintf("n%d", i))
		ma, mi := pickDevNum(r)
		if k.t == "p" {
			ma, mi = 0, 0
		}
		if err := unix.Mknod(p, k.mode|0o600, int(unix.Mkdev(uint32(ma), uint32(mi)))); err != nil {
			mknodOK = false
			continue
		}
		if !rdevIs(p, ma, mi) {
			_ = os.Remove(p)
			continue
		}
		nodes = append(nodes, hostNode{p, k.t, ma, mi})
	}
	if !mknodOK {
		// fallback: nodes that exist everywhere
		nodes = append(nodes, hostNode{"/dev/null", "c", 1, 3}, hostNode{"/dev/zero", "c", 1, 5})
	}
	// a regular file (not a device node) is known to the oracle as absent
	_ = os.WriteFile(filepath.Join(dir, "regular"), []byte("x"), 0o644)
	return nodes, mknodOK
}

// pickDevNum: device numbers over the whole range Linux stores (12-bit major, 20-bit minor), with the boundaries of
// the 8-bit/16-bit encodings likely.
func pickDevNum(r *hx.R) (int64, int64) {
	if r.Chance(0.5) {
		return int64(1 + r.Intn(250)), int64(r.Intn(250))
	}
	ma := hx.Pick(r, []int64{1, 255, 256, 259, 511, 4095, int64(1 + r.Intn(4095))})
	mi := hx.Pick(r, []int64{0, 255, 256, 4095, 4096, 65535, 65536, 70000, 1048575, int64(r.Intn(1 << 20))})
	return ma, mi
}

// rdevIs: the node really carries these numbers (compared on the raw st_rdev encoding, not through the decoding helpers
// the implementation uses).
func rdevIs(path string, ma, mi int64) bool {
	var st unix.Stat_t
	if unix.Lstat(path, &st) != nil {
		return false
	}
	want := (uint64(ma)&0xfff)<<8 | (uint64(ma)&^0xfff)<<32 | uint64(mi)&0xff | (uint64(mi)&^0xff)<<12
	return uint64(st.Rdev) == want
}

func hostTerm(nodes []hostNode) string {
	items := make([]string, len(nodes))
	for i, n := range nodes {
		items[i] = hx.P(hx.S(n.Path), hx.P(hx.S(n.Type), hx.Z(n.Major), hx.Z(n.Minor)))
	}
	return hx.L(items)
}

var envNames03 = []string{"A", "B", "FOO", "PATH", "LD_LIBRARY_PATH", "X_Y"}
var destPool03 = []string{"/a", "/a/b", "/x", "//a/./b/..", "/", "/a/b/c", "/lib/x.so", "/a/", "/x/y/../z", "/usr/lib", "/b", "/c/d/e/f", "relative/p", "/a//b"}
var hookNames03 = []string{"prestart", "createRuntime", "createContainer", "startContainer", "poststart", "poststop"}

func u32(v uint32) *uint32 { return &v }

func randOCI(r *hx.R, hosts []hostNode, many bool) *oci.Spec {
	s := &oci.Spec{Version: "1.0.2"}
	if r.Chance(0.7) {
		s.Process = &oci.Process{Cwd: "/", Args: []string{"sh"}}
		n := r.Intn(4)
		used := map[string]bool{}
		for i := 0; i < n; i++ {
			k := hx.Pick(r, envNames03)
			if used[k] {
				continue
			}
			used[k] = true
			s.Process.Env = append(s.Process.Env, k+"="+hx.Pick(r, []string{"1", "", "a=b", "/usr/bin"}))
		}
		if r.Chance(0.3) {
			// entries nobody validated: no '=', empty, only '='
			for i, n := 0, 1+r.Intn(2); i < n; i++ {
				x := hx.Pick(r, []string{"TERM", "", "=", "=x", hx.Pick(r, envNames03)})
				pos := r.Intn(len(s.Process.Env) + 1)
				s.Process.Env = append(s.Process.Env[:pos:pos], append([]string{x}, s.Process.Env[pos:]...)...)
			}
		}
		if r.Chance(0.5) {
			s.Process.User.UID = 1000
		}
		if r.Chance(0.5) {
			s.Process.User.GID = 2000
		}
		if r.Chance(0.4) {
			s.Process.User.AdditionalGids = []uint32{5, 10}
		}
	}
	if r.Chance(0.5) {
		s.Hostname = "host" + fmt.Sprint(r.Intn(100))
		s.Root = &oci.Root{Path: "rootfs", Readonly: r.Chance(0.5)}
	}
	nm := r.Intn(4)
	if many {
		nm = 9 + r.Intn(8)
	}
	used := map[string]bool{}
	for i := 0; i < nm; i++ {
		d := hx.Pick(r, destPool03)
		if many {
			d = fmt.Sprintf("%s/m%d", hx.Pick(r, []string{"", "/a", "/a/b", "/x/y/z"}), i)
		}
		if used[d] {
			continue
		}
		used[d] = true
		m := oci.Mount{Destination: d, Source: "/src" + fmt.Sprint(i), Type: hx.Pick(r, []string{"", "bind", "tmpfs"}), Options: []string{"ro"}}
		if r.Chance(0.1) {
			m.UIDMappings = []oci.LinuxIDMapping{{ContainerID: 0, HostID: 1000, Size: 1}}
		}
		s.Mounts = append(s.Mounts, m)
	}
	if r.Chance(0.4) {
		s.Hooks = &oci.Hooks{}
		to := 5
		s.Hooks.Prestart = []oci.Hook{{Path: "/bin/pre", Args: []string{"pre", "x"}, Timeout: &to}}
		if r.Chance(0.5) {
			s.Hooks.CreateRuntime = []oci.Hook{{Path: "/bin/cr", Env: []string{"H=1"}}}
			s.Hooks.Poststop = []oci.Hook{{Path: "/bin/ps"}}
		}
	}
	if r.Chance(0.6) {
		s.Linux = &oci.Linux{}
		if r.Chance(0.5) {
			s.Linux.Namespaces = []oci.LinuxNamespace{{Type: "pid"}, {Type: "mount"}}
		}
		nd := r.Intn(3)
		usedp := map[string]bool{}
		for i := 0; i < nd; i++ {
			p := hx.Pick(r, []string{"/dev/a", "/dev/b", "/dev/null", "/dev/c"})
			if usedp[p] {
				continue
			}
			usedp[p] = true
			s.Linux.Devices = append(s.Linux.Devices, oci.LinuxDevice{Path: p, Type: "c", Major: 9, Minor: int64(i), UID: u32(7)})
		}
		if r.Chance(0.5) {
			s.Linux.Resources = &oci.LinuxResources{}
			if r.Chance(0.5) {
				lim := int64(1 << 20)
				s.Linux.Resources.Memory = &oci.LinuxMemory{Limit: &lim}
			}
			if r.Chance(0.7) {
				ma, mi := int64(9), int64(0)
				s.Linux.Resources.Devices = []oci.LinuxDeviceCgroup{{Allow: false, Access: "rwm"}, {Allow: true, Type: "c", Major: &ma, Minor: &mi, Access: "r"}}
				if r.Chance(0.5) {
					// wildcard rules as container engines write them: no major, or a major and no minor
					m1 := int64(1 + r.Intn(200))
					s.Linux.Resources.Devices = append(s.Linux.Resources.Devices,
						oci.LinuxDeviceCgroup{Allow: true, Type: "c", Access: "m"},
						oci.LinuxDeviceCgroup{Allow: true, Type: "b", Major: &m1, Access: "rwm"},
						oci.LinuxDeviceCgroup{Allow: true, Type: "c", Major: &m1, Access: "rw"})
				}
			}
		}
		if r.Chance(0.3) {
			s.Linux.IntelRdt = &oci.LinuxIntelRdt{ClosID: "old", L3CacheSchema: "L3:0=f", EnableCMT: true}
		}
	}
	return s
}

func randEdits(r *hx.R, hosts []hostNode, scratchDev string, many bool) *specs.ContainerEdits {
	e := &specs.ContainerEdits{}
	for i, n := 0, r.Intn(4); i < n; i++ {
		e.Env = append(e.Env, hx.Pick(r, envNames03)+"="+hx.Pick(r, []string{"2", "", "x=y", "new"}))
	}
	for i, n := 0, r.Intn(4); i < n; i++ {
		d := &specs.DeviceNode{}
		h := hx.Pick(r, hosts)
		switch r.Intn(6) {
		case 0: // container path = host path, nothing specified
			d.Path = h.Path
		case 1: // explicit host path
			d.Path = hx.Pick(r, []string{"/dev/a", "/dev/b", "/dev/gpu0", "/dev/null", "/dev/c"})
			d.HostPath = h.Path
		case 2: // fully specified, no host lookup
			d.Path = hx.Pick(r, []string{"/dev/a", "/dev/gpu0", "/dev/gpu1"})
			d.Type = hx.Pick(r, []string{"c", "b", "u"})
			d.Major, d.Minor = int64(1+r.Intn(200)), int64(r.Intn(200))
		case 3: // type given, numbers from the host (type may mismatch)
			d.Path = hx.Pick(r, []string{"/dev/a", "/dev/gpu0"})
			d.HostPath = h.Path
			d.Type = hx.Pick(r, []string{h.Type, h.Type, h.Type, "c", "b", "p", "u"})
		case 4: // fifo given explicitly: no lookup
			d.Path = "/dev/fifo"
			d.Type = "p"
		default: // missing host node / not a device node
			d.Path = "/dev/gpu0"
			d.HostPath = filepath.Join(scratchDev, hx.Pick(r, []string{"missing", "regular"}))
			if r.Chance(0.5) {
				d.Type = "c"
				d.Major = 5
			}
		}
		d.Permissions = hx.Pick(r, []string{"", "", "rw", "r", "rwm", "m"})
		if r.Chance(0.3) {
			d.UID = u32(uint32(r.Intn(3)) * 100)
		}
		if r.Chance(0.3) {
			d.GID = u32(uint32(r.Intn(3)) * 100)
		}
		if r.Chance(0.3) {
			fm := os.FileMode(hx.Pick(r, []uint32{0o660, 0o600, 8630}))
			d.FileMode = &fm
		}
		e.DeviceNodes = append(e.DeviceNodes, d)
	}
	nm := r.Intn(4)
	if many && r.Chance(0.7) {
		nm = 1 + r.Intn(8)
	}
	for i := 0; i < nm; i++ {
		d := hx.Pick(r, destPool03)
		if many && r.Chance(0.5) {
			d = fmt.Sprintf("%s/m%d", hx.Pick(r, []string{"", "/a", "/a/b", "/x/y/z"}), r.Intn(20))
		}
		e.Mounts = append(e.Mounts, &specs.Mount{HostPath: "/host" + fmt.Sprint(i), ContainerPath: d, Options: []string{"rw", "nosuid"}, Type: hx.Pick(r, []string{"", "bind"})})
	}
	for i, n := 0, r.Intn(4); i < n; i++ {
		h := &specs.Hook{HookName: hx.Pick(r, hookNames03), Path: "/bin/hook" + fmt.Sprint(i), Args: []string{"hook", fmt.Sprint(i)}}
		if r.Chance(0.3) {
			h.Env = []string{"HK=" + fmt.Sprint(i)}
		}
		if r.Chance(0.3) {
			to := r.Intn(100)
			h.Timeout = &to
		}
		e.Hooks = append(e.Hooks, h)
	}
	if r.Chance(0.25) {
		e.IntelRdt = &specs.IntelRdt{ClosID: "new", MemBwSchema: "MB:0=70", EnableMBM: r.Chance(0.5)}
	}
	for i, n := 0, r.Intn(4); i < n; i++ {
		e.AdditionalGIDs = append(e.AdditionalGIDs, hx.Pick(r, []uint32{0, 5, 10, 20, 30, 20}))
	}
	return e
}

// envDefectRepaired: /repo carries the repair of the former known finding C03/env-existing-name
const envDefectRepaired = true

func envClassKnown(init *oci.Spec, e *specs.ContainerEdits) bool {
	if envDefectRepaired {
		// repaired defect D19 (Apply drops the variables about to be set): no input class is set aside any more
		return false
	}
	if init.Process == nil {
		return false
	}
	names := map[string]bool{}
	for _, x := range e.Env {
		names[strings.SplitN(x, "=", 2)[0]] = true
	}
	for _, x := range init.Process.Env {
		if names[strings.SplitN(x, "=", 2)[0]] {
			return true
		}
	}
	return false
}

// c03Cases applies the edits through one of the three public entry points and emits the case(s).
func c03Cases(s *hx.Suite, hosts []hostNode, init *oci.Spec, e *specs.ContainerEdits, entry int, class string) {
	before := deepCopyOCI(init)
	work := deepCopyOCI(init)
	var err error
	p, _ := hx.Guard(func() {
		switch entry {
		case 0:
			err = (&cdi.ContainerEdits{ContainerEdits: e}).Apply(work)
		case 1:
			d := cdi.Device{Device: &specs.Device{Name: "d", ContainerEdits: *e}}
			err = d.ApplyEdits(work)
		default:
			sp := cdi.Spec{Spec: &specs.Spec{ContainerEdits: *e}}
			err = sp.ApplyEdits(work)
		}
	})
	outcome := 0
	if p {
		outcome = 2
	} else if err != nil {
		outcome = 1
	}
	mk := func(mode int, known string) hx.Case {
		return hx.Case{
			Term: hx.C("C03", hx.Nat(mode), hostTerm(hosts), editsTerm(e), ociTerm(before), ociTerm(work), hx.Nat(outcome)),
			Desc: map[string]interface{}{"entry": []string{"ContainerEdits.Apply", "Device.ApplyEdits", "Spec.ApplyEdits"}[entry], "edits": e, "initial": ociJSON(before),
				"result": ociJSON(work), "outcome": []string{"ok", "error", "PANIC"}[outcome], "host_nodes": hosts, "checked": []string{"all", "all but env", "env only"}[mode]},
			Nontrivial: len(e.DeviceNodes)+len(e.Mounts)+len(e.Hooks)+len(e.Env)+len(e.AdditionalGIDs) > 0,
			Class:      class,
			Known:      known,
		}
	}
	if envClassKnown(before, e) {
		s.Add(mk(1, ""))
		s.Add(mk(2, "C03/env-existing-name"))
	} else {
		s.Add(mk(0, ""))
	}
}

// c03Again applies the SAME edits value a second time, to a fresh copy of the initial spec, after the host nodes have been
// re-created with other attributes: the result must be the one of the edits as they were given (printed before the first
// application) under the new host nodes — nothing of the first application may stick to the edits.
func c03Again(s *hx.Suite, hosts1, hosts2 []hostNode, init *oci.Spec, e *specs.ContainerEdits, origTerm string, eJSON interface{}) {
	before := deepCopyOCI(init)
	work := deepCopyOCI(init)
	var err error
	p, _ := hx.Guard(func() { err = (&cdi.ContainerEdits{ContainerEdits: e}).Apply(work) })
	outcome := 0
	if p {
		outcome = 2
	} else if err != nil {
		outcome = 1
	}
	mode := 0
	if envClassKnown(before, e) {
		mode = 1
	}
	s.Add(hx.Case{
		Term: hx.C("C03", hx.Nat(mode), hostTerm(hosts2), origTerm, ociTerm(before), ociTerm(work), hx.Nat(outcome)),
		Desc: map[string]interface{}{"entry": "ContainerEdits.Apply, second application of the same edits after the host nodes were re-created", "edits": eJSON,
			"initial": ociJSON(before), "result": ociJSON(work), "outcome": []string{"ok", "error", "PANIC"}[outcome], "host_nodes_first": hosts1, "host_nodes": hosts2},
		Nontrivial: true, Class: "apply-twice"})
}

func genC03(r *hx.R, tier string, scratch string) (*hx.Suite, error) {
	s := &hx.Suite{
		Property: "C03",
		Imports:  []string{"Base", "SpecModel", "Oci", "Apply", "ApplySpec", "Judge03"},
		CaseType: "case03",
		Judge:    "judge03",
		Shard:    60,
		Rule: "random well-formed initial OCI specs (nil or populated Process/Linux/Hooks sections, existing env/devices/cgroup rules/mounts/hooks/gids/RDT, " +
			"uid/gid zero or not, random unmodelled fields checked unchanged through a JSON image) x random valid edit lists (repeated paths, destinations and " +
			"variable names, non-clean destinations, every node type, host nodes created with mknod at random major/minor, missing and non-device host nodes, " +
			"type mismatches, 9-25 mounts so that an unstable sort shows) through ContainerEdits.Apply / Device.ApplyEdits / Spec.ApplyEdits; " +
			"non-trivial: at least one edit; inputs whose initial env already has a variable named by the edits are split into an all-but-env case and an " +
			"env-only case tagged with the known finding.",
	}
	devDir := filepath.Join(scratch, "hostdev")
	hosts, mknodOK := makeHostNodes(r, devDir)
	s.Extra = map[string]interface{}{"x_mknod_available": mknodOK}
	// corpus: the witness of the known finding, uid/gid defaulting with only one of them set, unstable sort sizes
	{
		init := &oci.Spec{Process: &oci.Process{Env: []string{"FOO=1"}}}
		c03Cases(s, hosts, init, &specs.ContainerEdits{Env: []string{"FOO=2"}}, 0, "corpus")
		init2 := &oci.Spec{Process: &oci.Process{User: oci.User{UID: 1000, GID: 2000}}}
		c03Cases(s, hosts, init2, &specs.ContainerEdits{DeviceNodes: []*specs.DeviceNode{{Path: "/dev/x", Type: "c", Major: 1, Minor: 2, UID: u32(5)}, {Path: "/dev/y", Type: "c", Major: 1, Minor: 3, GID: u32(6)}}}, 0, "corpus")
		for _, n := range []int{4, 12, 13, 20, 40} {
			init3 := &oci.Spec{}
			for i := 0; i < n; i++ {
				init3.Mounts = append(init3.Mounts, oci.Mount{Destination: fmt.Sprintf("%s/m%d", []string{"", "/a", "/a/b"}[i%3], i), Source: "/s"})
			}
			c03Cases(s, hosts, init3, &specs.ContainerEdits{Mounts: []*specs.Mount{{HostPath: "/h", ContainerPath: "/a/new"}}}, 0, "corpus")
		}
	}
	n := 500
	if tier == "thorough" {
		n = 6000
	}
	for i := 0; i < n; i++ {
		many := r.Chance(0.15)
		init := randOCI(r, hosts, many)
		e := randEdits(r, hosts, devDir, many)
		origTerm := editsTerm(e)
		eJSON, _ := json.Marshal(e)
		c03Cases(s, hosts, init, e, r.Intn(3), "random")
		if i%5 == 0 && mknodOK {
			old := hosts
			hosts = remakeHostNodes(r, hosts)
			c03Again(s, old, hosts, init, e, origTerm, json.RawMessage(eJSON))
		}
	}
	return s, nil
}
