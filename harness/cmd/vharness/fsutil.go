package main

import (
	"crypto/sha256"
	"encoding/hex"
	"io/fs"
	"os"
	"path/filepath"
	"sort"
)

// snapshot of a directory tree: path -> "d" for directories, "f:<sha256>" for regular files, "l:<target>" for links, "o" otherwise
type snap map[string]string

func takeSnap(root string) snap {
	s := snap{}
	_ = filepath.WalkDir(root, func(p string, d fs.DirEntry, err error) error {
		if err != nil {
			return nil
		}
		switch {
		case d.IsDir():
			s[p] = "d"
		case d.Type()&fs.ModeSymlink != 0:
			t, _ := os.Readlink(p)
			s[p] = "l:" + t
		case d.Type().IsRegular():
			data, err := os.ReadFile(p)
			if err != nil {
				s[p] = "f:unreadable"
			} else {
				h := sha256.Sum256(data)
				s[p] = "f:" + hex.EncodeToString(h[:8])
			}
		default:
			s[p] = "o"
		}
		return nil
	})
	return s
}

type snapDiff struct {
	FilesChanged []string // non-directories created or modified
	FilesDeleted []string
	DirsCreated  []string
	DirsDeleted  []string
}

func diffSnap(a, b snap) snapDiff {
	var d snapDiff
	for p, v := range b {
		old, ok := a[p]
		if v == "d" {
			if !ok || old != "d" {
				d.DirsCreated = append(d.DirsCreated, p)
			}
			continue
		}
		if !ok || old != v {
			d.FilesChanged = append(d.FilesChanged, p)
		}
	}
	for p, v := range a {
		if _, ok := b[p]; !ok {
			if v == "d" {
				d.DirsDeleted = append(d.DirsDeleted, p)
			} else {
				d.FilesDeleted = append(d.FilesDeleted, p)
			}
		}
	}
	sort.Strings(d.FilesChanged)
	sort.Strings(d.FilesDeleted)
	sort.Strings(d.DirsCreated)
	sort.Strings(d.DirsDeleted)
	return d
}
