package main

// C20 — reconfiguring a cache equals creating a new one, with bounded resources.
//
// Every history runs in a fresh child process (`vharness c20child in.json out.json`): the package-level default cache is
// process-global, and descriptor exhaustion is produced with RLIMIT_NOFILE.  The parent generates the histories, creates
// the initial directory contents, runs up to four children at a time and turns (operations, observations) into case20 terms.

import (
	"encoding/json"
	"fmt"
	"os"
	"os/exec"
	"path/filepath"
	"runtime"
	"sort"
	"strconv"
	"strings"
	"sync"
	"syscall"
	"time"

	"github.com/fsnotify/fsnotify"
	oci "github.com/opencontainers/runtime-spec/specs-go"
	"golang.org/x/sys/unix"
	"tags.cncf.io/container-device-interface/pkg/cdi"
	specs "tags.cncf.io/container-device-interface/specs-go"
	"verif/harness/hx"
)

func init() {
	registry["C20"] = genC20
	children["c20child"] = c20Child
}

type c20Opt struct {
	Dirs    []string `json:"dirs,omitempty"`
	HasDirs bool     `json:"has_dirs,omitempty"`
	Auto    bool     `json:"auto,omitempty"`
}

type c20Step struct {
	Op       string     `json:"op"` // new configure dconfigure dget query refresh write remove mkdir rmdir writespec removespec others
	Opts     []c20Opt   `json:"opts,omitempty"`
	Dir      string     `json:"dir,omitempty"`
	Name     string     `json:"name,omitempty"`
	Devs     []string   `json:"devs,omitempty"` // unqualified device names of a loadable Spec
	Bad      bool       `json:"bad,omitempty"`  // content that does not load
	Shortage bool       `json:"shortage,omitempty"`
	Observe  bool       `json:"observe,omitempty"`
	Probe    string     `json:"probe,omitempty"`  // final | former
	Others   [][]string `json:"others,omitempty"` // op others: directory lists of further caches kept alive during the step
}

type c20In struct {
	Defs     []string  `json:"defs"`
	CalibDir string    `json:"calib_dir"`
	EventLog string    `json:"event_log"`
	Steps    []c20Step `json:"steps"`
}

type c20Obs struct {
	Step     int             `json:"step"`
	Dirs     []string        `json:"dirs"`
	Devs     []string        `json:"devs"`
	Errs     []string        `json:"errs"`
	DirErrs  []string        `json:"dir_errs"`
	Tracked  map[string]bool `json:"tracked"`
	Has      bool            `json:"has"`
	Ino      int             `json:"ino"`
	Watches  int             `json:"watches"`
	Fd       int             `json:"fd"`
	Gor      int             `json:"gor"`
	Stale    bool            `json:"stale"`
	FDirs    []string        `json:"f_dirs"`
	FDevs    []string        `json:"f_devs"`
	FErrs    []string        `json:"f_errs"`
	FDirErrs []string        `json:"f_dir_errs"`
	Settled  bool            `json:"settled"`
}

type c20Out struct {
	UnitFd  int      `json:"unit_fd"`
	UnitGor int      `json:"unit_gor"`
	Obs     []c20Obs `json:"obs"`
	Err     string   `json:"err,omitempty"`
}

const c20Kind = "v.com/c"

// ---------------------------------------------------------------------------------------------
// child

type c20Res struct{ fd, ino, watches, gor int }

// c20Measure counts descriptors, inotify instances and watches of this process, and goroutines.
func c20Measure() (c20Res, int) {
	var r c20Res
	lowestFree := 0
	ents, err := os.ReadDir("/proc/self/fd")
	if err != nil {
		return c20Res{fd: -1}, -1
	}
	used := map[int]bool{}
	for _, e := range ents {
		n, _ := strconv.Atoi(e.Name())
		t, err := os.Readlink("/proc/self/fd/" + e.Name())
		if err != nil {
			continue // the descriptor ReadDir itself used
		}
		used[n] = true
		r.fd++
		if strings.Contains(t, "inotify") {
			r.ino++
			if d, err := os.ReadFile("/proc/self/fdinfo/" + e.Name()); err == nil {
				r.watches += strings.Count(string(d), "inotify wd:")
			}
		}
	}
	for used[lowestFree] {
		lowestFree++
	}
	r.gor = runtime.NumGoroutine()
	return r, lowestFree
}

func c20Until(deadline time.Duration, cond func() bool) bool {
	end := time.Now().Add(deadline)
	for {
		if cond() {
			return true
		}
		if time.Now().After(end) {
			return false
		}
		time.Sleep(2 * time.Millisecond)
	}
}

func c20Keys[T any](m map[string]T) []string {
	ks := make([]string, 0, len(m))
	for k := range m {
		ks = append(ks, k)
	}
	sort.Strings(ks)
	return ks
}

func c20Eq(a, b []string) bool {
	if len(a) != len(b) {
		return false
	}
	for i := range a {
		if a[i] != b[i] {
			return false
		}
	}
	return true
}

// c20Answers: the devices (ListDevices; each as name@defining file, from GetDevice(name).GetSpec().GetPath()), keys of per-file
// errors, keys of directory errors.
func c20Answers(c *cdi.Cache) (devs, errs, derrs []string) {
	devs = []string{}
	for _, n := range c.ListDevices() {
		p := "?"
		if d := c.GetDevice(n); d != nil {
			p = d.GetSpec().GetPath()
		}
		devs = append(devs, n+"@"+p)
	}
	sort.Strings(devs)
	de := c.GetSpecDirErrors()
	derrs = c20Keys(de)
	errs = []string{}
	for _, k := range c20Keys(c.GetErrors()) {
		if _, isDir := de[k]; !isDir {
			errs = append(errs, k)
		}
	}
	return
}

// c20FirstQuery: one of the query functions, chosen by k, with its answer as a string.
func c20FirstQuery(c *cdi.Cache, k int, pool []string) (string, string) {
	vendor := strings.SplitN(c20Kind, "/", 2)[0]
	switch k % 6 {
	case 0:
		var paths []string
		for _, s := range c.GetVendorSpecs(vendor) {
			j, _ := json.Marshal(s.Devices)
			paths = append(paths, s.GetPath()+" "+string(j))
		}
		sort.Strings(paths)
		return "GetVendorSpecs", fmt.Sprint(paths)
	case 1:
		return "ListVendors", fmt.Sprint(c.ListVendors())
	case 2:
		return "ListClasses", fmt.Sprint(c.ListClasses())
	case 3:
		var out []string
		for _, d := range pool {
			if dev := c.GetDevice(d); dev != nil {
				out = append(out, d+"@"+dev.GetSpec().GetPath())
			}
		}
		return "GetDevice", fmt.Sprint(out)
	case 4:
		var out []string
		for _, d := range pool {
			if un, _ := c.InjectDevices(&oci.Spec{}, d); len(un) == 0 {
				out = append(out, d)
			}
		}
		return "InjectDevices", fmt.Sprint(out)
	default:
		l := c.ListDevices()
		sort.Strings(l)
		return "ListDevices", fmt.Sprint(l)
	}
}

// c20Wrappers / c20ViaHandle: what the package-level functions say, and the same through the handle of the default cache.
func c20Wrappers(pool []string) string {
	var out []string
	for _, d := range pool {
		if un, _ := cdi.InjectDevices(&oci.Spec{}, d); len(un) == 0 {
			out = append(out, d)
		}
	}
	return fmt.Sprint(out, c20Keys(cdi.GetErrors()))
}

func c20ViaHandle(c *cdi.Cache, pool []string) string {
	var out []string
	for _, d := range pool {
		if un, _ := c.InjectDevices(&oci.Spec{}, d); len(un) == 0 {
			out = append(out, d)
		}
	}
	return fmt.Sprint(out, c20Keys(c.GetErrors()))
}

// c20Straggler — DEFECT-PENDING(straggler-direrrors).  A reconfiguration while the watch goroutine of the replaced watcher still
// holds an event: this goroutine takes the cache lock; Configure(st.Opts) is called by another goroutine and waits for it; a
// link to a FIFO named h.json appears in the watched directory st.Dir, the watch goroutine accepts the event and queues behind
// Configure; the lock is released; Configure sets up the new watch (st.Name, a directory of the new list, is missing) and its
// rescan stops at the FIFO; st.Name is created with a Spec in it; the link is removed and the rescan released; Configure returns;
// the goroutine of the old watcher handles its event.
func c20Straggler(cache *cdi.Cache, st c20Step, eventLog, outside string) {
	size := func() int64 {
		if fi, err := os.Stat(eventLog); err == nil {
			return fi.Size()
		}
		return 0
	}
	fifo := filepath.Join(outside, "hold")
	_ = os.Remove(fifo)
	if unix.Mkfifo(fifo, 0o644) != nil {
		return
	}
	defer os.Remove(fifo)
	link := filepath.Join(st.Dir, "h.json")
	cache.Lock()
	done := make(chan bool, 1)
	go func() {
		_ = cache.Configure(c20Options(st.Opts)...)
		done <- true
	}()
	time.Sleep(20 * time.Millisecond)
	size0 := size()
	_ = os.Symlink(fifo, link)
	c20Until(time.Second, func() bool { return size() > size0 })
	time.Sleep(10 * time.Millisecond)
	cache.Unlock()
	wfd := -1
	c20Until(2*time.Second, func() bool {
		fd, err := unix.Open(fifo, unix.O_WRONLY|unix.O_NONBLOCK, 0)
		if err == nil {
			wfd = fd
		}
		return err == nil
	})
	_ = os.Mkdir(st.Name, 0o755)
	_ = os.WriteFile(filepath.Join(st.Name, "x.json"), c20SpecBytes("x.json", []string{"x0"}, false), 0o644)
	_ = os.Remove(link)
	if wfd >= 0 {
		_ = unix.Close(wfd)
	}
	select {
	case <-done:
	case <-time.After(5 * time.Second):
	}
	time.Sleep(50 * time.Millisecond)
}

func hasWatcher(c *cdi.Cache) bool { _, has := cdi.VerifTracked(c); return has }

// c20Spec: the Spec Cache.WriteSpec is given (the same devices c20SpecBytes writes).
func c20Spec(devs []string) *specs.Spec {
	sp := &specs.Spec{Version: "0.5.0", Kind: c20Kind}
	for _, d := range devs {
		sp.Devices = append(sp.Devices, specs.Device{Name: d, ContainerEdits: specs.ContainerEdits{Env: []string{"DEV=" + d}}})
	}
	return sp
}

func c20Options(opts []c20Opt) []cdi.Option {
	var os_ []cdi.Option
	for _, o := range opts {
		if o.HasDirs {
			os_ = append(os_, cdi.WithSpecDirs(o.Dirs...))
		} else {
			os_ = append(os_, cdi.WithAutoRefresh(o.Auto))
		}
	}
	return os_
}

func c20SpecBytes(name string, devs []string, bad bool) []byte {
	if bad {
		return []byte("{ this does not load")
	}
	type dev struct {
		Name  string              `json:"name"`
		Edits map[string][]string `json:"containerEdits"`
	}
	doc := map[string]interface{}{"cdiVersion": "0.5.0", "kind": c20Kind}
	var ds []dev
	for _, d := range devs {
		ds = append(ds, dev{Name: d, Edits: map[string][]string{"env": {"DEV=" + d}}})
	}
	doc["devices"] = ds
	data, _ := json.Marshal(doc) // JSON is YAML: good for both extensions
	return data
}

func c20Child(args []string) int {
	if len(args) != 2 {
		fmt.Fprintln(os.Stderr, "usage: vharness c20child in.json out.json")
		return 2
	}
	var in c20In
	data, err := os.ReadFile(args[0])
	if err != nil || json.Unmarshal(data, &in) != nil {
		fmt.Fprintln(os.Stderr, "c20child: bad input", err)
		return 2
	}
	out := c20Out{}
	fail := func(msg string) int {
		out.Err = msg
		d, _ := json.Marshal(out)
		_ = os.WriteFile(args[1], d, 0o644)
		return 0
	}
	cdi.DefaultSpecDirs = in.Defs

	// make the runtime create whatever descriptors it keeps for itself before the baseline is taken
	if pr, pw, err := os.Pipe(); err == nil {
		pr.Close()
		pw.Close()
	}
	// calibration, independent of the code under test: what one fsnotify watcher costs in this process. An auto-refresh
	// cache holds one watcher plus its own watch goroutine (the goroutine the configure machine counts).
	var base, during c20Res
	var limit int
	settle := func(r *c20Res, want func(c20Res) bool) bool {
		prev := c20Res{fd: -2}
		stable := 0
		return c20Until(3*time.Second, func() bool {
			*r, limit = c20Measure()
			if *r == prev {
				stable++
			} else {
				stable = 0
			}
			prev = *r
			return want(*r) && stable >= 5
		})
	}
	if !settle(&base, func(r c20Res) bool { return r.ino == 0 }) {
		return fail("calibration: baseline does not settle")
	}
	fw, err := fsnotify.NewWatcher()
	if err != nil {
		return fail("calibration: " + err.Error())
	}
	if err := fw.Add(in.CalibDir); err != nil {
		return fail("calibration: " + err.Error())
	}
	if !settle(&during, func(r c20Res) bool { return r.ino == 1 && r.watches == 1 }) {
		return fail("calibration: no inotify instance with one watch")
	}
	_ = fw.Close()
	var after c20Res
	if !settle(&after, func(r c20Res) bool { return r == base }) {
		return fail("calibration: a closed fsnotify watcher does not release its resources")
	}
	out.UnitFd, out.UnitGor = during.fd-base.fd, during.gor-base.gor+1
	if out.UnitFd <= 0 || out.UnitGor <= 1 {
		return fail(fmt.Sprintf("calibration: implausible units fd=%d goroutines=%d", out.UnitFd, out.UnitGor))
	}

	var lim0 syscall.Rlimit
	if err := syscall.Getrlimit(syscall.RLIMIT_NOFILE, &lim0); err != nil {
		return fail("getrlimit: " + err.Error())
	}
	shortage := func(on bool) {
		l := lim0
		if on {
			l.Cur = uint64(limit) // the lowest descriptor number that is free when no watcher is open: every new descriptor fails
		}
		if err := syscall.Setrlimit(syscall.RLIMIT_NOFILE, &l); err != nil {
			fmt.Fprintln(os.Stderr, "c20child: setrlimit:", err)
		}
	}

	var (
		cache   *cdi.Cache   // the cache of the history (explicit, or the default cache once it exists)
		allOpts []cdi.Option // every option given so far
		auto    = true
	)
	noteOpts := func(opts []c20Opt) {
		for _, o := range opts {
			if !o.HasDirs {
				auto = o.Auto
			}
		}
		allOpts = append(allOpts, c20Options(opts)...)
	}
	exists := func(d string) bool { st, err := os.Stat(d); return err == nil && st.IsDir() }

	// once something has failed to settle within its deadline (which is reported), later waits are cut short: a leaking or
	// stuck implementation must not turn one finding into minutes of polling
	impatient := false
	patience := func(d time.Duration) time.Duration {
		if impatient {
			return 50 * time.Millisecond
		}
		return d
	}
	seenSet, seenDevs := map[string]bool{}, []string{} // every device name a fresh cache has listed so far
	isDefault := false                                 // the cache of the history is the package-level default cache
	wrapperNote, othersNote := "", ""
	observe := func(i int, st c20Step) c20Obs {
		ob := c20Obs{Step: i}
		// what a manual-mode fresh cache answers right now: the target the cache under test has to reach by itself
		tc, _ := cdi.NewCache(append(append([]cdi.Option{}, allOpts...), cdi.WithAutoRefresh(false))...)
		tdevs, terrs, _ := c20Answers(tc)
		for _, d := range tdevs {
			d = strings.SplitN(d, "@", 2)[0]
			if !seenSet[d] {
				seenSet[d] = true
				seenDevs = append(seenDevs, d)
			}
		}
		// The answers come from separate calls (each takes the cache's lock once), so the watch goroutine may slip in
		// between them: a reading counts only if the same values are read twice in a row, in the order A B C D / D C B A.
		staleFirst := ""
		snap := func(reverse bool) string {
			var devs, errs, derrs []string
			var tr map[string]bool
			var has bool
			// "every query": with automatic refresh on and no watcher (descriptor shortage when the cache was set up) nothing
			// but the queries themselves keeps the cache current.  The first query after the step is a different one each time;
			// asked again after ListDevices has answered it must say the same (no watcher exists that could slip in between).
			if _, has0 := cdi.VerifTracked(cache); auto && !has0 {
				qn, a1 := c20FirstQuery(cache, i, seenDevs)
				_ = cache.ListDevices()
				if _, a2 := c20FirstQuery(cache, i, seenDevs); a1 != a2 && staleFirst == "" {
					staleFirst = "STALE ANSWER of " + qn + " as the first query after the step: " + a1 + " | asked again after ListDevices: " + a2
				}
			}
			if reverse {
				tr, has = cdi.VerifTracked(cache)
				devs, errs, derrs = c20Answers(cache)
			} else {
				devs, errs, derrs = c20Answers(cache)
				tr, has = cdi.VerifTracked(cache)
			}
			ob.Devs, ob.Errs, ob.DirErrs, ob.Tracked, ob.Has = devs, errs, derrs, tr, has
			d, _ := json.Marshal([]interface{}{devs, errs, derrs, tr, has})
			return string(d)
		}
		read := func() bool {
			if a, b := snap(false), snap(true); a != b {
				return false
			}
			if !auto {
				return true
			}
			if !c20Eq(ob.Devs, tdevs) || !c20Eq(ob.Errs, terrs) {
				return false
			}
			if ob.Has {
				n := 0
				for d, b := range ob.Tracked {
					if b != exists(d) {
						return false
					}
					if b {
						n++
					}
				}
				// a directory removed and re-created is "tracked" and "exists" while its kernel watch is gone and the removal
				// event is still on its way: settled only when every tracked directory really has its watch
				if m, _ := c20Measure(); m.ino == 1 && m.watches != n {
					return false
				}
			}
			return true
		}
		if st.Probe != "" && (!auto || st.Probe == "former") {
			time.Sleep(150 * time.Millisecond) // room for a watcher that should not be there to react
		}
		ob.Settled = c20Until(patience(5*time.Second), read)
		if !ob.Settled {
			impatient = true
		}
		if staleFirst != "" {
			ob.Devs = append(ob.Devs, staleFirst)
		}
		if isDefault {
			// the package-level functions are the same cache: cdi.GetErrors and cdi.InjectDevices must agree with the handle
			// (asked again a few times: the watch goroutine may slip in between the two)
			for try := 0; try < 5; try++ {
				w, h := c20Wrappers(seenDevs), c20ViaHandle(cache, seenDevs)
				if w == h {
					wrapperNote = ""
					break
				}
				wrapperNote = "PACKAGE-LEVEL FUNCTIONS DISAGREE WITH THE DEFAULT CACHE: " + w + " | through the handle: " + h
				time.Sleep(5 * time.Millisecond)
			}
			if wrapperNote != "" {
				ob.Devs = append(ob.Devs, wrapperNote)
			}
		}
		if othersNote != "" {
			ob.Devs = append(ob.Devs, othersNote)
			othersNote = ""
		}
		ob.Dirs = cache.GetSpecDirectories()
		// resources, after the asynchronous teardown of closed watchers
		units := 0
		if auto && ob.Has {
			units = 1
		}
		var m c20Res
		if !c20Until(patience(5*time.Second), func() bool {
			m, _ = c20Measure()
			return m.ino == units && m.fd-base.fd == units*out.UnitFd && m.gor-base.gor == units*out.UnitGor
		}) {
			impatient = true
		}
		ob.Ino, ob.Watches, ob.Fd, ob.Gor = m.ino, m.watches, m.fd-base.fd, m.gor-base.gor
		if st.Probe == "former" {
			if log, err := os.ReadFile(in.EventLog); err == nil {
				ob.Stale = strings.Contains(string(log), filepath.Join(st.Dir, st.Name))
			}
		}
		// the fresh cache of the property: created with every option given so far
		fc, _ := cdi.NewCache(allOpts...)
		ob.FDirs = fc.GetSpecDirectories()
		ob.FDevs, ob.FErrs, ob.FDirErrs = c20Answers(fc)
		_ = fc.Configure(cdi.WithAutoRefresh(false))
		if !c20Until(patience(5*time.Second), func() bool { m2, _ := c20Measure(); return m2 == m }) {
			impatient = true
		}
		return ob
	}

	for i, st := range in.Steps {
		var panicked bool
		var pmsg string
		if st.Shortage {
			shortage(true)
		}
		switch st.Op {
		case "new":
			panicked, pmsg = hx.Guard(func() {
				if cache == nil {
					cache, _ = cdi.NewCache(c20Options(st.Opts)...)
				}
			})
			noteOpts(st.Opts)
		case "configure":
			if cache != nil {
				panicked, pmsg = hx.Guard(func() { _ = cache.Configure(c20Options(st.Opts)...) })
				noteOpts(st.Opts)
			}
		case "dconfigure":
			panicked, pmsg = hx.Guard(func() { _ = cdi.Configure(c20Options(st.Opts)...) })
			noteOpts(st.Opts)
			cache = cdi.GetDefaultCache()
			isDefault = true
		case "dget":
			panicked, pmsg = hx.Guard(func() { cache = cdi.GetDefaultCache() })
			isDefault = true
		case "query":
			if cache != nil {
				panicked, pmsg = hx.Guard(func() { _ = cache.ListDevices() })
			}
		case "refresh":
			if cache != nil {
				panicked, pmsg = hx.Guard(func() {
					if isDefault && i%2 == 0 {
						_ = cdi.Refresh() // the package-level function
					} else {
						_ = cache.Refresh()
					}
				})
			}
		case "straggler":
			if cache != nil {
				panicked, pmsg = hx.Guard(func() { c20Straggler(cache, st, in.EventLog, in.CalibDir) })
				noteOpts(st.Opts)
			}
		case "writespec":
			// Cache.WriteSpec as the source of the change: writes into the last configured directory (st.Dir says which one that is)
			if cache != nil && exists(st.Dir) {
				panicked, pmsg = hx.Guard(func() { _ = cache.WriteSpec(c20Spec(st.Devs), st.Name) })
			}
		case "removespec":
			if cache != nil {
				panicked, pmsg = hx.Guard(func() { _ = cache.RemoveSpec(st.Name) })
			}
		case "others":
			// Other caches come and go next to the one under test: they share nothing with it.  While they are alive the process
			// holds one watcher's worth of resources for each of them that has a watcher, the cache under test answers as
			// before; afterwards everything they held is released (the observation that follows counts).
			if cache != nil {
				panicked, pmsg = hx.Guard(func() {
					before, _, _ := c20Answers(cache)
					var m0 c20Res
					prev, stable := c20Res{fd: -2}, 0
					c20Until(patience(3*time.Second), func() bool { // a settled baseline
						m0, _ = c20Measure()
						if m0 == prev {
							stable++
						} else {
							stable = 0
						}
						prev = m0
						return stable >= 5
					})
					var others []*cdi.Cache
					withWatcher := 0
					for k, ds := range st.Others {
						oc, _ := cdi.NewCache(cdi.WithSpecDirs(ds...), cdi.WithAutoRefresh(k%3 != 2))
						_ = oc.ListDevices()
						if _, has := cdi.VerifTracked(oc); has && k%3 != 2 {
							withWatcher++
						}
						others = append(others, oc)
					}
					var m c20Res
					okRes := c20Until(patience(3*time.Second), func() bool {
						m, _ = c20Measure()
						return m.ino-m0.ino == withWatcher && m.fd-m0.fd == withWatcher*out.UnitFd && m.gor-m0.gor == withWatcher*out.UnitGor
					})
					if !okRes {
						othersNote = fmt.Sprintf("%d FURTHER CACHES (%d with a watcher) ALIVE: inotify +%d, descriptors +%d, goroutines +%d; one watcher is %d descriptors, %d goroutines",
							len(others), withWatcher, m.ino-m0.ino, m.fd-m0.fd, m.gor-m0.gor, out.UnitFd, out.UnitGor)
					}
					for k, oc := range others {
						if k%2 == 0 {
							_ = oc.Configure(cdi.WithSpecDirs()) // on another list first
						}
						_ = oc.Configure(cdi.WithAutoRefresh(false))
					}
					if after, _, _ := c20Answers(cache); !c20Eq(before, after) && othersNote == "" && !hasWatcher(cache) {
						othersNote = fmt.Sprintf("THE CACHE ANSWERS DIFFERENTLY AFTER OTHER CACHES CAME AND WENT: %v | before: %v", after, before)
					}
				})
			}
		case "write":
			if exists(st.Dir) {
				_ = os.WriteFile(filepath.Join(st.Dir, st.Name), c20SpecBytes(st.Name, st.Devs, st.Bad), 0o644)
			}
		case "remove":
			_ = os.Remove(filepath.Join(st.Dir, st.Name))
		case "mkdir":
			_ = os.Mkdir(st.Dir, 0o755)
		case "rmdir":
			_ = os.RemoveAll(st.Dir)
		}
		if st.Shortage {
			// A watch goroutine of the replaced watcher may still hold an event; it finishes it (update + rescan) before it
			// sees its channel closed. Let that happen inside the shortage, as the configure machine has it (the rescan finds
			// nothing), not after descriptors are back: no watcher can exist now, so wait for the goroutines to be gone.
			if !c20Until(patience(5*time.Second), func() bool { return runtime.NumGoroutine() <= base.gor }) {
				impatient = true
			}
			shortage(false)
		}
		if panicked {
			return fail(fmt.Sprintf("step %d (%s) panicked: %s", i, st.Op, pmsg))
		}
		if st.Observe && cache != nil {
			out.Obs = append(out.Obs, observe(i, st))
		}
	}
	d, _ := json.Marshal(out)
	if err := os.WriteFile(args[1], d, 0o644); err != nil {
		fmt.Fprintln(os.Stderr, "c20child:", err)
		return 2
	}
	return 0
}

// ---------------------------------------------------------------------------------------------
// parent

type c20Hist struct {
	kind  string // single | default
	root  string
	in    c20In
	fs0   map[string]map[string]c20File // existing directories at start
	nconf int                           // reconfigurations in the history
	short int                           // of which during a shortage
	out   c20Out
	err   error
	known string // id of the known-finding class the history lies in, if any
}

type c20File struct {
	devs []string
	bad  bool
}

func c20Qualified(devs []string) []string {
	q := make([]string, len(devs))
	for i, d := range devs {
		q[i] = c20Kind + "=" + d
	}
	return q
}

func c20FileTerm(f c20File) string {
	if f.bad {
		return "Bad"
	}
	return hx.C("Good", hx.LS(c20Qualified(f.devs)))
}

func c20OptsTerm(opts []c20Opt) string {
	var items []string
	for _, o := range opts {
		if o.HasDirs {
			items = append(items, hx.C("WithSpecDirs", hx.LS(o.Dirs)))
		} else {
			items = append(items, hx.C("WithAutoRefresh", hx.B(o.Auto)))
		}
	}
	return hx.L(items)
}

func c20OpTerm(st c20Step) string {
	switch st.Op {
	case "new":
		return hx.C("New", c20OptsTerm(st.Opts))
	case "configure":
		return hx.C("Configure", c20OptsTerm(st.Opts))
	case "dconfigure":
		return hx.C("DefaultConfigure", c20OptsTerm(st.Opts))
	case "dget":
		return "DefaultGet"
	case "query":
		return "Query"
	case "refresh":
		return "Refresh"
	case "write", "writespec":
		return hx.C("FsOp", hx.C("WriteFile", hx.S(st.Dir), hx.S(st.Name), c20FileTerm(c20File{st.Devs, st.Bad})))
	case "remove", "removespec":
		return hx.C("FsOp", hx.C("RemoveFile", hx.S(st.Dir), hx.S(st.Name)))
	case "others":
		return hx.C("Configure", "[]") // other caches: nothing happens to this one
	case "mkdir":
		return hx.C("FsOp", hx.C("MkDir", hx.S(st.Dir)))
	case "rmdir":
		return hx.C("FsOp", hx.C("RmDir", hx.S(st.Dir)))
	}
	return "Query"
}

func c20ObsTerm(o c20Obs) string {
	var tr []string
	for _, k := range c20Keys(o.Tracked) {
		tr = append(tr, hx.P(hx.S(k), hx.B(o.Tracked[k])))
	}
	return hx.C("mkObs", hx.LS(o.Dirs), hx.LS(o.Devs), hx.LS(o.Errs), hx.LS(o.DirErrs), hx.L(tr), hx.B(o.Has),
		hx.Nat(o.Ino), hx.Nat(o.Watches), hx.Z(int64(o.Fd)), hx.Z(int64(o.Gor)), hx.B(o.Stale),
		hx.LS(o.FDirs), hx.LS(o.FDevs), hx.LS(o.FErrs), hx.LS(o.FDirErrs))
}

func c20DescStep(root string, st c20Step) string {
	rel := func(p string) string { return strings.TrimPrefix(p, root+"/") }
	var b strings.Builder
	b.WriteString(st.Op)
	if len(st.Opts) > 0 || st.Op == "new" || st.Op == "configure" || st.Op == "dconfigure" {
		b.WriteString("(")
		for i, o := range st.Opts {
			if i > 0 {
				b.WriteString(", ")
			}
			if o.HasDirs {
				rs := make([]string, len(o.Dirs))
				for j, d := range o.Dirs {
					rs[j] = rel(d)
				}
				b.WriteString("dirs=[" + strings.Join(rs, " ") + "]")
			} else {
				b.WriteString(fmt.Sprintf("auto=%v", o.Auto))
			}
		}
		b.WriteString(")")
	}
	if st.Op == "straggler" {
		b.WriteString(" while the watch goroutine holds an event of " + rel(st.Dir) + " and waits for the cache lock; " + rel(st.Name) + " appears during the rescan of Configure")
	} else if st.Dir != "" {
		b.WriteString(" " + rel(st.Dir))
		if st.Name != "" {
			b.WriteString("/" + st.Name)
		}
		if st.Op == "write" || st.Op == "writespec" {
			if st.Bad {
				b.WriteString(" <unloadable>")
			} else {
				b.WriteString(" " + strings.Join(st.Devs, ","))
			}
		}
	}
	if st.Op == "others" {
		b.WriteString(fmt.Sprintf(" (%d further caches created, queried, reconfigured and switched off)", len(st.Others)))
	}
	if st.Shortage {
		b.WriteString(" [no descriptors]")
	}
	if st.Probe != "" {
		b.WriteString(" [probe:" + st.Probe + "]")
	}
	return b.String()
}

// c20Gen generates one history under root.
func c20Gen(r *hx.R, kind, root string, maxConf int) *c20Hist {
	h := &c20Hist{kind: kind, root: root, fs0: map[string]map[string]c20File{}}
	pool := []string{}
	for i := 0; i < 4; i++ {
		pool = append(pool, filepath.Join(root, fmt.Sprintf("d%d", i)))
	}
	defs := []string{filepath.Join(root, "def0"), filepath.Join(root, "def1")}
	all := append(append([]string{}, pool...), defs...)
	h.in.Defs = defs
	h.in.CalibDir = filepath.Join(root, "calib")
	h.in.EventLog = filepath.Join(root, "events.log")
	specNames := []string{"a.json", "b.yaml", "c.json"}
	otherNames := []string{"notes.txt", "d.json.bak"}
	genFile := func(name string) c20File {
		stem := strings.SplitN(name, ".", 2)[0]
		if r.Chance(0.2) {
			return c20File{bad: true}
		}
		switch r.Intn(3) {
		case 0:
			return c20File{devs: []string{stem + "0"}}
		case 1:
			return c20File{devs: []string{stem + "1"}}
		}
		return c20File{devs: []string{stem + "0", stem + "1"}}
	}
	exists := map[string]bool{}
	for _, d := range all {
		if r.Chance(0.75) {
			exists[d] = true
			h.fs0[d] = map[string]c20File{}
			for _, n := range specNames {
				if r.Chance(0.4) {
					h.fs0[d][n] = genFile(n)
				}
			}
			if r.Chance(0.3) {
				h.fs0[d][otherNames[0]] = c20File{bad: true}
			}
		}
	}
	spell := func(d string) string {
		switch r.Intn(6) {
		case 0:
			return d + "/"
		case 1:
			return d + "/."
		case 2:
			return filepath.Dir(d) + "//" + filepath.Base(d)
		}
		return d
	}
	curDirs := append([]string{}, defs...)
	curAuto := true
	genOpts := func(allowEmpty bool) []c20Opt {
		var opts []c20Opt
		n := 1 + r.Intn(2)
		if r.Chance(0.1) {
			n = 3
		}
		if allowEmpty && r.Chance(0.06) {
			n = 0
		}
		for i := 0; i < n; i++ {
			if r.Chance(0.55) {
				k := r.Intn(4)
				if r.Chance(0.1) {
					k = 0
				}
				var ds, clean []string
				if len(curDirs) >= 2 && r.Chance(0.2) {
					// the same directories in another order (precedence changes, nothing else), at times with one dropped or doubled
					perm := r.Perm(len(curDirs))
					if r.Chance(0.5) {
						for a := range perm { // plain reversal
							perm[a] = len(curDirs) - 1 - a
						}
					}
					for _, j := range perm {
						ds = append(ds, spell(curDirs[j]))
						clean = append(clean, curDirs[j])
					}
					switch r.Intn(6) {
					case 0:
						ds, clean = ds[1:], clean[1:]
					case 1:
						ds, clean = append(ds, spell(clean[0])), append(clean, clean[0])
					}
					k = 0
				}
				for j := 0; j < k; j++ {
					d := hx.Pick(r, pool)
					if r.Chance(0.1) {
						d = hx.Pick(r, defs)
					}
					ds = append(ds, spell(d))
					clean = append(clean, d)
				}
				if ds == nil {
					ds = []string{}
				}
				opts = append(opts, c20Opt{HasDirs: true, Dirs: ds})
				curDirs = clean
			} else {
				// switching is more interesting than repeating
				b := !curAuto
				if r.Chance(0.3) {
					b = curAuto
				}
				opts = append(opts, c20Opt{Auto: b})
				curAuto = b
			}
		}
		return opts
	}
	shortP := 0.0
	if r.Chance(0.6) {
		shortP = 0.1 + 0.3*r.Float64()
	}
	created := false
	addConf := func(st c20Step) {
		st.Observe = true
		// descriptors are short only while a cache is really created or reconfigured (the shortage discipline): an operation
		// that leaves the cache alone (GetDefaultCache on an existing cache, empty option lists) would just keep the window open
		reconfigures := !created || (st.Op != "dget" && st.Op != "new" && len(st.Opts) > 0)
		if reconfigures && r.Chance(shortP) {
			st.Shortage = true
			h.short++
		}
		h.in.Steps = append(h.in.Steps, st)
		h.nconf++
	}
	genFs := func() {
		// a change in a current or a former directory
		var d string
		if len(curDirs) > 0 && r.Chance(0.6) {
			d = hx.Pick(r, curDirs)
		} else {
			d = hx.Pick(r, all)
		}
		st := c20Step{Dir: d, Observe: created && r.Chance(0.5)}
		if created && len(curDirs) > 0 && exists[curDirs[len(curDirs)-1]] && r.Chance(0.12) {
			// through the cache: WriteSpec / RemoveSpec act on the last configured directory
			st.Dir = curDirs[len(curDirs)-1]
			st.Name = hx.Pick(r, specNames)
			if r.Chance(0.65) {
				st.Op = "writespec"
				st.Devs = genFile(st.Name).devs
				if st.Devs == nil {
					st.Devs = []string{strings.SplitN(st.Name, ".", 2)[0] + "0"}
				}
			} else {
				st.Op = "removespec"
			}
			h.in.Steps = append(h.in.Steps, st)
			return
		}
		switch x := r.Intn(20); {
		case x < 9:
			st.Op, st.Name = "write", hx.Pick(r, specNames)
			f := genFile(st.Name)
			st.Devs, st.Bad = f.devs, f.bad
		case x < 11:
			st.Op, st.Name, st.Bad = "write", hx.Pick(r, otherNames), true
		case x < 15:
			st.Op, st.Name = "remove", hx.Pick(r, append(append([]string{}, specNames...), otherNames...))
		case x < 18:
			st.Op = "mkdir"
			exists[d] = true
		default:
			st.Op = "rmdir"
			exists[d] = false
		}
		h.in.Steps = append(h.in.Steps, st)
	}
	nconf := 1 + r.Intn(maxConf)
	fsP := 0.5 * r.Float64()
	if kind == "single" {
		addConf(c20Step{Op: "new", Opts: genOpts(true)})
		created = true
	} else {
		// default cache: sometimes used before it is configured, and directory changes may precede its creation
		for r.Chance(0.3) {
			genFs()
		}
		if r.Chance(0.5) {
			addConf(c20Step{Op: "dget"})
		} else {
			addConf(c20Step{Op: "dconfigure", Opts: genOpts(true)})
		}
		created = true
	}
	for h.nconf < nconf {
		for r.Chance(fsP) {
			genFs()
		}
		if r.Chance(0.1) {
			h.in.Steps = append(h.in.Steps, c20Step{Op: "query", Observe: r.Chance(0.5)})
		}
		if r.Chance(0.1) {
			h.in.Steps = append(h.in.Steps, c20Step{Op: "refresh", Observe: true})
		}
		if r.Chance(0.06) {
			var others [][]string
			for k, n := 0, 1+r.Intn(5); k < n; k++ {
				var ds []string
				for j, m := 0, 1+r.Intn(3); j < m; j++ {
					ds = append(ds, hx.Pick(r, all))
				}
				others = append(others, ds)
			}
			h.in.Steps = append(h.in.Steps, c20Step{Op: "others", Others: others, Observe: true})
		}
		if kind == "single" {
			addConf(c20Step{Op: "configure", Opts: genOpts(true)})
		} else {
			switch x := r.Intn(10); {
			case x < 7:
				addConf(c20Step{Op: "dconfigure", Opts: genOpts(true)})
			case x < 8:
				addConf(c20Step{Op: "dget"})
			default:
				addConf(c20Step{Op: "configure", Opts: genOpts(true)}) // Configure on the handle returned by GetDefaultCache
			}
		}
	}
	for r.Chance(fsP) {
		genFs()
	}
	// probes: a Spec file dropped into each final directory and each former one, no explicit refresh
	seen := map[string]bool{}
	k := 0
	for _, d := range curDirs {
		if seen[d] {
			continue
		}
		seen[d] = true
		if !exists[d] {
			h.in.Steps = append(h.in.Steps, c20Step{Op: "mkdir", Dir: d})
			exists[d] = true
		}
		h.in.Steps = append(h.in.Steps, c20Step{Op: "write", Dir: d, Name: fmt.Sprintf("probe%d.json", k), Devs: []string{fmt.Sprintf("probe%d", k)}, Observe: true, Probe: "final"})
		k++
	}
	for _, d := range all {
		if seen[d] || !exists[d] {
			continue
		}
		h.in.Steps = append(h.in.Steps, c20Step{Op: "write", Dir: d, Name: fmt.Sprintf("probe%d.json", k), Devs: []string{fmt.Sprintf("probe%d", k)}, Observe: true, Probe: "former"})
		k++
	}
	return h
}

func (h *c20Hist) materialise() error {
	if err := os.MkdirAll(h.in.CalibDir, 0o755); err != nil {
		return err
	}
	for d, files := range h.fs0 {
		if err := os.MkdirAll(d, 0o755); err != nil {
			return err
		}
		for n, f := range files {
			if err := os.WriteFile(filepath.Join(d, n), c20SpecBytes(n, f.devs, f.bad), 0o644); err != nil {
				return err
			}
		}
	}
	return nil
}

func (h *c20Hist) runChild() {
	inPath, outPath := filepath.Join(h.root, "in.json"), filepath.Join(h.root, "out.json")
	data, _ := json.Marshal(h.in)
	if err := os.WriteFile(inPath, data, 0o644); err != nil {
		h.err = err
		return
	}
	cmd := exec.Command(os.Args[0], "c20child", inPath, outPath)
	cmd.Env = append(os.Environ(), "VERIF_EVENT_LOG="+h.in.EventLog)
	done := make(chan error, 1)
	var stderr strings.Builder
	cmd.Stderr = &stderr
	if err := cmd.Start(); err != nil {
		h.err = err
		return
	}
	go func() { done <- cmd.Wait() }()
	select {
	case err := <-done:
		if err != nil {
			h.err = fmt.Errorf("child: %v: %s", err, stderr.String())
			return
		}
	case <-time.After(300 * time.Second):
		_ = cmd.Process.Kill()
		h.err = fmt.Errorf("child timed out")
		return
	}
	od, err := os.ReadFile(outPath)
	if err != nil {
		h.err = err
		return
	}
	if err := json.Unmarshal(od, &h.out); err != nil {
		h.err = err
		return
	}
	if h.out.Err != "" {
		h.err = fmt.Errorf("child: %s", h.out.Err)
	}
}

func (h *c20Hist) toCase() hx.Case {
	// fs0 term
	var dirs []string
	for _, d := range c20Keys(h.fs0) {
		var files []string
		for _, n := range c20Keys(h.fs0[d]) {
			files = append(files, hx.P(hx.S(n), c20FileTerm(h.fs0[d][n])))
		}
		dirs = append(dirs, hx.P(hx.S(d), hx.L(files)))
	}
	obsAt := map[int]c20Obs{}
	for _, o := range h.out.Obs {
		obsAt[o.Step] = o
	}
	var steps, desc []string
	for i, st := range h.in.Steps {
		if st.Shortage {
			steps = append(steps, "SOp (SetFdShortage true)")
		}
		if st.Op == "straggler" {
			// what happened, in the order the configure machine sees it
			steps = append(steps, hx.C("SOp", hx.C("FsOp", hx.C("WriteFile", hx.S(st.Dir), hx.S("h.json"), "Bad"))))
			steps = append(steps, hx.C("SOp", hx.C("Configure", c20OptsTerm(st.Opts))))
			steps = append(steps, hx.C("SOp", hx.C("FsOp", hx.C("MkDir", hx.S(st.Name)))))
			steps = append(steps, hx.C("SOp", hx.C("FsOp", hx.C("WriteFile", hx.S(st.Name), hx.S("x.json"), c20FileTerm(c20File{[]string{"x0"}, false})))))
			steps = append(steps, hx.C("SOp", hx.C("FsOp", hx.C("RemoveFile", hx.S(st.Dir), hx.S("h.json")))))
		} else {
			steps = append(steps, hx.C("SOp", c20OpTerm(st)))
		}
		if st.Shortage {
			steps = append(steps, "SOp (SetFdShortage false)")
		}
		d := c20DescStep(h.root, st)
		if o, ok := obsAt[i]; ok {
			steps = append(steps, hx.C("SObs", c20ObsTerm(o)))
			rel := func(l []string) []string {
				o := make([]string, len(l))
				for i, x := range l {
					o[i] = strings.TrimPrefix(strings.ReplaceAll(x, h.root+"/", ""), c20Kind+"=")
				}
				return o
			}
			var tr []string
			for _, k := range c20Keys(o.Tracked) {
				tr = append(tr, fmt.Sprintf("%s:%v", strings.TrimPrefix(k, h.root+"/"), o.Tracked[k]))
			}
			d += fmt.Sprintf(" => devs=%v errs=%v dir_errs=%v tracked=%v watcher=%v | fresh: devs=%v errs=%v dir_errs=%v | inotify=%d watches=%d fd+%d goroutines+%d",
				rel(o.Devs), rel(o.Errs), rel(o.DirErrs), tr, o.Has, rel(o.FDevs), rel(o.FErrs), rel(o.FDirErrs), o.Ino, o.Watches, o.Fd, o.Gor)
			if o.Stale {
				d += " STALE-EVENT"
			}
			if !o.Settled {
				d += " (not settled within the deadline)"
			}
		}
		desc = append(desc, d)
	}
	term := hx.C("mkCase20", hx.LS(h.in.Defs), hx.L(dirs), hx.Z(int64(h.out.UnitFd)), hx.Z(int64(h.out.UnitGor)), "[\n  "+strings.Join(steps, ";\n  ")+"]")
	// the scratch root of the history is abbreviated to /h in the terms (a clean absolute prefix: Clean commutes with the renaming);
	// long path literals dominate the evaluation time otherwise
	term = strings.ReplaceAll(term, h.root, "/h")
	class := h.kind
	if h.short > 0 {
		class += "+shortage"
	}
	key, _ := json.Marshal(h.in.Steps)
	return hx.Case{
		Term: term,
		Desc: map[string]interface{}{"cache": h.kind, "reconfigurations": h.nconf, "during_shortage": h.short,
			"unit": fmt.Sprintf("one auto-refresh cache = %d descriptors, %d goroutines", h.out.UnitFd, h.out.UnitGor), "history": desc},
		Key:        strings.ReplaceAll(string(key), h.root, ""),
		Nontrivial: h.nconf >= 2 || h.known != "",
		Class:      class,
		Known:      h.known,
	}
}

func genC20(r *hx.R, tier string, scratch string) (*hx.Suite, error) {
	s := &hx.Suite{
		Property: "C20",
		Imports:  []string{"Base", "Paths", "Configure", "Judge20"},
		CaseType: "case20",
		Judge:    "judge20",
		Shard:    12,
		Rule: "one history per child process: 1-40 (re)configurations (WithSpecDirs over a pool of four directories and the two default directories in clean and " +
			"non-clean spellings, empty lists, repeated directories; WithAutoRefresh on/off; empty option lists) on one cache created by NewCache or on the " +
			"package-level default cache (created by GetDefaultCache or by Configure, reconfigured through cdi.Configure or through the handle), interleaved with " +
			"Spec files written/replaced/removed (loadable, unloadable, non-Spec names) and directories created/removed in current and former directories, explicit " +
			"queries and Refresh calls (cdi.Refresh for the default cache), the same directories given again in another order (precedence only), " +
			"Cache.WriteSpec / RemoveSpec as sources of changes, up to five further caches created, queried, reconfigured and switched off next to the one " +
			"under test (resources counted while they are alive), and RLIMIT_NOFILE lowered to the lowest free descriptor number around randomly chosen (re)configurations. After every " +
			"(re)configuration / Refresh and half of the directory changes: GetSpecDirectories, ListDevices with the defining file of every device " +
			"(GetDevice(..).GetSpec().GetPath()), for the default cache cdi.InjectDevices / cdi.GetErrors against the handle, GetErrors keys, GetSpecDirErrors keys, VerifTracked, " +
			"/proc/self/fd count, inotify instances and watches from fdinfo, runtime.NumGoroutine (all after settling, polled with deadlines) and the same answers " +
			"from a fresh cache created with every option given so far. At the end a probe Spec is dropped into every final and every former directory without " +
			"any explicit refresh. Non-trivial: at least two (re)configurations.",
	}
	nSingle, nDefault, maxConf := 80, 48, 40
	if tier == "thorough" {
		nSingle, nDefault = 400, 240
	}
	if v := os.Getenv("VERIF_C20_N"); v != "" {
		if n, err := strconv.Atoi(v); err == nil {
			nSingle, nDefault = n, n/2
		}
	}
	var hists []*c20Hist
	for _, h := range c20Scripted(scratch) {
		if err := h.materialise(); err != nil {
			return nil, err
		}
		hists = append(hists, h)
	}
	for i := 0; i < nSingle+nDefault; i++ {
		kind := "single"
		if i >= nSingle {
			kind = "default"
		}
		mc := maxConf
		if i%3 == 0 {
			mc = 6 // keep short histories well represented
		}
		if i == 1 || i == nSingle+1 {
			mc = -1
		}
		root := filepath.Join(scratch, fmt.Sprintf("h%d", i))
		var h *c20Hist
		if mc < 0 {
			// one long history of each kind: exactly 40 reconfigurations
			h = c20GenLen(r, kind, root, 40)
		} else {
			h = c20Gen(r, kind, root, mc)
		}
		if err := h.materialise(); err != nil {
			return nil, err
		}
		hists = append(hists, h)
	}
	// debugging aid: VERIF_C20_REPEAT=i:n runs history i n times (fresh directories each time) instead of the whole suite
	if v := os.Getenv("VERIF_C20_REPEAT"); v != "" {
		var idx, n int
		if _, err := fmt.Sscanf(v, "%d:%d", &idx, &n); err == nil && idx < len(hists) {
			src := hists[idx]
			hists = nil
			for k := 0; k < n; k++ {
				root := filepath.Join(scratch, fmt.Sprintf("r%d", k))
				data, _ := json.Marshal(src.in)
				h := &c20Hist{kind: src.kind, root: root, nconf: src.nconf, short: src.short, fs0: map[string]map[string]c20File{}}
				_ = json.Unmarshal([]byte(strings.ReplaceAll(string(data), src.root, root)), &h.in)
				for d, files := range src.fs0 {
					h.fs0[strings.Replace(d, src.root, root, 1)] = files
				}
				if err := h.materialise(); err != nil {
					return nil, err
				}
				hists = append(hists, h)
			}
		}
	}
	sem := make(chan struct{}, 4)
	var wg sync.WaitGroup
	for _, h := range hists {
		wg.Add(1)
		sem <- struct{}{}
		go func(h *c20Hist) {
			defer wg.Done()
			defer func() { <-sem }()
			h.runChild()
		}(h)
	}
	wg.Wait()
	unsettled := 0
	for _, h := range hists {
		if h.err != nil {
			return nil, fmt.Errorf("history %s: %v", h.root, h.err)
		}
		for _, o := range h.out.Obs {
			if !o.Settled {
				unsettled++
			}
		}
		s.Add(h.toCase())
	}
	s.Extra = map[string]interface{}{"x_observations_not_settled_within_deadline": unsettled}
	return s, nil
}

// c20GenLen generates histories until one has exactly n reconfigurations (the generator draws the length at random).
func c20GenLen(r *hx.R, kind, root string, n int) *c20Hist {
	for {
		h := c20Gen(r, kind, root, n)
		if h.nconf == n {
			return h
		}
	}
}
