package main

import (
	"bytes"
	"encoding/json"
	"fmt"
	"math/big"
	"sort"
	"strings"

	"verif/harness/hx"
)

// D is a generic JSON value tree with ordered object members and numbers kept as literals.
// It is what the harness mutates to build malformed documents, and what it decodes the bytes it
// wrote into before printing them as a Gallina `doc` (CDI.Doc).
type dkind int

const (
	dNull dkind = iota
	dBool
	dNum
	dStr
	dArr
	dObj
)

type dmember struct {
	K string
	V *D
}

type D struct {
	K dkind
	B bool
	N string // number literal
	S string
	A []*D
	O []dmember
}

func dnull() *D          { return &D{K: dNull} }
func dbool(b bool) *D    { return &D{K: dBool, B: b} }
func dnum(lit string) *D { return &D{K: dNum, N: lit} }
func dstr(s string) *D   { return &D{K: dStr, S: s} }
func darr(xs ...*D) *D   { return &D{K: dArr, A: xs} }
func dobj(ms ...dmember) *D {
	return &D{K: dObj, O: ms}
}

// parseD decodes JSON bytes into a tree (member order kept, numbers as literals).
func parseD(data []byte) (*D, error) {
	dec := json.NewDecoder(bytes.NewReader(data))
	dec.UseNumber()
	d, err := parseDTok(dec)
	if err != nil {
		return nil, err
	}
	if dec.More() {
		return nil, fmt.Errorf("trailing data")
	}
	return d, nil
}

func parseDTok(dec *json.Decoder) (*D, error) {
	t, err := dec.Token()
	if err != nil {
		return nil, err
	}
	switch v := t.(type) {
	case json.Delim:
		switch v {
		case '[':
			out := &D{K: dArr}
			for dec.More() {
				e, err := parseDTok(dec)
				if err != nil {
					return nil, err
				}
				out.A = append(out.A, e)
			}
			_, err = dec.Token()
			return out, err
		case '{':
			out := &D{K: dObj}
			for dec.More() {
				kt, err := dec.Token()
				if err != nil {
					return nil, err
				}
				key, ok := kt.(string)
				if !ok {
					return nil, fmt.Errorf("non-string key")
				}
				e, err := parseDTok(dec)
				if err != nil {
					return nil, err
				}
				out.O = append(out.O, dmember{key, e})
			}
			_, err = dec.Token()
			return out, err
		}
		return nil, fmt.Errorf("unexpected delimiter %v", v)
	case string:
		return dstr(v), nil
	case json.Number:
		return dnum(string(v)), nil
	case bool:
		return dbool(v), nil
	case nil:
		return dnull(), nil
	}
	return nil, fmt.Errorf("unexpected token %T", t)
}

func jsonString(s string) string {
	var b bytes.Buffer
	enc := json.NewEncoder(&b)
	enc.SetEscapeHTML(false)
	_ = enc.Encode(s)
	return strings.TrimSuffix(b.String(), "\n")
}

// JSON renders the tree as JSON text (member order kept).
func (d *D) JSON() string {
	var b strings.Builder
	d.writeJSON(&b)
	return b.String()
}

func (d *D) writeJSON(b *strings.Builder) {
	switch d.K {
	case dNull:
		b.WriteString("null")
	case dBool:
		if d.B {
			b.WriteString("true")
		} else {
			b.WriteString("false")
		}
	case dNum:
		b.WriteString(d.N)
	case dStr:
		b.WriteString(jsonString(d.S))
	case dArr:
		b.WriteByte('[')
		for i, e := range d.A {
			if i > 0 {
				b.WriteByte(',')
			}
			e.writeJSON(b)
		}
		b.WriteByte(']')
	case dObj:
		b.WriteByte('{')
		for i, m := range d.O {
			if i > 0 {
				b.WriteByte(',')
			}
			b.WriteString(jsonString(m.K))
			b.WriteByte(':')
			m.V.writeJSON(b)
		}
		b.WriteByte('}')
	}
}

// Clone copies the tree.
func (d *D) Clone() *D {
	c := *d
	if d.A != nil {
		c.A = make([]*D, len(d.A))
		for i, e := range d.A {
			c.A[i] = e.Clone()
		}
	}
	if d.O != nil {
		c.O = make([]dmember, len(d.O))
		for i, m := range d.O {
			c.O[i] = dmember{m.K, m.V.Clone()}
		}
	}
	return &c
}

// Get returns the first member with the given name, or nil.
func (d *D) Get(key string) *D {
	if d == nil || d.K != dObj {
		return nil
	}
	for _, m := range d.O {
		if m.K == key {
			return m.V
		}
	}
	return nil
}

// Set replaces (or appends) a member.
func (d *D) Set(key string, v *D) {
	for i, m := range d.O {
		if m.K == key {
			d.O[i].V = v
			return
		}
	}
	d.O = append(d.O, dmember{key, v})
}

// Rename changes the name of a member.
func (d *D) Rename(old, new string) {
	for i, m := range d.O {
		if m.K == old {
			d.O[i].K = new
			return
		}
	}
}

// Coq prints the tree as a CDI.Doc.doc term. Object members are sorted by name (byte order, stable) so
// that the JSON and the YAML spelling of a document print identically; numbers are printed by value:
// DInt for integral values, DFrac in lowest terms otherwise.
func (d *D) Coq() string {
	switch d.K {
	case dNull:
		return "DNull"
	case dBool:
		return hx.C("DBool", hx.B(d.B))
	case dNum:
		r, ok := new(big.Rat).SetString(d.N)
		if !ok {
			return "(DStr \"<unparsable number>\")"
		}
		z := func(x *big.Int) string {
			if x.Sign() < 0 {
				return "(" + x.String() + ")%Z"
			}
			return x.String() + "%Z"
		}
		if r.IsInt() {
			return hx.C("DInt", z(r.Num()))
		}
		return hx.C("DFrac", z(r.Num()), r.Denom().String()+"%positive")
	case dStr:
		return hx.C("DStr", hx.S(d.S))
	case dArr:
		items := make([]string, len(d.A))
		for i, e := range d.A {
			items[i] = e.Coq()
		}
		return hx.C("DArr", hx.L(items))
	case dObj:
		ms := make([]dmember, len(d.O))
		copy(ms, d.O)
		sort.SliceStable(ms, func(i, j int) bool { return ms[i].K < ms[j].K })
		items := make([]string, len(ms))
		for i, m := range ms {
			items[i] = hx.P(hx.S(m.K), m.V.Coq())
		}
		return hx.C("DObj", hx.L(items))
	}
	return "DNull"
}

// hasDuplicateMembers reports whether some object has two members with the same name.
func (d *D) hasDuplicateMembers() bool {
	switch d.K {
	case dArr:
		for _, e := range d.A {
			if e.hasDuplicateMembers() {
				return true
			}
		}
	case dObj:
		seen := map[string]bool{}
		for _, m := range d.O {
			if seen[m.K] || m.V.hasDuplicateMembers() {
				return true
			}
			seen[m.K] = true
		}
	}
	return false
}
