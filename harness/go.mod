module verif/harness

go 1.20

require (
	github.com/fsnotify/fsnotify v1.5.1
	github.com/opencontainers/runtime-spec v1.1.0
	golang.org/x/sys v0.19.0
	sigs.k8s.io/yaml v1.4.0
	tags.cncf.io/container-device-interface v1.0.1
	tags.cncf.io/container-device-interface/schema v0.0.0
	tags.cncf.io/container-device-interface/specs-go v1.0.0
)

require (
	github.com/opencontainers/runtime-tools v0.9.1-0.20221107090550-2e043c6bd626 // indirect
	github.com/syndtr/gocapability v0.0.0-20200815063812-42c35b437635 // indirect
	github.com/xeipuuv/gojsonpointer v0.0.0-20180127040702-4e3ac2762d5f // indirect
	github.com/xeipuuv/gojsonreference v0.0.0-20180127040603-bd5ef7bd5415 // indirect
	github.com/xeipuuv/gojsonschema v1.2.0 // indirect
	golang.org/x/mod v0.19.0 // indirect
	gopkg.in/yaml.v3 v3.0.1 // indirect
)

replace (
	tags.cncf.io/container-device-interface => /repo
	tags.cncf.io/container-device-interface/schema => /repo/schema
	tags.cncf.io/container-device-interface/specs-go => /repo/specs-go
)
