#!/usr/bin/env python3
"""Renders seeded/MATRIX.json as the table of DESIGN.md section 14 (between the SEEDED-TABLE markers)."""
import json, os, re
VERIF = os.path.dirname(os.path.dirname(os.path.abspath(__file__)))
d = json.load(open(os.path.join(VERIF, "seeded", "MATRIX.json")))
notes = json.load(open(os.path.join(VERIF, "seeded", "HISTORY.json"))) if os.path.exists(os.path.join(VERIF, "seeded", "HISTORY.json")) else {}
lines = ["| change | what it does | needs | check | result on the final machinery | history |", "|---|---|---|---|---|---|"]
for sid in sorted(d):
    mp = os.path.join(VERIF, "seeded", sid, "meta.json")
    m = json.load(open(mp)) if os.path.exists(mp) else {}
    title = m.get("title", "")
    title = re.sub(r"^C\d+[-/ ]?\w*\s*[:—-]\s*", "", title).replace("|", "/")[:140]
    needs = re.sub(r"\s+", " ", m.get("needs_to_manifest", "")).replace("|", "/")[:160]
    r = d[sid]
    res = r["result"] + (" (" + r["kind"] + ")" if r.get("kind") else "")
    lines.append("| %s | %s | %s | %s | %s | %s |" % (sid, title, needs, r["property"], res, notes.get(sid, "")))
table = "\n".join(lines)
p = os.path.join(VERIF, "DESIGN.md")
s = open(p).read()
s = re.sub(r"<!-- SEEDED-TABLE-BEGIN -->.*?<!-- SEEDED-TABLE-END -->", "<!-- SEEDED-TABLE-BEGIN -->\n" + table + "\n<!-- SEEDED-TABLE-END -->", s, flags=re.S)
open(p, "w").write(s)
print(len(lines) - 2, "rows")
